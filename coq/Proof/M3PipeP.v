(* Proofs about Model/M3Pipe.v, part 1: the batching loop neither drops nor
   duplicates; the bounded queue under every schedule; the tag cache with the
   check of a hit returns the allocated tags for every key assignment;
   refinement of the reference semantics; timestamps; common tags. *)
From Coq Require Import ZArith List Bool Arith Lia Permutation.
From Tally Require Import Base.ObsCore Gen.Params Model.Varint Model.Thrift Model.Buckets Model.M3Pipe.
Import ListNotations.
Open Scope Z_scope.

(* ================================================================== *)
(* 1. process(): concatenating the batches gives the queued metrics in order *)

Definition cflat (c : cons) : list (nat * metric) := concat (cout c) ++ List.rev (cmets c).

Lemma emit1_flat c : cflat (emit1 c) = cflat c.
Proof.
  unfold cflat, emit1. destruct (cmets c) as [|x l] eqn:E; cbn [cout cmets List.rev].
  - rewrite app_nil_r. reflexivity.
  - rewrite concat_app. cbn [concat]. rewrite !app_nil_r. reflexivity.
Qed.

Lemma emit1_mets c : cmets (emit1 c) = [].
Proof. unfold emit1. destruct (cmets c); reflexivity. Qed.

Lemma cstep_flat cfg c it : cflat (cstep cfg c it) = cflat c ++ item_sent cfg it.
Proof.
  destruct it as [o m sz bid br|]; cbn [cstep item_sent].
  - set (c' := if cbytes c + sz >? cfree cfg then emit1 c else c).
    assert (Hc : cflat c' = cflat c) by (subst c'; destruct (_ >? _); [apply emit1_flat|reflexivity]).
    unfold cflat at 1. cbn [cout cmets List.rev]. rewrite app_assoc. fold (cflat c'). rewrite Hc. reflexivity.
  - rewrite app_nil_r. destruct (_ || _); [apply emit1_flat|reflexivity].
Qed.

Lemma fold_cstep_flat cfg items : forall c,
  cflat (fold_left (cstep cfg) items c) = cflat c ++ flat_map (item_sent cfg) items.
Proof.
  induction items as [|it r IH]; intro c; cbn [fold_left flat_map].
  - rewrite app_nil_r. reflexivity.
  - rewrite IH, cstep_flat, <- app_assoc. reflexivity.
Qed.

Lemma cfinal_concat c : concat (cfinal c) = cflat c.
Proof.
  unfold cfinal. rewrite <- (emit1_flat c). unfold cflat. rewrite emit1_mets. cbn. rewrite app_nil_r. reflexivity.
Qed.

Theorem process_from_concat cfg c items :
  concat (process_from cfg c items) = cflat c ++ flat_map (item_sent cfg) items.
Proof. unfold process_from. rewrite cfinal_concat. apply fold_cstep_flat. Qed.

Theorem process_concat cfg items : concat (process cfg items) = flat_map (item_sent cfg) items.
Proof. unfold process. rewrite process_from_concat. reflexivity. Qed.

(* no emitted batch is empty *)
Lemma emit1_nonempty c : Forall (fun b => b <> []) (cout c) -> Forall (fun b => b <> []) (cout (emit1 c)).
Proof.
  intro Hh. unfold emit1. destruct (cmets c) as [|x l] eqn:E; cbn [cout]; [assumption|].
  apply Forall_app; split; [assumption|]. constructor; [|constructor].
  intro Hn. apply (f_equal (@length _)) in Hn. rewrite rev_length in Hn. discriminate.
Qed.
Lemma cstep_nonempty cfg c it : Forall (fun b => b <> []) (cout c) -> Forall (fun b => b <> []) (cout (cstep cfg c it)).
Proof.
  intro Hh. destruct it as [o m sz bid br|]; cbn [cstep cout].
  - destruct (_ >? _); [apply emit1_nonempty|]; assumption.
  - destruct (_ || _); [apply emit1_nonempty|]; assumption.
Qed.
Theorem process_nonempty cfg items : Forall (fun b => b <> []) (process cfg items).
Proof.
  unfold process, process_from, cfinal. apply emit1_nonempty.
  assert (G : forall c, Forall (fun b : obatch => b <> []) (cout c) ->
                        Forall (fun b : obatch => b <> []) (cout (fold_left (cstep cfg) items c))).
  { induction items as [|it r IH]; intros c Hc; cbn [fold_left]; [assumption|]. apply IH, cstep_nonempty, Hc. }
  apply G. constructor.
Qed.

(* ================================================================== *)
(* 2. the bounded queue: for every capacity and every schedule the outcome
      of Close is the consumer run over the whole sequence *)

Lemma sstep_inv cfg cap s b :
  process_from cfg (sc (sstep cfg cap s b)) (sq (sstep cfg cap s b) ++ stodo (sstep cfg cap s b)) =
  process_from cfg (sc s) (sq s ++ stodo s).
Proof.
  unfold sstep. destruct b.
  - destruct (stodo s) as [|x r] eqn:E; [rewrite E; reflexivity|].
    destruct (_ <? _)%nat; cbn [sc sq stodo]; [|rewrite E; reflexivity].
    rewrite <- app_assoc. reflexivity.
  - destruct (sq s) as [|x r] eqn:E; [rewrite E; reflexivity|].
    cbn [sc sq stodo]. reflexivity.
Qed.

Lemma srun_inv cfg cap sched : forall s,
  process_from cfg (sc (srun cfg cap sched s)) (sq (srun cfg cap sched s) ++ stodo (srun cfg cap sched s)) =
  process_from cfg (sc s) (sq s ++ stodo s).
Proof.
  induction sched as [|b r IH]; intro s; cbn [srun fold_left]; [reflexivity|].
  change (fold_left (sstep cfg cap) r (sstep cfg cap s b)) with (srun cfg cap r (sstep cfg cap s b)).
  rewrite IH. apply sstep_inv.
Qed.

Theorem sched_independent cfg cap sched items :
  let s := srun cfg cap sched (sinit items) in
  stodo s = [] -> sclose cfg s = process cfg items.
Proof.
  intros s Ht. unfold sclose. pose proof (srun_inv cfg cap sched (sinit items)) as Hi.
  fold s in Hi. rewrite Ht, app_nil_r in Hi. exact Hi.
Qed.

(* in any state — whatever is still queued or held by the consumer — Close emits
   it: emitted so far ++ held ++ queued *)
Theorem close_emits_queued cfg s :
  concat (sclose cfg s) = cflat (sc s) ++ flat_map (item_sent cfg) (sq s).
Proof. unfold sclose. apply process_from_concat. Qed.

(* no deadlock: with capacity >= 1, while a producer still has something to
   send, either it or the consumer can move *)
Theorem sched_progress cfg cap s : (1 <= cap)%nat -> stodo s <> [] ->
  sstep cfg cap s true <> s \/ sstep cfg cap s false <> s.
Proof.
  intros Hc Ht. unfold sstep. destruct (stodo s) as [|x r] eqn:E; [congruence|].
  destruct (Nat.ltb_spec (length (sq s)) cap) as [L|L].
  - left. intro Hh. apply (f_equal (fun z => length (stodo z))) in Hh. cbn [stodo] in Hh. rewrite E in Hh.
    cbn in Hh. lia.
  - right. destruct (sq s) as [|y q] eqn:Eq; [cbn in L; lia|].
    intro Hh. apply (f_equal (fun z => length (sq z))) in Hh. cbn [sq] in Hh. rewrite Eq in Hh. cbn in Hh. lia.
Qed.

(* and a schedule that lets every producer finish exists for every capacity >= 1 *)
Fixpoint alternate (n : nat) : list bool :=
  match n with O => [] | S m => true :: false :: alternate m end.

Lemma alternate_runs cfg cap : (1 <= cap)%nat -> forall items c,
  exists c', srun cfg cap (alternate (length items)) (SState items [] c) = SState [] [] c'.
Proof.
  intros Hc items. induction items as [|x r IH]; intro c; unfold srun; cbn [length alternate fold_left].
  - eexists; reflexivity.
  - assert (E1 : sstep cfg cap (SState (x :: r) [] c) true = SState r [x] c).
    { unfold sstep. cbn [stodo sq sc length app]. destruct (Nat.ltb_spec 0 cap); [reflexivity|lia]. }
    assert (E2 : sstep cfg cap (SState r [x] c) false = SState r [] (cstep cfg c x)) by reflexivity.
    rewrite E1, E2. apply (IH (cstep cfg c x)).
Qed.

Theorem sched_completes cfg cap items : (1 <= cap)%nat ->
  stodo (srun cfg cap (alternate (length items)) (sinit items)) = [].
Proof.
  intro Hc. destruct (alternate_runs cfg cap Hc items cons0) as [c' Hh]. unfold sinit. rewrite Hh. reflexivity.
Qed.

(* ================================================================== *)
(* 3. the tag cache *)

Definition tm_ok (m : tagmap) : Prop := NoDup (map fst m).   (* a Go map: distinct keys *)

Definition op_wf (o : op) : Prop :=
  match o with
  | OAlloc _ _ tm _ _ => tm_ok tm
  | OAllocH _ _ tm _ _ _ => tm_ok tm
  | _ => True
  end.

Definition cache_ok (c : tcache) : Prop := Forall (fun e => NoDup (map tname (snd e))) c.

Lemma cfind_ok c key t : cache_ok c -> cfind key c = Some t -> NoDup (map tname t).
Proof.
  induction c as [|[k t'] r IH]; cbn; intros Hc Hf; [discriminate|].
  inversion Hc as [|? ? H1 H2]; subst. destruct (k =? key); [injection Hf as <-; exact H1 | apply IH; assumption].
Qed.

Lemma lookup_in k m v : lookup k m = Some v -> In (k, v) m.
Proof.
  induction m as [|[k' v'] r IH]; cbn; [discriminate|].
  destruct (zs_eqb k' k) eqn:E.
  - intro Hh. injection Hh as <-. apply zs_eqb_spec in E. subst. left. reflexivity.
  - intro Hh. right. apply IH, Hh.
Qed.

Lemma conv_names m : map tname (conv m) = map fst m.
Proof. unfold conv. rewrite map_map. reflexivity. Qed.

Lemma same_tags_perm cached m : NoDup (map tname cached) -> same_tags cached m = true ->
  Permutation cached (conv m).
Proof.
  intros Hn Hs. unfold same_tags in Hs. apply andb_true_iff in Hs as [Hl Hf].
  apply Nat.eqb_eq in Hl. rewrite forallb_forall in Hf.
  apply NoDup_Permutation_bis.
  - eapply NoDup_map_inv; exact Hn.
  - unfold conv. rewrite map_length. lia.
  - intros t Ht. specialize (Hf t Ht). destruct (lookup (tname t) m) as [v|] eqn:E; [|discriminate].
    apply zs_eqb_spec in Hf. subst v. apply lookup_in in E.
    unfold conv. apply in_map_iff. exists (tname t, tvalue t). split; [destruct t; reflexivity|exact E].
Qed.

Lemma convert_fixed c key m : cache_ok c -> tm_ok m ->
  cache_ok (fst (convert MFixed c key m)) /\ Permutation (snd (convert MFixed c key m)) (conv m).
Proof.
  intros Hc Hm. unfold convert. destruct (cfind key c) as [cached|] eqn:E.
  - destruct (same_tags cached m) eqn:Es; cbn [fst snd].
    + split; [assumption|]. apply same_tags_perm; [eapply cfind_ok; eassumption|assumption].
    + split; [assumption|reflexivity].
  - cbn [fst snd]. split; [|reflexivity]. constructor; [|assumption]. cbn [snd]. rewrite conv_names. exact Hm.
Qed.

(* ================================================================== *)
(* 4. the cached run refines the reference run, up to the order of tags *)

Definition opt_perm (a b : option (list tag)) : Prop :=
  match a, b with
  | None, None => True
  | Some x, Some y => Permutation x y
  | _, _ => False
  end.
Definition mequiv (a b : metric) : Prop :=
  mname a = mname b /\ mval a = mval b /\ mts a = mts b /\ opt_perm (mtags a) (mtags b).
Definition pm_equiv (a b : nat * metric) : Prop := fst a = fst b /\ mequiv (snd a) (snd b).

Definition hequiv (a b : handle) : Prop :=
  match a, b with
  | HMet k n t s, HMet k' n' t' s' => k = k' /\ n = n' /\ opt_perm t t' /\ s = s'
  | HHist hk n t sp f, HHist hk' n' t' sp' f' => hk = hk' /\ n = n' /\ Permutation t t' /\ sp = sp' /\ f = f'
  | _, _ => False
  end.
Definition qequiv (a b : qitem) : Prop :=
  match a, b with
  | QMet o m s bi br, QMet o' m' s' bi' br' => o = o' /\ mequiv m m' /\ s = s' /\ bi = bi' /\ br = br'
  | QMark, QMark => True
  | _, _ => False
  end.

Lemma opt_perm_refl a : opt_perm a a.
Proof. destruct a; cbn; auto. Qed.
Lemma mequiv_refl a : mequiv a a.
Proof. repeat split; try reflexivity. apply opt_perm_refl. Qed.
Lemma qequiv_refl a : qequiv a a.
Proof. destruct a; cbn; auto using mequiv_refl. Qed.
Lemma Forall2_refl {A} (R : A -> A -> Prop) : (forall a, R a a) -> forall l, Forall2 R l l.
Proof. intros Hr l; induction l; constructor; auto. Qed.

Lemma Forall2_nth_error {A B} (R : A -> B -> Prop) l1 l2 : Forall2 R l1 l2 -> forall n,
  match nth_error l1 n, nth_error l2 n with
  | Some a, Some b => R a b
  | None, None => True
  | _, _ => False
  end.
Proof.
  induction 1 as [|a b l1 l2 Hab Hl IH]; intro n; destruct n as [|n]; cbn; auto. apply IH.
Qed.

Record sim (s1 s2 : pstate) : Prop := {
  sim_cache : cache_ok (pcache s1);
  sim_handles : Forall2 hequiv (phandles s1) (phandles s2);
  sim_now : pnow s1 = pnow s2
}.

Lemma reported_equiv k n t t' v ts : opt_perm t t' -> mequiv (reported k n t v ts) (reported k n t' v ts).
Proof. intro Hp. unfold reported, mequiv. cbn. auto. Qed.

Lemma pstep_sim cfg s1 s2 o : sim s1 s2 -> op_wf o ->
  sim (fst (pstep MFixed cfg s1 o)) (fst (pstep MRef cfg s2 o)) /\
  Forall2 qequiv (snd (pstep MFixed cfg s1 o)) (snd (pstep MRef cfg s2 o)).
Proof.
  intros [Hc Hh Hn] Hw. destruct o as [k name tm key size|hk name tm key spec szf|pid h k v|pid h hk ub v|ints|v];
    cbn [pstep].
  - destruct tm as [|kv tm'].
    + cbn [fst snd]. split; [|constructor]. split; cbn [pcache phandles pnow]; auto.
      apply Forall2_app; [assumption|]. constructor; [|constructor]. cbn. auto.
    + destruct (convert_fixed (pcache s1) key (kv :: tm') Hc Hw) as [Hc' Hp].
      destruct (convert MFixed (pcache s1) key (kv :: tm')) as [c t]. cbn [convert fst snd] in *.
      split; [|constructor]. split; cbn [pcache phandles pnow]; auto.
      apply Forall2_app; [assumption|]. constructor; [|constructor]. cbn. auto.
  - destruct (convert_fixed (pcache s1) key tm Hc Hw) as [Hc' Hp].
    destruct (convert MFixed (pcache s1) key tm) as [c t]. cbn [convert fst snd] in *.
    split; [|constructor]. split; cbn [pcache phandles pnow]; auto.
    apply Forall2_app; [assumption|]. constructor; [|constructor]. cbn. auto.
  - pose proof (Forall2_nth_error _ _ _ Hh h) as Hnth.
    destruct (nth_error (phandles s1) h) as [[k1 n1 t1 z1|? ? ? ? ?]|], (nth_error (phandles s2) h) as [[k2 n2 t2 z2|? ? ? ? ?]|];
      cbn in Hnth; try contradiction; cbn [fst snd]; try (split; [split; assumption|constructor]).
    destruct Hnth as (-> & -> & Hp & ->).
    destruct (k =? k2); cbn [fst snd]; (split; [split; assumption|]); [|constructor].
    constructor; [|constructor]. cbn. rewrite Hn. repeat split; auto using reported_equiv.
  - pose proof (Forall2_nth_error _ _ _ Hh h) as Hnth.
    destruct (nth_error (phandles s1) h) as [[? ? ? ?|hk1 n1 t1 sp1 f1]|], (nth_error (phandles s2) h) as [[? ? ? ?|hk2 n2 t2 sp2 f2]|];
      cbn in Hnth; try contradiction; cbn [fst snd]; try (split; [split; assumption|constructor]).
    destruct Hnth as (-> & -> & Hp & -> & ->).
    destruct (kind_eqb hk hk2); cbn [fst snd]; [|split; [split; assumption|constructor]].
    destruct (_ <? _)%nat; cbn [fst snd]; [|split; [split; assumption|constructor]].
    destruct (bucket_at cfg hk2 sp2 _) as [[u id] rg]. cbn [fst snd].
    split; [split; assumption|]. constructor; [|constructor]. cbn. rewrite Hn.
    repeat split; auto; try (apply reported_equiv; exact Hp).
  - cbn [fst snd]. split; [split; assumption|]. rewrite Hn. apply Forall2_refl. apply qequiv_refl.
  - cbn [fst snd]. split; [|constructor]. split; cbn [pcache phandles pnow]; auto.
Qed.

Definition ixequiv (a b : nat * qitem) : Prop := fst a = fst b /\ qequiv (snd a) (snd b).

Lemma enq_from_sim cfg ops : forall i s1 s2, sim s1 s2 -> Forall op_wf ops ->
  Forall2 ixequiv (enq_from MFixed cfg i s1 ops) (enq_from MRef cfg i s2 ops).
Proof.
  induction ops as [|o r IH]; intros i s1 s2 Hs Hw; cbn [enq_from]; [constructor|].
  inversion Hw as [|? ? Ho Hr]; subst.
  destruct (pstep_sim cfg s1 s2 o Hs Ho) as [Hs' Hi].
  destruct (pstep MFixed cfg s1 o) as [s1' i1], (pstep MRef cfg s2 o) as [s2' i2]. cbn [fst snd] in *.
  apply Forall2_app; [|apply IH; assumption].
  clear -Hi. induction Hi; cbn; constructor; auto. split; auto.
Qed.

Lemma sim0 t0 : sim (pstate0 t0) (pstate0 t0).
Proof. split; cbn; constructor. Qed.

(* C13_tags_intact, item level: for every key assignment the queued items of the
   cached run are those of the cache-free run *)
Theorem enq_refines cfg t0 ops : Forall op_wf ops ->
  Forall2 qequiv (enq MFixed cfg t0 ops) (enq MRef cfg t0 ops).
Proof.
  intro Hw. unfold enq, enq_ix. pose proof (enq_from_sim cfg ops 1%nat _ _ (sim0 t0) Hw) as Hh.
  induction Hh as [|a b l1 l2 [_ Hab] Hl IH]; cbn; constructor; auto.
Qed.

Lemma sent_equiv cfg m m' bid br : mequiv m m' -> mequiv (sent cfg m bid br) (sent cfg m' bid br).
Proof.
  intros (H1 & H2 & H3 & H4). unfold sent. destruct br; [repeat split; assumption|].
  unfold mequiv. cbn. repeat split; auto.
  destruct (mtags m), (mtags m'); cbn in H4; try contradiction; [apply Permutation_app_tail; assumption | reflexivity].
Qed.

Lemma item_sent_equiv cfg a b : qequiv a b -> Forall2 pm_equiv (item_sent cfg a) (item_sent cfg b).
Proof.
  destruct a, b; cbn; try contradiction; [|constructor].
  intros (-> & Hm & -> & -> & ->). constructor; [|constructor]. split; [reflexivity|]. cbn. apply sent_equiv, Hm.
Qed.

Lemma flat_map_equiv cfg l1 l2 : Forall2 qequiv l1 l2 ->
  Forall2 pm_equiv (flat_map (item_sent cfg) l1) (flat_map (item_sent cfg) l2).
Proof. induction 1; cbn; [constructor|]. apply Forall2_app; [apply item_sent_equiv; assumption|assumption]. Qed.

(* C13_multiset_preserved *)
Theorem multiset_preserved cfg t0 ops cap sched : Forall op_wf ops ->
  let s := srun cfg cap sched (sinit (enq MFixed cfg t0 ops)) in
  stodo s = [] ->
  Forall2 pm_equiv (concat (sclose cfg s)) (reference cfg t0 ops).
Proof.
  intros Hw s Ht. unfold s. rewrite sched_independent by exact Ht.
  rewrite process_concat. unfold reference. apply flat_map_equiv, enq_refines, Hw.
Qed.

(* per producer: filtering both sides by the owner keeps the correspondence *)
Lemma Forall2_filter_owner p l1 l2 : Forall2 pm_equiv l1 l2 ->
  Forall2 mequiv (map snd (filter (fun x => Nat.eqb (fst x) p) l1))
                 (map snd (filter (fun x => Nat.eqb (fst x) p) l2)).
Proof.
  induction 1 as [|a b l1 l2 [Hf Hm] Hl IH]; cbn; [constructor|].
  rewrite Hf. destruct (Nat.eqb (fst b) p); cbn; [constructor|]; assumption.
Qed.

Theorem per_producer cfg t0 ops cap sched p : Forall op_wf ops ->
  let s := srun cfg cap sched (sinit (enq MFixed cfg t0 ops)) in
  stodo s = [] ->
  Forall2 mequiv (map snd (filter (fun x => Nat.eqb (fst x) p) (concat (sclose cfg s))))
                 (map snd (filter (fun x => Nat.eqb (fst x) p) (reference cfg t0 ops))).
Proof. intros Hw s Ht. apply Forall2_filter_owner. apply multiset_preserved; assumption. Qed.

(* the handle table: every allocated handle carries the tags it was allocated with *)
Theorem handles_intact cfg t0 ops : Forall op_wf ops ->
  Forall2 hequiv (phandles (prun MFixed cfg t0 ops)) (phandles (prun MRef cfg t0 ops)).
Proof.
  intro Hw. unfold prun.
  assert (G : forall s1 s2, sim s1 s2 ->
            sim (fold_left (fun s o => fst (pstep MFixed cfg s o)) ops s1)
                (fold_left (fun s o => fst (pstep MRef cfg s o)) ops s2)).
  { induction ops as [|o r IH]; intros s1 s2 Hs; cbn [fold_left]; [assumption|].
    inversion Hw; subst. apply IH; [assumption|]. apply pstep_sim; assumption. }
  apply (G _ _ (sim0 t0)).
Qed.

(* ================================================================== *)
(* 5. timestamps *)

Definition item_ts (it : qitem) : option Z := match it with QMet _ m _ _ _ => Some (mts m) | QMark => None end.

Definition ticks_ok (clock : nat -> Z) (i : nat) (ops : list op) : Prop :=
  forall j v, nth_error ops j = Some (OTick v) -> clock 0%nat <= v <= clock (i + j)%nat.

Lemma pstep_ts md cfg s o it : In it (snd (pstep md cfg s o)) -> forall ts, item_ts it = Some ts -> ts = pnow s.
Proof.
  destruct o as [k name tm key size|hk name tm key spec szf|pid h k v|pid h hk ub v|ints|v]; cbn [pstep].
  - destruct tm; [|destruct (convert _ _ _ _)]; cbn [snd In]; tauto.
  - destruct (convert _ _ _ _); cbn [snd In]; tauto.
  - destruct (nth_error _ _) as [[k' n t z|? ? ? ? ?]|]; cbn [snd In]; try tauto.
    destruct (k =? k'); cbn [snd In]; [|tauto]. intros [<-|[]] ts. cbn. congruence.
  - destruct (nth_error _ _) as [[? ? ? ?|hk' n t sp f]|]; cbn [snd In]; try tauto.
    destruct (kind_eqb hk hk'); cbn [snd In]; [|tauto].
    match goal with |- context [if ?b then _ else _] => destruct b end; cbn [snd In]; [|tauto].
    destruct (bucket_at _ _ _ _) as [[u id] rg]. cbn [snd In]. intros [<-|[]] ts. cbn. congruence.
  - cbn [snd]. intros Hi ts. apply in_app_or in Hi as [Hi|[<-|[]]]; [|discriminate].
    apply in_map_iff in Hi as ([m z] & <- & _). cbn. congruence.
  - cbn. tauto.
Qed.

Lemma pstep_now md cfg s o : pnow (fst (pstep md cfg s o)) = match o with OTick v => v | _ => pnow s end.
Proof.
  destruct o as [k name tm key size|hk name tm key spec szf|pid h k v|pid h hk ub v|ints|v]; cbn [pstep].
  - destruct tm; [|destruct (convert _ _ _ _)]; reflexivity.
  - destruct (convert _ _ _ _); reflexivity.
  - destruct (nth_error _ _) as [[k' n t z|? ? ? ? ?]|]; try reflexivity. destruct (k =? k'); reflexivity.
  - destruct (nth_error _ _) as [[? ? ? ?|hk' n t sp f]|]; try reflexivity.
    destruct (kind_eqb hk hk'); [|reflexivity].
    match goal with |- context [if ?b then _ else _] => destruct b end; [|reflexivity].
    destruct (bucket_at _ _ _ _) as [[u id] rg]. reflexivity.
  - reflexivity.
  - reflexivity.
Qed.

Lemma enq_from_bracket md cfg clock : (forall a b, (a <= b)%nat -> clock a <= clock b) ->
  forall ops i s, clock 0%nat <= pnow s <= clock i -> ticks_ok clock i ops ->
  forall j it ts, In (j, it) (enq_from md cfg i s ops) -> item_ts it = Some ts ->
  clock 0%nat <= ts <= clock j.
Proof.
  intros Hmono ops. induction ops as [|o r IH]; intros i s Hs Ht j it ts Hin Hts; cbn [enq_from] in Hin; [contradiction|].
  pose proof (pstep_ts md cfg s o) as Hp. pose proof (pstep_now md cfg s o) as Hn.
  destruct (pstep md cfg s o) as [s' its]. cbn [fst snd] in *.
  apply in_app_or in Hin as [Hin|Hin].
  - apply in_map_iff in Hin as (x & Hx & Hin). injection Hx as Hj Hx. subst j x.
    rewrite (Hp it Hin ts Hts). exact Hs.
  - apply (IH (S i) s') with (it := it); try assumption.
    + rewrite Hn. destruct o; try (split; [apply Hs|]; eapply Z.le_trans; [apply Hs|apply Hmono; lia]).
      specialize (Ht 0%nat v eq_refl). rewrite Nat.add_0_r in Ht.
      split; [apply Ht|]. eapply Z.le_trans; [apply Ht|apply Hmono; lia].
    + intros j' v' Hj. specialize (Ht (S j') v' Hj). replace (S i + j')%nat with (i + S j')%nat by lia. exact Ht.
Qed.

(* C13_timestamp_bracket *)
Theorem timestamp_bracket md cfg clock ops :
  (forall a b, (a <= b)%nat -> clock a <= clock b) -> ticks_ok clock 1 ops ->
  forall j it ts, In (j, it) (enq_ix md cfg (clock 0%nat) ops) -> item_ts it = Some ts ->
  clock 0%nat <= ts <= clock j.
Proof.
  intros Hm Ht. apply (enq_from_bracket md cfg clock Hm ops 1%nat (pstate0 (clock 0%nat))); [|assumption].
  cbn. split; [lia|apply Hm; lia].
Qed.

(* what is sent keeps the item's timestamp, name and value *)
Lemma sent_ts cfg m bid br : mts (sent cfg m bid br) = mts m /\ mname (sent cfg m bid br) = mname m /\
  mval (sent cfg m bid br) = mval m.
Proof. unfold sent. destruct br; auto. Qed.

(* ================================================================== *)
(* 6. common tags *)

Theorem common_every_batch cfg (bs : list obatch) b :
  In b bs -> bcommon (to_batch cfg b) = Some (ccommon cfg).
Proof. reflexivity. Qed.

Lemma zs_eqb_refl k : zs_eqb k k = true.
Proof. apply zs_eqb_spec. reflexivity. Qed.
Lemma zs_eqb_neq a b : a <> b -> zs_eqb a b = false.
Proof. intro Hn. destruct (zs_eqb a b) eqn:E; [apply zs_eqb_spec in E; contradiction|reflexivity]. Qed.

Lemma lookup_mset_same k v m : lookup k (mset k v m) = Some v.
Proof.
  induction m as [|[k' v'] r IH]; cbn; [rewrite zs_eqb_refl; reflexivity|].
  destruct (zs_eqb k' k) eqn:E; cbn; [rewrite zs_eqb_refl; reflexivity|rewrite E; exact IH].
Qed.
Lemma lookup_mset_other k k2 v m : k <> k2 -> lookup k2 (mset k v m) = lookup k2 m.
Proof.
  intro Hn. induction m as [|[k' v'] r IH]; cbn; [rewrite zs_eqb_neq by assumption; reflexivity|].
  destruct (zs_eqb k' k) eqn:E; cbn.
  - apply zs_eqb_spec in E. subst k'. rewrite !zs_eqb_neq by assumption. reflexivity.
  - destruct (zs_eqb k' k2); [reflexivity|exact IH].
Qed.

Lemma is_nil_false {A} (l : list A) : is_nil l = false -> l <> [].
Proof. destruct l; [discriminate|intros _ Hh; discriminate]. Qed.

Lemma unset_false k m : unset k m = false -> exists v, lookup k m = Some v /\ v <> [].
Proof.
  unfold unset. destruct (lookup k m) as [v|]; [|discriminate]. intro Hh. exists v. split; [reflexivity|apply is_nil_false, Hh].
Qed.

Lemma stage k0 val (m0 m m' : tagmap) :
  (if unset k0 m0 then (if is_nil val then None else Some (mset k0 val m)) else Some m) = Some m' ->
  (forall k, k <> k0 -> lookup k m' = lookup k m) /\
  (unset k0 m0 = true -> lookup k0 m' = Some val /\ val <> []) /\
  (unset k0 m0 = false -> m' = m).
Proof.
  destruct (unset k0 m0).
  - destruct (is_nil val) eqn:N; [discriminate|]. intro Hh. injection Hh as <-.
    split; [intros k Hk; apply lookup_mset_other; congruence|].
    split; [intros _; split; [apply lookup_mset_same|apply is_nil_false, N]|discriminate].
  - intro Hh. injection Hh as <-. split; [reflexivity|]. split; [discriminate|reflexivity].
Qed.

Lemma unset_lookup k m v : lookup k m = Some v -> v <> [] -> unset k m = false.
Proof. intros Hl Hv. unfold unset. rewrite Hl. destruct v; [contradiction|reflexivity]. Qed.

(* the constructed reporter's common tags: service and env are present and not
   empty (from the common tags when given there, else from the options), and
   every configured common tag with a value is kept *)
Theorem common_tags_complete o m : common_of o = Some m ->
  (exists s, lookup s_service m = Some s /\ s <> [] /\
             (unset s_service (ocommon o) = true -> s = oservice o) /\
             (unset s_service (ocommon o) = false -> lookup s_service (ocommon o) = Some s)) /\
  (exists e, lookup s_env m = Some e /\ e <> [] /\
             (unset s_env (ocommon o) = true -> e = oenv o) /\
             (unset s_env (ocommon o) = false -> lookup s_env (ocommon o) = Some e)) /\
  (forall hn, ohost o = Some hn -> unset s_host (ocommon o) = true -> lookup s_host m = Some hn) /\
  (forall k v, lookup k (ocommon o) = Some v -> v <> [] -> lookup k m = Some v).
Proof.
  unfold common_of. set (m0 := ocommon o).
  assert (Dse : s_service <> s_env) by discriminate.
  assert (Dsh : s_service <> s_host) by discriminate.
  assert (Deh : s_env <> s_host) by discriminate.
  destruct (if unset s_service m0 then _ else _) as [m1|] eqn:E1; [|discriminate].
  destruct (if unset s_env m0 then _ else _) as [m2|] eqn:E2; [|discriminate].
  intro Hh. injection Hh as Hm.
  destruct (stage _ _ _ _ _ E1) as (A1 & B1 & C1). destruct (stage _ _ _ _ _ E2) as (A2 & B2 & C2).
  assert (A3 : forall k, k <> s_host -> lookup k m = lookup k m2).
  { intros k Hk. subst m. destruct (ohost o) as [hn|]; [destruct (unset s_host m0)|]; try reflexivity.
    apply lookup_mset_other. congruence. }
  assert (S1 : exists s, lookup s_service m1 = Some s /\ s <> [] /\
             (unset s_service m0 = true -> s = oservice o) /\
             (unset s_service m0 = false -> lookup s_service m0 = Some s)).
  { destruct (unset s_service m0) eqn:U.
    - destruct (B1 eq_refl) as [L N]. exists (oservice o). repeat split; auto; discriminate.
    - rewrite (C1 eq_refl). destruct (unset_false _ _ U) as (v & L & N). exists v. repeat split; auto; discriminate. }
  assert (S2 : exists e, lookup s_env m2 = Some e /\ e <> [] /\
             (unset s_env m0 = true -> e = oenv o) /\
             (unset s_env m0 = false -> lookup s_env m0 = Some e)).
  { destruct (unset s_env m0) eqn:U.
    - destruct (B2 eq_refl) as [L N]. exists (oenv o). repeat split; auto; discriminate.
    - rewrite (C2 eq_refl). destruct (unset_false _ _ U) as (v & L & N). exists v.
      assert (L1 : lookup s_env m1 = Some v) by (rewrite A1 by congruence; exact L).
      repeat split; auto; discriminate. }
  split; [|split; [|split]].
  - destruct S1 as (sv & L & N & P1 & P2). exists sv. rewrite A3 by congruence. rewrite A2 by congruence. auto.
  - destruct S2 as (e & L & N & P1 & P2). exists e. rewrite A3 by congruence. auto.
  - intros hn Hhn Hu. subst m. rewrite Hhn, Hu. apply lookup_mset_same.
  - intros k v Hk Hv. pose proof (unset_lookup _ _ _ Hk Hv) as Hu.
    assert (K2 : lookup k m2 = Some v).
    { destruct (zs_eqb k s_env) eqn:Ee.
      - apply zs_eqb_spec in Ee. subst k. rewrite (C2 Hu).
        destruct (zs_eqb s_env s_service) eqn:Es; [apply zs_eqb_spec in Es; congruence|].
        rewrite A1 by congruence. exact Hk.
      - assert (k <> s_env) by (intro; subst k; rewrite zs_eqb_refl in Ee; discriminate).
        rewrite A2 by assumption.
        destruct (zs_eqb k s_service) eqn:Es.
        + apply zs_eqb_spec in Es. subst k. rewrite (C1 Hu). exact Hk.
        + assert (k <> s_service) by (intro; subst k; rewrite zs_eqb_refl in Es; discriminate).
          rewrite A1 by assumption. exact Hk. }
    destruct (zs_eqb k s_host) eqn:Eh.
    + apply zs_eqb_spec in Eh. subst k. subst m. destruct (ohost o) as [hn|]; [|exact K2].
      fold m0 in Hu. rewrite Hu. exact K2.
    + assert (k <> s_host) by (intro; subst k; rewrite zs_eqb_refl in Eh; discriminate).
      rewrite A3 by assumption. exact K2.
Qed.

(* ================================================================== *)
(* 7. keys from a hash function; the reference does not look at keys *)

Lemma with_hash_wf hash o : op_wf o -> op_wf (with_hash hash o).
Proof. destruct o; cbn; auto. Qed.

Lemma pstep_ref_hash hash cfg s o : pstep MRef cfg s (with_hash hash o) = pstep MRef cfg s o.
Proof. destruct o; reflexivity. Qed.

Lemma enq_from_ref_hash hash cfg ops : forall i s,
  enq_from MRef cfg i s (map (with_hash hash) ops) = enq_from MRef cfg i s ops.
Proof.
  induction ops as [|o r IH]; intros i s; cbn [map enq_from]; [reflexivity|].
  rewrite pstep_ref_hash. destruct (pstep MRef cfg s o) as [s' its]. rewrite IH. reflexivity.
Qed.

Lemma prun_ref_hash hash cfg t0 ops : prun MRef cfg t0 (map (with_hash hash) ops) = prun MRef cfg t0 ops.
Proof.
  unfold prun. generalize (pstate0 t0). induction ops as [|o r IH]; intro s; cbn [map fold_left]; [reflexivity|].
  rewrite pstep_ref_hash. apply IH.
Qed.

(* C13_tags_intact: for every hash function *)
Theorem tags_intact (hash : tagmap -> Z) cfg t0 ops : Forall op_wf ops ->
  Forall2 hequiv (phandles (prun MFixed cfg t0 (map (with_hash hash) ops))) (phandles (prun MRef cfg t0 ops)) /\
  Forall2 qequiv (enq MFixed cfg t0 (map (with_hash hash) ops)) (enq MRef cfg t0 ops).
Proof.
  intro Hw.
  assert (Hw' : Forall op_wf (map (with_hash hash) ops)).
  { apply Forall_map. eapply Forall_impl; [|exact Hw]. intros o Ho. apply with_hash_wf, Ho. }
  split.
  - rewrite <- (prun_ref_hash hash). apply handles_intact, Hw'.
  - replace (enq MRef cfg t0 ops) with (enq MRef cfg t0 (map (with_hash hash) ops)).
    + apply enq_refines, Hw'.
    + unfold enq, enq_ix. rewrite enq_from_ref_hash. reflexivity.
Qed.

(* the tags of the reference handles are the converted tag maps themselves *)
Lemma ref_alloc_tags cfg s k name tm key size :
  phandles (fst (pstep MRef cfg s (OAlloc k name tm key size))) =
  phandles s ++ [HMet k name (match tm with [] => None | _ => Some (conv tm) end) size].
Proof. destruct tm; reflexivity. Qed.
Lemma ref_alloch_tags cfg s hk name tm key spec szf :
  phandles (fst (pstep MRef cfg s (OAllocH hk name tm key spec szf))) =
  phandles s ++ [HHist hk name (conv tm) spec szf].
Proof. reflexivity. Qed.

(* timestamps of what is sent *)
Theorem timestamp_bracket_sent md cfg clock ops :
  (forall a b, (a <= b)%nat -> clock a <= clock b) -> ticks_ok clock 1 ops ->
  forall j o m sz bid br, In (j, QMet o m sz bid br) (enq_ix md cfg (clock 0%nat) ops) ->
  clock 0%nat <= mts (sent cfg m bid br) <= clock j.
Proof.
  intros Hm Ht j o m sz bid br Hin. destruct (sent_ts cfg m bid br) as [-> _].
  apply (timestamp_bracket md cfg clock ops Hm Ht j (QMet o m sz bid br) (mts m) Hin eq_refl).
Qed.

Lemma config_of_common o free render cfg : config_of o free render = Some cfg ->
  exists m, common_of o = Some m /\ ccommon cfg = conv m /\ cfree cfg = free.
Proof.
  unfold config_of. destruct (common_of o) as [m|]; [|discriminate].
  intro Hh. injection Hh as <-. exists m. auto.
Qed.
