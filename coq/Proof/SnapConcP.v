From Coq Require Import List ZArith Arith Bool Lia.
Import ListNotations.
From Tally Require Import Model.SnapConc.

(* ---- list update ---- *)
Lemma nth_set_nth_eq {A} i (x : A) l : i < length l -> nth_error (set_nth i x l) i = Some x.
Proof. revert i; induction l as [|y r IH]; intros [|i] H; simpl in *; try lia; auto. apply IH; lia. Qed.

Lemma nth_set_nth_ne {A} i j (x : A) l : i <> j -> nth_error (set_nth i x l) j = nth_error l j.
Proof. revert i j; induction l as [|y r IH]; intros [|i] [|j] H; simpl; auto; try congruence. Qed.

Lemma nth_some_lt {A} (l : list A) i x : nth_error l i = Some x -> i < length l.
Proof. intros H. apply nth_error_Some. congruence. Qed.

Lemma Forall_set_nth {A} (P : A -> Prop) i x l : Forall P l -> P x -> Forall P (set_nth i x l).
Proof. intros H Hx; revert i; induction H as [|y r Hy Hr IH]; intros [|i]; simpl; constructor; auto. Qed.

Lemma Forall_nth {A} (P : A -> Prop) l i x : Forall P l -> nth_error l i = Some x -> P x.
Proof. intros H E. rewrite Forall_forall in H. apply H. eapply nth_error_In; eauto. Qed.

(* ---- counting threads by weight ---- *)
Fixpoint cnt (w : thr -> nat) (l : list thr) : nat :=
  match l with [] => 0 | t :: r => w t + cnt w r end.

Lemma cnt_set_nth w i t t' l : nth_error l i = Some t -> cnt w (set_nth i t' l) + w t = cnt w l + w t'.
Proof. revert i; induction l as [|y r IH]; intros [|i] H; simpl in *; try discriminate.
  - injection H as ->. lia.
  - specialize (IH _ H). lia. Qed.

Definition w1 (k : key) (t : thr) : nat :=
  match t with TRec 1 ((k', _) :: _) => if Nat.eqb k' k then 1 else 0 | _ => 0 end.
Definition w2 (k : key) (t : thr) : nat :=
  match t with TRec 2 ((k', _) :: _) => if Nat.eqb k' k then 1 else 0 | _ => 0 end.

(* ---- the invariant ---- *)
Definition snap_ok (s : st) (t : thr) : Prop :=
  match t with
  | TSnap 1 _ lo got _ =>
      (forall k, lo k <= done_ s k) /\
      (forall k l, In (k, l) got -> lo k <= length l /\ exists newer, mets s k = newer ++ l)
  | TSnap 2 _ lo got hi =>
      forall k l, In (k, l) got ->
        lo k <= length l <= hi k /\ exists newer, mets s k = newer ++ l
  | TSnap (S (S (S _))) _ _ _ _ => False
  | TRec (S (S (S _))) _ => False
  | TSnap 0 _ _ got _ => got = []
  | _ => True
  end.

Record Inv (s : st) : Prop := {
  i_started : forall k, started s k = length (mets s k) + cnt (w1 k) (thrs s);
  i_done : forall k, length (mets s k) = done_ s k + cnt (w2 k) (thrs s);
  i_snaps : Forall (snap_ok s) (thrs s) }.

Definition grows (s s' : st) : Prop :=
  (forall k, done_ s k <= done_ s' k) /\ (forall k, exists p, mets s' k = p ++ mets s k).

Lemma snap_ok_grows s s' t : grows s s' -> snap_ok s t -> snap_ok s' t.
Proof. intros [Hd Hm] H. destruct t as [pc todo|ph todo lo got hi]; simpl in *; auto.
  destruct ph as [|[|[|ph]]]; auto.
  - destruct H as [H1 H2]. split.
    + intros k. specialize (H1 k). specialize (Hd k). lia.
    + intros k l Hin. destruct (H2 k l Hin) as [Hl [newer E]]. split; auto.
      destruct (Hm k) as [p Ep]. exists (p ++ newer). rewrite Ep, E. apply app_assoc.
  - intros k l Hin. destruct (H k l Hin) as [Hl [newer E]]. split; auto.
    destruct (Hm k) as [p Ep]. exists (p ++ newer). rewrite Ep, E. apply app_assoc. Qed.

Lemma grows_refl_thrs s ths : grows s (mkSt (mets s) (started s) (done_ s) ths).
Proof. split; simpl; intros k; auto. exists []. reflexivity. Qed.

Lemma fupd_same {A} (f : key -> A) k v : fupd f k v k = v.
Proof. unfold fupd. rewrite Nat.eqb_refl. reflexivity. Qed.
Lemma fupd_other {A} (f : key -> A) k v x : x <> k -> fupd f k v x = f x.
Proof. unfold fupd. intros H. destruct (Nat.eqb_spec x k); congruence. Qed.

Lemma inv_step s i : Inv s -> Inv (step s i).
Proof.
  intros [Hs Hd Hf]. unfold step.
  destruct (nth_error (thrs s) i) as [t|] eqn:En; [|constructor; auto].
  pose proof (Forall_nth _ _ _ _ Hf En) as Ht.
  destruct t as [pc todo|ph todo lo got hi].
  - (* recorder *)
    destruct pc as [|[|[|pc]]]; [| | |constructor; auto];
    destruct todo as [|[k d] r]; try (constructor; auto; fail).
    + (* announce *)
      constructor; simpl.
      * intros x. pose proof (cnt_set_nth (w1 x) i _ (TRec 1 ((k, d) :: r)) _ En) as C.
        simpl in C. specialize (Hs x). unfold fupd. destruct (Nat.eqb_spec x k) as [->|N].
        -- rewrite Nat.eqb_refl in C. lia.
        -- destruct (Nat.eqb_spec k x); [congruence|]. lia.
      * intros x. pose proof (cnt_set_nth (w2 x) i _ (TRec 1 ((k, d) :: r)) _ En) as C.
        simpl in C. specialize (Hd x). lia.
      * apply Forall_set_nth; [|exact Logic.I].
        eapply Forall_impl; [|exact Hf]. intros a Ha. eapply snap_ok_grows; [|exact Ha].
        split; simpl; intros x; auto. exists []; reflexivity.
    + (* the effect *)
      constructor; simpl.
      * intros x. pose proof (cnt_set_nth (w1 x) i _ (TRec 2 ((k, d) :: r)) _ En) as C.
        simpl in C. specialize (Hs x). unfold fupd. destruct (Nat.eqb_spec x k) as [->|N].
        -- rewrite Nat.eqb_refl in C. simpl. lia.
        -- destruct (Nat.eqb_spec k x); [congruence|]. lia.
      * intros x. pose proof (cnt_set_nth (w2 x) i _ (TRec 2 ((k, d) :: r)) _ En) as C.
        simpl in C. specialize (Hd x). unfold fupd. destruct (Nat.eqb_spec x k) as [->|N].
        -- rewrite Nat.eqb_refl in C. simpl. lia.
        -- destruct (Nat.eqb_spec k x); [congruence|]. lia.
      * apply Forall_set_nth; [|exact Logic.I].
        eapply Forall_impl; [|exact Hf]. intros a Ha. eapply snap_ok_grows; [|exact Ha].
        split; simpl; intros x; auto. unfold fupd. destruct (Nat.eqb_spec x k) as [->|N].
        -- exists [d]; reflexivity.
        -- exists []; reflexivity.
    + (* completion *)
      constructor; simpl.
      * intros x. pose proof (cnt_set_nth (w1 x) i _ (TRec 0 r) _ En) as C.
        simpl in C. specialize (Hs x). lia.
      * intros x. pose proof (cnt_set_nth (w2 x) i _ (TRec 0 r) _ En) as C.
        simpl in C. specialize (Hd x). unfold fupd. destruct (Nat.eqb_spec x k) as [->|N].
        -- rewrite Nat.eqb_refl in C. lia.
        -- destruct (Nat.eqb_spec k x); [congruence|]. lia.
      * apply Forall_set_nth; [|exact Logic.I].
        eapply Forall_impl; [|exact Hf]. intros a Ha. eapply snap_ok_grows; [|exact Ha].
        split; simpl; intros x; [|exists []; reflexivity].
        unfold fupd. destruct (Nat.eqb_spec x k) as [->|N]; lia.
  - (* snapshot walk *)
    assert (W : forall t' , (forall k, w1 k t' = 0) -> (forall k, w2 k t' = 0) -> snap_ok s t' ->
              Inv (mkSt (mets s) (started s) (done_ s) (set_nth i t' (thrs s)))).
    { intros t' Z1 Z2 Hok. constructor; simpl.
      - intros x. pose proof (cnt_set_nth (w1 x) i _ t' _ En) as C. simpl in C. rewrite Z1 in C.
        specialize (Hs x). lia.
      - intros x. pose proof (cnt_set_nth (w2 x) i _ t' _ En) as C. simpl in C. rewrite Z2 in C.
        specialize (Hd x). lia.
      - apply Forall_set_nth; auto. }
    destruct ph as [|[|[|ph]]].
    + apply W; auto. simpl. split; [intros; lia|]. intros k l [].
    + destruct todo as [|k r].
      * apply W; auto. simpl in *. destruct Ht as [H1 H2]. intros k l Hin.
        destruct (H2 k l Hin) as [Hl [newer E]]. split; [|eauto]. split; auto.
        rewrite (Hs k), E, app_length. lia.
      * apply W; auto. simpl in *. destruct Ht as [H1 H2]. split; auto.
        intros k' l [E|Hin]; [|auto]. injection E as <- <-. split.
        -- specialize (H1 k). rewrite (Hd k). lia.
        -- exists []. reflexivity.
    + constructor; auto.
    + constructor; auto.
Qed.

Lemma inv_run s sched : Inv s -> Inv (run s sched).
Proof. revert s; induction sched as [|i r IH]; intros s H; simpl; auto. apply IH, inv_step, H. Qed.

Lemma cnt_zero w l : (forall t, In t l -> w t = 0) -> cnt w l = 0.
Proof. induction l as [|t r IH]; intros H; simpl; auto. rewrite H, IH; auto.
  - intros; apply H; right; auto.
  - left; auto. Qed.

Lemma inv_init ths : forallb init_thr ths = true -> Inv (init ths).
Proof. intros H. rewrite forallb_forall in H. constructor; simpl.
  - intros k. rewrite cnt_zero; auto. intros t Ht. specialize (H t Ht).
    destruct t as [[|pc] todo|]; simpl in *; auto; discriminate.
  - intros k. rewrite cnt_zero; auto. intros t Ht. specialize (H t Ht).
    destruct t as [[|pc] todo|]; simpl in *; auto; discriminate.
  - apply Forall_forall. intros t Ht. specialize (H t Ht).
    destruct t as [[|pc] todo|[|ph] todo lo got hi]; simpl in *; auto; try discriminate.
    destruct got; auto; discriminate. Qed.

(* ---- the theorems ---- *)
Theorem conc_snapshot_bounds ths sched i todo lo got hi k l :
  forallb init_thr ths = true ->
  let s := run (init ths) sched in
  nth_error (thrs s) i = Some (TSnap 2 todo lo got hi) -> In (k, l) got ->
  lo k <= length l <= hi k /\ exists newer, mets s k = newer ++ l.
Proof. intros H0 s En Hin. pose proof (inv_run _ sched (inv_init _ H0)) as [_ _ Hf].
  pose proof (Forall_nth _ _ _ _ Hf En) as Ht. simpl in Ht. exact (Ht k l Hin). Qed.

(* what [lo] and [hi] are: a walk's [lo] never exceeds the completions counted when it was captured
   (it IS that count), and every later state has counted at least as many; at any time
   completions <= effects <= announcements *)
Theorem conc_counts_ordered ths sched k :
  forallb init_thr ths = true ->
  let s := run (init ths) sched in
  done_ s k <= length (mets s k) <= started s k.
Proof. intros H0 s. pose proof (inv_run _ sched (inv_init _ H0)) as [Hs Hd _].
  specialize (Hs k). specialize (Hd k). fold s in Hs, Hd. lia. Qed.

Corollary conc_snapshot_exact_when_quiet ths sched i todo lo got hi k l :
  forallb init_thr ths = true ->
  let s := run (init ths) sched in
  nth_error (thrs s) i = Some (TSnap 2 todo lo got hi) -> In (k, l) got ->
  lo k = hi k -> length l = lo k.
Proof. intros H0 s En Hin E. destruct (conc_snapshot_bounds _ _ _ _ _ _ _ _ _ H0 En Hin) as [B _]. lia. Qed.
