From Coq Require Import ZArith List Bool Arith Lia Permutation.
From Tally Require Import Base.Search Model.Buckets.
Import ListNotations.
Open Scope Z_scope.

(* ---------- the order key ---------- *)
Definition key (k : kind) (x : Z) : Z :=
  match k with
  | KValue => match fkey x with Some y => y | None => 0 end
  | KDuration => x
  end.

(* comparable: not a NaN *)
Definition cmp (k : kind) (x : Z) : Prop :=
  match k with KValue => fkey x <> None | KDuration => True end.

(* finite: a float that is neither NaN nor infinite / an int64 *)
Definition finite (k : kind) (x : Z) : Prop :=
  cmp k x /\ key k (bottom k) <= key k x <= key k (top k).

Lemma key_top_value : key KValue MAXF = MAXF. Proof. reflexivity. Qed.
Lemma key_bottom_value : key KValue NMAXF = - MAXF. Proof. reflexivity. Qed.
Lemma cmp_top k : cmp k (top k). Proof. destruct k; [vm_compute; discriminate|exact I]. Qed.
Lemma cmp_bottom k : cmp k (bottom k). Proof. destruct k; [vm_compute; discriminate|exact I]. Qed.
Lemma cmp_pinf : cmp KValue PINF. Proof. vm_compute; discriminate. Qed.
Lemma cmp_ninf : cmp KValue NINF. Proof. vm_compute; discriminate. Qed.
Lemma finite_top k : finite k (top k).
Proof. split; [apply cmp_top|]. destruct k; vm_compute; split; discriminate. Qed.

Lemma lt_of_key k a b : cmp k a -> cmp k b -> lt_of k a b = (key k a <? key k b).
Proof.
  destruct k; cbn; intros Ha Hb; [|reflexivity].
  unfold flt. destruct (fkey a); [|congruence]. destruct (fkey b); [|congruence]. reflexivity.
Qed.
Lemma ge_of_key k a b : cmp k a -> cmp k b -> ge_of k a b = (key k b <=? key k a).
Proof.
  destruct k; cbn; intros Ha Hb.
  - unfold fge. destruct (fkey a); [|congruence]. destruct (fkey b); [|congruence]. reflexivity.
  - rewrite Z.geb_leb. reflexivity.
Qed.
Lemma ge_of_nan_r a v : fkey v = None -> fge a v = false.
Proof. intros Hv. unfold fge. rewrite Hv. destruct (fkey a); reflexivity. Qed.

(* ---------- sorting ---------- *)
Fixpoint sortedk (k : kind) (l : list Z) : Prop :=
  match l with
  | [] => True
  | x :: r => (forall y, In y r -> key k x <= key k y) /\ sortedk k r
  end.

Lemma insert_perm lt x l : Permutation (x :: l) (insert lt x l).
Proof.
  induction l as [|y r IH]; cbn; [reflexivity|].
  destruct (lt y x); [|reflexivity].
  rewrite perm_swap. apply perm_skip, IH.
Qed.
Lemma isort_perm lt l : Permutation l (isort lt l).
Proof.
  induction l as [|x r IH]; cbn; [reflexivity|].
  rewrite <- insert_perm. apply perm_skip, IH.
Qed.

Lemma insert_sorted k x l :
  cmp k x -> Forall (cmp k) l -> sortedk k l -> sortedk k (insert (lt_of k) x l).
Proof.
  intros Hx Hl; induction l as [|y r IH]; intros Hs; cbn.
  - split; [intros ? []|exact I].
  - inversion Hl as [|? ? Hy Hr]; subst. destruct Hs as [Hy1 Hs].
    rewrite (lt_of_key k y x Hy Hx). destruct (Z.ltb_spec (key k y) (key k x)) as [Hlt|Hge].
    + cbn. split; [|apply IH; assumption].
      intros z Hz. apply (Permutation_in _ (Permutation_sym (insert_perm (lt_of k) x r))) in Hz.
      destruct Hz as [<-|Hz]; [lia|apply Hy1, Hz].
    + cbn. split.
      * intros z [<-|Hz]; [lia|]. specialize (Hy1 z Hz). lia.
      * split; assumption.
Qed.

Lemma isort_sorted k l : Forall (cmp k) l -> sortedk k (isort (lt_of k) l).
Proof.
  induction l as [|x r IH]; intros Hl; cbn; [exact I|].
  inversion Hl; subst. apply insert_sorted; auto.
  apply (Permutation_Forall (isort_perm (lt_of k) r)). assumption.
Qed.

Lemma sortedk_app k l x :
  sortedk k l -> (forall y, In y l -> key k y <= key k x) -> sortedk k (l ++ [x]).
Proof.
  induction l as [|a r IH]; cbn; intros Hs Hle.
  - split; [intros ? []|exact I].
  - destruct Hs as [Ha Hs]. split.
    + intros y Hy. apply in_app_or in Hy as [Hy|[<-|[]]]; [apply Ha, Hy|apply Hle; now left].
    + apply IH; [assumption|]. intros y Hy; apply Hle; now right.
Qed.

Lemma sortedk_nth k l : sortedk k l ->
  forall i j, (i <= j)%nat -> (j < length l)%nat -> key k (nth i l 0) <= key k (nth j l 0).
Proof.
  induction l as [|a r IH]; cbn; intros Hs i j Hij Hj; [lia|].
  destruct Hs as [Ha Hs]. destruct i as [|i], j as [|j]; try lia.
  - apply Ha. apply nth_In. lia.
  - apply IH; [assumption|lia|lia].
Qed.

(* ---------- the upper bounds ---------- *)
Definition finite_spec (k : kind) (spec : list Z) : Prop := Forall (finite k) spec.

Lemma uppers_length k spec : length (uppers k spec) = S (length spec).
Proof.
  unfold uppers. destruct spec as [|x r]; [reflexivity|].
  rewrite app_length, <- (Permutation_length (isort_perm (lt_of k) (x :: r))). cbn. lia.
Qed.

Lemma uppers_nonempty k spec : uppers k spec <> [].
Proof. intro Hh. pose proof (uppers_length k spec) as Hl. rewrite Hh in Hl. discriminate. Qed.

Lemma uppers_last k spec : last (uppers k spec) 0 = top k.
Proof. unfold uppers. destruct spec; [reflexivity|]. apply last_last. Qed.

Lemma uppers_perm k spec : Permutation (uppers k spec) (spec ++ [top k]).
Proof.
  unfold uppers. destruct spec as [|x r]; [reflexivity|].
  apply Permutation_app_tail. symmetry. apply isort_perm.
Qed.

Lemma uppers_cmp k spec : finite_spec k spec -> Forall (cmp k) (uppers k spec).
Proof.
  intros Hf. apply (Permutation_Forall (Permutation_sym (uppers_perm k spec))).
  apply Forall_app; split.
  - eapply Forall_impl; [|exact Hf]. intros a Ha; apply Ha.
  - constructor; [apply cmp_top|constructor].
Qed.

Lemma uppers_sorted k spec : finite_spec k spec -> sortedk k (uppers k spec).
Proof.
  intros Hf. unfold uppers. destruct spec as [|x r]; [cbn; split; [intros ? []|exact I]|].
  apply sortedk_app.
  - apply isort_sorted. eapply Forall_impl; [|exact Hf]. intros a Ha; apply Ha.
  - intros y Hy. apply (Permutation_in _ (Permutation_sym (isort_perm (lt_of k) (x :: r)))) in Hy.
    unfold finite_spec in Hf. rewrite Forall_forall in Hf. apply (Hf y Hy).
Qed.

Lemma nth_last {A} (l : list A) d : nth (length l - 1) l d = last l d.
Proof.
  induction l as [|a r IH]; [reflexivity|].
  destruct r as [|b t]; [reflexivity|].
  replace (length (b :: t) - 1)%nat with (length t) in IH by (cbn; lia).
  replace (length (a :: b :: t) - 1)%nat with (S (length t)) by (cbn; lia).
  change (last (a :: b :: t) d) with (last (b :: t) d).
  change (nth (S (length t)) (a :: b :: t) d) with (nth (length t) (b :: t) d).
  exact IH.
Qed.

(* ---------- C03_pairs_tile ---------- *)
Lemma pairs_length k spec : length (pairs k spec) = S (length spec).
Proof. unfold pairs. rewrite map_length, seq_length. apply uppers_length. Qed.

Lemma nth_map_seq {A} (f : nat -> A) d : forall n a i, (i < n)%nat ->
  nth i (map f (seq a n)) d = f (a + i)%nat.
Proof.
  induction n as [|n IH]; intros a i Hi; [lia|].
  destruct i as [|i]; cbn [seq map nth].
  - f_equal. lia.
  - rewrite IH by lia. f_equal. lia.
Qed.

Lemma pairs_nth k spec i : (i < S (length spec))%nat ->
  nth i (pairs k spec) (0, 0) = (lower k (uppers k spec) i, nth i (uppers k spec) 0).
Proof.
  intros Hi. unfold pairs. rewrite nth_map_seq by (rewrite uppers_length; lia). reflexivity.
Qed.

Lemma pairs_tile k spec :
  finite_spec k spec ->
  let ps := pairs k spec in
  length ps = S (length spec) /\
  fst (nth 0 ps (0, 0)) = bottom k /\
  snd (nth (length spec) ps (0, 0)) = top k /\
  (forall i, (S i < length ps)%nat -> fst (nth (S i) ps (0, 0)) = snd (nth i ps (0, 0))) /\
  (forall i j, (i <= j)%nat -> (j < length ps)%nat ->
     key k (snd (nth i ps (0, 0))) <= key k (snd (nth j ps (0, 0)))) /\
  Permutation (map snd ps) (spec ++ [top k]).
Proof.
  intros Hf ps. subst ps. rewrite pairs_length.
  split; [reflexivity|]. split; [rewrite pairs_nth by lia; reflexivity|].
  split.
  { rewrite pairs_nth by lia. cbn [snd].
    replace (length spec) with (length (uppers k spec) - 1)%nat by (rewrite uppers_length; lia).
    rewrite nth_last. apply uppers_last. }
  split.
  { intros i Hi. rewrite !pairs_nth by lia. reflexivity. }
  split.
  { intros i j Hij Hj. rewrite !pairs_nth by lia. cbn [snd].
    apply sortedk_nth; [apply uppers_sorted, Hf|assumption|rewrite uppers_length; lia]. }
  { unfold pairs. rewrite map_map. cbn [snd].
    rewrite <- (uppers_perm k spec).
    assert (forall (l : list Z), map (fun i => nth i l 0) (seq 0 (length l)) = l) as Hid.
    { intro l. apply nth_ext with (d := 0) (d' := 0); [now rewrite map_length, seq_length|].
      intros n Hn. rewrite map_length, seq_length in Hn.
      rewrite nth_map_seq by assumption. reflexivity. }
    rewrite Hid. reflexivity. }
Qed.

(* ---------- placement ---------- *)
Lemma search_pred_mono k us v :
  Forall (cmp k) us -> cmp k v -> sortedk k us ->
  monotone (length us) (fun i => ge_of k (nth i us 0) v).
Proof.
  intros Hc Hv Hs a b Hab Hb Ha. rewrite Forall_forall in Hc.
  rewrite ge_of_key in Ha by (try assumption; apply Hc, nth_In; lia).
  rewrite ge_of_key by (try assumption; apply Hc, nth_In; lia).
  apply Z.leb_le in Ha. apply Z.leb_le.
  pose proof (sortedk_nth k us Hs a b Hab Hb). lia.
Qed.

(* every comparable sample not above the maximum lands in the first bucket
   whose upper bound is >= the sample; no clamping is involved *)
Lemma placement k spec v :
  finite_spec k spec -> cmp k v -> key k v <= key k (top k) ->
  let us := uppers k spec in
  let i := record_idx k us v in
  (i < length us)%nat /\ search_idx k us v = i /\
  key k v <= key k (nth i us 0) /\
  (forall j, (j < i)%nat -> key k (nth j us 0) < key k v).
Proof.
  intros Hf Hv Hle us i. subst i. unfold record_idx.
  pose proof (uppers_cmp k spec Hf) as Hc. fold us in Hc.
  pose proof (uppers_sorted k spec Hf) as Hs. fold us in Hs.
  pose proof (sort_search_least (length us) _ (search_pred_mono k us v Hc Hv Hs)) as (R1 & R2 & R3).
  fold (search_idx k us v) in R1, R2, R3. set (r := search_idx k us v) in *.
  assert (Hlen : (0 < length us)%nat) by (unfold us; rewrite uppers_length; lia).
  assert (Hr : (r < length us)%nat).
  { destruct (Nat.lt_ge_cases r (length us)) as [|Hge]; [assumption|exfalso].
    assert (Hlast : ge_of k (nth (length us - 1) us 0) v = false) by (apply R2; lia).
    rewrite nth_last in Hlast. unfold us in Hlast. rewrite uppers_last in Hlast.
    rewrite ge_of_key in Hlast by (try assumption; apply cmp_top).
    apply Z.leb_gt in Hlast. lia. }
  rewrite (proj2 (Nat.ltb_lt r (length us)) Hr).
  rewrite Forall_forall in Hc.
  split; [assumption|]. split; [reflexivity|]. split.
  - specialize (R3 Hr). rewrite ge_of_key in R3 by (try assumption; apply Hc, nth_In; lia).
    apply Z.leb_le in R3. exact R3.
  - intros j Hj. specialize (R2 j Hj).
    rewrite ge_of_key in R2 by (try assumption; apply Hc, nth_In; lia).
    apply Z.leb_gt in R2. exact R2.
Qed.

(* never out of range, for every 64 bit pattern / int64 *)
Lemma record_total k us v : us <> [] -> (record_idx k us v < length us)%nat.
Proof.
  intros NE. unfold record_idx.
  assert (0 < length us)%nat by (destruct us; cbn; [congruence|lia]).
  destruct (Nat.ltb_spec (search_idx k us v) (length us)); lia.
Qed.

Lemma search_all_false n f : (forall i, (i < n)%nat -> f i = false) -> sort_search n f = n.
Proof.
  intros Hf. assert (M : monotone n f) by (intros a b Hab Hb Ha; rewrite Hf in Ha by lia; discriminate).
  pose proof (sort_search_least n f M) as (R1 & R2 & R3).
  destruct (Nat.lt_ge_cases (sort_search n f) n) as [Hlt|Hge]; [|lia].
  specialize (R3 Hlt). rewrite Hf in R3 by assumption. discriminate.
Qed.

Lemma search_first_true n f : (0 < n)%nat -> monotone n f -> f 0%nat = true -> sort_search n f = 0%nat.
Proof.
  intros Hn M H0. pose proof (sort_search_least n f M) as (R1 & R2 & R3).
  destruct (sort_search n f) as [|r] eqn:E; [reflexivity|].
  specialize (R2 0%nat ltac:(lia)). congruence.
Qed.

(* NaN: every comparison is false; the repaired code counts it in the last bucket *)
Lemma nan_last spec v : fkey v = None ->
  record_idx KValue (uppers KValue spec) v = length spec.
Proof.
  intros Hv. unfold record_idx, search_idx.
  rewrite search_all_false by (intros i _; apply ge_of_nan_r, Hv).
  rewrite Nat.ltb_irrefl, uppers_length. lia.
Qed.

Lemma pinf_last spec : finite_spec KValue spec ->
  record_idx KValue (uppers KValue spec) PINF = length spec.
Proof.
  intros Hf. unfold record_idx, search_idx.
  rewrite search_all_false.
  - rewrite Nat.ltb_irrefl, uppers_length. lia.
  - intros i Hi. pose proof (uppers_cmp KValue spec Hf) as Hc. rewrite Forall_forall in Hc.
    assert (Hin : In (nth i (uppers KValue spec) 0) (uppers KValue spec)) by (apply nth_In, Hi).
    rewrite ge_of_key; [|apply Hc, Hin|apply cmp_pinf].
    apply Z.leb_gt.
    apply (Permutation_in _ (uppers_perm KValue spec)) in Hin.
    apply in_app_or in Hin as [Hin|[<-|[]]].
    + unfold finite_spec in Hf. rewrite Forall_forall in Hf. destruct (Hf _ Hin) as [_ [_ Hle]].
      change (key KValue (top KValue)) with MAXF in Hle. change (key KValue PINF) with EXPM.
      unfold MAXF, EXPM in *. lia.
    + vm_compute. reflexivity.
Qed.

Lemma ninf_first spec : finite_spec KValue spec ->
  record_idx KValue (uppers KValue spec) NINF = 0%nat.
Proof.
  intros Hf. unfold record_idx, search_idx.
  pose proof (uppers_cmp KValue spec Hf) as Hc.
  pose proof (uppers_sorted KValue spec Hf) as Hs.
  assert (Hlen : (0 < length (uppers KValue spec))%nat) by (rewrite uppers_length; lia).
  rewrite search_first_true.
  - rewrite (proj2 (Nat.ltb_lt _ _) Hlen). reflexivity.
  - exact Hlen.
  - apply search_pred_mono; [assumption|apply cmp_ninf|assumption].
  - rewrite Forall_forall in Hc.
    assert (Hin : In (nth 0 (uppers KValue spec) 0) (uppers KValue spec)) by (apply nth_In, Hlen).
    rewrite ge_of_key; [|apply Hc, Hin|apply cmp_ninf].
    apply Z.leb_le.
    apply (Permutation_in _ (uppers_perm KValue spec)) in Hin.
    apply in_app_or in Hin as [Hin|[<-|[]]].
    + unfold finite_spec in Hf. rewrite Forall_forall in Hf. destruct (Hf _ Hin) as [_ [Hge _]].
      change (key KValue (bottom KValue)) with (- MAXF) in Hge. change (key KValue NINF) with (- EXPM).
      unfold MAXF, EXPM in *. lia.
    + vm_compute. discriminate.
Qed.

(* ---------- exactly one bucket; conservation over record/report histories ---------- *)
Fixpoint sumz (l : list Z) : Z := match l with [] => 0 | x :: r => x + sumz r end.

Lemma bump_length i l : length (bump i l) = length l.
Proof. revert i; induction l as [|c r IH]; intros [|i]; cbn; congruence. Qed.

Lemma bump_nth i l j : (i < length l)%nat ->
  nth j (bump i l) 0 = nth j l 0 + (if Nat.eqb j i then 1 else 0).
Proof.
  revert i j; induction l as [|c r IH]; intros [|i] [|j] Hi; cbn in *; try lia.
  - apply IH. lia.
Qed.

Lemma bump_sum i l : (i < length l)%nat -> sumz (bump i l) = sumz l + 1.
Proof.
  revert i; induction l as [|c r IH]; intros [|i] Hi; cbn in *; try lia.
  rewrite IH by lia. lia.
Qed.

Definition wf (h : hist) : Prop := hus h <> [] /\ length (hcnt h) = length (hus h).

Lemma hnew_wf k spec : wf (hnew k spec).
Proof. unfold hnew, wf; cbn. split; [apply uppers_nonempty|apply repeat_length]. Qed.

Definition delivered_samples (d : list (Z * Z * Z)) : Z := sumz (map (fun t => snd t) d).

Lemma deliveries_sum_gen us cnt k :
  forall a n, delivered_samples
    (flat_map (fun i => let c := nth i cnt 0 in
                        if c =? 0 then [] else [(lower k us i, nth i us 0, c)]) (seq a n))
  = sumz (map (fun i => nth i cnt 0) (seq a n)).
Proof.
  intros a n; revert a; induction n as [|n IH]; intro a; cbn [seq flat_map map sumz]; [reflexivity|].
  unfold delivered_samples in *. rewrite map_app, <- IH.
  assert (forall x y, sumz (x ++ y) = sumz x + sumz y) as Happ.
  { induction x; cbn; intros; [reflexivity|]. rewrite IHx. lia. }
  rewrite Happ. f_equal. cbn zeta. destruct (Z.eqb_spec (nth a cnt 0) 0) as [->|]; cbn; lia.
Qed.

Lemma sum_nths l : sumz (map (fun i => nth i l 0) (seq 0 (length l))) = sumz l.
Proof.
  assert (forall a (l : list Z) (p : list Z), length p = a ->
            sumz (map (fun i => nth i (p ++ l) 0) (seq a (length l))) = sumz l) as Hg.
  { intros a l0; revert a; induction l0 as [|x r IH]; intros a p Hp; cbn [length seq map sumz]; [reflexivity|].
    rewrite app_nth2 by lia. replace (a - length p)%nat with 0%nat by lia. cbn [nth].
    replace (p ++ x :: r) with ((p ++ [x]) ++ r) by (now rewrite <- app_assoc).
    rewrite IH by (rewrite app_length; cbn; lia). reflexivity. }
  apply (Hg 0%nat l []). reflexivity.
Qed.

Lemma deliveries_sum h : wf h -> delivered_samples (deliveries h) = sumz (hcnt h).
Proof.
  intros [_ Hl]. unfold deliveries. rewrite deliveries_sum_gen, <- Hl. apply sum_nths.
Qed.

Lemma sumz_repeat0 n : sumz (repeat 0 n) = 0.
Proof. induction n; cbn; lia. Qed.

Definition accepted (k : kind) (ops : list hop) : Z :=
  sumz (map (fun o => match o with HRec k' _ => if kind_eqb k' k then 1 else 0 | HPass => 0 end) ops).

Lemma hstep_wf h o : wf h -> wf (fst (hstep h o)).
Proof.
  intros [NE Hl]. destruct o as [k v|]; unfold hstep.
  - destruct (kind_eqb k (hk h)); cbn [fst]; unfold wf; cbn [hus hcnt]; split; auto.
    rewrite bump_length. exact Hl.
  - cbn [fst]; unfold wf; cbn [hus hcnt]. split; auto. apply repeat_length.
Qed.

Lemma conservation h ops : wf h ->
  let '(hf, ds) := hrun h ops in
  sumz (map delivered_samples ds) + sumz (hcnt hf) = sumz (hcnt h) + accepted (hk h) ops /\ hk hf = hk h.
Proof.
  revert h; induction ops as [|o r IH]; intros h Hwf; cbn [hrun].
  - cbn. split; [lia|reflexivity].
  - pose proof (hstep_wf h o Hwf) as Hwf'.
    destruct (hstep h o) as [h' d] eqn:Es. cbn [fst] in Hwf'.
    specialize (IH h' Hwf'). destruct (hrun h' r) as [hf ds]. destruct IH as [IH Hk].
    destruct o as [k v|]; cbn [hstep] in Es.
    + unfold accepted in *. cbn [map sumz].
      destruct (kind_eqb k (hk h)) eqn:Ek; inversion Es; subst; cbn [hk hcnt] in *.
      * rewrite bump_sum in IH by (destruct Hwf as [NE Hl]; rewrite Hl; apply record_total, NE).
        split; [lia|assumption].
      * split; [lia|assumption].
    + inversion Es; subst. cbn [hk hcnt map sumz] in *. unfold accepted in *. cbn [map sumz].
      rewrite (deliveries_sum h Hwf), sumz_repeat0 in *. split; [lia|assumption].
Qed.

(* a sample of the other kind changes nothing *)
Lemma type_guard h k v : kind_eqb k (hk h) = false -> hstep h (HRec k v) = (h, []).
Proof. intros Hk. cbn. rewrite Hk. reflexivity. Qed.

(* a sample of the right kind increments exactly one bucket by one *)
Lemma one_bucket h v : wf h ->
  let h' := fst (hstep h (HRec (hk h) v)) in
  let i := record_idx (hk h) (hus h) v in
  (i < length (hus h))%nat /\
  forall j, nth j (hcnt h') 0 = nth j (hcnt h) 0 + (if Nat.eqb j i then 1 else 0).
Proof.
  intros [NE Hl]. cbn. assert (kind_eqb (hk h) (hk h) = true) as -> by (destruct (hk h); reflexivity).
  cbn. split; [apply record_total, NE|]. intro j. apply bump_nth. rewrite Hl. apply record_total, NE.
Qed.
