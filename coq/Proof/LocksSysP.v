(* A. Goroutines whose lock operations respect a rank of the locks never deadlock under the
   sync.RWMutex / WaitGroup semantics of Model/Locks.v (writer preference, queued readers,
   anonymous wake-ups), for any number of goroutines and any schedule; and the model is a lock
   (no writer together with another holder). *)
From Coq Require Import List Bool Arith Lia.
Import ListNotations.
From Tally Require Import Model.Locks.

Lemma mode_eqb_eq a b : mode_eqb a b = true <-> a = b.
Proof. destruct a, b; simpl; split; intro H; try reflexivity; try discriminate. Qed.

(* ---------- lists ---------- *)

Lemma nth_error_upd {A} (l : list A) i j x :
  nth_error (upd l i x) j = if Nat.eqb i j then (match nth_error l j with Some _ => Some x | None => None end) else nth_error l j.
Proof.
  revert i j; induction l as [|h t IH]; intros i j; simpl.
  - destruct (Nat.eqb i j); destruct j; reflexivity.
  - destruct i, j; simpl; try reflexivity. apply IH.
Qed.

Lemma in_upd {A} (l : list A) i x u : In u (upd l i x) -> u = x \/ In u l.
Proof.
  revert i; induction l as [|h t IH]; intros i H; simpl in H; [destruct H|].
  destruct i; simpl in H.
  - destruct H as [<- | H]; [left; reflexivity|right; right; exact H].
  - destruct H as [<- | H]; [right; left; reflexivity|]. destruct (IH _ H); [left|right; right]; assumption.
Qed.

Lemma in_upd_other {A} (l : list A) i x u t :
  nth_error l i = Some t -> In u l -> u = t \/ In u (upd l i x).
Proof.
  revert i; induction l as [|h r IH]; intros i Hi Hu; [destruct Hu|].
  destruct i; simpl in *.
  - injection Hi as <-. destruct Hu as [<- | Hu]; [left; reflexivity|right; right; exact Hu].
  - destruct Hu as [<- | Hu]; [right; left; reflexivity|]. destruct (IH _ Hi Hu); [left|right; right]; assumption.
Qed.

Lemma in_upd_self {A} (l : list A) i x t : nth_error l i = Some t -> In x (upd l i x).
Proof.
  revert i; induction l as [|h r IH]; intros [|i] H; simpl in *; try discriminate; [left; reflexivity|].
  right. eapply IH; eauto.
Qed.

Definition b2n (b : bool) : nat := if b then 1 else 0.

Lemma nq_upd s k t t' l :
  nth_error s k = Some t -> nq (upd s k t') l + b2n (queued l t) = nq s l + b2n (queued l t').
Proof.
  unfold nq. revert k; induction s as [|h r IH]; intros [|k] H; simpl in H; try discriminate.
  - injection H as <-. simpl. destruct (queued l h), (queued l t'); simpl; lia.
  - simpl. specialize (IH _ H). destruct (queued l h); simpl; lia.
Qed.

Lemma nq_pos s l u : In u s -> queued l u = true -> 0 < nq s l.
Proof.
  unfold nq. induction s as [|h r IH]; intros Hin Hq; [destruct Hin|]. simpl.
  destruct Hin as [<- | Hin]; [rewrite Hq; simpl; lia|]. destruct (queued l h); simpl; [lia|auto].
Qed.
Lemma nq_pos_ex s l : 0 < nq s l -> exists j u, nth_error s j = Some u /\ queued l u = true.
Proof.
  unfold nq. induction s as [|h r IH]; simpl; [lia|]. destruct (queued l h) eqn:E.
  - intros _. exists 0, h. auto.
  - intro H. destruct (IH H) as (j & u & Hj & Hu). exists (S j), u. auto.
Qed.

Lemma anyother_from_spec i s k p :
  anyother_from i s k p = true <->
  exists j u, nth_error s j = Some u /\ i + j <> k /\ p u = true.
Proof.
  revert i; induction s as [|t r IH]; intro i; simpl.
  - split; [discriminate|]. intros (j & u & H & _). destruct j; discriminate.
  - rewrite orb_true_iff, andb_true_iff, negb_true_iff, Nat.eqb_neq, IH. split.
    + intros [[Hn Hp] | (j & u & Hj & Hn & Hp)].
      * exists 0, t. simpl. split; [reflexivity|]. split; [lia|exact Hp].
      * exists (S j), u. simpl. split; [exact Hj|]. split; [lia|exact Hp].
    + intros (j & u & Hj & Hn & Hp). destruct j as [|j]; simpl in Hj.
      * injection Hj as <-. left. split; [lia|exact Hp].
      * right. exists j, u. split; [exact Hj|]. split; [lia|exact Hp].
Qed.
Lemma anyother_spec s k p :
  anyother s k p = true <-> exists j u, nth_error s j = Some u /\ j <> k /\ p u = true.
Proof. unfold anyother. rewrite anyother_from_spec. simpl. reflexivity. Qed.
Lemma anyother_false s k p j u :
  anyother s k p = false -> nth_error s j = Some u -> j <> k -> p u = false.
Proof.
  intros H Hj Hn. destruct (p u) eqn:E; [|reflexivity].
  assert (anyother s k p = true) by (apply anyother_spec; exists j, u; auto). congruence.
Qed.

(* ---------- held lists ---------- *)

Fixpoint hsorted (rk : nat -> nat) (h : list (mode * nat)) : Prop :=
  match h with
  | [] => True
  | x :: r => (forall y, In y r -> rk (snd y) < rk (snd x)) /\ hsorted rk r
  end.

Lemma remove1_in m l h x : In x (remove1 m l h) -> In x h.
Proof.
  induction h as [|y h IH]; simpl; [tauto|].
  destruct (mode_eqb (fst y) m && Nat.eqb (snd y) l); simpl; intro H; [right; exact H|].
  destruct H; [left; assumption|right; apply IH; assumption].
Qed.
Lemma hsorted_remove1 rk m l h : hsorted rk h -> hsorted rk (remove1 m l h).
Proof.
  induction h as [|y h IH]; simpl; [tauto|]. intros [H1 H2].
  destruct (mode_eqb (fst y) m && Nat.eqb (snd y) l); [exact H2|]. simpl. split; [|apply IH; exact H2].
  intros z Hz. apply H1. eapply remove1_in; eauto.
Qed.
(* under a sorted held list a lock occurs once: after its release it is not held any more *)
Lemma hsorted_remove1_gone rk m l h x :
  hsorted rk h -> In (m, l) h -> In x (remove1 m l h) -> snd x <> l.
Proof.
  induction h as [|[m' l'] h IH]; simpl; [tauto|]. intros [H1 H2] Hin Hx.
  destruct (mode_eqb m' m && Nat.eqb l' l) eqn:E.
  - apply andb_true_iff in E as [_ El]. apply Nat.eqb_eq in El. subst l'.
    intro Hc. specialize (H1 _ Hx). rewrite Hc in H1. simpl in H1. lia.
  - destruct Hin as [Hin | Hin].
    + injection Hin as -> ->. destruct m; rewrite Nat.eqb_refl in E; discriminate.
    + destruct Hx as [<- | Hx]; [|apply IH; assumption].
      simpl. intro Hc. subst l'. specialize (H1 _ Hin). simpl in H1. lia.
Qed.

Lemma holds_in m l t : holds m l t = true <-> In (m, l) (held t).
Proof.
  unfold holds. rewrite existsb_exists. split.
  - intros ([m' l'] & Hin & He). simpl in He. apply andb_true_iff in He as [Hm Hl].
    apply mode_eqb_eq in Hm. apply Nat.eqb_eq in Hl. subst. exact Hin.
  - intro Hin. exists (m, l). split; [exact Hin|]. simpl. rewrite Nat.eqb_refl. destruct m; reflexivity.
Qed.
Lemma holds_any_in l t : holds_any l t = true <-> exists m, In (m, l) (held t).
Proof.
  unfold holds_any. rewrite existsb_exists. split.
  - intros ([m l'] & Hin & He). simpl in He. apply Nat.eqb_eq in He. subst l'. exists m. exact Hin.
  - intros (m & Hin). exists (m, l). split; [exact Hin|]. simpl. apply Nat.eqb_refl.
Qed.
Lemma holds_holds_any m l t : holds m l t = true -> holds_any l t = true.
Proof. rewrite holds_in, holds_any_in. intro H. exists m. exact H. Qed.

(* ---------- the invariant ---------- *)

Definition thok (rk : nat -> nat) (t : th) : Prop :=
  disc rk (held t) (todo t) /\ hsorted rk (held t) /\
  (ann t = true -> exists m l r, todo t = GAcq m l :: r).

Record Inv (rk : nat -> nat) (s : sys) : Prop := {
  i_th : forall k t, nth_error (ths s) k = Some t -> thok rk t ;
  (* Wait targets never wait *)
  i_wt : forall i t js j u, nth_error (ths s) i = Some t -> In (GWait js) (todo t) -> In j js ->
                            nth_error (ths s) j = Some u -> nowait (todo u) ;
  (* wake-ups never exceed the queued readers *)
  i_L : forall l, gr s l <= nq (ths s) l ;
  (* without a writer every queued reader has a wake-up *)
  i_J : forall l, (forall j u, nth_error (ths s) j = Some u -> writer l u = false) -> nq (ths s) l <= gr s l ;
  (* no wake-up is outstanding while a writer holds the lock *)
  i_K : forall l j u, nth_error (ths s) j = Some u -> holds W l u = true -> gr s l = 0 ;
  (* the writers' mutex: at most one goroutine is announced on or holds a lock for writing *)
  i_X : forall l i j u v, nth_error (ths s) i = Some u -> nth_error (ths s) j = Some v ->
                          writer l u = true -> writer l v = true -> i = j ;
  (* a writer excludes every other holder *)
  i_Y : forall l i j u v, nth_error (ths s) i = Some u -> nth_error (ths s) j = Some v ->
                          holds W l u = true -> holds_any l v = true -> i = j
}.

(* ---------- one step, by cases ---------- *)

Inductive stepk (s : sys) (k : nat) (t : th) : th -> (nat -> nat) -> Prop :=
| SRdirect l r : todo t = GAcq R l :: r -> ann t = false -> anyother (ths s) k (writer l) = false ->
    stepk s k t {| todo := r; held := (R, l) :: held t; ann := false |} (gr s)
| SRbarge l r : todo t = GAcq R l :: r -> ann t = false -> anyother (ths s) k (writer l) = true -> 0 < gr s l ->
    stepk s k t {| todo := r; held := (R, l) :: held t; ann := false |} (setg (gr s) l (gr s l - 1))
| SRqueue l r : todo t = GAcq R l :: r -> ann t = false -> anyother (ths s) k (writer l) = true -> gr s l = 0 ->
    stepk s k t {| todo := GAcq R l :: r; held := held t; ann := true |} (gr s)
| SRconsume l r : todo t = GAcq R l :: r -> ann t = true -> 0 < gr s l ->
    stepk s k t {| todo := r; held := (R, l) :: held t; ann := false |} (setg (gr s) l (gr s l - 1))
| SWann l r : todo t = GAcq W l :: r -> ann t = false -> anyother (ths s) k (writer l) = false ->
    stepk s k t {| todo := GAcq W l :: r; held := held t; ann := true |} (gr s)
| SWacq l r : todo t = GAcq W l :: r -> ann t = true -> anyother (ths s) k (holds_any l) = false -> gr s l = 0 ->
    stepk s k t {| todo := r; held := (W, l) :: held t; ann := false |} (gr s)
| SRelR l r : todo t = GRel R l :: r ->
    stepk s k t {| todo := r; held := remove1 R l (held t); ann := ann t |} (gr s)
| SRelW l r : todo t = GRel W l :: r ->
    stepk s k t {| todo := r; held := remove1 W l (held t); ann := ann t |} (setg (gr s) l (gr s l + nq (ths s) l))
| SWait js r : todo t = GWait js :: r -> forallb (finished s) js = true ->
    stepk s k t {| todo := r; held := held t; ann := ann t |} (gr s)
| SUse w l r : todo t = GUse w l :: r ->
    stepk s k t {| todo := r; held := held t; ann := ann t |} (gr s).

Lemma step_cases s k :
  step s k = s \/
  exists t t' g', nth_error (ths s) k = Some t /\ stepk s k t t' g' /\
                  step s k = {| ths := upd (ths s) k t'; gr := g' |}.
Proof.
  unfold step. destruct (enabled s k) eqn:En; [|left; reflexivity].
  unfold enabled in En. destruct (nth_error (ths s) k) as [t|] eqn:Hk; [|left; reflexivity].
  right. exists t.
  destruct (todo t) as [|[[|] l|[|] l|js|w l] r] eqn:Ht; [discriminate| | | | | |].
  - (* RLock *) destruct (ann t) eqn:Ha.
    + apply Nat.ltb_lt in En. eexists _, _. split; [reflexivity|]. split; [eapply SRconsume; eauto|].
      unfold step_th. rewrite Ht, Ha. reflexivity.
    + destruct (anyother (ths s) k (writer l)) eqn:Hw; simpl.
      * destruct (Nat.ltb 0 (gr s l)) eqn:Hg.
        -- apply Nat.ltb_lt in Hg. eexists _, _. split; [reflexivity|]. split; [eapply SRbarge; eauto|].
           unfold step_th. rewrite Ht, Ha. reflexivity.
        -- apply Nat.ltb_ge in Hg. eexists _, _. split; [reflexivity|]. split; [eapply SRqueue; eauto; lia|].
           unfold step_th. rewrite Ht, Ha. reflexivity.
      * eexists _, _. split; [reflexivity|]. split; [eapply SRdirect; eauto|].
        unfold step_th. rewrite Ht, Ha. reflexivity.
  - (* Lock *) destruct (ann t) eqn:Ha.
    + apply andb_true_iff in En as [E1 E2]. apply negb_true_iff in E1. apply Nat.eqb_eq in E2.
      eexists _, _. split; [reflexivity|]. split; [eapply SWacq; eauto|].
      unfold step_th. rewrite Ht, Ha. reflexivity.
    + apply negb_true_iff in En. eexists _, _. split; [reflexivity|]. split; [eapply SWann; eauto|].
      unfold step_th. rewrite Ht, Ha. reflexivity.
  - eexists _, _. split; [reflexivity|]. split; [eapply SRelR; eauto|]. unfold step_th. rewrite Ht. reflexivity.
  - eexists _, _. split; [reflexivity|]. split; [eapply SRelW; eauto|]. unfold step_th. rewrite Ht. reflexivity.
  - eexists _, _. split; [reflexivity|]. split; [eapply SWait; eauto|]. unfold step_th. rewrite Ht. reflexivity.
  - eexists _, _. split; [reflexivity|]. split; [eapply SUse; eauto|]. unfold step_th. rewrite Ht. reflexivity.
Qed.

(* facts about the goroutine's own change *)

Lemma holdsW_cons_R l l' h a t0 :
  holds W l' {| todo := t0; held := (R, l) :: h; ann := a |} = holds W l' {| todo := t0; held := h; ann := a |}.
Proof. unfold holds. simpl. reflexivity. Qed.

Lemma holdsW_remove1_R l l' (t : th) t0 a :
  holds W l' {| todo := t0; held := remove1 R l (held t); ann := a |} = holds W l' t.
Proof.
  unfold holds. simpl. induction (held t) as [|[m x] h IH]; simpl; [reflexivity|].
  destruct m; simpl.
  - destruct (Nat.eqb x l); simpl; [reflexivity|exact IH].
  - rewrite IH. reflexivity.
Qed.

Lemma stepk_thok rk s k t t' g' : thok rk t -> stepk s k t t' g' -> thok rk t'.
Proof.
  intros (Hd & Hs & Ha) H. unfold thok.
  destruct H as [l r Ht Hn Hw | l r Ht Hn Hw Hg | l r Ht Hn Hw Hg | l r Ht Hn Hg | l r Ht Hn Hw
                | l r Ht Hn Hw Hg | l r Ht | l r Ht | js r Ht Hf | w l r Ht]; simpl; rewrite Ht in Hd; simpl in Hd.
  - destruct Hd as [Hlt Hd]. split; [exact Hd|]. split; [simpl; auto|discriminate].
  - destruct Hd as [Hlt Hd]. split; [exact Hd|]. split; [simpl; auto|discriminate].
  - split; [exact Hd|]. split; [exact Hs|]. intros _. eauto.
  - destruct Hd as [Hlt Hd]. split; [exact Hd|]. split; [simpl; auto|discriminate].
  - split; [exact Hd|]. split; [exact Hs|]. intros _. eauto.
  - destruct Hd as [Hlt Hd]. split; [exact Hd|]. split; [simpl; auto|discriminate].
  - destruct Hd as [Hin Hd]. split; [exact Hd|]. split; [apply hsorted_remove1; exact Hs|].
    intro Hx. destruct (Ha Hx) as (m & l0 & r0 & E). congruence.
  - destruct Hd as [Hin Hd]. split; [exact Hd|]. split; [apply hsorted_remove1; exact Hs|].
    intro Hx. destruct (Ha Hx) as (m & l0 & r0 & E). congruence.
  - destruct Hd as [Hin Hd]. split; [exact Hd|]. split; [exact Hs|].
    intro Hx. destruct (Ha Hx) as (m & l0 & r0 & E). congruence.
  - destruct Hd as [Hin Hd]. split; [exact Hd|]. split; [exact Hs|].
    intro Hx. destruct (Ha Hx) as (m & l0 & r0 & E). congruence.
Qed.

Lemma stepk_suffix s k t t' g' : stepk s k t t' g' -> todo t' = todo t \/ exists o, todo t = o :: todo t'.
Proof. intro H. destruct H; simpl; auto; try (right; eexists; eassumption); left; congruence. Qed.


(* ---------- characterisations used in the case analysis ---------- *)

Lemma writer_noann l t : ann t = false -> writer l t = holds W l t.
Proof. intro H. unfold writer, announced. rewrite H. simpl. apply orb_false_r. Qed.

Lemma queued_noann l t : ann t = false -> queued l t = false.
Proof. intro H. unfold queued. rewrite H. reflexivity. Qed.

Lemma thok_rel_noann rk t m l r : thok rk t -> todo t = GRel m l :: r -> ann t = false.
Proof.
  intros (_ & _ & Ha) Ht. destruct (ann t); [|reflexivity]. destruct (Ha eq_refl) as (m' & l' & r' & E). congruence.
Qed.
Lemma thok_wait_noann rk t js r : thok rk t -> todo t = GWait js :: r -> ann t = false.
Proof.
  intros (_ & _ & Ha) Ht. destruct (ann t); [|reflexivity]. destruct (Ha eq_refl) as (m' & l' & r' & E). congruence.
Qed.

Lemma thok_use_noann rk t w l r : thok rk t -> todo t = GUse w l :: r -> ann t = false.
Proof.
  intros (_ & _ & Ha) Ht. destruct (ann t); [|reflexivity]. destruct (Ha eq_refl) as (m' & l' & r' & E). congruence.
Qed.

Lemma holdsW_remove1 m l x (h : list (mode * nat)) t0 a :
  holds W x {| todo := t0; held := remove1 m l h; ann := a |} = true ->
  holds W x {| todo := t0; held := h; ann := a |} = true.
Proof. rewrite !holds_in. simpl. apply remove1_in. Qed.
Lemma holdsany_remove1 m l x (h : list (mode * nat)) t0 a :
  holds_any x {| todo := t0; held := remove1 m l h; ann := a |} = true ->
  holds_any x {| todo := t0; held := h; ann := a |} = true.
Proof. rewrite !holds_any_in. simpl. intros (m' & H). exists m'. eapply remove1_in; eauto. Qed.

Lemma holds_rec m x t0 h a t : held t = h -> holds m x {| todo := t0; held := h; ann := a |} = holds m x t.
Proof. intros <-. reflexivity. Qed.
Lemma holdsany_rec x t0 h a t : held t = h -> holds_any x {| todo := t0; held := h; ann := a |} = holds_any x t.
Proof. intros <-. reflexivity. Qed.

Lemma remove1_other m l x (h : list (mode * nat)) m' :
  x <> l -> In (m', x) h -> In (m', x) (remove1 m l h).
Proof.
  intros Hn. induction h as [|[m0 l0] h IH]; simpl; [tauto|]. intros [E | Hin].
  - injection E as -> ->. destruct (mode_eqb m' m && Nat.eqb x l) eqn:B.
    + apply andb_true_iff in B as [_ B]. apply Nat.eqb_eq in B. contradiction.
    + left. reflexivity.
  - destruct (mode_eqb m0 m && Nat.eqb l0 l); [exact Hin|right; apply IH; exact Hin].
Qed.

Section Step.
Variable rk : nat -> nat.
Variable s : sys.
Variable k : nat.
Variable t t' : th.
Variable g' : nat -> nat.
Hypothesis HI : Inv rk s.
Hypothesis Hk : nth_error (ths s) k = Some t.
Hypothesis Hst : stepk s k t t' g'.

Let s' : sys := {| ths := upd (ths s) k t'; gr := g' |}.

Lemma nth_s' j u : nth_error (ths s') j = Some u -> (j = k /\ u = t') \/ (j <> k /\ nth_error (ths s) j = Some u).
Proof.
  simpl. rewrite nth_error_upd. destruct (Nat.eqb k j) eqn:E.
  - apply Nat.eqb_eq in E. subst j. rewrite Hk. intro H. injection H as <-. left. auto.
  - apply Nat.eqb_neq in E. intro H. right. split; [lia|exact H].
Qed.

Lemma tok : thok rk t.
Proof. exact (i_th _ _ HI _ _ Hk). Qed.

(* what the step does to the goroutine's own contributions *)
Lemma own_facts :
  (forall x, g' x + b2n (queued x t) <= nq (ths s) x + b2n (queued x t')) /\
  (forall x, (forall j u, nth_error (ths s') j = Some u -> writer x u = false) ->
             nq (ths s) x + b2n (queued x t') <= g' x + b2n (queued x t)) /\
  (forall x, holds W x t' = true -> g' x = 0) /\
  (forall x j u, j <> k -> nth_error (ths s) j = Some u -> holds W x u = true -> g' x = 0) /\
  (forall x j u, j <> k -> nth_error (ths s) j = Some u -> writer x t' = true -> writer x u = true -> False) /\
  (forall x j u, j <> k -> nth_error (ths s) j = Some u -> holds W x t' = true -> holds_any x u = true -> False) /\
  (forall x j u, j <> k -> nth_error (ths s) j = Some u -> holds W x u = true -> holds_any x t' = true -> False).
Proof.
  pose proof tok as Htok. destruct Htok as (Hd & Hs & Ha).
  pose proof (i_L _ _ HI) as IL. pose proof (i_J _ _ HI) as IJ. pose proof (i_K _ _ HI) as IK.
  pose proof (i_X _ _ HI) as IX. pose proof (i_Y _ _ HI) as IY.
  (* premise transfer for J: no writer in s' means no writer in s, when the goroutine's own status did not grow *)
  assert (Jpre : forall x, (forall j u, nth_error (ths s') j = Some u -> writer x u = false) ->
                           (writer x t = true -> writer x t' = true) ->
                           forall j u, nth_error (ths s) j = Some u -> writer x u = false).
  { intros x Hp Hmono j u Hj. destruct (Nat.eq_dec j k) as [->|Hn].
    - rewrite Hk in Hj. injection Hj as <-. destruct (writer x t) eqn:E; [|reflexivity].
      rewrite <- (Hp k t'); [symmetry; apply Hmono; reflexivity|]. simpl. rewrite nth_error_upd, Nat.eqb_refl, Hk. reflexivity.
    - apply (Hp j u). simpl. rewrite nth_error_upd. destruct (Nat.eqb k j) eqn:E; [apply Nat.eqb_eq in E; lia|exact Hj]. }
  assert (Hself : nth_error (ths s') k = Some t').
  { simpl. rewrite nth_error_upd, Nat.eqb_refl, Hk. reflexivity. }
  destruct Hst as [l r Ht Hn Hw | l r Ht Hn Hw Hg | l r Ht Hn Hw Hg | l r Ht Hn Hg | l r Ht Hn Hw
                  | l r Ht Hn Hw Hg | l r Ht | l r Ht | js r Ht Hf | w0 l r Ht].
  - (* reader gets in, no writer around *)
    assert (Q : forall x, queued x t = false) by (intro; apply queued_noann; exact Hn).
    assert (Q' : forall x, queued x {| todo := r; held := (R, l) :: held t; ann := false |} = false) by reflexivity.
    assert (Wt : forall x, writer x {| todo := r; held := (R, l) :: held t; ann := false |} = writer x t).
    { intro x. rewrite (writer_noann x t Hn). unfold writer, announced, holds. simpl. apply orb_false_r. }
    assert (HWt : forall x, holds W x {| todo := r; held := (R, l) :: held t; ann := false |} = holds W x t) by reflexivity.
    repeat split.
    + intro x. rewrite Q, Q'. simpl. pose proof (IL x). lia.
    + intros x Hp. rewrite Q, Q'. simpl. pose proof (IJ x (Jpre x Hp ltac:(rewrite Wt; auto))). lia.
    + intros x Hx. rewrite HWt in Hx. eapply IK; eauto.
    + intros x j u Hj Hu Hx. eapply IK; eauto.
    + intros x j u Hj Hu Hx Hy. rewrite Wt in Hx. pose proof (IX x k j t u Hk Hu Hx Hy). lia.
    + intros x j u Hj Hu Hx Hy. rewrite HWt in Hx. pose proof (IY x k j t u Hk Hu Hx Hy). lia.
    + intros x j u Hj Hu Hx Hy. unfold holds_any in Hy. simpl in Hy. apply orb_true_iff in Hy as [Hy | Hy].
      * apply Nat.eqb_eq in Hy. subst x.
        pose proof (anyother_false _ _ _ _ _ Hw Hu Hj) as Hc. unfold writer in Hc. rewrite Hx in Hc. discriminate.
      * pose proof (IY x j k u t Hu Hk Hx Hy). lia.
  - (* reader barges: consumes a wake-up although a writer is announced *)
    assert (Q : forall x, queued x t = false) by (intro; apply queued_noann; exact Hn).
    assert (Q' : forall x, queued x {| todo := r; held := (R, l) :: held t; ann := false |} = false) by reflexivity.
    assert (Wt : forall x, writer x {| todo := r; held := (R, l) :: held t; ann := false |} = writer x t).
    { intro x. rewrite (writer_noann x t Hn). unfold writer, announced, holds. simpl. apply orb_false_r. }
    assert (HWt : forall x, holds W x {| todo := r; held := (R, l) :: held t; ann := false |} = holds W x t) by reflexivity.
    apply anyother_spec in Hw as (jw & uw & Hjw & Hnw & Hww).
    assert (NoW : forall j u, nth_error (ths s) j = Some u -> holds W l u = true -> False).
    { intros j u Hj Hu. pose proof (IK l j u Hj Hu). lia. }
    repeat split.
    + intro x. rewrite Q, Q'. simpl. unfold setg. pose proof (IL x).
      destruct (Nat.eqb x l) eqn:E; [apply Nat.eqb_eq in E; subst x|]; lia.
    + intros x Hp. rewrite Q, Q'. simpl. unfold setg. destruct (Nat.eqb x l) eqn:E.
      * apply Nat.eqb_eq in E. subst x. exfalso.
        assert (writer l uw = false); [|congruence]. apply (Hp jw uw). simpl. rewrite nth_error_upd.
        destruct (Nat.eqb k jw) eqn:E2; [apply Nat.eqb_eq in E2; lia|exact Hjw].
      * pose proof (IJ x (Jpre x Hp ltac:(rewrite Wt; auto))). lia.
    + intros x Hx. rewrite HWt in Hx. unfold setg. pose proof (IK x k t Hk Hx).
      destruct (Nat.eqb x l) eqn:E; [apply Nat.eqb_eq in E; subst x|]; lia.
    + intros x j u Hj Hu Hx. unfold setg. pose proof (IK x j u Hu Hx).
      destruct (Nat.eqb x l) eqn:E; [apply Nat.eqb_eq in E; subst x|]; lia.
    + intros x j u Hj Hu Hx Hy. rewrite Wt in Hx. pose proof (IX x k j t u Hk Hu Hx Hy). lia.
    + intros x j u Hj Hu Hx Hy. rewrite HWt in Hx. pose proof (IY x k j t u Hk Hu Hx Hy). lia.
    + intros x j u Hj Hu Hx Hy. unfold holds_any in Hy. simpl in Hy. apply orb_true_iff in Hy as [Hy | Hy].
      * apply Nat.eqb_eq in Hy. subst x. eapply NoW; eauto.
      * pose proof (IY x j k u t Hu Hk Hx Hy). lia.
  - (* reader queues *)
    assert (Q : forall x, queued x t = false) by (intro; apply queued_noann; exact Hn).
    assert (Wt : forall x, writer x {| todo := GAcq R l :: r; held := held t; ann := true |} = writer x t).
    { intro x. rewrite (writer_noann x t Hn). unfold writer, announced. simpl. apply orb_false_r. }
    apply anyother_spec in Hw as (jw & uw & Hjw & Hnw & Hww).
    repeat split.
    + intro x. rewrite Q. simpl. pose proof (IL x). destruct (queued x _); simpl; lia.
    + intros x Hp. rewrite Q. unfold queued at 1. simpl. destruct (Nat.eqb x l) eqn:E.
      * apply Nat.eqb_eq in E. subst x. exfalso.
        assert (writer l uw = false); [|congruence]. apply (Hp jw uw). simpl. rewrite nth_error_upd.
        destruct (Nat.eqb k jw) eqn:E2; [apply Nat.eqb_eq in E2; lia|exact Hjw].
      * simpl. pose proof (IJ x (Jpre x Hp ltac:(rewrite Wt; auto))). lia.
    + intros x Hx. eapply (IK x k t); eauto.
    + intros x j u Hj Hu Hx. eapply IK; eauto.
    + intros x j u Hj Hu Hx Hy. rewrite Wt in Hx. pose proof (IX x k j t u Hk Hu Hx Hy). lia.
    + intros x j u Hj Hu Hx Hy. pose proof (IY x k j t u Hk Hu Hx Hy). lia.
    + intros x j u Hj Hu Hx Hy. pose proof (IY x j k u t Hu Hk Hx Hy). lia.
  - (* queued reader consumes a wake-up *)
    assert (Q : forall x, queued x t = Nat.eqb x l) by (intro x; unfold queued; rewrite Hn, Ht; reflexivity).
    assert (Q' : forall x, queued x {| todo := r; held := (R, l) :: held t; ann := false |} = false) by reflexivity.
    assert (Wt : forall x, writer x {| todo := r; held := (R, l) :: held t; ann := false |} = writer x t).
    { intro x. unfold writer, announced, holds. simpl. rewrite Ht. rewrite andb_false_r. reflexivity. }
    assert (HWt : forall x, holds W x {| todo := r; held := (R, l) :: held t; ann := false |} = holds W x t) by reflexivity.
    assert (NoW : forall j u, nth_error (ths s) j = Some u -> holds W l u = true -> False).
    { intros j u Hj Hu. pose proof (IK l j u Hj Hu). lia. }
    repeat split.
    + intro x. rewrite Q, Q'. unfold setg. pose proof (IL x).
      destruct (Nat.eqb x l) eqn:E; [apply Nat.eqb_eq in E; subst x|]; simpl; lia.
    + intros x Hp. rewrite Q, Q'. unfold setg. pose proof (IJ x (Jpre x Hp ltac:(rewrite Wt; auto))).
      destruct (Nat.eqb x l) eqn:E; simpl; [apply Nat.eqb_eq in E; subst x|]; lia.
    + intros x Hx. rewrite HWt in Hx. unfold setg. pose proof (IK x k t Hk Hx).
      destruct (Nat.eqb x l) eqn:E; [apply Nat.eqb_eq in E; subst x|]; lia.
    + intros x j u Hj Hu Hx. unfold setg. pose proof (IK x j u Hu Hx).
      destruct (Nat.eqb x l) eqn:E; [apply Nat.eqb_eq in E; subst x|]; lia.
    + intros x j u Hj Hu Hx Hy. rewrite Wt in Hx. pose proof (IX x k j t u Hk Hu Hx Hy). lia.
    + intros x j u Hj Hu Hx Hy. rewrite HWt in Hx. pose proof (IY x k j t u Hk Hu Hx Hy). lia.
    + intros x j u Hj Hu Hx Hy. unfold holds_any in Hy. simpl in Hy. apply orb_true_iff in Hy as [Hy | Hy].
      * apply Nat.eqb_eq in Hy. subst x. eapply NoW; eauto.
      * pose proof (IY x j k u t Hu Hk Hx Hy). lia.
  - (* writer announces itself *)
    assert (Q : forall x, queued x t = false) by (intro; apply queued_noann; exact Hn).
    assert (Q' : forall x, queued x {| todo := GAcq W l :: r; held := held t; ann := true |} = false) by reflexivity.
    assert (Wt : forall x, writer x {| todo := GAcq W l :: r; held := held t; ann := true |} = writer x t || Nat.eqb x l).
    { intro x. rewrite (writer_noann x t Hn). unfold writer, announced. simpl. reflexivity. }
    repeat split.
    + intro x. rewrite Q, Q'. simpl. pose proof (IL x). lia.
    + intros x Hp. rewrite Q, Q'. simpl.
      pose proof (IJ x (Jpre x Hp ltac:(rewrite Wt; intro E; rewrite E; reflexivity))). lia.
    + intros x Hx. eapply (IK x k t); eauto.
    + intros x j u Hj Hu Hx. eapply IK; eauto.
    + intros x j u Hj Hu Hx Hy. rewrite Wt in Hx. apply orb_true_iff in Hx as [Hx | Hx].
      * pose proof (IX x k j t u Hk Hu Hx Hy). lia.
      * apply Nat.eqb_eq in Hx. subst x. pose proof (anyother_false _ _ _ _ _ Hw Hu Hj). congruence.
    + intros x j u Hj Hu Hx Hy. pose proof (IY x k j t u Hk Hu Hx Hy). lia.
    + intros x j u Hj Hu Hx Hy. pose proof (IY x j k u t Hu Hk Hx Hy). lia.
  - (* announced writer gets the lock *)
    assert (Q : forall x, queued x t = false) by (intro x; unfold queued; rewrite Ht; apply andb_false_r).
    assert (Q' : forall x, queued x {| todo := r; held := (W, l) :: held t; ann := false |} = false) by reflexivity.
    assert (Wold : forall x, writer x t = holds W x t || Nat.eqb x l).
    { intro x. unfold writer, announced. rewrite Hn, Ht. reflexivity. }
    assert (HWt : forall x, holds W x {| todo := r; held := (W, l) :: held t; ann := false |} = Nat.eqb x l || holds W x t).
    { intro x. unfold holds. simpl. rewrite Nat.eqb_sym. reflexivity. }
    assert (Wt : forall x, writer x {| todo := r; held := (W, l) :: held t; ann := false |} = writer x t).
    { intro x. rewrite Wold. unfold writer at 1, announced. simpl. rewrite HWt, orb_false_r. apply orb_comm. }
    repeat split.
    + intro x. rewrite Q, Q'. simpl. pose proof (IL x). lia.
    + intros x Hp. rewrite Q, Q'. simpl. pose proof (IJ x (Jpre x Hp ltac:(rewrite Wt; auto))). lia.
    + intros x Hx. rewrite HWt in Hx. apply orb_true_iff in Hx as [Hx | Hx].
      * apply Nat.eqb_eq in Hx. subst x. exact Hg.
      * eapply (IK x k t); eauto.
    + intros x j u Hj Hu Hx. eapply IK; eauto.
    + intros x j u Hj Hu Hx Hy. rewrite Wt in Hx. pose proof (IX x k j t u Hk Hu Hx Hy). lia.
    + intros x j u Hj Hu Hx Hy. rewrite HWt in Hx. apply orb_true_iff in Hx as [Hx | Hx].
      * apply Nat.eqb_eq in Hx. subst x. pose proof (anyother_false _ _ _ _ _ Hw Hu Hj). congruence.
      * pose proof (IY x k j t u Hk Hu Hx Hy). lia.
    + intros x j u Hj Hu Hx Hy. unfold holds_any in Hy. simpl in Hy. apply orb_true_iff in Hy as [Hy | Hy].
      * apply Nat.eqb_eq in Hy. subst x. pose proof (anyother_false _ _ _ _ _ Hw Hu Hj) as Hc.
        rewrite (holds_holds_any _ _ _ Hx) in Hc. discriminate.
      * pose proof (IY x j k u t Hu Hk Hx Hy). lia.
  - (* RUnlock *)
    pose proof (thok_rel_noann rk t R l r tok Ht) as Hn.
    assert (Q : forall x, queued x t = false) by (intro; apply queued_noann; exact Hn).
    assert (Q' : forall x, queued x {| todo := r; held := remove1 R l (held t); ann := ann t |} = false)
      by (intro; apply queued_noann; exact Hn).
    assert (HWt : forall x, holds W x {| todo := r; held := remove1 R l (held t); ann := ann t |} = holds W x t)
      by (intro; apply holdsW_remove1_R).
    assert (Wt : forall x, writer x {| todo := r; held := remove1 R l (held t); ann := ann t |} = writer x t).
    { intro x. rewrite (writer_noann x t Hn). rewrite writer_noann; [apply HWt|exact Hn]. }
    repeat split.
    + intro x. rewrite Q, Q'. simpl. pose proof (IL x). lia.
    + intros x Hp. rewrite Q, Q'. simpl. pose proof (IJ x (Jpre x Hp ltac:(rewrite Wt; auto))). lia.
    + intros x Hx. rewrite HWt in Hx. eapply (IK x k t); eauto.
    + intros x j u Hj Hu Hx. eapply IK; eauto.
    + intros x j u Hj Hu Hx Hy. rewrite Wt in Hx. pose proof (IX x k j t u Hk Hu Hx Hy). lia.
    + intros x j u Hj Hu Hx Hy. rewrite HWt in Hx. pose proof (IY x k j t u Hk Hu Hx Hy). lia.
    + intros x j u Hj Hu Hx Hy. apply holdsany_remove1 in Hy. rewrite (holdsany_rec x r (held t) (ann t) t eq_refl) in Hy.
      pose proof (IY x j k u t Hu Hk Hx Hy). lia.
  - (* Unlock: every queued reader gets a wake-up *)
    pose proof (thok_rel_noann rk t W l r tok Ht) as Hn.
    assert (Q : forall x, queued x t = false) by (intro; apply queued_noann; exact Hn).
    assert (Q' : forall x, queued x {| todo := r; held := remove1 W l (held t); ann := ann t |} = false)
      by (intro; apply queued_noann; exact Hn).
    assert (Hin : In (W, l) (held t)) by (rewrite Ht in Hd; simpl in Hd; tauto).
    assert (HWl : holds W l t = true) by (apply holds_in; exact Hin).
    assert (HWt : forall x, holds W x {| todo := r; held := remove1 W l (held t); ann := ann t |} = true ->
                            holds W x t = true /\ x <> l).
    { intros x Hx. split; [apply holdsW_remove1 in Hx; rewrite (holds_rec W x r (held t) (ann t) t eq_refl) in Hx; exact Hx|].
      apply holds_in in Hx. simpl in Hx. exact (hsorted_remove1_gone rk W l (held t) (W, x) Hs Hin Hx). }
    assert (Wt : forall x, writer x {| todo := r; held := remove1 W l (held t); ann := ann t |} = true ->
                           writer x t = true /\ x <> l).
    { intros x Hx. rewrite writer_noann in Hx by exact Hn. rewrite (writer_noann x t Hn). apply HWt. exact Hx. }
    assert (G0 : gr s l = 0) by (eapply (IK l k t); eauto).
    repeat split.
    + intro x. rewrite Q, Q'. simpl. unfold setg. pose proof (IL x). destruct (Nat.eqb x l) eqn:E; [|lia].
      apply Nat.eqb_eq in E. subst x. lia.
    + intros x Hp. rewrite Q, Q'. simpl. unfold setg. destruct (Nat.eqb x l) eqn:E; [apply Nat.eqb_eq in E; subst x; lia|].
      apply Nat.eqb_neq in E.
      assert (Hpre : forall j u, nth_error (ths s) j = Some u -> writer x u = false).
      { intros j u Hj. destruct (Nat.eq_dec j k) as [->|Hne].
        - rewrite Hk in Hj. injection Hj as <-. rewrite (writer_noann x t Hn).
          destruct (holds W x t) eqn:Hh; [|reflexivity].
          rewrite <- (Hp k _ Hself). rewrite writer_noann by exact Hn. symmetry. apply holds_in. simpl.
          apply remove1_other; [exact E|apply holds_in; exact Hh].
        - apply (Hp j u). simpl. rewrite nth_error_upd. destruct (Nat.eqb k j) eqn:E2; [apply Nat.eqb_eq in E2; lia|exact Hj]. }
      pose proof (IJ x Hpre). lia.
    + intros x Hx. destruct (HWt x Hx) as [Hx1 Hx2]. unfold setg. apply Nat.eqb_neq in Hx2. rewrite Hx2. eapply (IK x k t); eauto.
    + intros x j u Hj Hu Hx. unfold setg. destruct (Nat.eqb x l) eqn:E.
      * apply Nat.eqb_eq in E. subst x. exfalso. pose proof (IY l j k u t Hu Hk Hx (holds_holds_any _ _ _ HWl)). lia.
      * eapply IK; eauto.
    + intros x j u Hj Hu Hx Hy. destruct (Wt x Hx) as [Hx1 _]. pose proof (IX x k j t u Hk Hu Hx1 Hy). lia.
    + intros x j u Hj Hu Hx Hy. destruct (HWt x Hx) as [Hx1 _]. pose proof (IY x k j t u Hk Hu Hx1 Hy). lia.
    + intros x j u Hj Hu Hx Hy. apply holdsany_remove1 in Hy. rewrite (holdsany_rec x r (held t) (ann t) t eq_refl) in Hy.
      pose proof (IY x j k u t Hu Hk Hx Hy). lia.
  - (* Wait returns *)
    pose proof (thok_wait_noann rk t js r tok Ht) as Hn.
    assert (Q : forall x, queued x t = false) by (intro; apply queued_noann; exact Hn).
    assert (Q' : forall x, queued x {| todo := r; held := held t; ann := ann t |} = false)
      by (intro; apply queued_noann; exact Hn).
    assert (Wt : forall x, writer x {| todo := r; held := held t; ann := ann t |} = writer x t).
    { intro x. rewrite (writer_noann x t Hn). rewrite writer_noann; [reflexivity|exact Hn]. }
    repeat split.
    + intro x. rewrite Q, Q'. simpl. pose proof (IL x). lia.
    + intros x Hp. rewrite Q, Q'. simpl. pose proof (IJ x (Jpre x Hp ltac:(rewrite Wt; auto))). lia.
    + intros x Hx. eapply (IK x k t); eauto.
    + intros x j u Hj Hu Hx. eapply IK; eauto.
    + intros x j u Hj Hu Hx Hy. rewrite Wt in Hx. pose proof (IX x k j t u Hk Hu Hx Hy). lia.
    + intros x j u Hj Hu Hx Hy. pose proof (IY x k j t u Hk Hu Hx Hy). lia.
    + intros x j u Hj Hu Hx Hy. pose proof (IY x j k u t Hu Hk Hx Hy). lia.
  - (* a guarded access *)
    pose proof (thok_use_noann rk t w0 l r tok Ht) as Hn.
    assert (Q : forall x, queued x t = false) by (intro; apply queued_noann; exact Hn).
    assert (Q' : forall x, queued x {| todo := r; held := held t; ann := ann t |} = false)
      by (intro; apply queued_noann; exact Hn).
    assert (Wt : forall x, writer x {| todo := r; held := held t; ann := ann t |} = writer x t).
    { intro x. rewrite (writer_noann x t Hn). rewrite writer_noann; [reflexivity|exact Hn]. }
    repeat split.
    + intro x. rewrite Q, Q'. simpl. pose proof (IL x). lia.
    + intros x Hp. rewrite Q, Q'. simpl. pose proof (IJ x (Jpre x Hp ltac:(rewrite Wt; auto))). lia.
    + intros x Hx. eapply (IK x k t); eauto.
    + intros x j u Hj Hu Hx. eapply IK; eauto.
    + intros x j u Hj Hu Hx Hy. rewrite Wt in Hx. pose proof (IX x k j t u Hk Hu Hx Hy). lia.
    + intros x j u Hj Hu Hx Hy. pose proof (IY x k j t u Hk Hu Hx Hy). lia.
    + intros x j u Hj Hu Hx Hy. pose proof (IY x j k u t Hu Hk Hx Hy). lia.
Qed.
End Step.

Lemma nowait_suffix tr tr' : (tr' = tr \/ exists o, tr = o :: tr') -> nowait tr -> nowait tr'.
Proof.
  intros [-> | (o & ->)] H; [exact H|]. intros js Hin. apply (H js). right. exact Hin.
Qed.
Lemma in_suffix {A} (x : A) tr tr' : (tr' = tr \/ exists o, tr = o :: tr') -> In x tr' -> In x tr.
Proof. intros [-> | (o & ->)] H; [exact H|right; exact H]. Qed.

Lemma inv_step rk s k : Inv rk s -> Inv rk (step s k).
Proof.
  intro HI. destruct (step_cases s k) as [-> | (t & t' & g' & Hk & Hst & ->)]; [exact HI|].
  pose proof (own_facts rk s k t t' g' HI Hk Hst) as (FL & FJ & FK1 & FK2 & FX & FY1 & FY2).
  pose proof (nth_s' s k t t' g' Hk) as Hnth.
  pose proof (stepk_suffix _ _ _ _ _ Hst) as Hsuf.
  constructor.
  - intros j u Hj. destruct (Hnth j u Hj) as [[-> ->] | [Hn Hu]].
    + eapply stepk_thok; [exact (i_th _ _ HI _ _ Hk)|exact Hst].
    + exact (i_th _ _ HI _ _ Hu).
  - intros i u js j v Hi Hin Hjj Hj.
    assert (Hu : exists u0, nth_error (ths s) i = Some u0 /\ In (GWait js) (todo u0)).
    { destruct (Hnth i u Hi) as [[-> ->] | [Hn Hu]]; [exists t; split; [exact Hk|eapply in_suffix; eauto]|exists u; auto]. }
    destruct Hu as (u0 & Hu0 & Hin0).
    destruct (Hnth j v Hj) as [[-> ->] | [Hn Hv]].
    + eapply nowait_suffix; [exact Hsuf|]. exact (i_wt _ _ HI i u0 js k t Hu0 Hin0 Hjj Hk).
    + exact (i_wt _ _ HI i u0 js j v Hu0 Hin0 Hjj Hv).
  - intro l. simpl. pose proof (nq_upd (ths s) k t t' l Hk). pose proof (FL l). lia.
  - intros l Hp. simpl. pose proof (nq_upd (ths s) k t t' l Hk). pose proof (FJ l Hp). lia.
  - intros l j u Hj Hh. simpl. destruct (Hnth j u Hj) as [[-> ->] | [Hn Hu]]; [apply FK1; exact Hh|eapply FK2; eauto].
  - intros l i j u v Hi Hj Hu Hv.
    destruct (Hnth i u Hi) as [[-> ->] | [Hni Hu0]]; destruct (Hnth j v Hj) as [[-> ->] | [Hnj Hv0]]; [reflexivity| | |].
    + exfalso. eapply FX; eauto.
    + exfalso. eapply FX; eauto.
    + eapply (i_X _ _ HI); eauto.
  - intros l i j u v Hi Hj Hu Hv.
    destruct (Hnth i u Hi) as [[-> ->] | [Hni Hu0]]; destruct (Hnth j v Hj) as [[-> ->] | [Hnj Hv0]]; [reflexivity| | |].
    + exfalso. eapply FY1; eauto.
    + exfalso. eapply FY2; eauto.
    + eapply (i_Y _ _ HI); eauto.
Qed.

Lemma inv_run rk sched : forall s, Inv rk s -> Inv rk (run s sched).
Proof.
  induction sched as [|k r IH]; intros s H; simpl; [exact H|]. apply IH. apply inv_step. exact H.
Qed.

Lemma nq_init trs l : nq (map start trs) l = 0.
Proof. unfold nq. induction trs as [|x r IH]; simpl; [reflexivity|exact IH]. Qed.

Lemma inv_init rk trs :
  (forall tr, In tr trs -> disc rk [] tr) ->
  (forall tr js j tr', In tr trs -> In (GWait js) tr -> In j js -> nth_error trs j = Some tr' -> nowait tr') ->
  Inv rk (init trs).
Proof.
  intros Hd Hw.
  assert (Hth : forall k t, nth_error (ths (init trs)) k = Some t -> exists tr, nth_error trs k = Some tr /\ t = start tr).
  { intros k t Hk. simpl in Hk. rewrite nth_error_map in Hk. destruct (nth_error trs k) as [tr|]; [|discriminate].
    injection Hk as <-. exists tr. auto. }
  constructor.
  - intros k t Hk. destruct (Hth k t Hk) as (tr & Htr & ->). split; [|split]; simpl; [|exact I|discriminate].
    apply Hd. eapply nth_error_In; eauto.
  - intros i t js j u Hi Hin Hj Hu. destruct (Hth i t Hi) as (tr & Htr & ->). destruct (Hth j u Hu) as (tr' & Htr' & ->).
    simpl in *. eapply Hw; eauto. eapply nth_error_In; eauto.
  - intro l. simpl. lia.
  - intros l _. simpl. rewrite nq_init. lia.
  - intros l j u Hj Hh. reflexivity.
  - intros l i j u v Hi Hj Hu Hv. destruct (Hth i u Hi) as (tr & _ & ->). discriminate.
  - intros l i j u v Hi Hj Hu Hv. destruct (Hth i u Hi) as (tr & _ & ->). discriminate.
Qed.

(* ---------- no deadlock ---------- *)

Definition blocked_on (s : sys) (k : nat) (l : nat) : Prop :=
  exists t m r, nth_error (ths s) k = Some t /\ todo t = GAcq m l :: r /\ enabled s k = false.

(* a goroutine holding l is able to move, or is blocked on a lock of higher rank *)
Lemma holder_progress rk s j u l :
  Inv rk s -> nth_error (ths s) j = Some u -> holds_any l u = true ->
  enabled s j = true \/ exists l', blocked_on s j l' /\ rk l < rk l'.
Proof.
  intros HI Hj Hh. destruct (i_th _ _ HI _ _ Hj) as (Hd & _ & _). apply holds_any_in in Hh as [m Hin].
  destruct (todo u) as [|[m' l'|m' l'|js|w' l'] r'] eqn:Ht; simpl in Hd.
  - rewrite Hd in Hin. destruct Hin.
  - destruct Hd as [Hlt _]. destruct (enabled s j) eqn:He; [left; reflexivity|].
    right. exists l'. split; [exists u, m', r'; auto|exact (Hlt _ Hin)].
  - left. unfold enabled. rewrite Hj, Ht. reflexivity.
  - destruct Hd as [Hd _]. rewrite Hd in Hin. destruct Hin.
  - left. unfold enabled. rewrite Hj, Ht. reflexivity.
Qed.

(* a goroutine that is announced as a writer on l: it or someone else can move, or a blocked holder *)
Lemma writer_progress rk s j u l :
  Inv rk s -> nth_error (ths s) j = Some u -> writer l u = true ->
  (exists k', enabled s k' = true) \/ exists j' l', blocked_on s j' l' /\ rk l < rk l'.
Proof.
  intros HI Hj Hw. unfold writer in Hw. apply orb_true_iff in Hw as [Hh | Ha].
  - destruct (holder_progress rk s j u l HI Hj (holds_holds_any _ _ _ Hh)) as [He | (l' & Hb & Hlt)];
      [left; exists j; exact He|right; exists j, l'; auto].
  - unfold announced in Ha. apply andb_true_iff in Ha as [Hann Hhd].
    destruct (todo u) as [|[[|] l0|m0 l0|js|w0 l0] r0] eqn:Ht; try discriminate.
    apply Nat.eqb_eq in Hhd. subst l0.
    destruct (enabled s j) eqn:He; [left; exists j; exact He|].
    unfold enabled in He. rewrite Hj, Ht, Hann in He. apply andb_false_iff in He as [He | He].
    + apply negb_false_iff in He. apply anyother_spec in He as (j2 & u2 & Hj2 & _ & Hh2).
      destruct (holder_progress rk s j2 u2 l HI Hj2 Hh2) as [He2 | (l' & Hb & Hlt)];
        [left; exists j2; exact He2|right; exists j2, l'; auto].
    + (* a wake-up is outstanding: some queued reader can consume it *)
      apply Nat.eqb_neq in He. pose proof (i_L _ _ HI l) as HL.
      destruct (nq_pos_ex (ths s) l ltac:(lia)) as (j2 & u2 & Hj2 & Hq).
      left. exists j2. unfold queued in Hq. apply andb_true_iff in Hq as [Hq1 Hq2].
      destruct (todo u2) as [|[[|] l2|m2 l2|js2|w2 l2] r2] eqn:Ht2; try discriminate.
      apply Nat.eqb_eq in Hq2. subst l2. unfold enabled. rewrite Hj2, Ht2, Hq1. apply Nat.ltb_lt. lia.
Qed.

Lemma blocked_step rk s k l :
  Inv rk s -> blocked_on s k l ->
  (exists k', enabled s k' = true) \/ exists j' l', blocked_on s j' l' /\ rk l < rk l'.
Proof.
  intros HI (t & m & r & Hk & Ht & He). pose proof He as He0. unfold enabled in He. rewrite Hk, Ht in He.
  destruct m.
  - (* a queued reader without a wake-up: a writer is around *)
    destruct (ann t) eqn:Ha; [|discriminate]. apply Nat.ltb_ge in He.
    assert (Hq : queued l t = true) by (unfold queued; rewrite Ha, Ht, Nat.eqb_refl; reflexivity).
    pose proof (nq_pos (ths s) l t (nth_error_In _ _ Hk) Hq) as Hpos.
    destruct (existsb (writer l) (ths s)) eqn:Hex.
    + apply existsb_exists in Hex as (u & Hin & Hw). apply In_nth_error in Hin as (j & Hj).
      eapply writer_progress; eauto.
    + exfalso. pose proof (i_J _ _ HI l) as HJ.
      assert (nq (ths s) l <= gr s l); [|lia]. apply HJ. intros j u Hj.
      destruct (writer l u) eqn:E; [|reflexivity].
      assert (existsb (writer l) (ths s) = true); [|congruence].
      apply existsb_exists. exists u. split; [eapply nth_error_In; eauto|exact E].
  - destruct (ann t) eqn:Ha.
    + apply andb_false_iff in He as [He | He].
      * apply negb_false_iff in He. apply anyother_spec in He as (j2 & u2 & Hj2 & _ & Hh2).
        destruct (holder_progress rk s j2 u2 l HI Hj2 Hh2) as [He2 | (l' & Hb & Hlt)];
          [left; exists j2; exact He2|right; exists j2, l'; auto].
      * apply Nat.eqb_neq in He. pose proof (i_L _ _ HI l) as HL.
        destruct (nq_pos_ex (ths s) l ltac:(lia)) as (j2 & u2 & Hj2 & Hq).
        left. exists j2. unfold queued in Hq. apply andb_true_iff in Hq as [Hq1 Hq2].
        destruct (todo u2) as [|[[|] l2|m2 l2|js2|w2 l2] r2] eqn:Ht2; try discriminate.
        apply Nat.eqb_eq in Hq2. subst l2. unfold enabled. rewrite Hj2, Ht2, Hq1. apply Nat.ltb_lt. lia.
    + apply negb_false_iff in He. apply anyother_spec in He as (j2 & u2 & Hj2 & _ & Hw2).
      eapply writer_progress; eauto.
Qed.

Definition headrank (rk : nat -> nat) (t : th) : nat :=
  match todo t with GAcq _ l :: _ => S (rk l) | _ => 0 end.
Definition bound (rk : nat -> nat) (s : list th) : nat := fold_right Nat.max 0 (map (headrank rk) s).

Lemma bound_ge rk s k t : nth_error s k = Some t -> headrank rk t <= bound rk s.
Proof.
  revert k; induction s as [|x r IH]; intros [|k] H; simpl in H; try discriminate.
  - injection H as <-. unfold bound. simpl. lia.
  - specialize (IH _ H). unfold bound in *. simpl. lia.
Qed.

Lemma blocked_chain rk s : Inv rk s ->
  forall n k l, blocked_on s k l -> bound rk (ths s) - rk l <= n -> exists k', enabled s k' = true.
Proof.
  intros HI. induction n as [|n IH]; intros k l Hb Hn.
  - destruct Hb as (t & m & r & Hk & Ht & _). pose proof (bound_ge rk _ k t Hk) as Hbd.
    unfold headrank in Hbd. rewrite Ht in Hbd. lia.
  - destruct (blocked_step rk s k l HI Hb) as [Hex | (j' & l' & Hb' & Hlt)]; [exact Hex|].
    apply (IH j' l' Hb'). destruct Hb' as (t & m & r & Hk & Ht & _).
    pose proof (bound_ge rk _ j' t Hk) as Hbd. unfold headrank in Hbd. rewrite Ht in Hbd. lia.
Qed.

Theorem inv_no_deadlock rk s : Inv rk s ->
  forall k t, nth_error (ths s) k = Some t -> todo t <> [] -> enabled s k = false ->
  exists k', enabled s k' = true.
Proof.
  intros HI k t Hk Hne He.
  destruct (todo t) as [|[m l|m l|js|w l] r] eqn:Ht; [congruence| | | |].
  4: { unfold enabled in He. rewrite Hk, Ht in He. discriminate. }
  - eapply (blocked_chain rk s HI _ k l); [exists t, m, r; auto|apply Nat.le_refl].
  - unfold enabled in He. rewrite Hk, Ht in He. discriminate.
  - (* blocked in Wait: one of the targets has not finished; targets never wait *)
    pose proof He as He0. unfold enabled in He. rewrite Hk, Ht in He.
    assert (Hex : exists j, In j js /\ finished s j = false).
    { clear -He. induction js as [|j js IH]; simpl in He; [discriminate|].
      apply andb_false_iff in He as [H | H].
      - exists j. split; [left; reflexivity|exact H].
      - destruct (IH H) as (j' & Hin & Hf). exists j'. split; [right; exact Hin|exact Hf]. }
    destruct Hex as (j & Hin & Hf). unfold finished in Hf.
    destruct (nth_error (ths s) j) as [u|] eqn:Hj; [|discriminate].
    assert (Hnw : nowait (todo u)).
    { eapply (i_wt _ _ HI k t js j u); eauto. rewrite Ht. left. reflexivity. }
    destruct (todo u) as [|[m' l'|m' l'|js'|w' l'] r'] eqn:Hu; [discriminate| | | |].
    + destruct (enabled s j) eqn:Hej; [exists j; exact Hej|].
      eapply (blocked_chain rk s HI _ j l'); [exists u, m', r'; auto|apply Nat.le_refl].
    + exists j. unfold enabled. rewrite Hj, Hu. reflexivity.
    + exfalso. apply (Hnw js'). left. reflexivity.
    + exists j. unfold enabled. rewrite Hj, Hu. reflexivity.
Qed.

(* for any goroutines, any schedule: whenever some goroutine is blocked, another can move *)
Theorem disciplined_no_deadlock rk trs sched :
  (forall tr, In tr trs -> disc rk [] tr) ->
  (forall tr js j tr', In tr trs -> In (GWait js) tr -> In j js -> nth_error trs j = Some tr' -> nowait tr') ->
  let s := run (init trs) sched in
  forall k t, nth_error (ths s) k = Some t -> todo t <> [] -> enabled s k = false ->
  exists k', enabled s k' = true.
Proof.
  intros Hd Hw s. apply inv_no_deadlock with (rk := rk). apply inv_run. apply inv_init; assumption.
Qed.

(* a goroutine that has nothing left to do holds nothing *)
Theorem finished_holds_nothing rk trs sched :
  (forall tr, In tr trs -> disc rk [] tr) ->
  (forall tr js j tr', In tr trs -> In (GWait js) tr -> In j js -> nth_error trs j = Some tr' -> nowait tr') ->
  forall k t, nth_error (ths (run (init trs) sched)) k = Some t -> todo t = [] -> held t = [].
Proof.
  intros Hd Hw k t Hk Ht.
  assert (HI : Inv rk (run (init trs) sched)) by (apply inv_run; apply inv_init; assumption).
  destruct (i_th _ _ HI _ _ Hk) as (H & _). rewrite Ht in H. exact H.
Qed.

(* the model is a lock: a goroutine that holds a lock for writing is the only holder, and at most one
   goroutine is announced on it or holds it for writing *)
Theorem mutual_exclusion rk trs sched :
  (forall tr, In tr trs -> disc rk [] tr) ->
  (forall tr js j tr', In tr trs -> In (GWait js) tr -> In j js -> nth_error trs j = Some tr' -> nowait tr') ->
  let s := run (init trs) sched in
  forall l i j u v, nth_error (ths s) i = Some u -> nth_error (ths s) j = Some v ->
  holds W l u = true -> holds_any l v = true -> i = j.
Proof.
  intros Hd Hw s. assert (HI : Inv rk s) by (apply inv_run; apply inv_init; assumption). exact (i_Y _ _ HI).
Qed.

(* guarded data: a goroutine about to write data guarded by lock l is the only one that is about to
   access that data (for reading or writing) - conflicting accesses never overlap *)
Theorem exclusive_access rk trs sched :
  (forall tr, In tr trs -> disc rk [] tr) ->
  (forall tr js j tr', In tr trs -> In (GWait js) tr -> In j js -> nth_error trs j = Some tr' -> nowait tr') ->
  let s := run (init trs) sched in
  forall l i j u v w ru rv, nth_error (ths s) i = Some u -> nth_error (ths s) j = Some v ->
  todo u = GUse true l :: ru -> todo v = GUse w l :: rv -> i = j.
Proof.
  intros Hd Hw s. assert (HI : Inv rk s) by (apply inv_run; apply inv_init; assumption).
  intros l i j u v w ru rv Hi Hj Hu Hv.
  destruct (i_th _ _ HI _ _ Hi) as (Hdu & _ & _). destruct (i_th _ _ HI _ _ Hj) as (Hdv & _ & _).
  rewrite Hu in Hdu. rewrite Hv in Hdv. simpl in Hdu, Hdv.
  destruct Hdu as [[Hwu | [Hc _]] _]; [|discriminate].
  apply (i_Y _ _ HI l i j u v Hi Hj); [apply holds_in; exact Hwu|].
  apply holds_any_in. destruct Hdv as [[Hwv | [_ Hrv]] _]; eexists; eassumption.
Qed.
