(* Proofs about Model/Prom.v, part 3: the whole system.  For every history of
   first uses, records and report passes in which a name stands for one kind
   of metric with one set of tag keys (and one bucket specification), every
   declared object owns the series (family of its name, its tag values) and
   that series holds exactly what the object's own run delivered:
       series value = feed (deliveries of  orun (oinit use) (events of object i))
   The per-kind lemmas of Proof/PromObjP.v then give the values. *)
From Coq Require Import ZArith List Bool Lia Arith.
From Tally Require Import Base.ObsCore Base.Search Model.Buckets Model.Prom Proof.PromP Proof.PromObjP.
Import ListNotations.
Open Scope Z_scope.

Record decl := Decl { duse : tuse; dname : str; dtags : list (str * str) }.
Definition dkeys (d : decl) : list str := map fst (dtags d).
Definition dvals (d : decl) : list str := map snd (dtags d).

Fixpoint decls (h : list top) : list decl :=
  match h with
  | [] => []
  | TDecl u n t :: r => Decl u n t :: decls r
  | _ :: r => decls r
  end.

Lemma decls_app a b : decls (a ++ b) = decls a ++ decls b.
Proof. induction a as [|[] a IH]; cbn; now rewrite ?IH. Qed.

(* the events of object i in a history, n objects having been declared before it *)
Fixpoint proj (n i : nat) (h : list top) : list oev :=
  match h with
  | [] => []
  | TDecl _ _ _ :: r => proj (S n) i r
  | TOp j a :: r => (if (j =? i)%nat && (i <? n)%nat then [EAct a] else []) ++ proj n i r
  | TPass :: r => (if (i <? n)%nat then [EPass] else []) ++ proj n i r
  end.

Lemma proj_app : forall a n i b, proj n i (a ++ b) = proj n i a ++ proj (n + length (decls a)) i b.
Proof.
  induction a as [|o a IH]; intros n i b; cbn [app proj decls length].
  - now rewrite Nat.add_0_r.
  - destruct o; cbn [proj decls length]; rewrite IH, ?app_assoc; try reflexivity.
    now replace (S n + length (decls a))%nat with (n + S (length (decls a)))%nat by lia.
Qed.

Lemma proj_undeclared : forall h n i, (n + length (decls h) <= i)%nat -> proj n i h = [].
Proof.
  induction h as [|o h IH]; intros n i L; cbn [proj decls length] in *; [reflexivity|].
  destruct o; cbn [decls length] in L.
  - apply IH. lia.
  - rewrite IH by lia. replace (i <? n)%nat with false by (symmetry; apply Nat.ltb_ge; lia).
    now rewrite andb_false_r.
  - rewrite IH by lia. now replace (i <? n)%nat with false by (symmetry; apply Nat.ltb_ge; lia).
Qed.

(* ---------------- which vector a use gets ---------------- *)
Definition uvec (c : cfg) (u : use) (name : str) (keys : list str) : vec :=
  match u with
  | UCounter => Vec name (name ++ sfx_counter) keys PCounter []
  | UGauge => Vec name (name ++ sfx_gauge) keys PGauge []
  | UTimer => if ttype c =? 1
              then Vec name (name ++ sfx_histogram) keys PHistogram (norm_bounds (dbounds c))
              else Vec name (name ++ sfx_summary) keys PSummary []
  | UHist bs => Vec name (name ++ sfx_histogram) keys PHistogram (norm_bounds bs)
  end.

Definition dvec_of (c : cfg) (d : decl) : vec := uvec c (use_of (duse d)) (dname d) (dkeys d).

Lemma uvec_name c u n ks : vname (uvec c u n ks) = n.
Proof. destruct u; cbn; try reflexivity. destruct (ttype c =? 1); reflexivity. Qed.

Definition opt_bind {A B} (o : option A) (f : A -> option B) : option B :=
  match o with Some x => f x | None => None end.

Definition cache_get (c : cfg) (s : state) (u : use) (id : mid) : option nat :=
  match u with
  | UCounter => afind mid_eqb id (counters s)
  | UGauge => afind mid_eqb id (gauges s)
  | UTimer => opt_bind (afind mid_eqb id (timers s)) (if ttype c =? 1 then thist else tsum)
  | UHist _ => opt_bind (afind mid_eqb id (timers s)) thist
  end.

Definition cache_ids (s : state) : list mid :=
  map fst (counters s) ++ map fst (gauges s) ++ map fst (timers s).

Definition ttype_ok (c : cfg) : Prop := ttype c = 0 \/ ttype c = 1.

Ltac zeq := change (1 =? 1) with true in *; change (0 =? 1) with false in *;
            change (0 =? 0) with true in *; cbv iota in *.

Lemma alloc_vec_hit c s u n ks v : ttype_ok c ->
  cache_get c s u (n, ks) = Some v -> alloc_vec c s u n ks = (s, VOk (Some v)).
Proof.
  intros T H. unfold alloc_vec, cache_get, opt_bind in *.
  destruct u; unfold counter_vec, gauge_vec, summary_vec, histogram_vec.
  - now rewrite H.
  - now rewrite H.
  - destruct T as [T|T]; rewrite T in *; zeq;
      destruct (afind mid_eqb (n, ks) (timers s)) as [t|]; try discriminate;
      destruct (fixed c); rewrite ?H; reflexivity.
  - destruct (afind mid_eqb (n, ks) (timers s)) as [t|]; try discriminate.
    destruct (fixed c); rewrite ?H; reflexivity.
Qed.

Lemma afind_none_ids {V} id (l : list (mid * V)) :
  ~ In id (map fst l) -> afind mid_eqb id l = None.
Proof.
  induction l as [|[k v] l IH]; cbn; [reflexivity|]. intro H.
  rewrite mid_eqb_neq by (intro; apply H; left; congruence). apply IH. tauto.
Qed.

Lemma find_name_fresh n vs : (forall w, In w vs -> vname w <> n) -> find_name n vs = None.
Proof.
  induction vs as [|v vs IH]; cbn; [reflexivity|]. intro H.
  destruct (zs_eqb (vname v) n) eqn:E.
  - apply zs_eqb_spec in E. exfalso. apply (H v); auto.
  - rewrite IH; auto.
Qed.

(* a use whose id is in no cache and whose name is not registered registers
   its vector; nothing else changes *)
Lemma alloc_vec_fresh c s u n ks : ttype_ok c ->
  ~ In (n, ks) (cache_ids s) -> find_name n (vecs s) = None ->
  exists s', alloc_vec c s u n ks = (s', VOk (Some (length (vecs s)))) /\
             vecs s' = vecs s ++ [uvec c u n ks] /\
             sers s' = sers s /\ handles s' = handles s /\ cblog s' = cblog s /\
             cache_get c s' u (n, ks) = Some (length (vecs s)) /\
             (forall u' id' v, cache_get c s u' id' = Some v -> cache_get c s' u' id' = Some v) /\
             (forall id', In id' (cache_ids s') -> In id' (cache_ids s) \/ id' = (n, ks)).
Proof.
  intros T NI FN. unfold cache_ids in NI. rewrite !in_app_iff in NI.
  assert (C1 : afind mid_eqb (n, ks) (counters s) = None) by (apply afind_none_ids; tauto).
  assert (C2 : afind mid_eqb (n, ks) (gauges s) = None) by (apply afind_none_ids; tauto).
  assert (C3 : afind mid_eqb (n, ks) (timers s) = None) by (apply afind_none_ids; tauto).
  assert (R : forall v, vname v = n -> register (vecs s) v = None).
  { intros v V. unfold register. now rewrite V, FN. }
  assert (Hids : forall (l : list mid) (x : mid) id', In id' (l ++ [x]) -> In id' l \/ id' = x).
  { intros l x id' H. apply in_app_iff in H as [H|[H|[]]]; auto. }
  unfold alloc_vec, uvec.
  destruct u as [| | |bs].
  - unfold counter_vec. rewrite C1, R by reflexivity. eexists. split; [reflexivity|]. cbn.
    repeat split; auto.
    + apply afind_snoc_new; auto using mid_eqb_spec.
    + intros u' id' v H. destruct u'; cbn in *; auto. apply afind_app_some; auto.
    + intros id'. unfold cache_ids; cbn. rewrite map_app, !in_app_iff. cbn. intuition.
  - unfold gauge_vec. rewrite C2, R by reflexivity. eexists. split; [reflexivity|]. cbn.
    repeat split; auto.
    + apply afind_snoc_new; auto using mid_eqb_spec.
    + intros u' id' v H. destruct u'; cbn in *; auto. apply afind_app_some; auto.
    + intros id'. unfold cache_ids; cbn. rewrite map_app, !in_app_iff. cbn. intuition.
  - destruct T as [T|T]; rewrite T; zeq.
    + unfold summary_vec. rewrite C3, R by reflexivity. eexists. split; [reflexivity|]. cbn.
      repeat split; auto.
      * unfold opt_bind. rewrite (afind_snoc_new mid_eqb mid_eqb_spec) by auto. now rewrite T.
      * intros u' id' v H. destruct u'; cbn in *; auto; unfold opt_bind in *;
          destruct (afind mid_eqb id' (timers s)) eqn:E; try discriminate;
          now rewrite (afind_app_some mid_eqb _ _ _ _ E).
      * intros id'. unfold cache_ids; cbn. rewrite map_app, !in_app_iff. cbn. intuition.
    + unfold histogram_vec. rewrite C3, R by reflexivity. eexists. split; [reflexivity|]. cbn.
      repeat split; auto.
      * unfold opt_bind. rewrite (afind_snoc_new mid_eqb mid_eqb_spec) by auto. now rewrite T.
      * intros u' id' v H. destruct u'; cbn in *; auto; unfold opt_bind in *;
          destruct (afind mid_eqb id' (timers s)) eqn:E; try discriminate;
          now rewrite (afind_app_some mid_eqb _ _ _ _ E).
      * intros id'. unfold cache_ids; cbn. rewrite map_app, !in_app_iff. cbn. intuition.
  - unfold histogram_vec. rewrite C3, R by reflexivity. eexists. split; [reflexivity|]. cbn.
    repeat split; auto.
    + unfold opt_bind. now rewrite (afind_snoc_new mid_eqb mid_eqb_spec) by auto.
    + intros u' id' v H. destruct u'; cbn in *; auto; unfold opt_bind in *;
        destruct (afind mid_eqb id' (timers s)) eqn:E; try discriminate;
        now rewrite (afind_app_some mid_eqb _ _ _ _ E).
    + intros id'. unfold cache_ids; cbn. rewrite map_app, !in_app_iff. cbn. intuition.
Qed.

(* ---------------- reports through a handle ---------------- *)
Lemma aset_keys {V} k (v : V) l : map fst (aset key_eqb k v l) = map fst l.
Proof.
  induction l as [|[k1 v1] l IH]; cbn; [reflexivity|].
  destruct (key_eqb k1 k); cbn; now rewrite ?IH.
Qed.

Lemma deliver_real s k d x : afind key_eqb k (sers s) = Some x ->
  let s' := deliver s k d in
  vecs s' = vecs s /\ counters s' = counters s /\ gauges s' = gauges s /\ timers s' = timers s /\
  handles s' = handles s /\ cblog s' = cblog s /\ map fst (sers s') = map fst (sers s) /\
  afind key_eqb k (sers s') = Some (apply (vbounds (nth (fst k) (vecs s) dvec)) x d) /\
  (forall k', k' <> k -> afind key_eqb k' (sers s') = afind key_eqb k' (sers s)).
Proof.
  intro Hx. unfold deliver. rewrite Hx. cbn. repeat split; auto.
  - apply aset_keys.
  - eapply (afind_aset_same key_eqb); eauto.
  - intros k' N. apply (afind_aset_other key_eqb key_eqb_spec). exact N.
Qed.

Lemma send_real s i k ds x :
  nth_error (handles s) i = Some (MReal k) -> afind key_eqb k (sers s) = Some x ->
  let s' := send s i ds in
  vecs s' = vecs s /\ counters s' = counters s /\ gauges s' = gauges s /\ timers s' = timers s /\
  handles s' = handles s /\ cblog s' = cblog s /\ map fst (sers s') = map fst (sers s) /\
  afind key_eqb k (sers s') = Some (feed (vbounds (nth (fst k) (vecs s) dvec)) ds x) /\
  (forall k', k' <> k -> afind key_eqb k' (sers s') = afind key_eqb k' (sers s)).
Proof.
  revert s x. induction ds as [|d ds IH]; intros s x Hh Hx; cbn [send fold_left].
  - cbn. repeat split; auto.
  - fold (send (deliver_h s i d) i ds).
    assert (E : deliver_h s i d = deliver s k d) by (unfold deliver_h; now rewrite Hh).
    rewrite E.
    destruct (deliver_real s k d x Hx) as (B1 & B2 & B3 & B4 & B5 & B6 & B7 & B8 & B9).
    assert (H1 : nth_error (handles (deliver s k d)) i = Some (MReal k)) by (rewrite B5; exact Hh).
    destruct (IH (deliver s k d) _ H1 B8) as (A1 & A2 & A3 & A4 & A5 & A6 & A7 & A8 & A9).
    cbv zeta. rewrite A1, A2, A3, A4, A5, A6, A7, A8, B1, B2, B3, B4, B5, B6, B7.
    repeat split; auto.
    intros k' N. now rewrite (A9 k' N), (B9 k' N).
Qed.

Lemma nth_error_upd_same {A} (l : list A) i x : (i < length l)%nat -> nth_error (upd i x l) i = Some x.
Proof. revert i; induction l as [|y l IH]; intros [|i] L; cbn in *; try lia; auto. apply IH; lia. Qed.
Lemma nth_error_upd_other {A} (l : list A) i j x : i <> j -> nth_error (upd i x l) j = nth_error l j.
Proof. revert i j; induction l as [|y l IH]; intros [|i] [|j] N; cbn; try congruence; auto. Qed.
Lemma upd_length {A} (l : list A) i x : length (upd i x l) = length l.
Proof. revert i; induction l as [|y l IH]; intros [|i]; cbn; auto. Qed.

(* ---------------- the invariant ---------------- *)
Definition consistent (ds : list decl) : Prop :=
  (forall a b, In a ds -> In b ds -> dname a = dname b -> duse a = duse b /\ dkeys a = dkeys b) /\
  NoDup (map (fun d => (dname d, dvals d)) ds).

Definition reg_ok (c : cfg) (ds : list decl) (s : state) : Prop :=
  (forall d, In d ds ->
     exists v, find_name (dname d) (vecs s) = Some v /\ nth v (vecs s) dvec = dvec_of c d /\
               cache_get c s (use_of (duse d)) (dname d, dkeys d) = Some v) /\
  (forall w, In w (vecs s) -> exists d, In d ds /\ vname w = dname d) /\
  (forall id, In id (cache_ids s) -> exists d, In d ds /\ dname d = fst id).

Definition keys_ok (ds : list decl) (s : state) : Prop :=
  forall k, In k (map fst (sers s)) ->
    exists d, In d ds /\ find_name (dname d) (vecs s) = Some (fst k) /\ snd k = dvals d.

Definition obj_ok (c : cfg) (t : tstate) (E : nat -> list oev) (i : nat) (d : decl) : Prop :=
  exists v, find_name (dname d) (vecs (rs t)) = Some v /\
            nth_error (handles (rs t)) i = Some (MReal (v, dvals d)) /\
            nth_error (objs t) i = Some (fst (orun (oinit (duse d)) (E i))) /\
            afind key_eqb (v, dvals d) (sers (rs t)) =
              Some (feed (vbounds (dvec_of c d)) (snd (orun (oinit (duse d)) (E i))) (sinit (dvec_of c d))).

Definition inv (c : cfg) (ds : list decl) (t : tstate) (E : nat -> list oev) : Prop :=
  length (objs t) = length ds /\ length (handles (rs t)) = length ds /\
  reg_ok c ds (rs t) /\ keys_ok ds (rs t) /\
  forall i d, nth_error ds i = Some d -> obj_ok c t E i d.

Lemma inv_ext c ds t E E' : (forall i, (i < length ds)%nat -> E i = E' i) -> inv c ds t E -> inv c ds t E'.
Proof.
  intros X (I1 & I2 & I3 & I4 & I5).
  split; [exact I1|]. split; [exact I2|]. split; [exact I3|]. split; [exact I4|].
  intros i d Hd. destruct (I5 i d Hd) as (v & A & B & C & D).
  assert (i < length ds)%nat by (apply nth_error_Some; congruence).
  exists v. rewrite <- (X i) by assumption. auto.
Qed.

Lemma NoDup_map_nth_error {A B} (f : A -> B) : forall l i j a b,
  NoDup (map f l) -> nth_error l i = Some a -> nth_error l j = Some b -> f a = f b -> i = j.
Proof.
  induction l as [|x l IH]; intros i j a b ND Hi Hj Q.
  - destruct i; discriminate.
  - cbn in ND. inversion ND as [|? ? NI ND']; subst.
    destruct i as [|i], j as [|j]; cbn in Hi, Hj.
    + reflexivity.
    + inversion Hi; subst. exfalso. apply NI. rewrite Q. apply in_map. eapply nth_error_In; eauto.
    + inversion Hj; subst. exfalso. apply NI. rewrite <- Q. apply in_map. eapply nth_error_In; eauto.
    + f_equal. eapply IH; eauto.
Qed.

(* two declared objects have different series *)
Lemma keys_distinct ds s i j di dj vi vj : consistent ds ->
  nth_error ds i = Some di -> nth_error ds j = Some dj -> i <> j ->
  find_name (dname di) (vecs s) = Some vi -> find_name (dname dj) (vecs s) = Some vj ->
  (vi, dvals di) <> (vj, dvals dj).
Proof.
  intros [_ ND] Hi Hj N Fi Fj Q. inversion Q; subst.
  destruct (find_name_lt _ _ _ Fi) as [_ Ni]. destruct (find_name_lt _ _ _ Fj) as [_ Nj].
  apply N. apply (NoDup_map_nth_error (fun d => (dname d, dvals d)) ds i j di dj ND Hi Hj).
  f_equal; congruence.
Qed.

(* one object takes one step (a user action or its part of a report pass) *)
Lemma obj_do_inv c ds t E i e : consistent ds -> inv c ds t E -> (i < length ds)%nat ->
  inv c ds (obj_do t i (fun o => oev_step o e)) (fun j => if (j =? i)%nat then E i ++ [e] else E j).
Proof.
  intros Cn (I1 & I2 & I3 & I4 & I5) L.
  destruct (nth_error ds i) as [d|] eqn:Hd; [|apply nth_error_None in Hd; lia].
  destruct (I5 i d Hd) as (v & Fv & Hh & Ho & Hs).
  unfold obj_do. rewrite Ho.
  set (o := fst (orun (oinit (duse d)) (E i))) in *.
  destruct (send_real (rs t) i (v, dvals d) (snd (oev_step o e)) _ Hh Hs)
    as (A1 & A2 & A3 & A4 & A5 & A6 & A7 & A8 & A9).
  set (s' := send (rs t) i (snd (oev_step o e))) in *.
  assert (CG : forall u id, cache_get c s' u id = cache_get c (rs t) u id).
  { intros u id. unfold cache_get. now rewrite A2, A3, A4. }
  split; [cbn; now rewrite upd_length|]. split; [cbn; now rewrite A5|].
  split; [|split].
  - destruct I3 as (R1 & R2 & R3). repeat split.
    + intros d0 H0. destruct (R1 d0 H0) as (v0 & B1 & B2 & B3). exists v0. cbn. rewrite A1, CG. auto.
    + cbn. rewrite A1. exact R2.
    + cbn. unfold cache_ids. rewrite A2, A3, A4. exact R3.
  - unfold keys_ok. cbn. rewrite A7, A1. exact I4.
  - intros j dj Hj. destruct (I5 j dj Hj) as (vj & Fj & Hhj & Hoj & Hsj).
    exists vj. cbn [rs objs]. rewrite A1, A5. split; [exact Fj|]. split; [exact Hhj|].
    destruct (Nat.eqb_spec j i) as [->|N].
    + assert (dj = d) by congruence. subst dj. assert (vj = v) by congruence. subst vj.
      rewrite orun_app. cbn [fst snd orun]. fold o. rewrite app_nil_r. split.
      * apply nth_error_upd_same. rewrite I1. exact L.
      * rewrite A8, feed_app. cbn [fst]. f_equal. f_equal.
        destruct I3 as (R1 & _). destruct (R1 d (nth_error_In _ _ Hd)) as (v0 & B1 & B2 & _).
        assert (v0 = v) by congruence. subst v0. now rewrite B2.
    + split.
      * rewrite nth_error_upd_other by congruence. exact Hoj.
      * rewrite A9; [exact Hsj|]. apply (keys_distinct ds (rs t) j i dj d vj v); auto.
Qed.

Lemma obj_do_out c ds t E i f : inv c ds t E -> (length ds <= i)%nat -> obj_do t i f = t.
Proof.
  intros (I1 & _) L. unfold obj_do.
  assert (nth_error (objs t) i = None) by (apply nth_error_None; lia). now rewrite H.
Qed.

(* a report pass = every object's pass, in order *)
Lemma pass_inv c ds : consistent ds -> forall n t E, inv c ds t E -> (n <= length ds)%nat ->
  inv c ds (fold_left (fun t i => obj_do t i opass) (seq 0 n) t)
      (fun j => if (j <? n)%nat then E j ++ [EPass] else E j).
Proof.
  intros Cn. induction n as [|n IH]; intros t E I L.
  - cbn. eapply inv_ext; [|exact I]. reflexivity.
  - rewrite seq_S, fold_left_app. cbn [fold_left Nat.add].
    specialize (IH t E I ltac:(lia)).
    pose proof (obj_do_inv c ds _ _ n EPass Cn IH ltac:(lia)) as H.
    eapply inv_ext; [|exact H]. intros j _. cbn beta.
    destruct (Nat.eqb_spec j n) as [->|N].
    + rewrite Nat.ltb_irrefl. replace (n <? S n)%nat with true by (symmetry; apply Nat.ltb_lt; lia). reflexivity.
    + destruct (Nat.ltb_spec j n), (Nat.ltb_spec j (S n)); try lia; reflexivity.
Qed.

(* ---------------- a first use ---------------- *)
Lemma in_snoc {A} (x y : A) l : In x (l ++ [y]) <-> In x l \/ x = y.
Proof. rewrite in_app_iff. cbn. intuition. Qed.

Lemma NoDup_app_l {A} (a b : list A) : NoDup (a ++ b) -> NoDup a.
Proof.
  induction a as [|x a IH]; cbn; intro H; [constructor|].
  inversion H; subst. constructor; [rewrite in_app_iff in *; tauto | auto].
Qed.

Lemma consistent_snoc ds d : consistent (ds ++ [d]) -> consistent ds.
Proof.
  intros [C1 C2]. split.
  - intros a b Ha Hb. apply C1; apply in_snoc; auto.
  - rewrite map_app in C2. now apply NoDup_app_l in C2.
Qed.

Lemma decl_inv c ds t E u n tags : ttype_ok c ->
  consistent (ds ++ [Decl u n tags]) -> inv c ds t E ->
  (forall i, (length ds <= i)%nat -> E i = []) ->
  inv c (ds ++ [Decl u n tags]) (tstep c t (TDecl u n tags)) E.
Proof.
  intros T Cn (I1 & I2 & (R1 & R2 & R3) & I4 & I5) EN.
  set (d := Decl u n tags) in *.
  pose proof (consistent_snoc _ _ Cn) as Cn0.
  cbn [tstep rstep]. unfold finish.
  (* the vector: cached for a known name, registered for a fresh one *)
  assert (AV : exists s1 v,
             alloc_vec c (rs t) (use_of u) n (map fst tags) = (s1, VOk (Some v)) /\
             sers s1 = sers (rs t) /\ handles s1 = handles (rs t) /\
             reg_ok c (ds ++ [d]) s1 /\
             (forall d0, In d0 ds -> forall v0, find_name (dname d0) (vecs (rs t)) = Some v0 ->
                                                find_name (dname d0) (vecs s1) = Some v0) /\
             find_name n (vecs s1) = Some v /\ nth v (vecs s1) dvec = dvec_of c d).
  { destruct (in_dec (list_eq_dec Z.eq_dec) n (map dname ds)) as [Known|Fresh].
    - apply in_map_iff in Known as (d0 & N0 & In0).
      destruct Cn as [C1 _].
      destruct (C1 d0 d) as [U K]; [apply in_snoc; auto | apply in_snoc; auto | exact N0 |].
      destruct (R1 d0 In0) as (v & B1 & B2 & B3).
      change (duse d) with u in *. change (dkeys d) with (map fst tags) in *.
      exists (rs t), v. rewrite U, N0, K in B3. rewrite (alloc_vec_hit c (rs t) _ n _ v T B3).
      assert (DV : dvec_of c d0 = dvec_of c d).
      { unfold dvec_of. change (duse d) with u. change (dname d) with n.
        change (dkeys d) with (map fst tags). now rewrite U, N0, K. }
      repeat split; auto.
      + intros d1 H1. apply in_snoc in H1 as [H1| ->]; [apply R1; exact H1|].
        exists v. change (duse d) with u. change (dname d) with n.
        change (dkeys d) with (map fst tags). rewrite <- N0 at 1.
        repeat split; auto. now rewrite B2.
      + intros w W. destruct (R2 w W) as (d1 & D1 & D2). exists d1. split; [apply in_snoc; auto | exact D2].
      + intros id W. destruct (R3 id W) as (d1 & D1 & D2). exists d1. split; [apply in_snoc; auto | exact D2].
      + now rewrite <- N0.
      + now rewrite B2.
    - assert (FN : find_name n (vecs (rs t)) = None).
      { apply find_name_fresh. intros w W Q. destruct (R2 w W) as (d1 & D1 & D2).
        apply Fresh. apply in_map_iff. exists d1. split; [congruence | exact D1]. }
      assert (NI : ~ In (n, map fst tags) (cache_ids (rs t))).
      { intro W. destruct (R3 _ W) as (d1 & D1 & D2). cbn in D2.
        apply Fresh. apply in_map_iff. exists d1. split; [exact D2 | exact D1]. }
      destruct (alloc_vec_fresh c (rs t) (use_of u) n (map fst tags) T NI FN)
        as (s1 & A0 & A1 & A2 & A3 & A4 & A5 & A6 & A7).
      exists s1, (length (vecs (rs t))). rewrite A0.
      assert (NV : vname (uvec c (use_of u) n (map fst tags)) = n) by apply uvec_name.
      repeat split; auto.
      + intros d1 H1. apply in_snoc in H1 as [H1| ->].
        * destruct (R1 d1 H1) as (v & B1 & B2 & B3). exists v. rewrite A1.
          destruct (find_name_lt _ _ _ B1) as [Lv _].
          repeat split; [now apply find_name_app_some | now rewrite app_nth1 | now apply A6].
        * exists (length (vecs (rs t))). unfold dvec_of. change (duse d) with u. change (dname d) with n.
          change (dkeys d) with (map fst tags).
          rewrite A1. repeat split.
          -- apply find_name_snoc_new; auto.
          -- rewrite app_nth2 by lia. now rewrite Nat.sub_diag.
          -- exact A5.
      + intros w W. rewrite A1 in W. apply in_snoc in W as [W| ->].
        * destruct (R2 w W) as (d1 & D1 & D2). exists d1. split; [apply in_snoc; auto | exact D2].
        * exists d. split; [apply in_snoc; auto | exact NV].
      + intros id W. destruct (A7 id W) as [W'| ->].
        * destruct (R3 id W') as (d1 & D1 & D2). exists d1. split; [apply in_snoc; auto | exact D2].
        * exists d. split; [apply in_snoc; auto | reflexivity].
      + intros d0 H0 v0 F0. rewrite A1. now apply find_name_app_some.
      + rewrite A1. apply find_name_snoc_new; auto.
      + rewrite A1, app_nth2 by lia. now rewrite Nat.sub_diag. }
  destruct AV as (s1 & v & AV & S1 & H1 & RO & FM & FNv & NVv).
  rewrite AV. cbn [fst snd].
  (* the series is new *)
  assert (New : afind key_eqb (v, map snd tags) (sers s1) = None).
  { destruct (afind key_eqb (v, map snd tags) (sers s1)) eqn:Q; [|reflexivity]. exfalso.
    apply (afind_in key_eqb key_eqb_spec) in Q. rewrite S1 in Q.
    assert (Kin : In (v, map snd tags) (map fst (sers (rs t)))) by (apply in_map_iff; eexists; split; [|exact Q]; reflexivity).
    destruct (I4 _ Kin) as (d1 & D1 & D2 & D3). cbn [fst snd] in *.
    pose proof (FM d1 D1 _ D2) as F1.
    destruct (find_name_lt _ _ _ F1) as [_ N1]. destruct (find_name_lt _ _ _ FNv) as [_ N2].
    destruct Cn as [_ ND]. rewrite map_app in ND. cbn [map] in ND.
    apply NoDup_remove_2 in ND. rewrite app_nil_r in ND. apply ND.
    apply in_map_iff. exists d1. split; [|exact D1].
    change (dname d) with n. change (dvals d) with (map snd tags). unfold dvals.
    f_equal; [rewrite <- N1; exact N2 | symmetry; exact D3]. }
  unfold with_series. rewrite New. unfold inv, push_handle.
  cbn [fst rs objs vecs sers handles counters gauges timers cblog].
  split; [rewrite app_length, I1, app_length; reflexivity|].
  split; [rewrite app_length, H1, I2, app_length; reflexivity|].
  split; [|split].
  - destruct RO as (Q1 & Q2 & Q3). repeat split; auto.
  - intros k Hk. cbn [sers vecs] in *. rewrite map_app in Hk. apply in_snoc in Hk as [Hk| ->].
    + rewrite S1 in Hk. destruct (I4 k Hk) as (d1 & D1 & D2 & D3).
      exists d1. split; [apply in_snoc; auto|]. split; [now apply FM | exact D3].
    + exists d. split; [apply in_snoc; auto|]. split; [exact FNv | reflexivity].
  - intros i di Hi.
    destruct (Nat.lt_ge_cases i (length ds)) as [Li|Li].
    + rewrite nth_error_app1 in Hi by exact Li.
      destruct (I5 i di Hi) as (vi & Fi & Hhi & Hoi & Hsi).
      exists vi. cbn [rs objs vecs sers handles].
      split; [apply FM; [now apply (nth_error_In _ _ Hi) | exact Fi]|].
      split; [rewrite H1, nth_error_app1 by (rewrite I2; exact Li); exact Hhi|].
      split; [rewrite nth_error_app1 by (rewrite I1; exact Li); exact Hoi|].
      rewrite S1. apply (afind_app_some key_eqb). exact Hsi.
    + assert (i = length ds).
      { assert (i < length (ds ++ [d]))%nat by (apply nth_error_Some; congruence).
        rewrite app_length in H; cbn in H. lia. }
      subst i. rewrite nth_error_app2, Nat.sub_diag in Hi by lia. cbn in Hi. inversion Hi; subst di.
      exists v. cbn [rs objs vecs sers handles dname duse dvals dtags d].
      split; [exact FNv|].
      split; [rewrite H1, nth_error_app2 by lia; rewrite I2, Nat.sub_diag; reflexivity|].
      rewrite (EN (length ds)) by lia. cbn [orun fst snd feed fold_left].
      split; [rewrite nth_error_app2 by lia; rewrite I1, Nat.sub_diag; reflexivity|].
      rewrite S1 in New |- *. rewrite (afind_snoc_new key_eqb key_eqb_spec) by exact New.
      now rewrite NVv.
Qed.

(* ---------------- all histories ---------------- *)
Theorem system_inv c : ttype_ok c -> forall h,
  consistent (decls h) ->
  inv c (decls h) (trun c h) (fun i => proj 0 i h).
Proof.
  intros T h. induction h as [|o h IH] using rev_ind; intro Cn.
  - cbn. unfold inv, reg_ok, keys_ok. cbn. repeat split; auto; try tauto.
    intros i d H. destruct i; discriminate.
  - unfold trun in *. rewrite fold_left_app. cbn [fold_left].
    rewrite decls_app in Cn |- *.
    set (t := fold_left (tstep c) h (TS (init []) [])) in *.
    destruct o as [u n tags|i a|]; cbn [decls] in *; rewrite ?app_nil_r in *.
    + specialize (IH (consistent_snoc _ _ Cn)).
      eapply inv_ext; [|apply decl_inv; [exact T | exact Cn | exact IH |]].
      * intros i _. cbn beta. rewrite proj_app. cbn [proj]. now rewrite app_nil_r.
      * intros i L. apply proj_undeclared. cbn. lia.
    + specialize (IH Cn). cbn [tstep].
      destruct (Nat.lt_ge_cases i (length (decls h))) as [L|L].
      * eapply inv_ext; [|apply (obj_do_inv c _ _ _ i (EAct a) Cn IH L)].
        intros j _. cbn beta. rewrite proj_app. cbn [proj Nat.add]. rewrite app_nil_r.
        destruct (Nat.eqb_spec j i) as [->|N].
        -- rewrite Nat.eqb_refl. replace (i <? length (decls h))%nat with true
             by (symmetry; apply Nat.ltb_lt; exact L). reflexivity.
        -- replace (i =? j)%nat with false by (symmetry; apply Nat.eqb_neq; congruence).
           cbn. now rewrite app_nil_r.
      * change (fun o => oact_step o a) with (fun o => oev_step o (EAct a)).
        rewrite (obj_do_out c _ _ _ i _ IH L).
        eapply inv_ext; [|exact IH]. intros j Lj. cbn beta. rewrite proj_app. cbn [proj Nat.add].
        replace ((i =? j)%nat && (j <? length (decls h))%nat) with false.
        -- now rewrite !app_nil_r.
        -- symmetry. apply andb_false_iff. left. apply Nat.eqb_neq. lia.
    + specialize (IH Cn). cbn [tstep].
      destruct IH as (I1 & IH'). pose proof (conj I1 IH') as IH. rewrite I1.
      eapply inv_ext; [|apply (pass_inv c _ Cn _ _ _ IH (le_n _))].
      intros j Lj. cbn beta. rewrite proj_app. cbn [proj Nat.add]. rewrite app_nil_r.
      replace (j <? length (decls h))%nat with true by (symmetry; apply Nat.ltb_lt; exact Lj).
      reflexivity.
Qed.

(* what Gather shows for a declared object *)
Theorem object_series c h i d : ttype_ok c -> consistent (decls h) ->
  nth_error (decls h) i = Some d ->
  gathered (rs (trun c h)) (dname d) (dvals d) =
    Some (dvec_of c d,
          feed (vbounds (dvec_of c d)) (snd (orun (oinit (duse d)) (proj 0 i h))) (sinit (dvec_of c d))).
Proof.
  intros T Cn Hd. destruct (system_inv c T h Cn) as (_ & _ & (R1 & _) & _ & I5).
  destruct (I5 i d Hd) as (v & Fv & _ & _ & Hs).
  destruct (R1 d (nth_error_In _ _ Hd)) as (v0 & B1 & B2 & _).
  assert (v0 = v) by congruence. subst v0.
  unfold gathered. now rewrite Fv, Hs, B2.
Qed.
