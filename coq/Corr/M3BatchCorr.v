(* Correspondence for C12.  The harness (harness/vh/c12.go) builds a real
   m3.NewReporter over a loopback UDP listener, allocates handles, reports
   through them from one goroutine with Flush() calls in between, closes the
   reporter, and reads and decodes every datagram.  The model is run on the
   same configuration and the same history.

   params   = [protocol (0 Compact, 1 Binary); MaxPacketSizeBytes]
   input    = events
       1  configuration: strings [bucket id tag name; bucket tag name; k1; v1; k2; v2; ...] (common tags)
       2  a handle:      ints [kind; own tags non-nil?; histogram bucket?],
                         strings name :: (bucket id :: bucket range ::)? k1 :: v1 :: ...
                         (the reporter's own tally.internal.* handles are in the table like any other)
       3  a report:      ints [handle index; value (double bits for a gauge); timestamp]
                         (value and timestamp as decoded from the datagram that carried it: the
                         timestamp is the reporter's clock, the values of the internal metrics its counters)
       4  a flush marker
   observed = events
       1  ints [freeBytes; overheadBytes]               (read from the reporter, read-only reflection)
       2  per handle, in table order: ints [size]       (read from the handle)
       3  per datagram, in order of arrival: ints [sequence id; length; number of metrics]
   check codes: 1 freeBytes / overheadBytes differ, 2 a charged size differs, 3 the partition into
   batches differs, 4 a datagram length differs from the length of the model's encoding,
   5 the model's datagram exceeds MaxPacketSizeBytes (cannot happen inside the theorem's hypotheses),
   6 malformed case, 7 a single metric's charge exceeds freeBytes (outside the hypotheses). *)
From Coq Require Import ZArith List Bool Uint63.
From Tally Require Import Base.Obs Gen.Params Model.Varint Model.Thrift Model.M3Batch Corr.ThriftCorr.
Import ListNotations.
Open Scope Z_scope.

Definition alloc_of_ev (e : ev) : option alloc :=
  match ei e, es e with
  | [k; ht; hb], name :: rest =>
      if hb =? 0 then Some (Alloc k name (opt_tags ht rest) None)
      else match rest with
           | bid :: bk :: tl => Some (Alloc k name (opt_tags ht tl) (Some (bid, bk)))
           | _ => None
           end
  | _, _ => None
  end.

Fixpoint allocs_of (l : list ev) : option (list alloc) :=
  match l with
  | [] => Some []
  | e :: r => match alloc_of_ev e, allocs_of r with
              | Some a, Some l' => Some (a :: l')
              | _, _ => None
              end
  end.

Fixpoint ops_of (tbl : list alloc) (l : list ev) : option (list rop) :=
  match l with
  | [] => Some []
  | e :: r =>
      match ops_of tbl r with
      | None => None
      | Some r' =>
          if ek e =? 4 then Some (Flush :: r')
          else match ei e with
               | [i; v; ts] => match nth_error tbl (Z.to_nat i) with
                               | Some a => if i <? 0 then None else Some (Report a v ts :: r')
                               | None => None
                               end
               | _ => None
               end
      end
  end.

Definition is_k (k : Z) (e : ev) : bool := ek e =? k.

Section Run.
Variable P : proto.
Variable p0 : PS P.

Fixpoint cmp_sizes (idn bn : bytes) (tbl : list alloc) (obs : list ev) : bool :=
  match tbl, obs with
  | [], [] => true
  | a :: tbl', o :: obs' =>
      match ei o with
      | [sz] => (charge P idn bn p0 a =? sz) && cmp_sizes idn bn tbl' obs'
      | _ => false
      end
  | _, _ => false
  end.

Fixpoint cmp_counts (bs : list (list metric)) (obs : list ev) : bool :=
  match bs, obs with
  | [], [] => true
  | b :: bs', o :: obs' =>
      match ei o with
      | [_; _; n] => (Z.of_nat (length b) =? n) && cmp_counts bs' obs'
      | _ => false
      end
  | _, _ => false
  end.

(* 0 ok, 4 length differs, 5 over the limit *)
Fixpoint cmp_lens (maxpkt : Z) (common : list tag) (bs : list (list metric)) (obs : list ev) : Z :=
  match bs, obs with
  | b :: bs', o :: obs' =>
      match ei o with
      | [seq; len; _] =>
          let l := Z.of_nat (length (datagram P p0 seq common b)) in
          if negb (l =? len) then 4 else if maxpkt <? l then 5 else cmp_lens maxpkt common bs' obs'
      | _ => 6
      end
  | _, _ => 0
  end.

Definition fits (idn bn : bytes) (free : Z) (o : rop) : bool :=
  match o with Flush => true | Report a _ _ => charge P idn bn p0 a <=? free end.

Definition run (maxpkt : Z) (ins obs : list ev) : Z :=
  match filter (is_k 1) ins, filter (is_k 1) obs with
  | [cfg], [o1] =>
      match es cfg, ei o1 with
      | idn :: bn :: ctags, [ofree; oovh] =>
          let common := pair_tags ctags in
          match allocs_of (filter (is_k 2) ins) with
          | None => 6
          | Some tbl =>
              match ops_of tbl (filter (fun e => is_k 3 e || is_k 4 e) ins) with
              | None => 6
              | Some ops =>
                  let free := free_bytes P p0 m3_emit_overhead maxpkt common in
                  if negb ((free =? ofree) && (num_overhead P p0 m3_emit_overhead common =? oovh)) then 1
                  else if negb (cmp_sizes idn bn tbl (filter (is_k 2) obs)) then 2
                  else if negb (forallb (fits idn bn free) ops) then 7
                  else
                    let bs := emitted P idn bn p0 m3_emit_overhead maxpkt common ops in
                    let od := filter (is_k 3) obs in
                    if negb (cmp_counts bs od) then 3 else cmp_lens maxpkt common bs od
              end
          end
      | _, _ => 6
      end
  | _, _ => 6
  end.
End Run.

Definition check (c : gcase) : Z :=
  match gparams c with
  | [pr; maxpkt] =>
      let ins := map fdev (gin c) in
      let obs := map fdev (gobs c) in
      if pr =? 0 then run compact cps0 maxpkt ins obs else run binary tt maxpkt ins obs
  | _ => 6
  end.

Definition mismatches := gcollect check.
