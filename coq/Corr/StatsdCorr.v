(* Correspondence for C18: the harness drives statsd.NewReporter over a
   recording statsd.Statter and reports every client call; the model is run on
   the same calls.
   params   = [Options.SampleRate as float32 bits; Options.HistogramBucketNamePrecision;
               error mode of the recording client (what it returns after recording a call:
               not an input of the model - the calls made do not depend on it)]
   input    = oracle entries, then the calls on the reporter:
                50 [p; bits] [r]   fmt.Sprintf("%.<p>f", x) = r     (observed from the Go runtime)
                51 [d] [r]         time.Duration(d).String() = r
                40 (kd :: spec)    the next |spec|+1 calls are the buckets of one histogram
                                   of kind kd (0 value, 1 duration) with this specification
                1 [v] (name :: tags)             ReportCounter
                2 [bits] (name :: tags)          ReportGauge
                3 [d] (name :: tags)             ReportTimer
                4 [lo; hi; n] (name :: tags)     ReportHistogramValueSamples
                5 [lo; hi; n] (name :: tags)     ReportHistogramDurationSamples
                6                                Flush
                7                                Capabilities
   observed = every call on the client as  m [value; rate bits; number of tags] [stat]
              (m = 1 Inc, 2 Gauge, 3 TimingDuration, other numbers for other methods)
              and 99 [reporting; tagging] for each Capabilities().
   result codes: 0 agree, 1 the calls differ, 2 a gauge outside the region where
   int64(value) is defined (generator error), 3 a rendering without the assumed
   shape, 4 the bucket pairs of a histogram are not Buckets.pairs of its
   specification, 5 a rendering of time.Duration.String() observed from the Go runtime differs
   from Model/DurString.v (the model of it that the theorems about duration buckets use: the
   stat names are computed with the model, the observed renderings only checked against it),
   9 malformed case. *)
From Coq Require Import ZArith List Bool.
From Tally Require Import Base.Obs Model.Buckets Model.Statsd Model.DurString.
Import ListNotations.
Open Scope Z_scope.

Definition is_oracle (e : ev) : bool := (ek e =? 50) || (ek e =? 51).
Definition is_meta (e : ev) : bool := is_oracle e || (ek e =? 40).

Definition lookf (t : list ev) (p b : Z) : bytes :=
  match find (fun e => (ek e =? 50) && zs_eqb (ei e) [p; b]) t with
  | Some e => hd [] (es e)
  | None => []
  end.
Definition lookd (t : list ev) (d : Z) : bytes :=
  match find (fun e => (ek e =? 51) && zs_eqb (ei e) [d]) t with
  | Some e => hd [] (es e)
  | None => []
  end.

Fixpoint tags_of (l : list bytes) : tags :=
  match l with
  | k :: v :: r => (k, v) :: tags_of r
  | _ => []
  end.

Definition op_of_ev (e : ev) : op :=
  let n := hd [] (es e) in
  let t := tags_of (tl (es e)) in
  match ek e, ei e with
  | 1, [v] => OCounter n t v
  | 2, [b] => OGauge n t b
  | 3, [d] => OTimer n t d
  | 4, [lo; hi; s] => OHistV n t lo hi s
  | 5, [lo; hi; s] => OHistD n t lo hi s
  | 7, _ => OCaps
  | _, _ => OFlush
  end.

Definition b2z (b : bool) : Z := if b then 1 else 0.
Definition ev_of_out (o : out) : ev :=
  match o with
  | Sent c => Ev (match ckd c with CInc => 1 | CGauge => 2 | CTiming => 3 end)
                 [cval c; crate c; ctagn c] [cname c]
  | CapsAre r t => Ev 99 [b2z r; b2z t] []
  end.

Definition op_ok (o : op) : bool :=
  match o with OGauge _ _ b => gauge_ok b | _ => true end.

(* the calls that follow a histogram marker are the bucket pairs of its specification *)
Fixpoint groups_ok (pending : list (Z * Z)) (want : Z) (l : list ev) : bool :=
  match l with
  | [] => match pending with [] => true | _ => false end
  | e :: r =>
      if ek e =? 40 then
        match pending, ei e with
        | [], kd :: spec =>
            groups_ok (pairs (if kd =? 0 then KValue else KDuration) spec) (if kd =? 0 then 4 else 5) r
        | _, _ => false
        end
      else if is_oracle e then groups_ok pending want r
      else match pending with
           | [] => groups_ok [] want r
           | (lo, hi) :: ps =>
               match ei e with
               | lo' :: hi' :: _ => (ek e =? want) && (lo =? lo') && (hi =? hi') && groups_ok ps want r
               | _ => false
               end
           end
  end.

Definition check (c : gcase) : Z :=
  match gparams c with
  | rate :: prec :: _ =>
      let inp := ginput c in
      let t := filter is_oracle inp in
      let ops := map op_of_ev (filter (fun e => negb (is_meta e)) inp) in
      if negb (forallb op_ok ops) then 2
      else if negb (forallb (fun e => shapeb (hd [] (es e))) t) then 3
      else if negb (groups_ok [] 0 inp) then 4
      else if negb (forallb (fun e => negb (ek e =? 51) || zs_eqb (dur_string (hd 0 (ei e))) (hd [] (es e))) t) then 5
      else if evs_eqb (map ev_of_out (run (lookf t) dur_string (Cfg rate prec) ops)) (gobserved c)
      then 0 else 1
  | _ => 9
  end.

Definition mismatches := gcollect check.
