(* Correspondence for C04 and C05: the harness drives the real scope API
   (SubScope / Tagged / Counter / Gauge / Timer / Histogram on a root built by
   tally.VerifNewRootScope or VerifNewTestScope) and the public key functions;
   the model of Model/KeyGen.v + Model/Deriv.v is run on the same inputs.

   params = [0]                       key case
     input    Ev 70 [] [prefix]; Ev 71 [] [k;v;k;v;...] (one per map, in the
              enumeration order the harness chose)
     observed Ev 72 [] [KeyForPrefixedStringMap(prefix, m)]
              (+ Ev 73 [] [KeyForStringMap(m)] when the prefix is empty)
   params = [1; shards; cmp_ids; cmp_reg]   derivation case
     input    Ev 60/61/62 [] [raw;san;raw;san;...]  what the real sanitizer
              returned for every name / key / value of the case (identity
              where a string is not listed);
              Ev 50 [] [prefix; separator]; Ev 51 [] root tags;
              Ev 1 [h] [name]      scopes[h].SubScope(name)
              Ev 2 [h] [k;v;...]   scopes[h].Tagged(map)
              Ev 3 [h;kind] [name] scopes[h].Counter|Gauge|Timer|Histogram(name)
              (handle 0 is the root, handle i the result of the i-th scope call)
     observed per call, in order: Ev 1 [class] [] for a scope call (class =
              pointer-identity class of the returned Scope, numbered by first
              appearance, root = 0) and Ev 3 [class] (name :: sorted tags) for
              a metric call (class of the returned handle; name and tags as
              delivered to the reporter / shown by the snapshot); then
              Ev 5 [] (the registry's distinct keys, sorted) when cmp_reg = 1.
              With cmp_ids = 0 (the sanitizer rewrites an input of the case and
              there is more than one shard, see Model/Deriv.v) the classes are
              not compared. *)
From Coq Require Import ZArith List Bool.
From Tally Require Import Base.Obs Gen.Params Model.KeyGen Model.Deriv.
Import ListNotations.
Open Scope Z_scope.

Fixpoint pairs_of (l : list bytes) : smap :=
  match l with
  | k :: v :: r => (k, v) :: pairs_of r
  | _ => []
  end.

Definition tab (t : smap) (x : bytes) : bytes :=
  match lookup x t with Some y => y | None => x end.

Definition find_es (k : Z) (l : list ev) : list bytes :=
  match find (fun e => ek e =? k) l with Some e => es e | None => [] end.

(* bindings sorted by key, flattened *)
Definition sorted_pairs (m : smap) : list bytes :=
  flat_map (fun k => [k; opt_bytes (lookup k m)]) (dedup None (isort (map fst m))).

Definition check_key (inp obs : list ev) : Z :=
  let p := nth 0 (find_es 70 inp) [] in
  let maps := map (fun e => pairs_of (es e)) (filter (fun e => ek e =? 71) inp) in
  let k := key p maps in
  let expect :=
    Ev 72 [] [k] ::
    match p, maps with
    | [], [m] => [Ev 73 [] [key_for_string_map m]]
    | _, _ => []
    end in
  if evs_eqb expect obs then 0 else 1.

Definition run_calls (c : cfg) (s0 : state) (inp : list ev) : state * list nat * list ev :=
  fold_left
    (fun (acc : state * list nat * list ev) (e : ev) =>
       let '(s, hs, out) := acc in
       let h := Z.to_nat (nth 0 (ei e) 0) in
       let sc := nth h hs 0%nat in
       if ek e =? 1 then
         let '(s', id) := step c s (CSub sc (nth 0 (es e) [])) in
         (s', hs ++ [id], Ev 1 [Z.of_nat id] [] :: out)
       else if ek e =? 2 then
         let '(s', id) := step c s (CTag sc (pairs_of (es e))) in
         (s', hs ++ [id], Ev 1 [Z.of_nat id] [] :: out)
       else if ek e =? 3 then
         let '(s', mid) := step c s (CMet sc (nth 1 (ei e) 0) (nth 0 (es e) [])) in
         let d := match delivered c s' mid with
                  | Some (n, t) => n :: sorted_pairs t
                  | None => []
                  end in
         (s', hs, Ev 3 [Z.of_nat mid] d :: out)
       else acc)
    inp (s0, [0%nat], []).

Definition strip (e : ev) : ev := Ev (ek e) [] (es e).

Definition check_deriv (par : list Z) (inp obs : list ev) : Z :=
  let z := San (tab (pairs_of (find_es 60 inp))) (tab (pairs_of (find_es 61 inp)))
               (tab (pairs_of (find_es 62 inp))) in
  let rootev := find_es 50 inp in
  let c := mk_cfg z (nth 1 rootev []) in
  let s0 := init c (nth 0 rootev []) (pairs_of (find_es 51 inp)) in
  let '(s, _, out) := run_calls c s0 inp in
  let calls := List.rev out in
  let cmp_ids := negb (nth 2 par 0 =? 0) in
  let cmp_reg := negb (nth 3 par 0 =? 0) in
  let obs_calls := filter (fun e => negb (ek e =? 5)) obs in
  let obs_reg := filter (fun e => ek e =? 5) obs in
  let ok_calls :=
    if cmp_ids then evs_eqb calls obs_calls
    else evs_eqb (map strip calls) (map strip obs_calls) in
  if negb ok_calls then 2
  else if cmp_reg && negb (evs_eqb [Ev 5 [] (isort (map fst (reg s)))] obs_reg) then 3
  else 0.

Definition check (c : gcase) : Z :=
  let par := gparams c in
  if nth 0 par 0 =? 0 then check_key (ginput c) (gobserved c)
  else check_deriv par (ginput c) (gobserved c).

Definition mismatches := gcollect check.
