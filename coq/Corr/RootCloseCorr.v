(* Correspondence for C08: controlled schedules on the real root scope.
   params   = [cached; reporter has Close; number of registered scopes]
   input    = 40 [1] loop thread | 40 [2] Close caller | 40 [3; o; n] recording thread,
              42 [thread; tick; len; order...]* the executed schedule
   observed = 43 [label after each step], 47 [kind; o; amt]* reporter events
              (1 deliver, 2 flush, 3 reporter closed), 46 [applied; delivered]* per scope *)
From Coq Require Import ZArith List Bool Arith.
From Tally Require Import Base.Obs Model.RootClose.
Import ListNotations.
Open Scope Z_scope.

Fixpoint threads_of (es : list ObsCore.ev) : list thread :=
  match es with
  | [] => []
  | e :: r =>
      if ek e =? 40 then
        match ei e with
        | [1] => TT TWait :: threads_of r
        | [2] => TK KIdle :: threads_of r
        | [3; o; n] => TA (AInc (Z.to_nat o) (Z.to_nat n)) :: threads_of r
        | _ => threads_of r
        end
      else threads_of r
  end.

Fixpoint picks_of (fuel : nat) (l : list Z) : list pick :=
  match fuel with
  | O => []
  | S f =>
      match l with
      | i :: t :: n :: r =>
          (Z.to_nat i, negb (t =? 0), map Z.to_nat (firstn (Z.to_nat n) r)) :: picks_of f (skipn (Z.to_nat n) r)
      | _ => []
      end
  end.
Definition sched_of (es : list ObsCore.ev) : list pick :=
  flat_map (fun e => if ek e =? 42 then picks_of (length (ei e)) (ei e) else []) es.

Fixpoint run_labels (s : sys) (sched : list pick) : sys * list Z :=
  match sched with
  | [] => (s, [])
  | pk :: r =>
      let s' := step s pk in
      let i := fst (fst pk) in
      let l := match nth_error (thr s') i with Some t => label t | None => -2 end in
      let '(sf, ls) := run_labels s' r in (sf, l :: ls)
  end.

(* reporter events: zero deliveries are not reported; a reporter without Close sees no close *)
Definition events (has_closer : bool) (l : list RootClose.ev) : list Z :=
  flat_map (fun e => match e with
                     | EDeliver o amt => if Nat.eqb amt 0 then [] else [1; Z.of_nat o; Z.of_nat amt]
                     | EFlush => [2; 0; 0]
                     | ECloser => if has_closer then [3; 0; 0] else []
                     end) (List.rev l).

Definition check (c : gcase) : Z :=
  match gparams c with
  | [_; hc; n] =>
      let es := ginput c in
      let '(sf, ls) := run_labels (init (repeat 0%nat (Z.to_nat n)) (threads_of es)) (sched_of es) in
      match gobserved c with
      | [o1; o2; o3] =>
          if negb (ev_eqb (Ev 43 ls []) o1) then 1
          else if negb (ev_eqb (Ev 47 (events (negb (hc =? 0)) (log sf)) []) o2) then 2
          else if negb (ev_eqb (Ev 46 (flat_map (fun x => [Z.of_nat (applied x); Z.of_nat (delivered x)]) (ctrs sf)) []) o3) then 3
          else 0
      | _ => 4
      end
  | _ => 5
  end.

Definition mismatches := gcollect check.
