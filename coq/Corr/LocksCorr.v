(* Correspondence for the lock layer (used by C07 / C09): the harness runs scripted goroutines on real
   sync.RWMutex locks and a sync.WaitGroup under the schedule controller and reports, for every pick
   of the schedule, whether the picked goroutine completed an operation, is blocked, or had nothing
   to do; the model of Model/Locks.v must give the same answers.
   params   = 777 :: [number of locks]
   input    = 50 [worker; op; arg; op; arg; ...] per goroutine (op 1 RLock, 2 Lock, 3 RUnlock,
              4 Unlock on lock arg; 5 = wg.Wait() for all goroutines with worker = 1),
              51 [schedule]
   observed = 52 [0 completed | 1 blocked | 2 nothing to do, per pick]; 53 [finished? per goroutine]

   A goroutine that was blocked goes on by itself as soon as the lock is granted, and part of what
   happens then is decided by the runtime, not by the schedule: whether a woken reader has consumed
   its wake-up before a reader arriving later takes it, and which of the writers waiting for the
   writers' mutex gets it.  The check therefore tracks the SET of model states that explain the
   observations so far (every way of letting blocked goroutines go on by themselves) and fails when
   no model execution explains what was observed. *)
From Coq Require Import ZArith List Bool Arith.
From Tally Require Import Base.Obs Model.Locks.
Import ListNotations.
Open Scope Z_scope.

Fixpoint ops_of (workers : list nat) (l : list Z) : list gop :=
  match l with
  | 1 :: a :: r => GAcq R (Z.to_nat a) :: ops_of workers r
  | 2 :: a :: r => GAcq W (Z.to_nat a) :: ops_of workers r
  | 3 :: a :: r => GRel R (Z.to_nat a) :: ops_of workers r
  | 4 :: a :: r => GRel W (Z.to_nat a) :: ops_of workers r
  | 5 :: _ :: r => GWait workers :: ops_of workers r
  | _ => []
  end.

Definition scripts (es : list ev) : list (list Z) :=
  flat_map (fun e => if ek e =? 50 then [ei e] else []) es.
Fixpoint workers_from (i : nat) (ss : list (list Z)) : list nat :=
  match ss with
  | [] => []
  | (w :: _) :: r => if w =? 0 then workers_from (S i) r else i :: workers_from (S i) r
  | [] :: r => workers_from (S i) r
  end.
Definition sched_of (es : list ev) : list nat :=
  flat_map (fun e => if ek e =? 51 then map Z.to_nat (ei e) else []) es.

(* ---- equality of model states (for the de-duplication of candidates) ---- *)
Definition gop_eqb (a b : gop) : bool :=
  match a, b with
  | GAcq m l, GAcq m' l' | GRel m l, GRel m' l' => mode_eqb m m' && Nat.eqb l l'
  | GWait _, GWait _ => true
  | _, _ => false
  end.
Definition th_eqb (a b : th) : bool :=
  Nat.eqb (length (todo a)) (length (todo b)) &&
  list_eqb (fun x y => mode_eqb (fst x) (fst y) && Nat.eqb (snd x) (snd y)) (held a) (held b) &&
  Bool.eqb (ann a) (ann b).
Definition cand := (sys * list bool * list bool)%type.
Definition cand_eqb (nl : nat) (a b : cand) : bool :=
  let '(sa, pa, ca) := a in let '(sb, pb, cb) := b in
  list_eqb th_eqb (ths sa) (ths sb) && list_eqb Bool.eqb pa pb && list_eqb Bool.eqb ca cb &&
  forallb (fun l => Nat.eqb (gr sa l) (gr sb l)) (seq 0 nl).
Fixpoint dedupc (nl : nat) (l : list cand) : list cand :=
  match l with
  | [] => []
  | x :: r => if existsb (cand_eqb nl x) r then dedupc nl r else x :: dedupc nl r
  end.

Definition is_fin (s : sys) (k : nat) : bool :=
  match nth_error (ths s) k with Some t => match todo t with [] => true | _ => false end | None => true end.
Definition todo_len (s : sys) (k : nat) : nat :=
  match nth_error (ths s) k with Some t => length (todo t) | None => 0%nat end.

(* goroutine k performs (or tries to perform) its next operation: an arriving reader gets in or
   queues, a writer takes the writers' mutex if it is free and then the lock if the readers are
   gone; true = the operation completed *)
Definition attempt (s : sys) (k : nat) : sys * bool :=
  let n := todo_len s k in
  let s1 := step s k in
  if Nat.ltb (todo_len s1 k) n then (s1, true)
  else let s2 := step s1 k in (s2, Nat.ltb (todo_len s2 k) n).

(* kinds of blocked goroutines: 0 a queued reader, 1 an announced writer, 2 a waiter, 3 a writer
   waiting for the writers' mutex *)
Definition kind_of (s : sys) (k : nat) : nat :=
  match nth_error (ths s) k with
  | Some t => match todo t with
              | GAcq R _ :: _ => 0%nat
              | GAcq W _ :: _ => if ann t then 1%nat else 3%nat
              | _ => 2%nat
              end
  | None => 4%nat
  end.

(* blocked goroutines go on by themselves.  What is determined: the announced writer gets the lock
   with the last RUnlock, a waiter returns with the last Done.  What is not: whether a woken reader
   has consumed its wake-up yet (a reader arriving meanwhile may take it), and which of the writers
   waiting for the writers' mutex gets it (sync.Mutex does not hand over in arrival order, a woken
   waiter competes with later arrivals).  [forced]: everything determined; [options]: every way of
   letting a subset of the others go on. *)
Fixpoint forced (fuel : nat) (ks : list nat) (c : cand) : cand :=
  match fuel with
  | O => c
  | S f =>
      let go := fix go (ks : list nat) (c : cand) : cand * bool :=
        match ks with
        | [] => (c, false)
        | k :: r =>
            let '(s, pend, coll) := c in
            if nth k pend false && (Nat.eqb (kind_of s k) 1 || Nat.eqb (kind_of s k) 2) then
              let '(s', okk) := attempt s k in
              if okk then (fst (go r (s', upd pend k false, upd coll k true)), true)
              else go r (s', pend, coll)
            else go r c
        end in
      let '(c', ch) := go ks c in if ch then forced f ks c' else c'
  end.

Fixpoint options (ks : list nat) (c : cand) : list cand :=
  match ks with
  | [] => [c]
  | k :: r =>
      let '(s, pend, coll) := c in
      if nth k pend false && (Nat.eqb (kind_of s k) 0 || Nat.eqb (kind_of s k) 3) then
        let '(s', okk) := attempt s k in
        if okk then options r c ++ options r (s', upd pend k false, upd coll k true)
        else
          (* a writer that did not get the lock may still have taken the writers' mutex *)
          if Nat.eqb (kind_of s' k) (kind_of s k) then options r c
          else options r c ++ options r (s', pend, coll)
      else options r c
  end.

Definition settled (nl : nat) (c : cand) : list cand :=
  let '(s, _, _) := c in
  let ks := seq 0 (length (ths s)) in
  let f := forced (2 * length (ths s) + 2) ks in
  dedupc nl (map f (flat_map (options ks) (map f (options ks (f c))))).

(* the candidates after pick k was observed with result r *)
Definition pick (nl : nat) (k : nat) (r : Z) (c : cand) : list cand :=
  let '(s, pend, coll) := c in
  if nth k pend false then
    (* blocked in an operation started earlier: still blocked, or it completes just now *)
    (if r =? 1 then [c] else []) ++
    (if r =? 0 then
       let '(s1, okk) := attempt s k in
       if okk then settled nl (s1, upd pend k false, coll) else []
     else [])
  else if nth k coll false then
    if r =? 0 then [(s, pend, upd coll k false)] else []
  else if is_fin s k then
    if r =? 2 then [c] else []
  else
    let '(s1, okk) := attempt s k in
    if Z.eqb r (if okk then 0 else 1)
    then settled nl (s1, if okk then pend else upd pend k true, coll)
    else [].

Fixpoint run_cands (nl : nat) (cs : list cand) (sched : list nat) (res : list Z) : list cand :=
  match sched, res with
  | k :: sr, r :: rr => run_cands nl (firstn 512 (dedupc nl (flat_map (pick nl k r) cs))) sr rr
  | _, _ => cs
  end.

Definition fin_of (n : nat) (c : cand) : list Z :=
  let '(s, _, coll) := c in
  (* finished as the controller sees it: nothing left to do and the last completion collected *)
  map (fun k => if is_fin s k && negb (nth k coll false) then 1 else 0) (seq 0 n).

Definition check (c : gcase) : Z :=
  let ss := scripts (ginput c) in
  let ws := workers_from 0 ss in
  let s0 := init (map (fun l => ops_of ws (tl l)) ss) in
  let n := length (ths s0) in
  let nl := match gparams c with _ :: x :: _ => Z.to_nat x | _ => 1%nat end in
  match gobserved c with
  | [o1; o2] =>
      if negb (ek o1 =? 52) || negb (ek o2 =? 53) then 13
      else if negb (Nat.eqb (length (ei o1)) (length (sched_of (ginput c)))) then 14
      else
        let cs := run_cands nl [(s0, repeat false n, repeat false n)] (sched_of (ginput c)) (ei o1) in
        match cs with
        | [] => 11   (* no execution of the model explains the observed results *)
        | _ => if existsb (fun cd => list_eqb Z.eqb (fin_of n cd) (ei o2)) cs then 0 else 12
        end
  | _ => 13
  end.
