(* Correspondence for C03.
   params   = [kind (0 value, 1 duration); nil-spec flag; configured default buckets of the root
              (0 none, 1 value, 2 duration)]
   input    = 30 [bounds...] the specification; 39 [bounds...] the configured default buckets (if
              any); then 31 [bits] RecordValue,
              32 [ns] RecordDuration, 33 [] one report pass
   observed = 34 [lo; hi] per pair of tally.BucketPairs(spec);
              38 [lo; hi] per bucket handle allocated from a cached reporter (may be absent);
              35 [lo; hi; samples] per delivery, 36 [] at the end of each pass;
              98 [] if the implementation panicked (never expected). *)
From Coq Require Import ZArith List Bool.
From Tally Require Import Base.Obs Model.Buckets Gen.Params.
Import ListNotations.
Open Scope Z_scope.

Definition kind_of (z : Z) : kind := if z =? 0 then KValue else KDuration.

Definition op_of_ev (e : ev) : list hop :=
  match ek e, ei e with
  | 31, [v] => [HRec KValue v]
  | 32, [v] => [HRec KDuration v]
  | 33, _ => [HPass]
  | _, _ => []
  end.

Definition pair_ev (tag : Z) (p : Z * Z) : ev := Ev tag [fst p; snd p] [].
Definition deliv_ev (t : Z * Z * Z) : ev := Ev 35 [fst (fst t); snd (fst t); snd t] [].

Definition expected (c : gcase) : list ev * list ev * list ev :=
  match gparams c, ginput c with
  | kz :: nilz :: dzs, spec_ev :: ops =>
      let k := kind_of kz in
      let spec := ei spec_ev in
      let dz := match dzs with d :: _ => d | [] => 0 end in
      let defs := flat_map (fun e => if ek e =? 39 then ei e else []) ops in
      (* a nil specification: BucketPairs gives the single value bucket, the scope falls back to the
         root's configured default buckets (of their own kind), else to the built-in duration buckets *)
      let pk := if nilz =? 0 then k else KValue in
      let hk := if nilz =? 0 then k else if dz =? 1 then KValue else KDuration in
      let hspec := if nilz =? 0 then spec else if dz =? 0 then default_scope_buckets_ns else defs in
      let ps := map (pair_ev 34) (pairs pk (if nilz =? 0 then spec else [])) in
      let al := map (pair_ev 38) (pairs hk hspec) in
      let '(_, ds) := hrun (hnew hk hspec) (flat_map op_of_ev ops) in
      (ps, al, flat_map (fun d => map deliv_ev d ++ [Ev 36 [] []]) ds)
  | _, _ => ([], [], [])
  end.

Definition is_k (k : Z) (e : ev) : bool := ek e =? k.

Definition check (c : gcase) : Z :=
  let '(ps, al, ds) := expected c in
  let obs := gobserved c in
  let ops := filter (is_k 34) obs in
  let oal := filter (is_k 38) obs in
  let ods := filter (fun e => negb (is_k 34 e) && negb (is_k 38 e)) obs in
  if negb (evs_eqb ps ops) then 1
  else if negb (match oal with [] => true | _ => evs_eqb al oal end) then 2
  else if negb (evs_eqb ds ods) then 3
  else 0.

Definition mismatches := gcollect check.
