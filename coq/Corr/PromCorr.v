(* Correspondence for C17: the harness drives the real prometheus reporter
   (fresh prometheus.NewRegistry() per case) either through a tally root scope
   (mode 0) or directly through the CachedStatsReporter / Register* API
   (mode 1), then gathers.  The model of the REPAIRED reporter is run on the
   same operations.

   params = [mode; DefaultTimerType; callback panic mask (bit n: n-th invocation panics; -1: always);
             callback observability (1: every invocation seen when it happens; 2: only the log, read at the
             end, so "returned after an error" and "returned" are not told apart; 0: nothing)]
   input  = 31: resolved Options.DefaultHistogramBuckets   I = bounds
            30: pre-registered family   I = kind :: bounds        S = name :: help :: keys
            mode 0:  1: first use       I = [u ...]               S = name :: k1 :: v1 :: ...
                       u = 1 counter, 2 gauge, 3 timer, 4 :: spec (value histogram),
                       5 :: n :: spec(n) ++ secs(n+1) (duration histogram)
                     2: Inc [i; v]   3: Update [i; bits]   4: Record [i; d; secbits]
                     5: RecordValue [i; bits]   6: RecordDuration [i; d]   7: report pass
            mode 1: 11: Allocate*       I = u :: bounds (u = 4: histogram, bounds = AsValues())
                    12: report through handle [h; kind; a; b] (1 count a, 2 gauge a, 3 observe a, b times)
                    13: Register*       I = u :: ty :: bounds     S = name :: help :: keys
                    14: [r] the following calls go to reporter r on the same registry
   observed = 10 [code] per Allocate*/Register* (mode 1), 11 classes given to the callback,
              20 one per gathered series, 29 [number of Gather errors]. *)
From Coq Require Import ZArith List Bool.
From Tally Require Import Base.Obs Model.Buckets Model.Prom Proof.PromObjP Proof.PromSysP Proof.PromDecP.
Import ListNotations.
Open Scope Z_scope.

Fixpoint pairs_of (l : list str) : list (str * str) :=
  match l with k :: v :: r => (k, v) :: pairs_of r | _ => [] end.

Definition kind_of_code (k : Z) : pkind :=
  if k =? 1 then PCounter else if k =? 2 then PGauge else if k =? 3 then PSummary else PHistogram.

Definition pre_of_ev (e : ev) : list vec :=
  if ek e =? 30 then
    match ei e, es e with
    | k :: bs, name :: help :: keys => [Vec name help keys (kind_of_code k) bs]
    | _, _ => []
    end
  else [].

Definition tuse_of (i : list Z) : tuse :=
  match i with
  | 1 :: _ => TUCounter
  | 2 :: _ => TUGauge
  | 3 :: _ => TUTimer
  | 4 :: spec => TUHist KValue spec (uppers KValue spec)
  | 5 :: n :: r => TUHist KDuration (firstn (Z.to_nat n) r) (skipn (Z.to_nat n) r)
  | _ => TUCounter
  end.

Definition top_of_ev (e : ev) : list top :=
  let k := ek e in
  if k =? 1 then
    match es e with name :: tg => [TDecl (tuse_of (ei e)) name (pairs_of tg)] | _ => [] end
  else if k =? 7 then [TPass]
  else match k, ei e with
       | 2, [i; v] => [TOp (Z.to_nat i) (AInc v)]
       | 3, [i; b] => [TOp (Z.to_nat i) (AUpd b)]
       | 4, [i; d; s] => [TOp (Z.to_nat i) (ARec d s)]
       | 5, [i; b] => [TOp (Z.to_nat i) (ARecV b)]
       | 6, [i; d] => [TOp (Z.to_nat i) (ARecD d)]
       | _, _ => []
       end.

Definition use_of_ints (i : list Z) : use :=
  match i with
  | 1 :: _ => UCounter
  | 2 :: _ => UGauge
  | 3 :: _ => UTimer
  | _ :: bs => UHist bs
  | [] => UCounter
  end.

Definition rop_of_ev (e : ev) : list rop :=
  match ek e, ei e, es e with
  | 11, i, name :: tg => [RAlloc (use_of_ints i) name (pairs_of tg)]
  | 12, [h; 1; a; _], _ => [RDeliver (Z.to_nat h) (DCount a)]
  | 12, [h; 2; a; _], _ => [RDeliver (Z.to_nat h) (DGauge a)]
  | 12, [h; 3; a; b], _ => [RDeliver (Z.to_nat h) (DObserve a b)]
  | 13, 1 :: _, name :: help :: keys => [RReg RUCounter name keys help]
  | 13, 2 :: _, name :: help :: keys => [RReg RUGauge name keys help]
  | 13, _ :: ty :: bs, name :: help :: keys => [RReg (RUTimer ty bs) name keys help]
  | _, _, _ => []
  end.

(* 14 [r]: the following calls are made on reporter r (same registry, same options) *)
Definition xop_of_ev (e : ev) : list xop :=
  match ek e, ei e with
  | 14, [r] => [XSwitch (Z.to_nat r)]
  | _, _ => map XOp (rop_of_ev e)
  end.

Definition out_code (merge : bool) (o : outcome) : list ev :=
  match o with
  | OMetric (MReal _) => [Ev 10 [0] []]
  | OMetric MNoop => [Ev 10 [if merge then 0 else 1] []]
  | OCbPanic _ => [Ev 10 [2] []]
  | ONilDeref => [Ev 10 [3] []]
  | ORegOk (Some _) => [Ev 10 [4] []]
  | ORegErr c => [Ev 10 [5; c] []]
  | ORegOk None => [Ev 10 [6] []]
  | ODone => []
  end.

(* the hypotheses of the value theorems on the generated histories (mode 0):
   every histogram's bounds / seconds satisfy hist_ok and bounds_ok, every
   recorded sample is valid for its histogram *)
Definition decl_hyp (d : decl) : bool :=
  match duse d with
  | TUHist k spec secs =>
      negb (Nat.eqb (length spec) 0) &&
      hist_okb k (uppers k spec) secs && bounds_okb (firstn (length spec) secs)
  | _ => true
  end.
Definition op_hyp (ds : list decl) (o : top) : bool :=
  match o with
  | TOp i (ARecV v) =>
      match nth_error ds i with
      | Some (Decl (TUHist KValue spec _) _ _) => sample_okb KValue (uppers KValue spec) v
      | _ => true
      end
  | TOp i (ARecD v) =>
      match nth_error ds i with
      | Some (Decl (TUHist KDuration spec _) _ _) => sample_okb KDuration (uppers KDuration spec) v
      | _ => true
      end
  | _ => true
  end.
Definition hyp_ok (ops : list top) : bool :=
  forallb decl_hyp (decls ops) && forallb (op_hyp (decls ops)) ops.

Definition subset (a b : list ev) : bool := forallb (fun e => existsb (ev_eqb e) b) a.

Definition cfg_of (p : list Z) (db : list Z) : cfg :=
  match p with
  | _ :: ty :: mask :: _ => Cfg true ty db (fun n => negb (Z.testbit mask (Z.of_nat n)))
  | _ => Cfg true 0 db (fun _ => true)
  end.
Definition db_of_ev (e : ev) : list Z := if ek e =? 31 then ei e else [].

Definition check (c : gcase) : Z :=
  let p := gparams c in
  let inp := ginput c in
  let cf := cfg_of p (flat_map db_of_ev inp) in
  let cbobs := match p with [_; _; _; o] => negb (o =? 0) | _ => true end in
  let merge := match p with [_; _; _; o] => negb (o =? 1) | _ => false end in
  let pre := flat_map pre_of_ev inp in
  let obs := gobserved c in
  let scope_mode := match p with m :: _ => m =? 0 | [] => true end in
  let res : state * list outcome :=
    if scope_mode
    then (rs (fold_left (tstep cf) (flat_map top_of_ev inp) (TS (init pre) [])), [])
    else let r := xrun cf (xinit pre) (flat_map xop_of_ev inp) in (xs (fst r), snd r) in
  let s := fst res in
  let o_outs := filter (fun e => ek e =? 10) obs in
  let o_cb := filter (fun e => ek e =? 11) obs in
  let o_ser := filter (fun e => ek e =? 20) obs in
  let o_err := filter (fun e => ek e =? 29) obs in
  if scope_mode && negb (hyp_ok (flat_map top_of_ev inp)) then 5
  else if negb scope_mode && negb (evs_eqb (flat_map (out_code merge) (snd res)) o_outs) then 1
  else if cbobs && negb (evs_eqb [Ev 11 (cblog s) []] o_cb) then 2
  else if negb (subset (gather s) o_ser && subset o_ser (gather s) &&
                Nat.eqb (length (gather s)) (length o_ser)) then 3
  else if negb (evs_eqb [Ev 29 [0] []] o_err) then 4
  else 0.

Definition mismatches := gcollect check.
