(* Correspondence for C11: the harness drives tally.NewTestScope /
   VerifNewTestScope through a history and reads every Snapshot() through
   its public interface; the model (the STORE of Model/Snapshot.v: registry,
   per-scope metric maps, walk) is run on the same history.
   params   = [registry shard count] (not used by the model: the walk order is irrelevant)
   input    = 40 [] (prefix :: k1 :: v1 :: ...)                 the test scope
              41 (v :: steps) (name :: step strings)            Counter(name).Inc(v)
              42 (bits :: steps) ...                            Gauge(name).Update
              43 (d :: steps) ...                               Timer(name).Record
              44 / 45 (n :: v :: spec_1..n ++ steps) ...        Histogram(name, Value/DurationBuckets).RecordValue/Duration
              48 (mk :: n :: spec ++ steps) ...                 metric acquired, nothing recorded
              46 steps ("" :: step strings)                     Close of the scope the path denotes
              47 steps ("" :: step strings)                     Snapshot() called on the scope the path denotes;
                                                                the receiver is IGNORED by the model: Snapshot walks the
                                                                whole registry whatever scope it is called on, so the
                                                                model's OSnap has no receiver (deriving the receiver only
                                                                registers empty scopes, which no snapshot shows)
              steps: -1 = SubScope (one string), n >= 0 = Tagged with n pairs (2n strings)
   observed = per snapshot: 50 [counters; gauges; timers; histograms] (entry counts), then the
              entries 51 [v] / 52 [bits] / 53 durations / 54 (kind :: bound :: count :: ...)
              with strings name :: k1 :: v1 :: ... (tags sorted by key). *)
From Coq Require Import ZArith List Bool.
From Tally Require Import Base.Obs Model.Buckets Model.Snapshot.
Import ListNotations.
Open Scope Z_scope.

Fixpoint pairs_of (l : list bytes) : tagmap :=
  match l with k :: v :: r => (k, v) :: pairs_of r | _ => [] end.

Fixpoint decode_path (ints : list Z) (strs : list bytes) : path :=
  match ints with
  | [] => []
  | z :: r =>
      if z <? 0 then
        match strs with
        | s :: ss => DSub s :: decode_path r ss
        | [] => []
        end
      else
        let n := (2 * Z.to_nat z)%nat in
        DTag (pairs_of (firstn n strs)) :: decode_path r (skipn n strs)
  end.

Definition kind_of (z : Z) : kind := if z =? 0 then KValue else KDuration.

Definition op_of_ev (e : ev) : option op :=
  let name := match es e with n :: _ => n | [] => [] end in
  let strs := tl (es e) in
  match ek e, ei e with
  | 41, v :: st => Some (ORec (decode_path st strs) name (RInc v))
  | 42, v :: st => Some (ORec (decode_path st strs) name (RUpdate v))
  | 43, v :: st => Some (ORec (decode_path st strs) name (RRecord v))
  | 44, n :: v :: r =>
      let k := Z.to_nat n in
      Some (ORec (decode_path (skipn k r) strs) name (RSample KValue (firstn k r) v))
  | 45, n :: v :: r =>
      let k := Z.to_nat n in
      Some (ORec (decode_path (skipn k r) strs) name (RSample KDuration (firstn k r) v))
  | 48, m :: n :: r =>
      let k := Z.to_nat n in
      let mk := if m =? 0 then MC else if m =? 1 then MG else if m =? 2 then MT else MH in
      Some (ORec (decode_path (skipn k r) strs) name (RGet mk (if m =? 4 then KDuration else KValue) (firstn k r)))
  | 46, st => Some (OClose (decode_path st strs))
  | 47, _ => Some OSnap
  | _, _ => None
  end.

Fixpoint ops_of (l : list ev) : list op :=
  match l with
  | [] => []
  | e :: r => match op_of_ev e with Some o => o :: ops_of r | None => ops_of r end
  end.

Fixpoint zpairs (l : list Z) : list (Z * Z) :=
  match l with a :: b :: r => (a, b) :: zpairs r | _ => [] end.

(* an observed entry as (key, value) *)
Definition entry_of (e : ev) : option (mkey * sval) :=
  let name := match es e with n :: _ => n | [] => [] end in
  let tags := pairs_of (tl (es e)) in
  match ek e, ei e with
  | 51, [v] => Some ((MC, name, tags), VCnt v)
  | 52, [b] => Some ((MG, name, tags), VGauge b)
  | 53, l => Some ((MT, name, tags), VTimer l)
  | 54, k :: l => Some ((MH, name, tags), VHist (kind_of k) (zpairs l))
  | _, _ => None
  end.

Definition zz_eqb (a b : Z * Z) : bool := (fst a =? fst b) && (snd a =? snd b).
Definition sval_eqb (a b : sval) : bool :=
  match a, b with
  | VCnt x, VCnt y => x =? y
  | VGauge x, VGauge y => x =? y
  | VTimer x, VTimer y => zs_eqb x y
  | VHist k x, VHist k' y => kind_eqb k k' && list_eqb zz_eqb x y
  | _, _ => false
  end.

(* split the observation at the 50 markers *)
Fixpoint split_obs (l : list ev) (cur : option (list Z * list ev)) : list (list Z * list ev) :=
  match l with
  | [] => match cur with Some (c, es) => [(c, List.rev es)] | None => [] end
  | e :: r =>
      if ek e =? 50 then
        match cur with
        | Some (c, es) => (c, List.rev es) :: split_obs r (Some (ei e, []))
        | None => split_obs r (Some (ei e, []))
        end
      else
        match cur with
        | Some (c, es) => split_obs r (Some (c, e :: es))
        | None => split_obs r None
        end
  end.

Definition count_kind (mk : mkind) (s : list (mkey * sval)) : Z :=
  Z.of_nat (length (filter (fun e => mkind_eqb (fst (fst (fst e))) mk) s)).

(* 0 = this snapshot of the model and the observed one hold the same entries *)
Definition cmp_snapshot (model : list (mkey * sval)) (o : list Z * list ev) : Z :=
  let counts := [count_kind MC model; count_kind MG model; count_kind MT model; count_kind MH model] in
  if negb (zs_eqb counts (fst o)) then 2
  else if negb (Z.of_nat (length (snd o)) =? Z.of_nat (length model)) then 2
  else if forallb (fun e => match entry_of e with
                            | Some (k, v) => match alookup mkey_eqb k model with
                                             | Some v' => sval_eqb v v'
                                             | None => false
                                             end
                            | None => false
                            end) (snd o)
       then 0 else 3.

Fixpoint cmp_all (ms : list (list (mkey * sval))) (os : list (list Z * list ev)) : Z :=
  match ms, os with
  | [], [] => 0
  | m :: ms', o :: os' => let c := cmp_snapshot m o in if c =? 0 then cmp_all ms' os' else c
  | _, _ => 1
  end.

Definition check (c : gcase) : Z :=
  match ginput c with
  | r :: evs =>
      match es r with
      | prefix :: tagstrs =>
          let root := root_of prefix (pairs_of tagstrs) in
          cmp_all (snapshots root (init root) (ops_of evs)) (split_obs (gobserved c) None)
      | [] => 4
      end
  | [] => 4
  end.

Definition mismatches := gcollect check.
