(* Correspondence for C10: the harness drives real scopes (plain recording
   reporter, cached recording reporter, reporter-less test scope) through a
   history of SubScope / Tagged / Timer / Record / report pass / Start / Stop /
   Histogram / NewCall / Exec calls with a scripted clock installed through
   tally.VerifSetNow, and reports what it saw after every single call; the
   model is run on the same history and compared call by call.

   params   = flavour (0 plain, 1 cached, 2 test, 3 plain and cached reporter) :: the clock script (the
              i-th reading of the clock; 0 once the script is exhausted);
   input    = Ev 40 (the root scope's SanitizeOptions, [] = none) (root prefix ::
              root tags, as given) then one event per call
              (41 SubScope, 42 Tagged, 43 Timer, 44 Record, 45 pass, 46 Start,
              47 Histogram, 48 histogram Start, 49 Stop, 50 NewCall, 51 Exec, 52 Close, 53 an execution begins (Exec has
              entered f), 54 it ends (f returns), 55 Timer whose
              allocation the cached reporter refused (it panicked, recovered));
   observed = per call: what the reporter was called with during that call
              (plain / cached; the order inside a report pass is that of Go map
              iteration, so a pass is compared as a multiset) or the complete
              Snapshot() right after the call (test scope, as a multiset), for
              an Exec also Ev 92 [times f ran; 0 nil / 1 f's error / 2 other
              returned], then the marker Ev 90 [clock readings so far].  In
              long histories on a test scope (whose snapshots grow with the
              history) and in the serialisations of concurrent runs the harness
              puts the marker Ev 91 [] after the calls whose outcome it did not
              write down: the model still takes the step, nothing is compared
              for that call.  (The harness's direct predicate looks at every call.) *)
From Coq Require Import ZArith List Bool.
From Tally Require Import Base.Obs Model.Buckets Model.Sanitize Model.Timer.
Import ListNotations.
Open Scope Z_scope.

Fixpoint unflat (l : list bytes) : tags :=
  match l with k :: v :: r => (k, v) :: unflat r | _ => [] end.

Definition op_of_ev (e : ev) : op :=
  let k := ek e in
  let n := match es e with x :: _ => x | [] => [] end in
  match ei e with
  | [] => OPass
  | a :: r =>
      let h := Z.to_nat a in
      if k =? 41 then OSub h n
      else if k =? 42 then OTag h (unflat (es e))
      else if k =? 43 then OTimer h n
      else if k =? 44 then ORecord h (match r with d :: _ => d | [] => 0 end)
      else if k =? 46 then OStart h
      else if k =? 47 then OHist h n r
      else if k =? 48 then OHStart h
      else if k =? 49 then OStop h
      else if k =? 50 then OCall h n
      else if k =? 51 then OExec h (match r with d :: _ => negb (d =? 0) | [] => false end)
      else if k =? 52 then OClose h
      else if k =? 55 then OTimerRefused h n
      else if k =? 53 then OBegin h
      else if k =? 54 then OEnd h (match r with d :: _ => negb (d =? 0) | [] => false end)
      else OPass
  end.

(* SanitizeOptions as integers: [] = none; else the replacement character, then
   for names, keys, values: number of ranges, lo hi ..., number of extra
   characters, the characters *)
Fixpoint take_pairs (n : nat) (l : list Z) : list (Z * Z) * list Z :=
  match n, l with
  | S m, a :: b :: r => let p := take_pairs m r in ((a, b) :: fst p, snd p)
  | _, _ => ([], l)
  end.
Definition parse_tab (l : list Z) : vchars * list Z :=
  match l with
  | nr :: r =>
      let p := take_pairs (Z.to_nat nr) r in
      match snd p with
      | nc :: r2 => (VC (fst p) (firstn (Z.to_nat nc) r2), skipn (Z.to_nat nc) r2)
      | [] => (VC (fst p) [], [])
      end
  | [] => (VC [] [], [])
  end.
Definition sanz_of (l : list Z) : sanz :=
  match l with
  | [] => san_id
  | r :: l1 =>
      let tn := parse_tab l1 in
      let tk := parse_tab (snd tn) in
      let tv := parse_tab (snd tk) in
      let o := Some (SO (fst tn) (fst tk) (fst tv) r) in
      San (san o Sanitize.KName) (san o Sanitize.KKey) (san o Sanitize.KValue)
  end.

Definition flavour_of (z : Z) : flavour :=
  if z =? 0 then FPlain else if z =? 1 then FCached else if z =? 2 then FTest else FBoth.

(* one segment per call: (looked at?, what was seen, marker integers) *)
Fixpoint split_obs (l cur : list ev) : list (bool * list ev * list Z) :=
  match l with
  | [] => []
  | e :: r => if ek e =? 90 then (true, List.rev cur, ei e) :: split_obs r []
              else if ek e =? 91 then (false, [], []) :: split_obs r []
              else split_obs r (e :: cur)
  end.

Fixpoint remove1 (e : ev) (l : list ev) : option (list ev) :=
  match l with
  | [] => None
  | x :: r => if ev_eqb e x then Some r
              else match remove1 e r with Some r' => Some (x :: r') | None => None end
  end.
Fixpoint perm_eqb (a b : list ev) : bool :=
  match a with
  | [] => match b with [] => true | _ => false end
  | x :: a' => match remove1 x b with Some b' => perm_eqb a' b' | None => false end
  end.

Definition exec_ev (s s' : state) : list ev :=
  if Nat.eqb (length (rets s')) (length (rets s)) then []
  else [Ev 92 [Z.of_nat (length (fruns s') - length (fruns s));
               if last (rets s') false then 1 else 0] []].

Definition expected (fl : flavour) (s s' : state) : list ev :=
  match fl with
  | FTest => snapshot s'
  | _ => skipn (length (log s)) (log s')
  end ++ exec_ev s s'.

Definition is_pass (o : op) : bool := match o with OPass => true | _ => false end.

Fixpoint walk (sz : sanz) (fl : flavour) (clk : nat -> Z) (s : state) (ops : list op)
              (segs : list (bool * list ev * list Z)) (i : Z) : Z :=
  match ops, segs with
  | [], [] => 0
  | o :: ops', (looked, seg, mark) :: segs' =>
      let s' := step sz fl clk s o in
      let ex := expected fl s s' in
      let same := match fl with
                  | FTest => perm_eqb ex seg
                  | _ => if is_pass o then perm_eqb ex seg else evs_eqb ex seg
                  end in
      if negb looked || (same && zs_eqb mark [Z.of_nat (nclk s')]) then walk sz fl clk s' ops' segs' (i + 1) else i
  | _, _ => 1000
  end.

Definition check (c : gcase) : Z :=
  match gparams c, ginput c with
  | f :: script, r :: evs =>
      let fl := flavour_of f in
      let clk := fun i => nth i script 0 in
      let root := (match es r with p :: _ => p | [] => [] end, unflat (tl (es r))) in
      let sz := sanz_of (ei r) in
      walk sz fl clk (init sz root) (map op_of_ev evs) (split_obs (gobserved c) []) 1
  | _, _ => 2000
  end.

Definition mismatches := gcollect check.
