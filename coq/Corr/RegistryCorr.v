(* Correspondence for C07: controlled schedules on the real registry (one shard).
   params   = [cached; sanitizer configured; number of spellings n; for spelling
              key i = 1..n the key number of its sanitized form]
   input    = 40 [op; arg; ...] per application thread (1 k = obtain spelling key k,
              2 = record, 3 = Close), 41 [passes] per reporting thread,
              42 [thread; choice; ...] the executed schedule (choice = key visited by
              the pass at a label-31 step, -1 otherwise)
   The schedule is run on the registry model under the clock of Model/RegPass.v: a report pass
   of the implementation that ends before it has visited every binding that is older than the
   pass (Go's map iteration guarantee; the guard of C07_closed_is_visited) is mismatch 6.
   observed = 43 [label after each step], 45 [object returned by each completed
              obtain, in completion order], 46 [applied; delivered; ...] per object *)
From Coq Require Import ZArith List Bool Arith.
From Tally Require Import Base.Obs Model.Registry Model.RegPass.
Import ListNotations.
Open Scope Z_scope.

Definition san_of (tbl : list Z) (k : nat) : nat :=
  match k with
  | O => O
  | S j => match nth_error tbl j with Some z => Z.to_nat z | None => k end
  end.

Fixpoint ops_of (l : list Z) : list aop :=
  match l with
  | 1 :: k :: r => AGet (Z.to_nat k) :: ops_of r
  | 2 :: _ :: r => AInc :: ops_of r
  | 3 :: _ :: r => AClose :: ops_of r
  | _ => []
  end.

Fixpoint threads_of (es : list ev) : list thread :=
  match es with
  | [] => []
  | e :: r =>
      if ek e =? 40 then {| tpc := Idle; cur := None; prog := ops_of (ei e); passes := 0 |} :: threads_of r
      else if ek e =? 41 then {| tpc := Idle; cur := None; prog := []; passes := Z.to_nat (hd 0 (ei e)) |} :: threads_of r
      else threads_of r
  end.

Fixpoint pairs_of (l : list Z) : list (nat * nat) :=
  match l with
  | i :: ch :: r => (Z.to_nat i, if ch <? 0 then 999999%nat else Z.to_nat ch) :: pairs_of r
  | _ => []
  end.
Definition sched_of (es : list ev) : list (nat * nat) :=
  flat_map (fun e => if ek e =? 42 then pairs_of (ei e) else []) es.

Definition is_idle (t : thread) : bool := match tpc t with Idle => true | _ => false end.
Definition getting (t : thread) : bool :=
  match tpc t, prog t with
  | Idle, AGet _ :: _ => true
  | G5 _, _ => true
  | _, _ => false
  end.

Fixpoint run_obs (san : nat -> nat) (s : isys) (sched : list (nat * nat)) : isys * list Z * list Z * bool :=
  match sched with
  | [] => (s, [], [], false)
  | ic :: r =>
      let rf := refused s ic in
      let s' := istep san s ic in
      let i := fst ic in
      let l := match nth_error (thr (base s')) i with Some t => label t | None => -2 end in
      let g := match nth_error (thr (base s)) i, nth_error (thr (base s')) i with
               | Some t, Some t' =>
                   if getting t && is_idle t' then
                     match cur t' with Some o => [Z.of_nat o] | None => [] end
                   else []
               | _, _ => []
               end in
      let '(sf, ls, gs, rfs) := run_obs san s' r in (sf, l :: ls, g ++ gs, rf || rfs)
  end.

Definition objs_obs (s : sys) : list Z :=
  flat_map (fun x => [Z.of_nat (applied x); Z.of_nat (delivered x)]) (objs s).

Definition check (c : gcase) : Z :=
  match gparams c with
  | _ :: _ :: n :: tbl =>
      let es := ginput c in
      let '(sf, ls, gs, rf) := run_obs (san_of tbl) (iinit (threads_of es)) (sched_of es) in
      match gobserved c with
      | [o1; o2; o3] =>
          if rf then 6
          else if negb (ev_eqb (Ev 43 ls []) o1) then 1
          else if negb (ev_eqb (Ev 45 gs []) o2) then 2
          else if negb (ev_eqb (Ev 46 (objs_obs (base sf)) []) o3) then 3
          else 0
      | _ => 4
      end
  | _ => 5
  end.

Definition mismatches := gcollect check.
