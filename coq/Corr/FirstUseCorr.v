(* Correspondence for C09: controlled schedules on the real metric getters.
   input    = 40 [op; a; b; ...]* per thread (1 kind name = obtain, 2 0 0 = record,
              3 0 0 = report pass), 42 [schedule]
   observed = 43 [label after each step], 45 [kind; name; object]* completed requests in
              order, 48 [kind; name]* Allocate calls in order (cached reporter; empty for
              a plain one), 46 [recorded; delivered]* per object *)
From Coq Require Import ZArith List Bool Arith.
From Tally Require Import Base.Obs Model.FirstUse.
From Tally Require Corr.LocksCorr.
Import ListNotations.
Open Scope Z_scope.

Fixpoint ops_of (l : list Z) : list mop :=
  match l with
  | 1 :: k :: n :: r => MGet (Z.to_nat k, Z.to_nat n) :: ops_of r
  | 2 :: _ :: _ :: r => MRec :: ops_of r
  | 3 :: _ :: _ :: r => MPass :: ops_of r
  | _ => []
  end.
Fixpoint threads_of (es : list ev) : list mthread :=
  match es with
  | [] => []
  | e :: r => if ek e =? 40 then {| tpc := MIdle; cur := None; prog := ops_of (ei e) |} :: threads_of r
              else threads_of r
  end.
Definition sched_of (es : list ev) : list nat :=
  flat_map (fun e => if ek e =? 42 then map Z.to_nat (ei e) else []) es.

Fixpoint run_labels (s : msys) (sched : list nat) : msys * list Z :=
  match sched with
  | [] => (s, [])
  | i :: r =>
      let s' := step s i in
      let l := match nth_error (thr s') i with Some t => label t | None => -2 end in
      let '(sf, ls) := run_labels s' r in (sf, l :: ls)
  end.

Definition check_firstuse (c : gcase) : Z :=
  let cached := match gparams c with x :: _ => negb (x =? 0) | _ => false end in
  let es := ginput c in
  let '(sf, ls) := run_labels (init (threads_of es)) (sched_of es) in
  let g := flat_map (fun p => [Z.of_nat (fst (fst p)); Z.of_nat (snd (fst p)); Z.of_nat (snd p)]) (List.rev (gets sf)) in
  let a := if cached then flat_map (fun k => [Z.of_nat (fst k); Z.of_nat (snd k)]) (List.rev (allocs sf)) else [] in
  let o := flat_map (fun p => [Z.of_nat (fst p); Z.of_nat (snd p)]) (combine (recs sf) (dels sf)) in
  match gobserved c with
  | [o1; o2; o3; o4] =>
      if negb (ev_eqb (Ev 43 ls []) o1) then 1
      else if negb (ev_eqb (Ev 45 g []) o2) then 2
      else if negb (ev_eqb (Ev 48 a []) o3) then 3
      else if negb (ev_eqb (Ev 46 o []) o4) then 4
      else 0
  | _ => 5
  end.

(* cases whose parameters start with 777 belong to the lock-layer correspondence *)
Definition check (c : gcase) : Z :=
  match gparams c with 777 :: _ => LocksCorr.check c | _ => check_firstuse c end.

Definition mismatches := gcollect check.
