(* Correspondence for C16.  The harness (harness/vh/c16.go) writes a sequence
   of structures through ONE reused protocol object into a memory buffer and
   through another one into the counting transport, and reads the bytes back
   with the vendored decoder; the model is run on the same sequence, with its
   protocol state threaded through the sequence.

   params   = proto (0 Compact, 1 Binary) :: n :: n field ids (before the
              sequence each protocol object is left inside n nested structs,
              at these field ids) ++ junk bytes that follow every encoding on
              the wire when it is decoded
   input    = events: 3 = a metric queued for the next batch,
                      1 = Metric.Write, 2 = MetricBatch.Write,
                      4 = M3Client.EmitMetricBatchV2 (ints: common tags set?, sequence id),
                      5 = a metric pre-built by the real m3 reporter (AllocateCounter/Gauge/Timer,
                          read out by reflection) with the value and timestamp it is later reported with
                      6 = a structure measured by the real m3 reporter (calculateSize) while several
                          goroutines were allocating on it at once
              a metric is ints [type; count; gauge bits; timer; timestamp; tags set?] and
              strings name :: k1 :: v1 :: k2 :: v2 ...
   observed = per operation 1/2/4: ints [calc size], strings [encoded bytes];
              per operation 5: ints [size kept by the reporter; calc size of the reported metric], strings [bytes of the reported metric].
              per operation 6: ints [size recorded by the reporter], strings [bytes the encoder writes for it].
   check codes: 1 bytes differ, 2 calc size differs, 3 the model decoder does not return the input
   from the observed bytes, 4 pre-built metric is not [placeholder], 5 reported metric larger than
   the measured size, 6 malformed case. *)
From Coq Require Import ZArith List Bool Uint63.
From Tally Require Import Base.Obs Model.Varint Model.Thrift.
Import ListNotations.
Open Scope Z_scope.

(* Byte strings dominate these cases.  Base.Obs.db unpacks a word with Z
   divisions (tens of microseconds each inside vm_compute); the same unpacking
   with primitive shifts and masks is two orders of magnitude faster, and
   the eight-way test below turns a byte into a Z without Uint63.to_Z's
   63-step loop.  Same transport format, same result as Base.Obs.dev. *)
Definition z_of_byte (b : int) : Z :=
  let t (m : int) (v : Z) := if Uint63.eqb (Uint63.land b m) 0%uint63 then 0 else v in
  t 1%uint63 1 + t 2%uint63 2 + t 4%uint63 4 + t 8%uint63 8 + t 16%uint63 16 + t 32%uint63 32 +
  t 64%uint63 64 + t 128%uint63 128.
Definition unpack7f (w : int) : list Z :=
  [z_of_byte w; z_of_byte (Uint63.lsr w 8); z_of_byte (Uint63.lsr w 16); z_of_byte (Uint63.lsr w 24);
   z_of_byte (Uint63.lsr w 32); z_of_byte (Uint63.lsr w 40); z_of_byte (Uint63.lsr w 48)].
Definition dbf (p : int * list int) : bytes :=
  firstn (Z.to_nat (Uint63.to_Z (fst p))) (flat_map unpack7f (snd p)).
Definition fdev (r : rev) : ev := Ev (Uint63.to_Z (rk r)) (dz (ri r)) (map dbf (rs r)).

Definition tag_eqb (a b : tag) : bool := zs_eqb (tname a) (tname b) && zs_eqb (tvalue a) (tvalue b).
Definition otags_eqb (a b : option (list tag)) : bool :=
  match a, b with
  | None, None => true
  | Some x, Some y => list_eqb tag_eqb x y
  | _, _ => false
  end.
Definition value_eqb (a b : mvalue) : bool :=
  (mtype a =? mtype b) && (mcount a =? mcount b) && (mgauge a =? mgauge b) && (mtimer a =? mtimer b).
Definition metric_eqb (a b : metric) : bool :=
  zs_eqb (mname a) (mname b) && value_eqb (mval a) (mval b) && (mts a =? mts b) && otags_eqb (mtags a) (mtags b).
Definition batch_eqb (a b : batch) : bool :=
  list_eqb metric_eqb (bmetrics a) (bmetrics b) && otags_eqb (bcommon a) (bcommon b).

Fixpoint pair_tags (l : list bytes) : list tag :=
  match l with
  | k :: v :: r => Tag k v :: pair_tags r
  | _ => []
  end.
Definition opt_tags (flag : Z) (l : list bytes) : option (list tag) :=
  if flag =? 0 then None else Some (pair_tags l).
Definition metric_of_ev (e : ev) : option metric :=
  match ei e, es e with
  | ty :: c :: g :: tm :: ts :: ht :: _, name :: tl =>
      Some (Metric name (MValue ty c g tm) ts (opt_tags ht tl))
  | _, _ => None
  end.

Section Run.
Variable P : proto.
Variable junk : bytes.

(* compare one write with what was observed; dec_ok runs the model decoder on the observed bytes *)
Definition cmp_write (st : wstate P) (dec_ok : bytes -> bool) (o : ev) : Z :=
  match ei o, es o with
  | [oc], [ob] =>
      if negb (zs_eqb (tout (fst st)) ob) then 1
      else if negb (get_count (fst st) =? oc) then 2
      else if negb (dec_ok (ob ++ junk)) then 3
      else 0
  | _, _ => 6
  end.

Definition dec_metric_ok (m : metric) (bs : bytes) : bool :=
  match decode_metric P bs with
  | Some (m', r) => metric_eqb m m' && zs_eqb r junk
  | None => false
  end.
Definition dec_batch_ok (b : batch) (bs : bytes) : bool :=
  match decode_batch P bs with
  | Some (b', r) => batch_eqb b b' && zs_eqb r junk
  | None => false
  end.
Definition dec_emit_ok (seq : Z) (b : batch) (bs : bytes) : bool :=
  match decode_emit P bs with
  | Some ((ty, seq', b'), r) => (ty =? M_ONEWAY) && (seq' =? seq) && batch_eqb b b' && zs_eqb r junk
  | None => false
  end.

(* one operation: result code and the protocol state afterwards *)
Definition step (e o : ev) (pend : list metric) (ps : PS P) : Z * PS P :=
  let k := ek e in
  if k =? 1 then
    match metric_of_ev e with
    | Some m => let st := wr_metric P m (tr0, ps) in (cmp_write st (dec_metric_ok m) o, snd st)
    | None => (6, ps)
    end
  else if k =? 2 then
    match ei e with
    | hc :: _ =>
        let b := Batch pend (opt_tags hc (es e)) in
        let st := wr_batch P b (tr0, ps) in (cmp_write st (dec_batch_ok b) o, snd st)
    | _ => (6, ps)
    end
  else if k =? 4 then
    match ei e with
    | hc :: seq :: _ =>
        let b := Batch pend (opt_tags hc (es e)) in
        let st := wr_emit P seq b (tr0, ps) in (cmp_write st (dec_emit_ok seq b) o, snd st)
    | _ => (6, ps)
    end
  else if k =? 5 then
    match metric_of_ev e, ei e, ei o with
    | Some pm, [_; _; _; _; _; _; v; ts], [rsize; oc] =>
        let kind := mtype (mval pm) in
        if negb (metric_eqb pm (placeholder kind (mname pm) (mtags pm))) then (4, ps)
        else
          let a := reported kind (mname pm) (mtags pm) v ts in
          (* the reporter measured the pre-built metric through its own reused protocol object *)
          if negb (calc_metric P ps pm =? rsize) then (2, ps)
          else
            let st := wr_metric P a (tr0, ps) in
            let c := cmp_write st (dec_metric_ok a) (Ev 5 [oc] (es o)) in
            if negb (c =? 0) then (c, snd st)
            else if rsize <? get_count (fst st) then (5, snd st) else (0, snd st)
    | _, _, _ => (6, ps)
    end
  else if k =? 6 then
    (* a structure measured by the real reporter while several goroutines were allocating:
       it is a pre-built counter/gauge/timer (histogram buckets are counters with the bucket
       tags appended), the size the reporter recorded for it must be the model's calc size,
       and the observed bytes are the real encoder's for that same structure *)
    match metric_of_ev e with
    | Some pm =>
        if negb (metric_eqb pm (placeholder (mtype (mval pm)) (mname pm) (mtags pm))) then (4, ps)
        else let st := wr_metric P pm (tr0, ps) in (cmp_write st (dec_metric_ok pm) o, snd st)
    | None => (6, ps)
    end
  else (6, ps).

Fixpoint run (ins obs : list ev) (pend : list metric) (ps : PS P) : Z :=
  match ins with
  | [] => match obs with [] => 0 | _ => 6 end
  | e :: ins' =>
      if ek e =? 3 then
        match metric_of_ev e with
        | Some m => run ins' obs (m :: pend) ps
        | None => 6
        end
      else
        match obs with
        | [] => 6
        | o :: obs' =>
            let r := step e o (rev_append pend []) ps in
            if fst r =? 0 then run ins' obs' [] (snd r) else fst r
        end
  end.

(* leave the protocol object inside nested structs at the given field ids *)
Definition prefix_state (ids : list Z) (p0 : PS P) : PS P :=
  snd (fold_left (fun w id => fb P T_I64 id (sb P w)) ids (tr0, p0)).
End Run.

Definition check (c : gcase) : Z :=
  match gparams c with
  | pr :: n :: rest =>
      let ids := firstn (Z.to_nat n) rest in
      let junk := skipn (Z.to_nat n) rest in
      if pr =? 0 then run compact junk (map fdev (gin c)) (map fdev (gobs c)) [] (prefix_state compact ids cps0)
      else run binary junk (map fdev (gin c)) (map fdev (gobs c)) [] (prefix_state binary ids tt)
  | _ => 6
  end.

Definition mismatches := gcollect check.

(* the fast unpacking agrees with Base.Obs.db (spot check; the transport is not part of any theorem) *)
Example dbf_agrees :
  let p := (17%uint63, [71213004312724076%uint63; 18446744073709551%uint63; 255%uint63]) in dbf p = db p.
Proof. vm_compute. reflexivity. Qed.
