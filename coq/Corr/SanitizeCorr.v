(* Correspondence for C06.  Two kinds of cases (first parameter):
   mode 0 - sanitizer level: the harness called tally.NewSanitizer(opts)
     .Name/.Key/.Value (or NewNoOpSanitizer) on batches of strings;
     input  = events k [] strings  (k = 1 Name, 2 Key, 3 Value, 0 = no-op sanitizer)
     observed = the same events with the returned strings;
   mode 1 - scope level: the harness built a root scope over a recording
     reporter and ran a history of SubScope/Tagged/metric operations;
     input  = 10 [] (prefix :: separator :: root tags k,v,...); 11 [] (cardinality tags k,v,...);
              then 20 [parent] [name] | 21 [parent] (k,v,...) | 30 [scope;kind] [name]
     observed = every string-bearing reporter call: kind [] (name :: k,v,... sorted by key).
   params = mode :: has_opts (0 none, 1 ad hoc, 1+i = the i-th shipped configuration, which must
            then equal the model's composition of the Gen/Params.v tables) :: replacement :: three tables (name, key, value), each
            nranges :: lo :: hi :: ... :: nchars :: c ... ; then (mode 1) cached :: omit.
   The MODEL (recommended tree: both C06 fixes) is run on the inputs. *)
From Coq Require Import ZArith List Bool.
From Tally Require Import Base.Obs Model.Utf8 Model.Sanitize Model.SanScope.
Import ListNotations.
Open Scope Z_scope.

Fixpoint pairs_of {A} (l : list A) : list (A * A) :=
  match l with a :: b :: r => (a, b) :: pairs_of r | _ => [] end.

Definition parse_table (l : list Z) : vchars * list Z :=
  match l with
  | nr :: r =>
    let n := (2 * Z.to_nat nr)%nat in
    match skipn n r with
    | nc :: r3 => let m := Z.to_nat nc in (VC (pairs_of (firstn n r)) (firstn m r3), skipn m r3)
    | [] => (VC (pairs_of (firstn n r)) [], [])
    end
  | [] => (VC [] [], [])
  end.

Definition pair_eqb (a b : Z * Z) : bool := (fst a =? fst b) && (snd a =? snd b).
Definition vchars_eqb (a b : vchars) : bool :=
  list_eqb pair_eqb (vranges a) (vranges b) && zs_eqb (vextra a) (vextra b).
Definition sopts_eqb (a b : sopts) : bool :=
  vchars_eqb (so_name a) (so_name b) && vchars_eqb (so_key a) (so_key b) &&
  vchars_eqb (so_value a) (so_value b) && (so_rep a =? so_rep b).
(* a shipped configuration as the tree under test has it = as Params.v composes it *)
Definition shipped_ok (has : Z) (o : option sopts) : bool :=
  if has <=? 1 then true
  else match o, nth_error shipped_opts (Z.to_nat (has - 2)) with
       | Some a, Some b => sopts_eqb a b
       | _, _ => false
       end.

(* (options, remaining parameters) *)
Definition parse_opts (l : list Z) : option sopts * list Z :=
  match l with
  | has :: rep :: r =>
    let '(tn, r1) := parse_table r in
    let '(tk, r2) := parse_table r1 in
    let '(tv, r3) := parse_table r2 in
    (if has =? 0 then None else Some (SO tn tk tv rep), r3)
  | _ => (None, [])
  end.

(* ---- mode 0 ---- *)
Definition san_ev (o : option sopts) (e : ev) : ev :=
  let k := ek e in
  let f := if k =? 1 then san o KName else if k =? 2 then san o KKey
           else if k =? 3 then san o KValue else (fun s => s) in
  Ev k [] (map f (es e)).

Definition check_san (o : option sopts) (c : gcase) : Z :=
  if evs_eqb (map (san_ev o) (ginput c)) (gobserved c) then 0 else 1.

(* ---- mode 1 ---- *)
Definition op_of_ev (e : ev) : sop :=
  let k := ek e in
  if k =? 20 then
    match ei e, es e with [p], [n] => OSub (Z.to_nat p) n | _, _ => OSub 0 [] end
  else if k =? 21 then
    match ei e with [p] => OTag (Z.to_nat p) (pairs_of (es e)) | _ => OTag 0 [] end
  else
    match ei e, es e with [i; kind], [n] => OMetric (Z.to_nat i) kind n | _, _ => OMetric 0 0 [] end.

Definition ev_of_dl (d : delivery) : ev :=
  Ev (d_kind d) [] (d_name d :: flat_map (fun kv => [fst kv; snd kv]) (d_tags d)).

Definition check_scope (o : option sopts) (rest : list Z) (c : gcase) : Z :=
  match rest, ginput c with
  | [cached; omit], e0 :: e1 :: ops =>
    match es e0 with
    | prefix :: sep :: kvs =>
      let cf := Cfg o (negb (cached =? 0)) (negb (omit =? 0)) true true in
      let dl := run cf prefix sep (pairs_of kvs) (pairs_of (es e1)) (map op_of_ev ops) in
      if evs_eqb (map ev_of_dl dl) (gobserved c) then 0 else 2
    | _ => 9
    end
  | _, _ => 9
  end.

Definition check (c : gcase) : Z :=
  match gparams c with
  | mode :: has :: r =>
    let '(o, rest) := parse_opts (has :: r) in
    if negb (shipped_ok has o) then 3
    else if mode =? 0 then check_san o c else check_scope o rest c
  | _ => 9
  end.

Definition mismatches := gcollect check.
