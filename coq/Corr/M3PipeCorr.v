(* Correspondence for C13: the harness drives the real m3.NewReporter against
   loopback UDP listeners; the datagrams it received are decoded HERE with the
   proved decoder of Model/Thrift.v and compared with what Model/M3Pipe.v emits
   for the same history.

   params   = [exact; proto (0 compact, 1 binary); t0 = wall clock before
              NewReporter; freeBytes; number of destinations; bflag]
   input    = the options (event 1), then the calls:
              11..13 Allocate{Counter,Gauge,Timer}: I=[key; size] S=[name; k1; v1; ...]
              14 AllocateHistogram: I=[key; kind; ntags; nb; bounds...; nsz; sizes...]
                 S = name :: tag pairs ++ renderings of the bounds (oracle)
              21 Report*: I=[pid; handle; kind; value; wall clock after the call]
              26 bucket ReportSamples: I=[pid; handle; kind; upper bound; value; wall clock after]
              6 Flush; 30 tick: I=[value] (exact mode: inserted where the
              observed timestamps change, i.e. the value timeLoop stored)
   observed = 50 one datagram of destination 0: S=[bytes];
              51 another destination: I=[dest; 1 when it received the same datagrams]
   exact = 1 (one goroutine): the emitted sequence (timestamps included) must
   be the model's; with bflag = 1 (no Flush in the history) batch by batch.
   exact = 0 (several goroutines): per producer (name prefix "p<d>.") the
   sequence must be the model's, timestamps excluded.
   exact = 2 (several goroutines reporting unique values through SHARED
   handles): the multiset of emitted metrics must be the model's (both sides
   sorted by name, kind and value), timestamps excluded.
   Internal metrics (name prefix "tally.internal.") are left out of the
   comparison but must decode.  Tags are compared sorted.
   Result: 0 agree; 1 bad case; 2 a datagram does not decode as one message;
   3 sequence ids; 4 common tags; 5 emitted sequence (exact); 6 a producer's
   sequence (6) or the multiset for shared handles (10); 7 clock hypotheses of C13_timestamp_bracket violated by the
   observed timestamps; 8 destinations differ; 9 batch boundaries. *)
From Coq Require Import ZArith List Bool Arith Uint63.
From Tally Require Import Base.Obs Base.Search Gen.Params Model.Varint Model.Thrift Model.Buckets Model.M3Pipe.
Import ListNotations.
Open Scope Z_scope.

(* ---- byte strings of a case, decoded with primitive shifts and masks (the
   generic decoder of Base/Obs.v divides in Z: too slow for whole datagrams) ---- *)
Definition nib (x : int) : Z :=
  if Uint63.eqb x 0%uint63 then 0 else
  if Uint63.eqb x 1%uint63 then 1 else
  if Uint63.eqb x 2%uint63 then 2 else
  if Uint63.eqb x 3%uint63 then 3 else
  if Uint63.eqb x 4%uint63 then 4 else
  if Uint63.eqb x 5%uint63 then 5 else
  if Uint63.eqb x 6%uint63 then 6 else
  if Uint63.eqb x 7%uint63 then 7 else
  if Uint63.eqb x 8%uint63 then 8 else
  if Uint63.eqb x 9%uint63 then 9 else
  if Uint63.eqb x 10%uint63 then 10 else
  if Uint63.eqb x 11%uint63 then 11 else
  if Uint63.eqb x 12%uint63 then 12 else
  if Uint63.eqb x 13%uint63 then 13 else
  if Uint63.eqb x 14%uint63 then 14 else 15.
Definition byte_z (b : int) : Z := 16 * nib (Uint63.lsr b 4) + nib (Uint63.land b 15).
Definition unpack7f (w : int) : list Z :=
  [byte_z (Uint63.land w 255); byte_z (Uint63.land (Uint63.lsr w 8) 255);
   byte_z (Uint63.land (Uint63.lsr w 16) 255); byte_z (Uint63.land (Uint63.lsr w 24) 255);
   byte_z (Uint63.land (Uint63.lsr w 32) 255); byte_z (Uint63.land (Uint63.lsr w 40) 255);
   byte_z (Uint63.land (Uint63.lsr w 48) 255)].
Definition dbf (p : int * list int) : bytes :=
  firstn (Z.to_nat (Uint63.to_Z (fst p))) (flat_map unpack7f (snd p)).
Definition devf (r : rev) : ev := Ev (Uint63.to_Z (rk r)) (dz (ri r)) (map dbf (rs r)).

(* ---- decoding the case ---- *)
Fixpoint pairs_of (l : list bytes) : tagmap :=
  match l with k :: v :: r => (k, v) :: pairs_of r | _ => [] end.

Definition opts_of (e : ev) : options :=
  match es e with
  | service :: env :: bid :: bkt :: hostname :: r =>
      Options service env (pairs_of r)
              (match ei e with 1 :: _ => Some hostname | _ => None end) bid bkt
  | _ => Options [] [] [] None [] []
  end.

Definition kind_of (z : Z) : kind := if z =? 1 then KDuration else KValue.
Definition kind_z (k : kind) : Z := match k with KDuration => 1 | KValue => 0 end.

(* renderings: (kind, bound) -> string, collected from every histogram allocation *)
Definition rtable := list (Z * Z * bytes).
Fixpoint zip3 (k : Z) (bs : list Z) (ss : list bytes) : rtable :=
  match bs, ss with b :: bs', s :: ss' => (k, b, s) :: zip3 k bs' ss' | _, _ => [] end.
Definition rtable_of_ev (e : ev) : rtable :=
  if ek e =? 14 then
    match ei e with
    | _ :: k :: nt :: nb :: r =>
        zip3 k (firstn (Z.to_nat nb) r) (skipn (S (2 * Z.to_nat nt)) (es e))
    | _ => []
    end
  else [].
Fixpoint rlookup (t : rtable) (k v : Z) : bytes :=
  match t with
  | [] => []
  | (k', v', s) :: r => if (k' =? k) && (v' =? v) then s else rlookup r k v
  end.

Definition op_of_ev (e : ev) : list op :=
  let k := ek e in
  if (11 <=? k) && (k <=? 13) then
    match ei e, es e with
    | [key; size], name :: tags => [OAlloc (k - 10) name (pairs_of tags) key size]
    | _, _ => []
    end
  else if k =? 14 then
    match ei e, es e with
    | key :: hk :: nt :: nb :: r, name :: ss =>
        let bounds := firstn (Z.to_nat nb) r in
        let sizes := match skipn (Z.to_nat nb) r with _ :: sz => sz | [] => [] end in
        [OAllocH (kind_of hk) name (pairs_of (firstn (2 * Z.to_nat nt) ss)) key bounds
                 (fun i => nth i sizes 1)]
    | _, _ => []
    end
  else if k =? 21 then
    match ei e with [pid; h; kd; v; _] => [OReport (Z.to_nat pid) (Z.to_nat h) kd v] | _ => [] end
  else if k =? 26 then
    match ei e with
    | [pid; h; hk; ub; v; _] => [OSamples (Z.to_nat pid) (Z.to_nat h) (kind_of hk) ub v]
    | _ => []
    end
  else if k =? 6 then [OFlush []]
  else if k =? 30 then match ei e with [v] => [OTick v] | _ => [] end
  else [].

(* ---- normal form of a metric: tags sorted by (name, value) ---- *)
Definition tag_ltb (a b : tag) : bool :=
  bytes_ltb (tname a) (tname b) || (zs_eqb (tname a) (tname b) && bytes_ltb (tvalue a) (tvalue b)).
Fixpoint tag_insert (x : tag) (l : list tag) : list tag :=
  match l with
  | [] => [x]
  | y :: r => if tag_ltb y x then y :: tag_insert x r else x :: y :: r
  end.
Definition tag_sort (l : list tag) : list tag := fold_right tag_insert [] l.
Definition tag_eqb (a b : tag) : bool := zs_eqb (tname a) (tname b) && zs_eqb (tvalue a) (tvalue b).
Definition tags_eqb (a b : list tag) : bool := list_eqb tag_eqb (tag_sort a) (tag_sort b).
Definition otags_eqb (a b : option (list tag)) : bool :=
  match a, b with
  | None, None => true
  | Some x, Some y => tags_eqb x y
  | _, _ => false
  end.
Definition value_eqb (a b : mvalue) : bool :=
  (mtype a =? mtype b) && (mcount a =? mcount b) && (mgauge a =? mgauge b) && (mtimer a =? mtimer b).
Definition metric_eqb (with_ts : bool) (a b : metric) : bool :=
  zs_eqb (mname a) (mname b) && value_eqb (mval a) (mval b) &&
  (negb with_ts || (mts a =? mts b)) && otags_eqb (mtags a) (mtags b).

Fixpoint prefix_eqb (p s : bytes) : bool :=
  match p, s with
  | [], _ => true
  | x :: p', y :: s' => (x =? y) && prefix_eqb p' s'
  | _ :: _, [] => false
  end.
(* "tally.internal." *)
Definition s_internal : bytes := [116;97;108;108;121;46;105;110;116;101;114;110;97;108;46].
Definition is_user (m : metric) : bool := negb (prefix_eqb s_internal (mname m)).
(* "p<d>." -> producer d + 1 *)
Definition owner_of_name (n : bytes) : nat :=
  match n with
  | 112 :: d :: 46 :: _ => S (Z.to_nat (d - 48))
  | _ => 0%nat
  end.

(* ---- the observation ---- *)
Definition decode_one (compact_p : bool) (d : bytes) : option (Z * batch) :=
  if compact_p then
    match decode_emit compact d with
    | Some ((ty, seq, b), []) => if ty =? M_ONEWAY then Some (seq, b) else None
    | _ => None
    end
  else
    match decode_emit binary d with
    | Some ((ty, seq, b), []) => if ty =? M_ONEWAY then Some (seq, b) else None
    | _ => None
    end.
Fixpoint decode_all (compact_p : bool) (ds : list bytes) : option (list (Z * batch)) :=
  match ds with
  | [] => Some []
  | d :: r => match decode_one compact_p d, decode_all compact_p r with
              | Some x, Some xs => Some (x :: xs)
              | _, _ => None
              end
  end.
Fixpoint seqs_ok (j : Z) (l : list (Z * batch)) : bool :=
  match l with [] => true | (s, _) :: r => (s =? wrap32 j) && seqs_ok (j + 1) r end.

(* ---- the clock hypotheses of C13_timestamp_bracket on the observed times:
   times = t0 :: the wall clock of every call (a report: taken after the call;
   a tick: not before its value; other calls: unchanged) ---- *)
Fixpoint times_from (prev : Z) (evs : list ev) : list Z :=
  match evs with
  | [] => []
  | e :: r =>
      let t := if ek e =? 21 then match ei e with [_; _; _; _; tc] => tc | _ => prev end
               else if ek e =? 26 then match ei e with [_; _; _; _; _; tc] => tc | _ => prev end
               else if ek e =? 30 then match ei e with [v] => Z.max prev v | _ => prev end
               else prev in
      t :: times_from t r
  end.
Fixpoint sortedb (l : list Z) : bool :=
  match l with
  | a :: ((b :: _) as r) => (a <=? b) && sortedb r
  | _ => true
  end.
(* a tick's value lies between the construction and the wall clock of the next report *)
Fixpoint next_report_time (evs : list ev) : option Z :=
  match evs with
  | [] => None
  | e :: r => if ek e =? 21 then match ei e with [_; _; _; _; tc] => Some tc | _ => None end
              else if ek e =? 26 then match ei e with [_; _; _; _; _; tc] => Some tc | _ => None end
              else next_report_time r
  end.
Fixpoint ticks_okb (t0 : Z) (evs : list ev) : bool :=
  match evs with
  | [] => true
  | e :: r =>
      (if ek e =? 30 then
         match ei e with
         | [v] => (t0 <=? v) && match next_report_time r with Some tc => v <=? tc | None => true end
         | _ => false
         end
       else true) && ticks_okb t0 r
  end.
Definition clock_okb (t0 : Z) (evs : list ev) : bool :=
  sortedb (t0 :: times_from t0 evs) && ticks_okb t0 evs.

Definition strip_ts (m : metric) : metric := set_ts 0 m.

Fixpoint seq_nat (n : nat) : list nat := match n with O => [] | S m => seq_nat m ++ [m] end.

(* a total preorder on metrics by (name, kind, count, gauge, timer), for the multiset comparison *)
Definition metric_leb (a b : metric) : bool :=
  if bytes_ltb (mname a) (mname b) then true else if bytes_ltb (mname b) (mname a) then false
  else if mtype (mval a) <? mtype (mval b) then true else if mtype (mval b) <? mtype (mval a) then false
  else if mcount (mval a) <? mcount (mval b) then true else if mcount (mval b) <? mcount (mval a) then false
  else if mgauge (mval a) <? mgauge (mval b) then true else if mgauge (mval b) <? mgauge (mval a) then false
  else mtimer (mval a) <=? mtimer (mval b).
Fixpoint minsert (x : metric) (l : list metric) : list metric :=
  match l with
  | [] => [x]
  | y :: r => if metric_leb x y then x :: y :: r else y :: minsert x r
  end.
Definition msort (l : list metric) : list metric := fold_left (fun acc x => minsert x acc) l [].

Definition check (c : gcase) : Z :=
  let observed := map devf (gobs c) in
  match gparams c, map devf (gin c) with
  | [exact; proto; t0; free; ndest; bflag], eopt :: calls =>
      let rt := flat_map rtable_of_ev calls in
      let render := fun hk v => rlookup rt (kind_z hk) v in
      match config_of (opts_of eopt) free render with
      | None => 1
      | Some cfg =>
          let ops := flat_map op_of_ev calls in
          let model := emitted MFixed cfg t0 ops in
          let dgs := flat_map (fun e => if ek e =? 50 then firstn 1 (es e) else []) observed in
          let others := filter (fun e => ek e =? 51) observed in
          match decode_all (proto =? 0) dgs with
          | None => 2
          | Some obs =>
              if negb (seqs_ok 1 obs) then 3
              else if negb (forallb (fun sb => otags_eqb (bcommon (snd sb)) (Some (ccommon cfg))) obs) then 4
              else
                let om := filter is_user (flat_map (fun sb => bmetrics (snd sb)) obs) in
                let mm := filter (fun x => is_user (snd x)) (concat model) in
                if negb ((Z.of_nat (length others) =? ndest - 1) &&
                         forallb (fun e => match ei e with [_; 1] => true | _ => false end) others) then 8
                else if exact =? 1 then
                  if negb (list_eqb (metric_eqb true) (map snd mm) om) then 5
                  else if negb (clock_okb t0 calls) then 7
                  else if (bflag =? 1) &&
                          negb (list_eqb (list_eqb (metric_eqb true)) (map (map snd) model)
                                         (map (fun sb => bmetrics (snd sb)) obs)) then 9
                  else 0
                else if exact =? 2 then
                  if list_eqb (metric_eqb false) (msort (map snd mm)) (msort om) then 0 else 10
                else
                  if forallb (fun p =>
                       list_eqb (metric_eqb false)
                         (map snd (filter (fun x => Nat.eqb (fst x) p) mm))
                         (filter (fun m => Nat.eqb (owner_of_name (mname m)) p) om))
                       (seq_nat 12)
                  then 0 else 6
          end
      end
  | _, _ => 1
  end.

Definition mismatches := gcollect check.
