(* Correspondence for C14: controlled schedules on the real m3 reporter.
   params   = [capacity; protocol (0 compact, 1 binary); step at which the sink was closed (-1 never)]
   input    = 70 [k1; v1; k2; v2; ...] per caller thread (k: 1 ReportCount v, 2 ReportSamples v on
              the shared bucket handle, 3 Flush, 4 Close), then 72 [picks] the executed schedule
              (0 = process(), i+1 = caller thread i)
   observed = 73 [label after each step] (yield label, -1 finished, -3 blocked),
              74 [values received by the sink, in order; tally.internal.* = -1] or 75 [] when the
              sink was closed during the run, then 76 [results of the Close calls] per thread *)
From Coq Require Import ZArith List Bool.
From Tally Require Import Base.Obs Model.M3Close.
Import ListNotations.
Open Scope Z_scope.

Fixpoint ops_of (l : list Z) : list op :=
  match l with
  | k :: v :: r =>
      (if k =? 1 then OReport v else if k =? 2 then OSample v else if k =? 3 then OFlush else OClose)
        :: ops_of r
  | _ => []
  end.
Definition progs_of (es : list ev) : list (list op) :=
  flat_map (fun e => if ek e =? 70 then [ops_of (ei e)] else []) es.
Definition sched_of (es : list ev) : list nat :=
  flat_map (fun e => if ek e =? 72 then map Z.to_nat (ei e) else []) es.

Fixpoint run_labels (cap : nat) (s : sys) (sched : list nat) : sys * list Z :=
  match sched with
  | [] => (s, [])
  | j :: r =>
      let b := blocked cap s j in
      let s' := step false cap s j in
      let l := if b then -3 else label s' j in
      let '(sf, ls) := run_labels cap s' r in (sf, l :: ls)
  end.

Definition check (c : gcase) : Z :=
  let es := ginput c in
  let cap := Z.to_nat (hd 1 (gparams c)) in
  let '(sf, ls) := run_labels cap (init (progs_of es)) (sched_of es) in
  (* what process() has received, then what is still queued when the schedule ends (pools in
     which nobody closes are closed by the harness afterwards: the rest is then delivered) *)
  let sink := filter (fun v => negb (v =? marker_flush)) (List.rev (out sf) ++ q sf) in
  let closes := map (fun t => Ev 76 (List.rev (res t)) []) (thr sf) in
  match gobserved c with
  | o1 :: o2 :: oc =>
      if negb (ev_eqb (Ev 73 ls []) o1) then 1
      else if panicked sf then 5
      else if (ek o2 =? 74) && negb (ev_eqb (Ev 74 sink []) o2) then 2
      else if negb (evs_eqb closes oc) then 3
      else 0
  | _ => 4
  end.

Definition mismatches := gcollect check.
