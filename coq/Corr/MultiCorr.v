(* Correspondence for C19: the harness drives multi.NewMultiReporter /
   NewMultiCachedReporter over recording children and reports the global
   sequence of child calls; the model is run on the same history.
   params  = the children's (reporting, tagging) flags, flattened;
   input   = the calls made on the multi reporter;
   observed = every child call as an event whose first integer is the child
              index, then one event 99 [reporting; tagging] = Capabilities(). *)
From Coq Require Import ZArith List Bool.
From Tally Require Import Base.Obs Model.Multi.
Import ListNotations.
Open Scope Z_scope.

Definition op_of_ev (e : ev) : op :=
  let k := ek e in
  if (k <=? 6) then OPlain e
  else if (k <=? 14) then OAlloc k (ei e) (es e)
  else if (k <=? 23) then
    match ei e with [h; v] => ORep k (Z.to_nat h) v | _ => OPlain e end
  else if (k <=? 25) then
    match ei e with [h; lo; hi] => OBucket k (Z.to_nat h) lo hi | _ => OPlain e end
  else
    match ei e with [b; v] => OSamples (Z.to_nat b) v | _ => OPlain e end.

Fixpoint pairs (l : list Z) : list (bool * bool) :=
  match l with
  | a :: b :: r => (negb (a =? 0), negb (b =? 0)) :: pairs r
  | _ => []
  end.

Definition with_src (p : nat * ev) : ev :=
  Ev (ek (snd p)) (Z.of_nat (fst p) :: ei (snd p)) (es (snd p)).

Definition check (c : gcase) : Z :=
  let cs := pairs (gparams c) in
  let s := run (length cs) (map op_of_ev (ginput c)) in
  let cp := caps cs in
  let expect := map with_src (glog s) ++
                [Ev 99 [if fst cp then 1 else 0; if snd cp then 1 else 0] []] in
  if evs_eqb expect (gobserved c) then 0 else 1.

Definition mismatches := gcollect check.
