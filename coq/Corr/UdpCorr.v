(* Correspondence for C15: the harness drives thriftudp.TUDPTransport (mode 0)
   or thriftudp.TMultiUDPTransport over n destinations (mode 1) against
   loopback UDP listeners and reports, per call, what the call returned and
   which datagrams each listener received; the model is run on the same calls.
   params  = [mode; n; MaxLength as the harness read it from the package];
   input   = the calls: 1 Write [k; len], 2 WriteByte [k], 3 WriteString [k; len],
             4 Flush [send oracle per destination: 0 fails, 1 succeeds, 2 succeeds
             but the destination is down and the datagram is lost], 5 Close [close oracle per
             destination], 6 IsOpen, 7 RemainingBytes, 8 Read.  The bytes of
             write k are payload k len (the harness writes exactly these bytes);
   observed = per call one event 20 [code; aux] followed by one event
             21 [destination; length; fletcher a; fletcher c] per datagram received. *)
From Coq Require Import ZArith List Bool.
From Tally Require Import Base.Obs Gen.Params Model.Udp.
Import ListNotations.
Open Scope Z_scope.

(* byte j of write k is ((37 k + 11) + j) mod 251 *)
Fixpoint gen (n : nat) (cur : Z) : bytes :=
  match n with O => [] | S n' => cur :: gen n' (if cur =? 250 then 0 else cur + 1) end.
Definition payload (k n : Z) : bytes := gen (Z.to_nat n) ((k * 37 + 11) mod 251).

Fixpoint fl (l : bytes) (a c : Z) : Z * Z :=
  match l with [] => (a, c) | b :: r => let a' := a + b in fl r a' (c + a') end.

Definition bools (l : list Z) : list bool := map (fun x => negb (x =? 0)) l.

Definition op_of_ev (e : ev) : op :=
  match ek e, ei e with
  | 1, [k; n] => Write (payload k n)
  | 2, [k] => WriteByte (hd 0 (payload k 1))
  | 3, [k; n] => WriteString (payload k n)
  | 4, oks => Flush (hd true (bools oks))
  | 5, coks => Close (hd true (bools coks))
  | 6, _ => IsOpen
  | 7, _ => RemainingBytes
  | _, _ => Read
  end.

Definition mop_of_ev (e : ev) : mop :=
  match ek e, ei e with
  | 1, [k; n] => MWrite (payload k n)
  | 4, oks => MFlush (bools oks)
  | 5, coks => MClose (bools coks)
  | 6, _ => MIsOpen
  | 7, _ => MRemaining
  | _, _ => MRead
  end.

(* what a call returned, as the harness classifies it: 0 ok (aux = bytes
   written), 1 not open, 2 refused (does not fit / message already refused),
   3 socket error, 5 not supported, 6 IsOpen (aux = answer), 7 RemainingBytes *)
Definition res_ev (n : Z) (r : res) : ev :=
  Ev 20 (match r with
         | Ok => [0; n]
         | ErrNotOpen => [1; 0]
         | ErrTooBig => [2; 0]
         | ErrPoisoned => [2; 0]
         | ErrSend => [3; 0]
         | ErrClose => [3; 0]
         | ErrUnsupported => [5; 0]
         | IsOpenIs b => [6; if b then 1 else 0]
         | Remaining x => [7; x]
         end) [].

Definition dg_ev (dest : Z) (d : bytes) : ev :=
  let '(a, c) := fl d 0 0 in Ev 21 [dest; zlen d; a; c] [].

Definition count (o : op) : Z :=
  match o with Write b => zlen b | WriteString b => zlen b | _ => 0 end.

(* The Flush oracle of the harness has three values per destination: 0 the
   send fails, 1 it succeeds, 2 it succeeds but the destination is not
   listening (its port is closed).  For the model 1 and 2 are the same call
   (conn.Write succeeds, the buffer is handed over); a datagram handed over
   with oracle 2 is lost in the network and cannot be observed. *)
Definition lost (e : ev) : list bool :=
  if ek e =? 4 then map (fun x => x =? 2) (ei e) else [].

Fixpoint obs1 (L : Z) (t : tr) (es : list ev) : list ev :=
  match es with
  | [] => []
  | e :: r =>
      let o := op_of_ev e in
      let '(t', x, d) := step L t o in
      res_ev (count o) x :: (if hd false (lost e) then [] else map (dg_ev 0) (opt d)) ++ obs1 L t' r
  end.

Fixpoint dgs (i : Z) (outs : list (option bytes)) (ls : list bool) : list ev :=
  match outs with
  | [] => []
  | o :: r => (if hd false ls then [] else map (dg_ev i) (opt o)) ++ dgs (i + 1) r (tl ls)
  end.

Fixpoint obsm (L : Z) (ts : list tr) (es : list ev) : list ev :=
  match es with
  | [] => []
  | e :: r =>
      let x := mstep L ts (mop_of_ev e) in
      res_ev (mwritten x) (mres x) :: dgs 0 (mouts x) (lost e) ++ obsm L (mts x) r
  end.

Definition check (c : gcase) : Z :=
  match gparams c with
  | [mode; n; L] =>
      if negb (L =? udp_max_length) then 9 else
      let expect :=
        if mode =? 0 then obs1 L fresh (ginput c)
        else obsm L (repeat fresh (Z.to_nat n)) (ginput c) in
      if evs_eqb expect (gobserved c) then 0 else 1
  | _ => 8
  end.

Definition mismatches := gcollect check.
