(* Correspondence for C20.  The first parameter of a case selects what was
   run against the real code:

   1  float arithmetic.  input: events k [a; b] with k = 1 a+b, 2 a*b,
      3 float64(int64 a), 4 int64(float a) (in range), 5 a <= b;
      observed: one event k [result] per input event.
   2  constructors.  input: one event k [start; width|factor; n] with
      k = 1 LinearValueBuckets, 2 LinearDurationBuckets,
      3 ExponentialValueBuckets, 4 ExponentialDurationBuckets;
      observed: 50 (err?1:0 :: returned buckets) and 51 (panicked?1:0 ::
      buckets returned by the Must variant).
   3  BucketPairs.  input: one event 31 (ValueBuckets) / 32 (DurationBuckets)
      with the elements; observed: 60 [lo0; hi0; lo1; hi1; ...].
   4  histograms created one after the other under one root scope.
      params = [4; flavour] (0 StatsReporter, 1 CachedStatsReporter).
      input: per creation one event 31/32 [n; the n elements; samples...];
      observed: per creation i, for flavour 1 an event 72 (i :: all bucket
      pairs the reporter was asked to allocate), then for both flavours an
      event 71 (i :: owner :: lo; hi; count of every delivery of the one
      report pass) where owner is the creation whose slice the reporter was
      handed as the histogram's buckets (-1 when it cannot be told).
      The model runs the whole history through the cache with the identity
      function of the code and builds each histogram on the storage the
      cache returned.
   5  as 4 but created from several goroutines: the insertion order is not
      known, so each histogram is built on a fresh storage of its own
      specification (what the cache theorem says it is equivalent to).
   In 4 and 5 bounds are compared up to the sign of a float zero (which
   slice a float-equal hit returns is not part of the property; the check
   must not depend on which specifications share an identity), and the
   owner must be a creation whose specification bucketsEqual accepts.

   NaNs are canonical on both sides (the harness maps every NaN it observes
   to 0x7FF8000000000000). *)
From Coq Require Import ZArith List Bool.
From Tally Require Import Base.Obs Base.Search Model.Buckets Model.Ctor Model.BCache.
Import ListNotations.
Open Scope Z_scope.

Definition u64 (x : Z) : Z := x mod P64.
Definition b2z (b : bool) : Z := if b then 1 else 0.

(* ---- 1: arithmetic ---- *)
Definition arith (e : ev) : ev :=
  match ei e with
  | [a; b] =>
      let k := ek e in
      Ev k [ if k =? 1 then fadd (u64 a) (u64 b)
             else if k =? 2 then fmul (u64 a) (u64 b)
             else if k =? 3 then f_of_int a
             else if k =? 4 then int64_of_f (u64 a)
             else b2z (fle (u64 a) (u64 b)) ] []
  | _ => Ev (-1) [] []
  end.

(* ---- 2: constructors ---- *)
(* NaNs are compared as one value (a NaN start is returned as it is by the
   exponential constructor; the harness canonicalises what it observes) *)
Definition canon_nan (b : Z) : Z := match fkey b with None => QNAN | Some _ => b end.
Definition ctor (e : ev) : list ev :=
  match ei e with
  | [s; w; n] =>
      let k := ek e in
      let r := if k =? 1 then linear_value (u64 s) (u64 w) n
               else if k =? 2 then linear_duration s w n
               else if k =? 3 then exponential_value (u64 s) (u64 w) n
               else exponential_duration s (u64 w) n in
      let r := if (k =? 1) || (k =? 3) then option_map (map canon_nan) r else r in
      [ match r with None => Ev 50 [1] [] | Some l => Ev 50 (0 :: l) [] end;
        match must r with Panics => Ev 51 [1] [] | Returns l => Ev 51 (0 :: l) [] end ]
  | _ => []
  end.

(* ---- 3: BucketPairs ---- *)
Definition kind_of (k : Z) : kind := if k =? 31 then KValue else KDuration.
Definition normk (k : kind) (x : Z) : Z := match k with KValue => u64 x | KDuration => x end.
Definition flat2 (l : list (Z * Z)) : list Z := flat_map (fun p => [fst p; snd p]) l.
Definition flat3 (l : list (Z * Z * Z)) : list Z :=
  flat_map (fun p => [fst (fst p); snd (fst p); snd p]) l.

Definition norm_all (k : kind) (e : ev) : ev := Ev (ek e) (map (normk k) (ei e)) (es e).

Definition bpairs (e : ev) : list ev :=
  let k := kind_of (ek e) in
  [Ev 60 (flat2 (pairs k (map (normk k) (ei e)))) []].

(* ---- 4, 5: histograms through the cache ---- *)
Record req := Req { rkind : kind; rspec : list Z; rsamples : list Z }.
Definition req_of (e : ev) : req :=
  let k := kind_of (ek e) in
  match ei e with
  | n :: r => let n := Z.to_nat n in
              Req k (map (normk k) (firstn n r)) (map (normk k) (skipn n r))
  | [] => Req k [] []
  end.

(* observed events of kind 71/72: make float bounds unsigned again *)
Fixpoint norm_stride (k : kind) (stride : nat) (pos : nat) (l : list Z) : list Z :=
  match l with
  | [] => []
  | x :: r => (if (pos mod stride =? stride - 1)%nat && (stride =? 3)%nat then x else normk k x)
              :: norm_stride k stride (S pos) r
  end.
Definition kind_at (reqs : list req) (i : Z) : kind :=
  match nth_error reqs (Z.to_nat i) with Some r => rkind r | None => KValue end.
Definition norm_obs (reqs : list req) (e : ev) : ev :=
  match ek e, ei e with
  | 71, i :: own :: r => Ev 71 (i :: own :: norm_stride (kind_at reqs i) 3 0 r) []
  | 72, i :: r => Ev 72 (i :: norm_stride (kind_at reqs i) 2 0 r) []
  | _, _ => e
  end.

(* the sign of a float zero is not determined under concurrency *)
Definition canon (k : kind) (x : Z) : Z :=
  match k with KValue => if x =? SIGN then 0 else x | KDuration => x end.
Definition canon_stride (k : kind) (stride : nat) (l : list Z) : list Z :=
  (fix go (pos : nat) (l : list Z) : list Z :=
     match l with
     | [] => []
     | x :: r => (if (pos mod stride =? stride - 1)%nat && (stride =? 3)%nat then x else canon k x)
                 :: go (S pos) r
     end) 0%nat l.

Definition owner_ok (reqs : list req) (r : req) (own : Z) : bool :=
  if own =? -1 then true
  else match nth_error reqs (Z.to_nat own) with
       | Some r' => (0 <=? own) && buckets_equal (rkind r) (rspec r) (rkind r') (rspec r')
       | None => false
       end.

(* one creation, built on storage s, against its observed events *)
Definition conc_one (flavour : Z) (reqs : list req) (i : nat) (r : req) (s : storage) (obs : list ev) : bool :=
  let k := rkind r in
  let mine := filter (fun e => match ei e with j :: _ => j =? Z.of_nat i | [] => false end) obs in
  let want71 := canon_stride k 3 (flat3 (deliveries_after (hist_of k s) (rsamples r))) in
  let want72 := canon_stride k 2 (flat2 (hpairs k (sbounds s))) in
  match flavour, mine with
  | 0, [e] =>
      match ek e, ei e with
      | 71, _ :: own :: d => owner_ok reqs r own && zs_eqb (canon_stride k 3 d) want71
      | _, _ => false
      end
  | _, [e2; e] =>
      match ek e2, ei e2, ek e, ei e with
      | 72, _ :: p, 71, _ :: own :: d =>
          zs_eqb (canon_stride k 2 p) want72 && (own =? -1) && zs_eqb (canon_stride k 3 d) want71
      | _, _, _, _ => false
      end
  | _, _ => false
  end.

Fixpoint conc_all (flavour : Z) (reqs : list req) (i : nat) (rs : list req) (ss : list storage)
         (obs : list ev) : bool :=
  match rs, ss with
  | [], [] => true
  | r :: rs', s :: ss' => conc_one flavour reqs i r s obs && conc_all flavour reqs (S i) rs' ss' obs
  | _, _ => false
  end.

Definition check (c : gcase) : Z :=
  match gparams c with
  | 1 :: _ => if evs_eqb (map arith (ginput c)) (gobserved c) then 0 else 1
  | 2 :: _ =>
      let k := match ginput c with i :: _ => if (ek i =? 1) || (ek i =? 3) then KValue else KDuration
                                 | [] => KDuration end in
      if evs_eqb (flat_map ctor (ginput c)) (map (norm_all k) (gobserved c)) then 0 else 2
  | 3 :: _ =>
      let k := match ginput c with i :: _ => kind_of (ek i) | [] => KValue end in
      if evs_eqb (flat_map bpairs (ginput c)) (map (norm_all k) (gobserved c)) then 0 else 3
  | t :: flavour :: _ =>
      let reqs := map req_of (ginput c) in
      let obs := map (norm_obs reqs) (gobserved c) in
      let ss := if t =? 4 then run real_ident (map (fun r => (rkind r, rspec r)) reqs)
                else map (fun r => mkstorage 0 (rkind r) (rspec r)) reqs in
      if (length obs =? length reqs * (if (flavour =? 0)%Z then 1 else 2))%nat
         && conc_all flavour reqs 0 reqs ss obs
      then 0 else t
  | _ => 9
  end.

Definition mismatches := gcollect check.
