(* Correspondence for C02: controlled schedules on the real gauge.
   input    = 40 [v1; v2; ...] per updating thread (value bits), 41 [passes] per
              reporting thread, 42 [schedule]
   observed = 43 [label after each step], 44 [delivered value bits, in order] *)
From Coq Require Import ZArith List Bool.
From Tally Require Import Base.Obs Model.Gauge.
Import ListNotations.
Open Scope Z_scope.

Fixpoint threads_of (es : list ev) : list thread :=
  match es with
  | [] => []
  | e :: r =>
      if ek e =? 40 then TU (UIdle (ei e)) :: threads_of r
      else if ek e =? 41 then TR (RIdle (Z.to_nat (hd 0 (ei e)))) :: threads_of r
      else threads_of r
  end.
Definition sched_of (es : list ev) : list nat :=
  flat_map (fun e => if ek e =? 42 then map Z.to_nat (ei e) else []) es.

Fixpoint run_labels (s : sys) (sched : list nat) : sys * list Z :=
  match sched with
  | [] => (s, [])
  | i :: r =>
      let s' := step s i in
      let l := match nth_error (thr s') i with Some t => label t | None => -2 end in
      let '(sf, ls) := run_labels s' r in (sf, l :: ls)
  end.

Definition check (c : gcase) : Z :=
  let es := ginput c in
  let '(sf, ls) := run_labels (init (threads_of es)) (sched_of es) in
  match gobserved c with
  | [o1; o2] =>
      if negb (ev_eqb (Ev 44 (List.rev (log sf)) []) o2) then 1
      else if negb (ev_eqb (Ev 43 ls []) o1) then 2 else 0
  | _ => 3
  end.

Definition mismatches := gcollect check.
