(* Go's sort.Search, transcribed:
     i, j := 0, n
     for i < j { h := int(uint(i+j) >> 1); if !f(h) { i = h + 1 } else { j = h } }
     return i
   and the proof that for a monotone predicate it returns the least index
   satisfying it (n if none). *)
From Coq Require Import Arith List Lia Bool.
Import ListNotations.

Fixpoint search_aux (fuel : nat) (f : nat -> bool) (i j : nat) : nat :=
  match fuel with
  | O => i
  | S fu => if i <? j then
              let h := (i + j) / 2 in
              if f h then search_aux fu f i h else search_aux fu f (h + 1) j
            else i
  end.
Definition sort_search (n : nat) (f : nat -> bool) : nat := search_aux n f 0 n.

Definition monotone (n : nat) (f : nat -> bool) : Prop :=
  forall a b, a <= b -> b < n -> f a = true -> f b = true.

Lemma search_aux_spec fuel f n : monotone n f -> forall i j,
  i <= j -> j <= n -> j - i <= fuel ->
  (forall k, k < i -> f k = false) ->
  (forall k, j <= k -> k < n -> f k = true) ->
  let r := search_aux fuel f i j in
  r <= n /\ (forall k, k < r -> f k = false) /\ (r < n -> f r = true).
Proof.
  intros M. induction fuel as [|fu IH]; intros i j Hij Hjn Hf Lo Hi; cbn [search_aux].
  - assert (i = j) by lia. subst. repeat split; auto; try lia; try (intros H; apply Hi; lia).
  - destruct (Nat.ltb_spec i j) as [L|L].
    + assert (Hh : i <= (i + j) / 2 < j).
      { split. apply Nat.div_le_lower_bound; lia. apply Nat.div_lt_upper_bound; lia. }
      cbn zeta. destruct (f ((i + j) / 2)) eqn:E.
      * apply IH; [lia|lia|lia|exact Lo|].
        intros k K1 K2. apply (M ((i + j) / 2)); auto.
      * apply IH; [lia|lia|lia| |exact Hi].
        intros k K. destruct (f k) eqn:Fk; auto.
        assert (f ((i + j) / 2) = true) by (apply (M k); auto; lia). congruence.
    + assert (i = j) by lia. subst. repeat split; auto; try lia; try (intros H; apply Hi; lia).
Qed.

Theorem sort_search_least n f : monotone n f ->
  let r := sort_search n f in
  r <= n /\ (forall k, k < r -> f k = false) /\ (r < n -> f r = true).
Proof. intros M. unfold sort_search. apply search_aux_spec; auto; try lia. Qed.
