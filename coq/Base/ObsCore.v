(* Shared observable type for the correspondence checks: an event is a tag,
   a list of integers and a list of byte strings.  Everything the harness
   observes on the implementation is projected onto lists of such events and
   compared with what the executable model computes, by boolean equality
   evaluated with vm_compute. *)
From Coq Require Import ZArith List Bool.
Import ListNotations.
Open Scope Z_scope.

Definition bytes := list Z.

Record ev := Ev { ek : Z; ei : list Z; es : list bytes }.

Fixpoint list_eqb {A} (eqb : A -> A -> bool) (a b : list A) : bool :=
  match a, b with
  | [], [] => true
  | x :: a', y :: b' => eqb x y && list_eqb eqb a' b'
  | _, _ => false
  end.

Definition zs_eqb := list_eqb Z.eqb.
Definition zss_eqb := list_eqb zs_eqb.
Definition ev_eqb (a b : ev) : bool :=
  Z.eqb (ek a) (ek b) && zs_eqb (ei a) (ei b) && zss_eqb (es a) (es b).
Definition evs_eqb := list_eqb ev_eqb.
Definition evss_eqb := list_eqb evs_eqb.

Lemma list_eqb_spec {A} (eqb : A -> A -> bool) :
  (forall x y, eqb x y = true <-> x = y) ->
  forall a b, list_eqb eqb a b = true <-> a = b.
Proof.
  intros He a; induction a as [|x a IH]; intros [|y b]; cbn; split; intro Hh;
    try reflexivity; try discriminate.
  - apply andb_true_iff in Hh as [H1 H2]. apply He in H1. apply IH in H2. congruence.
  - inversion Hh; subst. apply andb_true_iff; split; [apply He | apply IH]; reflexivity.
Qed.

Lemma zs_eqb_spec a b : zs_eqb a b = true <-> a = b.
Proof. apply list_eqb_spec. intros; apply Z.eqb_eq. Qed.
Lemma zss_eqb_spec a b : zss_eqb a b = true <-> a = b.
Proof. apply list_eqb_spec. apply zs_eqb_spec. Qed.
Lemma ev_eqb_spec a b : ev_eqb a b = true <-> a = b.
Proof.
  destruct a as [k i s], b as [k' i' s']; unfold ev_eqb; cbn; split; intro Hh.
  - apply andb_true_iff in Hh as [Hh H3]. apply andb_true_iff in Hh as [H1 H2].
    apply Z.eqb_eq in H1. apply zs_eqb_spec in H2. apply zss_eqb_spec in H3. congruence.
  - inversion Hh; subst. rewrite Z.eqb_refl.
    rewrite (proj2 (zs_eqb_spec i' i') eq_refl), (proj2 (zss_eqb_spec s' s') eq_refl). reflexivity.
Qed.
Lemma evs_eqb_spec a b : evs_eqb a b = true <-> a = b.
Proof. apply list_eqb_spec. apply ev_eqb_spec. Qed.
Lemma evss_eqb_spec a b : evss_eqb a b = true <-> a = b.
Proof. apply list_eqb_spec. apply evs_eqb_spec. Qed.

(* mismatch collection: [check c] returns the code of the first observable
   on which model and implementation differ, 0 when they agree *)
Definition collect {C} (cid : C -> Z) (check : C -> Z) (cs : list C) : list (Z * Z) :=
  flat_map (fun c => let r := check c in if Z.eqb r 0 then [] else [(cid c, r)]) cs.

