(* Observable types (re-exported from ObsCore, which the models and theorems use) plus the
   compact transport encoding of cases, which uses primitive 63-bit integers and is
   imported by the correspondence files only. *)
From Coq Require Import ZArith List Bool Uint63.
From Tally Require Export Base.ObsCore.
Import ListNotations.
Open Scope Z_scope.

(* ------------------------------------------------------------------ *)
(* Compact transport encoding of cases.  Elaborating a cases file costs
   time proportional to the number of term nodes, and a Z numeral is a
   dozen nodes where a primitive integer literal is one; so the harness
   writes primitive 63-bit integers only and the decoding below runs
   inside vm_compute.  Integers outside [0, 2^62) are escaped as
   (marker, high 32 bits, low 32 bits of the magnitude); byte strings are
   (length, 7 bytes per word, little endian). *)
Definition esc_pos : int := 4611686018427387904%uint63.
Definition esc_neg : int := 4611686018427387905%uint63.

Fixpoint dz (l : list int) : list Z :=
  match l with
  | [] => []
  | x :: r =>
      if Uint63.eqb x esc_pos then
        match r with
        | hi :: lo :: r' => (Uint63.to_Z hi * 4294967296 + Uint63.to_Z lo) :: dz r'
        | _ => []
        end
      else if Uint63.eqb x esc_neg then
        match r with
        | hi :: lo :: r' => (- (Uint63.to_Z hi * 4294967296 + Uint63.to_Z lo)) :: dz r'
        | _ => []
        end
      else Uint63.to_Z x :: dz r
  end.

Definition unpack7 (w : int) : list Z :=
  let z := Uint63.to_Z w in
  [z mod 256; (z / 256) mod 256; (z / 65536) mod 256; (z / 16777216) mod 256;
   (z / 4294967296) mod 256; (z / 1099511627776) mod 256; (z / 281474976710656) mod 256].

Definition db (p : int * list int) : bytes :=
  firstn (Z.to_nat (Uint63.to_Z (fst p))) (flat_map unpack7 (snd p)).

Record rev := REv { rk : int; ri : list int; rs : list (int * list int) }.
Definition dev (r : rev) : ev := Ev (Uint63.to_Z (rk r)) (dz (ri r)) (map db (rs r)).

(* the one case type every correspondence check uses: parameters, the input
   (operations / arguments, as events) and what the implementation was seen to do *)
Record gcase := GCase { gid : int; gpar : list int; gin : list rev; gobs : list rev }.
Definition gcid (c : gcase) : Z := Uint63.to_Z (gid c).
Definition gparams (c : gcase) : list Z := dz (gpar c).
Definition ginput (c : gcase) : list ev := map dev (gin c).
Definition gobserved (c : gcase) : list ev := map dev (gobs c).
Definition gcollect (check : gcase -> Z) := collect gcid check.
