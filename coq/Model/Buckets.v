(* Executable model of histogram bucketing (histogram.go: BucketPairs,
   copyAndSort*; stats.go: newBucketStorage, RecordValue, RecordDuration,
   histogram.report / cachedReport).

   float64 values are their 64-bit patterns (Z in [0, 2^64)); the IEEE order
   is a sign-magnitude key ([None] for NaN): comparisons are all false on
   NaN and -0 == +0.  Durations are int64 as Z. *)
From Coq Require Import ZArith List Bool Arith.
From Tally Require Import Base.Search.
Import ListNotations.
Open Scope Z_scope.

Definition SIGN : Z := 9223372036854775808.            (* 2^63 *)
Definition EXPM : Z := 9218868437227405312.            (* 0x7FF0000000000000 = +Inf *)
Definition MAXF : Z := 9218868437227405311.            (* math.MaxFloat64 *)
Definition NMAXF : Z := 18442240474082181119.          (* -math.MaxFloat64 *)
Definition PINF : Z := 9218868437227405312.
Definition NINF : Z := 18442240474082181120.
Definition MAXI : Z := 9223372036854775807.            (* math.MaxInt64 *)
Definition MINI : Z := -9223372036854775808.           (* math.MinInt64 *)

Definition fkey (b : Z) : option Z :=
  let mag := b mod SIGN in
  if EXPM <? mag then None
  else Some (if b <? SIGN then mag else - mag).

Definition flt (a b : Z) : bool :=                     (* Go's a < b on float64 *)
  match fkey a, fkey b with Some x, Some y => x <? y | _, _ => false end.
Definition fge (a b : Z) : bool :=                     (* Go's a >= b *)
  match fkey a, fkey b with Some x, Some y => y <=? x | _, _ => false end.
Definition feq (a b : Z) : bool :=                     (* Go's a == b *)
  match fkey a, fkey b with Some x, Some y => x =? y | _, _ => false end.

Inductive kind := KValue | KDuration.
Definition kind_eqb (a b : kind) : bool :=
  match a, b with KValue, KValue | KDuration, KDuration => true | _, _ => false end.

Definition lt_of (k : kind) : Z -> Z -> bool := match k with KValue => flt | KDuration => Z.ltb end.
Definition ge_of (k : kind) : Z -> Z -> bool := match k with KValue => fge | KDuration => Z.geb end.
Definition top (k : kind) : Z := match k with KValue => MAXF | KDuration => MAXI end.
Definition bottom (k : kind) : Z := match k with KValue => NMAXF | KDuration => MINI end.

(* sort.Sort on a copy: any correct sort; the model uses insertion sort *)
Fixpoint insert (lt : Z -> Z -> bool) (x : Z) (l : list Z) : list Z :=
  match l with
  | [] => [x]
  | y :: r => if lt y x then y :: insert lt x r else x :: y :: r
  end.
Definition isort (lt : Z -> Z -> bool) (l : list Z) : list Z := fold_right (insert lt) [] l.

(* upper bounds of the bucket pairs: the sorted specification, then the
   maximum; an empty specification gives the single all-covering bucket *)
Definition uppers (k : kind) (spec : list Z) : list Z :=
  match spec with
  | [] => [top k]
  | _ => isort (lt_of k) spec ++ [top k]
  end.

Definition lower (k : kind) (us : list Z) (i : nat) : Z :=
  match i with O => bottom k | S j => nth j us 0 end.

Definition pairs (k : kind) (spec : list Z) : list (Z * Z) :=
  let us := uppers k spec in
  map (fun i => (lower k us i, nth i us 0)) (seq 0 (length us)).

(* RecordValue / RecordDuration: idx := sort.Search(len, upper[i] >= v) *)
Definition search_idx (k : kind) (us : list Z) (v : Z) : nat :=
  sort_search (length us) (fun i => ge_of k (nth i us 0) v).

(* pinned tree: h.samples[idx] with idx = len panics (None) *)
Definition record_pinned (k : kind) (us : list Z) (v : Z) : option nat :=
  let i := search_idx k us v in if (i <? length us)%nat then Some i else None.
(* repaired tree: clamp to the last bucket *)
Definition record_idx (k : kind) (us : list Z) (v : Z) : nat :=
  let i := search_idx k us v in if (i <? length us)%nat then i else (length us - 1)%nat.

(* a histogram: kind, upper bounds, unreported sample count per bucket *)
Record hist := Hist { hk : kind; hus : list Z; hcnt : list Z }.

Definition hnew (k : kind) (spec : list Z) : hist :=
  let us := uppers k spec in Hist k us (repeat 0 (length us)).

Fixpoint bump (i : nat) (l : list Z) : list Z :=
  match l, i with
  | [], _ => []
  | c :: r, O => (c + 1) :: r
  | c :: r, S j => c :: bump j r
  end.

Inductive hop := HRec (k : kind) (v : Z) | HPass.

(* one report pass: (lower, upper, samples) of every bucket with samples, in
   bucket order; counts are reset *)
Definition deliveries (h : hist) : list (Z * Z * Z) :=
  flat_map (fun i => let c := nth i (hcnt h) 0 in
                     if c =? 0 then [] else [(lower (hk h) (hus h) i, nth i (hus h) 0, c)])
           (seq 0 (length (hus h))).

Definition hstep (h : hist) (o : hop) : hist * list (Z * Z * Z) :=
  match o with
  | HRec k v =>
      if kind_eqb k (hk h)
      then (Hist (hk h) (hus h) (bump (record_idx (hk h) (hus h) v) (hcnt h)), [])
      else (h, [])                                     (* type guard *)
  | HPass => (Hist (hk h) (hus h) (repeat 0 (length (hus h))), deliveries h)
  end.

(* run a history; result: the final histogram and the deliveries of each
   pass, in order *)
Fixpoint hrun (h : hist) (ops : list hop) : hist * list (list (Z * Z * Z)) :=
  match ops with
  | [] => (h, [])
  | o :: r => let '(h', d) := hstep h o in
              let '(hf, ds) := hrun h' r in
              match o with HPass => (hf, d :: ds) | _ => (hf, ds) end
  end.
