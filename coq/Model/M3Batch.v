(* Executable model of the size accounting and of the batching loop of the
   M3 reporter (m3/reporter.go), on top of the byte-exact model of the Thrift
   encoders (Model/Thrift.v, property C16).

     NewReporter        numOverheadBytes = _emitMetricBatchOverhead + calc(empty batch with the common tags)
                        freeBytes        = MaxPacketSizeBytes - numOverheadBytes          (int32 arithmetic)
     Allocate*          size = calculateSize(pre-built metric with maximal value and timestamp);
                        a histogram bucket is measured WITH the two tags (bucket id, bucket range)
                        that process() appends to its own tags when it is sent   [the repaired tree;
                        the pinned tree added the four string lengths instead: charge_pinned]
     Report*            queue the metric (value, timestamp of the reporter's clock) with that size
     Flush              queue a marker (after the reporter's own tally.internal.* metrics, which are
                        ordinary reports)
     process()          the batching loop over the queue; flush() sends one datagram per batch

   Everything int32 in the Go code is a Z here with an explicit wrap32. *)
From Coq Require Import ZArith List Bool.
From Tally Require Import Base.ObsCore Model.Varint Model.Thrift.
Import ListNotations.
Open Scope Z_scope.

Definition blen (s : bytes) : Z := Z.of_nat (length s).

(* A metric handle as Allocate{Counter,Gauge,Timer} / AllocateHistogram build it:
   kind 1 counter, 2 gauge, 3 timer (= m3thrift.MetricType); its own tags (None =
   nil slice: newMetric leaves Tags nil for an empty tag map; a histogram bucket
   always has a non-nil slice); for a histogram bucket the bucket id and the
   bucket range string. *)
Record alloc := Alloc { a_kind : Z; a_name : bytes; a_tags : option (list tag); a_bucket : option (bytes * bytes) }.

(* what the producers put on the channel *)
Inductive rop := Report (a : alloc) (v ts : Z) | Flush.
(* sizedMetric: a metric with its charged size, or the flush marker (set = false, size 0) *)
Inductive qitem := QMet (m : metric) (size : Z) | QFlush.

Section Reporter.
Variable P : proto.
Variable idn bn : bytes.   (* Options.HistogramBucketIDName, HistogramBucketName *)

Definition bucket_tags (b : bytes * bytes) : list tag := [Tag idn (fst b); Tag bn (snd b)].
Definition own_tags (o : option (list tag)) : list tag := match o with Some l => l | None => [] end.
(* process(): `tags = append(tags, m.Tags...); tags = append(tags, {idname, bucketID}, {bucketname, bucket})` *)
Definition wire_tags (a : alloc) : option (list tag) :=
  match a_bucket a with
  | None => a_tags a
  | Some b => Some (own_tags (a_tags a) ++ bucket_tags b)
  end.
(* the metric as it is appended to the batch *)
Definition wire (a : alloc) (v ts : Z) : metric := reported (a_kind a) (a_name a) (wire_tags a) v ts.

(* calculateSize / calculateBucketSize through the reporter's counting protocol
   object, which is in state pc *)
Definition charge (pc : PS P) (a : alloc) : Z :=
  calc_metric P pc (placeholder (a_kind a) (a_name a) (wire_tags a)).
(* the pinned tree: size of the metric with its own tags only, plus
   int32(len(idname) + len(bucketname) + len(bucketID) + len(bucket)) *)
Definition charge_pinned (pc : PS P) (a : alloc) : Z :=
  let own := calc_metric P pc (placeholder (a_kind a) (a_name a) (a_tags a)) in
  match a_bucket a with
  | None => own
  | Some b => wrap32 (own + wrap32 (blen idn + blen bn + blen (fst b) + blen (snd b)))
  end.

(* NewReporter *)
Definition empty_batch (common : list tag) : batch := Batch [] (Some common).
Definition num_overhead (pc : PS P) (ovh : Z) (common : list tag) : Z :=
  wrap32 (ovh + calc_batch P pc (empty_batch common)).
Definition free_bytes (pc : PS P) (ovh maxpkt : Z) (common : list tag) : Z :=
  wrap32 (maxpkt - num_overhead pc ovh common).

(* reportCopyMetric / Flush: the channel contents, for a charging function *)
Definition queue_of (chg : alloc -> Z) (ops : list rop) : list qitem :=
  map (fun o => match o with Report a v ts => QMet (wire a v ts) (chg a) | Flush => QFlush end) ops.
Definition reported_metrics (ops : list rop) : list metric :=
  flat_map (fun o => match o with Report a v ts => [wire a v ts] | Flush => [] end) ops.

(* flush(mets): nothing for an empty batch; [mets] is kept newest first here *)
Definition emit (mets : list metric) : list (list metric) :=
  match mets with [] => [] | _ => [rev_append mets []] end.
Definition nonempty {A} (l : list A) : bool := match l with [] => false | _ => true end.

(* process(): for smet := range r.metCh {
     flush := !smet.set && len(mets) > 0
     if flush || bytes+smet.size > r.freeBytes { mets = r.flush(mets); bytes = 0 }
     if !smet.set { continue }
     mets = append(mets, m); bytes += smet.size }
   r.flush(mets)                      -- when the channel is closed *)
Fixpoint process (free : Z) (mets : list metric) (bytes : Z) (q : list qitem) : list (list metric) :=
  match q with
  | [] => emit mets
  | it :: q' =>
      let sz := match it with QMet _ s => s | QFlush => 0 end in
      let marker := match it with QMet _ _ => false | QFlush => true end in
      let fl := (marker && nonempty mets) || (wrap32 (bytes + sz) >? free) in
      let out := if fl then emit mets else [] in
      let mets1 := if fl then [] else mets in
      let bytes1 := if fl then 0 else bytes in
      out ++ match it with
             | QFlush => process free mets1 bytes1 q'
             | QMet m s => process free (m :: mets1) (wrap32 (bytes1 + s)) q'
             end
  end.

(* the batches a reporter sends for a history of reports and flushes (then Close) *)
Definition emitted_with (chg : alloc -> Z) (free : Z) (ops : list rop) : list (list metric) :=
  process free [] 0 (queue_of chg ops).
Definition emitted (pc : PS P) (ovh maxpkt : Z) (common : list tag) (ops : list rop) : list (list metric) :=
  emitted_with (charge pc) (free_bytes pc ovh maxpkt common) ops.
Definition emitted_pinned (pc : PS P) (ovh maxpkt : Z) (common : list tag) (ops : list rop) : list (list metric) :=
  emitted_with (charge_pinned pc) (free_bytes pc ovh maxpkt common) ops.

(* flush(): client.EmitMetricBatchV2(MetricBatch{Metrics: mets, CommonTags: r.commonTags}) through the
   sending protocol object (state pw) with the client's next sequence id: one datagram *)
Definition datagram (pw : PS P) (seq : Z) (common : list tag) (mets : list metric) : bytes :=
  encode_emit P pw seq (Batch mets (Some common)).
(* M3Client.SeqId is an int32 incremented before every send *)
Fixpoint datagrams (pw : PS P) (seq : Z) (common : list tag) (bs : list (list metric)) : list bytes :=
  match bs with
  | [] => []
  | b :: r => let s := wrap32 (seq + 1) in datagram pw s common b :: datagrams pw s common r
  end.

(* total encoded length of the metrics of a batch *)
Definition sum_len (ms : list metric) : Z :=
  fold_right (fun m a => Z.of_nat (length (e_metric P m)) + a) 0 ms.
End Reporter.
