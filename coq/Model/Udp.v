(* Executable model of m3/thriftudp: TUDPTransport (transport.go) and
   TMultiUDPTransport (multitransport.go), and of the way the generated client
   (m3/thrift/v2/m3.go, sendEmitMetricBatchV2) and reporter.flush use them.

   [step]/[mstep]/[emit] describe the behaviour property C15 demands (the
   repaired code, patches/fix-C15-stale-prefix.patch): a write that does not
   fit drops the message being assembled and poisons it, every further write
   is refused until the next Flush, and that Flush sends nothing.
   [pstep]/[pmstep]/[pemit] are the pinned tree: the refused write leaves the
   prefix buffered, the multi transport stops at the first error, the reporter
   does nothing on its error path.

   The socket is an oracle: Flush carries "does conn.Write succeed", Close
   carries "does conn.Close succeed".  L is thriftudp.MaxLength. *)
From Coq Require Import ZArith List Bool.
From Tally Require Import Base.ObsCore.
Import ListNotations.
Open Scope Z_scope.

Definition zlen {A} (l : list A) : Z := Z.of_nat (length l).

Record tr := Tr { buf : bytes; closed : bool; poisoned : bool }.

Definition fresh : tr := Tr [] false false.

Inductive op :=
| Write (bs : bytes)
| WriteByte (b : Z)
| WriteString (s : bytes)
| Flush (send_ok : bool)
| Close (close_ok : bool)
| IsOpen
| RemainingBytes
| Read.                  (* modelled for a closed transport only (open: blocks on the socket) *)

Inductive res :=
| Ok
| ErrNotOpen             (* "Connection not open" *)
| ErrTooBig              (* the write does not fit: refused *)
| ErrPoisoned            (* the message already had a refused write *)
| ErrSend                (* conn.Write failed *)
| ErrClose               (* conn.Close failed *)
| ErrUnsupported         (* multi transport: Read *)
| IsOpenIs (b : bool)
| Remaining (n : Z).

Definition max_u64 : Z := 18446744073709551615.

Definition opt {A} (o : option A) : list A := match o with Some x => [x] | None => [] end.

(* one buffered write of [bs] *)
Definition wr (L : Z) (t : tr) (bs : bytes) : tr * res * option bytes :=
  if closed t then (t, ErrNotOpen, None)
  else if poisoned t then (Tr [] false true, ErrPoisoned, None)
  else if L <? zlen (buf t) + zlen bs then (Tr [] false true, ErrTooBig, None)
  else (Tr (buf t ++ bs) false false, Ok, None).

(* result = (new state, what the call returns, datagram delivered to the socket's peer) *)
Definition step (L : Z) (t : tr) (o : op) : tr * res * option bytes :=
  match o with
  | Write bs => wr L t bs
  | WriteByte b => wr L t [b]
  | WriteString s => wr L t s
  | Flush ok =>
      if closed t then (t, ErrNotOpen, None)
      else if poisoned t then (Tr [] false false, ErrPoisoned, None)
      else (Tr [] false false, (if ok then Ok else ErrSend), (if ok then Some (buf t) else None))
  | Close cok =>
      if closed t then (t, Ok, None)
      else (Tr (buf t) true (poisoned t), (if cok then Ok else ErrClose), None)
  | IsOpen => (t, IsOpenIs (negb (closed t)), None)
  | RemainingBytes => (t, Remaining max_u64, None)
  | Read => if closed t then (t, ErrNotOpen, None) else (t, Ok, None)
  end.

(* the pinned tree: no poisoning, the refused write leaves the prefix where it is *)
Definition pwr (L : Z) (t : tr) (bs : bytes) : tr * res * option bytes :=
  if closed t then (t, ErrNotOpen, None)
  else if L <? zlen (buf t) + zlen bs then (t, ErrTooBig, None)
  else (Tr (buf t ++ bs) false false, Ok, None).

Definition pstep (L : Z) (t : tr) (o : op) : tr * res * option bytes :=
  match o with
  | Write bs => pwr L t bs
  | WriteByte b => pwr L t [b]
  | WriteString s => pwr L t s
  | Flush ok =>
      if closed t then (t, ErrNotOpen, None)
      else (Tr [] false false, (if ok then Ok else ErrSend), (if ok then Some (buf t) else None))
  | _ => step L t o
  end.

Definition st1 L t o := fst (fst (step L t o)).
Definition res1 L t o := snd (fst (step L t o)).
Definition out1 L t o := snd (step L t o).

(* a history of calls: final state, what each call returned, datagrams delivered *)
Fixpoint st (L : Z) (t : tr) (ops : list op) : tr :=
  match ops with [] => t | o :: r => st L (st1 L t o) r end.
Fixpoint rs (L : Z) (t : tr) (ops : list op) : list res :=
  match ops with [] => [] | o :: r => res1 L t o :: rs L (st1 L t o) r end.
Fixpoint ds (L : Z) (t : tr) (ops : list op) : list bytes :=
  match ops with [] => [] | o :: r => opt (out1 L t o) ++ ds L (st1 L t o) r end.

(* the same for an arbitrary step function (used for the pinned tree) *)
Fixpoint gst (f : tr -> op -> tr * res * option bytes) (t : tr) (ops : list op) : tr :=
  match ops with [] => t | o :: r => gst f (fst (fst (f t o))) r end.
Fixpoint gds (f : tr -> op -> tr * res * option bytes) (t : tr) (ops : list op) : list bytes :=
  match ops with [] => [] | o :: r => opt (snd (f t o)) ++ gds f (fst (fst (f t o))) r end.
Fixpoint grs (f : tr -> op -> tr * res * option bytes) (t : tr) (ops : list op) : list res :=
  match ops with [] => [] | o :: r => snd (fst (f t o)) :: grs f (fst (fst (f t o))) r end.

(* ------------------------------------------------------------------ *)
(* TMultiUDPTransport: a list of transports.                            *)

Inductive mop :=
| MWrite (bs : bytes)
| MFlush (oks : list bool)       (* send oracle per destination (missing = true) *)
| MClose (coks : list bool)      (* close oracle per destination (missing = true) *)
| MIsOpen
| MRemaining
| MRead.

Fixpoint first_err (l : list res) : res :=
  match l with
  | [] => Ok
  | Ok :: r => first_err r
  | e :: _ => e
  end.

(* what destination 0 sees of a call on the multi transport, and the call as
   seen by the remaining destinations *)
Definition hd_op (m : mop) : op :=
  match m with
  | MWrite bs => Write bs
  | MFlush oks => Flush (hd true oks)
  | MClose coks => Close (hd true coks)
  | MIsOpen => IsOpen
  | MRemaining => RemainingBytes
  | MRead => Read
  end.
Definition tl_op (m : mop) : mop :=
  match m with
  | MFlush oks => MFlush (tl oks)
  | MClose coks => MClose (tl coks)
  | _ => m
  end.

(* Write and Flush are performed on every destination, also after one of them
   failed; the first error is returned *)
Fixpoint mall (L : Z) (ts : list tr) (m : mop) : list (tr * res * option bytes) :=
  match ts with
  | [] => []
  | t :: r => step L t (hd_op m) :: mall L r (tl_op m)
  end.

(* Close stops at the first destination whose Close fails *)
Fixpoint mclose (L : Z) (ts : list tr) (coks : list bool) : list tr * res :=
  match ts with
  | [] => ([], Ok)
  | t :: r =>
      let '(t', x, _) := step L t (Close (hd true coks)) in
      match x with
      | Ok => let '(r', y) := mclose L r (tl coks) in (t' :: r', y)
      | _ => (t' :: r, x)
      end
  end.

Record mresult := MR { mts : list tr; mres : res; mwritten : Z; mouts : list (option bytes) }.

Definition mstep (L : Z) (ts : list tr) (m : mop) : mresult :=
  match m with
  | MWrite bs =>
      let xs := mall L ts m in
      let errs := map (fun x => snd (fst x)) xs in
      (* n = the largest count returned before the first error *)
      MR (map (fun x => fst (fst x)) xs) (first_err errs)
         (match errs with Ok :: _ => zlen bs | _ => 0 end) (map snd xs)
  | MFlush _ =>
      let xs := mall L ts m in
      MR (map (fun x => fst (fst x)) xs) (first_err (map (fun x => snd (fst x)) xs)) 0 (map snd xs)
  | MClose coks =>
      let '(ts', x) := mclose L ts coks in MR ts' x 0 (map (fun _ => None) ts)
  | MIsOpen => MR ts (IsOpenIs (forallb (fun t => negb (closed t)) ts)) 0 (map (fun _ => None) ts)
  | MRemaining => MR ts (Remaining 0) 0 (map (fun _ => None) ts)
  | MRead => MR ts ErrUnsupported 0 (map (fun _ => None) ts)
  end.

(* the pinned multi transport: Write and Flush return at the first error, the
   remaining destinations are not called *)
Fixpoint pmall (L : Z) (ts : list tr) (m : mop) : list (tr * res * option bytes) :=
  match ts with
  | [] => []
  | t :: r =>
      let x := pstep L t (hd_op m) in
      match snd (fst x) with
      | Ok => x :: pmall L r (tl_op m)
      | _ => x :: map (fun t' => (t', Ok, None)) r
      end
  end.

Definition pmstep (L : Z) (ts : list tr) (m : mop) : mresult :=
  match m with
  | MWrite bs =>
      let xs := pmall L ts m in
      let errs := map (fun x => snd (fst x)) xs in
      MR (map (fun x => fst (fst x)) xs) (first_err errs)
         (match errs with Ok :: _ => zlen bs | _ => 0 end) (map snd xs)
  | MFlush _ =>
      let xs := pmall L ts m in
      MR (map (fun x => fst (fst x)) xs) (first_err (map (fun x => snd (fst x)) xs)) 0 (map snd xs)
  | _ => mstep L ts m
  end.

Fixpoint mst (L : Z) (ts : list tr) (ms : list mop) : list tr :=
  match ms with [] => ts | m :: r => mst L (mts (mstep L ts m)) r end.
Fixpoint mrs (L : Z) (ts : list tr) (ms : list mop) : list res :=
  match ms with [] => [] | m :: r => mres (mstep L ts m) :: mrs L (mts (mstep L ts m)) r end.
(* per call: what each destination received *)
Fixpoint mos (L : Z) (ts : list tr) (ms : list mop) : list (list (option bytes)) :=
  match ms with [] => [] | m :: r => mouts (mstep L ts m) :: mos L (mts (mstep L ts m)) r end.

Fixpoint gmst (f : list tr -> mop -> mresult) (ts : list tr) (ms : list mop) : list tr :=
  match ms with [] => ts | m :: r => gmst f (mts (f ts m)) r end.
Fixpoint gmos (f : list tr -> mop -> mresult) (ts : list tr) (ms : list mop) : list (list (option bytes)) :=
  match ms with [] => [] | m :: r => mouts (f ts m) :: gmos f (mts (f ts m)) r end.

(* the datagrams destination i received over a history *)
Definition dest_ds (i : nat) (outs : list (list (option bytes))) : list bytes :=
  flat_map (fun row => opt (nth i row None)) outs.

(* ------------------------------------------------------------------ *)
(* The generated client and the reporter's flush.  A batch reaches the
   transport as a sequence of chunks (the protocol's writes); the client stops
   at the first failed write WITHOUT flushing, and flushes after the last
   chunk.  On any error the (repaired) reporter flushes the transport to end
   the message; the pinned reporter only counts the error. *)

Fixpoint send_chunks (f : tr -> op -> tr * res * option bytes) (t : tr) (chunks : list bytes) : tr * bool :=
  match chunks with
  | [] => (t, true)
  | c :: r =>
      let '(t', x, _) := f t (Write c) in
      match x with Ok => send_chunks f t' r | _ => (t', false) end
  end.

(* one batch: (chunks, does the send succeed, does the error-path flush's send succeed) *)
Definition batch := (list bytes * bool * bool)%type.

Definition emit_with (f : tr -> op -> tr * res * option bytes) (recover : bool) (t : tr) (b : batch)
  : tr * bool * list bytes :=
  let '(chunks, ok, ok2) := b in
  let '(t1, written) := send_chunks f t chunks in
  if written then
    let '(t2, x, d) := f t1 (Flush ok) in
    match x with
    | Ok => (t2, true, opt d)
    | _ => if recover then let '(t3, _, d') := f t2 (Flush ok2) in (t3, false, opt d ++ opt d')
           else (t2, false, opt d)
    end
  else if recover then let '(t3, _, d') := f t1 (Flush ok2) in (t3, false, opt d')
  else (t1, false, []).

Definition emit (L : Z) := emit_with (step L) true.
Definition pemit (L : Z) := emit_with (pstep L) false.

Fixpoint emits (e : tr -> batch -> tr * bool * list bytes) (t : tr) (bs : list batch) : tr * list bool * list bytes :=
  match bs with
  | [] => (t, [], [])
  | b :: r =>
      let '(t1, okb, d) := e t b in
      let '(t2, oks, d2) := emits e t1 r in
      (t2, okb :: oks, d ++ d2)
  end.
