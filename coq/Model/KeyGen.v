(* Executable model of key_gen.go: the canonical key of a prefix and a series
   of tag maps (keyForPrefixedStringMapsAsKey, insertionSort) and the public
   KeyForPrefixedStringMap / KeyForStringMap.

   Byte strings are [list Z]; Go's [<] on strings is the lexicographic order
   on bytes ([blt]).  A Go map is an association list; the order of the list
   is the (unspecified) enumeration order of [for k := range m]; well-formed
   maps have distinct keys ([wf_map]) and every theorem is invariant under
   permuting each list (C05_key_perm_invariant).

   The three delimiters are taken from Gen/Params.v, which is regenerated from
   the Go source on every run; Proof/ParamsOkKey.v proves them pairwise
   distinct, which is all the theorems need.

   [key] is the REPAIRED code (patches/fix-C05-empty-key.patch: "first key" is
   decided by the index, not by [len(lastKey) > 0]); [key_pinned] is the code
   of the pinned tree, kept for the refutations. *)
From Coq Require Import ZArith List Bool.
From Tally Require Import Base.ObsCore Gen.Params.
Import ListNotations.
Open Scope Z_scope.

Definition PLUS : Z := key_prefix_splitter.   (* prefixSplitter  '+' *)
Definition COMMA : Z := key_pair_splitter.    (* keyPairSplitter ',' *)
Definition EQS : Z := key_name_splitter.      (* keyNameSplitter '=' *)

(* Go: a < b on strings *)
Fixpoint blt (a b : bytes) : bool :=
  match a, b with
  | _, [] => false
  | [], _ :: _ => true
  | x :: a', y :: b' => (x <? y) || ((x =? y) && blt a' b')
  end.

Definition beq (a b : bytes) : bool := zs_eqb a b.

Definition smap := list (bytes * bytes).

(* m[k] *)
Fixpoint lookup (k : bytes) (m : smap) : option bytes :=
  match m with
  | [] => None
  | (k', v) :: r => if beq k k' then Some v else lookup k r
  end.

Definition wf_map (m : smap) : Prop := NoDup (map fst m).

(* for _, m := range maps { for k := range m { keys = append(keys, k) } } *)
Definition keys_of (maps : list smap) : list bytes := flat_map (map fst) maps.

(* insertionSort: element i is moved to the left while it is smaller than its
   left neighbour.  [rl] is the already sorted part keys[0..i) held in reverse
   (head = keys[i-1]). *)
Fixpoint ins (x : bytes) (rl : list bytes) : list bytes :=
  match rl with
  | [] => [x]
  | y :: r => if blt x y then y :: ins x r else x :: rl
  end.
Definition isort (keys : list bytes) : list bytes :=
  List.rev (fold_left (fun acc x => ins x acc) keys []).

(* for j := len(maps)-1; j >= 0; j-- { if v, ok := maps[j][k]; ok { write v; break } }
   [rmaps] is the list of maps reversed; nothing is written when no map has k *)
Fixpoint value_of (k : bytes) (rmaps : list smap) : bytes :=
  match rmaps with
  | [] => []
  | m :: r => match lookup k m with Some v => v | None => value_of k r end
  end.

(* the write loop of the repaired code; [last] = None before the first key *)
Fixpoint kwrite (rmaps : list smap) (last : option bytes) (keys : list bytes) : bytes :=
  match keys with
  | [] => []
  | k :: r =>
      match last with
      | Some l =>
          if beq k l then kwrite rmaps last r
          else COMMA :: k ++ EQS :: value_of k rmaps ++ kwrite rmaps (Some k) r
      | None => k ++ EQS :: value_of k rmaps ++ kwrite rmaps (Some k) r
      end
  end.

Definition kprefix (p : bytes) : bytes :=
  match p with [] => [] | _ => p ++ [PLUS] end.

(* keyForPrefixedStringMaps(prefix, maps...) *)
Definition key (p : bytes) (maps : list smap) : bytes :=
  kprefix p ++ kwrite (List.rev maps) None (isort (keys_of maps)).

(* KeyForPrefixedStringMap / KeyForStringMap *)
Definition key_for_prefixed_string_map (p : bytes) (m : smap) : bytes := key p [m].
Definition key_for_string_map (m : smap) : bytes := key [] [m].

(* the pinned tree: [if len(lastKey) > 0 { if k == lastKey {continue}; write ',' }] *)
Fixpoint kwrite_pinned (rmaps : list smap) (last : bytes) (keys : list bytes) : bytes :=
  match keys with
  | [] => []
  | k :: r =>
      match last with
      | _ :: _ =>
          if beq k last then kwrite_pinned rmaps last r
          else COMMA :: k ++ EQS :: value_of k rmaps ++ kwrite_pinned rmaps k r
      | [] => k ++ EQS :: value_of k rmaps ++ kwrite_pinned rmaps k r
      end
  end.
Definition key_pinned (p : bytes) (maps : list smap) : bytes :=
  kprefix p ++ kwrite_pinned (List.rev maps) [] (isort (keys_of maps)).

(* ---- specification vocabulary ---- *)

(* effective binding of k in a series of maps: the rightmost map holding k *)
Fixpoint eff_r (rmaps : list smap) (k : bytes) : option bytes :=
  match rmaps with
  | [] => None
  | m :: r => match lookup k m with Some v => Some v | None => eff_r r k end
  end.
Definition eff (maps : list smap) (k : bytes) : option bytes := eff_r (List.rev maps) k.

(* m[k] = v, replacing or appending: the Go statement result[k] = v *)
Fixpoint set_tag (k v : bytes) (m : smap) : smap :=
  match m with
  | [] => [(k, v)]
  | (k', v') :: r => if beq k k' then (k, v) :: r else (k', v') :: set_tag k v r
  end.

(* mergeRightTags: copy the left map, then assign every binding of the right one *)
Definition overlay (l r : smap) : smap :=
  fold_left (fun acc kv => set_tag (fst kv) (snd kv) acc) r l.
Definition merge (maps : list smap) : smap := fold_left overlay maps [].

(* two maps denote the same tag set *)
Definition tags_eq (a b : smap) : Prop := forall k, lookup k a = lookup k b.

(* canonical form: sorted keys, each once *)
Fixpoint dedup (last : option bytes) (keys : list bytes) : list bytes :=
  match keys with
  | [] => []
  | k :: r =>
      match last with
      | Some l => if beq k l then dedup last r else k :: dedup (Some k) r
      | None => k :: dedup (Some k) r
      end
  end.
Definition canon_keys (maps : list smap) : list bytes := dedup None (isort (keys_of maps)).

Definition item (kv : bytes * bytes) : bytes := fst kv ++ EQS :: snd kv.
Fixpoint join (l : list bytes) : bytes :=
  match l with
  | [] => []
  | [x] => x
  | x :: rest => x ++ COMMA :: join rest
  end.
Definition opt_bytes (o : option bytes) : bytes := match o with Some v => v | None => [] end.
Definition canon (maps : list smap) : smap :=
  map (fun k => (k, opt_bytes (eff maps k))) (canon_keys maps).
Definition key_spec (p : bytes) (maps : list smap) : bytes :=
  kprefix p ++ join (map item (canon maps)).

(* strictly increasing *)
Fixpoint ssorted (l : list bytes) : Prop :=
  match l with
  | [] => True
  | x :: r => match r with [] => True | y :: _ => blt x y = true end /\ ssorted r
  end.
