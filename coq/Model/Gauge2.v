(* Gauge model with the delivery split from the load (C02).

   Model/Gauge.v takes "load curr; deliver" as one step, so its log is the order of the LOADS.  In
   the code the value is loaded (g.value()) and then handed to the reporter, which records it some
   time later: a pass parked inside the user's reporter after its load can surface its value after a
   fresher one.  Here the reporting thread has a third state, [R2Deliver n v]: the value is in its
   hands; [loads] is the log of Model/Gauge.v, [dlog] is what the reporter has received, in the order
   in which it received it.  Erasing the third state gives back Model/Gauge.v step for step
   (Proof/Gauge2P.v: base_run), so everything proved there carries over to [loads]. *)
From Coq Require Import ZArith List Bool Arith.
From Tally Require Import Model.Gauge.
Import ListNotations.

Inductive rpc2 := R2Idle (passes : nat) | R2Load (passes : nat) | R2Deliver (passes : nat) (v : Z).
Inductive thread2 := T2U (pc : upc) | T2R (pc : rpc2).

Record sys2 := { curr2 : Z; updated2 : bool; loads : list Z; dlog : list Z (* newest first *);
                 stored2 : list Z; flags2 : nat; thr2 : list thread2 }.

Definition set_thr2 s i t :=
  {| curr2 := curr2 s; updated2 := updated2 s; loads := loads s; dlog := dlog s; stored2 := stored2 s;
     flags2 := flags2 s; thr2 := upd (thr2 s) i t |}.

Definition step2 (s : sys2) (i : nat) : sys2 :=
  match nth_error (thr2 s) i with
  | Some (T2U (UIdle (v :: rest))) =>
      set_thr2 {| curr2 := v; updated2 := updated2 s; loads := loads s; dlog := dlog s; stored2 := v :: stored2 s;
                  flags2 := flags2 s; thr2 := thr2 s |} i (T2U (UFlag rest))
  | Some (T2U (UFlag rest)) =>
      set_thr2 {| curr2 := curr2 s; updated2 := true; loads := loads s; dlog := dlog s; stored2 := stored2 s;
                  flags2 := S (flags2 s); thr2 := thr2 s |} i (T2U (UIdle rest))
  | Some (T2R (R2Idle (S n))) =>
      if updated2 s
      then set_thr2 {| curr2 := curr2 s; updated2 := false; loads := loads s; dlog := dlog s; stored2 := stored2 s;
                       flags2 := flags2 s; thr2 := thr2 s |} i (T2R (R2Load n))
      else set_thr2 s i (T2R (R2Idle n))
  | Some (T2R (R2Load n)) =>
      set_thr2 {| curr2 := curr2 s; updated2 := updated2 s; loads := curr2 s :: loads s; dlog := dlog s;
                  stored2 := stored2 s; flags2 := flags2 s; thr2 := thr2 s |} i (T2R (R2Deliver n (curr2 s)))
  | Some (T2R (R2Deliver n v)) =>
      set_thr2 {| curr2 := curr2 s; updated2 := updated2 s; loads := loads s; dlog := v :: dlog s;
                  stored2 := stored2 s; flags2 := flags2 s; thr2 := thr2 s |} i (T2R (R2Idle n))
  | _ => s
  end.

Definition run2 s sched := fold_left step2 sched s.
Definition init2 ths :=
  {| curr2 := 0; updated2 := false; loads := []; dlog := []; stored2 := []; flags2 := 0; thr2 := ths |}.

(* erasure to Model/Gauge.v *)
Definition erase (t : thread2) : thread :=
  match t with
  | T2U pc => TU pc
  | T2R (R2Idle n) => TR (RIdle n)
  | T2R (R2Load n) => TR (RLoad n)
  | T2R (R2Deliver n _) => TR (RIdle n)
  end.

Definition base (s : sys2) : sys :=
  {| curr := curr2 s; updated := updated2 s; log := loads s; stored := stored2 s; flags := flags2 s;
     thr := map erase (thr2 s) |}.

Definition delivering (t : thread2) : bool :=
  match t with T2R (R2Deliver _ _) => true | _ => false end.

(* the schedule of the erased run: the delivery steps drop out *)
Fixpoint bsched (s : sys2) (sched : list nat) : list nat :=
  match sched with
  | [] => []
  | i :: r =>
      match nth_error (thr2 s) i with
      | Some t => if delivering t then bsched (step2 s i) r else i :: bsched (step2 s i) r
      | None => i :: bsched (step2 s i) r
      end
  end.

Definition init_thr2 (t : thread2) : bool :=
  match t with T2U (UIdle _) => true | T2R (R2Idle _) => true | _ => false end.
