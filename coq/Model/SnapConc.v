(* Snapshots concurrent with recording (C11: "snapshots taken at arbitrary points, also concurrently
   with recording").

   Recorders and snapshot walks interleave at the granularity of the code's critical sections:
   - a recording is three steps: the caller announces it (ghost counter [started], the harness's
     started.Add), the metric takes the value (one atomic effect: the counter's or histogram bucket's
     atomic add, the timer's append under its lock), the caller notes its completion (ghost
     counter [done_], the harness's done.Add);
   - a snapshot walk is: begin (the ghost bound [lo] := done_ is captured), one point-in-time read
     per metric it visits, in any order (the copy taken under the metric's lock), end (the ghost
     bound [hi] := started is captured).
   The state of a metric is the log of the values recorded into it, newest first: a counter's value
   is the sum of the log, a timer's values are the log in order; a histogram is one metric per
   bucket (a sample is one atomic add on the bucket C03 assigns it to, a snapshot reads the buckets
   one by one), so the bound on a histogram's total is the sum of the per-bucket bounds.  A
   statement about the log thus covers all kinds. *)
From Coq Require Import List ZArith Arith Bool.
Import ListNotations.

Definition key := nat.

Inductive thr :=
| TRec (pc : nat) (todo : list (key * Z))
| TSnap (ph : nat) (todo : list key) (lo : key -> nat) (got : list (key * list Z)) (hi : key -> nat).

Record st := mkSt {
  mets : key -> list Z;
  started : key -> nat;
  done_ : key -> nat;
  thrs : list thr }.

Definition fupd {A} (f : key -> A) (k : key) (v : A) : key -> A :=
  fun x => if Nat.eqb x k then v else f x.

Fixpoint set_nth {A} (i : nat) (x : A) (l : list A) : list A :=
  match l, i with
  | [], _ => []
  | _ :: r, O => x :: r
  | y :: r, S j => y :: set_nth j x r
  end.

Definition zero : key -> nat := fun _ => 0.

Definition step (s : st) (i : nat) : st :=
  match nth_error (thrs s) i with
  | Some (TRec 0 ((k, d) :: r)) =>
      mkSt (mets s) (fupd (started s) k (S (started s k))) (done_ s)
           (set_nth i (TRec 1 ((k, d) :: r)) (thrs s))
  | Some (TRec 1 ((k, d) :: r)) =>
      mkSt (fupd (mets s) k (d :: mets s k)) (started s) (done_ s)
           (set_nth i (TRec 2 ((k, d) :: r)) (thrs s))
  | Some (TRec 2 ((k, d) :: r)) =>
      mkSt (mets s) (started s) (fupd (done_ s) k (S (done_ s k)))
           (set_nth i (TRec 0 r) (thrs s))
  | Some (TSnap 0 todo _ _ hi) =>
      mkSt (mets s) (started s) (done_ s) (set_nth i (TSnap 1 todo (done_ s) [] hi) (thrs s))
  | Some (TSnap 1 (k :: r) lo got hi) =>
      mkSt (mets s) (started s) (done_ s) (set_nth i (TSnap 1 r lo ((k, mets s k) :: got) hi) (thrs s))
  | Some (TSnap 1 [] lo got _) =>
      mkSt (mets s) (started s) (done_ s) (set_nth i (TSnap 2 [] lo got (started s)) (thrs s))
  | _ => s
  end.

Definition run (s : st) (sched : list nat) : st := fold_left step sched s.

(* initial threads: recorders with their programs, walks with the metrics they will visit *)
Definition init_thr (t : thr) : bool :=
  match t with
  | TRec 0 _ => true
  | TSnap 0 _ _ [] _ => true
  | _ => false
  end.

Definition init (ths : list thr) : st := mkSt (fun _ => []) zero zero ths.

(* what a counter / a timer shows for a log *)
Definition csum (l : list Z) : Z := fold_right Z.add 0%Z l.
