(* Lock layer of package tally (scope.go, scope_registry.go, stats.go).

   Two levels:

   1. [sk]: the lock SKELETON of a Go function, produced from the source on every run by
      the translator harness/lockx (Gen/LockSkel.v): lock classes (struct type + field of a
      sync.RWMutex / sync.Mutex), acquisitions, releases, sync.WaitGroup.Wait, returns,
      branches, loops and calls; everything else is erased.  [chk] is an executable checker
      that every acquisition happens while only locks of strictly smaller rank are held,
      that every release is of a held lock, that Wait is called with nothing held and that
      a function returns with what it was entered with.

   2. [sys]: any number of goroutines, each with the (instance-level) lock operations it
      is going to perform, under the semantics of Go's sync.RWMutex as implemented (readerCount /
      readerWait / the two semaphores): Lock first takes the writers' mutex and announces itself
      (from then on arriving readers queue: writer preference), then waits until the readers it
      found are gone; Unlock wakes every queued reader; a wake-up is anonymous and may be consumed by
      a reader arriving later; WaitGroup.Wait blocks until its target goroutines have finished.
      Corr/LocksCorr.v compares this semantics step by step with the sync package in use. *)
From Coq Require Import List Bool Arith.
Import ListNotations.

Inductive mode := R | W.
Definition mode_eqb (a b : mode) : bool :=
  match a, b with R, R | W, W => true | _, _ => false end.

(* ---------- level 2: goroutines and RWMutex semantics (lock instances) ---------- *)

Inductive gop :=
| GAcq (m : mode) (l : nat)      (* RLock / Lock on lock instance l *)
| GRel (m : mode) (l : nat)      (* RUnlock / Unlock *)
| GWait (js : list nat)          (* wg.Wait(): until the goroutines js have finished *)
| GUse (w : bool) (l : nat).     (* an access (w: a write) to data guarded by lock instance l *)

(* ann: the goroutine has called Lock / RLock and is registered as waiting: a writer holds the
   writers' mutex and has announced itself to the readers; a reader found a writer present, has
   been counted and sleeps on the readers' semaphore (it is "queued") *)
Record th := { todo : list gop; held : list (mode * nat); ann : bool }.
(* gr l: wake-ups of the readers' semaphore of lock l that have not been consumed yet.  Unlock
   releases one per queued reader; they are anonymous: a reader that arrives while the next writer
   is already announced may consume one ("barging"), the reader it was meant for then sleeps on *)
Record sys := { ths : list th; gr : nat -> nat }.

Definition holds (m : mode) (l : nat) (t : th) : bool :=
  existsb (fun h => mode_eqb (fst h) m && Nat.eqb (snd h) l) (held t).
Definition holds_any (l : nat) (t : th) : bool := existsb (fun h => Nat.eqb (snd h) l) (held t).
Definition announced (l : nat) (t : th) : bool :=
  ann t && match todo t with GAcq W l' :: _ => Nat.eqb l l' | _ => false end.
Definition queued (l : nat) (t : th) : bool :=
  ann t && match todo t with GAcq R l' :: _ => Nat.eqb l l' | _ => false end.
Definition writer (l : nat) (t : th) : bool := holds W l t || announced l t.

Fixpoint anyother_from (i : nat) (s : list th) (k : nat) (p : th -> bool) : bool :=
  match s with
  | [] => false
  | t :: r => (negb (Nat.eqb i k) && p t) || anyother_from (S i) r k p
  end.
Definition anyother (s : list th) (k : nat) (p : th -> bool) : bool := anyother_from 0 s k p.

Definition nq (s : list th) (l : nat) : nat := length (filter (queued l) s).

Definition finished (s : sys) (j : nat) : bool :=
  match nth_error (ths s) j with Some u => match todo u with [] => true | _ => false end | None => true end.

Definition enabled (s : sys) (k : nat) : bool :=
  match nth_error (ths s) k with
  | None => false
  | Some t =>
    match todo t with
    | [] => false
    | GAcq R l :: _ => if ann t then Nat.ltb 0 (gr s l) else true   (* an arriving reader gets in or queues *)
    | GAcq W l :: _ =>
        if ann t then negb (anyother (ths s) k (holds_any l)) && Nat.eqb (gr s l) 0
        else negb (anyother (ths s) k (writer l))
    | GRel _ _ :: _ => true
    | GWait js :: _ => forallb (finished s) js
    | GUse _ _ :: _ => true
    end
  end.

Fixpoint remove1 (m : mode) (l : nat) (h : list (mode * nat)) : list (mode * nat) :=
  match h with
  | [] => []
  | x :: r => if mode_eqb (fst x) m && Nat.eqb (snd x) l then r else x :: remove1 m l r
  end.

Fixpoint upd {A} (l : list A) (i : nat) (x : A) : list A :=
  match l, i with
  | [], _ => []
  | _ :: t, O => x :: t
  | h :: t, S i' => h :: upd t i' x
  end.

Definition setg (g : nat -> nat) (l v : nat) : nat -> nat := fun x => if Nat.eqb x l then v else g x.

(* the goroutine's own part of a step; [direct]: an arriving reader gets in (no writer present, or
   it consumes a wake-up), otherwise it queues *)
Definition step_th (direct : bool) (t : th) : th :=
  match todo t with
  | [] => t
  | GAcq R l :: r => if ann t || direct then {| todo := r; held := (R, l) :: held t; ann := false |}
                     else {| todo := todo t; held := held t; ann := true |}
  | GAcq W l :: r => if ann t then {| todo := r; held := (W, l) :: held t; ann := false |}
                     else {| todo := todo t; held := held t; ann := true |}
  | GRel m l :: r => {| todo := r; held := remove1 m l (held t); ann := ann t |}
  | GWait _ :: r => {| todo := r; held := held t; ann := ann t |}
  | GUse _ _ :: r => {| todo := r; held := held t; ann := ann t |}
  end.

(* the schedule names a goroutine; a blocked goroutine does not move *)
Definition step (s : sys) (k : nat) : sys :=
  if enabled s k then
    match nth_error (ths s) k with
    | None => s
    | Some t =>
      match todo t with
      | GAcq R l :: _ =>
          if ann t then {| ths := upd (ths s) k (step_th true t); gr := setg (gr s) l (gr s l - 1) |}
          else if negb (anyother (ths s) k (writer l)) then {| ths := upd (ths s) k (step_th true t); gr := gr s |}
          else if Nat.ltb 0 (gr s l) then {| ths := upd (ths s) k (step_th true t); gr := setg (gr s) l (gr s l - 1) |}
          else {| ths := upd (ths s) k (step_th false t); gr := gr s |}
      | GRel W l :: _ =>
          {| ths := upd (ths s) k (step_th false t); gr := setg (gr s) l (gr s l + nq (ths s) l) |}
      | _ => {| ths := upd (ths s) k (step_th false t); gr := gr s |}
      end
    end
  else s.
Definition run (s : sys) (sched : list nat) : sys := fold_left step sched s.

Definition start (tr : list gop) : th := {| todo := tr; held := []; ann := false |}.
Definition init (trs : list (list gop)) : sys := {| ths := map start trs; gr := fun _ => 0 |}.

(* discipline of one goroutine's operations w.r.t. a rank of lock instances *)
Fixpoint disc (rk : nat -> nat) (h : list (mode * nat)) (tr : list gop) : Prop :=
  match tr with
  | [] => h = []
  | GAcq m l :: r => (forall x, In x h -> rk (snd x) < rk l) /\ disc rk ((m, l) :: h) r
  | GRel m l :: r => In (m, l) h /\ disc rk (remove1 m l h) r
  | GWait _ :: r => h = [] /\ disc rk h r
  | GUse w l :: r => (In (W, l) h \/ (w = false /\ In (R, l) h)) /\ disc rk h r
  end.
Definition nowait (tr : list gop) : Prop := forall js, ~ In (GWait js) tr.

(* ---------- level 1: lock skeletons of functions (lock classes) ---------- *)

Inductive sk :=
| Skip
| Acq (m : mode) (c : nat)
| Rel (m : mode) (c : nat)
| Wait
| Use (w : bool) (c : nat)  (* an access (w: a write) to data guarded by lock class c *)
| Ret                       (* return (the translator has placed the deferred calls before it) *)
| SetF                      (* from here on the root scope's closed flag is known to be set *)
| Unless (b : sk)           (* b can only run while that flag is not known to be set *)
| Seq (a b : sk)
| Alt (a b : sk)            (* if / switch / select *)
| Loop (b : sk)             (* zero or more iterations *)
| Call (f : nat).

(* operations of one execution, at the level of lock classes *)
Inductive lop := LAcq (m : mode) (c : nat) | LRel (m : mode) (c : nat) | LWait | LUse (w : bool) (c : nat).

Inductive outcome := Normal | Returned.

Section Exec.
Variable procs : list sk.
Definition body (f : nat) : sk := nth f procs Skip.

(* exec b fl tr o fl': from fact state fl, b can perform tr, ending with outcome o and fact state fl' *)
Inductive exec : sk -> bool -> list lop -> outcome -> bool -> Prop :=
| ESkip fl : exec Skip fl [] Normal fl
| EAcq m c fl : exec (Acq m c) fl [LAcq m c] Normal fl
| ERel m c fl : exec (Rel m c) fl [LRel m c] Normal fl
| EWait fl : exec Wait fl [LWait] Normal fl
| EUse w c fl : exec (Use w c) fl [LUse w c] Normal fl
| ERet fl : exec Ret fl [] Returned fl
| ESetF fl : exec SetF fl [] Normal true
| EUnlessSkip b fl : exec (Unless b) fl [] Normal fl
| EUnlessRun b tr o fl' : exec b false tr o fl' -> exec (Unless b) false tr o fl'
| ESeqN a b fl tr1 fl1 tr2 o fl2 :
    exec a fl tr1 Normal fl1 -> exec b fl1 tr2 o fl2 -> exec (Seq a b) fl (tr1 ++ tr2) o fl2
| ESeqR a b fl tr1 fl1 : exec a fl tr1 Returned fl1 -> exec (Seq a b) fl tr1 Returned fl1
| EAltL a b fl tr o fl' : exec a fl tr o fl' -> exec (Alt a b) fl tr o fl'
| EAltR a b fl tr o fl' : exec b fl tr o fl' -> exec (Alt a b) fl tr o fl'
| ELoop0 b fl : exec (Loop b) fl [] Normal fl
| ELoopN b fl tr1 fl1 tr2 o fl2 :
    exec b fl tr1 Normal fl1 -> exec (Loop b) fl1 tr2 o fl2 -> exec (Loop b) fl (tr1 ++ tr2) o fl2
| ELoopR b fl tr1 fl1 : exec b fl tr1 Returned fl1 -> exec (Loop b) fl tr1 Returned fl1
| ECall f fl tr o fl' : exec (body f) fl tr o fl' -> exec (Call f) fl tr Normal fl'.

(* abstract state of the checker: locks held (class-level, most recent first) and the fact *)
Definition ast := (list (mode * nat) * bool)%type.

Definition heldc_eqb (a b : list (mode * nat)) : bool :=
  (Nat.eqb (length a) (length b)) &&
  forallb (fun p => mode_eqb (fst (fst p)) (fst (snd p)) && Nat.eqb (snd (fst p)) (snd (snd p))) (combine a b).
Definition ast_eqb (a b : ast) : bool := heldc_eqb (fst a) (fst b) && Bool.eqb (snd a) (snd b).

Definition inheld (m : mode) (c : nat) (h : list (mode * nat)) : bool :=
  existsb (fun x => mode_eqb (fst x) m && Nat.eqb (snd x) c) h.

(* result: states after normal completion, states at a return *)
Definition res := option (list ast * list ast).

Fixpoint dedup (l : list ast) : list ast :=
  match l with
  | [] => []
  | x :: r => if existsb (ast_eqb x) r then dedup r else x :: dedup r
  end.
Definition norm (r : res) : res :=
  match r with Some (n, t) => Some (dedup n, dedup t) | None => None end.

Definition bind_all (f : ast -> res) (l : list ast) : res :=
  fold_right (fun a acc =>
     match f a, acc with
     | Some (n1, r1), Some (n2, r2) => Some (n1 ++ n2, r1 ++ r2)
     | _, _ => None
     end) (Some ([], [])) l.

Fixpoint chk (fuel : nat) (b : sk) (a : ast) : res :=
  match fuel with
  | O => None
  | S fuel' =>
    match b with
    | Skip => Some ([a], [])
    | Acq m c => if forallb (fun x => Nat.ltb (snd x) c) (fst a) then Some ([((m, c) :: fst a, snd a)], []) else None
    | Rel m c => if inheld m c (fst a) then Some ([(remove1 m c (fst a), snd a)], []) else None
    | Wait => match fst a with [] => Some ([a], []) | _ => None end
    | Use w c => if inheld W c (fst a) || (negb w && inheld R c (fst a)) then Some ([a], []) else None
    | Ret => Some ([], [a])
    | SetF => Some ([(fst a, true)], [])
    | Unless b' => if snd a then Some ([a], [])
                   else match chk fuel' b' a with Some (n, r) => Some (a :: n, r) | None => None end
    | Seq x y =>
        match chk fuel' x a with
        | Some (n1, r1) =>
            match bind_all (chk fuel' y) n1 with
            | Some (n2, r2) => norm (Some (n2, r1 ++ r2))
            | None => None
            end
        | None => None
        end
    | Alt x y =>
        match chk fuel' x a, chk fuel' y a with
        | Some (n1, r1), Some (n2, r2) => norm (Some (n1 ++ n2, r1 ++ r2))
        | _, _ => None
        end
    | Loop b' =>
        (* the body must bring every state back: the fact may only go from unknown to known,
           in which case the body is checked again from the stronger state *)
        match chk fuel' b' a with
        | Some (n, r) =>
            if forallb (fun x => ast_eqb x a) n then Some ([a], r)
            else if forallb (fun x => heldc_eqb (fst x) (fst a)) n then
              match chk fuel' b' (fst a, true) with
              | Some (n', r') =>
                  if forallb (fun x => ast_eqb x (fst a, true)) n' then Some ([a; (fst a, true)], r ++ r') else None
              | None => None
              end
            else None
        | None => None
        end
    | Call f =>
        match chk fuel' (body f) a with
        | Some (n, r) => norm (Some (n ++ r, []))
        | None => None
        end
    end
  end.

(* an entry point is checked from the empty state and must come back with nothing held *)
Definition entry_ok1 (fuel : nat) (f : nat) (fl : bool) : bool :=
  match chk fuel (Call f) ([], fl) with
  | Some (n, r) => forallb (fun x => match fst x with [] => true | _ => false end) (n ++ r)
  | None => false
  end.
Definition entry_ok (fuel : nat) (f : nat) : bool := entry_ok1 fuel f false && entry_ok1 fuel f true.

Fixpoint has_wait (fuel : nat) (b : sk) : bool :=
  match fuel with
  | O => true
  | S fuel' =>
    match b with
    | Wait => true
    | Unless x | Loop x => has_wait fuel' x
    | Seq x y | Alt x y => has_wait fuel' x || has_wait fuel' y
    | Call f => has_wait fuel' (body f)
    | _ => false
    end
  end.

(* one execution, chosen greedily (the longer branch, one loop iteration): used for the
   non-vacuity examples only *)
Fixpoint a_trace (fuel : nat) (b : sk) (fl : bool) : option (list lop * outcome * bool) :=
  match fuel with
  | O => None
  | S fuel' =>
    match b with
    | Skip => Some ([], Normal, fl)
    | Acq m c => Some ([LAcq m c], Normal, fl)
    | Rel m c => Some ([LRel m c], Normal, fl)
    | Wait => Some ([LWait], Normal, fl)
    | Use w c => Some ([LUse w c], Normal, fl)
    | Ret => Some ([], Returned, fl)
    | SetF => Some ([], Normal, true)
    | Unless x => if fl then Some ([], Normal, fl) else
                  match a_trace fuel' x false with Some r => Some r | None => Some ([], Normal, fl) end
    | Seq x y =>
        match a_trace fuel' x fl with
        | Some (t1, Normal, f1) =>
            match a_trace fuel' y f1 with Some (t2, o, f2) => Some (t1 ++ t2, o, f2) | None => None end
        | r => r
        end
    | Alt x y =>
        match a_trace fuel' x fl, a_trace fuel' y fl with
        | Some (t1, o1, f1), Some (t2, o2, f2) =>
            if Nat.ltb (length t1) (length t2) || (Nat.eqb (length t1) (length t2) && match o1 with Returned => true | Normal => false end)
            then Some (t2, o2, f2) else Some (t1, o1, f1)
        | Some r, None | None, Some r => Some r
        | None, None => None
        end
    | Loop x =>
        match a_trace fuel' x fl with
        | Some (t1, o, f1) => Some (t1, o, f1)
        | None => Some ([], Normal, fl)
        end
    | Call f =>
        match a_trace fuel' (body f) fl with
        | Some (t, _, f1) => Some (t, Normal, f1)
        | None => None
        end
    end
  end.
End Exec.

(* class-level discipline of a trace of lock operations *)
Fixpoint cdisc (h : list (mode * nat)) (tr : list lop) : option (list (mode * nat)) :=
  match tr with
  | [] => Some h
  | LAcq m c :: r => if forallb (fun x => Nat.ltb (snd x) c) h then cdisc ((m, c) :: h) r else None
  | LRel m c :: r => if existsb (fun x => mode_eqb (fst x) m && Nat.eqb (snd x) c) h then cdisc (remove1 m c h) r else None
  | LWait :: r => match h with [] => cdisc h r | _ => None end
  | LUse w c :: r =>
      if existsb (fun x => mode_eqb (fst x) W && Nat.eqb (snd x) c) h ||
         (negb w && existsb (fun x => mode_eqb (fst x) R && Nat.eqb (snd x) c) h)
      then cdisc h r else None
  end.
