(* Scope-level model for C06: which strings a root scope with SanitizeOptions
   hands to its reporter.  scope.go newRootScope (prefix and separator go
   through sanitizer.Name; "" separator = DefaultSeparator), SubScope
   (sanitizer.Name, then fullyQualifiedName = prefix + separator + name, NOT
   sanitized again - scope.go:570), Tagged / root tags (copyAndSanitizeMap,
   merged right over the parent's), Counter/Gauge/Timer/Histogram
   (sanitizer.Name, fullyQualifiedName), and the registry's cardinality
   gauges (scope_registry.go: four fixed names through sanitizer.Name, no
   prefix; tags = the built-in version/host/instance overlaid by the user's
   CardinalityMetricsTags, all through sanitizer.Key / sanitizer.Value).

   [c_fixcard = true] is the recommended tree (patches/fix-C06-cardinality-tags.patch:
   the built-in tags are sanitized too); false is the pinned tree.
   Scope identity is (prefix, tags); metric values are not modelled (C01-C03).
   Definitions only. *)
From Coq Require Import ZArith List Bool String Ascii.
From Tally Require Import Base.ObsCore Gen.Params Model.Utf8 Model.Sanitize.
Import ListNotations.
Open Scope Z_scope.

Definition bytes_of_string (s : string) : bytes :=
  map (fun a => Z.of_N (N_of_ascii a)) (list_ascii_of_string s).

(* scope_registry.go: counterCardinalityName ... scopeCardinalityName, in reporting order *)
Definition card_names : list bytes :=
  map bytes_of_string ["tally.internal.counter_cardinality"%string;
                       "tally.internal.gauge_cardinality"%string;
                       "tally.internal.histogram_cardinality"%string;
                       "tally.internal.num_active_scopes"%string].
(* "version": Version, "host"/"instance": DefaultTagRedactValue *)
Definition builtin_tags : list (bytes * bytes) :=
  [(bytes_of_string "version", tally_version);
   (bytes_of_string "host", bytes_of_string "global");
   (bytes_of_string "instance", bytes_of_string "global")].

(* tag maps: association lists sorted by key (bytewise), one entry per key *)
Definition tags := list (bytes * bytes).
Fixpoint bytes_cmp (a b : bytes) : comparison :=
  match a, b with
  | [], [] => Eq
  | [], _ => Lt
  | _, [] => Gt
  | x :: a', y :: b' => match x ?= y with Eq => bytes_cmp a' b' | c => c end
  end.
Fixpoint put (k v : bytes) (m : tags) : tags :=
  match m with
  | [] => [(k, v)]
  | (k', v') :: m' =>
    match bytes_cmp k k' with
    | Lt => (k, v) :: m
    | Eq => (k, v) :: m'
    | Gt => (k', v') :: put k v m'
    end
  end.
(* result[k] = v for every pair of upd, over base (mergeRightTags, map literal + loop) *)
Definition overlay (base upd : tags) : tags :=
  fold_left (fun m kv => put (fst kv) (snd kv) m) upd base.

Record cfg := Cfg {
  c_opts : option sopts;   (* ScopeOptions.SanitizeOptions *)
  c_cached : bool;         (* CachedReporter (true) or Reporter *)
  c_omit : bool;           (* OmitCardinalityMetrics *)
  c_strict : bool;         (* fix-C06-invalid-byte applied *)
  c_fixcard : bool         (* fix-C06-cardinality-tags applied *)
}.

Section Scope.
  Variable c : cfg.
  Let sn (k : skind) (s : bytes) : bytes := san_gen (c_strict c) (c_opts c) k s.

  (* copyAndSanitizeMap *)
  Definition san_tags (m : tags) : tags := map (fun kv => (sn KKey (fst kv), sn KValue (snd kv))) m.

  (* fullyQualifiedName *)
  Definition fqn (prefix sep name : bytes) : bytes :=
    match prefix with [] => name | _ => prefix ++ sep ++ name end.

  Record scope := Scope { sc_prefix : bytes; sc_tags : tags }.
  Record delivery := Dl { d_kind : Z; d_name : bytes; d_tags : tags }.

  Definition card_tags (user : tags) : tags :=
    overlay (overlay [] (if c_fixcard c then san_tags builtin_tags else builtin_tags)) (san_tags user).
  Definition card_dl (kind : Z) (user : tags) : list delivery :=
    if c_omit c then [] else map (fun n => Dl kind (sn KName n) (card_tags user)) card_names.

  Inductive sop :=
  | OSub (parent : nat) (name : bytes)            (* scopes[parent].SubScope(name) *)
  | OTag (parent : nat) (t : tags)                (* scopes[parent].Tagged(t) *)
  | OMetric (sc : nat) (kind : Z) (name : bytes). (* kind 1 Counter 2 Gauge 3 Timer 4 Histogram: touch it once, then one report pass *)

  Definition tags_eqb (a b : tags) : bool :=
    list_eqb (fun x y => zs_eqb (fst x) (fst y) && zs_eqb (snd x) (snd y)) a b.
  Definition mkey := (scope * Z * bytes)%type.
  Definition mkey_eqb (a b : mkey) : bool :=
    let '(s1, k1, n1) := a in let '(s2, k2, n2) := b in
    zs_eqb (sc_prefix s1) (sc_prefix s2) && tags_eqb (sc_tags s1) (sc_tags s2) && (k1 =? k2) && zs_eqb n1 n2.

  Definition root_scope (prefix : bytes) (t : tags) : scope :=
    Scope (sn KName prefix) (overlay [] (san_tags t)).
  Definition root_sep (sep : bytes) : bytes :=
    sn KName (match sep with [] => default_separator | _ => sep end).

  Fixpoint run_ops (sep : bytes) (user : tags) (ops : list sop) (scs : list scope) (seen : list mkey)
    : list delivery :=
    match ops with
    | [] => []
    | OSub p name :: r =>
      let ps := nth p scs (Scope [] []) in
      run_ops sep user r (scs ++ [Scope (fqn (sc_prefix ps) sep (sn KName name)) (sc_tags ps)]) seen
    | OTag p t :: r =>
      let ps := nth p scs (Scope [] []) in
      run_ops sep user r (scs ++ [Scope (sc_prefix ps) (overlay (sc_tags ps) (san_tags t))]) seen
    | OMetric i kind name :: r =>
      let s := nth i scs (Scope [] []) in
      let nm := sn KName name in
      let fq := fqn (sc_prefix s) sep nm in
      if c_cached c then
        (* Allocate* once per (scope, kind, sanitized name) *)
        if existsb (mkey_eqb (s, kind, nm)) seen then run_ops sep user r scs seen
        else Dl (10 + kind) fq (sc_tags s) :: run_ops sep user r scs ((s, kind, nm) :: seen)
      else
        (* a timer reports when recorded, the others in the pass, after the cardinality gauges *)
        (if kind =? 3 then Dl 3 fq (sc_tags s) :: card_dl 2 user
         else card_dl 2 user ++ [Dl kind fq (sc_tags s)])
        ++ run_ops sep user r scs seen
    end.

  (* everything the reporter is handed: at construction (cached: the four
     cardinality gauges are allocated) and over the history *)
  Definition run (prefix sep : bytes) (t user : tags) (ops : list sop) : list delivery :=
    (if c_cached c then card_dl 12 user else [])
    ++ run_ops (root_sep sep) user ops [root_scope prefix t] [].
End Scope.

Arguments Scope _ _ : clear implicits.

(* ---- the shipped option tables, composed from the constants the translator
   reads out of sanitize.go (Gen/Params.v) exactly as m3/sanitize.go,
   prometheus/sanitize.go compose them; ids as sent by the harness ---- *)
Definition uniform_opts (chars : list Z) : sopts :=
  let v := VC alphanumeric_ranges chars in SO v v v default_replacement_rune.
Definition m3_default_opts : sopts :=
  SO (VC alphanumeric_ranges underscore_dash_dot_chars)
     (VC alphanumeric_ranges underscore_dash_chars)
     (VC alphanumeric_ranges underscore_dash_dot_chars)
     default_replacement_rune.
Definition prometheus_default_opts : sopts := uniform_opts underscore_chars.
Definition shipped_opts : list sopts :=
  [m3_default_opts; prometheus_default_opts; uniform_opts underscore_chars;
   uniform_opts underscore_dash_chars; uniform_opts underscore_dash_dot_chars].
