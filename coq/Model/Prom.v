(* Executable model of prometheus/reporter.go on top of an abstract model of
   the Prometheus client (client_golang v1.11 Registry / *Vec / Gather).

   MODELLED (not verified) Prometheus client:
   - a registry is the list of registered collectors; every collector the
     reporter creates is a vector with ONE descriptor without constant labels,
     so descriptor id = name and collector id = name; the "dimension hash" is
     (help string, set of label names).  Register:
       name unknown                       -> accepted
       name known, other help or labels   -> error ("previously registered descriptor ...")
       name known, same help and labels   -> AlreadyRegisteredError{existing}
   - series = (vector, label values) -> counter sum / gauge last value /
     summary count / histogram (count per finite bound by Go's sort.Search on
     "bound >= v", total count).  Gather shows cumulative bucket counts.
   - label key lists are sorted (the harness sorts; Prometheus hashes the
     sorted names), names / label names are Prometheus-valid.
   - counters accumulate exactly (sums < 2^53), counter deltas are >= 0.

   The reporter part mirrors reporter.go: three by-id caches (id = name +
   sorted label keys; timers holds summaries AND histograms as a pair of
   possibly-nil pointers), counterVec / gaugeVec / summaryVec / histogramVec,
   Allocate*, Register*, the error callback as an oracle (returns | panics).
   [fixed c = false] is the pinned tree (summaryVec / histogramVec hand out the
   other flavour's nil field), [fixed c = true] the repaired one.

   On top of it the part of tally's scope that feeds a cached reporter
   (scope.go / stats.go): counters deliver their delta on a report pass,
   gauges their last value if updated, timers every record immediately (in
   seconds), histograms the samples of each bucket as observations of the
   bucket's upper bound (model of bucketing: Model/Buckets.v). *)
From Coq Require Import ZArith List Bool Arith.
From Tally Require Import Base.ObsCore Base.Search Model.Buckets.
Import ListNotations.
Open Scope Z_scope.

Definition str := bytes.
Definition key := (nat * list str)%type.         (* series: vector index, label values *)
Definition mid := (str * list str)%type.         (* canonicalMetricID: name, sorted label keys *)

Definition key_eqb (a b : key) : bool := Nat.eqb (fst a) (fst b) && zss_eqb (snd a) (snd b).
Definition mid_eqb (a b : mid) : bool := zs_eqb (fst a) (fst b) && zss_eqb (snd a) (snd b).

Fixpoint afind {K V} (eqb : K -> K -> bool) (k : K) (l : list (K * V)) : option V :=
  match l with
  | [] => None
  | (k', v) :: r => if eqb k' k then Some v else afind eqb k r
  end.
Fixpoint aset {K V} (eqb : K -> K -> bool) (k : K) (v : V) (l : list (K * V)) : list (K * V) :=
  match l with
  | [] => []
  | (k', v') :: r => if eqb k' k then (k', v) :: r else (k', v') :: aset eqb k v r
  end.

(* ---------------- Prometheus client (modelled) ---------------- *)
Inductive pkind := PCounter | PGauge | PSummary | PHistogram.
Definition pk_code (k : pkind) : Z :=
  match k with PCounter => 1 | PGauge => 2 | PSummary => 3 | PHistogram => 4 end.

Record vec := Vec { vname : str; vhelp : str; vkeys : list str; vkind : pkind; vbounds : list Z }.
Definition dvec : vec := Vec [] [] [] PCounter [].

Inductive sval :=
| SCounter (sum : Z)
| SGauge (bits : Z)
| SSummary (cnt : Z)
| SHist (counts : list Z) (total : Z).

Definition sinit (v : vec) : sval :=
  match vkind v with
  | PCounter => SCounter 0
  | PGauge => SGauge 0
  | PSummary => SSummary 0
  | PHistogram => SHist (repeat 0 (length (vbounds v))) 0
  end.

(* prometheus.DefBuckets, used when a histogram is created with no bounds *)
Definition DEFB : list Z :=
  [4572414629676717179; 4576918229304087675; 4582862980812216730; 4587366580439587226;
   4591870180066957722; 4598175219545276416; 4602678819172646912; 4607182418800017408;
   4612811918334230528; 4617315517961601024; 4621819117588971520].
Definition norm_bounds (bs : list Z) : list Z := match bs with [] => DEFB | _ => bs end.

(* histogram.findBucket: least i with upperBounds[i] >= v; len = the +Inf bucket *)
Definition prom_idx (bs : list Z) (f : Z) : nat :=
  sort_search (length bs) (fun i => fge (nth i bs 0) f).

Fixpoint addat (i : nat) (n : Z) (l : list Z) : list Z :=
  match l, i with
  | [], _ => []
  | c :: r, O => (c + n) :: r
  | c :: r, S j => c :: addat j n r
  end.

(* what reaches one series: Counter.Add, Gauge.Set, n times Observe(f) *)
Inductive delivery := DCount (v : Z) | DGauge (b : Z) | DObserve (f : Z) (n : Z).

Definition apply (bs : list Z) (s : sval) (d : delivery) : sval :=
  match s, d with
  | SCounter x, DCount v => SCounter (x + v)
  | SGauge _, DGauge b => SGauge b
  | SSummary c, DObserve _ n => SSummary (c + n)
  | SHist cs t, DObserve f n => SHist (addat (prom_idx bs f) n cs) (t + n)
  | _, _ => s
  end.

Fixpoint find_name (n : str) (vs : list vec) : option nat :=
  match vs with
  | [] => None
  | v :: r => if zs_eqb (vname v) n then Some O else option_map S (find_name n r)
  end.

Definition dim_eqb (a b : vec) : bool := zs_eqb (vhelp a) (vhelp b) && zss_eqb (vkeys a) (vkeys b).

Inductive rerr := EAlready (existing : nat) | EInconsistent | EOther.
Definition eclass (e : rerr) : Z :=
  match e with EAlready _ => 1 | EInconsistent => 2 | EOther => 3 end.

(* Registry.Register of a one-descriptor vector: None = accepted (the caller
   appends it; its index is the old length) *)
Definition register (vs : list vec) (v : vec) : option rerr :=
  match find_name (vname v) vs with
  | None => None
  | Some i => if dim_eqb (nth i vs dvec) v then Some (EAlready i) else Some EInconsistent
  end.

(* ---------------- the reporter ---------------- *)
Record tvec := TVec { tsum : option nat; thist : option nat }.   (* promTimerVec: two nil-able pointers *)
Inductive metric := MNoop | MReal (k : key).

Record state := St {
  vecs : list vec;                    (* the registry *)
  sers : list (key * sval);           (* children of the vectors *)
  counters : list (mid * nat);
  gauges : list (mid * nat);
  timers : list (mid * tvec);
  handles : list metric;              (* metrics handed to the caller, in allocation order *)
  cblog : list Z                      (* classes of the errors given to OnRegisterError *)
}.

Record cfg := Cfg {
  fixed : bool;                       (* repaired summaryVec / histogramVec *)
  ttype : Z;                          (* Options.DefaultTimerType: 0 summary, 1 histogram, other: unknown *)
  dbounds : list Z;                   (* Options.DefaultHistogramBuckets, resolved *)
  cbret : nat -> bool                 (* does the n-th invocation of OnRegisterError return? *)
}.

Definition init (pre : list vec) : state := St pre [] [] [] [] [] [].

Inductive vres := VOk (p : option nat) | VErr (e : rerr).

Definition counter_vec (s : state) (name : str) (keys : list str) (help : str) : state * vres :=
  match afind mid_eqb (name, keys) (counters s) with
  | Some v => (s, VOk (Some v))
  | None =>
      let nv := Vec name help keys PCounter [] in
      match register (vecs s) nv with
      | Some e => (s, VErr e)
      | None =>
          let i := length (vecs s) in
          (St (vecs s ++ [nv]) (sers s) (counters s ++ [((name, keys), i)]) (gauges s) (timers s)
              (handles s) (cblog s), VOk (Some i))
      end
  end.

Definition gauge_vec (s : state) (name : str) (keys : list str) (help : str) : state * vres :=
  match afind mid_eqb (name, keys) (gauges s) with
  | Some v => (s, VOk (Some v))
  | None =>
      let nv := Vec name help keys PGauge [] in
      match register (vecs s) nv with
      | Some e => (s, VErr e)
      | None =>
          let i := length (vecs s) in
          (St (vecs s ++ [nv]) (sers s) (counters s) (gauges s ++ [((name, keys), i)]) (timers s)
              (handles s) (cblog s), VOk (Some i))
      end
  end.

Definition summary_vec (fx : bool) (s : state) (name : str) (keys : list str) (help : str)
  : state * vres :=
  match afind mid_eqb (name, keys) (timers s) with
  | Some t =>
      if fx then match tsum t with Some v => (s, VOk (Some v)) | None => (s, VErr EOther) end
      else (s, VOk (tsum t))                          (* pinned: s.summary, nil for a histogram entry *)
  | None =>
      let nv := Vec name help keys PSummary [] in
      match register (vecs s) nv with
      | Some e => (s, VErr e)
      | None =>
          let i := length (vecs s) in
          (St (vecs s ++ [nv]) (sers s) (counters s) (gauges s)
              (timers s ++ [((name, keys), TVec (Some i) None)]) (handles s) (cblog s), VOk (Some i))
      end
  end.

Definition histogram_vec (fx : bool) (s : state) (name : str) (keys : list str) (help : str)
  (bs : list Z) : state * vres :=
  match afind mid_eqb (name, keys) (timers s) with
  | Some t =>
      if fx then match thist t with Some v => (s, VOk (Some v)) | None => (s, VErr EOther) end
      else (s, VOk (thist t))
  | None =>
      let nv := Vec name help keys PHistogram (norm_bounds bs) in
      match register (vecs s) nv with
      | Some e => (s, VErr e)
      | None =>
          let i := length (vecs s) in
          (St (vecs s ++ [nv]) (sers s) (counters s) (gauges s)
              (timers s ++ [((name, keys), TVec None (Some i))]) (handles s) (cblog s), VOk (Some i))
      end
  end.

(* vec.With(tags): get or create the child *)
Definition with_series (s : state) (k : key) : state :=
  match afind key_eqb k (sers s) with
  | Some _ => s
  | None => St (vecs s) (sers s ++ [(k, sinit (nth (fst k) (vecs s) dvec))]) (counters s) (gauges s)
               (timers s) (handles s) (cblog s)
  end.

Definition push_handle (s : state) (m : metric) : state :=
  St (vecs s) (sers s) (counters s) (gauges s) (timers s) (handles s ++ [m]) (cblog s).

Inductive outcome :=
| OMetric (m : metric)               (* Allocate* returned this metric *)
| OCbPanic (cls : Z)                 (* the callback's own panic propagated *)
| ONilDeref                          (* nil pointer dereference inside the reporter *)
| ORegOk (p : option nat)            (* Register* returned this vector pointer and a nil error *)
| ORegErr (cls : Z)
| ODone.

(* r.onRegisterError(err); return noopMetric{} *)
Definition callback (c : cfg) (s : state) (e : rerr) : state * outcome :=
  let n := length (cblog s) in
  (St (vecs s) (sers s) (counters s) (gauges s) (timers s) (handles s ++ [MNoop])
      (cblog s ++ [eclass e]),
   if cbret c n then OMetric MNoop else OCbPanic (eclass e)).

Definition finish (c : cfg) (sr : state * vres) (lvs : list str) : state * outcome :=
  match snd sr with
  | VErr e => callback c (fst sr) e
  | VOk None => (push_handle (fst sr) MNoop, ONilDeref)
  | VOk (Some v) =>
      let k := (v, lvs) in
      (push_handle (with_series (fst sr) k) (MReal k), OMetric (MReal k))
  end.

Definition sfx_counter : str := [32; 99; 111; 117; 110; 116; 101; 114].
Definition sfx_gauge : str := [32; 103; 97; 117; 103; 101].
Definition sfx_summary : str := [32; 115; 117; 109; 109; 97; 114; 121].
Definition sfx_histogram : str := [32; 104; 105; 115; 116; 111; 103; 114; 97; 109].

Inductive use := UCounter | UGauge | UTimer | UHist (bounds : list Z).
Inductive ruse := RUCounter | RUGauge | RUTimer (ty : Z) (bounds : list Z).

Inductive rop :=
| RAlloc (u : use) (name : str) (tags : list (str * str))   (* Allocate*; tags sorted by key *)
| RDeliver (h : nat) (d : delivery)                           (* a report through handle h *)
| RReg (u : ruse) (name : str) (keys : list str) (help : str). (* Register{Counter,Gauge,Timer} *)

Definition deliver (s : state) (k : key) (d : delivery) : state :=
  match afind key_eqb k (sers s) with
  | None => s
  | Some v =>
      St (vecs s)
         (aset key_eqb k (apply (vbounds (nth (fst k) (vecs s) dvec)) v d) (sers s))
         (counters s) (gauges s) (timers s) (handles s) (cblog s)
  end.

Definition deliver_h (s : state) (h : nat) (d : delivery) : state :=
  match nth_error (handles s) h with
  | Some (MReal k) => deliver s k d
  | _ => s                                            (* noopMetric *)
  end.

(* the vector lookup / registration part of Allocate* *)
Definition alloc_vec (c : cfg) (s : state) (u : use) (name : str) (keys : list str) : state * vres :=
  match u with
  | UCounter => counter_vec s name keys (name ++ sfx_counter)
  | UGauge => gauge_vec s name keys (name ++ sfx_gauge)
  | UTimer =>
      if ttype c =? 1 then histogram_vec (fixed c) s name keys (name ++ sfx_histogram) (dbounds c)
      else if ttype c =? 0 then summary_vec (fixed c) s name keys (name ++ sfx_summary)
      else (s, VErr EOther)                           (* errUnknownTimerType *)
  | UHist bs => histogram_vec (fixed c) s name keys (name ++ sfx_histogram) bs
  end.

Definition reg_vec (c : cfg) (s : state) (u : ruse) (name : str) (keys : list str) (help : str)
  : state * vres :=
  match u with
  | RUCounter => counter_vec s name keys help
  | RUGauge => gauge_vec s name keys help
  | RUTimer ty bs =>
      let tt' := if ty <? 0 then ttype c else ty in      (* opts == nil *)
      let bs' := match bs with [] => dbounds c | _ => bs end in
      if tt' =? 1 then histogram_vec (fixed c) s name keys help bs'
      else if tt' =? 0 then summary_vec (fixed c) s name keys help
      else (s, VErr EOther)
  end.

Definition rstep (c : cfg) (s : state) (o : rop) : state * outcome :=
  match o with
  | RAlloc u name tags => finish c (alloc_vec c s u name (map fst tags)) (map snd tags)
  | RDeliver h d => (deliver_h s h d, ODone)
  | RReg u name keys help =>
      let sr := reg_vec c s u name keys help in
      (fst sr, match snd sr with VOk p => ORegOk p | VErr e => ORegErr (eclass e) end)
  end.

Fixpoint rrun (c : cfg) (s : state) (ops : list rop) : state * list outcome :=
  match ops with
  | [] => (s, [])
  | o :: r => let (s1, out) := rstep c s o in
              let (s2, outs) := rrun c s1 r in (s2, out :: outs)
  end.

(* ---------------- several reporters on one registry ---------------- *)
(* The registry (vectors, children) is shared; every reporter has its own three
   caches.  Handles and the callback log are numbered globally (the reporters
   are built from the same options).  [XSwitch r] makes reporter r the one the
   following operations are called on. *)
Record rcaches := RC { rc_c : list (mid * nat); rc_g : list (mid * nat); rc_t : list (mid * tvec) }.

Definition get_caches (s : state) : rcaches := RC (counters s) (gauges s) (timers s).
Definition set_caches (s : state) (r : rcaches) : state :=
  St (vecs s) (sers s) (rc_c r) (rc_g r) (rc_t r) (handles s) (cblog s).

Inductive xop := XSwitch (r : nat) | XOp (o : rop).

Record xstate := XS { xs : state; xcur : nat; xothers : list rcaches }.

Definition xinit (pre : list vec) : xstate := XS (init pre) 0 [].

Fixpoint put {A} (d : A) (i : nat) (x : A) (l : list A) : list A :=
  match i, l with
  | O, [] => [x]
  | O, _ :: r => x :: r
  | S j, [] => d :: put d j x []
  | S j, y :: r => y :: put d j x r
  end.

Definition xstep (c : cfg) (t : xstate) (o : xop) : xstate * list outcome :=
  match o with
  | XSwitch r =>
      if Nat.eqb r (xcur t) then (t, [])
      else
        let saved := put (RC [] [] []) (xcur t) (get_caches (xs t)) (xothers t) in
        (XS (set_caches (xs t) (nth r saved (RC [] [] []))) r saved, [])
  | XOp o => let (s1, out) := rstep c (xs t) o in (XS s1 (xcur t) (xothers t), [out])
  end.

Fixpoint xrun (c : cfg) (t : xstate) (ops : list xop) : xstate * list outcome :=
  match ops with
  | [] => (t, [])
  | o :: r => let (t1, o1) := xstep c t o in
              let (t2, o2) := xrun c t1 r in (t2, o1 ++ o2)
  end.

(* ---------------- the scope side (tally objects feeding the reporter) ---------------- *)
(* [secs]: the bounds of [uppers k spec] in seconds as float64 bits, in order
   (for value histograms the bounds themselves): float64(d)/float64(time.Second)
   is computed by the Go code and supplied as an oracle. *)
Inductive tuse := TUCounter | TUGauge | TUTimer | TUHist (k : kind) (spec : list Z) (secs : list Z).

Definition use_of (u : tuse) : use :=
  match u with
  | TUCounter => UCounter
  | TUGauge => UGauge
  | TUTimer => UTimer
  | TUHist _ spec secs => UHist (firstn (length spec) secs)     (* Buckets.AsValues() *)
  end.

Inductive ostate :=
| OC (pend : Z)                       (* counter: unreported delta *)
| OG (upd : bool) (v : Z)             (* gauge: updated flag, value bits *)
| OT                                  (* timer: nothing pending *)
| OH (h : hist) (secs : list Z).      (* histogram: per-bucket unreported samples *)

Definition oinit (u : tuse) : ostate :=
  match u with
  | TUCounter => OC 0
  | TUGauge => OG false 0
  | TUTimer => OT
  | TUHist k spec secs => OH (hnew k spec) secs
  end.

Inductive oact :=
| AInc (v : Z)                        (* Counter.Inc *)
| AUpd (b : Z)                        (* Gauge.Update *)
| ARec (d : Z) (sec : Z)              (* Timer.Record(d); sec = float64(d)/1e9 (oracle) *)
| ARecV (b : Z)                       (* Histogram.RecordValue *)
| ARecD (d : Z).                      (* Histogram.RecordDuration *)

(* histogram.cachedReport: bucket i with samples -> cachedBucket_i.ReportSamples(samples),
   cachedBucket_i observes the i-th upper bound in seconds *)
Definition hpass (h : hist) (secs : list Z) : list delivery :=
  flat_map (fun i => let c := nth i (hcnt h) 0 in
                     if c =? 0 then [] else [DObserve (nth i secs 0) c])
           (seq 0 (length (hus h))).

Definition oact_step (o : ostate) (a : oact) : ostate * list delivery :=
  match o, a with
  | OC p, AInc v => (OC (p + v), [])
  | OG _ _, AUpd b => (OG true b, [])
  | OT, ARec _ sec => (OT, [DObserve sec 1])
  | OH h secs, ARecV b => (OH (fst (hstep h (HRec KValue b))) secs, [])
  | OH h secs, ARecD d => (OH (fst (hstep h (HRec KDuration d))) secs, [])
  | _, _ => (o, [])
  end.

Definition opass (o : ostate) : ostate * list delivery :=
  match o with
  | OC p => (OC 0, if p =? 0 then [] else [DCount p])
  | OG u v => (OG false v, if u then [DGauge v] else [])
  | OT => (OT, [])
  | OH h secs => (OH (fst (hstep h HPass)) secs, hpass h secs)
  end.

Inductive top :=
| TDecl (u : tuse) (name : str) (tags : list (str * str))   (* first use: scope.Counter(...) etc. *)
| TOp (i : nat) (a : oact)                                   (* on the i-th declared object *)
| TPass.                                                     (* one report pass over all objects *)

Record tstate := TS { rs : state; objs : list ostate }.

Fixpoint upd {A} (i : nat) (x : A) (l : list A) : list A :=
  match l, i with
  | [], _ => []
  | _ :: r, O => x :: r
  | y :: r, S j => y :: upd j x r
  end.

Definition send (s : state) (i : nat) (ds : list delivery) : state :=
  fold_left (fun s d => deliver_h s i d) ds s.

Definition obj_do (t : tstate) (i : nat) (f : ostate -> ostate * list delivery) : tstate :=
  match nth_error (objs t) i with
  | None => t
  | Some o => TS (send (rs t) i (snd (f o))) (upd i (fst (f o)) (objs t))
  end.

Definition tstep (c : cfg) (t : tstate) (o : top) : tstate :=
  match o with
  | TDecl u name tags =>
      TS (fst (rstep c (rs t) (RAlloc (use_of u) name tags))) (objs t ++ [oinit u])
  | TOp i a => obj_do t i (fun o => oact_step o a)
  | TPass => fold_left (fun t i => obj_do t i opass) (seq 0 (length (objs t))) t
  end.

Definition trun (c : cfg) (ops : list top) : tstate := fold_left (tstep c) ops (TS (init []) []).

(* ---------------- Gather ---------------- *)
Fixpoint cumul (acc : Z) (cs : list Z) : list Z :=
  match cs with [] => [] | c :: r => (acc + c) :: cumul (acc + c) r end.

Fixpoint interleave (a b : list str) : list str :=
  match a, b with x :: a', y :: b' => x :: y :: interleave a' b' | _, _ => [] end.
Fixpoint zinterleave (a b : list Z) : list Z :=
  match a, b with x :: a', y :: b' => x :: y :: zinterleave a' b' | _, _ => [] end.

(* the value of the series of family [name] with label values [lvs], as Gather shows it *)
Definition gathered (s : state) (name : str) (lvs : list str) : option (vec * sval) :=
  match find_name name (vecs s) with
  | None => None
  | Some i => match afind key_eqb (i, lvs) (sers s) with
              | None => None
              | Some v => Some (nth i (vecs s) dvec, v)
              end
  end.

Definition payload (v : vec) (x : sval) : list Z :=
  match x with
  | SCounter n => [1; n]
  | SGauge b => [2; b]
  | SSummary n => [3; n]
  | SHist cs t => 4 :: t :: zinterleave (vbounds v) (cumul 0 cs)
  end.

Definition series_ev (s : state) (p : key * sval) : ev :=
  let v := nth (fst (fst p)) (vecs s) dvec in
  Ev 20 (payload v (snd p)) (vname v :: vhelp v :: interleave (vkeys v) (snd (fst p))).

Definition gather (s : state) : list ev := map (series_ev s) (sers s).
