(* Executable model of the StatsD reporter (statsd/reporter.go).

   The reporter is stateless apart from its two options.  Every call on it is
   an [op]; [step] gives what it does with the underlying statsd client: a list
   of client calls ([Sent]) and, for Capabilities(), the two advertised flags.

   Conventions: byte strings are [list Z]; float64 values are their 64-bit
   patterns, float32 sample rates their 32-bit patterns; int64 / durations
   are [Z].

   ORACLES.  The two renderings of bucket bounds,
       fmt.Sprintf("%.<p>f", x)      and      time.Duration(d).String(),
   are not modelled: they are parameters [fmtf p bits] and [fmtd d] of the
   model (Section variables, universally quantified in every theorem).  The
   correspondence check instantiates them with the table of renderings the
   harness observed from the Go runtime.

   int64(value) on a float64 is defined by the Go specification only for
   finite values whose truncation fits an int64; [gauge_ok] marks that region
   and the model claims nothing outside it. *)
From Coq Require Import ZArith List Bool.
From Tally Require Import Model.Buckets.
Import ListNotations.
Open Scope Z_scope.

Definition bytes := list Z.
Definition tags := list (bytes * bytes).

Definition DASH : Z := 45.
Definition DOT : Z := 46.
Definition INFINITY : bytes := [105;110;102;105;110;105;116;121].       (* "infinity" *)
Definition NINFINITY : bytes := DASH :: INFINITY.                       (* "-infinity" *)

Definition ONE32 : Z := 1065353216.              (* float32(1.0) = 0x3F800000 *)
Definition DEFAULT_PREC : Z := 6.                (* DefaultHistogramBucketNamePrecision *)

(* Options as passed to NewReporter: SampleRate (float32 bits; the zero value
   means "unset") and HistogramBucketNamePrecision (uint; 0 means "unset") *)
Record cfg := Cfg { orate : Z; oprec : Z }.

(* opts.SampleRate == 0 as a float32 comparison: +0 and -0 *)
Definition rate_unset (r : Z) : bool := r mod 2147483648 =? 0.
Definition eff_rate (c : cfg) : Z := if rate_unset (orate c) then ONE32 else orate c.
Definition eff_prec (c : cfg) : Z := if oprec c =? 0 then DEFAULT_PREC else oprec c.

(* ---------- float64 -> int64 conversion (truncation toward zero) ---------- *)
Definition P52 : Z := 4503599627370496.          (* 2^52 *)
Definition fexp (b : Z) : Z := (b mod SIGN) / P52.
Definition fman (b : Z) : Z := b mod P52.
Definition finiteb (b : Z) : bool := fexp b <? 2047.

(* the exact value of a finite float64 as a fraction num / den, den a power of two *)
Definition fnum_den (b : Z) : Z * Z :=
  let e := fexp b in
  let m := if e =? 0 then fman b else fman b + P52 in
  let x := (if e =? 0 then 1 else e) - 1075 in
  let s := if b <? SIGN then 1 else -1 in
  if 0 <=? x then (s * (m * 2 ^ x), 1) else (s * m, 2 ^ (- x)).

(* int64(v): the integer part, rounding toward zero ([Z.quot]) *)
Definition gauge_int (b : Z) : Z := Z.quot (fst (fnum_den b)) (snd (fnum_den b)).
Definition gauge_ok (b : Z) : bool :=
  finiteb b && (MINI <=? gauge_int b) && (gauge_int b <=? MAXI).

(* ---------- calls ---------- *)
Inductive op :=
| OCounter (name : bytes) (t : tags) (v : Z)
| OGauge (name : bytes) (t : tags) (bits : Z)
| OTimer (name : bytes) (t : tags) (d : Z)
| OHistV (name : bytes) (t : tags) (lo hi : Z) (samples : Z)
| OHistD (name : bytes) (t : tags) (lo hi : Z) (samples : Z)
| OFlush
| OCaps.

Inductive ckind := CInc | CGauge | CTiming.

(* one call on the statsd client: method, stat name, value, sample rate and
   the number of statsd tags passed along *)
Record call := Call { ckd : ckind; cname : bytes; cval : Z; crate : Z; ctagn : Z }.

Inductive out := Sent (c : call) | CapsAre (reporting tagging : bool).

Definition is_report (o : op) : bool :=
  match o with OFlush | OCaps => false | _ => true end.

Definition retag (t : tags) (o : op) : op :=
  match o with
  | OCounter n _ v => OCounter n t v
  | OGauge n _ b => OGauge n t b
  | OTimer n _ d => OTimer n t d
  | OHistV n _ lo hi s => OHistV n t lo hi s
  | OHistD n _ lo hi s => OHistD n t lo hi s
  | OFlush => OFlush
  | OCaps => OCaps
  end.

(* "<name>.<lower>-<upper>" *)
Definition stat (name lo hi : bytes) : bytes := name ++ DOT :: lo ++ DASH :: hi.

(* shape of a rendering: non-empty and '-' at most as its first byte *)
Definition shape (s : bytes) : Prop := s <> [] /\ ~ In DASH (tl s).
Definition shapeb (s : bytes) : bool :=
  match s with [] => false | _ :: r => forallb (fun x => negb (x =? DASH)) r end.

Section Oracles.
  Variable fmtf : Z -> Z -> bytes.               (* precision, float64 bits |-> "%.<p>f" *)
  Variable fmtd : Z -> bytes.                    (* nanoseconds |-> Duration.String() *)

  (* valueBucketString / durationBucketString: Go's == on float64 against
     +-math.MaxFloat64 holds for exactly that bit pattern *)
  Definition vstr (p b : Z) : bytes :=
    if b =? MAXF then INFINITY else if b =? NMAXF then NINFINITY else fmtf p b.
  Definition dstr (d : Z) : bytes :=
    if d =? MAXI then INFINITY else if d =? MINI then NINFINITY else fmtd d.

  (* the oracle's rendering of a bound of a histogram of kind k *)
  Definition ofmt (k : kind) (p x : Z) : bytes :=
    match k with KValue => fmtf p x | KDuration => fmtd x end.

  (* rendering of a bound of a histogram of kind k at precision p *)
  Definition bstr (k : kind) (p x : Z) : bytes :=
    match k with KValue => vstr p x | KDuration => dstr x end.
  Definition bucket_name (k : kind) (p : Z) (name : bytes) (lo hi : Z) : bytes :=
    stat name (bstr k p lo) (bstr k p hi).

  (* the client call a report call results in (meaningless for Flush/Capabilities) *)
  Definition the_call (c : cfg) (o : op) : call :=
    match o with
    | OCounter n _ v => Call CInc n v (eff_rate c) 0
    | OGauge n _ b => Call CGauge n (gauge_int b) (eff_rate c) 0
    | OTimer n _ d => Call CTiming n d (eff_rate c) 0
    | OHistV n _ lo hi s => Call CInc (bucket_name KValue (eff_prec c) n lo hi) s (eff_rate c) 0
    | OHistD n _ lo hi s => Call CInc (bucket_name KDuration (eff_prec c) n lo hi) s (eff_rate c) 0
    | OFlush | OCaps => Call CInc [] 0 0 0
    end.

  Definition step (c : cfg) (o : op) : list out :=
    match o with
    | OFlush => []                                (* no-op *)
    | OCaps => [CapsAre true false]               (* Reporting() = true, Tagging() = false *)
    | _ => [Sent (the_call c o)]
    end.

  Definition run (c : cfg) (ops : list op) : list out := flat_map (step c) ops.
End Oracles.

Definition calls (l : list out) : list call :=
  flat_map (fun x => match x with Sent c => [c] | _ => [] end) l.
Definition capsof (l : list out) : list (bool * bool) :=
  flat_map (fun x => match x with CapsAre r t => [(r, t)] | _ => [] end) l.

(* the names of all buckets of one histogram *)
Definition hist_names (fmtf : Z -> Z -> bytes) (fmtd : Z -> bytes)
           (k : kind) (p : Z) (name : bytes) (spec : list Z) : list bytes :=
  map (fun lh => bucket_name fmtf fmtd k p name (fst lh) (snd lh)) (pairs k spec).
