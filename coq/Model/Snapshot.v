(* Executable model of test-scope snapshots (scope.go: NewTestScope, SubScope,
   Tagged, Counter/Gauge/Timer/Histogram, Close, Snapshot; scope_registry.go:
   Subscope with its testScope special case, ForEachScope; stats.go:
   counter.snapshot, gauge.snapshot, timer.snapshot + timerNoReporterSink,
   histogram.snapshotValues / snapshotDurations as REPAIRED: counts of buckets
   with equal upper bounds add up).

   Two executable descriptions of the same histories:
   * the STORE: a registry of scope objects identified by (prefix, tags), each
     with its own metric maps (name -> cell); a derivation path is resolved
     step by step through the registry (create on first use, closed parent =>
     NoopScope); Snapshot walks every registered scope and every metric map
     and writes entry (full name, tags) -> value into a fresh map, a later
     write for the same key replacing an earlier one;
   * the TALLY: a flat reference map (kind, full name, tags) -> sum / last /
     list / per-bucket counts, with names and tags computed from the path by
     pure functions.

   Strings are byte lists; a tag map is an association list sorted by key
   (bytewise, as Go compares strings) without duplicate keys; float64 are bit
   patterns; int64 are Z with explicit wrap.  The snapshot map key
   KeyForPrefixedStringMap(name, tags) is modelled as the pair (name, tags)
   (its injectivity is C05's subject); the four Go maps per scope / per
   snapshot are one association list keyed by (kind, name).  No sanitizer
   (test scopes have none), separator ".". *)
From Coq Require Import ZArith List Bool.
From Tally Require Import Base.ObsCore Model.Buckets.
Import ListNotations.
Open Scope Z_scope.

(* ---- association lists ------------------------------------------------ *)
Section Assoc.
  Context {K V : Type} (eqb : K -> K -> bool).
  Fixpoint alookup (k : K) (l : list (K * V)) : option V :=
    match l with
    | [] => None
    | (k', v) :: r => if eqb k k' then Some v else alookup k r
    end.
  (* m[k] = f(m[k]) ; a new key is appended *)
  Fixpoint aupdate (k : K) (f : option V -> V) (l : list (K * V)) : list (K * V) :=
    match l with
    | [] => [(k, f None)]
    | (k', v) :: r => if eqb k k' then (k', f (Some v)) :: r else (k', v) :: aupdate k f r
    end.
  Definition aset (k : K) (v : V) := aupdate k (fun _ => v).
  Definition amem (k : K) (l : list K) : bool := existsb (eqb k) l.
End Assoc.

(* ---- strings, tags, identities ---------------------------------------- *)
Definition tagmap := list (bytes * bytes).

Fixpoint bytes_ltb (a b : bytes) : bool :=
  match a, b with
  | _, [] => false
  | [], _ :: _ => true
  | x :: a', y :: b' => if x <? y then true else if y <? x then false else bytes_ltb a' b'
  end.

Definition pair_eqb (a b : bytes * bytes) : bool := zs_eqb (fst a) (fst b) && zs_eqb (snd a) (snd b).
Definition tags_eqb : tagmap -> tagmap -> bool := list_eqb pair_eqb.

(* result[k] = v on a sorted map *)
Fixpoint tag_set (k v : bytes) (m : tagmap) : tagmap :=
  match m with
  | [] => [(k, v)]
  | (k', v') :: r =>
      if zs_eqb k k' then (k, v) :: r
      else if bytes_ltb k k' then (k, v) :: m
      else (k', v') :: tag_set k v r
  end.
(* mergeRightTags(base, copy(extra)): extra wins *)
Definition tag_merge (base extra : tagmap) : tagmap :=
  fold_left (fun m kv => tag_set (fst kv) (snd kv) m) extra base.

Definition SEP : bytes := [46].                         (* DefaultSeparator "." *)
Definition fqn (prefix name : bytes) : bytes :=         (* scope.fullyQualifiedName *)
  match prefix with [] => name | _ => prefix ++ SEP ++ name end.

(* a scope object is identified by the registry key of (prefix, all tags) *)
Definition sid := (bytes * tagmap)%type.
Definition sid_eqb (a b : sid) : bool := zs_eqb (fst a) (fst b) && tags_eqb (snd a) (snd b).

Inductive dstep := DSub (n : bytes) | DTag (t : tagmap).
Definition path := list dstep.
(* SubScope(n) = subscope(fullyQualifiedName(n), nil); Tagged(t) = subscope(prefix, t) *)
Definition step_id (id : sid) (st : dstep) : sid :=
  match st with
  | DSub n => (fqn (fst id) n, snd id)
  | DTag t => (fst id, tag_merge (snd id) t)
  end.

(* ---- metrics ------------------------------------------------------------ *)
Inductive mkind := MC | MG | MT | MH.
Definition mkind_eqb (a b : mkind) : bool :=
  match a, b with MC, MC | MG, MG | MT, MT | MH, MH => true | _, _ => false end.

Definition M64 : Z := 18446744073709551616.
Definition H63 : Z := 9223372036854775808.
Definition wrap (z : Z) : Z := (z + H63) mod M64 - H63.
Arguments wrap : simpl never.

(* what a caller does with a metric of a scope *)
Inductive rec :=
| RGet (mk : mkind) (k : kind) (spec : list Z)   (* Counter(n) / Gauge(n) / Timer(n) / Histogram(n, b) only *)
| RInc (v : Z)                                   (* Counter(n).Inc(v) *)
| RUpdate (bits : Z)                             (* Gauge(n).Update(f) *)
| RRecord (d : Z)                                (* Timer(n).Record(d) *)
| RSample (k : kind) (spec : list Z) (v : Z).    (* Histogram(n, b).RecordValue / RecordDuration *)

Definition rkind (r : rec) : mkind :=
  match r with
  | RGet mk _ _ => mk | RInc _ => MC | RUpdate _ => MG | RRecord _ => MT | RSample _ _ _ => MH
  end.

(* the metric objects of stats.go *)
Inductive cell :=
| CCnt (curr prev : Z)
| CGauge (bits : Z)
| CTimer (vals : list Z)          (* timerNoReporterSink: unreported values, in order *)
| CHist (h : hist).

Definition cell_new (r : rec) : cell :=
  match r with
  | RGet MC _ _ | RInc _ => CCnt 0 0
  | RGet MG _ _ | RUpdate _ => CGauge 0
  | RGet MT _ _ | RRecord _ => CTimer []
  | RGet MH k spec | RSample k spec _ => CHist (hnew k spec)
  end.

Definition cell_do (c : cell) (r : rec) : cell :=
  match c, r with
  | CCnt cu pr, RInc v => CCnt (wrap (cu + v)) pr
  | CGauge _, RUpdate b => CGauge b
  | CTimer l, RRecord d => CTimer (l ++ [d])
  | CHist h, RSample k _ v => CHist (fst (hstep h (HRec k v)))   (* the existing histogram keeps its buckets; type guard *)
  | _, _ => c
  end.
(* get-or-create, then record *)
Definition cell_apply (o : option cell) (r : rec) : cell :=
  cell_do (match o with Some c => c | None => cell_new r end) r.

(* map key of a histogram bound: float64 keys compare with ==, so -0 and +0 are one key *)
Definition ukey (k : kind) (u : Z) : Z :=
  match k with KValue => if u =? SIGN then 0 else u | KDuration => u end.

(* snapshotValues / snapshotDurations (repaired): vals[upper] += count, bucket by bucket *)
Definition aadd (u c : Z) (m : list (Z * Z)) : list (Z * Z) :=
  aupdate Z.eqb u (fun o => match o with Some c0 => c0 + c | None => c end) m.
Definition hsnap_from (k : kind) (us cnt : list Z) : list (Z * Z) :=
  fold_left (fun m uc => aadd (ukey k (fst uc)) (snd uc) m) (combine us cnt) [].
Definition hsnap (h : hist) : list (Z * Z) := hsnap_from (hk h) (hus h) (hcnt h).

(* the pinned tree: vals[upper] = count *)
Definition hsnap_pinned (h : hist) : list (Z * Z) :=
  fold_left (fun m uc => aset Z.eqb (ukey (hk h) (fst uc)) (snd uc) m) (combine (hus h) (hcnt h)) [].

(* one snapshot entry's value *)
Inductive sval :=
| VCnt (v : Z) | VGauge (bits : Z) | VTimer (vals : list Z) | VHist (k : kind) (bs : list (Z * Z)).

Definition cell_snap (c : cell) : sval :=
  match c with
  | CCnt cu pr => VCnt (wrap (cu - pr))          (* counter.snapshot: curr - prev *)
  | CGauge b => VGauge b
  | CTimer l => VTimer l
  | CHist h => VHist (hk h) (hsnap h)
  end.

(* ---- the store ---------------------------------------------------------- *)
Definition lkey := (mkind * bytes)%type.                 (* which map of the scope, local name *)
Definition lkey_eqb (a b : lkey) : bool := mkind_eqb (fst a) (fst b) && zs_eqb (snd a) (snd b).

Record sdata := SData { sclosed : bool; smet : list (lkey * cell) }.
Definition registry := list (sid * sdata).
Definition empty_scope : sdata := SData false [].

Definition is_closed (r : registry) (id : sid) : bool :=
  match alookup sid_eqb id r with Some d => sclosed d | None => false end.
Definition upd_scope (r : registry) (id : sid) (f : sdata -> sdata) : registry :=
  aupdate sid_eqb id (fun o => f (match o with Some d => d | None => empty_scope end)) r.
(* registry.Subscope: return the scope registered under the key (a closed test scope too), else create *)
Definition ensure (r : registry) (id : sid) : registry := upd_scope r id (fun d => d).

(* apply a derivation path starting at scope [id]; a closed root or closed parent
   answers with NoopScope (None): whatever is done with it never reaches the test scope *)
Fixpoint resolve (root : sid) (r : registry) (id : sid) (p : path) : registry * option sid :=
  match p with
  | [] => (r, Some id)
  | st :: rest =>
      if is_closed r root || is_closed r id then (r, None)
      else let id' := step_id id st in resolve root (ensure r id') id' rest
  end.

Inductive op :=
| ORec (p : path) (n : bytes) (r : rec)
| OClose (p : path)
| OSnap.

Definition step (root : sid) (r : registry) (o : op) : registry :=
  match o with
  | ORec p n rc =>
      match resolve root r root p with
      | (r', Some id) =>
          upd_scope r' id (fun d => SData (sclosed d)
             (aupdate lkey_eqb (rkind rc, n) (fun o => cell_apply o rc) (smet d)))
      | (r', None) => r'
      end
  | OClose p =>
      match resolve root r root p with
      | (r', Some id) => upd_scope r' id (fun d => SData true (smet d))
      | (r', None) => r'
      end
  | OSnap => r
  end.

(* NewTestScope(prefix, tags): the registry holds the root *)
Definition norm_tags (t : tagmap) : tagmap := tag_merge [] t.
Definition root_of (prefix : bytes) (tags : tagmap) : sid := (prefix, norm_tags tags).
Definition init (root : sid) : registry := [(root, empty_scope)].
Definition run (root : sid) (ops : list op) : registry := fold_left (step root) ops (init root).

(* Snapshot(): ForEachScope, every metric map, entry by entry into a fresh map *)
Definition mkey := (mkind * bytes * tagmap)%type.        (* which snapshot map, full name, tags *)
Definition mkey_eqb (a b : mkey) : bool :=
  mkind_eqb (fst (fst a)) (fst (fst b)) && zs_eqb (snd (fst a)) (snd (fst b)) && tags_eqb (snd a) (snd b).

Definition scope_entries (sd : sid * sdata) : list (mkey * sval) :=
  map (fun lc => ((fst (fst lc), fqn (fst (fst sd)) (snd (fst lc)), snd (fst sd)), cell_snap (snd lc)))
      (smet (snd sd)).
Definition walk (r : registry) : list (mkey * sval) := flat_map scope_entries r.
Definition snapshot (r : registry) : list (mkey * sval) :=
  fold_left (fun m e => aset mkey_eqb (fst e) (snd e) m) (walk r) [].

(* the snapshots taken during a history, in order *)
Fixpoint snapshots (root : sid) (r : registry) (ops : list op) : list (list (mkey * sval)) :=
  match ops with
  | [] => []
  | o :: rest =>
      let r' := step root r o in
      match o with
      | OSnap => snapshot r' :: snapshots root r' rest
      | _ => snapshots root r' rest
      end
  end.

(* ---- the reference tally ------------------------------------------------ *)
Inductive tval :=
| TSum (s : Z)                (* counter: sum of increments, int64 wrap *)
| TLast (bits : Z)            (* gauge: last update *)
| TList (l : list Z)          (* timer: all durations, in order *)
| THist (h : hist).           (* histogram: per-bucket counts as placed by C03 *)

Definition tval_new (r : rec) : tval :=
  match r with
  | RGet MC _ _ | RInc _ => TSum 0
  | RGet MG _ _ | RUpdate _ => TLast 0
  | RGet MT _ _ | RRecord _ => TList []
  | RGet MH k spec | RSample k spec _ => THist (hnew k spec)
  end.
Definition tval_do (t : tval) (r : rec) : tval :=
  match t, r with
  | TSum s, RInc v => TSum (wrap (s + v))
  | TLast _, RUpdate b => TLast b
  | TList l, RRecord d => TList (l ++ [d])
  | THist h, RSample k _ v => THist (fst (hstep h (HRec k v)))
  | _, _ => t
  end.
Definition tval_apply (o : option tval) (r : rec) : tval :=
  tval_do (match o with Some t => t | None => tval_new r end) r.
Definition tval_snap (t : tval) : sval :=
  match t with
  | TSum s => VCnt s | TLast b => VGauge b | TList l => VTimer l | THist h => VHist (hk h) (hsnap h)
  end.

Record tally := Tally { tclosed : list sid; tmet : list (mkey * tval) }.

(* the scope a path denotes, or None when a step is taken from a closed scope *)
Fixpoint live (root : sid) (closed : list sid) (id : sid) (p : path) : option sid :=
  match p with
  | [] => Some id
  | st :: rest =>
      if amem sid_eqb root closed || amem sid_eqb id closed then None
      else live root closed (step_id id st) rest
  end.

Definition tstep (root : sid) (t : tally) (o : op) : tally :=
  match o with
  | ORec p n rc =>
      match live root (tclosed t) root p with
      | Some id => Tally (tclosed t)
                         (aupdate mkey_eqb (rkind rc, fqn (fst id) n, snd id) (fun o => tval_apply o rc) (tmet t))
      | None => t
      end
  | OClose p =>
      match live root (tclosed t) root p with
      | Some id => Tally (id :: tclosed t) (tmet t)
      | None => t
      end
  | OSnap => t
  end.
Definition trun (root : sid) (ops : list op) : tally := fold_left (tstep root) ops (Tally [] []).
Definition tally_snapshot (t : tally) : list (mkey * sval) :=
  map (fun kv => (fst kv, tval_snap (snd kv))) (tmet t).

(* hypotheses of the theorems: metric names do not contain the separator *)
Definition dotfree (n : bytes) : Prop := ~ In 46 n.
Definition op_ok (o : op) : Prop := match o with ORec _ n _ => dotfree n | _ => True end.
Definition dotfreeb (n : bytes) : bool := negb (existsb (Z.eqb 46) n).

(* the reference snapshots of a history, in order *)
Fixpoint tsnapshots (root : sid) (t : tally) (ops : list op) : list (list (mkey * sval)) :=
  match ops with
  | [] => []
  | o :: rest =>
      let t' := tstep root t o in
      match o with
      | OSnap => tally_snapshot t' :: tsnapshots root t' rest
      | _ => tsnapshots root t' rest
      end
  end.

(* the scopes a path passes through before its last step *)
Fixpoint via (id : sid) (p : path) : list sid :=
  match p with [] => [] | st :: rest => id :: via (step_id id st) rest end.

(* does a sample of kind k land in a bucket whose upper bound has map key u *)
Definition lands (k : kind) (us : list Z) (u : Z) (v : Z) : bool :=
  ukey k (nth (record_idx k us v) us 0) =? u.

(* a histogram and the samples offered to it *)
Definition hrecord (h : hist) (sv : kind * Z) : hist := fst (hstep h (HRec (fst sv) (snd sv))).
Definition hfeed (h : hist) (samples : list (kind * Z)) : hist := fold_left hrecord samples h.

Definition count_landed (k : kind) (us : list Z) (u : Z) (samples : list (kind * Z)) : Z :=
  Z.of_nat (length (filter (fun sv => kind_eqb (fst sv) k && lands k us u (snd sv)) samples)).

(* ---- the tally, declaratively -------------------------------------------- *)
(* the records addressed to key k while their path was live, in order *)
Fixpoint recs_for (root : sid) (cl : list sid) (k : mkey) (ops : list op) : list rec :=
  match ops with
  | [] => []
  | ORec p n rc :: rest =>
      match live root cl root p with
      | Some id => if mkey_eqb k (rkind rc, fqn (fst id) n, snd id)
                   then rc :: recs_for root cl k rest else recs_for root cl k rest
      | None => recs_for root cl k rest
      end
  | OClose p :: rest =>
      match live root cl root p with
      | Some id => recs_for root (id :: cl) k rest
      | None => recs_for root cl k rest
      end
  | OSnap :: rest => recs_for root cl k rest
  end.
Definition apply_recs (o : option tval) (rs : list rec) : option tval :=
  fold_left (fun o rc => Some (tval_apply o rc)) rs o.
Definition inc_of (rc : rec) : Z := match rc with RInc v => v | _ => 0 end.
Definition last_update (b0 : Z) (rs : list rec) : Z :=
  fold_left (fun b rc => match rc with RUpdate x => x | _ => b end) rs b0.
Definition dur_of (rc : rec) : list Z := match rc with RRecord d => [d] | _ => [] end.
Definition sample_of (rc : rec) : list (kind * Z) := match rc with RSample k _ v => [(k, v)] | _ => [] end.
Definition hist_of (rc : rec) : hist :=
  match rc with RGet _ k spec | RSample k spec _ => hnew k spec | _ => hnew KValue [] end.
