(* Integers on the Thrift wire, in arithmetic form (the Go code uses shifts,
   masks and conversions between fixed-width types; the correspondence check
   compares the two on generated values, the theorems are about this form).

   thirdparty/github.com/apache/thrift/lib/go/thrift/compact_protocol.go:
     int64ToZigzag / int32ToZigzag / zigzagToInt64 / zigzagToInt32,
     writeVarint32 / writeVarint64 / readVarint64 / readVarint32
   thirdparty/.../binary_protocol.go: WriteI16/I32/I64 (big endian), ReadI16/I32/I64
   and the conversions int32(x), int16(x), uint32(x), uint64(x) of Go. *)
From Coq Require Import ZArith List Bool.
From Tally Require Import Base.ObsCore.
Import ListNotations.
Open Scope Z_scope.

(* ---- fixed-width conversions ---- *)
Definition wrap16 (z : Z) : Z := (z + 32768) mod 65536 - 32768.                                   (* int16(z) *)
Definition wrap32 (z : Z) : Z := (z + 2147483648) mod 4294967296 - 2147483648.                     (* int32(z) *)
Definition wrap64 (z : Z) : Z := (z + 9223372036854775808) mod 18446744073709551616 - 9223372036854775808.
Definition u16 (z : Z) : Z := z mod 65536.                                                         (* uint16(z) *)
Definition u32 (z : Z) : Z := z mod 4294967296.                                                    (* uint32(z) *)
Definition u64 (z : Z) : Z := z mod 18446744073709551616.                                          (* uint64(z) *)

Definition int16 (z : Z) : Prop := -32768 <= z < 32768.
Definition int32 (z : Z) : Prop := -2147483648 <= z < 2147483648.
Definition int64 (z : Z) : Prop := -9223372036854775808 <= z < 9223372036854775808.
Definition bits64 (z : Z) : Prop := 0 <= z < 18446744073709551616.   (* a float64 as its bit pattern *)
Definition MAXI64 : Z := 9223372036854775807.
Definition MAXF64 : Z := 9218868437227405311.                        (* bits of math.MaxFloat64 = 0x7FEFFFFFFFFFFFFF *)

(* ---- zig-zag: (n << 1) ^ (n >> 63), read as an unsigned number ---- *)
Definition zigzag (l : Z) : Z := if l <? 0 then -2 * l - 1 else 2 * l.
(* int64(u >> 1) ^ -(n & 1) on the unsigned number u *)
Definition unzigzag (u : Z) : Z := if u mod 2 =? 0 then u / 2 else - ((u + 1) / 2).

(* ---- varint writer: the loop of writeVarint32/64 on the unsigned value.
   [fuel] bounds the number of continuation bytes (4 for 32 bits, 9 for 64). ---- *)
Fixpoint varint (fuel : nat) (u : Z) : bytes :=
  match fuel with
  | O => [u]
  | S f => if u <? 128 then [u] else (u mod 128 + 128) :: varint f (u / 128)
  end.
Definition varint32 (n : Z) : bytes := varint 4 (u32 n).    (* writeVarint32(n int32) *)
Definition varint64 (n : Z) : bytes := varint 9 (u64 n).    (* writeVarint64(n int64) *)

(* ---- varint reader: the loop of readVarint64 reads continuation bytes
   without any bound; the value is the sum of the 7-bit groups, of which Go
   keeps the low 64 bits (shifts of 64 and more give 0). ---- *)
Fixpoint unvarint (bs : bytes) : option (Z * bytes) :=
  match bs with
  | [] => None
  | b :: rest =>
      if b <? 128 then Some (b, rest)
      else match unvarint rest with
           | Some (v, rest') => Some ((b - 128) + 128 * v, rest')
           | None => None
           end
  end.

(* ---- fixed-width big endian (Binary protocol) and little endian (Compact double) ---- *)
Definition be16 (u : Z) : bytes := [(u / 256) mod 256; u mod 256].
Definition be32 (u : Z) : bytes :=
  [(u / 16777216) mod 256; (u / 65536) mod 256; (u / 256) mod 256; u mod 256].
Definition be64 (u : Z) : bytes := be32 (u / 4294967296) ++ be32 (u mod 4294967296).
Definition le64 (u : Z) : bytes :=
  [u mod 256; (u / 256) mod 256; (u / 65536) mod 256; (u / 16777216) mod 256;
   (u / 4294967296) mod 256; (u / 1099511627776) mod 256; (u / 281474976710656) mod 256;
   (u / 72057594037927936) mod 256].

Definition rd_be16 (bs : bytes) : option (Z * bytes) :=
  match bs with a :: b :: r => Some (a * 256 + b, r) | _ => None end.
Definition rd_be32 (bs : bytes) : option (Z * bytes) :=
  match bs with a :: b :: c :: d :: r => Some (a * 16777216 + b * 65536 + c * 256 + d, r) | _ => None end.
Definition rd_be64 (bs : bytes) : option (Z * bytes) :=
  match rd_be32 bs with
  | Some (hi, r) => match rd_be32 r with Some (lo, r') => Some (hi * 4294967296 + lo, r') | None => None end
  | None => None
  end.
Definition rd_le64 (bs : bytes) : option (Z * bytes) :=
  match bs with
  | a :: b :: c :: d :: e :: f :: g :: h :: r =>
      Some (a + b * 256 + c * 65536 + d * 16777216 + e * 4294967296 + f * 1099511627776 +
            g * 281474976710656 + h * 72057594037927936, r)
  | _ => None
  end.

(* read exactly n bytes: the RemainingBytes test followed by io.ReadFull *)
Fixpoint takez (bs : bytes) (n : Z) : option (bytes * bytes) :=
  if n <=? 0 then Some ([], bs)
  else match bs with
       | [] => None
       | b :: r => match takez r (n - 1) with
                   | Some (a, r') => Some (b :: a, r')
                   | None => None
                   end
       end.
