(* Executable model of the bucket cache (stats.go: bucketCache.Get,
   newBucketStorage, getBucketsIdentity; histogram.go: bucketsEqual;
   internal/identity/accumulator.go: Float64s / Durations) and of the way a
   histogram obtains its bounds from it (scope.go: Histogram; stats.go:
   newHistogram).

   A bucket specification is a kind (ValueBuckets / DurationBuckets) and the
   list of its elements (float64 bit patterns, resp. int64).  The identity
   function is a Section variable: the model is parametric in it, so that
   every statement proved about it holds whatever collides.  [real_ident] is
   the function of the code (seed 23, plus 31 times every element, modulo
   2^64; 0 for the empty specification) and is the instance the correspondence
   check runs. *)
From Coq Require Import ZArith List Bool Arith.
From Tally Require Import Base.Search Model.Buckets Model.Ctor.
Import ListNotations.
Open Scope Z_scope.

(* the comparison b1[i] != b2[i] of bucketsEqual *)
Definition elem_eqb (k : kind) (a b : Z) : bool :=
  match k with KValue => feq a b | KDuration => a =? b end.

Fixpoint all2 (f : Z -> Z -> bool) (a b : list Z) : bool :=
  match a, b with
  | [], [] => true
  | x :: a', y :: b' => f x y && all2 f a' b'
  | _, _ => false
  end.

(* bucketsEqual(x, y): same dynamic type, same length, elementwise == *)
Definition buckets_equal (k : kind) (x : list Z) (k' : kind) (y : list Z) : bool :=
  kind_eqb k k' && all2 (elem_eqb k) x y.

(* the bounds a histogram works with, from the upper bounds of its storage
   (valueLowerBound / durationLowerBound) *)
Definition hpairs (k : kind) (us : list Z) : list (Z * Z) :=
  map (fun i => (lower k us i, nth i us 0)) (seq 0 (length us)).

(* bucketStorage; [sown] is the number of the creation that built it (the
   slice the storage keeps is that creation's slice) *)
Record storage := Storage { sown : nat; skind : kind; sspec : list Z; sbounds : list Z }.

(* newBucketStorage: the upper bounds of BucketPairs(buckets) *)
Definition mkstorage (own : nat) (k : kind) (spec : list Z) : storage :=
  Storage own k spec (map snd (pairs k spec)).

Section Cache.
  Variable ident : kind -> list Z -> Z.              (* getBucketsIdentity: ANY function *)

  Definition cache := list (Z * storage).            (* map[uint64]bucketStorage *)
  Fixpoint lookup (c : cache) (id : Z) : option storage :=
    match c with
    | [] => None
    | (id', s) :: c' => if id =? id' then Some s else lookup c' id
    end.
  Definition store (c : cache) (id : Z) (s : storage) : cache := (id, s) :: c.

  (* the outcome of the read-locked probe of Get *)
  Definition on_hit (own : nat) (k : kind) (spec : list Z) (s : storage) : storage :=
    if buckets_equal k spec (skind s) (sspec s) then s else mkstorage own k spec.

  (* bucketCache.Get, run without interference *)
  Definition get (c : cache) (own : nat) (k : kind) (spec : list Z) : cache * storage :=
    match lookup c (ident k spec) with
    | None => let s := mkstorage own k spec in (store c (ident k spec) s, s)
    | Some s => (c, on_hit own k spec s)
    end.

  (* the mutant the repository's suite cannot tell apart: every hit is accepted *)
  Definition get_nocheck (c : cache) (own : nat) (k : kind) (spec : list Z) : cache * storage :=
    match lookup c (ident k spec) with
    | None => let s := mkstorage own k spec in (store c (ident k spec) s, s)
    | Some s => (c, s)
    end.

  (* a creation history: the storage handed to each creation, in order *)
  Fixpoint run_from (g : cache -> nat -> kind -> list Z -> cache * storage)
           (c : cache) (own : nat) (h : list (kind * list Z)) : list storage :=
    match h with
    | [] => []
    | (k, spec) :: r => let '(c', s) := g c own k spec in s :: run_from g c' (S own) r
    end.
  Definition run (h : list (kind * list Z)) : list storage := run_from get [] 0 h.
  Definition cache_after (h : list (kind * list Z)) : cache :=
    fold_left (fun c p => fst (get c 0 (fst p) (snd p))) h [].

  (* ---- Get under interleaving.  Its two critical sections are atomic (the
     probe under RLock, the insertion under Lock); between them any other
     goroutine may run.  A thread is a creation request; its program counter: *)
  Inductive pc :=
  | PStart (k : kind) (spec : list Z)               (* before the probe *)
  | PMiss (k : kind) (spec : list Z)                (* probe missed; about to Lock and insert *)
  | PDone (k : kind) (spec : list Z) (s : storage). (* Get returned s *)

  Record cstate := CState { ccache : cache; cthreads : list pc }.

  Fixpoint upd {A} (l : list A) (i : nat) (x : A) : list A :=
    match l, i with
    | [], _ => []
    | _ :: r, O => x :: r
    | y :: r, S j => y :: upd r j x
    end.

  (* thread t takes its next atomic step *)
  Definition cstep (st : cstate) (t : nat) : cstate :=
    match nth_error (cthreads st) t with
    | Some (PStart k spec) =>
        match lookup (ccache st) (ident k spec) with
        | None => CState (ccache st) (upd (cthreads st) t (PMiss k spec))
        | Some s => CState (ccache st) (upd (cthreads st) t (PDone k spec (on_hit t k spec s)))
        end
    | Some (PMiss k spec) =>
        let s := mkstorage t k spec in
        CState (store (ccache st) (ident k spec) s) (upd (cthreads st) t (PDone k spec s))
    | _ => st
    end.

  Definition crun (reqs : list (kind * list Z)) (sched : list nat) : cstate :=
    fold_left cstep sched (CState [] (map (fun p => PStart (fst p) (snd p)) reqs)).
End Cache.

(* ---- the identity function of the code ---- *)
Definition sum64 (l : list Z) : Z := fold_right (fun x a => (x mod P64 + a) mod P64) 0 l.
Definition real_ident (k : kind) (spec : list Z) : Z :=
  match spec with
  | [] => 0
  | _ => (23 + 31 * sum64 spec) mod P64
  end.

(* ---- a histogram on a storage ---- *)
(* newHistogram: kind from the requested buckets, bounds from the storage *)
Definition hist_of (k : kind) (s : storage) : hist :=
  Hist k (sbounds s) (repeat 0 (length (sbounds s))).

(* record the samples (of the histogram's own kind), then one report pass *)
Definition deliveries_after (h : hist) (samples : list Z) : list (Z * Z * Z) :=
  deliveries (fold_left (fun h v => fst (hstep h (HRec (hk h) v))) samples h).
