(* Executable model of multi/reporter.go: a multi reporter over n recording
   children.  Plain-interface calls (and Flush) are forwarded as they are;
   a cached multi reporter allocates one child handle per child and forwards
   every report on the composite handle to each child handle, histogram
   buckets included.  Children are called in the order they were given: the
   global log records (child index, event) in call order. *)
From Coq Require Import ZArith List Bool.
From Tally Require Import Base.ObsCore.
Import ListNotations.
Open Scope Z_scope.

Inductive op :=
| OPlain (c : ev)                                   (* plain-interface call or Flush, as an event *)
| OAlloc (k : Z) (args : list Z) (strs : list bytes) (* Allocate{Counter,Gauge,Timer,Histogram}: k = 11..14 *)
| ORep (k : Z) (h : nat) (v : Z)                    (* Report{Count,Gauge,Timer} on composite handle h: k = 21..23 *)
| OBucket (k : Z) (h : nat) (lo hi : Z)             (* ValueBucket / DurationBucket on composite handle h: k = 24, 25 *)
| OSamples (b : nat) (v : Z).                       (* ReportSamples on composite bucket b *)

(* a recording child: numbers its handles and buckets in allocation order *)
Record child := Child { cnh : Z; cnb : Z }.

Record mstate := MState {
  kids : list child;
  mh : list (list Z);      (* composite handle -> child handle ids, one per child *)
  mb : list (list Z);      (* composite bucket -> child bucket ids *)
  glog : list (nat * ev)   (* (child index, what that child saw), in call order *)
}.

Definition init (n : nat) : mstate :=
  MState (repeat (Child 0 0) n) [] [] [].

Fixpoint tag_from (i : nat) (l : list ev) : list (nat * ev) :=
  match l with [] => [] | e :: l' => (i, e) :: tag_from (S i) l' end.

(* call every child in order with the per-child argument list [ids] *)
Fixpoint zip_with {A B C} (f : A -> B -> C) (a : list A) (b : list B) : list C :=
  match a, b with x :: a', y :: b' => f x y :: zip_with f a' b' | _, _ => [] end.

Definition step (s : mstate) (o : op) : mstate :=
  match o with
  | OPlain c =>
      MState (kids s) (mh s) (mb s) (glog s ++ tag_from 0 (map (fun _ => c) (kids s)))
  | OAlloc k args strs =>
      let ids := map cnh (kids s) in
      MState (map (fun c => Child (cnh c + 1) (cnb c)) (kids s))
             (mh s ++ [ids]) (mb s)
             (glog s ++ tag_from 0 (map (fun c => Ev k (cnh c :: args) strs) (kids s)))
  | ORep k h v =>
      match nth_error (mh s) h with
      | None => s
      | Some ids =>
          MState (kids s) (mh s) (mb s)
                 (glog s ++ tag_from 0 (map (fun id => Ev k [id; v] []) ids))
      end
  | OBucket k h lo hi =>
      match nth_error (mh s) h with
      | None => s
      | Some ids =>
          let bids := map cnb (kids s) in
          MState (map (fun c => Child (cnh c) (cnb c + 1)) (kids s))
                 (mh s) (mb s ++ [bids])
                 (glog s ++ tag_from 0 (zip_with (fun id c => Ev k [id; lo; hi; cnb c] []) ids (kids s)))
      end
  | OSamples b v =>
      match nth_error (mb s) b with
      | None => s
      | Some bids =>
          MState (kids s) (mh s) (mb s)
                 (glog s ++ tag_from 0 (map (fun id => Ev 26 [id; v] []) bids))
      end
  end.

Definition run (n : nat) (ops : list op) : mstate := fold_left step ops (init n).

Definition child_log (i : nat) (s : mstate) : list ev :=
  map snd (filter (fun p => Nat.eqb (fst p) i) (glog s)).

(* Capabilities() of the multi reporter from the children's (reporting, tagging) *)
Definition caps (cs : list (bool * bool)) : bool * bool :=
  (forallb fst cs, forallb snd cs).

(* A multi reporter is itself a reporter: children may be multi reporters again.  [deliver t i c]
   is the sequence of leaf calls (leaf number, call) when c is reported on the tree t whose
   leaves are numbered from i, left to right. *)
Inductive rtree := Leaf | Node (ks : list rtree).
Fixpoint leaves (t : rtree) : nat :=
  match t with
  | Leaf => 1
  | Node ks => (fix go (ks : list rtree) : nat := match ks with [] => 0 | k :: r => leaves k + go r end)%nat ks
  end.
Fixpoint deliver (t : rtree) (i : nat) (c : ev) : list (nat * ev) :=
  match t with
  | Leaf => [(i, c)]
  | Node ks => (fix go (ks : list rtree) (i : nat) : list (nat * ev) :=
                  match ks with [] => [] | k :: r => deliver k i c ++ go r (i + leaves k)%nat end) ks i
  end.
