(* Executable model of stats.go counter: Inc and the (repaired) value() run by
   any number of concurrent report passes, at the granularity of the atomic
   operations (one model step = the code between two yield points).
   value():  for { p := load prev; [y1] c := load curr; if p == c {return 0};
                   [y2] if CAS(prev, p, c) {return c - p}; [y3] }            *)
From Coq Require Import ZArith List Bool.
Import ListNotations.
Open Scope Z_scope.

Definition M : Z := 18446744073709551616.          (* 2^64 *)
Definition H : Z := 9223372036854775808.           (* 2^63 *)
Definition wrap (z : Z) : Z := (z + H) mod M - H.  (* int64 wrap-around *)
Arguments wrap : simpl never.

(* reporter thread executing the repaired value(): p := prev; c := curr; if p = c ret 0; CAS(prev,p,c) *)
Inductive rpc :=
| RIdle (passes : nat)
| RLoadCurr (passes : nat) (p : Z)
| RCas (passes : nat) (p c : Z)
| RRetry (passes : nat).                 (* CAS failed: the same pass starts over *)

Inductive thread :=
| TInc (pending : list Z)
| TRep (pc : rpc).

Record sys := { curr : Z; prev : Z; log : list Z; thr : list thread }.

Fixpoint upd {A} (l : list A) (i : nat) (x : A) : list A :=
  match l, i with
  | [], _ => []
  | _ :: t, O => x :: t
  | h :: t, S i' => h :: upd t i' x
  end.

Definition set_thr (s : sys) (i : nat) (t : thread) : sys :=
  {| curr := curr s; prev := prev s; log := log s; thr := upd (thr s) i t |}.

Definition step (s : sys) (i : nat) : sys :=
  match nth_error (thr s) i with
  | Some (TInc (v :: vs)) =>
      set_thr {| curr := wrap (curr s + v); prev := prev s; log := log s; thr := thr s |} i (TInc vs)
  | Some (TRep (RIdle (S n))) => set_thr s i (TRep (RLoadCurr n (prev s)))
  | Some (TRep (RRetry n)) => set_thr s i (TRep (RLoadCurr n (prev s)))
  | Some (TRep (RLoadCurr n p)) =>
      if Z.eqb p (curr s) then set_thr s i (TRep (RIdle n))
      else set_thr s i (TRep (RCas n p (curr s)))
  | Some (TRep (RCas n p c)) =>
      if Z.eqb (prev s) p
      then set_thr {| curr := curr s; prev := c; log := wrap (c - p) :: log s; thr := thr s |} i (TRep (RIdle n))
      else set_thr s i (TRep (RRetry n))
  | _ => s
  end.

Definition run (s : sys) (sched : list nat) : sys := fold_left step sched s.
Definition sumZ (l : list Z) : Z := fold_right Z.add 0 l.
Definition init (ths : list thread) : sys := {| curr := 0; prev := 0; log := []; thr := ths |}.


(* ---- the pinned tree's value(): c := load curr; [y1] p := load prev;
        if p == c {return 0}; [y2] store prev c; return c - p  (not atomic) ---- *)
Inductive ppc :=
| PIdle (passes : nat)
| PLoadPrev (passes : nat) (c : Z)
| PStore (passes : nat) (p c : Z).
Inductive pthread := PInc (pending : list Z) | PRep (pc : ppc).
Record psys := { pcurr : Z; pprev : Z; plog : list Z; pthr : list pthread }.
Definition pset (s : psys) (i : nat) (t : pthread) : psys :=
  {| pcurr := pcurr s; pprev := pprev s; plog := plog s; pthr := upd (pthr s) i t |}.
Definition pstep (s : psys) (i : nat) : psys :=
  match nth_error (pthr s) i with
  | Some (PInc (v :: vs)) =>
      pset {| pcurr := wrap (pcurr s + v); pprev := pprev s; plog := plog s; pthr := pthr s |} i (PInc vs)
  | Some (PRep (PIdle (S n))) => pset s i (PRep (PLoadPrev n (pcurr s)))
  | Some (PRep (PLoadPrev n c)) =>
      if Z.eqb (pprev s) c then pset s i (PRep (PIdle n)) else pset s i (PRep (PStore n (pprev s) c))
  | Some (PRep (PStore n p c)) =>
      pset {| pcurr := pcurr s; pprev := c; plog := wrap (c - p) :: plog s; pthr := pthr s |} i (PRep (PIdle n))
  | _ => s
  end.
Definition prun (s : psys) (sched : list nat) : psys := fold_left pstep sched s.
Definition pinit (ths : list pthread) : psys := {| pcurr := 0; pprev := 0; plog := []; pthr := ths |}.

(* yield label at which a thread is parked (0 = before an operation / pass, -1 = finished) *)
Definition label (t : thread) : Z :=
  match t with
  | TInc [] => -1
  | TInc _ => 0
  | TRep (RIdle O) => -1
  | TRep (RIdle _) => 0
  | TRep (RLoadCurr _ _) => 1
  | TRep (RCas _ _ _) => 2
  | TRep (RRetry _) => 3
  end.
