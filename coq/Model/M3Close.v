(* Executable model of the M3 reporter's enter/close protocol
   (m3/reporter.go: reportCopyMetric, Flush, Close, process(), the bucket handle
   closure) at the granularity of the atomic operations: one model step = the
   code between two yield points of the `verif` hook (labels in brackets).

   reportCopyMetric(m):  [41] pending++ [42] if done.Load() { [44] return }
                         [43] select { metCh <- m | <-donech } [44] pending--
   bucket handle:        m.Value.Count = v [40] reportCopyMetric(m)        (repaired:
                         m is a per-call copy; pinned: one m shared by all calls)
   Flush():              pending++ [46] if done.Load() { [49] return } [47]
                         reportInternalMetrics()   (one bucket sample + four counters,
                         each a nested reportCopyMetric) [48] metCh <- marker [49] pending--
   Close():              if !done.CAS(false,true) { return errAlreadyClosed } [51]
                         for pending.Load() > 0 { [52] Gosched } [53] close(donech) [54]
                         close(metCh) [55] wg.Wait(); return nil
   process():            [60] for m := range metCh { [61] ... } [62] final flush; exit

   Channels: metCh is a bounded FIFO buffer (capacity cap) with Go's two
   hand-over rules: a receiver that is already waiting takes the next item
   directly (one item beyond the buffer), and senders that found the buffer full
   wait in arrival order (sendq) and complete as soon as a receive frees a slot.
   A send on the closed queue, or closing it while senders wait, is the error
   state `panicked`.  Blocked threads are disabled: their step changes nothing
   except registering them as waiting.
   Schedule: a list of picks, 0 = the consumer (process()), S i = caller thread i. *)
From Coq Require Import ZArith List Bool Arith.
Import ListNotations.

Inductive op := OReport (v : Z) | OSample (v : Z) | OFlush | OClose.

Inductive loc :=
| LIdle                                   (* between two calls *)
| LWrote | LCall | LEnter | LSend | LSent | LLeave       (* 40 41 42 43 (44) 44 *)
| FEnter | FInt | FSend | FSent | FLeave                 (* 46 47 48 (49) 49 *)
| CSpin1 | CSpin2 | CClose1 | CClose2 | CWait.           (* 51 52 53 54 55 *)

(* nest: reports still to make inside the current Flush (0 = a caller's own report);
   x: the value this call will enqueue; res: results of the Close calls (0 nil, 1 error),
   latest first; sent: (argument, enqueued value) of the caller's own bucket samples *)
Record thread := { tloc : loc; nest : nat; x : Z; ops : list op; res : list Z;
                   sent : list (Z * Z) }.

Inductive kloc := KPark0 | KPark | KExit | KDone.        (* 60 61 62 finished *)

Record sys := { done : bool; pending : nat; dclosed : bool; mclosed : bool;
                q : list Z; sendq : list nat; kl : kloc; kwait : bool; out : list Z;
                panicked : bool; cell : Z; thr : list thread }.

Definition marker_flush : Z := (-2)%Z.    (* the empty sizedMetric of Flush *)
Definition marker_internal : Z := (-1)%Z. (* tally.internal.* metrics *)
Definition internal_reports : nat := 5.

Fixpoint upd {A} (l : list A) (i : nat) (a : A) : list A :=
  match l, i with
  | [], _ => []
  | _ :: t, O => a :: t
  | h :: t, S i' => h :: upd t i' a
  end.

Definition set_thr (s : sys) (l : list thread) : sys :=
  {| done := done s; pending := pending s; dclosed := dclosed s; mclosed := mclosed s; q := q s;
     sendq := sendq s; kl := kl s; kwait := kwait s; out := out s; panicked := panicked s;
     cell := cell s; thr := l |}.
Definition set_pending (s : sys) (n : nat) : sys :=
  {| done := done s; pending := n; dclosed := dclosed s; mclosed := mclosed s; q := q s;
     sendq := sendq s; kl := kl s; kwait := kwait s; out := out s; panicked := panicked s;
     cell := cell s; thr := thr s |}.
Definition set_done (s : sys) : sys :=
  {| done := true; pending := pending s; dclosed := dclosed s; mclosed := mclosed s; q := q s;
     sendq := sendq s; kl := kl s; kwait := kwait s; out := out s; panicked := panicked s;
     cell := cell s; thr := thr s |}.
Definition set_dclosed (s : sys) : sys :=
  {| done := done s; pending := pending s; dclosed := true; mclosed := mclosed s; q := q s;
     sendq := sendq s; kl := kl s; kwait := kwait s; out := out s; panicked := panicked s;
     cell := cell s; thr := thr s |}.
Definition set_mclosed (s : sys) : sys :=
  {| done := done s; pending := pending s; dclosed := dclosed s; mclosed := true; q := q s;
     sendq := sendq s; kl := kl s; kwait := kwait s; out := out s; panicked := panicked s;
     cell := cell s; thr := thr s |}.
Definition set_q (s : sys) (l : list Z) : sys :=
  {| done := done s; pending := pending s; dclosed := dclosed s; mclosed := mclosed s; q := l;
     sendq := sendq s; kl := kl s; kwait := kwait s; out := out s; panicked := panicked s;
     cell := cell s; thr := thr s |}.
Definition set_sendq (s : sys) (l : list nat) : sys :=
  {| done := done s; pending := pending s; dclosed := dclosed s; mclosed := mclosed s; q := q s;
     sendq := l; kl := kl s; kwait := kwait s; out := out s; panicked := panicked s;
     cell := cell s; thr := thr s |}.
Definition set_k (s : sys) (k : kloc) (w : bool) : sys :=
  {| done := done s; pending := pending s; dclosed := dclosed s; mclosed := mclosed s; q := q s;
     sendq := sendq s; kl := k; kwait := w; out := out s; panicked := panicked s;
     cell := cell s; thr := thr s |}.
Definition set_out (s : sys) (l : list Z) : sys :=
  {| done := done s; pending := pending s; dclosed := dclosed s; mclosed := mclosed s; q := q s;
     sendq := sendq s; kl := kl s; kwait := kwait s; out := l; panicked := panicked s;
     cell := cell s; thr := thr s |}.
Definition set_panicked (s : sys) : sys :=
  {| done := done s; pending := pending s; dclosed := dclosed s; mclosed := mclosed s; q := q s;
     sendq := sendq s; kl := kl s; kwait := kwait s; out := out s; panicked := true;
     cell := cell s; thr := thr s |}.
Definition set_cell (s : sys) (v : Z) : sys :=
  {| done := done s; pending := pending s; dclosed := dclosed s; mclosed := mclosed s; q := q s;
     sendq := sendq s; kl := kl s; kwait := kwait s; out := out s; panicked := panicked s;
     cell := v; thr := thr s |}.

Definition at_loc (t : thread) (l : loc) : thread :=
  {| tloc := l; nest := nest t; x := x t; ops := ops t; res := res t; sent := sent t |}.
Definition at_call (t : thread) (l : loc) (n : nat) (v : Z) : thread :=
  {| tloc := l; nest := n; x := v; ops := ops t; res := res t; sent := sent t |}.
(* the current call returns; a Close call records its result *)
Definition finish (t : thread) : thread :=
  {| tloc := LIdle; nest := 0; x := x t; ops := tl (ops t); res := res t; sent := sent t |}.
Definition finish_close (t : thread) (r : Z) : thread :=
  {| tloc := LIdle; nest := 0; x := x t; ops := tl (ops t); res := r :: res t; sent := sent t |}.
Definition log_sent (t : thread) : thread :=
  match tloc t, ops t, nest t with
  | LSend, OSample v :: _, O =>
      {| tloc := tloc t; nest := nest t; x := x t; ops := ops t; res := res t;
         sent := (v, x t) :: sent t |}
  | _, _, _ => t
  end.

Definition put (s : sys) (i : nat) (t : thread) : sys := set_thr s (upd (thr s) i t).

Definition bonus (s : sys) : nat := if kwait s then 1 else 0.
Definition room (cap : nat) (s : sys) : bool := length (q s) <? cap + bonus s.
Definition waiting (s : sys) (i : nat) : bool := existsb (Nat.eqb i) (sendq s).

Definition sent_loc (l : loc) : loc :=
  match l with LSend => LSent | FSend => FSent | l => l end.

(* a receive freed a buffer slot: the longest-waiting sender completes *)
Definition wake (cap : nat) (s : sys) : sys :=
  match sendq s with
  | i :: rest =>
      if length (q s) <? cap then
        match nth_error (thr s) i with
        | Some t => put (set_sendq (set_q s (q s ++ [x t])) rest) i
                        (at_loc (log_sent t) (sent_loc (tloc t)))
        | None => set_sendq s rest
        end
      else s
  | [] => s
  end.

(* the consumer: process() *)
Definition kstep (cap : nat) (s : sys) : sys :=
  match kl s with
  | KDone => s
  | KExit => set_k s KDone false
  | KPark0 | KPark =>
      match q s with
      | v :: r => wake cap (set_k (set_out (set_q s r) (v :: out s)) KPark false)
      | [] => if mclosed s then set_k s KExit false else set_k s (kl s) true
      end
  end.

(* the send of thread i at the select (sel = true) or at Flush's plain send *)
Definition send (cap : nat) (s : sys) (i : nat) (t : thread) (sel : bool) (after : loc) : sys :=
  if waiting s i then s
  else if mclosed s then put (set_panicked s) i (at_loc t after)
  else if sel && dclosed s then put s i (at_loc t after)
  else if room cap s then put (set_q s (q s ++ [x t])) i (at_loc (log_sent t) after)
  else set_sendq s (sendq s ++ [i]).

Definition dec (s : sys) : sys := set_pending s (pred (pending s)).
Definition inc (s : sys) : sys := set_pending s (S (pending s)).

Section Step.
Variable shared : bool.   (* true = the pinned bucket handle: one metric value for all calls *)
Variable cap : nat.

Definition tstep (s : sys) (i : nat) : sys :=
  match nth_error (thr s) i with
  | None => s
  | Some t =>
      match tloc t with
      | LIdle =>
          match ops t with
          | [] => s
          | OReport v :: _ => put s i (at_call t LCall 0 v)
          | OSample v :: _ => put (set_cell s v) i (at_call t LWrote 0 v)
          | OFlush :: _ => put (inc s) i (at_loc t FEnter)
          | OClose :: _ =>
              if done s then put s i (finish_close t 1)
              else put (set_done s) i (at_loc t CSpin1)
          end
      | LWrote =>
          put s i (at_call t LCall (nest t)
                     (if shared && (nest t =? 0) then cell s else x t))
      | LCall => put (inc s) i (at_loc t LEnter)
      | LEnter => if done s then put s i (at_loc t LLeave) else put s i (at_loc t LSend)
      | LSend => send cap s i t true LLeave
      | LSent => put s i (at_loc t LLeave)
      | LLeave =>
          match nest t with
          | O => put (dec s) i (finish t)
          | S O => put (dec s) i (at_call t FSend 0 marker_flush)
          | S k => put (dec s) i (at_call t LCall k marker_internal)
          end
      | FEnter => if done s then put s i (at_loc t FLeave) else put s i (at_loc t FInt)
      | FInt => put s i (at_call t LWrote internal_reports marker_internal)
      | FSend => send cap s i t false FLeave
      | FSent => put s i (at_loc t FLeave)
      | FLeave => put (dec s) i (finish t)
      | CSpin1 | CSpin2 =>
          if pending s =? 0 then put s i (at_loc t CClose1) else put s i (at_loc t CSpin2)
      | CClose1 => put (set_dclosed s) i (at_loc t CClose2)
      | CClose2 =>
          let s1 := set_mclosed s in
          put (match sendq s with [] => s1 | _ => set_panicked s1 end) i (at_loc t CWait)
      | CWait =>
          match kl s with
          | KDone => put s i (finish_close t 0)
          | _ => s
          end
      end
  end.

Definition step (s : sys) (j : nat) : sys :=
  match j with O => kstep cap s | S i => tstep s i end.

Definition run (s : sys) (sched : list nat) : sys := fold_left step sched s.

(* ---- what the schedule controller reports for a pick ---- *)
Definition tblocked (s : sys) (i : nat) : bool :=
  match nth_error (thr s) i with
  | None => false
  | Some t =>
      match tloc t with
      | LSend => waiting s i || (negb (mclosed s) && negb (dclosed s) && negb (room cap s))
      | FSend => waiting s i || (negb (mclosed s) && negb (room cap s))
      | CWait => match kl s with KDone => false | _ => true end
      | _ => false
      end
  end.
Definition kblocked (s : sys) : bool :=
  match kl s with
  | KPark0 | KPark => match q s with [] => negb (mclosed s) | _ => false end
  | _ => false
  end.
Definition blocked (s : sys) (j : nat) : bool :=
  match j with O => kblocked s | S i => tblocked s i end.

(* a pick that makes progress: not finished, not blocked, not a spin that sees pending > 0 *)
Definition tenabled (s : sys) (i : nat) : bool :=
  match nth_error (thr s) i with
  | None => false
  | Some t =>
      match tloc t with
      | LIdle => match ops t with [] => false | _ => true end
      | CSpin2 => pending s =? 0
      | _ => negb (tblocked s i)
      end
  end.
Definition kenabled (s : sys) : bool :=
  match kl s with KDone => false | _ => negb (kblocked s) end.
Definition enabled (s : sys) (j : nat) : bool :=
  match j with O => kenabled s | S i => tenabled s i end.

End Step.

Definition new_thread (p : list op) : thread :=
  {| tloc := LIdle; nest := 0; x := 0%Z; ops := p; res := []; sent := [] |}.
Definition init (progs : list (list op)) : sys :=
  {| done := false; pending := 0; dclosed := false; mclosed := false; q := []; sendq := [];
     kl := KPark0; kwait := false; out := []; panicked := false; cell := 0%Z;
     thr := map new_thread progs |}.

Definition finished (t : thread) : bool :=
  match tloc t, ops t with LIdle, [] => true | _, _ => false end.
Definition all_finished (s : sys) : bool := forallb finished (thr s).

(* yield labels (harness/vh/sched.go: Finished = -1, Blocked = -3) *)
Open Scope Z_scope.
Definition tlabel (t : thread) : Z :=
  match tloc t with
  | LIdle => match ops t with [] => -1 | _ => 0 end
  | LWrote => 40 | LCall => 41 | LEnter => 42 | LSend => 43 | LSent => 43 | LLeave => 44
  | FEnter => 46 | FInt => 47 | FSend => 48 | FSent => 48 | FLeave => 49
  | CSpin1 => 51 | CSpin2 => 52 | CClose1 => 53 | CClose2 => 54 | CWait => 55
  end.
Definition klabel (k : kloc) : Z :=
  match k with KPark0 => 60 | KPark => 61 | KExit => 62 | KDone => -1 end.
Definition label (s : sys) (j : nat) : Z :=
  match j with
  | O => klabel (kl s)
  | S i => match nth_error (thr s) i with Some t => tlabel t | None => -2 end
  end.
Close Scope Z_scope.

(* the round-robin schedule: k rounds over the consumer and n caller threads *)
Definition round (n : nat) : list nat := seq 0 (S n).
Fixpoint rounds (n k : nat) : list nat :=
  match k with O => [] | S k' => round n ++ rounds n k' end.

(* number of Close calls that returned nil *)
Definition nil_results (t : thread) : nat := length (filter (Z.eqb 0) (res t)).
Definition err_results (t : thread) : nat := length (filter (Z.eqb 1) (res t)).
