(* Executable model of the scope registry (scope_registry.go: Subscope, Report /
   CachedReport, removeWithRLock; scope.go: Close, clearMetrics) for ONE shard,
   at the granularity of the code between two yield points.  Locks are not
   modelled: every interleaving of the atomic steps is allowed, which is a
   superset of what the RWMutex admits. *)
From Coq Require Import ZArith List Bool Arith.
Import ListNotations.

(* One shard WITH alias keys: a scope is registered under its sanitized key and under every raw
   spelling it was requested with ([san] is an arbitrary idempotent function on keys).
   Repaired protocol: closed flag read BEFORE the report, removal deletes an entry only if it still
   is that scope.  Objects are indices into [objs]; [skey] is the sanitized key. *)
(* per scope object one abstract counter stands for all its metrics: [applied] increments
   recorded, [delivered] of them handed to the reporter, [dropped] of them discarded by
   clearMetrics before being delivered; ghost [closed_at] = [applied] when Close was called *)
Record scope := { skey : nat; closed : bool; cleared : bool;
                  applied : nat; delivered : nat; closed_at : nat; dropped : nat }.

Fixpoint upd {A} (l : list A) (i : nat) (x : A) : list A :=
  match l, i with
  | [], _ => []
  | _ :: t, O => x :: t
  | h :: t, S i' => h :: upd t i' x
  end.

Inductive aop := AGet (k : nat) | AInc | AClose.

Inductive pc :=
| Idle
| G2 (k o : nat)                       (* Subscope found closed o under the raw key: report it *)
| G3 (k o : nat)                       (* remove the raw key (Lock; delete-if-same) *)
| G3b (k o : nat)                      (* remove the sanitized key (Lock; delete-if-same) *)
| G4 (k o : nat)                       (* clear o; RUnlock *)
| G5 (k : nat)                         (* Lock; re-check; create *)
| P1 (visited : list nat)              (* report pass: choose next entry *)
| P2 (visited : list nat) (k o : nat)  (* read closed flag *)
| P3 (visited : list nat) (k o : nat) (c : bool)  (* report *)
| P4 (visited : list nat) (k o : nat)  (* remove *)
| P5 (visited : list nat) (k o : nat). (* clear *)

Record thread := { tpc : pc; cur : option nat; prog : list aop; passes : nat }.
Record sys := { objs : list scope; reg : list (nat * nat); thr : list thread }.

Fixpoint lookup (r : list (nat*nat)) (k : nat) : option nat :=
  match r with [] => None | (k', o) :: r' => if Nat.eqb k k' then Some o else lookup r' k end.
Fixpoint remove_if (r : list (nat*nat)) (k o : nat) : list (nat*nat) :=
  match r with [] => [] | (k', o') :: r' =>
    if Nat.eqb k k' && Nat.eqb o o' then remove_if r' k o else (k', o') :: remove_if r' k o end.

Section WithSan.
Variable san : nat -> nat.
Hypothesis san_idem : forall k, san (san k) = san k.

Definition add_alias (r : list (nat*nat)) (k o : nat) : list (nat*nat) :=
  match lookup r k with None => (k, o) :: r | Some _ => r end.

Definition dflt := {| skey := 0; closed := true; cleared := true; applied := 0; delivered := 0; closed_at := 0; dropped := 0 |}.
Definition obj (s : sys) (o : nat) : scope := nth o (objs s) dflt.
Definition set_obj (s : sys) (o : nat) (x : scope) : sys := {| objs := upd (objs s) o x; reg := reg s; thr := thr s |}.
Definition set_thr (s : sys) (i : nat) (t : thread) : sys := {| objs := objs s; reg := reg s; thr := upd (thr s) i t |}.
Definition set_reg (s : sys) (r : list (nat*nat)) : sys := {| objs := objs s; reg := r; thr := thr s |}.

(* a report delivers everything recorded on the object's present metrics *)
Definition report_obj (x : scope) : scope :=
  {| skey := skey x; closed := closed x; cleared := cleared x; applied := applied x;
     delivered := applied x - dropped x; closed_at := closed_at x; dropped := dropped x |}.
(* clearMetrics discards the metrics together with whatever they had not yet delivered *)
Definition clear_obj (x : scope) : scope :=
  {| skey := skey x; closed := closed x; cleared := true; applied := applied x;
     delivered := delivered x; closed_at := closed_at x; dropped := applied x - delivered x |}.
Definition close_obj (x : scope) : scope :=
  if closed x then x else
  {| skey := skey x; closed := true; cleared := cleared x; applied := applied x;
     delivered := delivered x; closed_at := applied x; dropped := dropped x |}.
Definition inc_obj (x : scope) : scope :=
  {| skey := skey x; closed := closed x; cleared := cleared x; applied := S (applied x);
     delivered := delivered x; closed_at := closed_at x; dropped := dropped x |}.
Definition new_obj (k : nat) : scope :=
  {| skey := k; closed := false; cleared := false; applied := 0; delivered := 0; closed_at := 0; dropped := 0 |}.
Definition with_pc (t : thread) (p : pc) : thread := {| tpc := p; cur := cur t; prog := prog t; passes := passes t |}.

(* the pass moves on to the entry registered under key [ch] (chosen by the schedule: Go's map
   iteration order is arbitrary, and a key that is deleted and inserted again during the
   iteration may be produced again); an unregistered key ends the pass *)
Definition next_entry (s : sys) (i : nat) (tidle : thread) (vis : list nat) (ch : nat) : sys :=
  match lookup (reg s) ch with
  | Some o => set_thr s i (with_pc tidle (P2 vis ch o))
  | None => set_thr s i tidle
  end.

(* the schedule supplies the thread [i] and the pass's choice [ch] of the next entry *)
Definition step (s : sys) (ic : nat * nat) : sys :=
  let (i, ch) := ic in
  match nth_error (thr s) i with
  | None => s
  | Some t =>
    match tpc t with
    | Idle =>
      match prog t with
      | AGet k :: rest =>
          (* RLock; probe the raw key *)
          let t' := {| tpc := Idle; cur := cur t; prog := rest; passes := passes t |} in
          match lookup (reg s) k with
          | None => set_thr s i (with_pc t' (G5 k))
          | Some o => if closed (obj s o) then set_thr s i (with_pc t' (G2 k o))
                      else set_thr s i {| tpc := Idle; cur := Some o; prog := rest; passes := passes t |}
          end
      | AInc :: rest =>
          let s' := match cur t with Some o => set_obj s o (inc_obj (obj s o)) | None => s end in
          set_thr s' i {| tpc := Idle; cur := cur t; prog := rest; passes := passes t |}
      | AClose :: rest =>
          let s' := match cur t with Some o => set_obj s o (close_obj (obj s o)) | None => s end in
          set_thr s' i {| tpc := Idle; cur := cur t; prog := rest; passes := passes t |}
      | [] => match passes t with
              | O => s
              | S n => next_entry s i {| tpc := Idle; cur := cur t; prog := []; passes := n |} [] ch
              end
      end
    | G2 k o => set_thr (set_obj s o (report_obj (obj s o))) i (with_pc t (G3 k o))
    | G3 k o => set_thr (set_reg s (remove_if (reg s) k o)) i (with_pc t (G3b k o))
    | G3b k o => set_thr (set_reg s (remove_if (reg s) (san k) o)) i (with_pc t (G4 k o))
    | G4 k o => set_thr (set_obj s o (clear_obj (obj s o))) i (with_pc t (G5 k))
    | G5 k =>
      (* Lock; re-check the sanitized key; alias, or (re)create *)
      let create (s0 : sys) :=
        let o := length (objs s0) in
        set_thr {| objs := objs s0 ++ [new_obj (san k)]; reg := add_alias ((san k, o) :: reg s0) k o; thr := thr s0 |} i
                {| tpc := Idle; cur := Some o; prog := prog t; passes := passes t |} in
      match lookup (reg s) (san k) with
      | Some o =>
          if closed (obj s o)
          then (* a closed scope still registered under the sanitized key: report, drop, replace *)
               let s1 := set_obj s o (report_obj (obj s o)) in
               let s2 := set_reg s1 (remove_if (reg s1) (san k) o) in
               let s3 := set_obj s2 o (clear_obj (obj s2 o)) in
               create s3
          else set_thr (set_reg s (add_alias (reg s) k o)) i
                       {| tpc := Idle; cur := Some o; prog := prog t; passes := passes t |}
      | None => create s
      end
    | P1 vis => next_entry s i (with_pc t Idle) vis ch
    | P2 vis k o => set_thr s i (with_pc t (P3 vis k o (closed (obj s o))))
    | P3 vis k o c =>
        let s' := set_obj s o (report_obj (obj s o)) in
        if c then set_thr s' i (with_pc t (P4 vis k o)) else set_thr s' i (with_pc t (P1 (k :: vis)))
    | P4 vis k o => set_thr (set_reg s (remove_if (reg s) k o)) i (with_pc t (P5 vis k o))
    | P5 vis k o => set_thr (set_obj s o (clear_obj (obj s o))) i (with_pc t (P1 (k :: vis)))
    end
  end.

Definition run (s : sys) (sched : list (nat * nat)) : sys := fold_left step sched s.
(* the root scope is object 0, registered under key 0 and never closed here *)
Definition init (ths : list thread) : sys := {| objs := [new_obj 0]; reg := [(0, 0)]; thr := ths |}.


Definition label (t : thread) : Z :=
  match tpc t with
  | Idle => match prog t, passes t with [], O => (-1)%Z | _, _ => 0%Z end
  | G2 _ _ => 41%Z
  | G3 _ _ | G3b _ _ | P4 _ _ _ => 33%Z
  | G4 _ _ => 44%Z
  | G5 _ => 45%Z
  | P1 _ => 35%Z
  | P2 _ _ _ => 31%Z
  | P3 _ _ _ _ => 32%Z
  | P5 _ _ _ => 34%Z
  end.
End WithSan.
