(* Executable model of the M3 reporter's data path (m3/reporter.go):

     Allocate*      newMetric / convertTags through the tag cache
                    (internal/cache/tag_cache.go), AllocateHistogram's bucket
                    handles (bucket id, bucket range string);
     Report*        cachedMetric.Report{Count,Gauge,Timer}, bucket
                    ReportSamples -> reportCopyMetric: copy of the pre-built
                    metric + value + timestamp r.now, enqueued on metCh;
     Flush          internal metrics, then a flush marker;
     timeLoop       r.now.Store(time.Now());
     process/flush  the batching loop of the consumer goroutine, one
                    MetricBatch with the common tags per emission;
     Close          final drain.

   The structures and their wire encodings are those of Model/Thrift.v.

   A Go map[string]string is an association list with distinct keys
   ([tagmap]); Go's iteration order is arbitrary, therefore tag lists are
   compared up to permutation.  The cache key is NOT computed by the model:
   every allocation carries its key as an arbitrary integer, which covers every
   hash function, collisions included ([with_hash] fills the keys in from a
   function).  String interning is the identity on contents.

   The bounded queue: [enq] turns a history into the sequence of items in the
   order they enter the channel; [srun] interleaves producers (blocked while
   the queue holds [cap] items) and the consumer under an arbitrary schedule;
   [process] is the consumer run over the whole sequence at once. *)
From Coq Require Import ZArith List Bool Arith.
From Tally Require Import Base.ObsCore Base.Search Gen.Params Model.Varint Model.Thrift Model.Buckets.
Import ListNotations.
Open Scope Z_scope.

(* ------------------------------------------------------------------ *)
(* tag maps, conversion and the tag cache *)
Definition tagmap := list (bytes * bytes).

Fixpoint lookup (k : bytes) (m : tagmap) : option bytes :=
  match m with
  | [] => None
  | (k', v) :: r => if zs_eqb k' k then Some v else lookup k r
  end.

(* for k, v := range tags { mtags = append(mtags, MetricTag{Intern(k), Intern(v)}) } *)
Definition conv (m : tagmap) : list tag := map (fun kv => Tag (fst kv) (snd kv)) m.

(* the repaired tree's check of a cache hit (patches/fix-C13-tag-cache.patch):
   same length and every cached pair present in the requested map *)
Definition same_tags (cached : list tag) (m : tagmap) : bool :=
  Nat.eqb (length cached) (length m) &&
  forallb (fun t => match lookup (tname t) m with
                    | Some v => zs_eqb v (tvalue t)
                    | None => false
                    end) cached.

(* MRef: no cache at all (the reference semantics); MFixed: the cache with the
   check of a hit; MPinned: the pinned tree, a hit is trusted *)
Inductive cmode := MRef | MFixed | MPinned.

Definition tcache := list (Z * list tag).
Fixpoint cfind (key : Z) (c : tcache) : option (list tag) :=
  match c with
  | [] => None
  | (k, t) :: r => if k =? key then Some t else cfind key r
  end.

(* reporter.convertTags *)
Definition convert (md : cmode) (c : tcache) (key : Z) (m : tagmap) : tcache * list tag :=
  match md with
  | MRef => (c, conv m)
  | _ =>
      match cfind key c with
      | Some cached =>
          if (match md with MFixed => same_tags cached m | _ => true end)
          then (c, cached)
          else (c, conv m)                (* another map owns the entry: uncached *)
      | None => ((key, conv m) :: c, conv m)
      end
  end.

(* ------------------------------------------------------------------ *)
(* histogram bucket ids and range strings *)

(* func ndigits(i int) int { n := 1; for i/10 != 0 { n++; i /= 10 }; return n } *)
Fixpoint ndig (fuel i : nat) : nat :=
  match fuel with
  | O => 1%nat
  | S f => if (i / 10 =? 0)%nat then 1%nat else S (ndig f (i / 10))
  end.
Definition ndigits (i : nat) : nat := ndig i i.

(* the last w decimal digits of i, most significant first *)
Fixpoint pad_dec (w i : nat) : bytes :=
  match w with
  | O => []
  | S w' => pad_dec w' (i / 10) ++ [Z.of_nat (48 + i mod 10)]
  end.

(* fmt.Sprintf("%0<w>d", i): at least w digits, never truncated *)
Definition bucket_id (w i : nat) : bytes := pad_dec (Nat.max w (ndigits i)) i.

(* bucketIDLen = max(ndigits(buckets.Len()), _minMetricBucketIDTagLength) *)
Definition id_width (n : nat) : nat := Nat.max (ndigits n) (Z.to_nat m3_min_bucket_id_len).

(* Go's < on strings *)
Fixpoint bytes_ltb (a b : bytes) : bool :=
  match a, b with
  | [], [] => false
  | [], _ :: _ => true
  | _ :: _, [] => false
  | x :: a', y :: b' => if x <? y then true else if y <? x then false else bytes_ltb a' b'
  end.

Definition s_infinity : bytes := [105;110;102;105;110;105;116;121].        (* "infinity" *)
Definition s_ninfinity : bytes := 45 :: s_infinity.                        (* "-infinity" *)

(* ------------------------------------------------------------------ *)
(* configuration of a constructed reporter *)
Record config := Config {
  cfree : Z;                        (* freeBytes *)
  ccommon : list tag;               (* commonTags *)
  cbid : bytes;                     (* bucketIDTagName *)
  cbkt : bytes;                     (* bucketTagName *)
  crender : kind -> Z -> bytes      (* fmt.Sprintf(bucketValFmt, v) / d.String(): oracle *)
}.

(* valueBucketString / durationBucketString *)
Definition bstr (cfg : config) (hk : kind) (v : Z) : bytes :=
  match hk with
  | KValue => if v =? MAXF then s_infinity
              else if v =? NMAXF then s_ninfinity
              else crender cfg KValue v
  | KDuration => if v =? 0 then [48]
                 else if v =? MAXI then s_infinity
                 else if v =? MINI then s_ninfinity
                 else crender cfg KDuration v
  end.

(* bucket i of a histogram allocated with [spec]: upper bound, id, range *)
Definition bucket_at (cfg : config) (hk : kind) (spec : list Z) (i : nat) : Z * bytes * bytes :=
  let us := uppers hk spec in
  (nth i us 0,
   bucket_id (id_width (length spec)) i,
   bstr cfg hk (lower hk us i) ++ [45] ++ bstr cfg hk (nth i us 0)).

Definition hist_buckets (cfg : config) (hk : kind) (spec : list Z) : list (Z * bytes * bytes) :=
  map (bucket_at cfg hk spec) (seq 0 (length (uppers hk spec))).

(* ------------------------------------------------------------------ *)
(* handles, operations, queue items *)
Inductive handle :=
| HMet (k : Z) (name : bytes) (tags : option (list tag)) (size : Z)
| HHist (hk : kind) (name : bytes) (tags : list tag) (spec : list Z) (szf : nat -> Z).

(* sizes (what calculateSize measured) are carried by the allocation: they only
   steer where batches are cut *)
Inductive op :=
| OAlloc (k : Z) (name : bytes) (tm : tagmap) (key : Z) (size : Z)    (* k = 1 counter, 2 gauge, 3 timer *)
| OAllocH (hk : kind) (name : bytes) (tm : tagmap) (key : Z) (spec : list Z) (szf : nat -> Z)
| OReport (pid : nat) (h : nat) (k : Z) (v : Z)        (* Report{Count,Gauge,Timer} by goroutine pid *)
| OSamples (pid : nat) (h : nat) (hk : kind) (ub : Z) (v : Z)  (* {Value,Duration}Bucket(_, ub).ReportSamples(v) *)
| OFlush (internals : list (metric * Z))   (* reportInternalMetrics: what it reports is left arbitrary *)
| OTick (v : Z).                           (* timeLoop stores the clock value v it has read *)

Inductive qitem :=
| QMet (owner : nat) (m : metric) (size : Z) (bid brange : bytes)   (* sizedMetric{set: true} *)
| QMark.                                                            (* sizedMetric{} *)

Definition iowner : nat := 0%nat.       (* owner of the reporter's internal metrics *)

Record pstate := PState { pcache : tcache; phandles : list handle; pnow : Z }.

(* NewReporter: the repaired tree stores the construction time t0 in r.now;
   the pinned tree leaves it 0 until timeLoop has run ([pstate0 0]) *)
Definition pstate0 (t0 : Z) : pstate := PState [] [] t0.

Definition set_ts (ts : Z) (m : metric) : metric := Metric (mname m) (mval m) ts (mtags m).

Definition pstep (md : cmode) (cfg : config) (s : pstate) (o : op) : pstate * list qitem :=
  match o with
  | OAlloc k name tm key size =>
      match tm with
      | [] => (PState (pcache s) (phandles s ++ [HMet k name None size]) (pnow s), [])
      | _ => let '(c, t) := convert md (pcache s) key tm in
             (PState c (phandles s ++ [HMet k name (Some t) size]) (pnow s), [])
      end
  | OAllocH hk name tm key spec szf =>
      let '(c, t) := convert md (pcache s) key tm in
      (PState c (phandles s ++ [HHist hk name t spec szf]) (pnow s), [])
  | OReport pid h k v =>
      match nth_error (phandles s) h with
      | Some (HMet k' name tags size) =>
          if k =? k' then (s, [QMet pid (reported k name tags v (pnow s)) size [] []]) else (s, [])
      | _ => (s, [])
      end
  | OSamples pid h hk ub v =>
      match nth_error (phandles s) h with
      | Some (HHist hk' name tags spec szf) =>
          if kind_eqb hk hk' then
            let us := uppers hk' spec in
            let i := search_idx hk' us ub in
            if (i <? length us)%nat then
              let '(_, id, rg) := bucket_at cfg hk' spec i in
              (s, [QMet pid (reported 1 name (Some tags) v (pnow s)) (szf i) id rg])
            else (s, [])                                   (* noopMetric *)
          else (s, [])
      | _ => (s, [])
      end
  | OFlush internals =>
      (s, map (fun ms => QMet iowner (set_ts (pnow s) (fst ms)) (snd ms) [] []) internals ++ [QMark])
  | OTick v => (PState (pcache s) (phandles s) v, [])
  end.

(* the items entering the queue, each with the index (1, 2, ...) of the call
   that produced it *)
Fixpoint enq_from (md : cmode) (cfg : config) (i : nat) (s : pstate) (ops : list op) : list (nat * qitem) :=
  match ops with
  | [] => []
  | o :: r => let '(s', its) := pstep md cfg s o in
              map (pair i) its ++ enq_from md cfg (S i) s' r
  end.
Definition enq_ix md cfg t0 ops := enq_from md cfg 1 (pstate0 t0) ops.
Definition enq md cfg t0 ops : list qitem := map snd (enq_ix md cfg t0 ops).

(* the state after a history (for the handle table) *)
Definition prun md cfg t0 ops : pstate := fold_left (fun s o => fst (pstep md cfg s o)) ops (pstate0 t0).

(* ------------------------------------------------------------------ *)
(* the consumer: process() and flush() *)

(* what process() appends to mets for an item: bucket tags are added to a copy
   of the tags when the bucket string is not empty *)
Definition sent (cfg : config) (m : metric) (bid brange : bytes) : metric :=
  match brange with
  | [] => m
  | _ => Metric (mname m) (mval m) (mts m)
                (Some (match mtags m with Some t => t | None => [] end ++
                       [Tag (cbid cfg) bid; Tag (cbkt cfg) brange]))
  end.

Definition obatch := list (nat * metric).     (* one emitted batch, oldest first, with ghost owners *)

Record cons := Cons {
  cmets : list (nat * metric);     (* mets, newest first *)
  cbytes : Z;                      (* bytes *)
  cout : list obatch               (* batches handed to the client so far, oldest first *)
}.
Definition cons0 : cons := Cons [] 0 [].

(* mets = r.flush(mets); bytes = 0 — flush of an empty slice emits nothing *)
Definition emit1 (c : cons) : cons :=
  match cmets c with
  | [] => Cons [] 0 (cout c)
  | _ => Cons [] 0 (cout c ++ [List.rev (cmets c)])
  end.

Definition is_nil {A} (l : list A) : bool := match l with [] => true | _ => false end.

Definition cstep (cfg : config) (c : cons) (it : qitem) : cons :=
  match it with
  | QMark =>
      if negb (is_nil (cmets c)) || (cbytes c + 0 >? cfree cfg) then emit1 c else c
  | QMet o m sz bid br =>
      let c' := if cbytes c + sz >? cfree cfg then emit1 c else c in
      Cons ((o, sent cfg m bid br) :: cmets c') (cbytes c' + sz) (cout c')
  end.

(* the range loop ends when the queue is closed and empty: final flush *)
Definition cfinal (c : cons) : list obatch := cout (emit1 c).
Definition process_from (cfg : config) (c : cons) (items : list qitem) : list obatch :=
  cfinal (fold_left (cstep cfg) items c).
Definition process (cfg : config) (items : list qitem) : list obatch := process_from cfg cons0 items.

(* ------------------------------------------------------------------ *)
(* the bounded queue under an arbitrary schedule *)
Record sstate := SState {
  stodo : list qitem;     (* items the producers still have to enqueue, in the order they will *)
  sq : list qitem;        (* metCh *)
  sc : cons
}.
Definition sinit (items : list qitem) : sstate := SState items [] cons0.

(* true: the next producer tries to send (blocked while the queue is full);
   false: the consumer tries to receive *)
Definition sstep (cfg : config) (cap : nat) (s : sstate) (prod : bool) : sstate :=
  if prod then
    match stodo s with
    | x :: r => if (length (sq s) <? cap)%nat then SState r (sq s ++ [x]) (sc s) else s
    | [] => s
    end
  else
    match sq s with
    | x :: r => SState (stodo s) r (cstep cfg (sc s) x)
    | [] => s
    end.
Definition srun cfg cap (sched : list bool) (s : sstate) : sstate := fold_left (sstep cfg cap) sched s.

(* Close, called once no report is pending ([stodo] is empty): close(metCh);
   wg.Wait() — the consumer drains what is queued, emits the last batch, and
   only then Close returns: its result is everything emitted *)
Definition sclose (cfg : config) (s : sstate) : list obatch := process_from cfg (sc s) (sq s).

(* ------------------------------------------------------------------ *)
(* end to end *)
Definition emitted md cfg t0 ops : list obatch := process cfg (enq md cfg t0 ops).

Definition item_sent (cfg : config) (it : qitem) : list (nat * metric) :=
  match it with
  | QMet o m _ bid br => [(o, sent cfg m bid br)]
  | QMark => []
  end.
(* the reference: what was reported, in call order, with the tags as allocated
   (no cache, no queue, no batching) *)
Definition reference cfg t0 ops : list (nat * metric) := flat_map (item_sent cfg) (enq MRef cfg t0 ops).

Definition to_batch (cfg : config) (b : obatch) : batch := Batch (map snd b) (Some (ccommon cfg)).

(* the datagrams: the j-th emission is one one-way emitMetricBatchV2 message
   with sequence id int32(j) through the reused protocol object *)
Fixpoint datagrams_from (P : proto) (p : PS P) (cfg : config) (j : Z) (bs : list obatch) : list bytes :=
  match bs with
  | [] => []
  | b :: r => encode_emit P p (wrap32 j) (to_batch cfg b) :: datagrams_from P p cfg (j + 1) r
  end.
Definition datagrams P p cfg bs := datagrams_from P p cfg 1 bs.

(* keys filled in by a hash function of the tag map *)
Definition with_hash (hash : tagmap -> Z) (o : op) : op :=
  match o with
  | OAlloc k name tm _ size => OAlloc k name tm (hash tm) size
  | OAllocH hk name tm _ spec szf => OAllocH hk name tm (hash tm) spec szf
  | _ => o
  end.

(* identity.StringStringMap over an arbitrary string hash h: 0 for the empty
   map, else seed + sum of h(k + "=" + v) * fold, in uint64 *)
Definition real_key (h : bytes -> Z) (m : tagmap) : Z :=
  match m with
  | [] => 0
  | _ => u64 (fold_left (fun a kv => a + u64 (h (fst kv ++ [key_name_splitter] ++ snd kv)) * ident_fold) m ident_seed)
  end.

(* ------------------------------------------------------------------ *)
(* NewReporter: the common tags from the options *)
Record options := Options {
  oservice : bytes; oenv : bytes;
  ocommon : tagmap;
  ohost : option bytes;            (* IncludeHost with os.Hostname() *)
  obid : bytes; obkt : bytes       (* HistogramBucketIDName / HistogramBucketName *)
}.
Definition s_service : bytes := [115;101;114;118;105;99;101].
Definition s_env : bytes := [101;110;118].
Definition s_host : bytes := [104;111;115;116].

Fixpoint mset (k v : bytes) (m : tagmap) : tagmap :=
  match m with
  | [] => [(k, v)]
  | (k', v') :: r => if zs_eqb k' k then (k, v) :: r else (k', v') :: mset k v r
  end.
Definition unset (k : bytes) (m : tagmap) : bool :=      (* opts.CommonTags[k] == "" *)
  match lookup k m with None => true | Some v => is_nil v end.

(* None: the constructor returns an error *)
Definition common_of (o : options) : option tagmap :=
  let m0 := ocommon o in
  match (if unset s_service m0 then (if is_nil (oservice o) then None else Some (mset s_service (oservice o) m0)) else Some m0) with
  | None => None
  | Some m1 =>
      match (if unset s_env m0 then (if is_nil (oenv o) then None else Some (mset s_env (oenv o) m1)) else Some m1) with
      | None => None
      | Some m2 =>
          Some (match ohost o with
                | Some hn => if unset s_host m0 then mset s_host hn m2 else m2
                | None => m2
                end)
      end
  end.
Definition or_default (s d : bytes) : bytes := if is_nil s then d else s.
Definition config_of (o : options) (free : Z) (render : kind -> Z -> bytes) : option config :=
  match common_of o with
  | None => None
  | Some m => Some (Config free (conv m) (or_default (obid o) m3_bucket_id_name)
                           (or_default (obkt o) m3_bucket_name) render)
  end.
