(* Executable model of concurrent first use of a metric on one live scope
   (scope.go Counter / Gauge / Timer / Histogram): probe the per-kind map under the
   read lock; if absent, [yield 51..54] take the write lock, re-check, create (calling
   the cached reporter's Allocate* once) and register.  Threads run programs of
   {obtain (kind, name), record on the handle last obtained}; a report pass delivers
   everything recorded so far.  Any number of threads, any schedule. *)
From Coq Require Import ZArith List Bool Arith.
Import ListNotations.

Definition key := (nat * nat)%type.          (* kind 0..3, name *)
Definition key_eqb (a b : key) : bool := Nat.eqb (fst a) (fst b) && Nat.eqb (snd a) (snd b).

Inductive mop := MGet (k : key) | MRec | MPass.
Inductive mpc := MIdle | MLock (k : key).
Record mthread := { tpc : mpc; cur : option nat; prog : list mop }.

Record msys := {
  tbl : list (key * nat);        (* registered metrics, newest first *)
  allocs : list key;             (* Allocate* calls on the cached reporter, newest first *)
  gets : list (key * nat);       (* every completed request with the object it returned, newest first *)
  recs : list nat;               (* recorded per object *)
  dels : list nat;               (* delivered per object *)
  thr : list mthread
}.

Fixpoint find (t : list (key * nat)) (k : key) : option nat :=
  match t with [] => None | (k', o) :: r => if key_eqb k k' then Some o else find r k end.

Fixpoint upd {A} (l : list A) (i : nat) (x : A) : list A :=
  match l, i with [], _ => [] | _ :: t, O => x :: t | h :: t, S i' => h :: upd t i' x end.
Fixpoint bump (l : list nat) (i : nat) : list nat :=
  match l, i with [], _ => [] | c :: t, O => S c :: t | h :: t, S i' => h :: bump t i' end.

Definition set_thr (s : msys) (i : nat) (t : mthread) : msys :=
  {| tbl := tbl s; allocs := allocs s; gets := gets s; recs := recs s; dels := dels s; thr := upd (thr s) i t |}.

Definition returned (s : msys) (i : nat) (t : mthread) (k : key) (o : nat) : msys :=
  {| tbl := tbl s; allocs := allocs s; gets := (k, o) :: gets s; recs := recs s; dels := dels s;
     thr := upd (thr s) i {| tpc := MIdle; cur := Some o; prog := prog t |} |}.

Definition step (s : msys) (i : nat) : msys :=
  match nth_error (thr s) i with
  | None => s
  | Some t =>
    match tpc t with
    | MIdle =>
      match prog t with
      | MGet k :: rest =>
          let t' := {| tpc := MIdle; cur := cur t; prog := rest |} in
          match find (tbl s) k with
          | Some o => returned s i t' k o
          | None => set_thr s i {| tpc := MLock k; cur := cur t; prog := rest |}
          end
      | MRec :: rest =>
          let s' := match cur t with
                    | Some o => {| tbl := tbl s; allocs := allocs s; gets := gets s; recs := bump (recs s) o;
                                   dels := dels s; thr := thr s |}
                    | None => s end in
          set_thr s' i {| tpc := MIdle; cur := cur t; prog := rest |}
      | MPass :: rest =>
          set_thr {| tbl := tbl s; allocs := allocs s; gets := gets s; recs := recs s; dels := recs s; thr := thr s |}
                  i {| tpc := MIdle; cur := cur t; prog := rest |}
      | [] => s
      end
    | MLock k =>
      match find (tbl s) k with
      | Some o => returned s i t k o
      | None =>
          let o := length (recs s) in
          returned {| tbl := (k, o) :: tbl s; allocs := k :: allocs s; gets := gets s;
                      recs := recs s ++ [0]; dels := dels s ++ [0]; thr := thr s |} i t k o
      end
    end
  end.

Definition run (s : msys) (sched : list nat) : msys := fold_left step sched s.
Definition init (ths : list mthread) : msys :=
  {| tbl := []; allocs := []; gets := []; recs := []; dels := []; thr := ths |}.

Definition label (t : mthread) : Z :=
  match tpc t with
  | MIdle => match prog t with [] => (-1)%Z | _ => 0%Z end
  | MLock k => (51 + Z.of_nat (fst k))%Z
  end.

(* mutant: no re-check under the write lock *)
Definition step_norecheck (s : msys) (i : nat) : msys :=
  match nth_error (thr s) i with
  | Some t =>
    match tpc t with
    | MLock k =>
        let o := length (recs s) in
        returned {| tbl := (k, o) :: tbl s; allocs := k :: allocs s; gets := gets s;
                    recs := recs s ++ [0]; dels := dels s ++ [0]; thr := thr s |} i t k o
    | _ => step s i
    end
  | None => s
  end.
