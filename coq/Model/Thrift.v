(* Executable model of the M3 v2 Thrift structures and of the two wire
   protocols they are written with.

   m3/thrift/v2/ttypes.go and m3.go are generated code that is generic in the
   protocol: every Write/Read method is a fixed sequence of calls on a
   thrift.TProtocol.  The model follows that shape: the structures are
   written and read ONCE over an abstract protocol ([proto], a record of the
   protocol's primitive writers and readers), and the Compact and the Binary
   protocol are two instances ([compact], [binary]) that follow
   thirdparty/github.com/apache/thrift/lib/go/thrift/compact_protocol.go and
   binary_protocol.go.

   Bytes are [Z] in [0,256); a float64 is its 64 bit pattern (unsigned); an
   int64/int32 is a [Z] in the range of the type; a string is a byte list.
   A nil slice of an optional list field is [None], a non-nil one [Some l]
   (possibly empty).  The required list MetricBatch.Metrics has no such
   distinction on the wire or after reading (the reader always allocates). *)
From Coq Require Import ZArith List Bool.
From Tally Require Import Base.ObsCore Model.Varint.
Import ListNotations.
Open Scope Z_scope.

(* ------------------------------------------------------------------ *)
(* the structures of m3/thrift/v2/ttypes.go *)
Record tag := Tag { tname : bytes; tvalue : bytes }.
Record mvalue := MValue { mtype : Z; mcount : Z; mgauge : Z; mtimer : Z }.
Record metric := Metric { mname : bytes; mval : mvalue; mts : Z; mtags : option (list tag) }.
Record batch := Batch { bmetrics : list metric; bcommon : option (list tag) }.

(* thrift.TType *)
Definition T_STOP : Z := 0.
Definition T_DOUBLE : Z := 4.
Definition T_I32 : Z := 8.
Definition T_I64 : Z := 10.
Definition T_STRING : Z := 11.
Definition T_STRUCT : Z := 12.
Definition T_LIST : Z := 15.
Definition M_ONEWAY : Z := 4.
(* "emitMetricBatchV2" *)
Definition method_name : bytes := [101;109;105;116;77;101;116;114;105;99;66;97;116;99;104;86;50].

(* ------------------------------------------------------------------ *)
(* Transports.  A protocol hands byte chunks to its transport through
   Write / WriteByte / WriteString.  The memory buffer appends them; the
   counting transport (m3/customtransports/m3_calc_transport.go) adds their
   lengths to an int32.  The model runs both side by side on the same chunk
   sequence: [trev] is what a buffer holds (most recent byte first), [tcnt]
   the exact number of bytes handed over; the counter of TCalcTransport is an
   int32 advanced by wrapping additions, i.e. [wrap32 tcnt]
   (VarintP.wrap32_add). *)
Record tr := Tr { trev : bytes; tcnt : Z }.
Definition tws (ch : bytes) (t : tr) : tr :=
  Tr (rev_append ch (trev t)) (tcnt t + Z.of_nat (length ch)).
Definition twl (chs : list bytes) (t : tr) : tr := fold_left (fun t c => tws c t) chs t.
Definition tr0 : tr := Tr [] 0.                       (* Buffer.Reset() / ResetCount() *)
Definition tout (t : tr) : bytes := rev_append (trev t) [].   (* Buffer.Bytes() *)
Definition get_count (t : tr) : Z := wrap32 (tcnt t). (* TCalcTransport.GetCount() *)

(* ------------------------------------------------------------------ *)
(* A protocol: chunk-level writers with the protocol's own state [PS], the
   byte strings they amount to ([e_*], the "pure" encoders), and readers. *)
Record proto := Proto {
  PS : Type;
  w_sb : PS -> PS;                               (* WriteStructBegin *)
  w_se : PS -> PS;                               (* WriteStructEnd *)
  w_fb : Z -> Z -> PS -> list bytes * PS;        (* WriteFieldBegin ttype id *)
  w_stop : list bytes;                           (* WriteFieldStop *)
  w_i32 : Z -> list bytes;
  w_i64 : Z -> list bytes;
  w_double : Z -> list bytes;
  w_str : bytes -> list bytes;
  w_lb : Z -> Z -> list bytes;                   (* WriteListBegin elemtype size *)
  w_mb : bytes -> Z -> Z -> list bytes;          (* WriteMessageBegin name type seqid *)
  (* specification side: state inside a struct opened in state p whose last written field is l *)
  p_inside : PS -> Z -> PS;
  e_fb : Z -> Z -> Z -> bytes;                   (* last id, ttype, id *)
  e_stop : bytes;
  e_i32 : Z -> bytes;
  e_i64 : Z -> bytes;
  e_double : Z -> bytes;
  e_str : bytes -> bytes;
  e_lb : Z -> Z -> bytes;
  e_mb : bytes -> Z -> Z -> bytes;
  (* readers: None = the Go method returns an error *)
  r_fb : Z -> bytes -> option (option (Z * Z) * bytes);   (* ReadFieldBegin, given the last field id: None = STOP, Some (ttype, id) *)
  r_i32 : bytes -> option (Z * bytes);
  r_i64 : bytes -> option (Z * bytes);
  r_double : bytes -> option (Z * bytes);
  r_str : bytes -> option (bytes * bytes);
  r_lb : bytes -> option ((Z * Z) * bytes);               (* ReadListBegin: (elemtype, size) *)
  r_mb : bytes -> option ((bytes * Z * Z) * bytes)        (* ReadMessageBegin: (name, type, seqid) *)
}.

(* ------------------------------------------------------------------ *)
(* The generated code over a protocol *)
Section Generated.
Variable P : proto.

(* ---- writing: state = transport x protocol state ---- *)
Definition wstate : Type := (tr * PS P)%type.
Definition put (chs : list bytes) (w : wstate) : wstate := (twl chs (fst w), snd w).
Definition sb (w : wstate) : wstate := (fst w, w_sb P (snd w)).
Definition se (w : wstate) : wstate := (fst w, w_se P (snd w)).
Definition fb (ty id : Z) (w : wstate) : wstate :=
  let r := w_fb P ty id (snd w) in (twl (fst r) (fst w), snd r).
Definition wr_list {A} (wr : A -> wstate -> wstate) (l : list A) (w : wstate) : wstate :=
  fold_left (fun w x => wr x w) l w.

(* MetricTag.Write *)
Definition wr_tag (t : tag) (w : wstate) : wstate :=
  let w := sb w in
  let w := put (w_str P (tname t)) (fb T_STRING 1 w) in
  let w := put (w_str P (tvalue t)) (fb T_STRING 2 w) in
  se (put (w_stop P) w).
(* WriteListBegin(STRUCT, len) ; for each: Write ; WriteListEnd *)
Definition wr_tags (l : list tag) (w : wstate) : wstate :=
  wr_list wr_tag l (put (w_lb P T_STRUCT (Z.of_nat (length l))) w).
(* MetricValue.Write; the metric type is written as int32(p.MetricType) *)
Definition wr_value (v : mvalue) (w : wstate) : wstate :=
  let w := sb w in
  let w := put (w_i32 P (wrap32 (mtype v))) (fb T_I32 1 w) in
  let w := put (w_i64 P (mcount v)) (fb T_I64 2 w) in
  let w := put (w_double P (mgauge v)) (fb T_DOUBLE 3 w) in
  let w := put (w_i64 P (mtimer v)) (fb T_I64 4 w) in
  se (put (w_stop P) w).
(* an optional list field: written when the slice is not nil *)
Definition wr_opt_tags (id : Z) (o : option (list tag)) (w : wstate) : wstate :=
  match o with None => w | Some l => wr_tags l (fb T_LIST id w) end.
(* Metric.Write *)
Definition wr_metric (m : metric) (w : wstate) : wstate :=
  let w := sb w in
  let w := put (w_str P (mname m)) (fb T_STRING 1 w) in
  let w := wr_value (mval m) (fb T_STRUCT 2 w) in
  let w := put (w_i64 P (mts m)) (fb T_I64 3 w) in
  let w := wr_opt_tags 4 (mtags m) w in
  se (put (w_stop P) w).
(* MetricBatch.Write *)
Definition wr_batch (b : batch) (w : wstate) : wstate :=
  let w := sb w in
  let w := fb T_LIST 1 w in
  let w := put (w_lb P T_STRUCT (Z.of_nat (length (bmetrics b)))) w in
  let w := wr_list wr_metric (bmetrics b) w in
  let w := wr_opt_tags 2 (bcommon b) w in
  se (put (w_stop P) w).
(* M3EmitMetricBatchV2Args.Write *)
Definition wr_args (b : batch) (w : wstate) : wstate :=
  let w := sb w in
  let w := wr_batch b (fb T_STRUCT 1 w) in
  se (put (w_stop P) w).
(* M3Client.sendEmitMetricBatchV2 with the (already incremented) sequence id *)
Definition wr_emit (seq : Z) (b : batch) (w : wstate) : wstate :=
  wr_args b (put (w_mb P method_name M_ONEWAY seq) w).

(* ---- what these amount to on the wire ---- *)
Definition e_tag (t : tag) : bytes :=
  e_fb P 0 T_STRING 1 ++ e_str P (tname t) ++ e_fb P 1 T_STRING 2 ++ e_str P (tvalue t) ++ e_stop P.
Definition e_tags (l : list tag) : bytes :=
  e_lb P T_STRUCT (Z.of_nat (length l)) ++ concat (map e_tag l).
Definition e_value (v : mvalue) : bytes :=
  e_fb P 0 T_I32 1 ++ e_i32 P (wrap32 (mtype v)) ++ e_fb P 1 T_I64 2 ++ e_i64 P (mcount v) ++
  e_fb P 2 T_DOUBLE 3 ++ e_double P (mgauge v) ++ e_fb P 3 T_I64 4 ++ e_i64 P (mtimer v) ++ e_stop P.
Definition e_opt_tags (last id : Z) (o : option (list tag)) : bytes :=
  match o with None => [] | Some l => e_fb P last T_LIST id ++ e_tags l end.
Definition e_metric (m : metric) : bytes :=
  e_fb P 0 T_STRING 1 ++ e_str P (mname m) ++ e_fb P 1 T_STRUCT 2 ++ e_value (mval m) ++
  e_fb P 2 T_I64 3 ++ e_i64 P (mts m) ++ e_opt_tags 3 4 (mtags m) ++ e_stop P.
Definition e_batch (b : batch) : bytes :=
  e_fb P 0 T_LIST 1 ++ e_lb P T_STRUCT (Z.of_nat (length (bmetrics b))) ++
  concat (map e_metric (bmetrics b)) ++ e_opt_tags 1 2 (bcommon b) ++ e_stop P.
Definition e_args (b : batch) : bytes := e_fb P 0 T_STRUCT 1 ++ e_batch b ++ e_stop P.
Definition e_emit (seq : Z) (b : batch) : bytes := e_mb P method_name M_ONEWAY seq ++ e_args b.

(* ---- reading ---- *)
(* The field loop of every generated Read method: read a field header, stop
   on STOP, otherwise dispatch on the field id ALONE (the generated code does
   not look at the type), ReadFieldEnd, again.  [h id st bs] is the body of
   the switch.  The loop has no bound in Go; every iteration consumes at
   least the header byte, so the callers' fuel (5 + number of bytes) is never
   exhausted before the input is. *)
Fixpoint r_fields {St} (h : Z -> St -> bytes -> option (St * bytes))
         (fuel : nat) (last : Z) (st : St) (bs : bytes) : option (St * bytes) :=
  match fuel with
  | O => None
  | S f =>
      match r_fb P last bs with
      | None => None
      | Some (None, rest) => Some (st, rest)
      | Some (Some (_, id), rest) =>
          match h id st rest with
          | Some (st', rest') => r_fields h f id st' rest'
          | None => None
          end
      end
  end.

(* `for i := 0; i < size; i++ { elem.Read }`: an element read consumes at
   least one byte or fails, so the bytes themselves serve as fuel *)
Fixpoint r_n {A} (dec : bytes -> option (A * bytes)) (F : bytes) (n : Z) (bs : bytes)
  : option (list A * bytes) :=
  if n <=? 0 then Some ([], bs)
  else match F with
       | [] => None
       | _ :: F' =>
           match dec bs with
           | None => None
           | Some (x, r) =>
               match r_n dec F' (n - 1) r with
               | None => None
               | Some (l, r') => Some (x :: l, r')
               end
           end
       end.
(* ReadListBegin (the element type is not looked at), the elements, ReadListEnd *)
Definition r_list {A} (dec : bytes -> option (A * bytes)) (bs : bytes) : option (list A * bytes) :=
  match r_lb P bs with
  | None => None
  | Some ((_, n), r) => r_n dec r n r
  end.

(* a field id that no case of the switch handles goes to iprot.Skip, which is
   outside this model: None *)
Definition h_tag (id : Z) (s : tag * (bool * bool)) (bs : bytes) : option ((tag * (bool * bool)) * bytes) :=
  let '(t, (i1, i2)) := s in
  if id =? 1 then match r_str P bs with Some (v, r) => Some ((Tag v (tvalue t), (true, i2)), r) | None => None end
  else if id =? 2 then match r_str P bs with Some (v, r) => Some ((Tag (tname t) v, (i1, true)), r) | None => None end
  else None.
(* MetricTag.Read: both fields are required *)
Definition d_tag (fuel : nat) (bs : bytes) : option (tag * bytes) :=
  match r_fields h_tag fuel 0 (Tag [] [], (false, false)) bs with
  | Some ((t, (true, true)), r) => Some (t, r)
  | _ => None
  end.

Definition h_value (id : Z) (s : mvalue * (bool * bool * bool * bool)) (bs : bytes) :=
  let '(v, (i1, i2, i3, i4)) := s in
  if id =? 1 then match r_i32 P bs with
                  | Some (x, r) => Some ((MValue x (mcount v) (mgauge v) (mtimer v), (true, i2, i3, i4)), r) | None => None end
  else if id =? 2 then match r_i64 P bs with
                  | Some (x, r) => Some ((MValue (mtype v) x (mgauge v) (mtimer v), (i1, true, i3, i4)), r) | None => None end
  else if id =? 3 then match r_double P bs with
                  | Some (x, r) => Some ((MValue (mtype v) (mcount v) x (mtimer v), (i1, i2, true, i4)), r) | None => None end
  else if id =? 4 then match r_i64 P bs with
                  | Some (x, r) => Some ((MValue (mtype v) (mcount v) (mgauge v) x, (i1, i2, i3, true)), r) | None => None end
  else None.
Definition d_value (fuel : nat) (bs : bytes) : option (mvalue * bytes) :=
  match r_fields h_value fuel 0 (MValue 0 0 0 0, (false, false, false, false)) bs with
  | Some ((v, (true, true, true, true)), r) => Some (v, r)
  | _ => None
  end.

Definition h_metric (fuel : nat) (id : Z) (s : metric * (bool * bool * bool)) (bs : bytes) :=
  let '(m, (i1, i2, i3)) := s in
  if id =? 1 then match r_str P bs with
                  | Some (x, r) => Some ((Metric x (mval m) (mts m) (mtags m), (true, i2, i3)), r) | None => None end
  else if id =? 2 then match d_value fuel bs with
                  | Some (x, r) => Some ((Metric (mname m) x (mts m) (mtags m), (i1, true, i3)), r) | None => None end
  else if id =? 3 then match r_i64 P bs with
                  | Some (x, r) => Some ((Metric (mname m) (mval m) x (mtags m), (i1, i2, true)), r) | None => None end
  else if id =? 4 then match r_list (d_tag fuel) bs with
                  | Some (x, r) => Some ((Metric (mname m) (mval m) (mts m) (Some x), (i1, i2, i3)), r) | None => None end
  else None.
Definition d_metric (fuel : nat) (bs : bytes) : option (metric * bytes) :=
  match r_fields (h_metric fuel) fuel 0 (Metric [] (MValue 0 0 0 0) 0 None, (false, false, false)) bs with
  | Some ((m, (true, true, true)), r) => Some (m, r)
  | _ => None
  end.

Definition h_batch (fuel : nat) (id : Z) (s : batch * bool) (bs : bytes) :=
  let '(b, i1) := s in
  if id =? 1 then match r_list (d_metric fuel) bs with
                  | Some (x, r) => Some ((Batch x (bcommon b), true), r) | None => None end
  else if id =? 2 then match r_list (d_tag fuel) bs with
                  | Some (x, r) => Some ((Batch (bmetrics b) (Some x), i1), r) | None => None end
  else None.
Definition d_batch (fuel : nat) (bs : bytes) : option (batch * bytes) :=
  match r_fields (h_batch fuel) fuel 0 (Batch [] None, false) bs with
  | Some ((b, true), r) => Some (b, r)
  | _ => None
  end.

(* M3EmitMetricBatchV2Args.Read: the batch field is not required *)
Definition h_args (fuel : nat) (id : Z) (s : batch) (bs : bytes) :=
  if id =? 1 then d_batch fuel bs else None.
Definition d_args (fuel : nat) (bs : bytes) : option (batch * bytes) :=
  r_fields (h_args fuel) fuel 0 (Batch [] None) bs.

(* M3Processor.Process: ReadMessageBegin, look the method up by name (an
   unknown name is skipped and answered with an exception: None here), read
   the arguments.  The message type is not examined by the processor; it is
   returned here together with the sequence id. *)
Definition d_emit (fuel : nat) (bs : bytes) : option ((Z * Z * batch) * bytes) :=
  match r_mb P bs with
  | None => None
  | Some ((name, ty, seq), r) =>
      if zs_eqb name method_name then
        match d_args fuel r with
        | Some (b, r') => Some ((ty, seq, b), r')
        | None => None
        end
      else None
  end.

(* entry points: enough fuel for any input *)
Definition fuel_for (bs : bytes) : nat := (5 + length bs)%nat.
Definition decode_metric (bs : bytes) := d_metric (fuel_for bs) bs.
Definition decode_batch (bs : bytes) := d_batch (fuel_for bs) bs.
Definition decode_emit (bs : bytes) := d_emit (fuel_for bs) bs.

(* writing into a fresh buffer / a reset counter, with the protocol in state p *)
Definition encode_metric (p : PS P) (m : metric) : bytes := tout (fst (wr_metric m (tr0, p))).
Definition encode_batch (p : PS P) (b : batch) : bytes := tout (fst (wr_batch b (tr0, p))).
Definition encode_emit (p : PS P) (seq : Z) (b : batch) : bytes := tout (fst (wr_emit seq b (tr0, p))).
Definition calc_metric (p : PS P) (m : metric) : Z := get_count (fst (wr_metric m (tr0, p))).
Definition calc_batch (p : PS P) (b : batch) : Z := get_count (fst (wr_batch b (tr0, p))).
Definition calc_emit (p : PS P) (seq : Z) (b : batch) : Z := get_count (fst (wr_emit seq b (tr0, p))).
End Generated.

(* ------------------------------------------------------------------ *)
(* The Compact protocol *)

(* ttypeToCompactType (a Go map: a missing key gives 0) and getTType *)
Definition ctype (ty : Z) : Z :=
  if ty =? 2 then 1 else if ty =? 3 then 3 else if ty =? 6 then 4 else if ty =? 8 then 5
  else if ty =? 10 then 6 else if ty =? 4 then 7 else if ty =? 11 then 8 else if ty =? 15 then 9
  else if ty =? 14 then 10 else if ty =? 13 then 11 else if ty =? 12 then 12 else 0.
Definition ttype_of (ct : Z) : option Z :=
  if ct =? 0 then Some 0 else if ct =? 1 then Some 2 else if ct =? 2 then Some 2 else if ct =? 3 then Some 3
  else if ct =? 4 then Some 6 else if ct =? 5 then Some 8 else if ct =? 6 then Some 10 else if ct =? 7 then Some 4
  else if ct =? 8 then Some 11 else if ct =? 9 then Some 15 else if ct =? 10 then Some 14
  else if ct =? 11 then Some 13 else if ct =? 12 then Some 12 else None.

(* lastFieldId and the lastField stack (top first) of TCompactProtocol *)
Record cps := CPS { plast : Z; pstk : list Z }.
Definition cps0 : cps := CPS 0 [].    (* NewTCompactProtocol *)

Definition c_i32 (v : Z) : bytes := varint32 (zigzag v).    (* WriteI32 *)
Definition c_i16 (v : Z) : bytes := varint32 (zigzag v).    (* WriteI16: int32ToZigzag(int32(v)) *)
Definition c_i64 (v : Z) : bytes := varint64 (zigzag v).    (* WriteI64 *)
Definition c_strlen (s : bytes) : bytes := varint32 (Z.of_nat (length s)).
(* writeFieldBeginInternal *)
Definition c_short (last id : Z) : bool := (last <? id) && (id - last <=? 15).
Definition c_fb_chunks (last ty id : Z) : list bytes :=
  if c_short last id then [[(id - last) * 16 + ctype ty]] else [[ctype ty]; c_i16 id].
(* writeCollectionBegin *)
Definition c_lb_chunks (ty n : Z) : list bytes :=
  if n <=? 14 then [[n * 16 + ctype ty]] else [[240 + ctype ty]; varint32 n].
(* WriteMessageBegin: protocol id, version | type << 5, seqid, name *)
Definition c_mb_chunks (name : bytes) (ty seq : Z) : list bytes :=
  [[130]; [1 + (ty mod 8) * 32]; varint32 seq; c_strlen name; name].

Definition c_r_varint32 (bs : bytes) : option (Z * bytes) :=      (* readVarint32: int32(readVarint64) *)
  match unvarint bs with Some (v, r) => Some (wrap32 v, r) | None => None end.
Definition c_r_i32 (bs : bytes) : option (Z * bytes) :=           (* zigzagToInt32 *)
  match unvarint bs with Some (v, r) => Some (unzigzag (u32 v), r) | None => None end.
Definition c_r_i16 (bs : bytes) : option (Z * bytes) :=
  match c_r_i32 bs with Some (v, r) => Some (wrap16 v, r) | None => None end.
Definition c_r_i64 (bs : bytes) : option (Z * bytes) :=
  match unvarint bs with Some (v, r) => Some (unzigzag (u64 v), r) | None => None end.
Definition c_r_str (bs : bytes) : option (bytes * bytes) :=
  match c_r_varint32 bs with
  | Some (n, r) => if n <? 0 then None else takez r n
  | None => None
  end.
Definition c_r_fb (last : Z) (bs : bytes) : option (option (Z * Z) * bytes) :=
  match bs with
  | [] => None
  | t :: r =>
      if t mod 16 =? 0 then Some (None, r)
      else
        let modifier := (t / 16) mod 16 in
        match (if modifier =? 0 then c_r_i16 r else Some (wrap16 (last + modifier), r)) with
        | None => None
        | Some (id, r') =>
            match ttype_of (t mod 16) with
            | None => None
            | Some ty => Some (Some (ty, id), r')
            end
        end
  end.
Definition c_r_lb (bs : bytes) : option ((Z * Z) * bytes) :=
  match bs with
  | [] => None
  | b :: r =>
      let size := (b / 16) mod 16 in
      match (if size =? 15
             then match c_r_varint32 r with
                  | Some (n, r') => if n <? 0 then None else Some (n, r')
                  | None => None
                  end
             else Some (size, r)) with
      | None => None
      | Some (n, r') =>
          match ttype_of (b mod 16) with
          | None => None
          | Some ty => Some ((ty, n), r')
          end
      end
  end.
Definition c_r_mb (bs : bytes) : option ((bytes * Z * Z) * bytes) :=
  match bs with
  | pid :: vt :: r =>
      if negb (pid =? 130) then None
      else if negb (vt mod 32 =? 1) then None
      else match c_r_varint32 r with
           | None => None
           | Some (seq, r') =>
               match c_r_str r' with
               | None => None
               | Some (name, r'') => Some ((name, (vt / 32) mod 8, seq), r'')
               end
           end
  | _ => None
  end.

Definition compact : proto := {|
  PS := cps;
  w_sb := fun p => CPS 0 (plast p :: pstk p);
  w_se := fun p => match pstk p with x :: s => CPS x s | [] => p (* Go: index out of range *) end;
  w_fb := fun ty id p => (c_fb_chunks (plast p) ty id, CPS id (pstk p));
  w_stop := [[0]];
  w_i32 := fun v => [c_i32 v];
  w_i64 := fun v => [c_i64 v];
  w_double := fun v => [le64 v];
  w_str := fun s => [c_strlen s; s];
  w_lb := c_lb_chunks;
  w_mb := c_mb_chunks;
  p_inside := fun p l => CPS l (plast p :: pstk p);
  e_fb := fun last ty id => concat (c_fb_chunks last ty id);
  e_stop := [0];
  e_i32 := c_i32;
  e_i64 := c_i64;
  e_double := le64;
  e_str := fun s => c_strlen s ++ s;
  e_lb := fun ty n => concat (c_lb_chunks ty n);
  e_mb := fun name ty seq => concat (c_mb_chunks name ty seq);
  r_fb := c_r_fb;
  r_i32 := c_r_i32;
  r_i64 := c_r_i64;
  r_double := rd_le64;
  r_str := c_r_str;
  r_lb := c_r_lb;
  r_mb := c_r_mb
|}.

(* ------------------------------------------------------------------ *)
(* The Binary protocol (NewTBinaryProtocolFactoryDefault: strictRead = false,
   strictWrite = true).  It keeps no state between calls. *)
Definition b_i16 (v : Z) : bytes := be16 (u16 v).
Definition b_i32 (v : Z) : bytes := be32 (u32 v).
Definition b_i64 (v : Z) : bytes := be64 (u64 v).
Definition b_fb_chunks (ty id : Z) : list bytes := [[ty mod 256]; b_i16 id].
Definition b_lb_chunks (ty n : Z) : list bytes := [[ty mod 256]; b_i32 n].
(* strict write: version | type, name, seqid *)
Definition b_mb_chunks (name : bytes) (ty seq : Z) : list bytes :=
  [b_i32 (2147549184 + ty); b_i32 (Z.of_nat (length name)); name; b_i32 seq].

Definition b_r_i16 (bs : bytes) := match rd_be16 bs with Some (v, r) => Some (wrap16 v, r) | None => None end.
Definition b_r_i32 (bs : bytes) := match rd_be32 bs with Some (v, r) => Some (wrap32 v, r) | None => None end.
Definition b_r_i64 (bs : bytes) := match rd_be64 bs with Some (v, r) => Some (wrap64 v, r) | None => None end.
Definition b_r_str (bs : bytes) : option (bytes * bytes) :=
  match b_r_i32 bs with
  | Some (n, r) => if n <? 0 then None else takez r n
  | None => None
  end.
Definition b_r_fb (last : Z) (bs : bytes) : option (option (Z * Z) * bytes) :=
  match bs with
  | [] => None
  | t :: r =>
      if t =? 0 then Some (None, r)
      else match b_r_i16 r with
           | Some (id, r') => Some (Some (t, id), r')
           | None => None
           end
  end.
Definition b_r_lb (bs : bytes) : option ((Z * Z) * bytes) :=
  match bs with
  | [] => None
  | t :: r =>
      match b_r_i32 r with
      | Some (n, r') => if n <? 0 then None else Some ((t, n), r')
      | None => None
      end
  end.
(* ReadMessageBegin: a negative first word is version | type (strict form),
   otherwise it is the length of the name (old form: name, type byte, seqid) *)
Definition b_r_mb (bs : bytes) : option ((bytes * Z * Z) * bytes) :=
  match b_r_i32 bs with
  | None => None
  | Some (size, r) =>
      if size <? 0 then
        if negb ((u32 size) / 65536 =? 32769) then None
        else match b_r_str r with
             | None => None
             | Some (name, r') =>
                 match b_r_i32 r' with
                 | None => None
                 | Some (seq, r'') => Some ((name, (u32 size) mod 256, seq), r'')
                 end
             end
      else match takez r size with
           | None => None
           | Some (name, r') =>
               match r' with
               | [] => None
               | t :: r'' =>
                   match b_r_i32 r'' with
                   | None => None
                   | Some (seq, r3) => Some ((name, (t + 128) mod 256 - 128, seq), r3)
                   end
               end
           end
  end.

Definition binary : proto := {|
  PS := unit;
  w_sb := fun p => p;
  w_se := fun p => p;
  w_fb := fun ty id p => (b_fb_chunks ty id, p);
  w_stop := [[0]];
  w_i32 := fun v => [b_i32 v];
  w_i64 := fun v => [b_i64 v];
  w_double := fun v => [b_i64 v];
  w_str := fun s => [b_i32 (Z.of_nat (length s)); s];
  w_lb := b_lb_chunks;
  w_mb := b_mb_chunks;
  p_inside := fun p _ => p;
  e_fb := fun _ ty id => concat (b_fb_chunks ty id);
  e_stop := [0];
  e_i32 := b_i32;
  e_i64 := b_i64;
  e_double := b_i64;
  e_str := fun s => b_i32 (Z.of_nat (length s)) ++ s;
  e_lb := fun ty n => concat (b_lb_chunks ty n);
  e_mb := fun name ty seq => concat (b_mb_chunks name ty seq);
  r_fb := b_r_fb;
  r_i32 := b_r_i32;
  r_i64 := b_r_i64;
  r_double := rd_be64;
  r_str := b_r_str;
  r_lb := b_r_lb;
  r_mb := b_r_mb
|}.

(* ------------------------------------------------------------------ *)
(* m3/reporter.go: newMetric pre-builds a metric whose timestamp and whose
   own value slot (k = 1 counter, 2 gauge, 3 timer) hold the maximal value,
   calculateSize measures it once; cachedMetric.Report{Count,Gauge,Timer} and
   reportCopyMetric later overwrite that slot and the timestamp.  [tags] is
   None when the tag map is empty. *)
Definition placeholder (k : Z) (name : bytes) (tags : option (list tag)) : metric :=
  Metric name (MValue k (if k =? 1 then MAXI64 else 0) (if k =? 2 then MAXF64 else 0)
                        (if k =? 3 then MAXI64 else 0)) MAXI64 tags.
Definition reported (k : Z) (name : bytes) (tags : option (list tag)) (v ts : Z) : metric :=
  Metric name (MValue k (if k =? 1 then v else 0) (if k =? 2 then v else 0)
                        (if k =? 3 then v else 0)) ts tags.
