(* Model of sanitize.go: ValidCharacters.sanitizeFn exactly as written -
   per-rune validity test against the ranges (inclusive at both ends) and the
   extra characters; lazy copy-on-first-invalid buffer: as long as no rune has
   been replaced nothing is copied (the output will be the input itself);
   at the first replaced rune the buffer is back-filled with the RAW bytes
   value[:idx]; from then on valid runes are re-encoded with WriteRune.

   [strict = true] is the recommended tree (patches/fix-C06-invalid-byte.patch):
   a RuneError of width 1 - an invalid byte - is never valid, even when U+FFFD
   is an allowed character. [strict = false] is the pinned tree, kept for the
   witness theorems in Refuted/C06_refuted.v. Definitions only. *)
From Coq Require Import ZArith List Bool.
From Tally Require Import Model.Utf8.
Import ListNotations.
Open Scope Z_scope.

(* SanitizeRange{lo, hi}: inclusive on both ends; lo > hi is an empty range *)
Definition in_range (r : Z) (p : Z * Z) : bool := (fst p <=? r) && (r <=? snd p).

(* the two loops over c.Ranges and c.Characters *)
Definition allowedb (ranges : list (Z * Z)) (chars : list Z) (r : Z) : bool :=
  existsb (in_range r) ranges || existsb (Z.eqb r) chars.

Section San.
  Variable strict : bool.
  Variable allowed : Z -> bool.
  Variable rep : Z.

  (* validCurr after the loops (and, on the repaired tree, the width test) *)
  Definition unit_ok (u : Z * list Z) : bool :=
    allowed (fst u) && negb (strict && bad_unit u).

  (* state: [seen] = value[:idx]; [buf] = None while the buffer is nil *)
  Fixpoint san_units (us : list (Z * list Z)) (seen : list Z) (buf : option (list Z))
    : list Z * option (list Z) :=
    match us with
    | [] => (seen, buf)
    | u :: rest =>
      if unit_ok u then
        match buf with
        | None => san_units rest (seen ++ snd u) None                       (* continue *)
        | Some b => san_units rest (seen ++ snd u) (Some (b ++ enc (fst u))) (* WriteRune(ch) *)
        end
      else
        match buf with
        | None => san_units rest (seen ++ snd u) (Some (seen ++ enc rep))  (* WriteString(value[:idx]); WriteRune(repChar) *)
        | Some b => san_units rest (seen ++ snd u) (Some (b ++ enc rep))
        end
    end.

  Definition sanitize_gen (s : list Z) : list Z :=
    match snd (san_units (units_of s) [] None) with
    | None => s          (* buffer never initialised: the input itself *)
    | Some b => b
    end.
End San.

(* the sanitizer of the recommended tree and of the pinned tree *)
Definition sanitize (ranges : list (Z * Z)) (chars : list Z) (rep : Z) : list Z -> list Z :=
  sanitize_gen true (allowedb ranges chars) rep.
Definition sanitize_pinned (ranges : list (Z * Z)) (chars : list Z) (rep : Z) : list Z -> list Z :=
  sanitize_gen false (allowedb ranges chars) rep.

(* SanitizeOptions / NewSanitizer / NewNoOpSanitizer *)
Record vchars := VC { vranges : list (Z * Z); vextra : list Z }.
Record sopts := SO { so_name : vchars; so_key : vchars; so_value : vchars; so_rep : Z }.
Inductive skind := KName | KKey | KValue.
Definition table (o : sopts) (k : skind) : vchars :=
  match k with KName => so_name o | KKey => so_key o | KValue => so_value o end.
Definition allowed_of (o : sopts) (k : skind) : Z -> bool :=
  allowedb (vranges (table o k)) (vextra (table o k)).

(* scope.go newRootScope: no SanitizeOptions => NewNoOpSanitizer *)
Definition san_gen (strict : bool) (o : option sopts) (k : skind) (s : list Z) : list Z :=
  match o with
  | None => s
  | Some o => sanitize_gen strict (allowed_of o k) (so_rep o) s
  end.
Definition san := san_gen true.
