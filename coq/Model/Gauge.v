(* Executable model of stats.go gauge: Update = store curr; [y11] store updated := 1;
   report pass = swap(updated, 0); if it was 1 { [y21/22] load curr; deliver }.
   One updating thread per gauge in the property; the model allows any number. *)
From Coq Require Import ZArith List Bool Arith.
Import ListNotations.

(* updater: U1 store curr := v ; U2 store updated := 1.  reporter pass: R1 f := swap(updated,0); if f then R2: load curr; deliver *)
Inductive upc := UIdle (rest : list Z) | UFlag (rest : list Z).
Inductive rpc := RIdle (passes : nat) | RLoad (passes : nat).
Inductive thread := TU (pc : upc) | TR (pc : rpc).

Record sys := { curr : Z; updated : bool; log : list Z (* newest first *);
                stored : list Z (* values stored into curr, newest first *);
                flags : nat (* completed updates *); thr : list thread }.

Fixpoint upd {A} (l : list A) (i : nat) (x : A) : list A :=
  match l, i with [], _ => [] | _ :: t, O => x :: t | h :: t, S i' => h :: upd t i' x end.

Definition set_thr s i t := {| curr := curr s; updated := updated s; log := log s; stored := stored s; flags := flags s; thr := upd (thr s) i t |}.

Definition step (s : sys) (i : nat) : sys :=
  match nth_error (thr s) i with
  | Some (TU (UIdle (v :: rest))) =>
      set_thr {| curr := v; updated := updated s; log := log s; stored := v :: stored s; flags := flags s; thr := thr s |} i (TU (UFlag rest))
  | Some (TU (UFlag rest)) =>
      set_thr {| curr := curr s; updated := true; log := log s; stored := stored s; flags := S (flags s); thr := thr s |} i (TU (UIdle rest))
  | Some (TR (RIdle (S n))) =>
      if updated s
      then set_thr {| curr := curr s; updated := false; log := log s; stored := stored s; flags := flags s; thr := thr s |} i (TR (RLoad n))
      else set_thr s i (TR (RIdle n))
  | Some (TR (RLoad n)) =>
      set_thr {| curr := curr s; updated := updated s; log := curr s :: log s; stored := stored s; flags := flags s; thr := thr s |} i (TR (RIdle n))
  | _ => s
  end.
Definition run s sched := fold_left step sched s.
Definition init ths := {| curr := 0; updated := false; log := []; stored := []; flags := 0; thr := ths |}.


Definition label (t : thread) : Z :=
  match t with
  | TU (UIdle []) => (-1)%Z
  | TU (UIdle _) => 0%Z
  | TU (UFlag _) => 11%Z
  | TR (RIdle O) => (-1)%Z
  | TR (RIdle _) => 0%Z
  | TR (RLoad _) => 21%Z
  end.

(* mutant: the two stores of Update exchanged (flag first, then value) *)
Definition step_swapped (s : sys) (i : nat) : sys :=
  match nth_error (thr s) i with
  | Some (TU (UIdle (v :: rest))) =>
      set_thr {| curr := curr s; updated := true; log := log s; stored := stored s; flags := S (flags s); thr := thr s |} i (TU (UFlag (v :: rest)))
  | Some (TU (UFlag (v :: rest))) =>
      set_thr {| curr := v; updated := updated s; log := log s; stored := v :: stored s; flags := flags s; thr := thr s |} i (TU (UIdle rest))
  | _ => step s i
  end.
