(* The registry model of Model/Registry.v with the one guarantee of Go's map iteration that
   Registry.v leaves out: "every entry that is present during the whole iteration is produced".

   Registry.v lets a report pass end at any point (its theorems therefore hold for a superset of
   the real executions).  Here the same steps run under a clock, and a pass is allowed to END only
   when every entry of the map that has been there, unchanged, since before the pass began has
   been visited by it; a schedule that asks a pass to end earlier is refused (the state does not
   change).  Entries created or replaced during the pass may be skipped, as in Go.

   Ghost state (never read by [Registry.step]):
     clk        the number of steps executed so far, plus one
     ins k      the time at which the present binding of key k was established
     cclk o     the time at which Close was called on object o
     pstart i   the time at which thread i began its present (or last) pass
     pdone i    the start time of the last pass that thread i has completed *)
From Coq Require Import List Bool Arith.
From Tally Require Import Model.Registry.
Import ListNotations.

Record isys := { base : sys; clk : nat; ins : nat -> nat; cclk : nat -> nat;
                 pstart : nat -> nat; pdone : nat -> option nat }.

Definition opt_eqb (a b : option nat) : bool :=
  match a, b with
  | Some x, Some y => Nat.eqb x y
  | None, None => true
  | _, _ => false
  end.

(* the thread's next step begins a pass *)
Definition starting (t : thread) : bool :=
  match tpc t, prog t, passes t with
  | Idle, [], S _ => true
  | _, _, _ => false
  end.

(* the thread's next step lets its pass choose the next entry: the keys visited so far *)
Definition choosing (t : thread) : option (list nat) :=
  match tpc t with
  | P1 vis => Some vis
  | Idle => if starting t then Some [] else None
  | _ => None
  end.

(* Go's guarantee at the end of an iteration that began at time [p]: every binding that is older
   than [p] has been produced *)
Definition guard (r : list (nat * nat)) (ins : nat -> nat) (p : nat) (vis : list nat) : bool :=
  forallb (fun e => negb (Nat.ltb (ins (fst e)) p) || existsb (Nat.eqb (fst e)) vis) r.

Definition ending (b : sys) (t : thread) (ch : nat) : bool :=
  match choosing t with
  | Some _ => match lookup (reg b) ch with None => true | Some _ => false end
  | None => false
  end.

Definition visited (t : thread) : list nat :=
  match choosing t with Some v => v | None => [] end.

Definition istep (san : nat -> nat) (s : isys) (ic : nat * nat) : isys :=
  let b := base s in
  let i := fst ic in
  match nth_error (thr b) i with
  | None => s
  | Some t =>
    let p := if starting t then clk s else pstart s i in
    let e := ending b t (snd ic) in
    if e && negb (guard (reg b) (ins s) p (visited t)) then s
    else
      let b' := step san b ic in
      {| base := b';
         clk := S (clk s);
         ins := fun k => if opt_eqb (lookup (reg b) k) (lookup (reg b') k) then ins s k else clk s;
         cclk := fun o => if negb (closed (obj b o)) && closed (obj b' o) then clk s else cclk s o;
         pstart := fun j => if Nat.eqb j i then p else pstart s j;
         pdone := fun j => if Nat.eqb j i && e then Some p else pdone s j |}
  end.

Definition irun (san : nat -> nat) (s : isys) (sched : list (nat * nat)) : isys :=
  fold_left (istep san) sched s.

Definition iinit (ths : list thread) : isys :=
  {| base := init ths; clk := 1; ins := fun _ => 0; cclk := fun _ => 0;
     pstart := fun _ => 0; pdone := fun _ => None |}.

(* the step was refused (used by the correspondence check: the implementation must never end a
   pass where the model refuses to) *)
Definition refused (s : isys) (ic : nat * nat) : bool :=
  let b := base s in
  match nth_error (thr b) (fst ic) with
  | None => false
  | Some t =>
    let p := if starting t then clk s else pstart s (fst ic) in
    ending b t (snd ic) && negb (guard (reg b) (ins s) p (visited t))
  end.
