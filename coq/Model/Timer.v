(* Executable model of timers, stopwatches and instrumented calls
   (stats.go: timer, timerNoReporterSink, histogram.Start/RecordStopwatch;
   scope.go: Timer / SubScope / Tagged / report passes; types.go: Stopwatch;
   instrument/call.go) as driven through the public API, for the three
   flavours of scope: plain reporter, cached reporter, reporter-less test
   scope.

   A history is a list of API calls over handles (scopes, timers, duration
   histograms, stopwatches, instrumented calls are numbered in creation
   order).  The clock is an oracle [clk : nat -> Z]: the i-th reading of
   globalNow() returns clk i (int64 unix nanoseconds).  The outcome of an
   instrumented function (nil / error) is an input bit of the Exec call.

   The reporter is a recording one: its call log is part of the state, in
   the event vocabulary of harness/vh/sinks.go (kinds 1 counter, 3 timer,
   5 duration samples, 6 flush, 11/13/14 Allocate{Counter,Timer,Histogram},
   21 ReportCount, 23 ReportTimer on a handle, 25 DurationBucket,
   26 ReportSamples).  No proofs here. *)
From Coq Require Import ZArith List Bool Arith.
From Tally Require Import Base.ObsCore Model.Buckets.
Import ListNotations.
Open Scope Z_scope.

(* ---------- names, tags, keys ---------- *)
Definition tags := list (bytes * bytes).      (* sorted by key, keys distinct *)

Fixpoint blt (a b : bytes) : bool :=           (* Go's a < b on strings: bytewise lexicographic *)
  match a, b with
  | [], [] => false
  | [], _ :: _ => true
  | _ :: _, [] => false
  | x :: a', y :: b' => if x <? y then true else if y <? x then false else blt a' b'
  end.

Fixpoint tinsert (k v : bytes) (t : tags) : tags :=
  match t with
  | [] => [(k, v)]
  | (k', v') :: r => if zs_eqb k k' then (k, v) :: r
                     else if blt k k' then (k, v) :: t
                     else (k', v') :: tinsert k v r
  end.
(* mergeRightTags: the parent's tags overridden by the new ones *)
Definition tmerge (p t : tags) : tags :=
  fold_left (fun acc kv => tinsert (fst kv) (snd kv) acc) t p.

Fixpoint tlookup (k : bytes) (t : tags) : option bytes :=
  match t with
  | [] => None
  | (k', v) :: r => if zs_eqb k k' then Some v else tlookup k r
  end.

Definition SEP : bytes := [46].                                              (* "." *)
Definition RESULT_TYPE : bytes := [114;101;115;117;108;116;95;116;121;112;101]. (* "result_type" *)
Definition R_ERROR : bytes := [101;114;114;111;114].                           (* "error" *)
Definition R_SUCCESS : bytes := [115;117;99;99;101;115;115].                   (* "success" *)
Definition LATENCY : bytes := [108;97;116;101;110;99;121].                     (* "latency" *)

(* scope.fullyQualifiedName *)
(* The sanitizer of the root scope (ScopeOptions.SanitizeOptions; the identity
   without): three functions on strings, for metric names / prefixes / the
   separator, for tag keys and for tag values.  The model is parametric in
   them; the correspondence check instantiates them with Model/Sanitize.v. *)
Record sanz := San { sn : bytes -> bytes; sk : bytes -> bytes; sv : bytes -> bytes }.
Definition san_id : sanz := San (fun x => x) (fun x => x) (fun x => x).
(* newRootScope: separator = sanitizer.Name(opts.Separator), "." by default *)
Definition sepz (sz : sanz) : bytes := sn sz SEP.
(* copyAndSanitizeMap *)
Definition stags (sz : sanz) (t : tags) : tags := map (fun kv => (sk sz (fst kv), sv sz (snd kv))) t.

(* A scope's prefix is kept in joinable form: "" for the empty prefix, else
   prefix ++ separator, so that scope.fullyQualifiedName(name) is
   (joinable prefix) ++ name. *)
Definition jn (sep p : bytes) : bytes := match p with [] => [] | _ => p ++ sep end.

(* a scope is identified by its (joinable prefix, tags) *)
Definition scope := (bytes * tags)%type.
(* a metric object is identified by its scope, its (sanitized) name in that
   scope and the epoch of the scope's metric tables: a closed scope's tables
   are cleared when a report pass drops it from the registry (clearMetrics);
   a name requested afterwards is a new metric *)
Definition key := (bytes * tags * bytes * nat)%type.
Definition mkkey (sc : scope) (n : bytes) (e : nat) : key := (fst sc, snd sc, n, e).
Definition kpre (k : key) : bytes := fst (fst (fst k)).
Definition ktags (k : key) : tags := snd (fst (fst k)).
Definition knm (k : key) : bytes := snd (fst k).
Definition kep (k : key) : nat := snd k.
Definition tags_eqb : tags -> tags -> bool :=
  list_eqb (fun a b => zs_eqb (fst a) (fst b) && zs_eqb (snd a) (snd b)).
Definition scope_eqb (a b : scope) : bool := zs_eqb (fst a) (fst b) && tags_eqb (snd a) (snd b).
Definition key_eqb (a b : key) : bool :=
  zs_eqb (kpre a) (kpre b) && tags_eqb (ktags a) (ktags b) && zs_eqb (knm a) (knm b) && Nat.eqb (kep a) (kep b).
Definition kfq (k : key) : bytes := kpre k ++ knm k.   (* fullyQualifiedName *)
Definition flat (t : tags) : list bytes := flat_map (fun kv => [fst kv; snd kv]) t.
(* what a reporter sees: the fully qualified name, then the tags *)
Definition kstrs (k : key) : list bytes := kfq k :: flat (ktags k).

Fixpoint find_idx {A} (p : A -> bool) (l : list A) : option nat :=
  match l with
  | [] => None
  | x :: r => if p x then Some 0%nat else option_map S (find_idx p r)
  end.
Definition kfind (k : key) (keys : list key) : option nat := find_idx (key_eqb k) keys.

Fixpoint upd {A} (i : nat) (f : A -> A) (l : list A) : list A :=
  match l, i with
  | [], _ => []
  | x :: r, O => f x :: r
  | x :: r, S j => x :: upd j f r
  end.

(* ---------- int64 ---------- *)
Definition sat64 (z : Z) : Z :=            (* time.Time.Sub saturates *)
  if z <? MINI then MINI else if MAXI <? z then MAXI else z.
Definition wrap64 (z : Z) : Z :=
  (z + 9223372036854775808) mod 18446744073709551616 - 9223372036854775808.

(* ---------- the registry's view of scopes (Close, report passes) ---------- *)
Record reg := Reg {
  r_root : scope;
  r_known : list scope;          (* every scope created so far, once each *)
  r_ep : list (scope * nat);     (* how often each scope's metric tables were cleared (first entry wins) *)
  r_closed : list scope;         (* Close()d and still in the registry *)
  r_dropped : list scope;        (* no longer in the registry *)
  r_rootclosed : bool
}.
Definition smem (sc : scope) (l : list scope) : bool := existsb (scope_eqb sc) l.
Fixpoint ep_of (ep : list (scope * nat)) (sc : scope) : nat :=
  match ep with
  | [] => 0%nat
  | (s, n) :: r => if scope_eqb sc s then n else ep_of r sc
  end.
Definition bump (ep : list (scope * nat)) (sc : scope) : list (scope * nat) := (sc, S (ep_of ep sc)) :: ep.
Definition reg_init (root : scope) : reg := Reg root [root] [] [] [] false.
(* registry.Subscope creating (or finding) a scope *)
Definition reg_note (r : reg) (sc : scope) : reg :=
  if smem sc (r_known r) then r
  else Reg (r_root r) (r_known r ++ [sc]) (r_ep r) (r_closed r) (r_dropped r) (r_rootclosed r).
(* Close() of a scope other than the root: a flag, until the next report pass *)
Definition reg_close (r : reg) (sc : scope) : reg :=
  if r_rootclosed r || smem sc (r_closed r) || smem sc (r_dropped r) then r
  else Reg (r_root r) (r_known r) (r_ep r) (sc :: r_closed r) (r_dropped r) (r_rootclosed r).
(* a report pass drops the closed scopes and clears their tables (test scopes
   are never reported, hence never dropped) *)
Definition reg_pass (test : bool) (r : reg) : reg :=
  if test then r
  else Reg (r_root r) (r_known r) (fold_left bump (r_closed r) (r_ep r)) []
           (r_dropped r ++ r_closed r) (r_rootclosed r).
(* Close() of the root: final report pass, then purgeIfRootClosed - every
   scope still registered is closed, cleared and dropped *)
Definition reg_rootclose (test : bool) (r : reg) : reg :=
  if test then Reg (r_root r) (r_known r) (r_ep r) (r_closed r) (r_dropped r) true
  else
    let live := filter (fun sc => negb (smem sc (r_dropped r))) (r_known r) in
    Reg (r_root r) (r_known r) (fold_left bump live (r_ep r)) [] (r_dropped r ++ live) true.

(* ---------- state ---------- *)
(* FBoth: a root scope given both a plain and a cached reporter.  Metrics are
   allocated on the cached reporter, timers go to their cached handle only,
   report passes go to the plain reporter (scope.reportRegistry prefers it). *)
Inductive flavour := FPlain | FCached | FTest | FBoth.
Definition has_cached (fl : flavour) : bool :=
  match fl with FCached | FBoth => true | _ => false end.
Definition is_test (fl : flavour) : bool := match fl with FTest => true | _ => false end.

Record tobj := TObj { tkey : key; tcid : Z; tunrep : list Z }.
Record cobj := CObj { ckey : key; ccid : Z; cpend : Z }.
Record hobj := HObj { hkey : key; hspec : list Z; hcid : Z; hbid : Z; hh : hist }.
Inductive recorder := RTimer (o : nat) | RHist (o : nat).

Record state := State {
  scopes : list scope;                   (* scope handle -> (prefix, tags) *)
  timers : list tobj;                    (* timer objects, in creation order *)
  thand : list nat;                      (* timer handle -> object *)
  counters : list cobj;
  hists : list hobj;
  hhand : list nat;                      (* histogram handle -> object *)
  sws : list (recorder * Z);             (* stopwatch handle -> (recorder, start time) *)
  calls : list (nat * nat * nat);        (* call handle -> (error counter, success counter, latency timer) *)
  nclk : nat;                            (* clock readings taken so far *)
  rnh : Z; rnb : Z;                      (* the recording cached reporter's next handle / bucket id *)
  log : list ev;                         (* the reporter's call log *)
  fruns : list (nat * bool);             (* invocations of instrumented functions: (call handle, outcome) *)
  rets : list bool;                      (* what each Exec returned (true = the function's error) *)
  sreg : reg;                            (* which scopes are closed / dropped, table epochs *)
  execs : list (nat * (nat * nat * nat) * Z)  (* execution handle -> (call handle, its metrics, start time) *)
}.

Definition set_scopes (s : state) v : state :=
  State v (timers s) (thand s) (counters s) (hists s) (hhand s) (sws s) (calls s) (nclk s) (rnh s) (rnb s) (log s) (fruns s) (rets s) (sreg s) (execs s).
Definition set_timers (s : state) v : state :=
  State (scopes s) v (thand s) (counters s) (hists s) (hhand s) (sws s) (calls s) (nclk s) (rnh s) (rnb s) (log s) (fruns s) (rets s) (sreg s) (execs s).
Definition set_thand (s : state) v : state :=
  State (scopes s) (timers s) v (counters s) (hists s) (hhand s) (sws s) (calls s) (nclk s) (rnh s) (rnb s) (log s) (fruns s) (rets s) (sreg s) (execs s).
Definition set_counters (s : state) v : state :=
  State (scopes s) (timers s) (thand s) v (hists s) (hhand s) (sws s) (calls s) (nclk s) (rnh s) (rnb s) (log s) (fruns s) (rets s) (sreg s) (execs s).
Definition set_hists (s : state) v : state :=
  State (scopes s) (timers s) (thand s) (counters s) v (hhand s) (sws s) (calls s) (nclk s) (rnh s) (rnb s) (log s) (fruns s) (rets s) (sreg s) (execs s).
Definition set_hhand (s : state) v : state :=
  State (scopes s) (timers s) (thand s) (counters s) (hists s) v (sws s) (calls s) (nclk s) (rnh s) (rnb s) (log s) (fruns s) (rets s) (sreg s) (execs s).
Definition set_sws (s : state) v : state :=
  State (scopes s) (timers s) (thand s) (counters s) (hists s) (hhand s) v (calls s) (nclk s) (rnh s) (rnb s) (log s) (fruns s) (rets s) (sreg s) (execs s).
Definition set_calls (s : state) v : state :=
  State (scopes s) (timers s) (thand s) (counters s) (hists s) (hhand s) (sws s) v (nclk s) (rnh s) (rnb s) (log s) (fruns s) (rets s) (sreg s) (execs s).
Definition set_nclk (s : state) v : state :=
  State (scopes s) (timers s) (thand s) (counters s) (hists s) (hhand s) (sws s) (calls s) v (rnh s) (rnb s) (log s) (fruns s) (rets s) (sreg s) (execs s).
Definition set_rnh (s : state) v : state :=
  State (scopes s) (timers s) (thand s) (counters s) (hists s) (hhand s) (sws s) (calls s) (nclk s) v (rnb s) (log s) (fruns s) (rets s) (sreg s) (execs s).
Definition set_rnb (s : state) v : state :=
  State (scopes s) (timers s) (thand s) (counters s) (hists s) (hhand s) (sws s) (calls s) (nclk s) (rnh s) v (log s) (fruns s) (rets s) (sreg s) (execs s).
Definition set_log (s : state) v : state :=
  State (scopes s) (timers s) (thand s) (counters s) (hists s) (hhand s) (sws s) (calls s) (nclk s) (rnh s) (rnb s) v (fruns s) (rets s) (sreg s) (execs s).
Definition set_fruns (s : state) v : state :=
  State (scopes s) (timers s) (thand s) (counters s) (hists s) (hhand s) (sws s) (calls s) (nclk s) (rnh s) (rnb s) (log s) v (rets s) (sreg s) (execs s).
Definition set_rets (s : state) v : state :=
  State (scopes s) (timers s) (thand s) (counters s) (hists s) (hhand s) (sws s) (calls s) (nclk s) (rnh s) (rnb s) (log s) (fruns s) v (sreg s) (execs s).
Definition set_sreg (s : state) v : state :=
  State (scopes s) (timers s) (thand s) (counters s) (hists s) (hhand s) (sws s) (calls s) (nclk s) (rnh s) (rnb s) (log s) (fruns s) (rets s) v (execs s).
Definition set_execs (s : state) v : state :=
  State (scopes s) (timers s) (thand s) (counters s) (hists s) (hhand s) (sws s) (calls s) (nclk s) (rnh s) (rnb s) (log s) (fruns s) (rets s) (sreg s) v.

Definition add_log (s : state) (x : list ev) : state := set_log s (log s ++ x).

Definition init (sz : sanz) (root : bytes * tags) : state :=
  let r := (jn (sepz sz) (sn sz (fst root)), tmerge [] (stags sz (snd root))) in
  State [r] [] [] [] [] [] [] [] 0%nat 0 0 [] [] [] (reg_init r) [].

(* ---------- get-or-create (scope.Timer / Counter / Histogram) ---------- *)
Definition tkeys (s : state) : list key := map tkey (timers s).
Definition ckeys (s : state) : list key := map ckey (counters s).
Definition hkeys (s : state) : list key := map hkey (hists s).

Definition get_timer (fl : flavour) (s : state) (k : key) : state * nat :=
  match kfind k (tkeys s) with
  | Some i => (s, i)
  | None =>
      let i := length (timers s) in
      if has_cached fl
      then (set_timers (set_rnh (add_log s [Ev 13 [rnh s] (kstrs k)]) (rnh s + 1))
                       (timers s ++ [TObj k (rnh s) []]), i)
      else (set_timers s (timers s ++ [TObj k (-1) []]), i)
  end.

Definition get_counter (fl : flavour) (s : state) (k : key) : state * nat :=
  match kfind k (ckeys s) with
  | Some i => (s, i)
  | None =>
      let i := length (counters s) in
      if has_cached fl
      then (set_counters (set_rnh (add_log s [Ev 11 [rnh s] (kstrs k)]) (rnh s + 1))
                         (counters s ++ [CObj k (rnh s) 0]), i)
      else (set_counters s (counters s ++ [CObj k (-1) 0]), i)
  end.

Definition spec_ints (spec : list Z) : list Z := Z.of_nat (length spec) :: spec.

Definition bucket_allocs (hid bid0 : Z) (spec : list Z) : list ev :=
  map (fun ip => Ev 25 [hid; fst (snd ip); snd (snd ip); bid0 + Z.of_nat (fst ip)] [])
      (combine (seq 0 (length (pairs KDuration spec))) (pairs KDuration spec)).

Definition get_hist (fl : flavour) (s : state) (k : key) (spec : list Z) : state * nat :=
  match kfind k (hkeys s) with
  | Some i => (s, i)
  | None =>
      let i := length (hists s) in
      let h := hnew KDuration spec in
      if has_cached fl
      then
        let s1 := add_log s (Ev 14 (rnh s :: spec_ints spec) (kstrs k) :: bucket_allocs (rnh s) (rnb s) spec) in
        (set_hists (set_rnb (set_rnh s1 (rnh s + 1)) (rnb s + Z.of_nat (length (hus h))))
                   (hists s ++ [HObj k spec (rnh s) (rnb s) h]), i)
      else (set_hists s (hists s ++ [HObj k spec (-1) (-1) h]), i)
  end.

(* ---------- timer.Record ---------- *)
Definition deliver (fl : flavour) (s : state) (oi : nat) (d : Z) : state :=
  match nth_error (timers s) oi with
  | None => s
  | Some o =>
      match fl with
      | FPlain => add_log s [Ev 3 [d] (kstrs (tkey o))]
      | FCached | FBoth => add_log s [Ev 23 [tcid o; d] []]   (* the cached timer takes precedence *)
      | FTest => set_timers s (upd oi (fun o => TObj (tkey o) (tcid o) (tunrep o ++ [d])) (timers s))
      end
  end.

Definition hrecord (s : state) (oi : nat) (d : Z) : state :=
  set_hists s (upd oi (fun h => HObj (hkey h) (hspec h) (hcid h) (hbid h)
                                     (fst (hstep (hh h) (HRec KDuration d)))) (hists s)).

Definition inc_counter (s : state) (oi : nat) : state :=
  set_counters s (upd oi (fun c => CObj (ckey c) (ccid c) (wrap64 (cpend c + 1))) (counters s)).

(* ---------- one report pass ---------- *)
Definition hdeliv_idx (h : hist) : list (nat * Z) :=
  flat_map (fun i => let c := nth i (hcnt h) 0 in if c =? 0 then [] else [(i, c)])
           (seq 0 (length (hus h))).

Definition pass_events (fl : flavour) (s : state) : list ev :=
  match fl with
  | FPlain | FBoth =>
      flat_map (fun c => if cpend c =? 0 then [] else [Ev 1 [cpend c] (kstrs (ckey c))]) (counters s) ++
      flat_map (fun h => map (fun d => Ev 5 ([fst (fst d); snd (fst d); snd d] ++ spec_ints (hspec h)) (kstrs (hkey h)))
                             (deliveries (hh h))) (hists s) ++
      [Ev 6 [] []]
  | FCached =>
      flat_map (fun c => if cpend c =? 0 then [] else [Ev 21 [ccid c; cpend c] []]) (counters s) ++
      flat_map (fun h => map (fun ic => Ev 26 [hbid h + Z.of_nat (fst ic); snd ic] []) (hdeliv_idx (hh h))) (hists s) ++
      [Ev 6 [] []]
  | FTest => []
  end.

Definition pass (fl : flavour) (s : state) : state :=
  match fl with
  | FTest => s                       (* no reporter: reportRegistry does nothing *)
  | _ =>
      set_hists
        (set_counters (add_log s (pass_events fl s))
                      (map (fun c => CObj (ckey c) (ccid c) 0) (counters s)))
        (map (fun h => HObj (hkey h) (hspec h) (hcid h) (hbid h) (fst (hstep (hh h) HPass))) (hists s))
  end.

(* ---------- histories ---------- *)
Inductive op :=
| OSub (s : nat) (p : bytes)                 (* new scope handle := scopes[s].SubScope(p) *)
| OTag (s : nat) (t : tags)                  (* new scope handle := scopes[s].Tagged(t) *)
| OTimer (s : nat) (n : bytes)               (* new timer handle := scopes[s].Timer(n) *)
| ORecord (t : nat) (d : Z)                  (* timers[t].Record(d) *)
| OPass                                      (* one periodic report pass *)
| OStart (t : nat)                           (* new stopwatch handle := timers[t].Start() *)
| OHist (s : nat) (n : bytes) (spec : list Z)(* new histogram handle := scopes[s].Histogram(n, DurationBuckets(spec)) *)
| OHStart (h : nat)                          (* new stopwatch handle := hists[h].Start() *)
| OStop (w : nat)                            (* sws[w].Stop() *)
| OCall (s : nat) (n : bytes)                (* new call handle := instrument.NewCall(scopes[s], n) *)
| OExec (c : nat) (e : bool)                 (* calls[c].Exec(f), f returning an error iff e *)
| OClose (s : nat)                           (* scopes[s].Close() (the root: final report, everything dropped) *)
(* an execution whose function does not return at once: calls[c].Exec(f) has
   started and is inside f (OBegin: new execution handle) ... f returns, with
   an error iff e, and Exec finishes (OEnd).  Anything may happen in between,
   other executions on the same Call included (f calling Exec itself, another
   goroutine). *)
| OBegin (c : nat)
| OEnd (x : nat) (e : bool)
(* scopes[s].Timer(n) on a cached reporter that refuses the allocation:
   AllocateTimer panics, Timer panics, the caller recovers (as the Prometheus
   reporter's callers must on a registration error).  Nothing is left behind:
   no handle, no timer in the scope's table - the name can be requested again. *)
| OTimerRefused (s : nat) (n : bytes).

Definition step (sz : sanz) (fl : flavour) (clk : nat -> Z) (s : state) (o : op) : state :=
  match o with
  | OSub i p =>
      match nth_error (scopes s) i with
      | Some sc =>
          let v := (jn (sepz sz) (fst sc ++ sn sz p), snd sc) in
          set_sreg (set_scopes s (scopes s ++ [v])) (reg_note (sreg s) v)
      | None => s
      end
  | OTag i t =>
      match nth_error (scopes s) i with
      | Some sc =>
          let v := (fst sc, tmerge (snd sc) (stags sz t)) in
          set_sreg (set_scopes s (scopes s ++ [v])) (reg_note (sreg s) v)
      | None => s
      end
  | OTimer i n =>
      match nth_error (scopes s) i with
      | Some sc =>
          let r := get_timer fl s (mkkey sc (sn sz n) (ep_of (r_ep (sreg s)) sc)) in
          set_thand (fst r) (thand (fst r) ++ [snd r])
      | None => s
      end
  | ORecord t d =>
      match nth_error (thand s) t with
      | Some oi => deliver fl s oi d
      | None => s
      end
  | OPass =>
      if r_rootclosed (sreg s) then s           (* reportLoopRun: nothing once the root is closed *)
      else let s1 := pass fl s in set_sreg s1 (reg_pass (is_test fl) (sreg s1))
  | OStart t =>
      match nth_error (thand s) t with
      | Some oi => set_nclk (set_sws s (sws s ++ [(RTimer oi, clk (nclk s))])) (S (nclk s))
      | None => s
      end
  | OHist i n spec =>
      match nth_error (scopes s) i with
      | Some sc =>
          let r := get_hist fl s (mkkey sc (sn sz n) (ep_of (r_ep (sreg s)) sc)) spec in
          set_hhand (fst r) (hhand (fst r) ++ [snd r])
      | None => s
      end
  | OHStart h =>
      match nth_error (hhand s) h with
      | Some oi => set_nclk (set_sws s (sws s ++ [(RHist oi, clk (nclk s))])) (S (nclk s))
      | None => s
      end
  | OStop w =>
      match nth_error (sws s) w with
      | Some (r, st) =>
          let d := sat64 (clk (nclk s) - st) in
          let s1 := set_nclk s (S (nclk s)) in
          match r with
          | RTimer oi => deliver fl s1 oi d
          | RHist oi => hrecord s1 oi d
          end
      | None => s
      end
  | OCall i n =>
      match nth_error (scopes s) i with
      | Some sc =>
          let ce := (fst sc, tmerge (snd sc) (stags sz [(RESULT_TYPE, R_ERROR)])) in
          let cs := (fst sc, tmerge (snd sc) (stags sz [(RESULT_TYPE, R_SUCCESS)])) in
          let cl := (jn (sepz sz) (fst sc ++ sn sz n), snd sc) in
          let ep := r_ep (sreg s) in
          let r1 := get_counter fl s (mkkey ce (sn sz n) (ep_of ep ce)) in
          let r2 := get_counter fl (fst r1) (mkkey cs (sn sz n) (ep_of ep cs)) in
          let r3 := get_timer fl (fst r2) (mkkey cl (sn sz LATENCY) (ep_of ep cl)) in
          let s4 := set_calls (fst r3) (calls (fst r3) ++ [(snd r1, snd r2, snd r3)]) in
          set_sreg s4 (reg_note (reg_note (reg_note (sreg s4) ce) cs) cl)
      | None => s
      end
  | OExec c e =>
      match nth_error (calls s) c with
      | Some (ce, cs, ti) =>
          let st := clk (nclk s) in                                   (* sw := timing.Start() *)
          let s1 := set_fruns (set_nclk s (S (nclk s))) (fruns s ++ [(c, e)]) in  (* err := f() *)
          let d := sat64 (clk (nclk s1) - st) in                      (* sw.Stop() *)
          let s2 := deliver fl (set_nclk s1 (S (nclk s1))) ti d in
          let s3 := inc_counter s2 (if e then ce else cs) in
          set_rets s3 (rets s3 ++ [e])
      | None => s
      end
  | OClose i =>
      match nth_error (scopes s) i with
      | Some sc =>
          if r_rootclosed (sreg s) then s
          else if scope_eqb sc (r_root (sreg s))
          then let s1 := pass fl s in set_sreg s1 (reg_rootclose (is_test fl) (sreg s1))
          else set_sreg s (reg_close (sreg s) sc)
      | None => s
      end
  | OBegin c =>
      match nth_error (calls s) c with
      | Some h => set_nclk (set_execs s (execs s ++ [(c, h, clk (nclk s))])) (S (nclk s))   (* sw := timing.Start() *)
      | None => s
      end
  | OEnd x e =>
      match nth_error (execs s) x with
      | Some (c, (ce, cs, ti), st) =>
          let d := sat64 (clk (nclk s) - st) in                                    (* sw.Stop() *)
          let s1 := set_fruns (set_nclk s (S (nclk s))) (fruns s ++ [(c, e)]) in
          let s2 := deliver fl s1 ti d in
          let s3 := inc_counter s2 (if e then ce else cs) in
          set_rets s3 (rets s3 ++ [e])
      | None => s
      end
  | OTimerRefused _ _ => s
  end.

Definition run (sz : sanz) (fl : flavour) (clk : nat -> Z) (root : bytes * tags) (ops : list op) : state :=
  fold_left (step sz fl clk) ops (init sz root).

(* ---------- what a test scope's Snapshot() shows ---------- *)
Fixpoint interleave (a b : list Z) : list Z :=
  match a, b with x :: a', y :: b' => x :: y :: interleave a' b' | _, _ => [] end.

Definition snapshot (s : state) : list ev :=
  map (fun o => Ev 31 (tunrep o) (kstrs (tkey o))) (timers s) ++
  map (fun c => Ev 30 [cpend c] (kstrs (ckey c))) (counters s) ++
  map (fun h => Ev 32 (interleave (hus (hh h)) (hcnt (hh h))) (kstrs (hkey h))) (hists s).
