(* UTF-8 as the Go runtime implements it, on byte strings = lists of Z.
   [dec] is utf8.DecodeRuneInString / one step of `for idx, ch := range s`
   (invalid byte => (RuneError, 1); overlong forms, surrogates, values above
   0x10FFFF and truncated sequences are invalid); [enc] is utf8.AppendRune /
   bytes.Buffer.WriteRune (an invalid rune - negative, surrogate, above
   0x10FFFF - is written as U+FFFD). Definitions only; proofs in Proof/Utf8P.v. *)
From Coq Require Import ZArith List Bool.
Import ListNotations.
Open Scope Z_scope.

Definition RuneError : Z := 0xFFFD.

Definition valid_rune (r : Z) : bool :=
  (0 <=? r) && (r <? 0x110000) && negb ((0xD800 <=? r) && (r <=? 0xDFFF)).

(* what WriteRune writes for r is the encoding of [norm r] *)
Definition norm (r : Z) : Z := if valid_rune r then r else RuneError.

Definition enc (r : Z) : list Z :=
  if negb (valid_rune r) then [0xEF; 0xBF; 0xBD]
  else if r <? 0x80 then [r]
  else if r <? 0x800 then [0xC0 + r / 64; 0x80 + r mod 64]
  else if r <? 0x10000 then [0xE0 + r / 4096; 0x80 + (r / 64) mod 64; 0x80 + r mod 64]
  else [0xF0 + r / 262144; 0x80 + (r / 4096) mod 64; 0x80 + (r / 64) mod 64; 0x80 + r mod 64].

Definition cont (b : Z) : bool := (0x80 <=? b) && (b <=? 0xBF).

(* (rune, width) of the first unit of s *)
Definition dec (s : list Z) : Z * Z :=
  match s with
  | [] => (RuneError, 0)
  | b0 :: t =>
    if b0 <? 0x80 then (b0, 1)
    else if b0 <? 0xC2 then (RuneError, 1)
    else if b0 <? 0xE0 then
      match t with
      | b1 :: _ => if cont b1 then ((b0 - 0xC0) * 64 + (b1 - 0x80), 2) else (RuneError, 1)
      | _ => (RuneError, 1) end
    else if b0 <? 0xF0 then
      match t with
      | b1 :: b2 :: _ =>
        let lo := if b0 =? 0xE0 then 0xA0 else 0x80 in
        let hi := if b0 =? 0xED then 0x9F else 0xBF in
        if (lo <=? b1) && (b1 <=? hi) && cont b2
        then ((b0 - 0xE0) * 4096 + (b1 - 0x80) * 64 + (b2 - 0x80), 3) else (RuneError, 1)
      | _ => (RuneError, 1) end
    else if b0 <? 0xF5 then
      match t with
      | b1 :: b2 :: b3 :: _ =>
        let lo := if b0 =? 0xF0 then 0x90 else 0x80 in
        let hi := if b0 =? 0xF4 then 0x8F else 0xBF in
        if (lo <=? b1) && (b1 <=? hi) && cont b2 && cont b3
        then ((b0 - 0xF0) * 262144 + (b1 - 0x80) * 4096 + (b2 - 0x80) * 64 + (b3 - 0x80), 4)
        else (RuneError, 1)
      | _ => (RuneError, 1) end
    else (RuneError, 1)
  end.

Fixpoint take {A} (n : nat) (l : list A) : list A :=
  match n, l with O, _ => [] | _, [] => [] | S n', x :: t => x :: take n' t end.
Fixpoint drop {A} (n : nat) (l : list A) : list A :=
  match n, l with O, _ => l | _, [] => [] | S n', _ :: t => drop n' t end.

(* `for idx, ch := range s`: the units of s, each with its rune and the raw
   bytes it consumed. Fuel = length of the string is always enough. *)
Fixpoint units (fuel : nat) (s : list Z) : list (Z * list Z) :=
  match fuel with
  | O => []
  | S f =>
    match s with
    | [] => []
    | _ => let '(r, w) := dec s in
           let n := Z.to_nat w in
           (r, take n s) :: units f (drop n s)
    end
  end.
Definition units_of (s : list Z) := units (length s) s.
Definition runes (s : list Z) : list Z := map fst (units_of s).

Definition is_byte (b : Z) : bool := (0 <=? b) && (b <? 256).
Definition is_bytes (s : list Z) : bool := forallb is_byte s.

(* a unit produced by an invalid byte: RuneError of width 1 (a well-formed
   U+FFFD has width 3) *)
Definition bad_unit (u : Z * list Z) : bool :=
  (fst u =? RuneError) && Nat.eqb (length (snd u)) 1.
Definition valid_utf8 (s : list Z) : bool := forallb (fun u => negb (bad_unit u)) (units_of s).
