(* Executable model of the bucket constructors of histogram.go:
     LinearValueBuckets / LinearDurationBuckets /
     ExponentialValueBuckets / ExponentialDurationBuckets and their Must
     variants.

   float64 values are their 64-bit patterns (Z in [0, 2^64)).  The arithmetic
   is the executable IEEE-754 specification of the Coq standard library
   (Coq.Floats.SpecFloat, binary64 = precision 53, emax 1024, round to
   nearest even) behind two conversions between bit patterns and
   [spec_float].  SpecFloat has no NaN payloads: every NaN is one value and is
   written back as the canonical quiet NaN 0x7FF8000000000000 (the harness
   canonicalises the NaNs it observes in the same way).

   The code computes [start + float64(i)*width] with two roundings (Go does
   not fuse on amd64 with GOAMD64=v1, the configuration checked here).
   int64 arithmetic wraps ([wrap64]). *)
From Coq Require Import ZArith List Bool.
From Coq Require Import Floats.SpecFloat.
From Tally Require Import Model.Buckets.
Import ListNotations.
Open Scope Z_scope.

Definition P52 : Z := 4503599627370496.                 (* 2^52 *)
Definition P64 : Z := 18446744073709551616.             (* 2^64 *)
Definition QNAN : Z := 9221120237041090560.             (* 0x7FF8000000000000 *)
Definition FONE : Z := 4607182418800017408.             (* 1.0 *)
Definition FZERO : Z := 0.                              (* +0.0 *)

Definition prec : Z := 53.
Definition emax : Z := 1024.

(* bit pattern -> IEEE value *)
Definition sf_of_bits (b : Z) : spec_float :=
  let s := SIGN <=? b in
  let mag := b mod SIGN in
  let e := mag / P52 in
  let m := mag mod P52 in
  if e =? 2047 then (if m =? 0 then S754_infinity s else S754_nan)
  else if e =? 0 then
    match m with Zpos p => S754_finite s p (-1074) | _ => S754_zero s end
  else
    match m + P52 with Zpos p => S754_finite s p (e - 1075) | _ => S754_nan end.

(* IEEE value (canonical, as produced by the operations) -> bit pattern *)
Definition sign_bits (s : bool) : Z := if s then SIGN else 0.
Definition bits_of_sf (x : spec_float) : Z :=
  match x with
  | S754_zero s => sign_bits s
  | S754_infinity s => sign_bits s + EXPM
  | S754_nan => QNAN
  | S754_finite s m e =>
      sign_bits s +
      (if Zpos m <? P52 then Zpos m                      (* subnormal: e = -1074 *)
       else (e + 1075) * P52 + (Zpos m - P52))
  end.

Definition fadd (a b : Z) : Z := bits_of_sf (SFadd prec emax (sf_of_bits a) (sf_of_bits b)).
Definition fmul (a b : Z) : Z := bits_of_sf (SFmul prec emax (sf_of_bits a) (sf_of_bits b)).
(* float64(i) for an integer i: correctly rounded *)
Definition f_of_int (i : Z) : Z := bits_of_sf (binary_normalize prec emax i 0 false).

(* int64(f): truncation toward zero.  Go defines the conversion only when the
   truncated value fits; outside (and for NaN, infinities) the model returns
   what amd64's CVTTSD2SQ returns, math.MinInt64 -- the harness never relies
   on it (its generator keeps every used conversion in range). *)
Definition int64_of_f (b : Z) : Z :=
  match sf_of_bits b with
  | S754_zero _ => 0
  | S754_finite s m e =>
      let mag := if 0 <=? e then Zpos m * 2 ^ e else Zpos m / 2 ^ (- e) in
      let v := if s then - mag else mag in
      if (MINI <=? v) && (v <=? MAXI) then v else MINI
  | _ => MINI
  end.
(* is the conversion defined by the language? *)
Definition int64_of_f_defined (b : Z) : bool :=
  match sf_of_bits b with
  | S754_zero _ => true
  | S754_finite s m e =>
      let mag := if 0 <=? e then Zpos m * 2 ^ e else Zpos m / 2 ^ (- e) in
      let v := if s then - mag else mag in
      (MINI <=? v) && (v <=? MAXI)
  | _ => false
  end.

(* Go's a <= b on float64: false when either is a NaN; -0 <= +0 *)
Definition fle (a b : Z) : bool :=
  match fkey a, fkey b with Some x, Some y => x <=? y | _, _ => false end.

(* int64 wrap-around *)
Definition wrap64 (x : Z) : Z := (x + SIGN) mod P64 - SIGN.

(* ---------------- the constructors ---------------- *)
(* [None] = the error return (nil, err) *)

Definition lin_value_elem (start width : Z) (i : nat) : Z :=
  fadd start (fmul (f_of_int (Z.of_nat i)) width).
Definition linear_value (start width n : Z) : option (list Z) :=
  if n <=? 0 then None
  else Some (map (lin_value_elem start width) (seq 0 (Z.to_nat n))).

Definition lin_dur_elem (start width : Z) (i : nat) : Z :=
  wrap64 (start + wrap64 (Z.of_nat i * width)).
Definition linear_duration (start width n : Z) : option (list Z) :=
  if n <=? 0 then None
  else Some (map (lin_dur_elem start width) (seq 0 (Z.to_nat n))).

(* buckets[i] = curr; curr = step curr *)
Fixpoint iterate (step : Z -> Z) (n : nat) (curr : Z) : list Z :=
  match n with
  | O => []
  | S k => curr :: iterate step k (step curr)
  end.

Definition exp_value_step (factor curr : Z) : Z := fmul curr factor.
Definition exponential_value (start factor n : Z) : option (list Z) :=
  if n <=? 0 then None
  else if fle start FZERO then None
  else if fle factor FONE then None
  else Some (iterate (exp_value_step factor) (Z.to_nat n) start).

(* curr = time.Duration(float64(curr) * factor) *)
Definition exp_dur_step (factor curr : Z) : Z := int64_of_f (fmul (f_of_int curr) factor).
Definition exponential_duration (start factor n : Z) : option (list Z) :=
  if n <=? 0 then None
  else if start <=? 0 then None
  else if fle factor FONE then None
  else Some (iterate (exp_dur_step factor) (Z.to_nat n) start).

(* every conversion whose result is used is defined by the language *)
Fixpoint exp_dur_defined (factor : Z) (n : nat) (curr : Z) : bool :=
  match n with
  | O | S O => true
  | S k => int64_of_f_defined (fmul (f_of_int curr) factor)
           && exp_dur_defined factor k (exp_dur_step factor curr)
  end.

(* Must variants *)
Inductive outcome := Panics | Returns (l : list Z).
Definition must (r : option (list Z)) : outcome :=
  match r with None => Panics | Some l => Returns l end.
Definition must_linear_value s w n := must (linear_value s w n).
Definition must_linear_duration s w n := must (linear_duration s w n).
Definition must_exponential_value s f n := must (exponential_value s f n).
Definition must_exponential_duration s f n := must (exponential_duration s f n).
