(* Executable model of the root scope's shutdown (scope.go: Close, reportLoop,
   reportLoopRun, reportRegistry), repaired protocol, at the granularity of the
   verif yield points:
     loop : [60] on tick: [61] if closed skip else [62] pass (one registered scope per
            step, [31]); Flush.   on done: exit
     Close: CAS closed; [66] close(done); [65] wait for the loop goroutine; [63] final pass
            ([31] per scope); Flush; [64] purge; reporter.Close; return
   The registered scopes are a fixed list of objects (object 0 is the root), each with
   one abstract counter; registry dynamics are C07's subject.  The order in which a
   pass visits the scopes is Go's map order: the schedule supplies it when the pass
   starts and the step only fires if the order covers every registered scope. *)
From Coq Require Import ZArith List Bool Arith.
Import ListNotations.

Record ctr := { applied : nat; delivered : nat; mark : nat (* applied when Close was called *) }.

Inductive ev := EDeliver (o : nat) (amt : nat) | EFlush | ECloser.

Inductive tpc := TWait | TCheck | TStart | TPass (rest : list nat) | TExit.
Inductive kpc := KIdle | KCas | KWait | KStart | KPass (rest : list nat) | KCloser | KRet | KLoser.
Inductive apc := AInc (o : nat) (n : nat).     (* application thread: n more increments of counter o *)
Inductive thread := TT (p : tpc) | TK (p : kpc) | TA (p : apc).

(* [gone]: the root's own registry entry (object 0) was removed by a periodic pass that
   found the root closed (it reports the scope first, then removes and clears it) *)
Record sys := { ctrs : list ctr; rclosed : bool; dclosed : bool; gone : bool;
                log : list ev (* newest first *); thr : list thread }.

Fixpoint upd {A} (l : list A) (i : nat) (x : A) : list A :=
  match l, i with [], _ => [] | _ :: t, O => x :: t | h :: t, S i' => h :: upd t i' x end.

Definition set_thr s i t := {| ctrs := ctrs s; rclosed := rclosed s; dclosed := dclosed s; gone := gone s; log := log s; thr := upd (thr s) i t |}.
Definition report1 (c : ctr) := {| applied := applied c; delivered := applied c; mark := mark c |}.
Definition inc1 (c : ctr) := {| applied := S (applied c); delivered := delivered c; mark := mark c |}.
Definition mark1 (c : ctr) := {| applied := applied c; delivered := delivered c; mark := applied c |}.
Definition dflt := {| applied := 0; delivered := 0; mark := 0 |}.
Definition with_ctr s o f := {| ctrs := upd (ctrs s) o (f (nth o (ctrs s) dflt)); rclosed := rclosed s; dclosed := dclosed s; gone := gone s; log := log s; thr := thr s |}.
Definition with_log s e := {| ctrs := ctrs s; rclosed := rclosed s; dclosed := dclosed s; gone := gone s; log := e :: log s; thr := thr s |}.
Definition pending s o := applied (nth o (ctrs s) dflt) - delivered (nth o (ctrs s) dflt).
Definition ticker_exited s := forallb (fun t => match t with TT TExit => true | TT _ => false | _ => true end) (thr s).

(* the order covers every registered scope *)
Definition covers (g : bool) (order : list nat) (n : nat) : bool :=
  forallb (fun o => (g && Nat.eqb o 0) || existsb (Nat.eqb o) order) (seq 0 n).
Definition mark_gone s o :=
  {| ctrs := ctrs s; rclosed := rclosed s; dclosed := dclosed s;
     gone := gone s || (Nat.eqb o 0 && rclosed s); log := log s; thr := thr s |}.

(* a pick: thread, the select's choice (true: take the tick, false: take done), visiting order *)
Definition pick := (nat * bool * list nat)%type.

Definition step (s : sys) (pk : pick) : sys :=
  let '(i, ch, order) := pk in
  match nth_error (thr s) i with
  | Some (TA (AInc o (S n))) => set_thr (with_ctr s o inc1) i (TA (AInc o n))
  | Some (TT TWait) =>
      if ch then set_thr s i (TT TCheck)                       (* a tick *)
      else if dclosed s then set_thr s i (TT TExit)            (* done observed *)
      else set_thr s i (TT TWait)                              (* neither yet *)
  | Some (TT TCheck) => if rclosed s then set_thr s i (TT TWait) else set_thr s i (TT TStart)
  | Some (TT TStart) =>
      if covers (gone s) order (length (ctrs s)) then
        match order with
        | [] => set_thr (with_log s EFlush) i (TT TWait)     (* nothing registered: only the Flush *)
        | _ => set_thr s i (TT (TPass order))
        end
      else s
  | Some (TT (TPass (o :: rest))) =>
      let s1 := mark_gone (with_log (with_ctr s o report1) (EDeliver o (pending s o))) o in
      match rest with
      | [] => set_thr (with_log s1 EFlush) i (TT TWait)
      | _ => set_thr s1 i (TT (TPass rest))
      end
  | Some (TT (TPass [])) => set_thr (with_log s EFlush) i (TT TWait)
  | Some (TK KIdle) =>
      if rclosed s then set_thr s i (TK KLoser)
      else set_thr {| ctrs := map mark1 (ctrs s); rclosed := true; dclosed := dclosed s; gone := gone s; log := log s; thr := thr s |} i (TK KCas)
  | Some (TK KCas) => set_thr {| ctrs := ctrs s; rclosed := rclosed s; dclosed := true; gone := gone s; log := log s; thr := thr s |} i (TK KWait)
  | Some (TK KWait) => if ticker_exited s then set_thr s i (TK KStart) else s     (* wg.Wait() *)
  | Some (TK KStart) =>
      if covers (gone s) order (length (ctrs s)) then
        match order with
        | [] => set_thr (with_log s EFlush) i (TK KCloser)
        | _ => set_thr s i (TK (KPass order))
        end
      else s
  | Some (TK (KPass (o :: rest))) =>
      let s1 := with_log (with_ctr s o report1) (EDeliver o (pending s o)) in
      match rest with
      | [] => set_thr (with_log s1 EFlush) i (TK KCloser)
      | _ => set_thr s1 i (TK (KPass rest))
      end
  | Some (TK (KPass [])) => set_thr (with_log s EFlush) i (TK KCloser)
  | Some (TK KCloser) => set_thr (with_log s ECloser) i (TK KRet)
  | _ => s
  end.
Definition run s (sched : list pick) := fold_left step sched s.

Definition mk (a : nat) : ctr := {| applied := a; delivered := 0; mark := 0 |}.
Definition init (cs : list nat) (ths : list thread) : sys :=
  {| ctrs := map mk cs; rclosed := false; dclosed := false; gone := false; log := []; thr := ths |}.

Definition label (t : thread) : Z :=
  match t with
  | TA (AInc _ O) => (-1)%Z
  | TA _ => 0%Z
  | TT TWait => 60%Z
  | TT TCheck => 61%Z
  | TT TStart => 62%Z
  | TT (TPass _) => 31%Z
  | TT TExit => (-1)%Z
  | TK KIdle => 0%Z
  | TK KCas => 66%Z
  | TK KWait => 65%Z
  | TK KStart => 63%Z
  | TK (KPass _) => 31%Z
  | TK KCloser => 64%Z
  | TK KRet | TK KLoser => (-1)%Z
  end.
