(* Executable model of scope derivation (scope.go: SubScope, Tagged, subscope,
   copyAndSanitizeMap, mergeRightTags, fullyQualifiedName, the metric getters;
   scope_registry.go: Subscope).  Sequential: concurrency of first use, Close
   and the report passes are other properties (C07, C08, C01/C02).

   * The sanitizer is an argument of the model (three functions on byte strings); the
     sanitizer itself is property C06.
   * The registry is ONE finite map from key bytes to scope ids.  The real
     registry is sharded by a hash of the RAW key (key of the unsanitized
     tags) and looks a scope up in that shard first under the raw key, then
     under the sanitized key.  For inputs the sanitizer leaves unchanged the
     raw key IS the sanitized key, hence a given key is always searched and
     stored in the same shard, the per-shard maps partition one map by key and
     the shard function is irrelevant: this is the region C05 speaks about and
     the one where scope identities are compared with the implementation.
     Outside it (sanitizer rewrites an input) the same identity may be
     registered in two shards and under raw-key aliases; only delivered names
     and tags are compared there (C04), which do not depend on it.
   * Scope records are never changed after creation (the Go maps are treated
     as immutable by the library); metrics of a scope live in one table keyed
     by (scope id, kind, sanitized name), which is the four per-scope maps
     name -> metric put side by side.
   * [subscope_k] is parameterised by the key function so that the pinned
     tree's key writer can be run through the same model (Refuted/). *)
From Coq Require Import ZArith List Bool.
From Tally Require Import Base.ObsCore Gen.Params Model.KeyGen.
Import ListNotations.
Open Scope Z_scope.

Record sanitizer := San { sname : bytes -> bytes; skey : bytes -> bytes; sval : bytes -> bytes }.

Record cfg := Cfg { csep : bytes; csan : sanitizer }.

(* copyAndSanitizeMap: result[Key(k)] = Value(v) in enumeration order *)
Definition san_map (z : sanitizer) (m : smap) : smap :=
  fold_left (fun acc kv => set_tag (skey z (fst kv)) (sval z (snd kv)) acc) m [].

(* fullyQualifiedName *)
Definition qual (sep p n : bytes) : bytes :=
  match p with [] => n | _ => p ++ sep ++ n end.

Record srec := SRec { sprefix : bytes; stags : smap }.
Record mrec := MRec { mscope : nat; mkind : Z; mname : bytes }.

Record state := State {
  reg : list (bytes * nat);      (* registry: key -> scope id, first match *)
  scopes : list srec;            (* scope id -> record *)
  metrics : list mrec            (* metric id -> (scope, kind, sanitized name) *)
}.

Fixpoint lookup_reg (k : bytes) (r : list (bytes * nat)) : option nat :=
  match r with
  | [] => None
  | (k', id) :: r' => if beq k k' then Some id else lookup_reg k r'
  end.

Definition keyfn := bytes -> list smap -> bytes.

(* newRootScope: separator "" means DefaultSeparator; prefix and separator go
   through Name, the tags through copyAndSanitizeMap; the root is registered
   under key(prefix, tags) *)
Definition mk_cfg (z : sanitizer) (rawsep : bytes) : cfg :=
  Cfg (sname z (match rawsep with [] => default_separator | _ => rawsep end)) z.

Definition init_k (kf : keyfn) (c : cfg) (rawprefix : bytes) (rawtags : smap) : state :=
  let p := sname (csan c) rawprefix in
  let t := san_map (csan c) rawtags in
  State [(kf p [t], 0%nat)] [SRec p t] [].

(* scopeRegistry.Subscope(parent, prefix, tags) *)
Definition subscope_k (kf : keyfn) (c : cfg) (s : state) (parent : nat) (prefix : bytes) (rawtags : smap)
  : state * nat :=
  match nth_error (scopes s) parent with
  | None => (s, parent)
  | Some ps =>
      let t := san_map (csan c) rawtags in
      let k := kf prefix [stags ps; t] in
      match lookup_reg k (reg s) with
      | Some id => (s, id)
      | None =>
          let id := length (scopes s) in
          (State (reg s ++ [(k, id)]) (scopes s ++ [SRec prefix (overlay (stags ps) t)]) (metrics s), id)
      end
  end.

Definition mrec_eqb (a b : mrec) : bool :=
  Nat.eqb (mscope a) (mscope b) && Z.eqb (mkind a) (mkind b) && beq (mname a) (mname b).

Fixpoint find_metric (x : mrec) (l : list mrec) (i : nat) : option nat :=
  match l with
  | [] => None
  | y :: r => if mrec_eqb x y then Some i else find_metric x r (S i)
  end.

(* Counter/Gauge/Timer/Histogram(name): sanitize, get or create *)
Definition get_metric (c : cfg) (s : state) (sc : nat) (kind : Z) (name : bytes) : state * nat :=
  let x := MRec sc kind (sname (csan c) name) in
  match find_metric x (metrics s) 0 with
  | Some id => (s, id)
  | None => (State (reg s) (scopes s) (metrics s ++ [x]), length (metrics s))
  end.

Inductive call :=
| CSub (sc : nat) (name : bytes)            (* scope.SubScope(name) *)
| CTag (sc : nat) (m : smap)                (* scope.Tagged(m) *)
| CMet (sc : nat) (kind : Z) (name : bytes) (* scope.Counter/Gauge/Timer/Histogram(name) *).

Definition sub_k (kf : keyfn) (c : cfg) (s : state) (sc : nat) (name : bytes) : state * nat :=
  match nth_error (scopes s) sc with
  | None => (s, sc)
  | Some ps => subscope_k kf c s sc (qual (csep c) (sprefix ps) (sname (csan c) name)) []
  end.
Definition tag_k (kf : keyfn) (c : cfg) (s : state) (sc : nat) (m : smap) : state * nat :=
  match nth_error (scopes s) sc with
  | None => (s, sc)
  | Some ps => subscope_k kf c s sc (sprefix ps) m
  end.

(* the result is a scope id for CSub/CTag and a metric id for CMet *)
Definition step_k (kf : keyfn) (c : cfg) (s : state) (x : call) : state * nat :=
  match x with
  | CSub sc name => sub_k kf c s sc name
  | CTag sc m => tag_k kf c s sc m
  | CMet sc kind name =>
      match nth_error (scopes s) sc with
      | None => (s, sc)
      | Some _ => get_metric c s sc kind name
      end
  end.

Fixpoint run_k (kf : keyfn) (c : cfg) (s : state) (h : list call) : state :=
  match h with
  | [] => s
  | x :: r => run_k kf c (fst (step_k kf c s x)) r
  end.

(* derivation programs *)
Inductive dop := DSub (name : bytes) | DTag (m : smap).

Fixpoint derive_k (kf : keyfn) (c : cfg) (s : state) (from : nat) (prog : list dop) : state * nat :=
  match prog with
  | [] => (s, from)
  | DSub n :: r => let (s', id) := sub_k kf c s from n in derive_k kf c s' id r
  | DTag m :: r => let (s', id) := tag_k kf c s from m in derive_k kf c s' id r
  end.

(* the code as repaired *)
Definition init := init_k key.
Definition subscope := subscope_k key.
Definition step := step_k key.
Definition run := run_k key.
Definition derive := derive_k key.

(* what a metric is delivered under: fullyQualifiedName(name) and the scope's tags *)
Definition delivered (c : cfg) (s : state) (mid : nat) : option (bytes * smap) :=
  match nth_error (metrics s) mid with
  | None => None
  | Some m =>
      match nth_error (scopes s) (mscope m) with
      | None => None
      | Some sc => Some (qual (csep c) (sprefix sc) (mname m), stags sc)
      end
  end.

(* ---- specification vocabulary ---- *)

(* the prefix a derivation program denotes *)
Fixpoint spec_prefix (c : cfg) (p : bytes) (prog : list dop) : bytes :=
  match prog with
  | [] => p
  | DSub n :: r => spec_prefix c (qual (csep c) p (sname (csan c) n)) r
  | DTag _ :: r => spec_prefix c p r
  end.

(* the tag set it denotes: left-to-right overlay, each map sanitized *)
Fixpoint spec_tags (c : cfg) (t : smap) (prog : list dop) : smap :=
  match prog with
  | [] => t
  | DSub _ :: r => spec_tags c t r
  | DTag m :: r => spec_tags c (overlay t (san_map (csan c) m)) r
  end.

Definition sub_names (prog : list dop) : list bytes :=
  flat_map (fun d => match d with DSub n => [n] | DTag _ => [] end) prog.
Definition tag_maps (prog : list dop) : list smap :=
  flat_map (fun d => match d with DSub _ => [] | DTag m => [m] end) prog.

(* separator-join of a non-empty list of components *)
Fixpoint sjoin (sep : bytes) (l : list bytes) : bytes :=
  match l with
  | [] => []
  | [x] => x
  | x :: r => x ++ sep ++ sjoin sep r
  end.

Definition id_san : sanitizer := San (fun x => x) (fun x => x) (fun x => x).
