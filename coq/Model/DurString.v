(* Executable model of Go's time.Duration.String() (time/format.go: Duration.format, fmtFrac,
   fmtInt) on byte strings ([list Z]).  Used by the StatsD model for the names of duration
   buckets, where it replaces an oracle.

     func (d Duration) format(buf *[32]byte) int {
        u := uint64(d); neg := d < 0; if neg { u = -u }
        if u < uint64(Second) {          // "0s", "<n>ns", "<n>[.fff]µs", "<n>[.ffffff]ms"
            ...
        } else {                         // "[<h>h][<m>m]<s>[.fffffffff]s"
            w, u = fmtFrac(buf[:w], u, 9); w = fmtInt(buf[:w], u%60); u /= 60
            if u > 0 { 'm'; w = fmtInt(buf[:w], u%60); u /= 60; if u > 0 { 'h'; w = fmtInt(buf[:w], u) } }
        }
        if neg { '-' } }
     fmtFrac: the digits of v mod 10^prec without trailing zeros, behind a '.', nothing if zero
     fmtInt:  decimal, "0" for 0 *)
From Coq Require Import ZArith List Bool.
Import ListNotations.
Open Scope Z_scope.

Definition dbytes := list Z.

Definition dg (n : Z) : Z := 48 + n.

(* k decimal digits of v, most significant first (leading zeros) *)
Fixpoint fixed_digits (k : nat) (v : Z) : dbytes :=
  match k with
  | O => []
  | S k' => fixed_digits k' (v / 10) ++ [dg (v mod 10)]
  end.

(* decimal digits of v > 0 without leading zeros; [] for 0 (and when the fuel runs out) *)
Fixpoint int_digits (fuel : nat) (v : Z) : dbytes :=
  match fuel with
  | O => []
  | S f => if v =? 0 then [] else int_digits f (v / 10) ++ [dg (v mod 10)]
  end.

Definition fmt_int (v : Z) : dbytes := if v =? 0 then [48] else int_digits 20 v.

Fixpoint rstrip0 (l : dbytes) : dbytes :=
  match l with
  | [] => []
  | x :: r => match rstrip0 r with
              | [] => if x =? 48 then [] else [x]
              | r' => x :: r'
              end
  end.

Definition fmt_frac (v : Z) (prec : nat) : dbytes :=
  match rstrip0 (fixed_digits prec (v mod 10 ^ Z.of_nat prec)) with
  | [] => []
  | ds => 46 :: ds
  end.

Definition SEC : Z := 1000000000.
Definition U_NS : dbytes := [110; 115].            (* "ns" *)
Definition U_US : dbytes := [194; 181; 115].       (* "µs": U+00B5 in UTF-8 *)
Definition U_MS : dbytes := [109; 115].            (* "ms" *)

(* the rendering of the magnitude u = |d| (0 <= u <= 2^63) *)
Definition dur_abs (u : Z) : dbytes :=
  if u <? SEC then
    if u =? 0 then [48; 115]
    else if u <? 1000 then fmt_int u ++ U_NS
    else if u <? 1000000 then fmt_int (u / 1000) ++ fmt_frac u 3 ++ U_US
    else fmt_int (u / 1000000) ++ fmt_frac u 6 ++ U_MS
  else
    let secs := u / SEC in
    let mins := secs / 60 in
    let hrs := mins / 60 in
    (if 0 <? hrs then fmt_int hrs ++ [104] else []) ++
    (if 0 <? mins then fmt_int (mins mod 60) ++ [109] else []) ++
    fmt_int (secs mod 60) ++ fmt_frac u 9 ++ [115].

Definition dur_string (d : Z) : dbytes := if d <? 0 then 45 :: dur_abs (- d) else dur_abs d.

(* ---- reading a rendering back (used only to state and prove that the rendering is injective) ---- *)
Record pst := { tot : Z; cur : Z; frac : Z; fscale : Z; infrac : bool; pm : bool }.
Definition pinit : pst := {| tot := 0; cur := 0; frac := 0; fscale := 1; infrac := false; pm := false |}.
Definition pclose (s : pst) (u : Z) : pst :=
  {| tot := tot s + cur s * u + frac s * (u / fscale s); cur := 0; frac := 0; fscale := 1; infrac := false; pm := false |}.
Definition isdig (b : Z) : bool := (48 <=? b) && (b <=? 57).
Definition pstep0 (s : pst) (b : Z) : pst :=
  if isdig b then
    if infrac s then {| tot := tot s; cur := cur s; frac := frac s * 10 + (b - 48); fscale := fscale s * 10; infrac := true; pm := false |}
    else {| tot := tot s; cur := cur s * 10 + (b - 48); frac := frac s; fscale := fscale s; infrac := false; pm := false |}
  else if b =? 46 then {| tot := tot s; cur := cur s; frac := frac s; fscale := fscale s; infrac := true; pm := false |}
  else if b =? 104 then pclose s (3600 * SEC)
  else if b =? 109 then {| tot := tot s; cur := cur s; frac := frac s; fscale := fscale s; infrac := infrac s; pm := true |}
  else if b =? 110 then pclose s 1
  else if b =? 181 then pclose s 1000
  else if b =? 115 then pclose s SEC
  else s.
Definition pstep (s : pst) (b : Z) : pst :=
  if pm s then (if b =? 115 then pclose s 1000000 else pstep0 (pclose s (60 * SEC)) b)
  else pstep0 s b.
Definition dur_val (l : dbytes) : Z := tot (fold_left pstep l pinit).
Definition dur_read (l : dbytes) : Z :=
  match l with
  | b :: r => if b =? 45 then - dur_val r else dur_val l
  | [] => 0
  end.
