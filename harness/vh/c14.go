package main

// C14 — the M3 reporter never crashes, hangs or leaks, whatever the call order.
//
// Controlled part: the schedule controller drives the real m3 reporter
// (reportCopyMetric / bucket handle / Flush / Close and the batching goroutine
// process()) over the `verif` yield points of m3/reporter.go; the model
// (coq/Model/M3Close.v) must reproduce the yield label (or Blocked) after every
// step, the values the sink received, in order, and the result of every Close.
// Uncontrolled part (c14storm.go): storms with a watchdog, recover() around
// every call and a goroutine-leak check.

import (
	"encoding/json"
	"fmt"
	"os"
	"strings"
	"sync"
	"time"

	tally "github.com/uber-go/tally/v4"
	"github.com/uber-go/tally/v4/m3"
)

// one call of a caller thread: K 1 = counter ReportCount(V), 2 = ReportSamples(V)
// on the one shared bucket handle, 3 = Flush, 4 = Close
type c14Op struct {
	K int   `json:"k"`
	V int64 `json:"v,omitempty"`
}

type c14Case struct {
	Cap       int       `json:"cap"`
	Binary    bool      `json:"binary,omitempty"`
	SinkClose int       `json:"sink_close"` // step index at which the sink is closed; -1 never; 0 = unreachable from the start
	Threads   [][]c14Op `json:"threads"`
	Sched     []int     `json:"sched"` // picks: 0 = process(), i+1 = caller thread i
	Witness   string    `json:"witness,omitempty"`
	// Dests: extra destinations around the sink (kinds of c14Dests: unreachable
	// before / after the sink, a second live sink after / before it); with more
	// than one HostPort the reporter uses the multi-destination transport
	Dests []int `json:"dests,omitempty"`
}

type c14Out struct {
	Sched    []int     `json:"sched"` // executed schedule (completed to the end)
	Labels   []int64   `json:"labels"`
	Sink     []int64   `json:"sink,omitempty"` // values received, in order; internal metrics = -1
	SinkSeen bool      `json:"sink_seen"`
	CloseRes [][]int64 `json:"close_results"` // per thread, in call order: 0 nil, 1 errAlreadyClosed, 2 other
	Panics   []string  `json:"panics,omitempty"`
	Hang     string    `json:"hang,omitempty"`
	Leak     string    `json:"leak,omitempty"`
	Mirrors  [][]int64 `json:"mirrors,omitempty"` // what the other live destinations received
	// per call: first and last step index (into Sched) of the call, for the direct predicate
	Spans [][][2]int `json:"-"`
}

// ---------------------------------------------------------------------------
// stepping with confirmed blocking: a resumed goroutine is Blocked only when
// the runtime says it waits on a channel / semaphore outside the controller.

func c14GidOf(c *Ctl, t *cthread) uint64 {
	c.mu.Lock()
	defer c.mu.Unlock()
	for g, tt := range c.byGid {
		if tt == t {
			return g
		}
	}
	return 0
}

// goroutine header and stack of goroutine g ("" when it no longer exists)
func c14Goroutine(g uint64) string {
	all := allStacks()
	pre := fmt.Sprintf("goroutine %d [", g)
	for _, blk := range strings.Split(all, "\n\n") {
		if strings.HasPrefix(blk, pre) {
			return blk
		}
	}
	return ""
}

func c14Step(c *Ctl, j int, consumerDone func() bool) int {
	t := c.ths[j]
	if t.done {
		return Stutter
	}
	if !t.running {
		t.resume <- struct{}{}
		t.running = true
	}
	g := c14GidOf(c, t)
	deadline := time.Now().Add(5 * time.Second)
	wait := 500 * time.Microsecond
	for {
		select {
		case l := <-t.parked:
			t.running = false
			t.label = l
			if l == Finished {
				t.done = true
			}
			return l
		case <-time.After(wait):
		}
		if wait < 4*time.Millisecond {
			wait *= 2
		}
		st := c14Goroutine(g)
		hdr := st
		if k := strings.IndexByte(st, '\n'); k >= 0 {
			hdr = st[:k]
		}
		waiting := strings.Contains(hdr, "[chan send") || strings.Contains(hdr, "[select") ||
			strings.Contains(hdr, "[chan receive") || strings.Contains(hdr, "[semacquire") ||
			strings.Contains(hdr, "[sync.WaitGroup.Wait")
		// blocked = waiting inside package m3 (not at a yield point, and not in the
		// controller's own hand-over when the goroutine finishes)
		if waiting && strings.Contains(st, m3Frame) && !strings.Contains(st, "main.(*Ctl).Yield") {
			if strings.Contains(st, "WaitGroup") && consumerDone() && time.Now().Before(deadline) {
				// process() has been released past its last yield point: the clock
				// goroutine and process() itself are on their way out
				continue
			}
			return Blocked
		}
		if time.Now().After(deadline) {
			return Blocked
		}
	}
}

// ---------------------------------------------------------------------------

const c14Guard = 4000

var c14Debug = os.Getenv("C14_DEBUG") != ""
var c14T0 = time.Now()

func c14Exec(c *c14Case, complete bool) (out c14Out, unfinished []int) {
	sink := newM3Sink(c.Binary)
	defer sink.Close()
	hostport := sink.Addr()
	if c.SinkClose == 0 {
		sink.Close()
	}
	ctl := NewCtl()
	adopted := make(chan *cthread, 1)
	var consumer *cthread
	m3.VerifSetYield(func(p int) {
		if p >= 60 && p <= 62 {
			g := gid()
			ctl.mu.Lock()
			t := ctl.byGid[g]
			if t == nil && p == 60 {
				t = &cthread{resume: make(chan struct{}), parked: make(chan int), running: true}
				ctl.byGid[g] = t
				ctl.ths = append(ctl.ths, t)
				ctl.mu.Unlock()
				adopted <- t
			} else {
				ctl.mu.Unlock()
			}
		}
		ctl.Yield(p)
	})
	defer m3.VerifSetYield((func(int))(nil))
	proto := m3.Compact
	if c.Binary {
		proto = m3.Binary
	}
	hostports, live := c14Dests(hostport, c.Binary, c.Dests)
	for _, s := range live {
		defer s.Close()
	}
	r, err := m3.NewReporter(m3.Options{HostPorts: hostports, Service: "svc", Env: "test",
		MaxQueueSize: c.Cap, Protocol: proto})
	if err != nil {
		fatal(err)
	}
	select {
	case consumer = <-adopted:
	case <-time.After(5 * time.Second):
		fatal(fmt.Errorf("C14: process() did not reach its first yield point"))
	}
	consumerGid := c14GidOf(ctl, consumer)
	consumerDone := func() bool { return consumer.done }
	if l := c14Step(ctl, 0, consumerDone); l != 60 {
		fatal(fmt.Errorf("C14: process() parked at %d, expected 60", l))
	}
	ctr := r.AllocateCounter("c", nil)
	bucket := r.AllocateHistogram("h", nil, tally.ValueBuckets{10}).ValueBucket(0, 10)

	n := len(c.Threads)
	out.CloseRes = make([][]int64, n)
	out.Spans = make([][][2]int, n)
	panics := make([][]string, n)
	for i := range c.Threads {
		i := i
		ops := c.Threads[i]
		out.Spans[i] = make([][2]int, len(ops))
		ctl.Go(func() {
			for k, op := range ops {
				if k > 0 {
					ctl.Yield(0)
				}
				func() {
					defer func() {
						if e := recover(); e != nil {
							panics[i] = append(panics[i], fmt.Sprintf("thread %d call %d (kind %d): %v", i, k, op.K, e))
						}
					}()
					switch op.K {
					case 1:
						ctr.ReportCount(op.V)
					case 2:
						bucket.ReportSamples(op.V)
					case 3:
						r.Flush()
					case 4:
						switch e := r.Close(); {
						case e == nil:
							out.CloseRes[i] = append(out.CloseRes[i], 0)
						case e.Error() == "reporter already closed":
							out.CloseRes[i] = append(out.CloseRes[i], 1)
						default:
							out.CloseRes[i] = append(out.CloseRes[i], 2)
						}
					}
				}()
			}
		})
	}
	cur := make([]int, n) // index of the call thread i is in (or about to start)
	started := make([]bool, n)
	step := func(j int) int {
		if c.SinkClose > 0 && len(out.Sched) == c.SinkClose {
			sink.Close()
		}
		var l int
		if j == 0 && !consumer.done && !consumer.running && consumer.label == 62 {
			// past its last yield point process() runs free: final flush and exit
			consumer.resume <- struct{}{}
			consumer.done = true
			for k := 0; k < 20000 && c14Goroutine(consumerGid) != ""; k++ {
				time.Sleep(100 * time.Microsecond)
			}
			l = Finished
		} else {
			l = c14Step(ctl, j, consumerDone)
		}
		idx := len(out.Sched)
		if out.Leak == "" && !consumer.done && c14Closed(out.CloseRes) {
			// a Close call has just returned nil: process() must have exited
			out.Leak = "Close returned nil while process() is still running:\n" + c14Goroutine(consumerGid)
		}
		if j > 0 && l != Stutter {
			i := j - 1
			if cur[i] < len(c.Threads[i]) {
				if !started[i] {
					out.Spans[i][cur[i]][0] = idx
					started[i] = true
				}
				out.Spans[i][cur[i]][1] = idx
				if l == 0 || l == Finished {
					cur[i]++
					started[i] = false
				}
			}
		}
		if l == Stutter {
			l = Finished
		}
		out.Sched = append(out.Sched, j)
		out.Labels = append(out.Labels, int64(l))
		if c14Debug {
			fmt.Fprintf(os.Stderr, "step %d pick %d -> %d (%s)\n", idx, j, l, time.Since(c14T0))
		}
		return l
	}
	for _, j := range c.Sched {
		if j >= 0 && j <= n {
			step(j)
		}
	}
	for j := 0; j <= n; j++ {
		if !ctl.ths[j].done {
			unfinished = append(unfinished, j)
		}
	}
	finish := func() {
		for i := range panics {
			out.Panics = append(out.Panics, panics[i]...)
		}
	}
	if !complete {
		c14Abandon(ctl, r, consumerGid)
		finish()
		return
	}
	// completion: callers first, then process(); a pick that was Blocked is not
	// repeated before some other pick has made progress
	stuck := make([]bool, n+1)
	for guard := 0; guard < c14Guard; guard++ {
		progress, alive := false, false
		for jj := 1; jj <= n+1; jj++ {
			j := jj % (n + 1)
			if ctl.ths[j].done || stuck[j] {
				continue
			}
			if j == 0 && c14CallersDone(ctl, n) && !c14Closed(out.CloseRes) {
				continue // nobody will close: process() legitimately waits for ever
			}
			alive = true
			if l := step(j); l == Blocked {
				stuck[j] = true
			} else {
				progress = true
				for k := range stuck {
					stuck[k] = false
				}
			}
		}
		if c14CallersDone(ctl, n) && (ctl.ths[0].done || !c14Closed(out.CloseRes)) {
			break
		}
		if !alive || !progress {
			out.Hang = "every unfinished goroutine is blocked:\n" + m3Stacks()
			break
		}
	}
	if out.Hang == "" && !c14CallersDone(ctl, n) {
		out.Hang = fmt.Sprintf("calls still running after %d completion rounds", c14Guard)
	}
	if out.Hang != "" {
		c14Abandon(ctl, r, consumerGid)
		finish()
		return
	}
	finish()
	if c14Closed(out.CloseRes) {
		if out.Leak == "" {
			out.Leak = m3LeakOf(fmt.Sprintf("%p", r))
		}
	} else {
		c14Abandon(ctl, r, consumerGid)
	}
	if c.SinkClose < 0 {
		out.SinkSeen = true
		out.Sink = sink.Drain()
	}
	for _, s := range live {
		out.Mirrors = append(out.Mirrors, s.Drain())
	}
	return
}

func c14CallersDone(ctl *Ctl, n int) bool {
	for j := 1; j <= n; j++ {
		if !ctl.ths[j].done {
			return false
		}
	}
	return true
}

func c14Closed(res [][]int64) bool {
	for _, rs := range res {
		for _, v := range rs {
			if v == 0 {
				return true
			}
		}
	}
	return false
}

// c14Abandon removes the hook (nothing parks inside m3 any more), keeps
// releasing every controlled goroutine until it has finished, and closes the
// reporter if nobody has.
func c14Abandon(ctl *Ctl, r m3.Reporter, consumerGid uint64) {
	m3.VerifSetYield((func(int))(nil))
	stop := make(chan struct{})
	var wg sync.WaitGroup
	for idx, t := range ctl.ths {
		if t.done && idx != 0 {
			continue
		}
		wg.Add(1)
		go func(idx int, t *cthread) {
			defer wg.Done()
			tick := time.NewTicker(time.Millisecond)
			defer tick.Stop()
			for {
				select {
				case t.resume <- struct{}{}:
				case l := <-t.parked:
					if l == Finished {
						return
					}
				case <-tick.C:
					if idx == 0 && c14Goroutine(consumerGid) == "" {
						return
					}
				case <-stop:
					return
				}
			}
		}(idx, t)
	}
	go func() {
		defer func() { recover() }()
		r.Close()
	}()
	fin := make(chan struct{})
	go func() { wg.Wait(); close(fin) }()
	select {
	case <-fin:
	case <-time.After(5 * time.Second):
	}
	close(stop)
}

// ---------------------------------------------------------------------------
// direct predicate (implied by the statement of C14, never more)

func c14Predicate(c *c14Case, out *c14Out) (pred, what string) {
	if len(out.Panics) > 0 {
		return "no_panic", "a call panicked: " + strings.Join(out.Panics, "; ")
	}
	if out.Hang != "" {
		return "no_hang", out.Hang
	}
	nils, other := 0, 0
	for _, rs := range out.CloseRes {
		for _, v := range rs {
			if v == 0 {
				nils++
			}
			if v == 2 {
				other++
			}
		}
	}
	if nils > 1 {
		return "second_close_returns_error", fmt.Sprintf("%d Close calls returned nil", nils)
	}
	if other > 0 {
		return "second_close_returns_error", "a Close call returned an unexpected error"
	}
	if out.Leak != "" {
		return "no_goroutine_left_after_close", fmt.Sprintf("after Close returned a goroutine of package m3 / its transports is still running (%d destinations):\n", 1+len(c.Dests)) + c14Trim(out.Leak)
	}
	var lists [][]int64
	if out.SinkSeen {
		lists = append(lists, out.Sink)
	}
	lists = append(lists, out.Mirrors...)
	if len(lists) == 0 {
		return "", ""
	}
	// the step at which the successful Close returned
	closeRet := -1
	for i, ops := range c.Threads {
		k := 0
		for ci, op := range ops {
			if op.K == 4 {
				if k < len(out.CloseRes[i]) && out.CloseRes[i][k] == 0 {
					closeRet = out.Spans[i][ci][1]
				}
				k++
			}
		}
	}
	for _, got := range lists { // every live destination on its own
		reported := map[int64]int{}
		after := map[int64]bool{}
		for i, ops := range c.Threads {
			for ci, op := range ops {
				if op.K == 1 || op.K == 2 {
					reported[op.V]++
					if closeRet >= 0 && out.Spans[i][ci][0] > closeRet {
						after[op.V] = true
					}
				}
			}
		}
		for _, v := range got {
			if v == -1 {
				continue
			}
			if reported[v] == 0 {
				return "delivered_values_were_reported", fmt.Sprintf("the sink received value %d more often than it was reported (received %v)", v, got)
			}
			reported[v]--
			if after[v] {
				return "calls_after_close_are_noops", fmt.Sprintf("value %d was reported by a call that started after Close had returned, and was delivered", v)
			}
		}
	}
	return "", ""
}

func c14Term(idx int, c *c14Case, out *c14Out) string {
	var in []Ev
	for _, ops := range c.Threads {
		var l []int64
		for _, op := range ops {
			l = append(l, int64(op.K), op.V)
		}
		in = append(in, Ev{K: 70, I: l})
	}
	s := make([]int64, len(out.Sched))
	for i, v := range out.Sched {
		s[i] = int64(v)
	}
	in = append(in, Ev{K: 72, I: s})
	obs := []Ev{{K: 73, I: out.Labels}}
	if out.SinkSeen {
		obs = append(obs, Ev{K: 74, I: out.Sink})
	} else {
		obs = append(obs, Ev{K: 75})
	}
	for _, rs := range out.CloseRes {
		obs = append(obs, Ev{K: 76, I: rs})
	}
	b := int64(0)
	if c.Binary {
		b = 1
	}
	return gcase(idx, []int64{int64(c.Cap), b, int64(c.SinkClose), int64(1 + len(c.Dests))}, in, obs)
}

// ---------------------------------------------------------------------------
// generators

// c14FloodCase fills the queue: reporters and flushers against a small
// capacity, process() and the closing thread are rarely picked in the prefix.
func c14FloodCase(r *Rng, allowSharedSamples bool) c14Case {
	c := c14Case{Cap: 1 + r.Intn(2), Binary: r.Chance(30), SinkClose: -1}
	nt := r.Range(2, 4)
	next := int64(200)
	sampler := r.Intn(nt)
	for i := 0; i < nt; i++ {
		var ops []c14Op
		for k, nk := 0, r.Range(1, 3); k < nk; k++ {
			next++
			switch p := r.Intn(100); {
			case p < 60:
				ops = append(ops, c14Op{K: 1, V: next})
			case p < 85:
				if allowSharedSamples || i == sampler {
					ops = append(ops, c14Op{K: 2, V: next})
				} else {
					ops = append(ops, c14Op{K: 1, V: next})
				}
			default:
				ops = append(ops, c14Op{K: 3})
			}
		}
		c.Threads = append(c.Threads, ops)
	}
	c.Threads = append(c.Threads, []c14Op{{K: 4}, {K: 1, V: next + 1}})
	if r.Chance(15) {
		c.SinkClose = r.Intn(20)
	}
	if r.Chance(25) {
		c.Dests = [][]int{{1}, {2}, {3}, {1, 2}, {1, 3}, {4, 2}, {2, 3}}[r.Intn(7)]
	}
	for k, nk := 0, r.Range(15, 50); k < nk; k++ {
		switch p := r.Intn(100); {
		case p < 4:
			c.Sched = append(c.Sched, 0)
		case p < 10:
			c.Sched = append(c.Sched, nt+1)
		default:
			c.Sched = append(c.Sched, 1+r.Intn(nt))
		}
	}
	return c
}

func c14RandomCase(r *Rng, allowSharedSamples bool) c14Case {
	if r.Chance(35) {
		return c14FloodCase(r, allowSharedSamples)
	}
	c := c14Case{Cap: 1 + r.Intn(3), Binary: r.Chance(30), SinkClose: -1}
	if r.Chance(20) {
		c.Cap = 4 + r.Intn(12)
	}
	nt := r.Range(1, 4)
	next := int64(100)
	sampler := r.Intn(nt)
	closers := 0
	for i := 0; i < nt; i++ {
		var ops []c14Op
		for k, nk := 0, r.Range(1, 4); k < nk; k++ {
			next++
			switch p := r.Intn(100); {
			case p < 45:
				ops = append(ops, c14Op{K: 1, V: next})
			case p < 65:
				if allowSharedSamples || i == sampler {
					ops = append(ops, c14Op{K: 2, V: next})
				} else {
					ops = append(ops, c14Op{K: 1, V: next})
				}
			case p < 78:
				ops = append(ops, c14Op{K: 3})
			default:
				ops = append(ops, c14Op{K: 4})
				closers++
			}
		}
		c.Threads = append(c.Threads, ops)
	}
	if closers == 0 || r.Chance(30) {
		c.Threads = append(c.Threads, []c14Op{{K: 4}})
	}
	n := len(c.Threads)
	if r.Chance(25) {
		c.Dests = [][]int{{1}, {2}, {3}, {1, 2}, {1, 3}, {4, 2}, {2, 3}}[r.Intn(7)]
	}
	switch p := r.Intn(100); {
	case p < 12:
		c.SinkClose = 0
	case p < 30:
		c.SinkClose = 1 + r.Intn(30)
	}
	// picks: the consumer is picked rarely in "starved" cases so that the queue fills
	starve := r.Chance(60)
	for k, nk := 0, r.Range(10, 60); k < nk; k++ {
		if starve && r.Chance(97) {
			c.Sched = append(c.Sched, 1+r.Intn(n))
		} else {
			c.Sched = append(c.Sched, r.Intn(n+1))
		}
	}
	return c
}

func c14Class(c *c14Case, out *c14Out) string {
	// which kinds of blocking the schedule ran into: a sender on the full queue,
	// Close waiting for process(), process() on the empty queue
	last := map[int]int64{}
	kinds := map[string]bool{}
	for k, l := range out.Labels {
		j := out.Sched[k]
		if l == Blocked {
			switch {
			case j == 0:
				kinds["recv"] = true
			case last[j] == 43 || last[j] == 48:
				kinds["send"] = true
			case last[j] == 55:
				kinds["wait"] = true
			}
		} else {
			last[j] = l
		}
	}
	b := ""
	for _, k := range []string{"send", "wait", "recv"} {
		if kinds[k] {
			b += "+" + k
		}
	}
	if b == "" {
		b = "none"
	}
	cp := "1"
	if c.Cap >= 4 {
		cp = "4+"
	} else if c.Cap >= 2 {
		cp = "2-3"
	}
	sk := "open"
	if c.SinkClose == 0 {
		sk = "unreachable"
	} else if c.SinkClose > 0 {
		sk = "closed-mid-run"
	}
	if len(c.Dests) > 0 {
		sk += fmt.Sprintf(" dests=%d", 1+len(c.Dests))
	}
	return fmt.Sprintf("threads=%d cap=%s blocked=%s sink=%s", len(c.Threads), cp, strings.TrimPrefix(b, "+"), sk)
}

func init() {
	props["C14"] = func(ctx *Ctx) {
		ctx.Header("M3CloseCorr")
		ctx.Res.Rule = "controlled case = (queue capacity, protocol, per-thread call lists over {ReportCount, ReportSamples on one shared bucket handle, Flush, Close}, step at which the sink is closed, extra destinations (1..3 HostPorts: unreachable before / after the sink, a second live sink), complete schedule over the yield points of reportCopyMetric / Flush / Close / process()); compared with the model: label or Blocked after every step, values received by the sink in order, result of every Close; exhaustive enumeration of all interleavings of two small pools, seeded random schedules (half of them starving process() so that the queue fills) for larger pools; non-trivial = two threads interleaved inside the protocol; distinct by (pool, capacity, executed schedule). Storm cases (class storm-*) are uncontrolled and checked only by the direct predicate (no panic, no hang, one nil Close, no goroutine of package m3 left; storm-concurrent-close = 8..32 goroutines behind a barrier calling Close on a fresh reporter, repeated; size-sweep = Allocate / Report / Flush / Close for metrics with every own-tag count 0..33 and reporters with 0..8 InternalTags, run in a child process so that a panic of the reporter's own goroutine becomes a failing input; multi-destination = a reporter with 2..3 HostPorts (extra destinations unreachable or live), rounds of ReportCount + Flush one datagram each, optionally the sink closed half-way, then Close and the goroutine-leak check over package m3 and its transports; storm-flush-heavy = 2..6 goroutines calling Flush in a tight loop while 1..3 report, queues 1..4096, every call under recover(); storm-concurrent-allocate = goroutines allocate histograms with one tag set at the same time and every handle must equal (per-bucket sizes, ids, names) the one allocated alone on a fresh reporter; storm-shared-{bucket,counter,gauge,timer} = all goroutines report unique values through ONE allocated handle and no value may reach the sink more often than it was reported)"
		nsched := 0
		// three failures that are not known findings are the verdict: on a tree whose calls no
		// longer complete every further controlled case would run into its completion bound
		unlisted := 0
		stop := func() bool { return unlisted >= 3 }
		one := func(c *c14Case, known string) bool {
			out, _ := c14Exec(c, true)
			pred, what := c14Predicate(c, &out)
			inter := false
			for i := 1; i < len(out.Sched); i++ {
				if out.Sched[i] != out.Sched[i-1] && out.Sched[i-1] != 0 && out.Labels[i-1] > 0 {
					inter = true
				}
			}
			key := ""
			if inter {
				key = hashOf([]interface{}{c.Threads, c.Cap, out.Sched})
			}
			cc := *c
			cc.Sched = out.Sched
			term := ""
			if pred == "" || known == "" {
				term = c14Term(ctx.Res.Evaluations, c, &out)
			}
			ctx.Case(cc, term, c14Class(c, &out), key)
			nsched++
			if pred != "" {
				if known != "" && pred == "delivered_values_were_reported" {
					ctx.FailKnown(known, pred, what, cc, out)
				} else {
					ctx.Fail(pred, what, cc, out)
					unlisted++
				}
				return false
			}
			return true
		}
		if ctx.Replay != nil {
			var raw map[string]json.RawMessage
			if json.Unmarshal(ctx.Replay, &raw) == nil && raw["size_sweep"] != nil {
				var sw c14SizeSweep
				if err := json.Unmarshal(ctx.Replay, &sw); err != nil {
					fatal(err)
				}
				if sw.Inner {
					c14SizeInner(ctx, &sw)
				} else {
					c14SizeSweepOne(ctx, &sw)
				}
				return
			}
			if json.Unmarshal(ctx.Replay, &raw) == nil && raw["multi_dest"] != nil {
				var md c14MultiDest
				if err := json.Unmarshal(ctx.Replay, &md); err != nil {
					fatal(err)
				}
				c14MultiDestOne(ctx, &md)
				return
			}
			if json.Unmarshal(ctx.Replay, &raw) == nil && raw["flush_storm"] != nil {
				var fs c14FlushStorm
				if err := json.Unmarshal(ctx.Replay, &fs); err != nil {
					fatal(err)
				}
				c14FlushStormOne(ctx, &fs)
				return
			}
			if json.Unmarshal(ctx.Replay, &raw) == nil && raw["alloc_storm"] != nil {
				var as c14AllocStorm
				if err := json.Unmarshal(ctx.Replay, &as); err != nil {
					fatal(err)
				}
				c14AllocStormOne(ctx, &as)
				return
			}
			if json.Unmarshal(ctx.Replay, &raw) == nil && raw["close_storm"] != nil {
				var cs c14CloseStorm
				if err := json.Unmarshal(ctx.Replay, &cs); err != nil {
					fatal(err)
				}
				c14CloseStormOne(ctx, &cs)
				return
			}
			if json.Unmarshal(ctx.Replay, &raw) == nil && raw["close_race"] != nil {
				var rc c14Race
				if err := json.Unmarshal(ctx.Replay, &rc); err != nil {
					fatal(err)
				}
				c14CloseRaceOne(ctx, &rc)
				return
			}
			if json.Unmarshal(ctx.Replay, &raw) == nil && raw["storm"] != nil {
				var sc c14Storm
				if err := json.Unmarshal(ctx.Replay, &sc); err != nil {
					fatal(err)
				}
				c14StormOne(ctx, &sc)
				return
			}
			var c c14Case
			if err := json.Unmarshal(ctx.Replay, &c); err != nil {
				fatal(err)
			}
			one(&c, c.Witness)
			return
		}
		seenF14 := false
		for _, raw := range ctx.CorpusCases() {
			var c c14Case
			if json.Unmarshal(raw, &c) == nil && len(c.Threads) > 0 {
				one(&c, c.Witness)
				if c.Witness == "F14" {
					seenF14 = true
				}
			}
		}
		// F14: two calls on the same bucket handle; the first is parked between
		// writing the handle's metric value and making the call
		// (also stored as replays/C14/corpus/F14-shared-bucket-handle.json)
		if !seenF14 {
			w := c14Case{Cap: 4, SinkClose: -1, Witness: "F14",
				Threads: [][]c14Op{{{K: 2, V: 1}}, {{K: 2, V: 2}}, {{K: 4}}},
				Sched:   []int{1, 2, 2, 2, 2, 2, 2, 1, 1, 1, 1, 1}}
			one(&w, "F14")
		}

		// exhaustive: every interleaving of the callers of two small pools; picks that
		// do not change the state (Blocked, a spin that sees pending > 0) are not
		// extended, and process() is picked when no caller can move
		exhaust := func(base c14Case, limit int) int {
			count := 0
			var rec func(prefix []int)
			moved := func(o *c14Out) bool { // did the last pick change the state?
				k := len(o.Labels) - 1
				if k < 0 {
					return true
				}
				if o.Labels[k] == Blocked {
					return false
				}
				if o.Labels[k] == 52 {
					for m := k - 1; m >= 0; m-- {
						if o.Sched[m] == o.Sched[k] {
							return o.Labels[m] != 52
						}
					}
				}
				return true
			}
			rec = func(prefix []int) {
				if count >= limit || stop() {
					return
				}
				c := base
				c.Sched = prefix
				_, unfinished := c14Exec(&c, false)
				callers := 0
				for _, j := range unfinished {
					if j > 0 {
						callers++
					}
				}
				if callers == 0 || len(prefix) >= 60 {
					one(&c, "")
					count++
					return
				}
				any := false
				for _, j := range unfinished {
					if j == 0 {
						continue
					}
					cc := base
					cc.Sched = append(append([]int(nil), prefix...), j)
					o, _ := c14Exec(&cc, false)
					if moved(&o) {
						any = true
						rec(cc.Sched)
					}
				}
				if !any {
					cc := base
					cc.Sched = append(append([]int(nil), prefix...), 0)
					o, _ := c14Exec(&cc, false)
					if moved(&o) {
						rec(cc.Sched)
					} else {
						one(&c, "") // nothing can move: the completion reports the hang
						count++
					}
				}
			}
			rec(nil)
			return count
		}
		n1 := exhaust(c14Case{Cap: 1, SinkClose: -1, Threads: [][]c14Op{{{K: 1, V: 7}}, {{K: 4}}}}, ctx.N(400, 100000))
		ctx.Res.Extra["exhaustive_pool_report_vs_close"] = n1
		ctx.Res.SchedExhaustive = n1 < ctx.N(400, 100000) && !stop()
		if ctx.Thorough() && !stop() {
			ctx.Res.Extra["exhaustive_pool_two_reports_cap1"] = exhaust(c14Case{Cap: 1, SinkClose: -1, Threads: [][]c14Op{{{K: 1, V: 7}}, {{K: 2, V: 8}}}}, 100000)
			ctx.Res.Extra["exhaustive_pool_close_vs_close"] = exhaust(c14Case{Cap: 2, SinkClose: -1, Threads: [][]c14Op{{{K: 4}}, {{K: 4}, {K: 1, V: 5}}}}, 100000)
		}
		n := ctx.N(260, 5000)
		for k := 0; k < n && !stop(); k++ {
			c := c14RandomCase(ctx.R, false)
			one(&c, "")
		}
		// concurrent ReportSamples on the shared handle (F14 region on the pinned tree)
		for k, nk := 0, ctx.N(40, 600); k < nk && !stop(); k++ {
			c := c14RandomCase(ctx.R, true)
			c.Witness = "F14"
			one(&c, "F14")
		}
		ctx.Res.Schedules = nsched
		if stop() {
			ctx.Note("controlled streams stopped after %d failures that are not known findings", unlisted)
		}
		c14Storms(ctx)
	}
}
