package main

// C05 - uncontrolled identity storm: "Derivations whose prefix or tag set differ never share a
// scope" and "Two derivations ... that end with the same full prefix and the same effective tag
// set ... return the very same live scope" - also when the derivations are made by several
// goroutines on one parent at the same moment (all controlled first-use streams race on ONE
// identity; here the goroutines derive DIFFERENT identities side by side).
//
// Per round G goroutines pass a spin barrier and then, a fixed number of times each, call
// parent.SubScope(own name) (every fourth round parent.Tagged({worker: own name})) and obtain
// a counter there. Verdict on pointer identities only, no timing: every call of goroutine g
// returned the object its first call returned (the objects are kept alive), the G objects are
// pairwise different, and so are the counters.

import (
	"fmt"
	"sync"
	"sync/atomic"

	tally "github.com/uber-go/tally/v4"
)

type c05StormCase struct {
	IdentityStorm bool `json:"identity_storm"`
	Rounds        int  `json:"rounds"`
	Iters         int  `json:"iters"`
	G             int  `json:"g"`
	First         int  `json:"first_round"`
}

func c05StormRound(r, iters, G int) string {
	prefix := c04StormPrefixes[(r/2)%len(c04StormPrefixes)]
	shards := uint([]int{1, 2, 16, 64}[(r/3)%4])
	var root tally.Scope
	if r%2 == 0 {
		root, _ = tally.VerifNewRootScope(tally.ScopeOptions{Prefix: prefix, Tags: map[string]string{"env": "prod"},
			Reporter: tally.NullStatsReporter, OmitCardinalityMetrics: true}, 0, shards)
	} else {
		root = tally.VerifNewTestScope(prefix, map[string]string{"env": "prod"}, shards)
	}
	parent := root
	if (r/5)%2 == 1 {
		parent = root.SubScope("api")
	}
	tagged := r%4 == 3
	names := make([]string, G)
	for g := range names {
		names[g] = c04StormNames[(g+r)%len(c04StormNames)]
	}
	derive := func(g int) tally.Scope {
		if tagged {
			return parent.Tagged(map[string]string{"worker": names[g]})
		}
		return parent.SubScope(names[g])
	}
	first := make([]tally.Scope, G)
	firstC := make([]tally.Counter, G)
	bad := make([]string, G)
	stray := make([]tally.Scope, G)
	var arrived int32
	var wg sync.WaitGroup
	for g := 0; g < G; g++ {
		g := g
		wg.Add(1)
		go func() {
			defer wg.Done()
			atomic.AddInt32(&arrived, 1)
			for atomic.LoadInt32(&arrived) < int32(G) {
			}
			for i := 0; i < iters; i++ {
				s := derive(g)
				c := s.Counter("hits")
				if i == 0 {
					first[g], firstC[g] = s, c
					continue
				}
				if s != first[g] && bad[g] == "" {
					stray[g] = s
					bad[g] = fmt.Sprintf("call %d of the derivation %q returned another scope object than its first call (equal identities share one scope)", i, names[g])
				}
				if s == first[g] && c != firstC[g] && bad[g] == "" {
					bad[g] = fmt.Sprintf("call %d: the scope of %q returned another counter \"hits\" than the first time", i, names[g])
				}
			}
		}()
	}
	what := "SubScope(own name)"
	if tagged {
		what = "Tagged({worker: own name})"
	}
	program := fmt.Sprintf("round %d (prefix %q, %d shards): %d goroutines each %d times call %s with the names %v on one parent scope", r, prefix, shards, G, iters, what, names)
	if dl := waitOrDeadlock(&wg, "uber-go/tally/v4."); dl != "" {
		return program + ": never returned: " + dl
	}
	for g := 0; g < G; g++ {
		for h := 0; h < g; h++ {
			if first[g] == first[h] {
				return fmt.Sprintf("%s: the derivations %q and %q returned the same scope object (different identities never share a scope)", program, names[h], names[g])
			}
			if firstC[g] == firstC[h] {
				return fmt.Sprintf("%s: the derivations %q and %q share one counter", program, names[h], names[g])
			}
		}
	}
	for g := 0; g < G; g++ {
		if bad[g] != "" {
			for h := 0; h < G; h++ {
				if h != g && stray[g] != nil && stray[g] == first[h] {
					return fmt.Sprintf("%s: %s - it is the scope object of the derivation %q (different identities never share a scope)", program, bad[g], names[h])
				}
			}
			return program + ": " + bad[g]
		}
	}
	return ""
}

func c05IdentityStorm(ctx *Ctx, first, rounds, iters int) {
	G := c04StormG()
	if G < 2 {
		ctx.Note("identity storm skipped: one P only")
		return
	}
	for r := first; r < first+rounds; r++ {
		if f := c05StormRound(r, iters, G); f != "" {
			ctx.Fail("concurrently_derived_identities_keep_their_own_scope", f,
				c05StormCase{IdentityStorm: true, Rounds: rounds, Iters: iters, G: G, First: first}, nil)
			break
		}
	}
	ctx.Res.Evaluations += rounds
	ctx.Res.Histogram["uncontrolled-identity-storm-rounds"] += rounds
}
