package main

// Twin derivations for C04 and C05: two or three derivations from one parent
// whose identities differ, but only just - the places where an implementation
// that normalises, truncates or re-uses key bytes would merge them:
//   invalid   names / tag keys / tag values that are not valid UTF-8 and differ
//             only in the invalid bytes, or an invalid byte against a literal
//             U+FFFD (no sanitizer: "all strings ... any UTF-8 and invalid UTF-8
//             bytes");
//   rewritten a spelling the sanitizer shortens (multi-byte rune -> one-byte
//             replacement) followed by sanitizer-fixed spellings next to its
//             sanitized form: the sanitized form itself, and the sanitized form
//             extended by the bytes the raw spelling is longer ("Derivations whose
//             prefix or tag set differ never share a scope" - whatever was derived
//             before);
//   qualified on a scope with prefix p a metric named p<sep>n and one named n, and
//             sub-scopes named likewise ("the name formed by the root prefix and the
//             subscope names in order ... followed by the metric name").
//   empty     the empty string as a tag key, against its absence: at the parent, on
//             siblings, deeper, overridden, inherited, on the root;
// All inputs are delimiter-free (stream main): they go through the model as well.

import "strings"

var twinSets = [][]string{
	{"caf\xe9", "caf\xe8", "caf\xef\xbf\xbd"},
	{"caf\xc3", "caf\xe2"},
	{"\xff", "\xfe", "\xef\xbf\xbd"},
	{"a\x80b", "a\x81b", "a\xef\xbf\xbdb"},
	{"\xc3\x28", "\xe2\x28"},
	{"\xf0\x9f\x98", "\xf0\x9f\x99", "\xef\xbf\xbd\xef\xbf\xbd\xef\xbf\xbd"},
	{"x\xed\xa0\x80", "x\xed\xa0\x81"}, // surrogate halves
	{"\xc0\xaf", "\xc1\xaf"},          // overlong
}

func derivTwinsCase(r *Rng, i int) dCase {
	c := dCase{Mode: "deriv", Stream: "main", Shards: []int{1, 1, 2, 16}[r.Intn(4)], Rep: []string{"plain", "cached", "test"}[(i/4)%3]}
	c.Prefix = B(r.Pick([]string{"", "p", "svc", "a.b"}))
	if c.Rep != "test" {
		c.Sep = B(r.Pick([]string{"", ".", "_", "::"}))
	}
	if r.Chance(40) {
		c.RootTags = []kv{{B("env"), B("prod")}}
	}
	nScopes := 0
	scope := func(op dOp) int {
		c.Ops = append(c.Ops, op)
		nScopes++
		return nScopes
	}
	met := func(h, kind int, name string) { c.Ops = append(c.Ops, dOp{Op: "met", H: h, Kind: kind, Name: B(name)}) }
	// the common parent: the root or something derived from it
	parent := 0
	parentPrefix := string(c.Prefix) // (raw = sanitized for the prefixes above under every configuration used here)
	switch r.Intn(3) {
	case 1:
		parent = scope(dOp{Op: "sub", H: 0, Name: "db"})
		sep := string(c.Sep)
		if sep == "" {
			sep = "."
		}
		parentPrefix = qualName(sep, parentPrefix, "db")
	case 2:
		parent = scope(dOp{Op: "tag", H: 0, Tags: []kv{{B("zone"), B("z1")}}})
	}
	kind := r.Range(1, 4)
	switch i % 4 {
	case 0: // invalid bytes
		set := twinSets[r.Intn(len(twinSets))]
		pos := r.Intn(5)
		order := r.Intn(len(set))
		for j := range set {
			t := set[(j+order)%len(set)]
			switch pos {
			case 0:
				met(scope(dOp{Op: "tag", H: parent, Tags: []kv{{B("shop"), B(t)}}}), kind, "m")
			case 1:
				met(scope(dOp{Op: "tag", H: parent, Tags: []kv{{B(t), B("v")}}}), kind, "m")
			case 2:
				met(scope(dOp{Op: "sub", H: parent, Name: B(t)}), kind, "m")
			case 3:
				met(parent, kind, t)
			default: // one step deeper: the twin is inherited
				h := scope(dOp{Op: "tag", H: parent, Tags: []kv{{B("shop"), B(t)}}})
				met(scope(dOp{Op: "sub", H: h, Name: "x"}), kind, "m")
			}
		}
	case 1: // a spelling the sanitizer shortens, then fixed spellings next to its sanitized form
		c.San = r.Range(1, 2)
		c.Rep = []string{"plain", "cached"}[r.Intn(2)]
		san := sanitizerOf(c.San)
		mb := r.Pick([]string{"é", "ü", "ß", "日", "éé"})
		pre := r.Pick([]string{"", "a", "x1"})
		suf := r.Pick([]string{"a", "ab", "b_c", "0", "zz9"})
		key := "zz" // sorts after the keys of the parent: the rewritten binding ends the registry key
		if r.Chance(35) {
			// the key is shortened: {zzé:ab} -> {zz_:ab}
			raw, val := key+mb, suf
			sk := san.Key(raw)
			d := len(raw) - len(sk)
			met(scope(dOp{Op: "tag", H: parent, Tags: []kv{{B(raw), B(val)}}}), kind, "m")
			met(scope(dOp{Op: "tag", H: parent, Tags: []kv{{B(sk), B(val)}}}), kind, "m")
			if d <= len(val) {
				met(scope(dOp{Op: "tag", H: parent, Tags: []kv{{B(sk), B(val + val[len(val)-d:])}}}), kind, "m")
			}
		} else {
			raw := pre + mb + suf
			sv := san.Value(raw)
			d := len(raw) - len(sv)
			twin := sv + raw[len(raw)-d:]
			met(scope(dOp{Op: "tag", H: parent, Tags: []kv{{B(key), B(raw)}}}), kind, "m")
			if r.Bool() {
				met(scope(dOp{Op: "tag", H: parent, Tags: []kv{{B(key), B(sv)}}}), kind, "m")
			}
			met(scope(dOp{Op: "tag", H: parent, Tags: []kv{{B(key), B(twin)}}}), kind, "m")
			if r.Bool() {
				met(scope(dOp{Op: "tag", H: parent, Tags: []kv{{B(key), B(sv + suf)}}}), kind, "m")
			}
		}
	case 3: // the empty string as a tag key: a legal key, distinct from its absence
		// ("all strings for names, keys and values"; the key writer of the repaired tree - F05a -
		// writes it like any other key, which is what the model describes)
		if r.Chance(30) {
			c.San = 1 // "" is unchanged by every sanitizer
			if c.Rep == "test" {
				c.Rep = "plain"
			}
		}
		v := r.Pick([]string{"anon", "", "x", "v=1"})
		other := []kv{{B("region"), B("eu")}}
		switch r.Intn(6) {
		case 0: // the parent against the parent plus the "" tag
			met(parent, kind, "m")
			met(scope(dOp{Op: "tag", H: parent, Tags: []kv{{B(""), B(v)}}}), kind, "m")
		case 1: // siblings that differ in the "" tag only
			met(scope(dOp{Op: "tag", H: parent, Tags: other}), kind, "m")
			met(scope(dOp{Op: "tag", H: parent, Tags: append([]kv{{B(""), B(v)}}, other...)}), kind, "m")
		case 2: // deeper, and overridden
			h := scope(dOp{Op: "tag", H: parent, Tags: other})
			h2 := scope(dOp{Op: "tag", H: h, Tags: []kv{{B(""), B(v)}}})
			met(h2, kind, "m")
			met(scope(dOp{Op: "tag", H: h2, Tags: []kv{{B(""), B(v + "2")}}}), kind, "m")
			met(h, kind, "m")
		case 3: // inherited through a sub-scope
			h := scope(dOp{Op: "tag", H: parent, Tags: []kv{{B(""), B(v)}}})
			met(scope(dOp{Op: "sub", H: h, Name: "x"}), kind, "m")
			met(scope(dOp{Op: "sub", H: parent, Name: "x"}), kind, "m")
		case 4: // the root carries it
			c.RootTags = append(c.RootTags, kv{B(""), B(v)})
			met(parent, kind, "m")
			met(scope(dOp{Op: "tag", H: parent, Tags: other}), kind, "m")
			met(scope(dOp{Op: "tag", H: parent, Tags: []kv{{B(""), B(v + "r")}}}), kind, "m")
		default: // next to the keys that sort first
			met(scope(dOp{Op: "tag", H: parent, Tags: []kv{{B(""), B(v)}, {B("\x00"), B("z")}, {B("a"), B("")}}}), kind, "m")
			met(scope(dOp{Op: "tag", H: parent, Tags: []kv{{B("\x00"), B("z")}, {B("a"), B("")}}}), kind, "m")
			met(scope(dOp{Op: "tag", H: parent, Tags: []kv{{B(""), B("")}, {B("a"), B("")}}}), kind, "m")
		}
	default: // p<sep>n against n
		sep := string(c.Sep)
		if sep == "" {
			sep = "."
		}
		h := parent
		pfx := parentPrefix
		if pfx == "" {
			h = scope(dOp{Op: "sub", H: parent, Name: "p"})
			pfx = "p"
		}
		n := r.Pick([]string{"n", "hits", "lat"})
		names := []string{pfx + sep + n, n}
		if r.Bool() {
			names[0], names[1] = names[1], names[0]
		}
		if r.Bool() {
			for _, nm := range names {
				met(h, kind, nm)
			}
			last := pfx
			if k := strings.LastIndex(pfx, sep); k >= 0 {
				last = pfx[k+len(sep):]
			}
			met(h, kind, last+sep+n)
		} else {
			for _, nm := range names {
				met(scope(dOp{Op: "sub", H: h, Name: B(nm)}), kind, "m")
			}
		}
	}
	return c
}

// derivTwinKeys: the public key function on twins that differ only in invalid bytes.
func derivTwinKeys(r *Rng) dCase {
	set := twinSets[r.Intn(len(twinSets))]
	a, b := set[r.Intn(len(set))], set[r.Intn(len(set))]
	mk := func(t string) keyIn {
		return keyIn{Prefix: "p", Map: []kv{{B("shop"), B(t)}}}
	}
	x, y := mk(a), mk(b)
	switch r.Intn(3) {
	case 1:
		x, y = keyIn{Prefix: B(a), Map: kvs("k", "v")}, keyIn{Prefix: B(b), Map: kvs("k", "v")}
	case 2:
		x, y = keyIn{Map: []kv{{B(a), B("v")}}}, keyIn{Map: []kv{{B(b), B("v")}}}
	}
	return dCase{Mode: "key", Stream: "main", Keys: []keyIn{x, y}}
}
