package main

// Twin derivations for C04 and C05: two or three derivations from one parent
// whose identities differ, but only just - the places where an implementation
// that normalises, truncates or re-uses key bytes would merge them:
//   invalid   names / tag keys / tag values that are not valid UTF-8 and differ
//             only in the invalid bytes, or an invalid byte against a literal
//             U+FFFD (no sanitizer: "all strings ... any UTF-8 and invalid UTF-8
//             bytes");
//   rewritten a spelling the sanitizer shortens (multi-byte rune -> one-byte
//             replacement) followed by sanitizer-fixed spellings next to its
//             sanitized form: the sanitized form itself, and the sanitized form
//             extended by the bytes the raw spelling is longer ("Derivations whose
//             prefix or tag set differ never share a scope" - whatever was derived
//             before);
//   qualified on a scope with prefix p a metric named p<sep>n and one named n, and
//             sub-scopes named likewise ("the name formed by the root prefix and the
//             subscope names in order ... followed by the metric name").
//   reused    one map object, refilled with other values (same size), handed to consecutive
//             Tagged calls on one parent, also one level deeper and overriding an inherited key;
//   empty     the empty string as a tag key, against its absence: at the parent, on
//             siblings, deeper, overridden, inherited, on the root;
// All inputs are delimiter-free (stream main): they go through the model as well.

import "strings"

var twinSets = [][]string{
	{"caf\xe9", "caf\xe8", "caf\xef\xbf\xbd"},
	{"caf\xc3", "caf\xe2"},
	{"\xff", "\xfe", "\xef\xbf\xbd"},
	{"a\x80b", "a\x81b", "a\xef\xbf\xbdb"},
	{"\xc3\x28", "\xe2\x28"},
	{"\xf0\x9f\x98", "\xf0\x9f\x99", "\xef\xbf\xbd\xef\xbf\xbd\xef\xbf\xbd"},
	{"x\xed\xa0\x80", "x\xed\xa0\x81"}, // surrogate halves
	{"\xc0\xaf", "\xc1\xaf"},          // overlong
}

func derivTwinsCase(r *Rng, i int) dCase {
	c := dCase{Mode: "deriv", Stream: "main", Shards: []int{1, 1, 2, 16}[r.Intn(4)], Rep: []string{"plain", "cached", "test"}[(i/5)%3]}
	c.Prefix = B(r.Pick([]string{"", "p", "svc", "a.b"}))
	if c.Rep != "test" {
		c.Sep = B(r.Pick([]string{"", ".", "_", "::"}))
	}
	if r.Chance(40) {
		c.RootTags = []kv{{B("env"), B("prod")}}
	}
	nScopes := 0
	scope := func(op dOp) int {
		c.Ops = append(c.Ops, op)
		nScopes++
		return nScopes
	}
	met := func(h, kind int, name string) { c.Ops = append(c.Ops, dOp{Op: "met", H: h, Kind: kind, Name: B(name)}) }
	// the common parent: the root or something derived from it
	parent := 0
	parentPrefix := string(c.Prefix) // (raw = sanitized for the prefixes above under every configuration used here)
	switch r.Intn(3) {
	case 1:
		parent = scope(dOp{Op: "sub", H: 0, Name: "db"})
		sep := string(c.Sep)
		if sep == "" {
			sep = "."
		}
		parentPrefix = qualName(sep, parentPrefix, "db")
	case 2:
		parent = scope(dOp{Op: "tag", H: 0, Tags: []kv{{B("zone"), B("z1")}}})
	}
	kind := r.Range(1, 4)
	switch i % 5 {
	case 0: // invalid bytes
		set := twinSets[r.Intn(len(twinSets))]
		pos := r.Intn(5)
		order := r.Intn(len(set))
		for j := range set {
			t := set[(j+order)%len(set)]
			switch pos {
			case 0:
				met(scope(dOp{Op: "tag", H: parent, Tags: []kv{{B("shop"), B(t)}}}), kind, "m")
			case 1:
				met(scope(dOp{Op: "tag", H: parent, Tags: []kv{{B(t), B("v")}}}), kind, "m")
			case 2:
				met(scope(dOp{Op: "sub", H: parent, Name: B(t)}), kind, "m")
			case 3:
				met(parent, kind, t)
			default: // one step deeper: the twin is inherited
				h := scope(dOp{Op: "tag", H: parent, Tags: []kv{{B("shop"), B(t)}}})
				met(scope(dOp{Op: "sub", H: h, Name: "x"}), kind, "m")
			}
		}
	case 1: // a spelling the sanitizer shortens, then fixed spellings next to its sanitized form
		c.San = r.Range(1, 2)
		c.Rep = []string{"plain", "cached"}[r.Intn(2)]
		san := sanitizerOf(c.San)
		mb := r.Pick([]string{"é", "ü", "ß", "日", "éé"})
		pre := r.Pick([]string{"", "a", "x1"})
		suf := r.Pick([]string{"a", "ab", "b_c", "0", "zz9"})
		key := "zz" // sorts after the keys of the parent: the rewritten binding ends the registry key
		if r.Chance(35) {
			// the key is shortened: {zzé:ab} -> {zz_:ab}
			raw, val := key+mb, suf
			sk := san.Key(raw)
			d := len(raw) - len(sk)
			met(scope(dOp{Op: "tag", H: parent, Tags: []kv{{B(raw), B(val)}}}), kind, "m")
			met(scope(dOp{Op: "tag", H: parent, Tags: []kv{{B(sk), B(val)}}}), kind, "m")
			if d <= len(val) {
				met(scope(dOp{Op: "tag", H: parent, Tags: []kv{{B(sk), B(val + val[len(val)-d:])}}}), kind, "m")
			}
		} else {
			raw := pre + mb + suf
			sv := san.Value(raw)
			d := len(raw) - len(sv)
			twin := sv + raw[len(raw)-d:]
			met(scope(dOp{Op: "tag", H: parent, Tags: []kv{{B(key), B(raw)}}}), kind, "m")
			if r.Bool() {
				met(scope(dOp{Op: "tag", H: parent, Tags: []kv{{B(key), B(sv)}}}), kind, "m")
			}
			met(scope(dOp{Op: "tag", H: parent, Tags: []kv{{B(key), B(twin)}}}), kind, "m")
			if r.Bool() {
				met(scope(dOp{Op: "tag", H: parent, Tags: []kv{{B(key), B(sv + suf)}}}), kind, "m")
			}
		}
	case 3: // the empty string as a tag key: a legal key, distinct from its absence
		// ("all strings for names, keys and values"; the key writer of the repaired tree - F05a -
		// writes it like any other key, which is what the model describes)
		if r.Chance(30) {
			c.San = 1 // "" is unchanged by every sanitizer
			if c.Rep == "test" {
				c.Rep = "plain"
			}
		}
		v := r.Pick([]string{"anon", "", "x", "v=1"})
		other := []kv{{B("region"), B("eu")}}
		switch r.Intn(6) {
		case 0: // the parent against the parent plus the "" tag
			met(parent, kind, "m")
			met(scope(dOp{Op: "tag", H: parent, Tags: []kv{{B(""), B(v)}}}), kind, "m")
		case 1: // siblings that differ in the "" tag only
			met(scope(dOp{Op: "tag", H: parent, Tags: other}), kind, "m")
			met(scope(dOp{Op: "tag", H: parent, Tags: append([]kv{{B(""), B(v)}}, other...)}), kind, "m")
		case 2: // deeper, and overridden
			h := scope(dOp{Op: "tag", H: parent, Tags: other})
			h2 := scope(dOp{Op: "tag", H: h, Tags: []kv{{B(""), B(v)}}})
			met(h2, kind, "m")
			met(scope(dOp{Op: "tag", H: h2, Tags: []kv{{B(""), B(v + "2")}}}), kind, "m")
			met(h, kind, "m")
		case 3: // inherited through a sub-scope
			h := scope(dOp{Op: "tag", H: parent, Tags: []kv{{B(""), B(v)}}})
			met(scope(dOp{Op: "sub", H: h, Name: "x"}), kind, "m")
			met(scope(dOp{Op: "sub", H: parent, Name: "x"}), kind, "m")
		case 4: // the root carries it
			c.RootTags = append(c.RootTags, kv{B(""), B(v)})
			met(parent, kind, "m")
			met(scope(dOp{Op: "tag", H: parent, Tags: other}), kind, "m")
			met(scope(dOp{Op: "tag", H: parent, Tags: []kv{{B(""), B(v + "r")}}}), kind, "m")
		default: // next to the keys that sort first
			met(scope(dOp{Op: "tag", H: parent, Tags: []kv{{B(""), B(v)}, {B("\x00"), B("z")}, {B("a"), B("")}}}), kind, "m")
			met(scope(dOp{Op: "tag", H: parent, Tags: []kv{{B("\x00"), B("z")}, {B("a"), B("")}}}), kind, "m")
			met(scope(dOp{Op: "tag", H: parent, Tags: []kv{{B(""), B("")}, {B("a"), B("")}}}), kind, "m")
		}
	case 4: // one map object, refilled by the caller, for consecutive Tagged calls on one parent
		// ("Tag maps handed to the API are copied: mutating them afterwards changes nothing")
		key := r.Pick([]string{"route", "dc", "zone", "k"})
		vals := []string{"/a", "/b", "/orders", "z2", "z3", "ams", "fra", ""}
		extra := r.Chance(40)
		if parent != 0 && c.Ops[0].Op == "tag" && r.Bool() {
			key = "zone" // overrides the key the parent carries
		}
		first := true
		n := r.Range(2, 4)
		off := r.Intn(len(vals))
		for j := 0; j < n; j++ {
			m := []kv{{B(key), B(vals[(off+j)%len(vals)])}}
			if extra {
				m = append(m, kv{B("peer"), B(vals[(off+2*j+1)%len(vals)])})
			}
			h := scope(dOp{Op: "tag", H: parent, Tags: m, Reuse: !first})
			first = false
			met(h, kind, "hits")
			if r.Chance(30) { // the scratch map is used one level deeper too
				h2 := scope(dOp{Op: "tag", H: h, Tags: []kv{{B("step"), B(vals[(off+j)%len(vals)])}}, Reuse: true})
				met(h2, kind, "hits")
				h3 := scope(dOp{Op: "tag", H: h, Tags: []kv{{B("step"), B(vals[(off+j+1)%len(vals)])}}, Reuse: true})
				met(h3, kind, "hits")
			}
		}
	default: // p<sep>n against n
		sep := string(c.Sep)
		if sep == "" {
			sep = "."
		}
		h := parent
		pfx := parentPrefix
		if pfx == "" {
			h = scope(dOp{Op: "sub", H: parent, Name: "p"})
			pfx = "p"
		}
		n := r.Pick([]string{"n", "hits", "lat"})
		names := []string{pfx + sep + n, n}
		if r.Bool() {
			names[0], names[1] = names[1], names[0]
		}
		if r.Bool() {
			for _, nm := range names {
				met(h, kind, nm)
			}
			last := pfx
			if k := strings.LastIndex(pfx, sep); k >= 0 {
				last = pfx[k+len(sep):]
			}
			met(h, kind, last+sep+n)
		} else {
			for _, nm := range names {
				met(scope(dOp{Op: "sub", H: h, Name: B(nm)}), kind, "m")
			}
		}
	}
	return c
}

// derivTwinKeys: the public key function on twins that differ only in invalid bytes.
func derivTwinKeys(r *Rng) dCase {
	set := twinSets[r.Intn(len(twinSets))]
	a, b := set[r.Intn(len(set))], set[r.Intn(len(set))]
	mk := func(t string) keyIn {
		return keyIn{Prefix: "p", Map: []kv{{B("shop"), B(t)}}}
	}
	x, y := mk(a), mk(b)
	switch r.Intn(3) {
	case 1:
		x, y = keyIn{Prefix: B(a), Map: kvs("k", "v")}, keyIn{Prefix: B(b), Map: kvs("k", "v")}
	case 2:
		x, y = keyIn{Map: []kv{{B(a), B("v")}}}, keyIn{Map: []kv{{B(b), B("v")}}}
	}
	return dCase{Mode: "key", Stream: "main", Keys: []keyIn{x, y}}
}

// derivNearDelims: pairs of identities of which one holds a delimiter and the other a
// backslash where the first has the delimiter (plus the plain backslash strings themselves):
// their keys in the documented format differ, so they are two identities - "Derivations whose
// prefix or tag set differ never share a scope" - although one of them lies where the format is
// known not to be injective (F05b). Any way of "repairing" the format by escaping has to keep
// such pairs apart. Stream near-delims: a pair whose documented keys are EQUAL (the F05b
// collision itself) is not judged here.
func derivNearDelims(r *Rng, i int) dCase {
	a := r.Pick([]string{"a", "k", "ab", ""})
	b := r.Pick([]string{"b", "1", "v", ""})
	k2 := r.Pick([]string{"c", "z", "b2"})
	v2 := r.Pick([]string{"d", "2", ""})
	p := r.Pick([]string{"p", "svc", "x.y"})
	bs := "\\"
	type pair struct {
		px string
		x  []kv
		py string
		y  []kv
	}
	var q pair
	switch r.Intn(6) {
	case 0: // {a\:b\, c:d} against {"a=b,c":d}
		q = pair{"", []kv{{B(a + bs), B(b + bs)}, {B(k2), B(v2)}}, "", []kv{{B(a + "=" + b + "," + k2), B(v2)}}}
	case 1: // {a:b\, c\:d} against {a:"b,c=d"}
		q = pair{"", []kv{{B(a), B(b + bs)}, {B(k2 + bs), B(v2)}}, "", []kv{{B(a), B(b + "," + k2 + "=" + v2)}}}
	case 2: // prefix p\ with {a:b} against no prefix with {"p+a":b}
		q = pair{p + bs, []kv{{B(a), B(b)}}, "", []kv{{B(p + "+" + a), B(b)}}}
	case 3: // prefix p\ with {a:b} against prefix "p+a=b" ... no tags: both end in the same bytes only after escaping
		q = pair{p + bs, []kv{{B("q"), B(b)}}, p + "+q=" + b, nil}
	case 4: // value ending in a backslash against a value holding the delimiter
		q = pair{p, []kv{{B("k"), B(b + bs)}, {B("l"), B(v2)}}, p, []kv{{B("k"), B(b + ",l=" + v2)}}}
	default: // backslashes without any delimiter around: ordinary strings
		q = pair{p + bs, []kv{{B(a + bs), B(bs + b)}}, p, []kv{{B(a + bs), B(bs + b + bs)}}}
	}
	if r.Bool() {
		q.px, q.x, q.py, q.y = q.py, q.y, q.px, q.x
	}
	if i%2 == 0 {
		return dCase{Mode: "key", Stream: "near-delims", Keys: []keyIn{{Prefix: B(q.px), Map: q.x}, {Prefix: B(q.py), Map: q.y}}}
	}
	// the same pair as derivations: prefix = sub-scope name of an unprefixed root
	c := dCase{Mode: "deriv", Stream: "near-delims", Shards: []int{1, 2, 16, 64}[r.Intn(4)], Rep: []string{"plain", "cached", "test"}[(i/2)%3]}
	kind := r.Range(1, 4)
	n := 0
	one := func(px string, m []kv) {
		h := 0
		if px != "" {
			c.Ops = append(c.Ops, dOp{Op: "sub", H: 0, Name: B(px)})
			n++
			h = n
		}
		if len(m) > 0 {
			c.Ops = append(c.Ops, dOp{Op: "tag", H: h, Tags: m})
			n++
			h = n
		}
		c.Ops = append(c.Ops, dOp{Op: "met", H: h, Kind: kind, Name: "m"})
	}
	one(q.px, q.x)
	one(q.py, q.y)
	return c
}
