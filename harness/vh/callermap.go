package main

// Caller-owned tag maps ("the library never keeps the caller's map": C04 states it; for C01, C02 and
// C06 it is what "delivered under that metric's name and tags" / "everything handed to a reporter is
// sanitized" mean when the caller re-uses its map): a map handed to Tagged is refilled by the caller
// afterwards - with other values, other keys, strings the sanitizer would have to rewrite - and
// re-used for further Tagged calls; every metric must be delivered under the tags its scope was derived
// with, sanitized.

import (
	"fmt"
	"sort"
	"strings"

	tally "github.com/uber-go/tally/v4"
)

// callerMapReuse: kind 0 counter, 1 gauge.  parentTagged: the parent carries tags itself.  san: a
// sanitizer is configured (the maps handed in are clean; what the caller writes afterwards is not).
func callerMapReuse(kind int, cached, parentTagged, san bool) string {
	log := &Log{}
	opts := tally.ScopeOptions{OmitCardinalityMetrics: true}
	if san {
		opts.SanitizeOptions = &tally.SanitizeOptions{
			NameCharacters:       tally.ValidCharacters{Ranges: tally.AlphanumericRange, Characters: tally.UnderscoreDashCharacters},
			KeyCharacters:        tally.ValidCharacters{Ranges: tally.AlphanumericRange, Characters: tally.UnderscoreDashCharacters},
			ValueCharacters:      tally.ValidCharacters{Ranges: tally.AlphanumericRange, Characters: tally.UnderscoreDashCharacters},
			ReplacementCharacter: '_',
		}
	}
	if cached {
		opts.CachedReporter = &RecCached{L: log, Caps: caps{true, true}}
	} else {
		opts.Reporter = &RecReporter{L: log, Caps: caps{true, true}}
	}
	root, closer := tally.VerifNewRootScope(opts, 0, 1)
	defer closer.Close()
	parent := root.SubScope("svc")
	if parentTagged {
		parent = root.Tagged(map[string]string{"env": "prod"})
	}
	scratch := map[string]string{}
	type rec struct {
		tags string
		val  int64
	}
	var want []rec
	workers := []string{"ams", "fra", "sjc"}
	var scopes []tally.Scope
	for i, w := range workers {
		scratch["dc"] = w // the caller's one map, refilled per derivation
		sc := parent.Tagged(scratch)
		scopes = append(scopes, sc)
		exp := "dc=" + w
		if parentTagged {
			exp = "dc=" + w + ",env=prod"
		}
		want = append(want, rec{exp, int64(10 + i)})
	}
	// afterwards the caller puts strings into its map that no scope was derived with
	scratch["dc"] = "POST /orders?dry=1"
	scratch["peer.addr"] = "10.0.0.1:80"
	for i, sc := range scopes {
		if kind == 0 {
			sc.Counter("m").Inc(want[i].val)
		} else {
			sc.Gauge("m").Update(float64(want[i].val))
		}
	}
	tally.VerifReportOnce(root)
	got := map[string][]int64{}
	alloc := map[int64]string{}
	tagsOf := func(s []string) string {
		var kv []string
		for i := 1; i+1 < len(s); i += 2 {
			kv = append(kv, s[i]+"="+s[i+1])
		}
		sort.Strings(kv)
		return strings.Join(kv, ",")
	}
	for _, e := range log.Snapshot() {
		switch e.K {
		case 1:
			got[tagsOf(e.S)] = append(got[tagsOf(e.S)], e.I[0])
		case 2:
			got[tagsOf(e.S)] = append(got[tagsOf(e.S)], int64(fF(e.I[0])))
		case 11, 12:
			alloc[e.I[0]] = tagsOf(e.S)
		case 21:
			got[alloc[e.I[0]]] = append(got[alloc[e.I[0]]], e.I[1])
		case 22:
			got[alloc[e.I[0]]] = append(got[alloc[e.I[0]]], int64(fF(e.I[1])))
		}
	}
	what := []string{"counter", "gauge"}[kind]
	for _, w := range want {
		if g := got[w.tags]; len(g) != 1 || g[0] != w.val {
			return fmt.Sprintf("one caller-owned map was refilled and handed to Tagged three times (dc=ams, fra, sjc) and refilled again afterwards; the %s of the scope derived with {%s} recorded %d: delivered under those tags: %v; all deliveries by tags: %v", what, w.tags, w.val, g, got)
		}
	}
	if len(got) != len(want) {
		return fmt.Sprintf("one caller-owned map was refilled and handed to Tagged three times and refilled again afterwards: deliveries under tag sets no scope was derived with: %v", got)
	}
	return ""
}

// c01Override: "all scopes" - a Tagged map that overrides a tag of its parent, with fewer, as many and
// more entries than the parent's own tag set (np parent tags, nr requested entries, one of them the
// overriding "env"), one level and two levels deep; counters named alike on every scope; one pass.
// Every (name, tags) series must deliver exactly the increments made through the scope that denotes it:
// the requested value wins over the parent's whatever the sizes of the two maps.
func c01Override(cached bool, np, nr int) string {
	log := &Log{}
	opts := tally.ScopeOptions{OmitCardinalityMetrics: true, Tags: map[string]string{"env": "prod"}}
	for i := 1; i < np; i++ {
		opts.Tags[fmt.Sprintf("p%d", i)] = "x"
	}
	if cached {
		opts.CachedReporter = &RecCached{L: log, Caps: caps{true, true}}
	} else {
		opts.Reporter = &RecReporter{L: log, Caps: caps{true, true}}
	}
	root, closer := tally.VerifNewRootScope(opts, 0, 1)
	defer closer.Close()
	merged := func(base map[string]string, over map[string]string) map[string]string {
		m := map[string]string{}
		for k, v := range base {
			m[k] = v
		}
		for k, v := range over {
			m[k] = v
		}
		return m
	}
	key := func(m map[string]string) string {
		var kv []string
		for k, v := range m {
			kv = append(kv, k+"="+v)
		}
		sort.Strings(kv)
		return strings.Join(kv, ",")
	}
	req := map[string]string{"env": "canary"}
	for i := 1; i < nr; i++ {
		req[fmt.Sprintf("c%d", i)] = "y"
	}
	req2 := map[string]string{"env": "staging"}
	for i := 1; i < nr; i++ {
		req2[fmt.Sprintf("c%d", i)] = "z" // overrides the child's own extras as well
	}
	child := root.Tagged(req)
	grand := child.Tagged(req2)
	want := map[string]int64{}
	inc := func(s tally.Scope, tags map[string]string, n int64) {
		s.Counter("requests").Inc(n)
		want[key(tags)] += n
	}
	t0 := opts.Tags
	t1 := merged(t0, req)
	t2 := merged(t1, req2)
	inc(root, t0, 4)
	inc(child, t1, 3)
	inc(grand, t2, 5)
	inc(root.Tagged(map[string]string{"env": "canary"}), merged(t0, map[string]string{"env": "canary"}), 7)
	tally.VerifReportOnce(root)
	got := map[string]int64{}
	alloc := map[int64]string{}
	tagsOf := func(s []string) string {
		var kv []string
		for i := 1; i+1 < len(s); i += 2 {
			kv = append(kv, s[i]+"="+s[i+1])
		}
		sort.Strings(kv)
		return strings.Join(kv, ",")
	}
	for _, e := range log.Snapshot() {
		switch e.K {
		case 1:
			got[tagsOf(e.S)] += e.I[0]
		case 11:
			alloc[e.I[0]] = tagsOf(e.S)
		case 21:
			got[alloc[e.I[0]]] += e.I[1]
		}
	}
	for k, n := range want {
		if got[k] != n {
			return fmt.Sprintf("root tags {%s}; Tagged{%s} and below it Tagged{%s}: counter \"requests\" of the scope denoting {%s} was incremented by %d, delivered %d; all deliveries by tags: %v",
				key(t0), key(req), key(req2), k, n, got[k], got)
		}
	}
	for k, n := range got {
		if _, ok := want[k]; !ok && n != 0 {
			return fmt.Sprintf("root tags {%s}; Tagged{%s} and below it Tagged{%s}: %d delivered for \"requests\" under {%s}, a tag set no scope denotes; all deliveries by tags: %v", key(t0), key(req), key(req2), n, k, got)
		}
	}
	return ""
}
