package main

// C20 — uncontrolled stress streams (not sent to the model; direct predicates
// only, never judged by elapsed time: a storm is a fixed number of iterations).
//
// Property clause: "A histogram always uses exactly the bounds it was created
// with, no matter which other bucket sets ... were used before or at the same
// time anywhere under the same root", quantified over "schedules ... from one
// or many goroutines"; and "Deriving bucket pairs never modifies the caller's
// slice".  Deriving the pairs of one set must therefore not be disturbed by a
// derivation for ANOTHER set that runs at the same time.
//
//   T = 6  pairs storm: Workers goroutines call tally.BucketPairs on their own
//          sets (both kinds; all of one length or of different lengths), Iters
//          times; every result must be exactly the tiling of THAT set, computed
//          independently (sorted copy, then the maximum).
//   T = 7  reporter storm: one root with a cached reporter that, like the M3
//          reporter, derives tally.BucketPairs(buckets) in AllocateHistogram;
//          Workers goroutines create histograms with distinct sets (a new set
//          every iteration: the cache misses and derives inside tally while
//          other goroutines derive inside the reporter) on their own tagged
//          scopes.  Both the pairs the reporter derives and the buckets the
//          histogram allocates must be the tiling of the histogram's own set.

import (
	"fmt"
	"strconv"
	"sync"
	"sync/atomic"
	"time"

	tally "github.com/uber-go/tally/v4"
)

func c20GenStorm(r *Rng, t int) c20Case {
	c := c20Case{T: t, Workers: 4 + r.Intn(5)}
	per := 2 + r.Intn(3) // sets per goroutine
	if t == 6 {
		c.Iters = 600 + r.Intn(900)
	} else {
		c.Iters = 40 + r.Intn(60)
		per = 1 + r.Intn(2)
	}
	equalLen := r.Bool()
	ln := 6 + r.Intn(40)
	pdur := []int{100, 100, 70, 50}[r.Intn(4)] // mostly duration sets; value sets mixed in
	for i := 0; i < c.Workers*per; i++ {
		n := ln
		if !equalLen {
			n = 1 + r.Intn(48)
		}
		dur := r.Chance(pdur)
		var spec []int64
		if dur {
			for len(spec) < n {
				switch r.Intn(4) {
				case 0:
					spec = append(spec, int64(r.Intn(10000))*int64(time.Millisecond))
				case 1:
					spec = append(spec, c20AnyInt(r)>>1) // room for the per-iteration shift
				default:
					spec = append(spec, int64(r.U64()>>uint(20+r.Intn(40))))
				}
			}
		} else {
			spec = c20Spec(r, false, n)
		}
		c.Cr = append(c.Cr, c20Creation{Dur: dur, Spec: spec})
	}
	return c
}

func c20PairsOf(ps []tally.BucketPair, dur bool) []c20Pair {
	out := make([]c20Pair, len(ps))
	for i, p := range ps {
		if dur {
			out[i] = c20Pair{int64(p.LowerBoundDuration()), int64(p.UpperBoundDuration())}
		} else {
			out[i] = c20Pair{fbits(p.LowerBoundValue()), fbits(p.UpperBoundValue())}
		}
	}
	return out
}

// c20Tiling compares derived pairs with the tiling of the set they were derived
// from ("" = they are it).
func c20Tiling(dur bool, spec []int64, got, want []c20Pair) string {
	if len(got) != len(want) {
		return fmt.Sprintf("%d pairs for a set of %d bounds %v", len(got), len(spec), spec)
	}
	for i := range want {
		if !c20Same(dur, want[i].lo, got[i].lo) || !c20Same(dur, want[i].hi, got[i].hi) {
			return fmt.Sprintf("pair %d is (%d,%d], the set it was derived from gives (%d,%d]; set %v", i, got[i].lo, got[i].hi, want[i].lo, want[i].hi, spec)
		}
	}
	return ""
}

type c20First struct {
	stop atomic.Bool
	mu   sync.Mutex
	msg  string
}

func (f *c20First) set(format string, a ...interface{}) {
	f.mu.Lock()
	if f.msg == "" {
		f.msg = fmt.Sprintf(format, a...)
	}
	f.mu.Unlock()
	f.stop.Store(true)
}

// c20RunPairsStorm: T = 6.
func c20RunPairsStorm(c *c20Case) (fail string) {
	w := c.Workers
	if w < 1 {
		w = 1
	}
	bks := make([]tally.Buckets, len(c.Cr))
	want := make([][]c20Pair, len(c.Cr))
	for i, cr := range c.Cr {
		bks[i] = c20MkBuckets(cr.Dur, cr.Spec)
		want[i] = c20Want(cr.Dur, cr.Spec)
	}
	var first c20First
	var wg sync.WaitGroup
	start := make(chan struct{})
	for g := 0; g < w; g++ {
		wg.Add(1)
		go func(g int) {
			defer wg.Done()
			defer func() {
				if p := recover(); p != nil {
					first.set("goroutine %d: panic in BucketPairs: %v", g, p)
				}
			}()
			<-start
			for it := 0; it < c.Iters && !first.stop.Load(); it++ {
				for j := g; j < len(c.Cr); j += w {
					got := c20PairsOf(tally.BucketPairs(bks[j]), c.Cr[j].Dur)
					if m := c20Tiling(c.Cr[j].Dur, c.Cr[j].Spec, got, want[j]); m != "" {
						first.set("goroutine %d, iteration %d, BucketPairs of set %d while %d other goroutines derive other sets: %s", g, it, j, w-1, m)
						return
					}
				}
			}
		}(g)
	}
	close(start)
	wg.Wait()
	if first.msg != "" {
		return first.msg
	}
	for i, cr := range c.Cr {
		if !c20Unchanged(bks[i], cr.Dur, cr.Spec) {
			return fmt.Sprintf("BucketPairs modified the caller's slice of set %d", i)
		}
	}
	return ""
}

// --- T = 7: a cached reporter that derives the pairs itself

type c20StormWant struct {
	dur   bool
	spec  []int64
	pairs []c20Pair
	got   []c20Pair // buckets the histogram allocated (written by the creating goroutine only)
}
type c20StormRep struct {
	first *c20First
	want  sync.Map // histogram name -> *c20StormWant
}
type c20StormH struct {
	r *c20StormRep
	w *c20StormWant
}

func (r *c20StormRep) Capabilities() tally.Capabilities                            { return caps{true, true} }
func (r *c20StormRep) Flush()                                                      {}
func (r *c20StormRep) AllocateCounter(string, map[string]string) tally.CachedCount { return c20Nop{} }
func (r *c20StormRep) AllocateGauge(string, map[string]string) tally.CachedGauge   { return c20Nop{} }
func (r *c20StormRep) AllocateTimer(string, map[string]string) tally.CachedTimer   { return c20Nop{} }
func (r *c20StormRep) AllocateHistogram(name string, _ map[string]string, b tally.Buckets) tally.CachedHistogram {
	v, ok := r.want.Load(name)
	if !ok {
		return c20StormH{r, &c20StormWant{}}
	}
	w := v.(*c20StormWant)
	if !c20Unchanged(b, w.dur, w.spec) {
		r.first.set("AllocateHistogram(%s) was handed buckets other than the ones the histogram was created with %v", name, w.spec)
	}
	got := c20PairsOf(tally.BucketPairs(b), w.dur) // what the M3 reporter does
	if m := c20Tiling(w.dur, w.spec, got, w.pairs); m != "" {
		r.first.set("BucketPairs derived by the reporter in AllocateHistogram(%s), other goroutines creating histograms under the same root: %s", name, m)
	}
	return c20StormH{r, w}
}
func (h c20StormH) ValueBucket(lo, hi float64) tally.CachedHistogramBucket {
	h.w.got = append(h.w.got, c20Pair{fbits(lo), fbits(hi)})
	return c20NopBucket{}
}
func (h c20StormH) DurationBucket(lo, hi time.Duration) tally.CachedHistogramBucket {
	h.w.got = append(h.w.got, c20Pair{int64(lo), int64(hi)})
	return c20NopBucket{}
}

type c20NopBucket struct{}

func (c20NopBucket) ReportSamples(int64) {}

// c20Shift: the set of iteration it (every element moved by it, so that the
// cache misses and tally derives the pairs again).
func c20Shift(cr c20Creation, it int) []int64 {
	out := make([]int64, len(cr.Spec))
	for i, v := range cr.Spec {
		if cr.Dur {
			out[i] = v + int64(it)
		} else {
			f := c20f(v) + float64(it)
			if f != f {
				f = float64(it)
			}
			out[i] = fbits(f)
			if f == 0 {
				out[i] = 0
			}
		}
	}
	return out
}

func c20RunReporterStorm(c *c20Case) (fail string) {
	w := c.Workers
	if w < 1 {
		w = 1
	}
	first := &c20First{}
	rep := &c20StormRep{first: first}
	root, closer := tally.NewRootScope(tally.ScopeOptions{CachedReporter: rep}, 0)
	var wg sync.WaitGroup
	start := make(chan struct{})
	for g := 0; g < w; g++ {
		wg.Add(1)
		go func(g int) {
			defer wg.Done()
			defer func() {
				if p := recover(); p != nil {
					first.set("goroutine %d: panic while creating a histogram: %v", g, p)
				}
			}()
			<-start
			sc := root.Tagged(map[string]string{"g": strconv.Itoa(g)})
			for it := 0; it < c.Iters && !first.stop.Load(); it++ {
				for j := g; j < len(c.Cr); j += w {
					spec := c20Shift(c.Cr[j], it)
					if !c.Cr[j].Dur && !c20OkValueSpec(spec) {
						continue
					}
					name := "h" + strconv.Itoa(j) + "x" + strconv.Itoa(it)
					sw := &c20StormWant{dur: c.Cr[j].Dur, spec: spec, pairs: c20Want(c.Cr[j].Dur, spec)}
					rep.want.Store(name, sw)
					b := c20MkBuckets(sw.dur, spec)
					sc.Histogram(name, b)
					if m := c20Tiling(sw.dur, spec, sw.got, sw.pairs); m != "" {
						first.set("histogram %s created by goroutine %d while %d others create histograms with other sets under the same root allocated its buckets as: %s", name, g, w-1, m)
						return
					}
					if !c20Unchanged(b, sw.dur, spec) {
						first.set("Histogram(%s) modified the caller's slice", name)
						return
					}
				}
			}
		}(g)
	}
	close(start)
	wg.Wait()
	closer.Close()
	return first.msg
}
