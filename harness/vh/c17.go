package main

// C17 — Prometheus reporter: gathered values agree with what was recorded;
// registration conflicts reach the error callback and never crash.
//
// Two modes.  Mode 0 drives the real reporter through a tally root scope
// (first uses, records, report passes via VerifReportOnce) and gathers from a
// fresh prometheus.NewRegistry().  Mode 1 drives the CachedStatsReporter /
// Register* API directly: every sequence (length <= 4, thorough <= 5) of first
// uses that reuse one name across kinds / label key sets, with returning and
// panicking callbacks, both timer flavours, plus random histories with
// pre-registered families and the OnError configurations of config.go.

import (
	"bytes"
	"encoding/json"
	"fmt"
	"io"
	"log"
	"math"
	"os"
	"runtime"
	"sort"
	"strings"
	"sync"
	"sync/atomic"
	"time"

	pkgerrors "github.com/pkg/errors"
	prom "github.com/prometheus/client_golang/prometheus"
	dto "github.com/prometheus/client_model/go"
	tally "github.com/uber-go/tally/v4"
	tp "github.com/uber-go/tally/v4/prometheus"
)

type c17Fam struct {
	Kind   int     `json:"kind"` // 1 counter 2 gauge 3 summary 4 histogram
	Name   B       `json:"name"`
	Help   B       `json:"help"`
	Keys   []B     `json:"keys,omitempty"`
	Bounds []int64 `json:"bounds,omitempty"`
}

type c17Op struct {
	// mode 0: decl inc upd rec recv recd pass; mode 1: alloc rep reg
	Op   string  `json:"op"`
	U    int     `json:"u,omitempty"` // 1 counter 2 gauge 3 timer 4 value histogram 5 duration histogram
	Name B       `json:"name,omitempty"`
	Tags [][2]B  `json:"tags,omitempty"` // sorted by key
	Spec []int64 `json:"spec,omitempty"` // float bits (u=4, reg) or ns (u=5)
	O    int     `json:"o,omitempty"`
	V    int64   `json:"v,omitempty"`
	N    int64   `json:"n,omitempty"`
	Up   int64   `json:"up,omitempty"`
	Dur  bool    `json:"dur,omitempty"`
	Help B       `json:"help,omitempty"`
	Ty   int     `json:"ty,omitempty"` // reg timer: -1 nil options, 0 summary, 1 histogram, 7 unknown
	Root int     `json:"root,omitempty"` // decl: 1 = through a second root scope on the same reporter
	Rep  int     `json:"rep,omitempty"`  // alloc / reg: index of the reporter (all on one registry)
	Via  [][][2]B `json:"via,omitempty"` // decl: the chain of Tagged() maps (Tags = the effective tags)
}

type c17Case struct {
	Mode      int      `json:"mode"`
	TimerType int      `json:"timer_type"`
	Cb        string   `json:"cb"` // fn nil cfgfn none stderr log cfgpanic
	CbMask    int64    `json:"cb_mask"`
	DefBMode  int      `json:"defb_mode"` // 0 reporter default, 1 DefB, 2 empty non-nil
	DefB      []int64  `json:"defb,omitempty"`
	Wrap      bool     `json:"wrap,omitempty"` // recording Registerer around the real registry
	Pre       []c17Fam `json:"pre,omitempty"`
	Ops       []c17Op  `json:"ops"`
	// mode 2: G goroutines first-use, at once, the metric of kind Kinds[r] named
	// after round r with tag g=<goroutine>; ViaScope: through Tagged sub-scopes
	G        int   `json:"g,omitempty"`
	Kinds    []int `json:"kinds,omitempty"`
	ViaScope bool  `json:"via_scope,omitempty"`
	Salt     int   `json:"salt,omitempty"`
	Collide  bool  `json:"collide,omitempty"` // two specifications of equal bucket identity (informative)
	Realloc  bool  `json:"realloc,omitempty"` // some series gets a second handle (informative)
	RootTags [][2]B `json:"root_tags,omitempty"` // mode 0: ScopeOptions.Tags of the root scope(s)
}

// ---------------------------------------------------------------- environment

type c17CbPanic struct{ cls int64 }

type c17Reg struct {
	inner *prom.Registry
	errs  []error // result of every Register call
}

func (r *c17Reg) Register(c prom.Collector) error {
	err := r.inner.Register(c)
	r.errs = append(r.errs, err)
	return err
}
func (r *c17Reg) MustRegister(cs ...prom.Collector) {
	for _, c := range cs {
		if err := r.Register(c); err != nil {
			panic(err)
		}
	}
}
func (r *c17Reg) Unregister(c prom.Collector) bool { return r.inner.Unregister(c) }

type c17Env struct {
	reg    *prom.Registry
	wrap   *c17Reg
	rep    tp.Reporter
	cbLog  []int64
	cbErrs []error
	cbObs  int64
	cleanup func()
	mu     sync.Mutex // the callback may be reached from several goroutines (mode 2)
	mk     func() tp.Reporter
	reps   []tp.Reporter // reporters built with the same options on the same registry
}

func c17Class(err error) int64 {
	if err == nil {
		return 0
	}
	if _, ok := pkgerrors.Cause(err).(prom.AlreadyRegisteredError); ok {
		return 1
	}
	if strings.Contains(err.Error(), "previously registered descriptor") {
		return 2
	}
	return 3
}

var c17PathSeq int

func f64s(bits []int64) []float64 {
	out := make([]float64, len(bits))
	for i, b := range bits {
		out[i] = math.Float64frombits(uint64(b))
	}
	return out
}

func c17NewEnv(c *c17Case) (*c17Env, []int64) {
	e := &c17Env{reg: prom.NewRegistry(), cbObs: 1}
	for _, f := range c.Pre {
		keys := make([]string, len(f.Keys))
		for i, k := range f.Keys {
			keys[i] = string(k)
		}
		var col prom.Collector
		switch f.Kind {
		case 1:
			col = prom.NewCounterVec(prom.CounterOpts{Name: string(f.Name), Help: string(f.Help)}, keys)
		case 2:
			col = prom.NewGaugeVec(prom.GaugeOpts{Name: string(f.Name), Help: string(f.Help)}, keys)
		case 3:
			col = prom.NewSummaryVec(prom.SummaryOpts{Name: string(f.Name), Help: string(f.Help)}, keys)
		default:
			col = prom.NewHistogramVec(prom.HistogramOpts{Name: string(f.Name), Help: string(f.Help), Buckets: f64s(f.Bounds)}, keys)
		}
		if err := e.reg.Register(col); err != nil {
			fatal(fmt.Errorf("C17: pre-registration failed: %v", err))
		}
	}
	fn := func(err error) {
		e.mu.Lock()
		defer e.mu.Unlock()
		n := len(e.cbLog)
		cls := c17Class(err)
		e.cbLog = append(e.cbLog, cls)
		e.cbErrs = append(e.cbErrs, err)
		if c.CbMask == -1 || (n < 62 && c.CbMask>>uint(n)&1 == 1) {
			panic(c17CbPanic{cls})
		}
	}
	var defb []float64
	switch c.DefBMode {
	case 1:
		defb = f64s(c.DefB)
	case 2:
		defb = []float64{}
	}
	resolved := defb
	if defb == nil {
		resolved = tp.DefaultHistogramBuckets()
	}
	rb := make([]int64, len(resolved))
	for i, v := range resolved {
		rb[i] = fbits(v)
	}
	switch c.Cb {
	case "fn", "nil":
		o := tp.Options{DefaultTimerType: tp.TimerType(c.TimerType), DefaultHistogramBuckets: defb}
		if c.Wrap {
			e.wrap = &c17Reg{inner: e.reg}
			o.Registerer = e.wrap
			o.Gatherer = e.reg
		} else {
			o.Registerer = e.reg
		}
		if c.Cb == "fn" {
			o.OnRegisterError = fn
		}
		e.mk = func() tp.Reporter { return tp.NewReporter(o) }
		e.rep = e.mk()
	default:
		c17PathSeq++
		cfg := tp.Configuration{HandlerPath: fmt.Sprintf("/c17_%d", c17PathSeq)}
		if c.TimerType == 1 {
			cfg.TimerType = "histogram"
		} else if c17PathSeq%2 == 0 {
			cfg.TimerType = "summary"
		}
		for _, v := range defb {
			cfg.DefaultHistogramBuckets = append(cfg.DefaultHistogramBuckets, tp.HistogramObjective{Upper: v})
		}
		co := tp.ConfigurationOptions{Registry: e.reg}
		switch c.Cb {
		case "cfgfn":
			co.OnError = fn
		case "none":
			cfg.OnError = "none"
			e.cbObs = 0
		case "stderr":
			cfg.OnError = "stderr"
			e.cbObs = 2
			old := os.Stderr
			rd, wr, err := os.Pipe()
			if err != nil {
				fatal(err)
			}
			os.Stderr = wr
			e.cleanup = func() {
				os.Stderr = old
				wr.Close()
				b, _ := io.ReadAll(rd)
				rd.Close()
				e.parseLines(string(b))
			}
		case "log":
			cfg.OnError = "log"
			e.cbObs = 2
			var buf bytes.Buffer
			oldFlags := log.Flags()
			log.SetOutput(&buf)
			log.SetFlags(0)
			e.cleanup = func() {
				log.SetOutput(os.Stderr)
				log.SetFlags(oldFlags)
				e.parseLines(buf.String())
			}
		case "cfgpanic":
			cfg.OnError = "" // default: panic(err)
		}
		e.mk = func() tp.Reporter {
			c17PathSeq++
			cfg.HandlerPath = fmt.Sprintf("/c17_%d", c17PathSeq)
			rep, err := cfg.NewReporter(co)
			if err != nil {
				fatal(err)
			}
			return rep
		}
		e.rep = e.mk()
	}
	e.reps = []tp.Reporter{e.rep}
	return e, rb
}

// useRep makes the i-th reporter on this registry (same options) the current one.
func (e *c17Env) useRep(i int) {
	for len(e.reps) <= i {
		e.reps = append(e.reps, e.mk())
	}
	e.rep = e.reps[i]
}

// parseLines recovers the callback log from what the "stderr" / "log"
// callbacks of config.go printed.
func (e *c17Env) parseLines(s string) {
	for _, ln := range strings.Split(s, "\n") {
		const pfx = "tally prometheus reporter error: "
		if i := strings.Index(ln, pfx); i >= 0 {
			msg := ln[i+len(pfx):]
			cls := int64(3)
			if strings.Contains(msg, "previously registered descriptor") {
				cls = 2
			} else if strings.Contains(msg, "duplicate metrics collector registration attempted") {
				cls = 1
			}
			e.cbLog = append(e.cbLog, cls)
		}
	}
}

// guarded runs f; code 0 returned without callback, 1 returned after the
// callback ran, 2 the callback's own panic propagated, 3 any other panic.
func (e *c17Env) guarded(c *c17Case, f func()) (code int, what string) {
	n0 := len(e.cbLog)
	defer func() {
		if p := recover(); p != nil {
			switch v := p.(type) {
			case c17CbPanic:
				code = 2
			case runtime.Error:
				code, what = 3, v.Error()
			case error:
				if c.Cb == "nil" || c.Cb == "cfgpanic" {
					// the default callbacks panic with the (wrapped) error they were given
					e.cbLog = append(e.cbLog, c17Class(v))
					e.cbErrs = append(e.cbErrs, v)
					code = 2
				} else {
					code, what = 3, v.Error()
				}
			default:
				code, what = 3, fmt.Sprint(p)
			}
		}
	}()
	f()
	if len(e.cbLog) > n0 {
		return 1, ""
	}
	return 0, ""
}

func c17Tags(t [][2]B) map[string]string {
	m := make(map[string]string, len(t))
	for _, kv := range t {
		m[string(kv[0])] = string(kv[1])
	}
	return m
}
func c17NameTags(name B, t [][2]B) []string {
	out := []string{string(name)}
	for _, kv := range t {
		out = append(out, string(kv[0]), string(kv[1]))
	}
	return out
}
func c17Keys(t [][2]B) []string {
	out := make([]string, len(t))
	for i, kv := range t {
		out[i] = string(kv[0])
	}
	return out
}

func secOf(d int64) float64 { return float64(d) / float64(time.Second) }

func flagsFrom(from, n int) uint32 {
	var f uint32
	for i := from; i < from+n && i < 32; i++ {
		f |= 1 << uint(i)
	}
	return f
}

func c17Buckets(o *c17Op) tally.Buckets {
	if o.U == 5 {
		d := make(tally.DurationBuckets, len(o.Spec))
		for i, v := range o.Spec {
			d[i] = time.Duration(v)
		}
		return d
	}
	return tally.ValueBuckets(f64s(o.Spec))
}

// ---------------------------------------------------------------- gather

func c17Gather(reg *prom.Registry) (evs []Ev, fams []*dto.MetricFamily, nerr int) {
	fams, err := reg.Gather()
	if err != nil {
		nerr = 1
	}
	for _, f := range fams {
		for _, m := range f.GetMetric() {
			s := []string{f.GetName(), f.GetHelp()}
			for _, lp := range m.GetLabel() {
				s = append(s, lp.GetName(), lp.GetValue())
			}
			e := Ev{K: 20, S: s}
			switch f.GetType() {
			case dto.MetricType_COUNTER:
				v := m.GetCounter().GetValue()
				iv := int64(-1)
				if v >= 0 && v < 1<<53 && v == math.Trunc(v) {
					iv = int64(v)
				}
				e.I = []int64{1, iv}
			case dto.MetricType_GAUGE:
				e.I = []int64{2, fbits(m.GetGauge().GetValue())}
				e.F = 2
			case dto.MetricType_SUMMARY:
				e.I = []int64{3, int64(m.GetSummary().GetSampleCount())}
			case dto.MetricType_HISTOGRAM:
				h := m.GetHistogram()
				e.I = []int64{4, int64(h.GetSampleCount())}
				for i, b := range h.GetBucket() {
					e.I = append(e.I, fbits(b.GetUpperBound()), int64(b.GetCumulativeCount()))
					if 2+2*i < 32 {
						e.F |= 1 << uint(2+2*i)
					}
				}
			default:
				e.I = []int64{0}
			}
			evs = append(evs, e)
		}
	}
	evs = append(evs, Ev{K: 29, I: []int64{int64(nerr)}})
	return
}

// ---------------------------------------------------------------- running

type c17Out struct {
	params  []int64
	in, obs []Ev
	fail    string // direct predicate
	pred    string
	stuck   bool   // the history never finished (deadlock verdict); nothing observed
	f17     bool   // the nil-pointer pattern of finding F17 was observed
	f17what string
	fams    []*dto.MetricFamily
}

func c17PreEvents(c *c17Case, rb []int64) []Ev {
	in := []Ev{{K: 31, I: rb, F: flagsFrom(0, len(rb))}}
	for _, f := range c.Pre {
		s := []string{string(f.Name), string(f.Help)}
		for _, k := range f.Keys {
			s = append(s, string(k))
		}
		in = append(in, Ev{K: 30, I: append([]int64{int64(f.Kind)}, f.Bounds...), F: flagsFrom(1, len(f.Bounds)), S: s})
	}
	return in
}

func c17RunDirect(c *c17Case) (out c17Out) {
	e, rb := c17NewEnv(c)
	out.in = c17PreEvents(c, rb)
	type handle struct {
		u    int
		c    tally.CachedCount
		g    tally.CachedGauge
		t    tally.CachedTimer
		h    tally.CachedHistogram
		dead bool
	}
	var hs []handle
	setFail := func(pred, what string) {
		if out.fail == "" {
			out.pred, out.fail = pred, what
		}
	}
	curRep := 0
	for oi := range c.Ops {
		o := &c.Ops[oi]
		if (o.Op == "alloc" || o.Op == "reg") && o.Rep != curRep {
			curRep = o.Rep
			e.useRep(curRep)
			out.in = append(out.in, Ev{K: 14, I: []int64{int64(curRep)}})
		}
		switch o.Op {
		case "alloc":
			var h handle
			h.u = o.U
			tags := c17Tags(o.Tags)
			in := Ev{K: 11, I: []int64{int64(o.U)}, S: c17NameTags(o.Name, o.Tags)}
			var bk tally.Buckets
			if o.U >= 4 {
				bk = c17Buckets(o)
				in.I = []int64{4}
				for _, v := range bk.AsValues() {
					in.I = append(in.I, fbits(v))
				}
				in.F = flagsFrom(1, len(in.I)-1)
			}
			nreg := 0
			if e.wrap != nil {
				nreg = len(e.wrap.errs)
			}
			ncb := len(e.cbErrs)
			code, what := e.guarded(c, func() {
				switch o.U {
				case 1:
					h.c = e.rep.AllocateCounter(string(o.Name), tags)
				case 2:
					h.g = e.rep.AllocateGauge(string(o.Name), tags)
				case 3:
					h.t = e.rep.AllocateTimer(string(o.Name), tags)
				default:
					h.h = e.rep.AllocateHistogram(string(o.Name), tags, bk)
				}
			})
			if code >= 2 {
				h.dead = true
			} else if (o.U == 1 && h.c == nil) || (o.U == 2 && h.g == nil) || (o.U == 3 && h.t == nil) || (o.U >= 4 && h.h == nil) {
				setFail("conflict_never_nil", fmt.Sprintf("op %d: Allocate returned a nil metric", oi))
				h.dead = true
			}
			if code == 3 {
				out.f17, out.f17what = true, fmt.Sprintf("op %d (Allocate u=%d %q): panic: %s", oi, o.U, o.Name, what)
			}
			// callback_gets_error, model free: a Register error seen by the recording
			// registerer during this call must be handed to the callback, once
			if e.wrap != nil && code != 3 {
				var rerr error
				for _, er := range e.wrap.errs[nreg:] {
					if er != nil {
						rerr = er
					}
				}
				got := e.cbErrs[ncb:]
				if rerr != nil && (len(got) != 1 || pkgerrors.Cause(got[0]) != rerr) {
					setFail("callback_gets_error", fmt.Sprintf("op %d: Register failed with %q, callback saw %d errors", oi, rerr, len(got)))
				}
				if rerr == nil && len(e.wrap.errs) > nreg && len(got) != 0 {
					setFail("callback_gets_error", fmt.Sprintf("op %d: Register succeeded but the callback was invoked", oi))
				}
			}
			hs = append(hs, h)
			out.in = append(out.in, in)
			out.obs = append(out.obs, Ev{K: 10, I: []int64{int64(code)}})
		case "rep":
			if o.O >= len(hs) || hs[o.O].dead {
				continue
			}
			h := hs[o.O]
			var in Ev
			code, what := e.guarded(c, func() {
				switch h.u {
				case 1:
					in = Ev{K: 12, I: []int64{int64(o.O), 1, o.V, 0}}
					h.c.ReportCount(o.V)
				case 2:
					in = Ev{K: 12, I: []int64{int64(o.O), 2, o.V, 0}, F: 4}
					h.g.ReportGauge(math.Float64frombits(uint64(o.V)))
				case 3:
					in = Ev{K: 12, I: []int64{int64(o.O), 3, fbits(secOf(o.V)), 1}, F: 4}
					h.t.ReportTimer(time.Duration(o.V))
				default:
					if o.Dur {
						in = Ev{K: 12, I: []int64{int64(o.O), 3, fbits(secOf(o.Up)), o.N}, F: 4}
						h.h.DurationBucket(time.Duration(o.Up-1), time.Duration(o.Up)).ReportSamples(o.N)
					} else {
						in = Ev{K: 12, I: []int64{int64(o.O), 3, o.Up, o.N}, F: 4}
						up := math.Float64frombits(uint64(o.Up))
						h.h.ValueBucket(math.Nextafter(up, math.Inf(-1)), up).ReportSamples(o.N)
					}
				}
			})
			if code != 0 {
				setFail("conflict_never_nil", fmt.Sprintf("op %d: the metric returned by Allocate is not usable: code %d %s", oi, code, what))
			}
			out.in = append(out.in, in)
		case "reg":
			keys := c17Keys(o.Tags)
			s := []string{string(o.Name), string(o.Help)}
			s = append(s, keys...)
			in := Ev{K: 13, I: []int64{int64(o.U), int64(o.Ty)}, S: s}
			in.I = append(in.I, o.Spec...)
			in.F = flagsFrom(2, len(o.Spec))
			var err error
			nilVec := false
			code, what := e.guarded(c, func() {
				switch o.U {
				case 1:
					var v *prom.CounterVec
					v, err = e.rep.RegisterCounter(string(o.Name), keys, string(o.Help))
					nilVec = v == nil
				case 2:
					var v *prom.GaugeVec
					v, err = e.rep.RegisterGauge(string(o.Name), keys, string(o.Help))
					nilVec = v == nil
				default:
					var opts *tp.RegisterTimerOptions
					if o.Ty >= 0 {
						opts = &tp.RegisterTimerOptions{TimerType: tp.TimerType(o.Ty)}
						if len(o.Spec) > 0 {
							opts.HistogramBuckets = f64s(o.Spec)
						}
					}
					var u tp.TimerUnion
					u, err = e.rep.RegisterTimer(string(o.Name), keys, string(o.Help), opts)
					nilVec = u.Histogram == nil && u.Summary == nil
				}
			})
			ev := Ev{K: 10, I: []int64{4}}
			switch {
			case code != 0:
				ev.I = []int64{int64(code)}
				setFail("conflict_never_nil", fmt.Sprintf("op %d: Register* panicked or invoked the callback: code %d %s", oi, code, what))
			case err != nil:
				ev.I = []int64{5, c17Class(err)}
			case nilVec:
				ev.I = []int64{6}
				out.f17, out.f17what = true, fmt.Sprintf("op %d (RegisterTimer %q): nil vector returned with a nil error", oi, o.Name)
			}
			out.in = append(out.in, in)
			out.obs = append(out.obs, ev)
		}
	}
	if e.cleanup != nil {
		e.cleanup()
	}
	out.obs = append(out.obs, Ev{K: 11, I: append([]int64{}, e.cbLog...)})
	g, fams, nerr := c17Gather(e.reg)
	out.fams = fams
	out.obs = append(out.obs, g...)
	if nerr != 0 {
		setFail("values", "Gather returned an error")
	}
	out.params = []int64{1, int64(c.TimerType), c.CbMask, e.cbObs}
	if out.fail == "" && !out.f17 && len(e.cbLog) == 0 && e.cbObs == 1 {
		if pred, w := c17CheckDirectValues(c, fams, rb); w != "" {
			setFail(pred, w)
		}
	}
	return
}

// c17CheckDirectValues: the value part of the property for histories on the
// reporter API in which nothing conflicts (one kind, key set and bucket
// specification per name; the callback was never invoked).  Several handles
// may have been allocated for one (name, tags): they are the same series - a
// counter shows the sum over all of them, a gauge the latest report through
// any of them, a timer / histogram every observation.
func c17CheckDirectValues(c *c17Case, fams []*dto.MetricFamily, defb []int64) (string, string) {
	if len(c.Pre) > 0 || (c.TimerType != 0 && c.TimerType != 1) {
		return "", ""
	}
	type fam struct {
		u          int
		keys, spec string
	}
	famOf := map[string]fam{}
	var hs []*c17Obj // one per handle
	series := map[string]*c17Obj{}
	var order []*c17Obj
	for oi, o := range c.Ops {
		switch o.Op {
		case "reg":
			return "", ""
		case "alloc":
			u := o.U
			f := fam{u, strings.Join(c17Keys(o.Tags), "\x00"), fmt.Sprint(o.Spec)}
			if g, ok := famOf[string(o.Name)]; ok && g != f {
				return "", ""
			}
			famOf[string(o.Name)] = f
			id := strings.Join(c17NameTags(o.Name, o.Tags), "\x00")
			s := series[id]
			if s == nil {
				s = &c17Obj{u: u, name: string(o.Name), tags: o.Tags, spec: o.Spec}
				if u >= 4 && len(o.Spec) == 0 {
					return "", "" // empty specification: Prometheus substitutes its own bounds
				}
				series[id] = s
				order = append(order, s)
			}
			hs = append(hs, s)
		case "rep":
			if o.O >= len(hs) {
				continue
			}
			s := hs[o.O]
			switch s.u {
			case 1:
				s.sum += o.V
			case 2:
				s.last, s.seq = o.V, oi+1
			case 3:
				s.samp = append(s.samp, o.V)
			default:
				for n := int64(0); n < o.N; n++ {
					s.samp = append(s.samp, o.Up)
				}
				s.durObs = s.durObs || o.Dur
			}
		}
	}
	byName := map[string]*dto.MetricFamily{}
	for _, f := range fams {
		byName[f.GetName()] = f
	}
	for _, s := range order {
		f := byName[s.name]
		if f == nil {
			return "values", fmt.Sprintf("no family %q gathered", s.name)
		}
		var m *dto.Metric
		for _, x := range f.GetMetric() {
			ok := len(x.GetLabel()) == len(s.tags)
			for i := 0; ok && i < len(s.tags); i++ {
				ok = x.GetLabel()[i].GetName() == string(s.tags[i][0]) && x.GetLabel()[i].GetValue() == string(s.tags[i][1])
			}
			if ok {
				m = x
			}
		}
		if m == nil {
			return "series_per_tag_values", fmt.Sprintf("no series of %q with labels %v", s.name, s.tags)
		}
		obs := func(v int64) float64 {
			if s.u == 3 || s.durObs {
				return secOf(v)
			}
			return math.Float64frombits(uint64(v))
		}
		switch s.u {
		case 1:
			if m.GetCounter().GetValue() != float64(s.sum) {
				return "values", fmt.Sprintf("counter %q%v: gathered %v, sum of the reports through all its handles %d", s.name, s.tags, m.GetCounter().GetValue(), s.sum)
			}
		case 2:
			if fbits(m.GetGauge().GetValue()) != s.last {
				return "values", fmt.Sprintf("gauge %q%v: gathered %v (bits %#x), latest report through any of its handles %v (bits %#x)", s.name, s.tags,
					m.GetGauge().GetValue(), uint64(fbits(m.GetGauge().GetValue())), math.Float64frombits(uint64(s.last)), uint64(s.last))
			}
		default:
			if s.u == 3 && c.TimerType == 0 {
				if m.GetSummary().GetSampleCount() != uint64(len(s.samp)) {
					return "values", fmt.Sprintf("timer %q%v: summary count %d, %d reports", s.name, s.tags, m.GetSummary().GetSampleCount(), len(s.samp))
				}
				continue
			}
			h := m.GetHistogram()
			if h.GetSampleCount() != uint64(len(s.samp)) {
				return "values", fmt.Sprintf("histogram %q%v: total %d, %d observations reported", s.name, s.tags, h.GetSampleCount(), len(s.samp))
			}
			for _, b := range h.GetBucket() {
				var want uint64
				for _, v := range s.samp {
					if obs(v) <= b.GetUpperBound() {
						want++
					}
				}
				if b.GetCumulativeCount() != want {
					return "values", fmt.Sprintf("histogram %q%v: cumulative count at %v is %d, observations <= bound: %d", s.name, s.tags, b.GetUpperBound(), b.GetCumulativeCount(), want)
				}
			}
		}
	}
	return "", ""
}

type c17Obj struct {
	u     int
	name  string
	tags  [][2]B
	spec  []int64
	dead  bool
	noop  bool // its first use invoked the callback
	c     tally.Counter
	g     tally.Gauge
	t     tally.Timer
	h     tally.Histogram
	sum   int64
	last  int64
	samp  []int64 // recorded values (bits or ns)
	seq   int     // index of the last update (gauges sharing one series: the latest wins)
	durObs bool   // direct mode: bucket bounds were given as durations
}

// c17Stuck counts the scope-mode cases that ended in a deadlock verdict; the
// goroutines of such cases are abandoned (they hold tally locks for ever).
var c17Stuck int

// c17RunScope runs the history in a goroutine that can be abandoned: a caller
// that recovers the callback's panic keeps using the scope (first uses,
// records, report passes, Close), and none of that may block for ever.  The
// verdict comes from the goroutine states (waitOrDeadlock), not from time.
func c17RunScope(c *c17Case) c17Out {
	var out c17Out
	var prog atomic.Value
	prog.Store("start")
	var wg sync.WaitGroup
	wg.Add(1)
	go func() {
		defer wg.Done()
		out = c17RunScopeBody(c, &prog)
	}()
	if dl := waitOrDeadlock(&wg, "uber-go/tally/v4."); dl != "" {
		c17Stuck++
		where := ""
		for _, ln := range strings.Split(dl, "\n") {
			if strings.Contains(ln, "tally/v4.(") && where == "" {
				where = strings.TrimSpace(ln)
			}
		}
		return c17Out{stuck: true, pred: "usable_after_conflict", params: []int64{0, int64(c.TimerType), c.CbMask, 1},
			fail: fmt.Sprintf("after the recovered panic of the error callback the scope is stuck: %s blocks for ever in %s", prog.Load(), where)}
	}
	return out
}

func c17RunScopeBody(c *c17Case, prog *atomic.Value) (out c17Out) {
	e, rb := c17NewEnv(c)
	out.in = c17PreEvents(c, rb)
	root, closer := tally.NewRootScope(tally.ScopeOptions{
		CachedReporter:         e.rep,
		Tags:                   c17Tags(c.RootTags),
		Separator:              tp.DefaultSeparator,
		SanitizeOptions:        &tp.DefaultSanitizerOpts,
		OmitCardinalityMetrics: true,
	}, 0)
	setFail := func(pred, what string) {
		if out.fail == "" {
			out.pred, out.fail = pred, what
		}
	}
	var objs []*c17Obj
	passBroken := false
	recovered := -1
	var root2 tally.Scope
	var closer2 io.Closer
	for oi := range c.Ops {
		o := &c.Ops[oi]
		prog.Store(fmt.Sprintf("op %d (%s u=%d %q, callback panics recovered so far: op %d)", oi, o.Op, o.U, o.Name, recovered))
		if o.Op == "decl" {
			ob := &c17Obj{u: o.U, name: string(o.Name), tags: o.Tags, spec: o.Spec}
			rt := root
			if o.Root == 1 {
				if root2 == nil {
					root2, closer2 = tally.NewRootScope(tally.ScopeOptions{CachedReporter: e.rep, Tags: c17Tags(c.RootTags), Separator: tp.DefaultSeparator,
						SanitizeOptions: &tp.DefaultSanitizerOpts, OmitCardinalityMetrics: true}, 0)
				}
				rt = root2
			}
			sc := rt
			if len(o.Via) > 0 {
				for _, layer := range o.Via {
					sc = sc.Tagged(c17Tags(layer))
				}
			} else if len(o.Tags) > 0 {
				sc = rt.Tagged(c17Tags(o.Tags))
			}
			in := Ev{K: 1, I: []int64{int64(o.U)}, S: c17NameTags(o.Name, o.Tags)}
			switch o.U {
			case 4:
				in.I = append(in.I, o.Spec...)
				in.F = flagsFrom(1, len(o.Spec))
			case 5:
				in.I = append(in.I, int64(len(o.Spec)))
				in.I = append(in.I, o.Spec...)
				for _, d := range o.Spec {
					in.I = append(in.I, fbits(secOf(d)))
				}
				in.I = append(in.I, fbits(secOf(math.MaxInt64)))
				in.F = flagsFrom(2+len(o.Spec), len(o.Spec)+1)
			}
			code, what := e.guarded(c, func() {
				switch o.U {
				case 1:
					ob.c = sc.Counter(string(o.Name))
				case 2:
					ob.g = sc.Gauge(string(o.Name))
				case 3:
					ob.t = sc.Timer(string(o.Name))
				default:
					ob.h = sc.Histogram(string(o.Name), c17Buckets(o))
				}
			})
			ob.dead = code >= 2
			if code == 2 {
				recovered = oi
			}
			ob.noop = code == 1
			if code == 3 {
				out.f17, out.f17what = true, fmt.Sprintf("op %d (first use u=%d %q): panic: %s", oi, o.U, o.Name, what)
			}
			objs = append(objs, ob)
			out.in = append(out.in, in)
			continue
		}
		if o.Op == "pass" {
			if passBroken {
				continue // a panic inside a pass leaves tally's registry locked
			}
			code, what := e.guarded(c, func() {
				tally.VerifReportOnce(root)
				if root2 != nil {
					tally.VerifReportOnce(root2)
				}
			})
			if code != 0 {
				passBroken = true
				setFail("conflict_never_nil", fmt.Sprintf("op %d: report pass: code %d %s", oi, code, what))
			}
			out.in = append(out.in, Ev{K: 7})
			continue
		}
		if o.O >= len(objs) || objs[o.O].dead {
			continue
		}
		ob := objs[o.O]
		var in Ev
		code, what := e.guarded(c, func() {
			switch {
			case o.Op == "inc" && ob.u == 1:
				in = Ev{K: 2, I: []int64{int64(o.O), o.V}}
				ob.c.Inc(o.V)
				ob.sum += o.V
			case o.Op == "upd" && ob.u == 2:
				in = Ev{K: 3, I: []int64{int64(o.O), o.V}, F: 2}
				ob.g.Update(math.Float64frombits(uint64(o.V)))
				ob.last, ob.seq = o.V, oi+1
			case o.Op == "rec" && ob.u == 3:
				in = Ev{K: 4, I: []int64{int64(o.O), o.V, fbits(secOf(o.V))}, F: 4}
				ob.t.Record(time.Duration(o.V))
				ob.samp = append(ob.samp, o.V)
			case o.Op == "recv" && ob.u == 4:
				in = Ev{K: 5, I: []int64{int64(o.O), o.V}, F: 2}
				ob.h.RecordValue(math.Float64frombits(uint64(o.V)))
				ob.samp = append(ob.samp, o.V)
			case o.Op == "recd" && ob.u == 5:
				in = Ev{K: 6, I: []int64{int64(o.O), o.V}}
				ob.h.RecordDuration(time.Duration(o.V))
				ob.samp = append(ob.samp, o.V)
			}
		})
		if code != 0 {
			setFail("conflict_never_nil", fmt.Sprintf("op %d (%s): code %d %s", oi, o.Op, code, what))
		}
		if in.K != 0 {
			out.in = append(out.in, in)
		}
	}
	if e.cleanup != nil {
		e.cleanup()
	}
	out.obs = append(out.obs, Ev{K: 11, I: append([]int64{}, e.cbLog...)})
	prog.Store(fmt.Sprintf("Gather (callback panics recovered so far: op %d)", recovered))
	g, fams, nerr := c17Gather(e.reg)
	out.fams = fams
	out.obs = append(out.obs, g...)
	if nerr != 0 {
		setFail("values", "Gather returned an error")
	}
	out.params = []int64{0, int64(c.TimerType), c.CbMask, e.cbObs}
	if out.fail == "" && c17Consistent(c) {
		if pred, w := c17CheckValues(c, c17MergeSeries(objs), fams, rb); w != "" {
			setFail(pred, w)
		}
	}
	if !passBroken {
		prog.Store(fmt.Sprintf("Close of the root scope (callback panics recovered so far: op %d)", recovered))
		if code, what := e.guarded(c, func() {
			closer.Close()
			if closer2 != nil {
				closer2.Close()
			}
		}); code != 0 {
			setFail("conflict_never_nil", fmt.Sprintf("closing the root scope: code %d %s", code, what))
		}
	}
	return
}

// c17Consistent: no name is used for two kinds / key sets / bucket specs, no
// (name, tag values) pair is declared twice, nothing pre-registered clashes.
// c17MergeSeries: objects with the same name and tag values (first used through
// different root scopes of one reporter) feed ONE series: the counter shows the
// sum over all of them, the gauge the latest update, the timer / histogram all
// records.
func c17MergeSeries(objs []*c17Obj) []*c17Obj {
	var out []*c17Obj
	at := map[string]*c17Obj{}
	for _, ob := range objs {
		if ob.dead {
			continue
		}
		id := ob.name + "\x00" + fmt.Sprint(ob.tags)
		m := at[id]
		if m == nil {
			cp := *ob
			cp.samp = append([]int64{}, ob.samp...)
			at[id] = &cp
			out = append(out, &cp)
			continue
		}
		m.sum += ob.sum
		m.samp = append(m.samp, ob.samp...)
		if ob.seq > m.seq {
			m.last, m.seq = ob.last, ob.seq
		}
	}
	return out
}

func c17Consistent(c *c17Case) bool {
	type fam struct {
		u    int
		keys string
		spec string
	}
	fams := map[string]fam{}
	seen := map[string]bool{}
	for _, p := range c.Pre {
		fams[string(p.Name)] = fam{u: -1}
	}
	if c.TimerType != 0 && c.TimerType != 1 {
		return false
	}
	for _, o := range c.Ops {
		if o.Op != "decl" {
			continue
		}
		f := fam{o.U, strings.Join(c17Keys(o.Tags), "\x00"), fmt.Sprint(o.Spec)}
		if g, ok := fams[string(o.Name)]; ok && g != f {
			return false
		}
		fams[string(o.Name)] = f
		id := fmt.Sprint(o.Root, "\x00") + strings.Join(c17NameTags(o.Name, o.Tags), "\x00")
		if seen[id] {
			return false
		}
		seen[id] = true
	}
	return true
}

// c17CheckValues is the direct predicate of the value part of the property.
func c17CheckValues(c *c17Case, objs []*c17Obj, fams []*dto.MetricFamily, defb []int64) (string, string) {
	byName := map[string]*dto.MetricFamily{}
	for _, f := range fams {
		if byName[f.GetName()] != nil {
			return "series_per_tag_values", fmt.Sprintf("family %q gathered twice", f.GetName())
		}
		byName[f.GetName()] = f
	}
	perName := map[string]int{}
	for _, ob := range objs {
		if !ob.dead {
			perName[ob.name]++
		}
	}
	for _, ob := range objs {
		if ob.dead {
			continue
		}
		f := byName[ob.name]
		if f == nil {
			return "values", fmt.Sprintf("no family %q gathered", ob.name)
		}
		if len(f.GetMetric()) != perName[ob.name] {
			return "series_per_tag_values", fmt.Sprintf("family %q has %d series for %d objects with distinct tag values", ob.name, len(f.GetMetric()), perName[ob.name])
		}
		var m *dto.Metric
		for _, x := range f.GetMetric() {
			ok := len(x.GetLabel()) == len(ob.tags)
			for i := 0; ok && i < len(ob.tags); i++ {
				ok = x.GetLabel()[i].GetName() == string(ob.tags[i][0]) && x.GetLabel()[i].GetValue() == string(ob.tags[i][1])
			}
			if ok {
				m = x
			}
		}
		if m == nil {
			return "series_per_tag_values", fmt.Sprintf("no series of %q with labels %v", ob.name, ob.tags)
		}
		switch ob.u {
		case 1:
			if f.GetType() != dto.MetricType_COUNTER || m.GetCounter().GetValue() != float64(ob.sum) {
				return "values", fmt.Sprintf("counter %q%v: gathered %v, sum of increments %d", ob.name, ob.tags, m.GetCounter().GetValue(), ob.sum)
			}
		case 2:
			if f.GetType() != dto.MetricType_GAUGE || fbits(m.GetGauge().GetValue()) != ob.last {
				return "values", fmt.Sprintf("gauge %q%v: gathered bits %#x, last update %#x", ob.name, ob.tags, fbits(m.GetGauge().GetValue()), ob.last)
			}
		case 3:
			n := uint64(len(ob.samp))
			if c.TimerType == 0 {
				if f.GetType() != dto.MetricType_SUMMARY || m.GetSummary().GetSampleCount() != n {
					return "values", fmt.Sprintf("timer %q%v: summary count %d, %d records", ob.name, ob.tags, m.GetSummary().GetSampleCount(), n)
				}
			} else {
				if f.GetType() != dto.MetricType_HISTOGRAM || m.GetHistogram().GetSampleCount() != n {
					return "values", fmt.Sprintf("timer %q%v: histogram count %d, %d records", ob.name, ob.tags, m.GetHistogram().GetSampleCount(), n)
				}
				bs := m.GetHistogram().GetBucket()
				if len(bs) != len(defb) && len(defb) > 0 {
					return "values", fmt.Sprintf("timer %q: %d bounds gathered, %d configured", ob.name, len(bs), len(defb))
				}
				for _, b := range bs {
					var want uint64
					for _, d := range ob.samp {
						if secOf(d) <= b.GetUpperBound() {
							want++
						}
					}
					if b.GetCumulativeCount() != want {
						return "values", fmt.Sprintf("timer %q%v: cumulative count at %v is %d, records <= bound: %d", ob.name, ob.tags, b.GetUpperBound(), b.GetCumulativeCount(), want)
					}
				}
			}
		default:
			h := m.GetHistogram()
			if f.GetType() != dto.MetricType_HISTOGRAM || h.GetSampleCount() != uint64(len(ob.samp)) {
				return "values", fmt.Sprintf("histogram %q%v: total %d, %d samples", ob.name, ob.tags, h.GetSampleCount(), len(ob.samp))
			}
			if len(h.GetBucket()) != len(ob.spec) {
				return "values", fmt.Sprintf("histogram %q: %d bounds gathered, spec has %d", ob.name, len(h.GetBucket()), len(ob.spec))
			}
			for j, b := range h.GetBucket() {
				var want uint64
				var shown float64
				if ob.u == 4 {
					shown = math.Float64frombits(uint64(ob.spec[j]))
					for _, v := range ob.samp {
						if math.Float64frombits(uint64(v)) <= shown {
							want++
						}
					}
				} else {
					shown = secOf(ob.spec[j])
					for _, d := range ob.samp {
						if d <= ob.spec[j] {
							want++
						}
					}
				}
				if b.GetUpperBound() != shown || b.GetCumulativeCount() != want {
					return "values", fmt.Sprintf("histogram %q%v: bound %v (spec %v) cumulative count %d, samples <= bound: %d",
						ob.name, ob.tags, b.GetUpperBound(), shown, b.GetCumulativeCount(), want)
				}
			}
		}
	}
	return "", ""
}

// ---------------------------------------------------------------- concurrent first uses

// c17RunConc: per round, G goroutines leave a spin barrier together and
// first-use the SAME name (same tag keys, tag value = goroutine index) at once,
// then report through what they got.  Nothing conflicts, so: no callback
// invocation, no panic, and after a report pass every series is there with
// its value.  The events are those of the sequential history "round by round,
// goroutine by goroutine" — the model's answer does not depend on the order.
func c17RunConc(c *c17Case) (out c17Out) {
	if runtime.GOMAXPROCS(0) < 2 {
		runtime.GOMAXPROCS(4)
	}
	env := *c
	env.Mode, env.Cb, env.CbMask, env.Wrap = 1, "fn", 0, false
	e, rb := c17NewEnv(&env)
	out.in = c17PreEvents(&env, rb)
	G, R := c.G, len(c.Kinds)
	var root tally.Scope
	var closer io.Closer
	if c.ViaScope {
		root, closer = tally.NewRootScope(tally.ScopeOptions{CachedReporter: e.rep, Separator: tp.DefaultSeparator,
			SanitizeOptions: &tp.DefaultSanitizerOpts, OmitCardinalityMetrics: true}, 0)
	}
	names := make([]string, R)
	for r := range names {
		names[r] = fmt.Sprintf("cc%d_k%d_r%d", c.Salt, c.Kinds[r], r)
	}
	tags := make([]map[string]string, G)
	scopes := make([]tally.Scope, G)
	for g := range tags {
		tags[g] = map[string]string{"g": fmt.Sprint(g)}
		if c.ViaScope {
			scopes[g] = root.Tagged(tags[g])
		}
	}
	spec := tally.ValueBuckets{0.25, 1}
	arrived := make([]int32, R)
	panics := make([]string, G)
	var wg sync.WaitGroup
	for g := 0; g < G; g++ {
		wg.Add(1)
		go func(g int) {
			defer wg.Done()
			for r := 0; r < R; r++ {
				atomic.AddInt32(&arrived[r], 1)
				for atomic.LoadInt32(&arrived[r]) < int32(G) {
				}
				func() {
					defer func() {
						if p := recover(); p != nil && panics[g] == "" {
							panics[g] = fmt.Sprintf("round %d: %v", r, p)
						}
					}()
					if c.ViaScope {
						switch c.Kinds[r] {
						case 1:
							scopes[g].Counter(names[r]).Inc(int64(g + 1))
						case 2:
							scopes[g].Gauge(names[r]).Update(float64(g) + 0.5)
						case 3:
							scopes[g].Timer(names[r]).Record(time.Duration(g+1) * time.Millisecond)
						default:
							h := scopes[g].Histogram(names[r], spec)
							for i := 0; i <= g; i++ {
								h.RecordValue(0.25)
							}
						}
						return
					}
					switch c.Kinds[r] {
					case 1:
						e.rep.AllocateCounter(names[r], tags[g]).ReportCount(int64(g + 1))
					case 2:
						e.rep.AllocateGauge(names[r], tags[g]).ReportGauge(float64(g) + 0.5)
					case 3:
						e.rep.AllocateTimer(names[r], tags[g]).ReportTimer(time.Duration(g+1) * time.Millisecond)
					default:
						e.rep.AllocateHistogram(names[r], tags[g], spec).ValueBucket(0, 0.25).ReportSamples(int64(g + 1))
					}
				}()
			}
		}(g)
	}
	wg.Wait()
	setFail := func(what string) {
		if out.fail == "" {
			out.pred, out.fail = "concurrent_first_use", what
		}
	}
	for g, p := range panics {
		if p != "" {
			setFail(fmt.Sprintf("goroutine %d panicked: %s", g, p))
		}
	}
	if c.ViaScope && out.fail == "" {
		tally.VerifReportOnce(root)
	}
	// the equivalent sequential history, for the model
	h := 0
	for r := 0; r < R; r++ {
		for g := 0; g < G; g++ {
			k := c.Kinds[r]
			in := Ev{K: 11, I: []int64{int64(k)}, S: []string{names[r], "g", fmt.Sprint(g)}}
			var rep Ev
			switch k {
			case 1:
				rep = Ev{K: 12, I: []int64{int64(h), 1, int64(g + 1), 0}}
			case 2:
				rep = Ev{K: 12, I: []int64{int64(h), 2, fbits(float64(g) + 0.5), 0}, F: 4}
			case 3:
				rep = Ev{K: 12, I: []int64{int64(h), 3, fbits(secOf(int64(time.Duration(g+1) * time.Millisecond))), 1}, F: 4}
			default:
				in.I = []int64{4, fbits(0.25), fbits(1)}
				in.F = 6
				rep = Ev{K: 12, I: []int64{int64(h), 3, fbits(0.25), int64(g + 1)}, F: 4}
			}
			out.in = append(out.in, in, rep)
			out.obs = append(out.obs, Ev{K: 10, I: []int64{0}})
			h++
		}
	}
	e.mu.Lock()
	cb := append([]int64{}, e.cbLog...)
	first := ""
	if len(e.cbErrs) > 0 {
		first = e.cbErrs[0].Error()
	}
	e.mu.Unlock()
	out.obs = append(out.obs, Ev{K: 11, I: cb})
	gv, fams, nerr := c17Gather(e.reg)
	out.fams = fams
	out.obs = append(out.obs, gv...)
	out.params = []int64{1, int64(c.TimerType), 0, 1}
	if len(cb) != 0 {
		setFail(fmt.Sprintf("%d registration errors reached the callback although nothing conflicts; first: %s", len(cb), first))
	}
	if nerr != 0 {
		setFail("Gather returned an error")
	}
	// direct predicate: every family has its G series with the recorded values
	byName := map[string]*dto.MetricFamily{}
	for _, f := range fams {
		byName[f.GetName()] = f
	}
	for r := 0; r < R && out.fail == ""; r++ {
		f := byName[names[r]]
		if f == nil || len(f.GetMetric()) != G {
			n := 0
			if f != nil {
				n = len(f.GetMetric())
			}
			setFail(fmt.Sprintf("%s: %d series gathered, %d goroutines recorded with distinct tag values", names[r], n, G))
			break
		}
		for _, m := range f.GetMetric() {
			var g int
			fmt.Sscan(m.GetLabel()[0].GetValue(), &g)
			ok := true
			switch c.Kinds[r] {
			case 1:
				ok = m.GetCounter().GetValue() == float64(g+1)
			case 2:
				ok = m.GetGauge().GetValue() == float64(g)+0.5
			case 3:
				if c.TimerType == 0 {
					ok = m.GetSummary().GetSampleCount() == 1
				} else {
					ok = m.GetHistogram().GetSampleCount() == 1
				}
			default:
				hh := m.GetHistogram()
				ok = hh.GetSampleCount() == uint64(g+1) && len(hh.GetBucket()) == 2 && hh.GetBucket()[0].GetCumulativeCount() == uint64(g+1)
			}
			if !ok {
				setFail(fmt.Sprintf("%s{g=%d}: gathered value does not match what goroutine %d recorded", names[r], g, g))
			}
		}
	}
	if closer != nil && out.fail == "" {
		closer.Close()
	}
	return
}

// c17MayHitF17: some (name, label keys) is used both summary-flavoured and
// histogram-flavoured — the only way to reach the shared timers cache with
// the other flavour (finding F17 on the pinned tree).
func c17MayHitF17(c *c17Case) bool {
	type fl struct{ s, h bool }
	m := map[string]*fl{}
	for _, o := range c.Ops {
		if o.Op != "decl" && o.Op != "alloc" && o.Op != "reg" {
			continue
		}
		id := string(o.Name) + "\x00" + strings.Join(c17Keys(o.Tags), "\x00")
		f := m[id]
		if f == nil {
			f = &fl{}
			m[id] = f
		}
		ty := -2
		switch {
		case o.U >= 4:
			ty = 1
		case o.U == 3 && o.Op == "reg" && o.Ty >= 0:
			ty = o.Ty
		case o.U == 3:
			ty = c.TimerType
		}
		if ty == 0 {
			f.s = true
		} else if ty == 1 {
			f.h = true
		}
	}
	for _, f := range m {
		if f.s && f.h {
			return true
		}
	}
	return false
}

// ---------------------------------------------------------------- generators

var c17Names = []string{"x", "req_total", "A9_b", "lat", "_u", "m2"}
var c17KeyPool = []string{"a", "b", "host", "k_1"}
var c17ValsScope = []string{"v1", "v2", "", "X_9", "0"}
var c17ValsDirect = []string{"v1", "v2", "", "a b", "é", "x,y=z+", "0"}

var c17VBounds = []float64{-math.MaxFloat64, -1e300, -2.5, -1, -math.SmallestNonzeroFloat64, 0, math.SmallestNonzeroFloat64,
	0.001, 0.5, 1, 1.0000000000000002, 2, 1000, 1e300, math.MaxFloat64}
var c17DBounds = []int64{-5e9, -1, 0, 1, 1000, 1e6, 1500000, 1e9, 6e10, 36e11, 1 << 53, 1<<53 + 2, math.MaxInt64 - 1}

func (r *Rng) c17Subset(n, max int) []int {
	k := r.Range(1, max)
	pick := map[int]bool{}
	for len(pick) < k {
		pick[r.Intn(n)] = true
	}
	out := make([]int, 0, k)
	for i := range pick {
		out = append(out, i)
	}
	sort.Ints(out)
	return out
}

func c17GenVSpec(r *Rng) []int64 {
	var out []int64
	for _, i := range r.c17Subset(len(c17VBounds), 6) {
		out = append(out, fbits(c17VBounds[i]))
	}
	return out
}

// millisecond-granular bounds in (1s, 20s) for which time.Duration.Seconds()
// (whole seconds + fraction) and the documented float64(d)/float64(time.Second)
// differ by an ulp: a conversion that is not the documented one shows there
var c17OddMs = func() []int64 {
	var out []int64
	for ms := int64(1001); ms < 20000; ms++ {
		d := time.Duration(ms) * time.Millisecond
		if d.Seconds() != float64(d)/float64(time.Second) {
			out = append(out, int64(d))
		}
	}
	return out
}()

// strictly increasing durations whose seconds (with the overflow bucket's
// bound) are strictly increasing too — what Prometheus accepts
func c17GenDSpec(r *Rng) []int64 {
	var cand []int64
	if r.Chance(60) {
		// millisecond-granular and other non-round bounds
		n := r.Range(1, 6)
		for i := 0; i < n; i++ {
			switch x := r.Intn(10); {
			case x < 4 && len(c17OddMs) > 0:
				cand = append(cand, c17OddMs[r.Intn(len(c17OddMs))])
			case x < 7:
				cand = append(cand, int64(r.Range(1001, 19999))*int64(time.Millisecond))
			case x < 8:
				cand = append(cand, int64(r.Range(1, 999))*int64(time.Millisecond))
			case x < 9:
				cand = append(cand, int64(r.U64()%uint64(20*time.Second)))
			default:
				cand = append(cand, int64(r.U64()%uint64(400*time.Hour)))
			}
		}
		sort.Slice(cand, func(i, j int) bool { return cand[i] < cand[j] })
	} else {
		for _, i := range r.c17Subset(len(c17DBounds), 6) {
			cand = append(cand, c17DBounds[i])
		}
	}
	var out []int64
	last := math.Inf(-1)
	for _, d := range cand {
		if s := secOf(d); s > last && s < secOf(math.MaxInt64) {
			out = append(out, d)
			last = s
		}
	}
	if len(out) == 0 {
		out = []int64{1e9}
	}
	return out
}

// c17SpecOK: strictly increasing, finite; for durations also strictly
// increasing in seconds and below the overflow bucket's bound.
func c17SpecOK(u int, spec []int64) bool {
	if len(spec) == 0 {
		return false
	}
	last := math.Inf(-1)
	for i, x := range spec {
		var v float64
		if u == 5 {
			v = secOf(x)
			if i > 0 && x <= spec[i-1] {
				return false
			}
			if v >= secOf(math.MaxInt64) {
				return false
			}
		} else {
			v = math.Float64frombits(uint64(x))
			if math.IsNaN(v) || math.IsInf(v, 0) {
				return false
			}
		}
		if !(v > last) {
			return false
		}
		last = v
	}
	return true
}

func c17Sum(spec []int64) uint64 {
	var s uint64
	for _, x := range spec {
		s += uint64(x)
	}
	return s
}

// c17Collide returns a DIFFERENT valid specification of the same kind whose
// elements (nanoseconds / float64 bit patterns) have the same sum modulo 2^64,
// hence the same tally bucket identity (23 + 31*sum); nil if none was found.
func c17Collide(r *Rng, u int, spec []int64) []int64 {
	zero := int64(0) // 0ns, +0.0: adds nothing to the sum
	for try := 0; try < 12; try++ {
		out := append([]int64{}, spec...)
		switch r.Intn(4) {
		case 0: // move an amount from one element to another
			if len(out) < 2 {
				continue
			}
			i := r.Intn(len(out) - 1)
			j := i + 1 + r.Intn(len(out)-1-i)
			if u == 4 && (out[i] < 0 || out[j] < 0) {
				continue // keep to non-negative floats: their bit patterns are ordered like the values
			}
			gap := out[j] - out[i]
			if gap < 3 {
				continue
			}
			d := 1 + int64(r.U64()%uint64((gap-1)/2))
			if r.Bool() && d > 1 {
				d = (gap - 1) / 2
			}
			out[i] += d
			out[j] -= d
		case 1: // add or drop the zero bound
			has := -1
			for k, x := range out {
				if x == zero {
					has = k
				}
			}
			if has >= 0 {
				if len(out) < 2 {
					continue
				}
				out = append(out[:has], out[has+1:]...)
			} else {
				out = append(out, zero)
			}
		case 2: // split one element into two with the same sum
			k := r.Intn(len(out))
			x := out[k]
			if x < 4 {
				continue
			}
			a := x/2 - 1 - int64(r.U64()%uint64(x/4))
			out = append(out[:k], append([]int64{a, x - a}, out[k+1:]...)...)
		default: // merge two elements into their sum
			if len(out) < 2 {
				continue
			}
			k := r.Intn(len(out) - 1)
			if out[k] < 0 || out[k+1] < 0 || out[k] > math.MaxInt64-out[k+1] {
				continue
			}
			out = append(out[:k], append([]int64{out[k] + out[k+1]}, out[k+2:]...)...)
		}
		if u == 5 {
			sort.Slice(out, func(i, j int) bool { return out[i] < out[j] })
		} else {
			sort.Slice(out, func(i, j int) bool {
				return math.Float64frombits(uint64(out[i])) < math.Float64frombits(uint64(out[j]))
			})
		}
		if len(out) > 7 || !c17SpecOK(u, out) || c17Sum(out) != c17Sum(spec) || fmt.Sprint(out) == fmt.Sprint(spec) {
			continue
		}
		return out
	}
	return nil
}

func c17VSample(r *Rng, spec []int64) int64 {
	b := math.Float64frombits(uint64(spec[r.Intn(len(spec))]))
	var v float64
	switch r.Intn(7) {
	case 0:
		v = b
	case 1:
		v = math.Nextafter(b, math.Inf(1))
	case 2:
		v = math.Nextafter(b, math.Inf(-1))
	case 3:
		v = math.Copysign(0, -1)
	case 4:
		v = []float64{math.MaxFloat64, -math.MaxFloat64, 0, 1}[r.Intn(4)]
	default:
		v = math.Float64frombits(r.U64())
	}
	if math.IsNaN(v) || math.IsInf(v, 0) {
		v = b
	}
	return fbits(v)
}

func c17DSample(r *Rng, spec []int64) int64 {
	k := r.Intn(len(spec))
	b := spec[k]
	switch r.Intn(9) {
	case 0, 1:
		return b
	case 2:
		if b < math.MaxInt64 {
			return b + 1
		}
	case 3:
		if b > math.MinInt64 {
			return b - 1
		}
	case 4, 5:
		// strictly inside the bucket that ends at b
		lo := b
		if k > 0 {
			lo = spec[k-1]
		} else if b > math.MinInt64+int64(2*time.Second) {
			lo = b - int64(2*time.Second)
		}
		if lo < b-1 && b-lo > 0 {
			return lo + 1 + int64(r.U64()%uint64(b-lo-1))
		}
		return b
	case 6:
		return []int64{math.MaxInt64, math.MinInt64, 0, -1}[r.Intn(4)]
	case 7:
		return int64(r.U64())
	}
	return int64(r.U64() % (1 << 42))
}

func c17TimerSample(r *Rng, defb []int64) int64 {
	if len(defb) > 0 && r.Chance(50) {
		// a duration whose seconds are at (or next to) a configured bound
		f := math.Float64frombits(uint64(defb[r.Intn(len(defb))]))
		d := int64(math.Round(f * 1e9))
		return d + int64(r.Intn(3)) - 1
	}
	switch r.Intn(4) {
	case 0:
		return int64(r.U64())
	case 1:
		return -int64(r.U64() % 5e9)
	}
	return int64(r.U64() % 2e10)
}

var c17GaugeVals = []float64{0, math.Copysign(0, -1), 1, -1.5, 1e300, math.MaxFloat64, math.Inf(1), math.Inf(-1), math.NaN(), 3.141592653589793, math.SmallestNonzeroFloat64}

func (r *Rng) c17Tags(keys []string, vals []string) [][2]B {
	out := make([][2]B, len(keys))
	for i, k := range keys {
		out[i] = [2]B{B(k), B(vals[r.Intn(len(vals))])}
	}
	return out
}

func (r *Rng) c17KeySet() []string {
	n := r.Intn(3)
	if n == 0 {
		return nil
	}
	var out []string
	for _, i := range r.c17Subset(len(c17KeyPool), n) {
		out = append(out, c17KeyPool[i])
	}
	return out
}

func c17GenDefB(r *Rng, c *c17Case) {
	switch r.Intn(6) {
	case 0:
		c.DefBMode = 0
	case 1:
		c.DefBMode = 2
	default:
		c.DefBMode = 1
		c.DefB = nil
		for _, i := range r.c17Subset(len(c17VBounds), 4) {
			c.DefB = append(c.DefB, fbits(c17VBounds[i]))
		}
	}
}

func c17ResolvedDefB(c *c17Case) []int64 {
	switch c.DefBMode {
	case 1:
		return c.DefB
	case 2:
		return nil
	}
	var out []int64
	for _, v := range tp.DefaultHistogramBuckets() {
		out = append(out, fbits(v))
	}
	return out
}

func c17GenScope(r *Rng, i int) c17Case {
	c := c17Case{Mode: 0, TimerType: r.Intn(2), Cb: "fn"}
	c17GenDefB(r, &c)
	if c.DefBMode == 2 {
		c.DefBMode = 0
	}
	inconsistent := r.Chance(15)
	if r.Chance(10) {
		c.Cb = []string{"cfgfn", "none", "log", "stderr"}[r.Intn(4)]
	}
	if inconsistent && c.Cb == "fn" && r.Chance(40) {
		c.CbMask = int64(r.U64() % 16)
	}
	type fam struct {
		name string
		u    int
		keys []string
		spec []int64
	}
	nf := r.Range(1, 4)
	var fams []fam
	names := append([]string{}, c17Names...)
	for j := 0; j < nf; j++ {
		k := r.Intn(len(names))
		f := fam{name: names[k], u: r.Range(1, 5), keys: r.c17KeySet()}
		names = append(names[:k], names[k+1:]...)
		if f.u == 4 {
			f.spec = c17GenVSpec(r)
		} else if f.u == 5 {
			f.spec = c17GenDSpec(r)
		}
		fams = append(fams, f)
	}
	if !inconsistent && len(names) > 0 && r.Chance(40) {
		// two histograms under the one root scope whose different specifications
		// have the same bucket identity (tally's identity of a specification is
		// additive in its elements): each must still be binned at its own bounds
		a := -1
		for j, f := range fams {
			if f.u >= 4 {
				a = j
			}
		}
		if a < 0 {
			a = r.Intn(nf)
			fams[a].u = 4 + r.Intn(2)
			if fams[a].u == 4 {
				fams[a].spec = c17GenVSpec(r)
			} else {
				fams[a].spec = c17GenDSpec(r)
			}
		}
		if s2 := c17Collide(r, fams[a].u, fams[a].spec); s2 != nil {
			k := r.Intn(len(names))
			f := fam{name: names[k], u: fams[a].u, keys: r.c17KeySet(), spec: s2}
			names = append(names[:k], names[k+1:]...)
			if r.Bool() {
				f.keys = fams[a].keys
			}
			fams = append(fams, f)
			nf++
			c.Collide = true
		}
	}
	if inconsistent && nf >= 2 {
		fams[nf-1].name = fams[0].name
		if r.Bool() {
			fams[nf-1].keys = fams[0].keys
		}
	}
	if r.Chance(20) {
		// two families (same kind) whose names and tag keys contain '_' so that
		// name + keys read alike: rpc_latency{method} / rpc{latency,method}, or
		// one name with other keys: requests{code_status} / requests{code,status}
		// (the latter is a tag-key conflict: callback, no-op metric)
		u := r.Range(1, 5)
		var spec []int64
		if u == 4 {
			spec = c17GenVSpec(r)
		} else if u == 5 {
			spec = c17GenDSpec(r)
		}
		i, j := 3, 4
		if r.Chance(35) {
			i, j = r.Intn(3), r.Intn(3)
			for j == i {
				j = r.Intn(3)
			}
		} else if r.Bool() {
			i, j = 4, 3
		}
		fams = append(fams, fam{name: c17Amb[i].name, u: u, keys: c17Amb[i].keys, spec: spec},
			fam{name: c17Amb[j].name, u: u, keys: c17Amb[j].keys, spec: spec})
		nf += 2
	}
	// the root scope carries tags of its own, and Tagged children override
	// them / each other (rightmost wins): separate series per effective values
	if r.Chance(30) {
		c.RootTags = [][2]B{{"env", "prod"}}
		if r.Bool() {
			c.RootTags = [][2]B{{"dc", "a"}, {"env", "prod"}}
		}
		for fi := range fams {
			if r.Chance(65) {
				ks := append([]string{"env"}, fams[fi].keys...)
				sort.Strings(ks)
				fams[fi].keys = ks
			}
		}
	}
	chains := len(c.RootTags) > 0 || r.Chance(25)
	// objects: per family 1..3 distinct value tuples
	type obj struct {
		f    int
		tags [][2]B
		root int
		via  [][][2]B
	}
	var pool []obj
	seen := map[string]bool{}
	// a second root scope on the same reporter first-uses some of the same
	// (name, tags): a second handle on an existing series
	second := !inconsistent && r.Chance(30)
	for fi, f := range fams {
		for k := r.Range(1, 3); k > 0; k-- {
			own := r.c17Tags(f.keys, c17ValsScope)
			for i := range own {
				if own[i][0] == "env" {
					own[i][1] = B([]string{"canary", "staging", "prod", "v1"}[r.Intn(4)])
				}
			}
			t := c17MergeTags(c.RootTags, own)
			var via [][][2]B
			if chains && len(own) > 0 {
				via = [][][2]B{own}
				if r.Bool() {
					// an intermediate child whose values the last Tagged overrides
					var mid [][2]B
					for _, kv := range own {
						if r.Bool() {
							mid = append(mid, [2]B{kv[0], B(c17ValsScope[r.Intn(len(c17ValsScope))])})
						}
					}
					if len(mid) > 0 {
						via = [][][2]B{mid, own}
					}
				}
			}
			tk := f.u // tally keeps one histogram per (scope, name), value or duration
			if tk == 5 {
				tk = 4
			}
			id := fmt.Sprint(tk, f.name, t)
			if seen[id] {
				continue
			}
			seen[id] = true
			pool = append(pool, obj{fi, t, 0, via})
			if second && r.Chance(60) {
				pool = append(pool, obj{fi, t, 1, via})
				c.Realloc = true
			}
		}
	}
	defb := c17ResolvedDefB(&c)
	var declared []obj
	sid := func(o obj) string { return fmt.Sprint(fams[o.f].name, o.tags) }
	pending := map[string]int{}  // gauge series -> object with an unreported update
	prev := map[string]int64{}   // gauge series -> bits of its latest update
	steps := r.Range(4, 36)
	for s := 0; s < steps; s++ {
		if len(pool) > 0 && (len(declared) == 0 || r.Chance(25)) {
			k := r.Intn(len(pool))
			ob := pool[k]
			pool = append(pool[:k], pool[k+1:]...)
			f := fams[ob.f]
			c.Ops = append(c.Ops, c17Op{Op: "decl", U: f.u, Name: B(f.name), Tags: ob.tags, Spec: f.spec, Root: ob.root, Via: ob.via})
			declared = append(declared, ob)
			continue
		}
		if r.Chance(12) {
			c.Ops = append(c.Ops, c17Op{Op: "pass"})
			pending = map[string]int{}
			continue
		}
		k := r.Intn(len(declared))
		f := fams[declared[k].f]
		switch f.u {
		case 1:
			v := []int64{0, 1, 2, 1000, 1 << 40}[r.Intn(5)]
			if r.Chance(30) {
				v = int64(r.U64() % (1 << 44))
			}
			c.Ops = append(c.Ops, c17Op{Op: "inc", O: k, V: v})
		case 2:
			v := c17GaugeVals[r.Intn(len(c17GaugeVals))]
			if r.Chance(30) {
				v = math.Float64frombits(r.U64())
			}
			id := sid(declared[k])
			if c.Realloc {
				// boundary values for a handle's first and repeated reports
				switch r.Intn(6) {
				case 0, 1:
					v = 0
				case 2:
					v = math.Copysign(0, -1)
				case 3:
					if p, ok := prev[id]; ok {
						v = math.Float64frombits(uint64(p))
					}
				}
			}
			if o, ok := pending[id]; ok && o != k {
				// two handles of one series must not both have an unreported update:
				// which one a pass delivers last is not part of the property
				c.Ops = append(c.Ops, c17Op{Op: "pass"})
				pending = map[string]int{}
			}
			pending[id] = k
			prev[id] = fbits(v)
			c.Ops = append(c.Ops, c17Op{Op: "upd", O: k, V: fbits(v)})
		case 3:
			c.Ops = append(c.Ops, c17Op{Op: "rec", O: k, V: c17TimerSample(r, defb)})
		case 4:
			c.Ops = append(c.Ops, c17Op{Op: "recv", O: k, V: c17VSample(r, f.spec)})
		case 5:
			c.Ops = append(c.Ops, c17Op{Op: "recd", O: k, V: c17DSample(r, f.spec)})
		}
	}
	c.Ops = append(c.Ops, c17Op{Op: "pass"})
	return c
}

// the enumerated conflict sequences: letter = kind (counter, gauge, timer,
// histogram) x key set ({a} | {a,b}); one name; the label values alternate so
// that equal letters give the same or a different series
func c17Seq(letters []int, timerType int, mask int64, cb string) c17Case {
	c := c17Case{Mode: 1, TimerType: timerType, Cb: cb, CbMask: mask, DefBMode: 1,
		DefB: []int64{fbits(0.001), fbits(0.5)}, Wrap: cb == "fn"}
	for p, l := range letters {
		u := l%4 + 1
		tags := [][2]B{{"a", B(fmt.Sprintf("v%d", p%2))}}
		if l/4 == 1 {
			tags = append(tags, [2]B{"b", "w"})
		}
		op := c17Op{Op: "alloc", U: u, Name: "x", Tags: tags}
		if u == 4 {
			op.Spec = []int64{fbits(0.25), fbits(1)}
		}
		c.Ops = append(c.Ops, op)
		use := c17Op{Op: "rep", O: p}
		switch u {
		case 1:
			use.V = int64(p + 1)
		case 2:
			use.V = fbits(float64(p) + 0.5)
		case 3:
			use.V = []int64{1e6, 3e8, 2e9, 500}[p%4]
		case 4:
			use.Up, use.N = fbits([]float64{0.25, 1, math.MaxFloat64}[p%3]), int64(p%2+1)
		}
		c.Ops = append(c.Ops, use)
	}
	return c
}

// (name, tag keys) pairs whose '_'-joined concatenations coincide although the
// pairs differ: one name with other keys, and different names.  Every pair is
// Prometheus-valid; a by-id cache must keep them apart.
var c17Amb = []struct {
	name string
	keys []string
}{
	{"requests", []string{"code_status"}},
	{"requests", []string{"code", "status"}},
	{"requests_code", []string{"status"}},
	{"rpc_latency", []string{"method"}},
	{"rpc", []string{"latency", "method"}},
}

// a word over (ambiguous pair x kind): letter = pair*4 + kind
func c17AmbSeq(letters []int, timerType int, mask int64, cb string) c17Case {
	c := c17Case{Mode: 1, TimerType: timerType, Cb: cb, CbMask: mask, DefBMode: 1,
		DefB: []int64{fbits(0.001), fbits(0.5)}, Wrap: cb == "fn"}
	for p, l := range letters {
		u := l%4 + 1
		pr := c17Amb[(l/4)%len(c17Amb)]
		var tags [][2]B
		for i, k := range pr.keys {
			v := "w"
			if i == 0 {
				v = fmt.Sprintf("v%d", p%2)
			}
			tags = append(tags, [2]B{B(k), B(v)})
		}
		op := c17Op{Op: "alloc", U: u, Name: B(pr.name), Tags: tags}
		if u == 4 {
			op.Spec = []int64{fbits(0.25), fbits(1)}
		}
		c.Ops = append(c.Ops, op)
		use := c17Op{Op: "rep", O: p}
		switch u {
		case 1:
			use.V = int64(p + 1)
		case 2:
			use.V = fbits(float64(p) + 0.5)
		case 3:
			use.V = []int64{1e6, 3e8, 2e9, 500}[p%4]
		case 4:
			use.Up, use.N = fbits([]float64{0.25, 1, math.MaxFloat64}[p%3]), int64(p%2+1)
		}
		c.Ops = append(c.Ops, use)
	}
	return c
}

// c17AfterPanic: a first use through a scope is rejected (name reused for
// another kind, or with other tag keys), the error callback PANICS, the caller
// recovers — as net/http does for a handler — and keeps using the same scope:
// a first use of that kind under a fresh name, a record, a report pass, Close.
func c17AfterPanic(a, b int, otherKeys bool, timerType int, cb string) c17Case {
	c := c17Case{Mode: 0, TimerType: timerType, Cb: cb, CbMask: -1, DefBMode: 1, DefB: []int64{fbits(0.001), fbits(0.5)}}
	t1 := [][2]B{{"a", "v1"}}
	t2 := t1
	if otherKeys {
		t2 = [][2]B{{"a", "v1"}, {"b", "w"}}
	}
	spec := func(u int) []int64 {
		if u == 4 {
			return []int64{fbits(0.25), fbits(1)}
		}
		return nil
	}
	rec := func(o, u int) c17Op {
		switch u {
		case 1:
			return c17Op{Op: "inc", O: o, V: 3}
		case 2:
			return c17Op{Op: "upd", O: o, V: fbits(2.5)}
		case 3:
			return c17Op{Op: "rec", O: o, V: 2e6}
		}
		return c17Op{Op: "recv", O: o, V: fbits(0.25)}
	}
	c.Ops = []c17Op{
		{Op: "decl", U: a, Name: "x", Tags: t1, Spec: spec(a)}, rec(0, a),
		{Op: "decl", U: b, Name: "x", Tags: t2, Spec: spec(b)}, rec(1, b),
		{Op: "decl", U: b, Name: "after", Tags: t2, Spec: spec(b)}, rec(2, b),
		{Op: "pass"},
		{Op: "decl", U: a, Name: "later", Tags: t1, Spec: spec(a)}, rec(3, a),
		{Op: "pass"},
	}
	return c
}

// c17GenRealloc: nothing conflicts, but a (name, tags) series is allocated
// again and again on the same reporter — what a re-acquired Tagged sub-scope or
// a second root scope does — and reports arrive through all its handles, with
// the boundary values of a fresh handle: 0, -0, a repeat of the series' latest value.
func c17GenRealloc(r *Rng, i int) c17Case {
	c := c17Case{Mode: 1, TimerType: i % 2, Cb: "fn", Wrap: r.Bool(), DefBMode: 1,
		DefB: []int64{fbits(0.001), fbits(0.5), fbits(2)}, Realloc: true}
	type ser struct {
		u    int
		name string
		tags [][2]B
		spec []int64
		prev int64
	}
	var sers []*ser
	names := append([]string{}, c17Names...)
	for k := r.Range(1, 3); k > 0; k-- {
		j := r.Intn(len(names))
		s := &ser{u: r.Range(1, 5), name: names[j], tags: r.c17Tags(r.c17KeySet(), c17ValsDirect)}
		if i%3 == 0 {
			s.u = 2
		}
		names = append(names[:j], names[j+1:]...)
		if s.u == 4 {
			s.spec = c17GenVSpec(r)
		} else if s.u == 5 {
			s.spec = c17GenDSpec(r)
		}
		sers = append(sers, s)
	}
	var hs []*ser
	alloc := func(s *ser) {
		c.Ops = append(c.Ops, c17Op{Op: "alloc", U: s.u, Name: B(s.name), Tags: s.tags, Spec: s.spec})
		hs = append(hs, s)
	}
	for _, s := range sers {
		alloc(s)
	}
	defb := c17ResolvedDefB(&c)
	for n := r.Range(4, 16); n > 0; n-- {
		if r.Chance(25) {
			alloc(sers[r.Intn(len(sers))])
			if r.Chance(50) {
				continue
			}
		}
		h := r.Intn(len(hs))
		if r.Chance(50) {
			h = len(hs) - 1 // the newest handle
		}
		s := hs[h]
		op := c17Op{Op: "rep", O: h}
		switch s.u {
		case 1:
			op.V = []int64{0, 1, 7, 1 << 33}[r.Intn(4)]
		case 2:
			v := c17GaugeVals[r.Intn(len(c17GaugeVals))]
			switch r.Intn(6) {
			case 0, 1:
				v = 0
			case 2:
				v = math.Copysign(0, -1)
			case 3:
				v = math.Float64frombits(uint64(s.prev))
			}
			op.V = fbits(v)
			s.prev = op.V
		case 3:
			op.V = c17TimerSample(r, defb)
		case 4:
			op.N = int64(r.Intn(4))
			op.Up = s.spec[r.Intn(len(s.spec))]
		default:
			op.Dur = true
			op.N = int64(r.Intn(4))
			op.Up = s.spec[r.Intn(len(s.spec))]
		}
		c.Ops = append(c.Ops, op)
	}
	return c
}

// c17MergeTags: rightmost wins, sorted by key (what Tagged() must yield).
func c17MergeTags(layers ...[][2]B) [][2]B {
	m := map[B]B{}
	for _, l := range layers {
		for _, kv := range l {
			m[kv[0]] = kv[1]
		}
	}
	out := make([][2]B, 0, len(m))
	for k, v := range m {
		out = append(out, [2]B{k, v})
	}
	sort.Slice(out, func(i, j int) bool { return out[i][0] < out[j][0] })
	return out
}

// c17TwoRep: two reporters built with the same options on ONE registry (the
// default registerer in real life; a reporter re-created on its registry).
// Reporter 0 first-uses kind a under a name, reporter 1 kind b under the same
// name and tag keys (its own bucket specification when otherSpec), both report,
// reporter 0 uses the name again.  Reporter 1's registration is rejected by
// the registry (AlreadyRegistered when help and keys coincide): callback,
// no-op metric - never the other reporter's vector with its bounds.
func c17TwoRep(a, b int, otherSpec, dur bool, timerType int, mask int64, cb string) c17Case {
	c := c17Case{Mode: 1, TimerType: timerType, Cb: cb, CbMask: mask, DefBMode: 1,
		DefB: []int64{fbits(0.01), fbits(0.1)}, Wrap: cb == "fn" || cb == "nil"}
	tg := [][2]B{{"k", "v"}}
	hu := 4
	s1 := []int64{fbits(0.01), fbits(0.1)}
	s2 := []int64{fbits(0.02), fbits(0.05), fbits(0.2)}
	if dur {
		hu = 5
		s1 = []int64{10e6, 100e6}
		s2 = []int64{20e6, 50e6, 200e6}
	}
	if !otherSpec {
		s2 = s1
	}
	mk := func(rep, u int, spec []int64) c17Op {
		op := c17Op{Op: "alloc", U: u, Name: "x", Tags: tg, Rep: rep}
		if u == 4 {
			op.U, op.Spec = hu, spec
		}
		return op
	}
	use := func(h, u int, spec []int64, k int) c17Op {
		switch u {
		case 1:
			return c17Op{Op: "rep", O: h, V: int64(3 + h)}
		case 2:
			return c17Op{Op: "rep", O: h, V: fbits(1.5 + float64(h))}
		case 3:
			return c17Op{Op: "rep", O: h, V: 60e6}
		}
		return c17Op{Op: "rep", O: h, Up: spec[k%len(spec)], N: int64(1 + h), Dur: dur}
	}
	c.Ops = []c17Op{
		mk(0, a, s1), use(0, a, s1, 0),
		mk(1, b, s2), use(1, b, s2, 1), use(1, b, s2, 0),
		mk(0, a, s1), use(2, a, s1, 1), use(0, a, s1, 1),
		mk(1, b, s2), use(3, b, s2, 2),
	}
	return c
}

func c17GenDirect(r *Rng, i int) c17Case {
	c := c17Case{Mode: 1, TimerType: []int{0, 1, 0, 1, 7}[r.Intn(5)], Cb: "fn", Wrap: r.Bool()}
	switch r.Intn(10) {
	case 0:
		c.Cb = "nil"
		c.CbMask = -1
	case 1:
		c.Cb = []string{"cfgfn", "none", "stderr", "log"}[r.Intn(4)]
	case 2:
		c.Cb = "cfgpanic"
		c.CbMask = -1
	case 3, 4:
		c.CbMask = int64(r.U64() % 64)
	case 5:
		c.CbMask = -1
	}
	if c.Cb != "fn" && c.Cb != "nil" {
		c.Wrap = false
		if c.TimerType == 7 {
			c.TimerType = 0
		}
	}
	c17GenDefB(r, &c)
	if c.Cb != "fn" && c.Cb != "nil" && c.DefBMode == 2 {
		c.DefBMode = 0 // Configuration cannot express an empty non-nil list
	}
	names := c17Names[:r.Range(1, 3)]
	keysets := [][]string{r.c17KeySet(), r.c17KeySet(), {"a"}}
	vspec := c17GenVSpec(r)
	if r.Chance(30) {
		// families registered by someone else on the same registry
		for k := r.Range(1, 2); k > 0; k-- {
			name := names[r.Intn(len(names))]
			dup := false
			for _, p := range c.Pre {
				dup = dup || string(p.Name) == name
			}
			if dup {
				continue
			}
			kind := r.Range(1, 4)
			f := c17Fam{Kind: kind, Name: B(name), Help: B(name + []string{" counter", " gauge", " summary", " histogram"}[r.Intn(4)])}
			if r.Chance(20) {
				f.Help = "somebody else's help"
			}
			for _, k := range keysets[r.Intn(len(keysets))] {
				f.Keys = append(f.Keys, B(k))
			}
			if kind == 4 {
				f.Bounds = vspec
			}
			c.Pre = append(c.Pre, f)
		}
	}
	tworep := r.Chance(30) // two reporters on the one registry
	nops := r.Range(2, 14)
	var hk []int // kind of each handle
	var hspec [][]int64
	for j := 0; j < nops; j++ {
		x := r.Intn(10)
		switch {
		case x < 4 || len(hk) == 0:
			u := r.Range(1, 5)
			keys := keysets[r.Intn(len(keysets))]
			op := c17Op{Op: "alloc", U: u, Name: B(names[r.Intn(len(names))]), Tags: r.c17Tags(keys, c17ValsDirect)}
			if u == 4 {
				op.Spec = vspec
				if r.Chance(30) {
					op.Spec = c17GenVSpec(r)
				}
				if r.Chance(5) {
					op.Spec = nil // empty spec: Prometheus substitutes its own default bounds
				}
			} else if u == 5 {
				op.Spec = c17GenDSpec(r)
			}
			if tworep {
				op.Rep = r.Intn(2)
			}
			c.Ops = append(c.Ops, op)
			hk = append(hk, u)
			hspec = append(hspec, op.Spec)
		case x < 8:
			h := r.Intn(len(hk))
			op := c17Op{Op: "rep", O: h}
			switch hk[h] {
			case 1:
				op.V = int64(r.U64() % (1 << 40))
			case 2:
				op.V = fbits(c17GaugeVals[r.Intn(len(c17GaugeVals))])
			case 3:
				op.V = c17TimerSample(r, c17ResolvedDefB(&c))
			case 4:
				op.N = int64(r.Intn(4))
				if len(hspec[h]) > 0 && r.Chance(70) {
					op.Up = hspec[h][r.Intn(len(hspec[h]))]
				} else {
					op.Up = fbits([]float64{math.MaxFloat64, 0.3, -7}[r.Intn(3)])
				}
			case 5:
				op.Dur = true
				op.N = int64(r.Intn(4))
				if r.Chance(70) {
					op.Up = hspec[h][r.Intn(len(hspec[h]))]
				} else {
					op.Up = []int64{math.MaxInt64, 12345, -3}[r.Intn(3)]
				}
			}
			c.Ops = append(c.Ops, op)
		default:
			u := r.Range(1, 3)
			name := names[r.Intn(len(names))]
			op := c17Op{Op: "reg", U: u, Name: B(name), Help: B(name + []string{" counter", " gauge", " summary", " histogram"}[r.Intn(4)])}
			if r.Chance(25) {
				op.Help = "custom help"
			}
			for _, k := range keysets[r.Intn(len(keysets))] {
				op.Tags = append(op.Tags, [2]B{B(k), ""})
			}
			if u == 3 {
				op.Ty = []int{-1, 0, 1, 7}[r.Intn(4)]
				if op.Ty >= 0 && r.Bool() {
					op.Spec = vspec
				}
			}
			if tworep {
				op.Rep = r.Intn(2)
			}
			c.Ops = append(c.Ops, op)
		}
	}
	return c
}

// the exact witnesses of finding F17
func c17Witnesses() []c17Case {
	tg := [][2]B{{"k", "v"}}
	spec := []int64{fbits(1), fbits(2)}
	return []c17Case{
		{Mode: 1, TimerType: 0, Cb: "fn", DefBMode: 0, Ops: []c17Op{
			{Op: "alloc", U: 3, Name: "x", Tags: tg}, {Op: "rep", O: 0, V: 1e9},
			{Op: "alloc", U: 4, Name: "x", Tags: tg, Spec: spec}, {Op: "rep", O: 1, Up: fbits(1), N: 1}}},
		{Mode: 1, TimerType: 0, Cb: "fn", DefBMode: 0, Ops: []c17Op{
			{Op: "alloc", U: 4, Name: "x", Tags: tg, Spec: spec}, {Op: "rep", O: 0, Up: fbits(1), N: 1},
			{Op: "alloc", U: 3, Name: "x", Tags: tg}, {Op: "rep", O: 1, V: 1e9}}},
		{Mode: 1, TimerType: 0, Cb: "fn", DefBMode: 0, Ops: []c17Op{
			{Op: "reg", U: 3, Ty: 1, Name: "x", Help: "h", Tags: tg},
			{Op: "alloc", U: 3, Name: "x", Tags: tg}, {Op: "rep", O: 0, V: 1e9}}},
		{Mode: 1, TimerType: 1, Cb: "fn", DefBMode: 0, Ops: []c17Op{
			{Op: "alloc", U: 4, Name: "x", Tags: tg, Spec: spec},
			{Op: "reg", U: 3, Ty: 0, Name: "x", Help: "h", Tags: tg}}},
		{Mode: 0, TimerType: 0, Cb: "none", DefBMode: 0, Ops: []c17Op{
			{Op: "decl", U: 3, Name: "x", Tags: tg}, {Op: "rec", O: 0, V: 1e9},
			{Op: "decl", U: 5, Name: "x", Tags: tg, Spec: []int64{1e9, 2e9}}, {Op: "recd", O: 1, V: 5e8}, {Op: "pass"}}},
	}
}

// ---------------------------------------------------------------- property

func c17Class0(c *c17Case) string {
	m := "scope"
	if c.Mode == 1 {
		m = "direct"
	} else if c.Mode == 2 {
		m = "concurrent"
		if c.ViaScope {
			m = "concurrent-scope"
		}
	}
	return fmt.Sprintf("%s/timer=%d/cb=%s", m, c.TimerType, c.Cb)
}

func init() {
	props["C17"] = func(ctx *Ctx) {
		ctx.Header("PromCorr")
		ctx.shardN = 400
		ctx.Res.Rule = "case = (mode, timer flavour, callback configuration, default bounds, pre-registered families, history); mode 0 = history through a tally root scope ending with a report pass, mode 1 = Allocate*/Register*/report calls on the reporter; enumerated conflict sequences are all words over (kind x key set) of the stated length; non-trivial = at least one series gathered or one callback invocation; distinct by case hash"
		stats := map[string]int{}
		// every case is run on the real code and judged by the direct predicate;
		// toCoq = false keeps a case out of the (slower) evaluation by the model
		toCoq := true
		one := func(c0 *c17Case, tag string) {
			cc := *c0 // recorded cases must not alias a variable the caller reuses
			c := &cc
			var out c17Out
			if c.Mode == 0 && c17Stuck >= 4 {
				return // four histories already ended in a deadlock verdict: enough witnesses
			}
			switch c.Mode {
			case 0:
				out = c17RunScope(c)
			case 2:
				out = c17RunConc(c)
			default:
				out = c17RunDirect(c)
			}
			may := c17MayHitF17(c)
			idx := ctx.Res.Evaluations
			term := gcase(idx, out.params, out.in, out.obs)
			if (out.f17 && may) || !toCoq || out.stuck {
				term = "" // (the pinned tree's behaviour is not the repaired model's)
			}
			key := ""
			if len(out.fams) > 0 || len(out.obs) > 0 && len(out.obs[0].I) > 0 {
				key = hashOf(c)
			}
			cls := tag + "/" + c17Class0(c)
			ctx.Case(c, term, cls, key)
			switch {
			case out.f17 && may:
				stats["f17_witnesses"]++
				ctx.FailKnown("F17", "conflict_never_nil", "timer/histogram name reuse: "+out.f17what, c, out.obs)
			case out.f17:
				ctx.Fail("conflict_never_nil", out.f17what, c, out.obs)
			case out.fail != "":
				ctx.Fail(out.pred, out.fail, c, out.obs)
			}
			if may {
				stats["flavour_reuse_cases"]++
			}
			if c.Collide {
				stats["equal_identity_spec_cases"]++
			}
			if c.Realloc {
				stats["second_handle_cases"]++
			}
		}
		if ctx.Replay != nil {
			var c c17Case
			if err := json.Unmarshal(ctx.Replay, &c); err != nil {
				fatal(err)
			}
			one(&c, "replay")
			return
		}
		for _, raw := range ctx.CorpusCases() {
			var c c17Case
			if json.Unmarshal(raw, &c) == nil && len(c.Ops) > 0 {
				one(&c, "corpus")
			}
		}
		for _, c := range c17Witnesses() {
			c := c
			one(&c, "witness")
		}
		// a recovered callback panic must leave the scope usable
		nap := 0
		for a := 1; a <= 4; a++ {
			for b := 1; b <= 4; b++ {
				for _, ok := range []bool{false, true} {
					if !ok && a == b {
						continue // the same object: nothing is rejected
					}
					for tt := 0; tt < 2; tt++ {
						for _, cb := range []string{"fn", "nil", "cfgpanic"} {
							c := c17AfterPanic(a, b, ok, tt, cb)
							toCoq = (nap+int(ctx.Seed))%3 == 0
							nap++
							one(&c, "afterpanic")
						}
					}
				}
			}
		}
		toCoq = true
		ctx.Res.Extra["recovered_panic_histories"] = nap
		// all conflict sequences
		maxLen := 4
		if ctx.Thorough() {
			maxLen = 5
		}
		nseq := 0
		var rec func(pre []int)
		rec = func(pre []int) {
			if len(pre) > 0 {
				nseq++
				// the longest words go to the model in rotation (1 in 4 quick, 1 in 3 thorough)
				toCoq = len(pre) < maxLen || (nseq+int(ctx.Seed))%ctx.N(4, 3) == 0
				for tt := 0; tt < 2; tt++ {
					c := c17Seq(pre, tt, 0, "fn")
					one(&c, fmt.Sprintf("seq%d", len(pre)))
					c = c17Seq(pre, tt, -1, "fn")
					one(&c, fmt.Sprintf("seq%d", len(pre)))
					if ctx.Thorough() || len(pre) <= 3 {
						c = c17Seq(pre, tt, int64(ctx.R.U64()%(1<<uint(len(pre)))), "fn")
						one(&c, fmt.Sprintf("seq%d", len(pre)))
					}
					if len(pre) <= 2 {
						for _, cb := range []string{"nil", "cfgfn", "none", "stderr", "log", "cfgpanic"} {
							m := int64(0)
							if cb == "nil" || cb == "cfgpanic" {
								m = -1
							}
							c := c17Seq(pre, tt, m, cb)
							one(&c, fmt.Sprintf("seq%d", len(pre)))
						}
					}
				}
			}
			if len(pre) == maxLen {
				return
			}
			for l := 0; l < 8; l++ {
				rec(append(append([]int{}, pre...), l))
			}
		}
		rec(nil)
		// words over names / tag keys that contain '_' such that name and keys of
		// different (name, key set) pairs concatenate alike: all words of length <= 2
		// (<= 3 thorough) over pair x kind, both timer flavours, returning,
		// panicking and randomly panicking callbacks; longer random words
		namb := 0
		nl := 4 * len(c17Amb)
		ambOne := func(w []int) {
			namb++
			toCoq = (namb+int(ctx.Seed))%4 == 0
			for tt := 0; tt < 2; tt++ {
				c := c17AmbSeq(w, tt, 0, "fn")
				one(&c, fmt.Sprintf("amb%d", len(w)))
				c = c17AmbSeq(w, tt, -1, "fn")
				one(&c, fmt.Sprintf("amb%d", len(w)))
				if len(w) >= 2 {
					c = c17AmbSeq(w, tt, 1+int64(ctx.R.U64()%(1<<uint(len(w))-1)), "fn")
					one(&c, fmt.Sprintf("amb%d", len(w)))
				}
			}
		}
		var recA func(pre []int)
		recA = func(pre []int) {
			if len(pre) > 0 {
				ambOne(pre)
			}
			if len(pre) == ctx.N(2, 3) {
				return
			}
			for l := 0; l < nl; l++ {
				recA(append(append([]int{}, pre...), l))
			}
		}
		recA(nil)
		for i := ctx.N(150, 3000); i > 0; i-- {
			w := make([]int, ctx.R.Range(3, 5))
			for k := range w {
				w[k] = ctx.R.Intn(nl)
			}
			ambOne(w)
		}
		ctx.Res.Extra["underscore_ambiguous_words"] = namb
		toCoq = true
		n := ctx.N(500, 12000)
		for i := 0; i < n; i++ {
			c := c17GenScope(ctx.R, i)
			one(&c, "scope")
		}
		n = ctx.N(500, 12000)
		for i := 0; i < n; i++ {
			c := c17GenDirect(ctx.R, i)
			one(&c, "direct")
		}
		// two reporters on one registry: every pair of kinds, same / other bucket
		// specification, value / duration bounds, both timer flavours, callbacks
		ntr := 0
		for a := 1; a <= 4; a++ {
			for b := 1; b <= 4; b++ {
				for v := 0; v < 4; v++ {
					if (a != 4 && b != 4) && v > 0 {
						continue // the specification variants only matter for histograms
					}
					for tt := 0; tt < 2; tt++ {
						for _, cb := range []string{"fn", "fn-panic", "fn-mask", "nil", "cfgfn", "none"} {
							m, k := int64(0), cb
							switch cb {
							case "fn-panic":
								m, k = -1, "fn"
							case "fn-mask":
								m, k = int64(1+ctx.R.Intn(3)), "fn"
							case "nil":
								m = -1
							}
							c := c17TwoRep(a, b, v&1 == 1, v&2 == 2, tt, m, k)
							toCoq = (ntr+int(ctx.Seed))%2 == 0
							ntr++
							one(&c, "tworep")
						}
					}
				}
			}
		}
		toCoq = true
		ctx.Res.Extra["two_reporter_histories"] = ntr
		// second (third ...) handles on existing series, nothing conflicting
		for i, n := 0, ctx.N(600, 15000); i < n; i++ {
			c := c17GenRealloc(ctx.R, i)
			toCoq = i%3 == 0
			one(&c, "realloc")
		}
		toCoq = true
		ctx.Res.Extra["deadlock_verdicts"] = c17Stuck
		// concurrent first uses: G goroutines, same name and tag keys, at once
		t0 := time.Now()
		budget := time.Duration(ctx.N(4, 30)) * time.Second
		nconc := ctx.N(1500, 20000)
		rounds := 0
		for i := 0; i < nconc && time.Since(t0) < budget; i++ {
			c := c17Case{Mode: 2, TimerType: i % 2, Cb: "fn", DefBMode: 1, DefB: []int64{fbits(0.001), fbits(0.5)},
				G: 2 + ctx.R.Intn(3), ViaScope: i%4 == 3, Salt: i}
			for k := ctx.R.Range(3, 6); k > 0; k-- {
				c.Kinds = append(c.Kinds, ctx.R.Range(1, 4))
			}
			rounds += len(c.Kinds)
			toCoq = i < ctx.N(40, 400)
			one(&c, "conc")
		}
		toCoq = true
		ctx.Res.Schedules = rounds
		ctx.Res.Extra["concurrent_rounds"] = rounds
		ctx.Res.Extra["conflict_sequences"] = nseq
		ctx.Res.Extra["conflict_max_len"] = maxLen
		for k, v := range stats {
			ctx.Res.Extra[k] = v
		}
	}
}
