package main

// C09: "... without panics and without deadlock", also after a FAULT: a first use whose reporter
// allocation panics (the bundled Prometheus reporter does so by default on a registration conflict), or
// whose bucket argument is of a type the library rejects with a panic, is recovered by the caller (as
// net/http recovers a handler); the scope must stay usable: later first uses of that kind, a report
// pass and Close complete.  Hangs are judged from goroutine states (waitOrDeadlock).

import (
	"fmt"
	"strings"
	"sync"
	"time"

	tally "github.com/uber-go/tally/v4"
)

type c09PanicAlloc struct{ *RecCached }

func (p *c09PanicAlloc) boom(name string) {
	if strings.Contains(name, "boom") {
		panic("allocation refused: " + name)
	}
}
func (p *c09PanicAlloc) AllocateCounter(name string, tags map[string]string) tally.CachedCount {
	p.boom(name)
	return p.RecCached.AllocateCounter(name, tags)
}
func (p *c09PanicAlloc) AllocateGauge(name string, tags map[string]string) tally.CachedGauge {
	p.boom(name)
	return p.RecCached.AllocateGauge(name, tags)
}
func (p *c09PanicAlloc) AllocateTimer(name string, tags map[string]string) tally.CachedTimer {
	p.boom(name)
	return p.RecCached.AllocateTimer(name, tags)
}
func (p *c09PanicAlloc) AllocateHistogram(name string, tags map[string]string, b tally.Buckets) tally.CachedHistogram {
	p.boom(name)
	return p.RecCached.AllocateHistogram(name, tags, b)
}

// c09OddBuckets: a Buckets implementation of the caller's own
type c09OddBuckets []float64

func (b c09OddBuckets) Len() int                     { return len(b) }
func (b c09OddBuckets) Less(i, j int) bool           { return b[i] < b[j] }
func (b c09OddBuckets) Swap(i, j int)                { b[i], b[j] = b[j], b[i] }
func (b c09OddBuckets) String() string               { return fmt.Sprint([]float64(b)) }
func (b c09OddBuckets) AsValues() []float64          { return b }
func (b c09OddBuckets) AsDurations() []time.Duration { return nil }

// c09AfterPanic: kind 0..3 = counter, gauge, timer, histogram with a reporter whose allocation panics
// for names containing "boom"; kind 4 = histogram with a bucket type of the caller's own on a plain
// reporter.  Returns what hung or went missing.
func c09AfterPanic(kind int) string {
	log := &Log{}
	opts := tally.ScopeOptions{OmitCardinalityMetrics: true}
	if kind == 4 {
		opts.Reporter = &RecReporter{L: log, Caps: caps{true, true}}
	} else {
		opts.CachedReporter = &c09PanicAlloc{&RecCached{L: log, Caps: caps{true, true}}}
	}
	root, closer := tally.VerifNewRootScope(opts, 0, 2)
	sc := root.SubScope("s")
	use := func(name string) (panicked bool) {
		defer func() {
			if recover() != nil {
				panicked = true
			}
		}()
		switch kind {
		case 0:
			sc.Counter(name).Inc(1)
		case 1:
			sc.Gauge(name).Update(1)
		case 2:
			sc.Timer(name).Record(time.Millisecond)
		case 3:
			sc.Histogram(name, tally.ValueBuckets{1, 2}).RecordValue(1)
		case 4:
			if strings.Contains(name, "boom") {
				sc.Histogram(name, c09OddBuckets{1, 2}).RecordValue(1)
			} else {
				sc.Histogram(name, tally.ValueBuckets{1, 2}).RecordValue(1)
			}
		}
		return false
	}
	what := []string{"counter", "gauge", "timer", "histogram", "histogram with a bucket type of the caller's own"}[kind]
	first := use("boom")
	var wg sync.WaitGroup
	wg.Add(1)
	stage := "another first use of that kind on the same scope"
	var mu sync.Mutex
	set := func(s string) { mu.Lock(); stage = s; mu.Unlock() }
	go func() {
		defer wg.Done()
		use("after")
		set("a second panicking first use")
		use("boom2")
		set("a first use of that kind by two goroutines")
		var w2 sync.WaitGroup
		for g := 0; g < 2; g++ {
			w2.Add(1)
			go func() { defer w2.Done(); use("later") }()
		}
		w2.Wait()
		set("a report pass")
		tally.VerifReportOnce(root)
		set("the root's Close")
		closer.Close()
	}()
	if dl := waitOrDeadlock(&wg, "uber-go/tally/v4."); dl != "" {
		mu.Lock()
		defer mu.Unlock()
		return fmt.Sprintf("first use of a %s panicked inside the library's first-use path (panic seen by the caller: %v) and the caller recovered; afterwards %s never completes: %s", what, first, stage, c14TrimDump(dl))
	}
	return ""
}

func c14TrimDump(s string) string {
	if len(s) > 1500 {
		return s[:1500] + " ..."
	}
	return s
}
