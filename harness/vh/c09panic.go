package main

// C09: "... without panics and without deadlock", also after a FAULT: a first use whose reporter
// allocation panics (the bundled Prometheus reporter does so by default on a registration conflict), or
// whose bucket argument is of a type the library rejects with a panic, is recovered by the caller (as
// net/http recovers a handler); the scope must stay usable: later first uses of that kind, a report
// pass and Close complete.  Hangs are judged from goroutine states (waitOrDeadlock).

import (
	"fmt"
	"strings"
	"sync"
	"sync/atomic"
	"time"

	tally "github.com/uber-go/tally/v4"
)

type c09PanicAlloc struct {
	*RecCached
	mu   sync.Mutex
	seen map[string]bool
}

// boom: names containing "boom" are always refused, names containing "once" the first time only
func (p *c09PanicAlloc) boom(name string) {
	if strings.Contains(name, "boom") {
		panic("allocation refused: " + name)
	}
	if strings.Contains(name, "once") {
		p.mu.Lock()
		first := !p.seen[name]
		if p.seen == nil {
			p.seen = map[string]bool{}
		}
		p.seen[name] = true
		p.mu.Unlock()
		if first {
			panic("allocation refused for now: " + name)
		}
	}
}
func (p *c09PanicAlloc) AllocateCounter(name string, tags map[string]string) tally.CachedCount {
	p.boom(name)
	return p.RecCached.AllocateCounter(name, tags)
}
func (p *c09PanicAlloc) AllocateGauge(name string, tags map[string]string) tally.CachedGauge {
	p.boom(name)
	return p.RecCached.AllocateGauge(name, tags)
}
func (p *c09PanicAlloc) AllocateTimer(name string, tags map[string]string) tally.CachedTimer {
	p.boom(name)
	return p.RecCached.AllocateTimer(name, tags)
}
func (p *c09PanicAlloc) AllocateHistogram(name string, tags map[string]string, b tally.Buckets) tally.CachedHistogram {
	p.boom(name)
	return p.RecCached.AllocateHistogram(name, tags, b)
}

// c09OddBuckets: a Buckets implementation of the caller's own
type c09OddBuckets []float64

func (b c09OddBuckets) Len() int                     { return len(b) }
func (b c09OddBuckets) Less(i, j int) bool           { return b[i] < b[j] }
func (b c09OddBuckets) Swap(i, j int)                { b[i], b[j] = b[j], b[i] }
func (b c09OddBuckets) String() string               { return fmt.Sprint([]float64(b)) }
func (b c09OddBuckets) AsValues() []float64          { return b }
func (b c09OddBuckets) AsDurations() []time.Duration { return nil }

// c09AfterPanic: kind 0..3 = counter, gauge, timer, histogram with a reporter whose allocation panics
// for names containing "boom"; kind 4 = histogram with a bucket type of the caller's own on a plain
// reporter.  Returns what hung or went missing.
func c09AfterPanic(kind int) string {
	log := &Log{}
	opts := tally.ScopeOptions{OmitCardinalityMetrics: true}
	if kind == 4 {
		opts.Reporter = &RecReporter{L: log, Caps: caps{true, true}}
	} else {
		opts.CachedReporter = &c09PanicAlloc{RecCached: &RecCached{L: log, Caps: caps{true, true}}}
	}
	root, closer := tally.VerifNewRootScope(opts, 0, 2)
	sc := root.SubScope("s")
	use := func(name string) (panicked bool) {
		defer func() {
			if recover() != nil {
				panicked = true
			}
		}()
		switch kind {
		case 0:
			sc.Counter(name).Inc(1)
		case 1:
			sc.Gauge(name).Update(1)
		case 2:
			sc.Timer(name).Record(time.Millisecond)
		case 3:
			sc.Histogram(name, tally.ValueBuckets{1, 2}).RecordValue(1)
		case 4:
			if strings.Contains(name, "boom") {
				sc.Histogram(name, c09OddBuckets{1, 2}).RecordValue(1)
			} else {
				sc.Histogram(name, tally.ValueBuckets{1, 2}).RecordValue(1)
			}
		}
		return false
	}
	what := []string{"counter", "gauge", "timer", "histogram", "histogram with a bucket type of the caller's own"}[kind]
	first := use("boom")
	var wg sync.WaitGroup
	wg.Add(1)
	stage := "another first use of that kind on the same scope"
	var mu sync.Mutex
	set := func(s string) { mu.Lock(); stage = s; mu.Unlock() }
	retryPanicked := true
	go func() {
		defer wg.Done()
		use("after")
		if kind < 4 {
			set("a first use whose allocation is refused once, then the same name again")
			use("once")
			retryPanicked = use("once")
		}
		set("a second panicking first use")
		use("boom2")
		set("a first use of that kind by two goroutines")
		var w2 sync.WaitGroup
		for g := 0; g < 2; g++ {
			w2.Add(1)
			go func() { defer w2.Done(); use("later") }()
		}
		w2.Wait()
		set("a report pass")
		tally.VerifReportOnce(root)
		set("the root's Close")
		closer.Close()
	}()
	if dl := waitOrDeadlock(&wg, "uber-go/tally/v4."); dl != "" {
		mu.Lock()
		defer mu.Unlock()
		return fmt.Sprintf("first use of a %s panicked inside the library's first-use path (panic seen by the caller: %v) and the caller recovered; afterwards %s never completes: %s", what, first, stage, c14TrimDump(dl))
	}
	if kind < 4 && !retryPanicked {
		// the second request for "once" returned a metric without a panic: what was recorded through it
		// must have reached the reporter (the root has been closed: everything is delivered)
		n := 0
		handles := map[int64]bool{}
		buckets := map[int64]bool{}
		for _, e := range log.Snapshot() {
			switch e.K {
			case 11, 12, 13, 14:
				if e.S[0] == "s.once" {
					handles[e.I[0]] = true
				}
			case 24:
				if handles[e.I[0]] {
					buckets[e.I[3]] = true
				}
			case 21, 22, 23:
				if handles[e.I[0]] {
					n++
				}
			case 26:
				if buckets[e.I[0]] {
					n++
				}
			}
		}
		if n == 0 {
			return fmt.Sprintf("the reporter refused (panicked in) the allocation of %s \"once\" on its first use and the caller recovered; the same name was then requested again, a metric was returned without a panic and recorded on, the root was closed: nothing recorded through it reached the reporter (%d allocations for that name)", what, len(handles))
		}
	}
	return ""
}

func c14TrimDump(s string) string {
	if len(s) > 1500 {
		return s[:1500] + " ..."
	}
	return s
}

// c09ClosePurge: goroutines close child scopes at the moment the root's Close purges them ("... any
// number of goroutines ... without panics"): released by the reporter's final Flush.  No panic in any
// Close, every Close returns.
func c09ClosePurge(rounds, nchild int) string {
	for r := 0; r < rounds; r++ {
		log := &Log{}
		var flushed int32
		rep := &RecReporter{L: log, Caps: caps{true, true}}
		start := make(chan struct{})
		rep.OnCall = func(k int) {
			if k == 6 && atomic.CompareAndSwapInt32(&flushed, 0, 1) {
				close(start) // the final report is done: the purge is next
			}
		}
		root, closer := tally.VerifNewRootScope(tally.ScopeOptions{OmitCardinalityMetrics: true, Reporter: rep}, 0, 4)
		kids := make([]tally.Scope, nchild)
		for i := range kids {
			kids[i] = root.Tagged(map[string]string{"k": fmt.Sprint(i)})
			kids[i].Counter("c").Inc(1)
		}
		var wg sync.WaitGroup
		var panicked atomic.Value
		for g := 0; g < 4; g++ {
			g := g
			wg.Add(1)
			go func() {
				defer wg.Done()
				defer func() {
					if p := recover(); p != nil {
						panicked.Store(fmt.Sprintf("Close of a child scope panicked: %v", p))
					}
				}()
				<-start
				for i := g; i < nchild; i += 4 {
					kids[i].(interface{ Close() error }).Close()
				}
			}()
		}
		wg.Add(1)
		go func() {
			defer wg.Done()
			defer func() {
				if p := recover(); p != nil {
					panicked.Store(fmt.Sprintf("the root's Close panicked: %v", p))
				}
			}()
			closer.Close()
		}()
		if dl := waitOrDeadlock(&wg, "uber-go/tally/v4."); dl != "" {
			return fmt.Sprintf("round %d: %d child scopes closed by 4 goroutines while the root's Close drops them: %s", r, nchild, c14TrimDump(dl))
		}
		if p := panicked.Load(); p != nil {
			return fmt.Sprintf("round %d: %d child scopes were closed by 4 goroutines at the moment the root's Close was dropping them: %v", r, nchild, p)
		}
	}
	return ""
}
