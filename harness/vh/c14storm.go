package main

// C14 helpers: a loopback UDP sink that decodes M3 batches, goroutine-dump
// inspection (hang evidence, leak check) and the uncontrolled storms.

import (
	"bytes"
	"fmt"
	"net"
	"runtime"
	"strings"
	"sync"
	"sync/atomic"
	"time"

	tally "github.com/uber-go/tally/v4"
	"github.com/uber-go/tally/v4/m3"
	customtransport "github.com/uber-go/tally/v4/m3/customtransports"
	m3thrift "github.com/uber-go/tally/v4/m3/thrift/v2"
	"github.com/uber-go/tally/v4/thirdparty/github.com/apache/thrift/lib/go/thrift"
)

// ---------------------------------------------------------------------------
// sink

type m3Sink struct {
	conn   *net.UDPConn
	binary bool
	mu     sync.Mutex
	vals   []int64
	closed int32
	served chan struct{}
}

func newM3Sink(binary bool) *m3Sink {
	conn, err := net.ListenUDP("udp", &net.UDPAddr{IP: net.IPv4(127, 0, 0, 1)})
	if err != nil {
		fatal(err)
	}
	conn.SetReadBuffer(4 << 20)
	return &m3Sink{conn: conn, binary: binary}
}

func (s *m3Sink) Addr() string { return s.conn.LocalAddr().String() }

func (s *m3Sink) Close() {
	if atomic.CompareAndSwapInt32(&s.closed, 0, 1) {
		s.conn.Close()
		if s.served != nil {
			<-s.served
		}
	}
}

// EmitMetricBatchV2 implements m3thrift.M3: user metrics are projected onto
// their value (count, timer, or the gauge truncated to an integer), the reporter's own tally.internal.* metrics onto -1.
func (s *m3Sink) EmitMetricBatchV2(batch m3thrift.MetricBatch) error {
	s.mu.Lock()
	for _, m := range batch.Metrics {
		if strings.HasPrefix(m.Name, "tally.internal") {
			s.vals = append(s.vals, -1)
		} else {
			switch m.Value.MetricType {
			case m3thrift.MetricType_GAUGE:
				s.vals = append(s.vals, int64(m.Value.Gauge))
			case m3thrift.MetricType_TIMER:
				s.vals = append(s.vals, m.Value.Timer)
			default:
				s.vals = append(s.vals, m.Value.Count)
			}
		}
	}
	s.mu.Unlock()
	return thrift.NewTTransportException(thrift.END_OF_FILE, "complete")
}

func (s *m3Sink) decode(pkt []byte) {
	trans, _ := customtransport.NewTBufferedReadTransport(bytes.NewBuffer(pkt))
	var proto thrift.TProtocol
	if s.binary {
		proto = thrift.NewTBinaryProtocolTransport(trans)
	} else {
		proto = thrift.NewTCompactProtocol(trans)
	}
	m3thrift.NewM3Processor(s).Process(proto, proto)
}

// Drain decodes every datagram already delivered to the socket (loopback
// delivery is synchronous with the sender's write) and returns the values.
func (s *m3Sink) Drain() []int64 {
	buf := make([]byte, 65536)
	for atomic.LoadInt32(&s.closed) == 0 {
		s.conn.SetReadDeadline(time.Now().Add(3 * time.Millisecond))
		n, err := s.conn.Read(buf)
		if err != nil {
			break
		}
		s.decode(append([]byte(nil), buf[:n]...))
	}
	s.mu.Lock()
	defer s.mu.Unlock()
	return append([]int64(nil), s.vals...)
}

// Serve reads in the background until the sink is closed (storms).
func (s *m3Sink) Serve() {
	s.served = make(chan struct{})
	go func() {
		defer close(s.served)
		buf := make([]byte, 65536)
		for {
			n, err := s.conn.Read(buf)
			if err != nil {
				return
			}
			s.decode(append([]byte(nil), buf[:n]...))
		}
	}()
}

func (s *m3Sink) Len() int {
	s.mu.Lock()
	defer s.mu.Unlock()
	return len(s.vals)
}

func (s *m3Sink) Values() []int64 {
	s.mu.Lock()
	defer s.mu.Unlock()
	return append([]int64(nil), s.vals...)
}

// ---------------------------------------------------------------------------
// goroutine dumps

func allStacks() string {
	buf := make([]byte, 1<<16)
	for {
		n := runtime.Stack(buf, true)
		if n < len(buf) {
			return string(buf[:n])
		}
		buf = make([]byte, 2*len(buf))
	}
}

const m3Frame = "github.com/uber-go/tally/v4/m3."

// frames of the packages below m3 (thriftudp, customtransports, thrift/...)
const m3SubFrame = "github.com/uber-go/tally/v4/m3/"

// m3Stacks returns the goroutines that are inside package m3 or one of its
// sub-packages (the transports).
func m3Stacks() string {
	var out []string
	for _, blk := range strings.Split(allStacks(), "\n\n") {
		if strings.Contains(blk, m3Frame) || strings.Contains(blk, m3SubFrame) {
			out = append(out, blk)
		}
	}
	return strings.Join(out, "\n\n")
}

// c14Dests builds the HostPorts of a reporter with extra destinations around
// the primary one. Kinds: 1 unreachable, before the primary; 2 unreachable,
// after it; 3 a second live sink after it; 4 a second live sink before it.
// The live extra sinks are returned (to be read and closed by the caller).
func c14Dests(primary string, binary bool, kinds []int) (hostports []string, live []*m3Sink) {
	var before, after []string
	for _, k := range kinds {
		s := newM3Sink(binary)
		switch k {
		case 1, 2:
			s.Close() // nobody listens there any more: connection refused
		default:
			live = append(live, s)
		}
		if k == 1 || k == 4 {
			before = append(before, s.Addr())
		} else {
			after = append(after, s.Addr())
		}
	}
	hostports = append(append(before, primary), after...)
	return
}

// m3LeakOf is m3Leak restricted to the goroutines whose stack mentions the
// given reporter (its pointer is the receiver of process(), timeLoop() and of
// every call in flight), plus goroutines started inside the transport packages.
func m3LeakOf(ptr string) string {
	var s string
	for k, t0 := 0, time.Now(); k < 400 && (k == 0 || time.Since(t0) < 400*time.Millisecond); k++ {
		var out []string
		for _, blk := range strings.Split(allStacks(), "\n\n") {
			if strings.Contains(blk, m3Frame) && strings.Contains(blk, ptr) {
				out = append(out, blk)
			} else if strings.Contains(blk, m3SubFrame) && !strings.Contains(blk, "tally/v4/m3.(*reporter)") {
				// a goroutine started inside the transports that belongs to no
				// reporter's own goroutines or calls: nothing may outlive Close there
				out = append(out, blk)
			}
		}
		if s = strings.Join(out, "\n\n"); s == "" {
			return ""
		}
		time.Sleep(500 * time.Microsecond)
	}
	return s
}

// m3Leak reports goroutines still inside package m3 (after Close has returned
// there must be none); exiting goroutines get 200 ms to disappear.
func m3Leak() string {
	var s string
	for k, t0 := 0, time.Now(); k < 400 && (k == 0 || time.Since(t0) < 400*time.Millisecond); k++ {
		if s = m3Stacks(); s == "" {
			return ""
		}
		time.Sleep(500 * time.Microsecond)
	}
	return s
}

// ---------------------------------------------------------------------------
// storms

type c14Storm struct {
	Storm     bool   `json:"storm"`
	Seed      uint64 `json:"seed"`
	Cap       int    `json:"cap"`
	Binary    bool   `json:"binary,omitempty"`
	Producers int    `json:"producers"`
	Flushers  int    `json:"flushers"`
	Closers   int    `json:"closers"`
	Calls     int    `json:"calls"`                   // per goroutine
	SinkMode  int    `json:"sink_mode"`               // 0 reachable, 1 closed mid-run, 2 unreachable
	Shared    bool   `json:"shared_bucket,omitempty"` // producers hammer one bucket handle (F14 region on the pinned tree)
	CloseAt   int    `json:"close_at"`                // calls the first closer waits for before closing (spread over the run)
	// Handle: all producers report unique values through ONE allocated handle of
	// this kind ("counter", "gauge", "timer"; "" = each goroutine its own mix)
	Handle string `json:"shared_handle,omitempty"`
	// Dests: extra destinations around the sink (see c14Dests); more than one
	// HostPort makes the reporter use the multi-destination transport
	Dests []int `json:"dests,omitempty"`
}

type c14StormOut struct {
	Panics    []string `json:"panics,omitempty"`
	Hang      string   `json:"hang,omitempty"`
	Leak      string   `json:"leak,omitempty"`
	NilCloses int      `json:"nil_closes"`
	ErrCloses int      `json:"err_closes"`
	Received  int      `json:"received"`
	Foreign   string   `json:"foreign,omitempty"`
}

func c14StormRun(sc *c14Storm) (out c14StormOut) {
	sink := newM3Sink(sc.Binary)
	sink.Serve()
	defer sink.Close()
	if sc.SinkMode == 2 {
		sink.Close()
	}
	proto := m3.Compact
	if sc.Binary {
		proto = m3.Binary
	}
	m3.VerifSetYield((func(int))(nil))
	hostports, live := c14Dests(sink.Addr(), sc.Binary, sc.Dests)
	for _, s := range live {
		defer s.Close()
	}
	r, err := m3.NewReporter(m3.Options{HostPorts: hostports, Service: "svc", Env: "test",
		MaxQueueSize: sc.Cap, Protocol: proto})
	if err != nil {
		fatal(err)
	}
	shared := r.AllocateHistogram("h", nil, tally.ValueBuckets{10}).ValueBucket(0, 10)
	sharedC := r.AllocateCounter("sc", nil)
	sharedG := r.AllocateGauge("sg", nil)
	sharedT := r.AllocateTimer("st", nil)
	var mu sync.Mutex
	var progress int64
	guard := func(what string, f func()) {
		defer func() {
			if e := recover(); e != nil {
				mu.Lock()
				out.Panics = append(out.Panics, fmt.Sprintf("%s: %v", what, e))
				mu.Unlock()
			}
		}()
		f()
	}
	var wg sync.WaitGroup
	var nils, errs int64
	start := make(chan struct{})
	for g := 0; g < sc.Producers; g++ {
		g := g
		rng := NewRng(sc.Seed*1000 + uint64(g))
		wg.Add(1)
		go func() {
			defer wg.Done()
			<-start
			ctr := r.AllocateCounter("c", nil)
			for k := 0; k < sc.Calls; k++ {
				v := int64(g+1)*1000000 + int64(k)
				atomic.AddInt64(&progress, 1)
				if sc.Shared {
					guard("ReportSamples", func() { shared.ReportSamples(v) })
					continue
				}
				switch sc.Handle {
				case "counter":
					guard("ReportCount", func() { sharedC.ReportCount(v) })
					continue
				case "gauge":
					guard("ReportGauge", func() { sharedG.ReportGauge(float64(v)) })
					continue
				case "timer":
					guard("ReportTimer", func() { sharedT.ReportTimer(time.Duration(v)) })
					continue
				}
				switch rng.Intn(6) {
				case 0:
					guard("AllocateCounter+ReportCount", func() {
						r.AllocateCounter(fmt.Sprintf("c%d", rng.Intn(4)), map[string]string{"g": fmt.Sprint(g)}).ReportCount(v)
					})
				case 1:
					guard("AllocateGauge+ReportGauge", func() { r.AllocateGauge("g", nil).ReportGauge(1.5) })
				case 2:
					guard("AllocateTimer+ReportTimer", func() { r.AllocateTimer("t", nil).ReportTimer(time.Millisecond) })
				case 3:
					guard("AllocateHistogram+ReportSamples", func() {
						r.AllocateHistogram("hh", nil, tally.DurationBuckets{time.Second}).DurationBucket(0, time.Second).ReportSamples(3)
					})
				default:
					guard("ReportCount", func() { ctr.ReportCount(v) })
				}
			}
		}()
	}
	for g := 0; g < sc.Flushers; g++ {
		wg.Add(1)
		go func() {
			defer wg.Done()
			<-start
			for k := 0; k < sc.Calls/4+1; k++ {
				atomic.AddInt64(&progress, 1)
				guard("Flush", func() { r.Flush() })
			}
		}()
	}
	for g := 0; g < sc.Closers; g++ {
		wg.Add(1)
		go func() {
			defer wg.Done()
			<-start
			for atomic.LoadInt64(&progress) < int64(sc.CloseAt) {
				runtime.Gosched()
				if atomic.LoadInt64(&progress) >= int64((sc.Producers)*sc.Calls) {
					break
				}
			}
			guard("Close", func() {
				if e := r.Close(); e == nil {
					atomic.AddInt64(&nils, 1)
				} else {
					atomic.AddInt64(&errs, 1)
				}
			})
		}()
	}
	if sc.SinkMode == 1 {
		wg.Add(1)
		go func() {
			defer wg.Done()
			<-start
			for atomic.LoadInt64(&progress) < int64(sc.CloseAt/2) {
				runtime.Gosched()
			}
			sink.Close()
		}()
	}
	fin := make(chan struct{})
	go func() { wg.Wait(); close(fin) }()
	close(start)
	select {
	case <-fin:
	case <-time.After(20 * time.Second):
		out.Hang = "storm goroutines still running after 20 s:\n" + m3Stacks()
		return
	}
	// a late Close: must return (nil if nobody closed, the error otherwise)
	late := make(chan error, 1)
	go func() {
		defer func() {
			if e := recover(); e != nil {
				mu.Lock()
				out.Panics = append(out.Panics, fmt.Sprintf("late Close: %v", e))
				mu.Unlock()
				late <- nil
			}
		}()
		late <- r.Close()
	}()
	select {
	case e := <-late:
		if e == nil && len(out.Panics) == 0 {
			nils++
		} else if e != nil {
			errs++
		}
	case <-time.After(20 * time.Second):
		out.Hang = "Close did not return within 20 s:\n" + m3Stacks()
		return
	}
	// calls after Close: no-ops that must not panic
	guard("ReportCount after Close", func() { r.AllocateCounter("late", nil).ReportCount(1) })
	guard("ReportSamples after Close", func() { shared.ReportSamples(1) })
	guard("Flush after Close", func() { r.Flush() })
	out.NilCloses, out.ErrCloses = int(nils), int(errs)
	out.Leak = m3Leak()
	// let the sink's reader work off its backlog (collection effort only: what
	// is not decoded counts as lost, which the predicate tolerates)
	for k, quiet, n := 0, 0, sink.Len(); k < 4000 && quiet < 6 && sc.SinkMode == 0; k++ {
		time.Sleep(time.Millisecond)
		if n2 := sink.Len(); n2 == n {
			quiet++
		} else {
			quiet, n = 0, n2
		}
	}
	vals := sink.Values()
	out.Received = len(vals)
	if (sc.Shared || sc.Handle != "") && sc.SinkMode == 0 {
		seen := map[int64]int{}
		for _, v := range vals {
			if v == -1 {
				continue
			}
			seen[v]++
			g, k := v/1000000, v%1000000
			if g < 1 || g > int64(sc.Producers) || k >= int64(sc.Calls) {
				out.Foreign = fmt.Sprintf("value %d was never reported", v)
			} else if seen[v] > 1 && out.Foreign == "" {
				out.Foreign = fmt.Sprintf("value %d was reported once and received %d times", v, seen[v])
			}
		}
	}
	return
}

func c14StormOne(ctx *Ctx, sc *c14Storm) {
	out := c14StormRun(sc)
	mode := []string{"reachable", "closed-mid-run", "unreachable"}[sc.SinkMode]
	cls := "storm-" + mode
	if sc.Shared {
		cls = "storm-shared-bucket"
	}
	if sc.Handle != "" {
		cls = "storm-shared-" + sc.Handle
	}
	if len(sc.Dests) > 0 {
		cls += fmt.Sprintf(" dests=%d", 1+len(sc.Dests))
	}
	ctx.Case(sc, "", cls, hashOf(sc))
	switch {
	case len(out.Panics) > 0:
		ctx.Fail("no_panic", "storm: "+strings.Join(out.Panics, "; "), sc, out)
	case out.Hang != "":
		ctx.Fail("no_hang", out.Hang, sc, out)
	case out.NilCloses != 1:
		ctx.Fail("second_close_returns_error", fmt.Sprintf("storm: %d Close calls returned nil, %d the error", out.NilCloses, out.ErrCloses), sc, out)
	case out.Leak != "":
		ctx.Fail("no_goroutine_left_after_close", "storm: after Close returned a goroutine of package m3 / its transports is still running:\n"+c14Trim(out.Leak), sc, out)
	case out.Foreign != "" && sc.Handle != "":
		ctx.Fail("delivered_values_were_reported", "storm on one "+sc.Handle+" handle used by all goroutines: "+out.Foreign, sc, out)
	case out.Foreign != "":
		ctx.FailKnown("F14", "delivered_values_were_reported", "storm on one bucket handle: "+out.Foreign, sc, out)
	}
}

// c14CloseRace: many short-lived reporters, a few goroutines reporting / flushing in
// a tight loop while another closes at a random moment: the window between
// "enter" and "send" is hit by brute force. One case = `Trials` reporters.
type c14Race struct {
	Storm     bool   `json:"storm"`
	CloseRace bool   `json:"close_race"`
	Seed      uint64 `json:"seed"`
	Trials    int    `json:"trials"`
}

func c14CloseRaceOne(ctx *Ctx, rc *c14Race) {
	rng := NewRng(rc.Seed)
	sink := newM3Sink(false)
	addr := sink.Addr()
	sink.Close() // unreachable: writes fail, nothing to decode
	m3.VerifSetYield((func(int))(nil))
	var panics []string
	var mu sync.Mutex
	hang := ""
	twoNil := 0
	for k := 0; k < rc.Trials && hang == "" && len(panics) == 0; k++ {
		r, err := m3.NewReporter(m3.Options{HostPorts: []string{addr}, Service: "svc", Env: "test", MaxQueueSize: []int{1, 8, 4096}[rng.Intn(3)]})
		if err != nil {
			fatal(err)
		}
		var stop int32
		var wg sync.WaitGroup
		var nils int64
		guard := func(what string, f func()) {
			defer func() {
				if e := recover(); e != nil {
					mu.Lock()
					panics = append(panics, fmt.Sprintf("trial %d %s: %v", k, what, e))
					mu.Unlock()
				}
			}()
			f()
		}
		np := 1 + rng.Intn(3)
		flusher := rng.Chance(30)
		ctr := r.AllocateCounter("c", nil)
		for g := 0; g < np; g++ {
			g := g
			wg.Add(1)
			go func() {
				defer wg.Done()
				for n := 0; atomic.LoadInt32(&stop) == 0 && n < 200000; n++ {
					if flusher && g == 0 {
						guard("Flush", func() { r.Flush() })
					} else {
						guard("ReportCount", func() { ctr.ReportCount(1) })
					}
				}
			}()
		}
		delay := rng.Intn(3000)
		closers := 1 + rng.Intn(2)
		for g := 0; g < closers; g++ {
			wg.Add(1)
			go func() {
				defer wg.Done()
				for n := 0; n < delay; n++ {
					runtime.Gosched()
				}
				guard("Close", func() {
					if r.Close() == nil {
						atomic.AddInt64(&nils, 1)
					}
				})
				atomic.StoreInt32(&stop, 1)
			}()
		}
		fin := make(chan struct{})
		go func() { wg.Wait(); close(fin) }()
		select {
		case <-fin:
		case <-time.After(20 * time.Second):
			hang = fmt.Sprintf("trial %d: goroutines still running after 20 s:\n%s", k, m3Stacks())
		}
		if nils != 1 && hang == "" && len(panics) == 0 {
			twoNil++
		}
	}
	ctx.Case(rc, "", "storm-close-race", hashOf(rc))
	switch {
	case len(panics) > 0:
		ctx.Fail("no_panic", "close race: "+strings.Join(panics, "; "), rc, nil)
	case hang != "":
		ctx.Fail("no_hang", hang, rc, nil)
	case twoNil > 0:
		ctx.Fail("second_close_returns_error", fmt.Sprintf("close race: in %d trials the number of Close calls that returned nil was not 1", twoNil), rc, nil)
	default:
		if leak := m3Leak(); leak != "" {
			ctx.Fail("no_goroutine_left_after_close", "close race: goroutines of package m3 left:\n"+leak, rc, nil)
		}
	}
}

// c14CloseStorm: "a second Close returns an error instead of panicking" with the
// Close calls really concurrent: on a fresh reporter `Closers` goroutines wait
// behind a barrier and call Close at the same moment; exactly one must get nil,
// all others the error, none may panic. One case = `Trials` reporters.
type c14CloseStorm struct {
	Storm      bool   `json:"storm"`
	CloseStorm bool   `json:"close_storm"`
	Seed       uint64 `json:"seed"`
	Trials     int    `json:"trials"`
	Closers    int    `json:"closers"`
}

func c14CloseStormOne(ctx *Ctx, cs *c14CloseStorm) {
	rng := NewRng(cs.Seed)
	sink := newM3Sink(false) // reachable; nobody reads
	defer sink.Close()
	m3.VerifSetYield((func(int))(nil))
	var mu sync.Mutex
	var panics []string
	hang, wrong := "", ""
	for k := 0; k < cs.Trials && hang == "" && wrong == "" && len(panics) == 0; k++ {
		r, err := m3.NewReporter(m3.Options{HostPorts: []string{sink.Addr()}, Service: "svc", Env: "test", MaxQueueSize: 1 + rng.Intn(16)})
		if err != nil {
			fatal(err)
		}
		if rng.Bool() {
			r.AllocateCounter("c", nil).ReportCount(1)
		}
		var ready, start int32
		var nils, errs int64
		var wg sync.WaitGroup
		for g := 0; g < cs.Closers; g++ {
			wg.Add(1)
			go func() {
				defer wg.Done()
				defer func() {
					if e := recover(); e != nil {
						mu.Lock()
						panics = append(panics, fmt.Sprintf("trial %d: Close panicked: %v", k, e))
						mu.Unlock()
					}
				}()
				atomic.AddInt32(&ready, 1)
				for n := 0; atomic.LoadInt32(&start) == 0; n++ {
					if n&1023 == 1023 {
						runtime.Gosched()
					}
				}
				if r.Close() == nil {
					atomic.AddInt64(&nils, 1)
				} else {
					atomic.AddInt64(&errs, 1)
				}
			}()
		}
		for atomic.LoadInt32(&ready) < int32(cs.Closers) {
			runtime.Gosched()
		}
		atomic.StoreInt32(&start, 1)
		fin := make(chan struct{})
		go func() { wg.Wait(); close(fin) }()
		select {
		case <-fin:
		case <-time.After(20 * time.Second):
			hang = fmt.Sprintf("trial %d: concurrent Close calls still running after 20 s:\n%s", k, m3Stacks())
		}
		if hang == "" && len(panics) == 0 && (nils != 1 || errs != int64(cs.Closers-1)) {
			wrong = fmt.Sprintf("trial %d: of %d concurrent Close calls %d returned nil and %d the error", k, cs.Closers, nils, errs)
		}
	}
	ctx.Case(cs, "", "storm-concurrent-close", hashOf(cs))
	switch {
	case len(panics) > 0:
		ctx.Fail("no_panic", fmt.Sprintf("%d goroutines calling Close at the same moment on a fresh reporter: %s", cs.Closers, strings.Join(panics, "; ")), cs, nil)
	case hang != "":
		ctx.Fail("no_hang", hang, cs, nil)
	case wrong != "":
		ctx.Fail("second_close_returns_error", wrong, cs, nil)
	default:
		if leak := m3Leak(); leak != "" {
			ctx.Fail("no_goroutine_left_after_close", "concurrent Close: goroutines of package m3 left:\n"+leak, cs, nil)
		}
	}
}

// c14Failed: has a failure other than a known finding been recorded?
func c14Failed(ctx *Ctx) bool {
	for _, f := range ctx.Res.Failures {
		if f.Known == "" {
			return true
		}
	}
	return false
}

func c14Storms(ctx *Ctx) {
	// a failure already found is the verdict; goroutines leaked by a broken tree
	// would only slow the remaining storms down
	failed := func() bool { return c14Failed(ctx) }
	if failed() {
		return
	}
	c14SizeSweeps(ctx)
	if failed() {
		return
	}
	c14MultiDests(ctx)
	if failed() {
		return
	}
	c14AllocStorms(ctx)
	if failed() {
		return
	}
	c14FlushStorms(ctx)
	// Close calls that really overlap (no yield point separates the steps of the
	// test-and-set on `done`, so schedule replay cannot interleave there)
	for k, nk := 0, ctx.N(4, 16); k < nk; k++ {
		if failed() {
			return
		}
		cs := c14CloseStorm{Storm: true, CloseStorm: true, Seed: ctx.R.U64() % 1000000, Trials: ctx.N(300, 500), Closers: []int{16, 8, 32, 16}[k%4]}
		c14CloseStormOne(ctx, &cs)
	}
	// one counter / gauge / timer handle shared by all reporting goroutines:
	// "without data races" for the value written into the handle's metric; what
	// the race does is observable at the sink (a value delivered twice)
	// (many more goroutines than a scope would use, small and large queues: the
	// window is a few instructions wide and has no yield point)
	for k, nk := 0, ctx.N(12, 36); k < nk; k++ {
		if failed() {
			return
		}
		r := ctx.R
		p := []int{16, 32, 8, 16}[(k/3)%4]
		sc := c14Storm{Storm: true, Seed: r.U64() % 1000000, Cap: []int{64, 4096, 16, 4096}[(k/3)%4], Binary: r.Chance(30), Producers: p,
			Calls: 160000 / p, Handle: []string{"counter", "gauge", "timer"}[k%3]}
		sc.CloseAt = sc.Producers * sc.Calls
		c14StormOne(ctx, &sc)
	}
	for k, nk := 0, ctx.N(2, 10); k < nk; k++ {
		if failed() {
			return
		}
		rc := c14Race{Storm: true, CloseRace: true, Seed: ctx.R.U64() % 1000000, Trials: ctx.N(150, 600)}
		c14CloseRaceOne(ctx, &rc)
	}
	n := ctx.N(6, 60)
	for k := 0; k < n; k++ {
		if failed() {
			return
		}
		r := ctx.R
		sc := c14Storm{Storm: true, Seed: r.U64() % 1000000, Cap: []int{1, 2, 8, 64, 4096}[r.Intn(5)], Binary: r.Chance(30),
			Producers: r.Range(2, 12), Flushers: r.Range(0, 3), Closers: r.Range(0, 2), Calls: r.Range(50, 400), SinkMode: k % 3}
		sc.CloseAt = r.Intn(sc.Producers*sc.Calls + 1)
		if k%2 == 1 {
			sc.Dests = [][]int{{1}, {2, 3}, {1, 2}, {4, 2}}[(k/2)%4]
		}
		c14StormOne(ctx, &sc)
	}
	for k, nk := 0, ctx.N(2, 12); k < nk; k++ {
		if failed() {
			return
		}
		r := ctx.R
		sc := c14Storm{Storm: true, Seed: r.U64() % 1000000, Cap: 4096, Producers: r.Range(3, 8), Calls: 400, Shared: true}
		sc.CloseAt = sc.Producers * sc.Calls
		c14StormOne(ctx, &sc)
	}
}
