package main

// Lock-layer correspondence (C07 / C09): scripted goroutines on real sync.RWMutex locks and a
// sync.WaitGroup under the schedule controller; for every pick the controller reports whether the
// goroutine completed an operation, is blocked (runtime status) or had nothing to do. The model of
// coq/Model/Locks.v (RWMutex with writer preference, WaitGroup.Wait) must give the same answers
// (coq/Corr/LocksCorr.v). This ties the semantics the deadlock-freedom theorem is about to the
// sync package of the toolchain in use.

import (
	"encoding/json"
	"sync"
)

type lkCase struct {
	LockModel bool    `json:"lock_model"`
	Locks     int     `json:"locks"`
	Scripts   [][]int `json:"scripts"` // per goroutine: worker flag, then (op, lock) pairs: 1 RLock 2 Lock 3 RUnlock 4 Unlock 5 wg.Wait
	Sched     []int   `json:"sched"`
}

func lkGen(r *Rng) lkCase {
	c := lkCase{LockModel: true, Locks: r.Range(1, 2)}
	n := r.Range(2, 4)
	waiter := -1
	if r.Chance(35) {
		waiter = r.Intn(n)
	}
	for g := 0; g < n; g++ {
		worker := 0
		if waiter >= 0 && g != waiter {
			worker = 1
		}
		s := []int{worker}
		held := map[int]int{} // lock -> mode (1 R, 2 W)
		var order []int
		waited := false
		for j, nj := 0, r.Range(1, 7); j < nj; j++ {
			switch x := r.Intn(10); {
			case g == waiter && !waited && len(held) == 0 && x < 4:
				s = append(s, 5, 0)
				waited = true
			case x < 6 && len(held) < c.Locks:
				l := r.Intn(c.Locks)
				if _, ok := held[l]; ok {
					continue
				}
				m := 1
				if r.Chance(45) {
					m = 2
				}
				s = append(s, m, l)
				held[l] = m
				order = append(order, l)
			case len(order) > 0:
				k := r.Intn(len(order))
				l := order[k]
				s = append(s, held[l]+2, l)
				delete(held, l)
				order = append(order[:k], order[k+1:]...)
			}
		}
		for len(order) > 0 {
			l := order[len(order)-1]
			order = order[:len(order)-1]
			s = append(s, held[l]+2, l)
		}
		if len(s) == 1 {
			s = append(s, 1, 0, 3, 0)
		}
		c.Scripts = append(c.Scripts, s)
	}
	cur := r.Intn(n)
	for j := 0; j < 50; j++ {
		if !r.Chance(40) {
			cur = r.Intn(n)
		}
		c.Sched = append(c.Sched, cur)
	}
	return c
}

func lkRun(c *lkCase) (res, fin []int64) {
	locks := make([]sync.RWMutex, c.Locks)
	var wg sync.WaitGroup
	ctl := NewCtl()
	for _, s := range c.Scripts {
		if s[0] == 1 {
			wg.Add(1)
		}
	}
	for _, s := range c.Scripts {
		s := s
		ctl.Go(func() {
			if s[0] == 1 {
				defer wg.Done()
			}
			for j := 1; j+1 < len(s); j += 2 {
				if j > 1 {
					ctl.Yield(1)
				}
				l := s[j+1]
				switch s[j] {
				case 1:
					locks[l].RLock()
				case 2:
					locks[l].Lock()
				case 3:
					locks[l].RUnlock()
				case 4:
					locks[l].Unlock()
				case 5:
					wg.Wait()
				}
			}
		})
	}
	for _, i := range c.Sched {
		if i >= ctl.N() {
			res = append(res, 2)
			continue
		}
		switch l := ctl.Step(i); l {
		case Stutter:
			res = append(res, 2)
		case Blocked:
			res = append(res, 1)
		default:
			res = append(res, 0)
		}
	}
	for i := 0; i < ctl.N(); i++ {
		if ctl.Done(i) {
			fin = append(fin, 1)
		} else {
			fin = append(fin, 0)
		}
	}
	// let the rest run out; goroutines of a deadlocked script stay blocked (they hold nothing of the library)
	for round := 0; round < 200 && !ctl.AllDone(); round++ {
		progressed := false
		for i := 0; i < ctl.N(); i++ {
			if !ctl.Done(i) {
				if l := ctl.Step(i); l != Blocked && l != Stutter {
					progressed = true
				}
			}
		}
		if !progressed {
			break
		}
	}
	return
}

func lkTerm(idx int, c *lkCase, res, fin []int64) string {
	var in []Ev
	for _, s := range c.Scripts {
		is := make([]int64, len(s))
		for i, v := range s {
			is[i] = int64(v)
		}
		in = append(in, Ev{K: 50, I: is})
	}
	sc := make([]int64, len(c.Sched))
	for i, v := range c.Sched {
		sc[i] = int64(v)
	}
	in = append(in, Ev{K: 51, I: sc})
	return gcase(idx, []int64{777, int64(c.Locks)}, in, []Ev{{K: 52, I: res}, {K: 53, I: fin}})
}

// lkStream: n cases of the lock-layer correspondence, sent through the model.
func lkStream(ctx *Ctx, n int) {
	blocked, writerPref := 0, 0
	one := func(c *lkCase) {
		res, fin := lkRun(c)
		nb := 0
		for _, r := range res {
			if r == 1 {
				nb++
			}
		}
		key := ""
		if nb > 0 {
			key = hashOf(c)
			blocked++
		}
		// a reader blocked although no writer holds the lock can only be behind an announced writer
		if nb >= 2 {
			writerPref++
		}
		ctx.Case(c, lkTerm(ctx.Res.Evaluations, c, res, fin), "rwmutex-waitgroup-model-correspondence", key)
	}
	// writer preference, hand-written: reader holds, writer announces and blocks, second reader blocks behind it
	one(&lkCase{LockModel: true, Locks: 1, Scripts: [][]int{{0, 2, 0, 4, 0}, {0, 1, 0, 3, 0}, {0, 1, 0, 3, 0}},
		Sched: []int{1, 0, 2, 2, 0, 1, 0, 2, 0, 2, 2, 1, 1}})
	// Wait for two workers
	one(&lkCase{LockModel: true, Locks: 1, Scripts: [][]int{{0, 5, 0, 2, 0, 4, 0}, {1, 1, 0, 3, 0}, {1, 2, 0, 4, 0}},
		Sched: []int{0, 1, 0, 2, 2, 1, 0, 2, 0, 0, 0, 1, 2}})
	for k := 0; k < n; k++ {
		c := lkGen(ctx.R)
		one(&c)
	}
	ctx.Res.Extra["lock_model_cases_with_a_blocked_step"] = blocked
	ctx.Res.Extra["lock_model_cases_with_two_or_more_blocked_steps"] = writerPref
}

func lkReplay(ctx *Ctx) bool {
	var p struct {
		LockModel bool `json:"lock_model"`
	}
	if json.Unmarshal(ctx.Replay, &p) != nil || !p.LockModel {
		return false
	}
	var c lkCase
	if err := json.Unmarshal(ctx.Replay, &c); err != nil {
		fatal(err)
	}
	res, fin := lkRun(&c)
	ctx.Case(c, lkTerm(ctx.Res.Evaluations, &c, res, fin), "rwmutex-waitgroup-model-correspondence", "")
	return true
}
