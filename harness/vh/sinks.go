package main

// Recording reporters. Every call is appended to a shared, mutex-protected
// log as an Ev (kinds: 1 counter, 2 gauge, 3 timer, 4 value samples,
// 5 duration samples, 6 flush, 7 close, 11..14 Allocate{Counter,Gauge,Timer,
// Histogram}, 21..23 Report{Count,Gauge,Timer} on a handle, 24/25 Value/
// DurationBucket, 26 ReportSamples).

import (
	"sync"
	"time"

	tally "github.com/uber-go/tally/v4"
)

type Log struct {
	mu  sync.Mutex
	evs []Ev
}

func (l *Log) add(e Ev) {
	l.mu.Lock()
	l.evs = append(l.evs, e)
	l.mu.Unlock()
}
func (l *Log) Snapshot() []Ev {
	l.mu.Lock()
	defer l.mu.Unlock()
	return append([]Ev(nil), l.evs...)
}
func (l *Log) Len() int {
	l.mu.Lock()
	defer l.mu.Unlock()
	return len(l.evs)
}

type caps struct{ rep, tag bool }

func (c caps) Reporting() bool { return c.rep }
func (c caps) Tagging() bool   { return c.tag }

func bucketInts(b tally.Buckets) ([]int64, uint32) {
	if b == nil {
		return []int64{-1}, 0
	}
	switch bb := b.(type) {
	case tally.ValueBuckets:
		out := []int64{int64(len(bb))}
		var f uint32
		for i, v := range bb {
			out = append(out, fbits(v))
			f |= 1 << uint(i+1)
		}
		return out, f
	case tally.DurationBuckets:
		out := []int64{int64(len(bb))}
		for _, v := range bb {
			out = append(out, int64(v))
		}
		return out, 0
	}
	return []int64{-2}, 0
}

// RecReporter implements tally.StatsReporter.
type RecReporter struct {
	L    *Log
	Src  int
	Caps caps
	// OnCall, when set, is invoked at the start of every reporting call (slow
	// reporter stubs, yield points of the harness).
	OnCall func(k int)
}

func (r *RecReporter) call(k int) {
	if r.OnCall != nil {
		r.OnCall(k)
	}
}
func (r *RecReporter) Capabilities() tally.Capabilities { return r.Caps }
func (r *RecReporter) Flush()                           { r.call(6); r.L.add(Ev{Src: r.Src, K: 6}) }
func (r *RecReporter) ReportCounter(name string, tags map[string]string, v int64) {
	r.call(1)
	r.L.add(Ev{Src: r.Src, K: 1, I: []int64{v}, S: nameTags(name, tags)})
}
func (r *RecReporter) ReportGauge(name string, tags map[string]string, v float64) {
	r.call(2)
	r.L.add(Ev{Src: r.Src, K: 2, I: []int64{fbits(v)}, F: 1, S: nameTags(name, tags)})
}
func (r *RecReporter) ReportTimer(name string, tags map[string]string, d time.Duration) {
	r.call(3)
	r.L.add(Ev{Src: r.Src, K: 3, I: []int64{int64(d)}, S: nameTags(name, tags)})
}
func (r *RecReporter) ReportHistogramValueSamples(name string, tags map[string]string, b tally.Buckets, lo, hi float64, n int64) {
	r.call(4)
	bi, bf := bucketInts(b)
	r.L.add(Ev{Src: r.Src, K: 4, I: append([]int64{fbits(lo), fbits(hi), n}, bi...), F: 3 | bf<<3, S: nameTags(name, tags)})
}
func (r *RecReporter) ReportHistogramDurationSamples(name string, tags map[string]string, b tally.Buckets, lo, hi time.Duration, n int64) {
	r.call(5)
	bi, bf := bucketInts(b)
	r.L.add(Ev{Src: r.Src, K: 5, I: append([]int64{int64(lo), int64(hi), n}, bi...), F: bf << 3, S: nameTags(name, tags)})
}

// RecCloser is a RecReporter that can also be closed.
type RecCloser struct {
	RecReporter
	Err error
}

func (r *RecCloser) Close() error { r.call(7); r.L.add(Ev{Src: r.Src, K: 7}); return r.Err }

// RecCached implements tally.CachedStatsReporter; handles are numbered in
// allocation order, buckets likewise.
type RecCached struct {
	L      *Log
	Src    int
	Caps   caps
	OnCall func(k int)
	mu     sync.Mutex
	nh, nb int64
}

type recHandle struct {
	r  *RecCached
	id int64
}
type recBucket struct {
	r  *RecCached
	id int64
}

func (r *RecCached) call(k int) {
	if r.OnCall != nil {
		r.OnCall(k)
	}
}
func (r *RecCached) Capabilities() tally.Capabilities { return r.Caps }
func (r *RecCached) Flush()                           { r.call(6); r.L.add(Ev{Src: r.Src, K: 6}) }
func (r *RecCached) alloc(k int, name string, tags map[string]string, b tally.Buckets) recHandle {
	r.call(k)
	r.mu.Lock()
	id := r.nh
	r.nh++
	ints := []int64{id}
	var f uint32
	if k == 14 {
		bi, bf := bucketInts(b)
		ints = append(ints, bi...)
		f = bf << 1
	}
	// logged under the reporter's lock so that ids appear in order
	r.L.add(Ev{Src: r.Src, K: k, I: ints, F: f, S: nameTags(name, tags)})
	r.mu.Unlock()
	return recHandle{r, id}
}
func (r *RecCached) AllocateCounter(name string, tags map[string]string) tally.CachedCount {
	return r.alloc(11, name, tags, nil)
}
func (r *RecCached) AllocateGauge(name string, tags map[string]string) tally.CachedGauge {
	return r.alloc(12, name, tags, nil)
}
func (r *RecCached) AllocateTimer(name string, tags map[string]string) tally.CachedTimer {
	return r.alloc(13, name, tags, nil)
}
func (r *RecCached) AllocateHistogram(name string, tags map[string]string, b tally.Buckets) tally.CachedHistogram {
	return r.alloc(14, name, tags, b)
}
func (h recHandle) ReportCount(v int64) {
	h.r.call(21)
	h.r.L.add(Ev{Src: h.r.Src, K: 21, I: []int64{h.id, v}})
}
func (h recHandle) ReportGauge(v float64) {
	h.r.call(22)
	h.r.L.add(Ev{Src: h.r.Src, K: 22, I: []int64{h.id, fbits(v)}, F: 2})
}
func (h recHandle) ReportTimer(d time.Duration) {
	h.r.call(23)
	h.r.L.add(Ev{Src: h.r.Src, K: 23, I: []int64{h.id, int64(d)}})
}
func (h recHandle) bucket(k int, lo, hi int64, f uint32) tally.CachedHistogramBucket {
	h.r.call(k)
	h.r.mu.Lock()
	id := h.r.nb
	h.r.nb++
	h.r.L.add(Ev{Src: h.r.Src, K: k, I: []int64{h.id, lo, hi, id}, F: f})
	h.r.mu.Unlock()
	return recBucket{h.r, id}
}
func (h recHandle) ValueBucket(lo, hi float64) tally.CachedHistogramBucket {
	return h.bucket(24, fbits(lo), fbits(hi), 6)
}
func (h recHandle) DurationBucket(lo, hi time.Duration) tally.CachedHistogramBucket {
	return h.bucket(25, int64(lo), int64(hi), 0)
}
func (b recBucket) ReportSamples(v int64) {
	b.r.call(26)
	b.r.L.add(Ev{Src: b.r.Src, K: 26, I: []int64{b.id, v}})
}

// RecCachedCloser adds Close.
type RecCachedCloser struct {
	RecCached
	Err error
}

func (r *RecCachedCloser) Close() error { r.call(7); r.L.add(Ev{Src: r.Src, K: 7}); return r.Err }
