package main

// C20 — bucket constructors are exact; BucketPairs leaves the caller's slice
// alone; a histogram keeps the bounds it was created with whatever else went
// through the bucket cache of its root.
//
// Five kinds of cases (field T):
//   1 float arithmetic used by the constructors (validates the Coq IEEE model bit for bit)
//   2 one constructor call (plain and Must variant)
//   3 BucketPairs on one specification (+ caller's slice unchanged)
//   4 a sequence of histogram creations under one root scope, one goroutine
//   5 the same from several goroutines
// See coq/Corr/BCacheCorr.v for the event encoding.

import (
	"encoding/json"
	"fmt"
	"math"
	"runtime"
	"sort"
	"strconv"
	"strings"
	"sync"
	"sync/atomic"
	"time"
	"unsafe"

	tally "github.com/uber-go/tally/v4"
)

type c20Op struct {
	K int   `json:"k"`
	A int64 `json:"a"`
	B int64 `json:"b"`
}
type c20Creation struct {
	Dur     bool    `json:"dur,omitempty"`
	Spec    []int64 `json:"spec"`    // float64 bits or nanoseconds
	Samples []int64 `json:"samples"` // same encoding
	Scope   int     `json:"scope,omitempty"`
	How     string  `json:"how,omitempty"` // how the generator derived it (information only)
	// SameSlice (sequential histories): the creation is made with the very slice of the previous
	// creation (same kind and length), which the caller has refilled in place with this set
	SameSlice bool `json:"same_slice,omitempty"`
}
type c20Case struct {
	T       int           `json:"t"`
	Ops     []c20Op       `json:"ops,omitempty"`
	K       int           `json:"k,omitempty"`
	Start   int64         `json:"start,omitempty"`
	W       int64         `json:"w,omitempty"`
	N       int64         `json:"n,omitempty"`
	Dur     bool          `json:"dur,omitempty"`
	Spec    []int64       `json:"spec,omitempty"`
	Flavour int           `json:"flavour,omitempty"`
	Workers int           `json:"workers,omitempty"`
	Iters   int           `json:"iters,omitempty"` // storms (T = 6, 7; see c20storm.go)
	Cr      []c20Creation `json:"cr,omitempty"`
}

const c20QNaN = 0x7FF8000000000000

func c20f(b int64) float64 { return math.Float64frombits(uint64(b)) }

// c20bits returns the bit pattern with every NaN mapped to the canonical one.
func c20bits(f float64) int64 {
	if f != f {
		return c20QNaN
	}
	return int64(math.Float64bits(f))
}

// ---------------------------------------------------------------- generators

var c20Floats = []float64{0, math.Copysign(0, -1), 1, -1, 0.5, 2, 3, 0.1, 0.2, 0.3, 1.5, 10, 1e-3, 1e10, 1e300, -1e300,
	math.MaxFloat64, -math.MaxFloat64, math.SmallestNonzeroFloat64, -math.SmallestNonzeroFloat64,
	2.2250738585072014e-308, 2.225073858507201e-308, math.Inf(1), math.Inf(-1), math.NaN(),
	1 << 53, 1<<53 + 2, 9007199254740993, 1.0000000000000002, 0.9999999999999999, 4.9e-324, 1e-310, 1.7976931348623157e308 / 2}

func c20AnyFloat(r *Rng) float64 {
	switch r.Intn(10) {
	case 0, 1, 2:
		return c20Floats[r.Intn(len(c20Floats))]
	case 3, 4:
		return math.Float64frombits(r.U64())
	case 5:
		return float64(int64(r.U64())>>uint(r.Intn(60))) / float64(int64(1)<<uint(r.Intn(20)))
	case 6: // subnormal or just above
		return math.Float64frombits(r.U64() & 0x801FFFFFFFFFFFFF)
	case 7: // huge
		return math.Float64frombits(r.U64()&0x800FFFFFFFFFFFFF | 0x7FE0000000000000 - uint64(r.Intn(3))<<52)
	default: // moderate exponent
		return math.Float64frombits(r.U64()&0x800FFFFFFFFFFFFF | uint64(1023-30+r.Intn(60))<<52)
	}
}

// c20Near returns a float whose exponent is close to a's (additions that round, cancel or align).
func c20Near(r *Rng, a float64) float64 {
	b := math.Float64bits(a)
	e := int((b >> 52) & 0x7FF)
	ne := e + r.Intn(9) - 4
	if r.Chance(30) {
		ne = e + r.Intn(120) - 60
	}
	if ne < 0 {
		ne = 0
	}
	if ne > 2046 {
		ne = 2046
	}
	m := r.U64() & 0xFFFFFFFFFFFFF
	if r.Chance(30) {
		m = b&0xFFFFFFFFFFFFF ^ uint64(r.Intn(4))
	}
	return math.Float64frombits(r.U64()&(1<<63) | uint64(ne)<<52 | m)
}

var c20Ints = []int64{0, 1, -1, 2, 3, 1000, 1 << 53, 1<<53 + 1, 1<<53 + 2, 1<<53 + 3, -(1<<53 + 1), 1<<54 + 2, 1<<54 + 6,
	math.MaxInt64, math.MaxInt64 - 1, math.MinInt64, math.MinInt64 + 1, 1 << 62, 1<<62 + 1, 1<<62 + 257, 1<<62 + 256, 1<<62 + 768,
	1<<63 - 512, 1<<63 - 513, 1<<63 - 1024, 1<<63 - 1025, int64(time.Second), int64(time.Hour)}

func c20AnyInt(r *Rng) int64 {
	switch r.Intn(4) {
	case 0:
		return c20Ints[r.Intn(len(c20Ints))]
	case 1:
		return int64(r.U64())
	case 2:
		return int64(r.U64()) >> uint(r.Intn(63))
	default:
		return int64(r.U64()>>uint(1+r.Intn(10))) | 1
	}
}

// c20InRange reports whether int64(f) is defined by the language.
func c20InRange(f float64) bool {
	return f == f && f >= -9223372036854775808.0 && f < 9223372036854775808.0
}

func c20GenArith(r *Rng) c20Case {
	c := c20Case{T: 1}
	for len(c.Ops) < 16 {
		k := 1 + r.Intn(5)
		var o c20Op
		switch k {
		case 1, 2:
			a := c20AnyFloat(r)
			b := c20AnyFloat(r)
			if r.Chance(50) {
				b = c20Near(r, a)
			}
			if k == 1 && r.Chance(10) {
				b = -a
			}
			o = c20Op{K: k, A: fbits(a), B: fbits(b)}
		case 3:
			o = c20Op{K: 3, A: c20AnyInt(r)}
		case 4:
			var f float64
			switch r.Intn(4) {
			case 0:
				f = float64(c20AnyInt(r))
			case 1:
				f = float64(c20AnyInt(r)) / float64(int64(1)<<uint(r.Intn(40)))
			case 2:
				f = c20AnyFloat(r)
			default:
				f = []float64{-9223372036854775808.0, 9223372036854774784.0, -9223372036854774784.0, 0.99, -0.99, math.Copysign(0, -1), 4.9e-324, 4503599627370497.5, -4503599627370495.5}[r.Intn(9)]
			}
			if !c20InRange(f) {
				continue
			}
			o = c20Op{K: 4, A: fbits(f)}
		case 5:
			a, b := c20AnyFloat(r), c20AnyFloat(r)
			if r.Chance(30) {
				b = a
			}
			if r.Chance(20) {
				b = []float64{0, 1, math.Copysign(0, -1)}[r.Intn(3)]
			}
			o = c20Op{K: 5, A: fbits(a), B: fbits(b)}
		}
		c.Ops = append(c.Ops, o)
	}
	return c
}

func c20GenCtor(r *Rng) c20Case {
	c := c20Case{T: 2, K: 1 + r.Intn(4)}
	switch x := r.Intn(20); {
	case x < 3:
		c.N = []int64{0, 0, 0, -1, -7, math.MinInt64}[r.Intn(6)]
	case x < 4:
		c.N = int64(13 + r.Intn(28))
	default:
		c.N = int64(1 + r.Intn(12))
	}
	switch c.K {
	case 1:
		c.Start, c.W = fbits(c20AnyFloat(r)), fbits(c20AnyFloat(r))
		if r.Chance(40) {
			c.W = fbits([]float64{0.1, 0.2, 0.3, 0.7, 1e-3, 1.1, 2.5e-9, 1e16 + 2}[r.Intn(8)])
		}
		if r.Chance(30) {
			c.Start = fbits(c20Near(r, c20f(c.W)))
		}
	case 2:
		c.Start, c.W = c20AnyInt(r), c20AnyInt(r)
	case 3:
		c.Start = fbits(math.Abs(c20AnyFloat(r)))
		if r.Chance(25) {
			c.Start = fbits(c20AnyFloat(r)) // zero, negative, NaN, ...
		}
		c.W = fbits([]float64{2, 1.5, 1.1, 10, 1.0000000000000002, 3.3, 1e10, 1e200, math.Inf(1), 1.7}[r.Intn(10)])
		if r.Chance(25) {
			c.W = fbits([]float64{1, 0.5, 0, -2, math.NaN(), math.Copysign(0, -1), 0.9999999999999999, math.Inf(-1)}[r.Intn(8)])
		}
		if r.Chance(15) {
			c.W = fbits(c20AnyFloat(r))
		}
	case 4:
		c.Start = []int64{1, 2, 3, 7, 1000, int64(time.Millisecond), int64(time.Second), 1 << 52, 1<<53 + 1, 1 << 61, 1 << 62, 1<<62 + 1025, math.MaxInt64, math.MaxInt64 / 2}[r.Intn(14)]
		if r.Chance(30) {
			c.Start = int64(r.U64() >> uint(1+r.Intn(62)))
		}
		if r.Chance(15) {
			c.Start = []int64{0, -1, math.MinInt64, -int64(time.Second)}[r.Intn(4)]
		}
		c.W = fbits([]float64{2, 1.5, 1.1, 1.25, 1.0000000000000002, 3.3, 1.9999999999999998, 1.7, 1.0001, 10}[r.Intn(10)])
		if r.Chance(20) {
			c.W = fbits([]float64{1, 0.5, 0, -2, math.NaN(), 0.9999999999999999, math.Inf(1)}[r.Intn(7)])
		}
		// keep every conversion whose result is used inside the range in which
		// Go defines it (the last product of the loop is computed but unused)
		if c.N > 0 && c.Start > 0 && c20f(c.W) > 1 || c20f(c.W) != c20f(c.W) {
			curr := time.Duration(c.Start)
			f := c20f(c.W)
			for i := int64(0); i < c.N-1; i++ {
				p := float64(float64(curr) * f)
				if !c20InRange(p) {
					c.N = i + 1
					break
				}
				curr = time.Duration(p)
			}
		}
	}
	return c
}

// c20Spec draws a specification: unsorted, with duplicates, infinities, but no
// NaN (the order sort.Sort produces is then unspecified) and never both zeros.
func c20Spec(r *Rng, dur bool, n int) []int64 {
	out := make([]int64, 0, n)
	zero := int64(0)
	if r.Bool() {
		zero = fbits(math.Copysign(0, -1))
	}
	if !dur && n >= 2 && r.Chance(8) {
		out = append(out, zero, zero) // lets the sign-flipped twin collide and compare ==
	}
	for len(out) < n {
		if dur {
			out = append(out, c20AnyInt(r))
			continue
		}
		if len(out) > 0 && r.Chance(15) {
			out = append(out, out[r.Intn(len(out))])
			continue
		}
		f := c20AnyFloat(r)
		if r.Chance(50) {
			f = []float64{0, 1, 2, 4, 0.5, -1, 10, 100, 0.25, 8}[r.Intn(10)]
		}
		if f != f {
			continue
		}
		b := fbits(f)
		if f == 0 {
			b = zero
		}
		out = append(out, b)
	}
	return out
}

func c20IsNaNBits(b int64) bool { f := c20f(b); return f != f }

// c20Samples: every bound, its neighbours, the extremes, one random value (finite only).
func c20Samples(r *Rng, dur bool, spec []int64) []int64 {
	var out []int64
	add := func(v int64) {
		if !dur {
			f := c20f(v)
			if f != f || math.IsInf(f, 0) {
				return
			}
		}
		if len(out) < 18 {
			out = append(out, v)
		}
	}
	for _, b := range spec {
		if dur {
			add(b)
			if b < math.MaxInt64 {
				add(b + 1)
			}
			if b > math.MinInt64 && r.Bool() {
				add(b - 1)
			}
		} else {
			f := c20f(b)
			add(b)
			add(fbits(math.Nextafter(f, math.Inf(1))))
			if r.Bool() {
				add(fbits(math.Nextafter(f, math.Inf(-1))))
			}
		}
	}
	if dur {
		add(math.MaxInt64)
		add(math.MinInt64)
		add(c20AnyInt(r))
	} else {
		add(fbits(math.MaxFloat64))
		add(fbits(-math.MaxFloat64))
		f := c20AnyFloat(r)
		add(fbits(f))
	}
	return out
}

// c20Derive builds a specification related to base so that the two share
// their cache identity (23 + 31 * sum of the elements' 64-bit patterns).
// c20OkValueSpec: acceptable as a ValueBuckets specification (no NaN, not both zeros).
func c20OkValueSpec(s []int64) bool {
	pz, nz := false, false
	for _, b := range s {
		if c20IsNaNBits(b) {
			return false
		}
		if b == 0 {
			pz = true
		}
		if uint64(b) == 1<<63 {
			nz = true
		}
	}
	return !(pz && nz)
}

// c20Identity is the cache identity of a specification as the model defines it
// (Model/BCache.v real_ident): 0 for the empty one, else 23 + 31 * the sum of
// the elements' 64-bit patterns, modulo 2^64.
func c20Identity(spec []int64) uint64 {
	if len(spec) == 0 {
		return 0
	}
	id := uint64(23)
	for _, v := range spec {
		id += uint64(v) * 31
	}
	return id
}

// 31^-1 modulo 2^64 (Newton iteration)
var c20Inv31 = func() uint64 {
	x := uint64(31)
	for i := 0; i < 6; i++ {
		x *= 2 - 31*x
	}
	return x
}()

// c20WithIdentity draws a NON-empty specification of n elements whose cache
// identity is id: n-1 elements are drawn as usual, the last one is solved for.
// The property quantifies over bucket sets "chosen to collide with it in the
// internal bucket cache"; this also reaches the identities no other set of a
// history has: the one of the empty specification (0) and the bare seed (23).
func c20WithIdentity(r *Rng, dur bool, id uint64, n int) ([]int64, bool) {
	if n < 1 {
		n = 1
	}
	sum := (id - 23) * c20Inv31
	for try := 0; try < 40; try++ {
		t := c20Spec(r, dur, n-1)
		rest := sum
		for _, v := range t {
			rest -= uint64(v)
		}
		t = append(t, int64(rest))
		if !dur && !c20OkValueSpec(t) {
			if try%4 == 3 {
				n++ // a one-element value set has no freedom: its only bit pattern may be a NaN
			}
			continue
		}
		for i := len(t) - 1; i > 0; i-- {
			j := r.Intn(i + 1)
			t[i], t[j] = t[j], t[i]
		}
		if c20Identity(t) == id {
			return t, true
		}
	}
	return nil, false
}

// the identities that stand for something other than a colliding peer: the
// empty specification (both kinds) and the accumulator's bare seed
var c20SpecialIDs = []uint64{0, 0, 0, 23}

func c20Derive(r *Rng, dur bool, base []int64) (bool, []int64, string) {
	cp := append([]int64(nil), base...)
	okv := c20OkValueSpec
	switch r.Intn(10) {
	case 7, 8: // an unrelated set (any length, either kind) solved for the same identity; base may be empty
		d2 := dur
		if r.Chance(30) {
			d2 = !dur
		}
		if t, ok := c20WithIdentity(r, d2, c20Identity(base), 1+r.Intn(4)); ok {
			return d2, t, "match"
		}
		return dur, cp, "same"
	case 0: // the same elements in a fresh slice: a true hit
		return dur, cp, "same"
	case 1: // a permutation
		for i := len(cp) - 1; i > 0; i-- {
			j := r.Intn(i + 1)
			cp[i], cp[j] = cp[j], cp[i]
		}
		return dur, cp, "perm"
	case 2, 3: // equal sum of bit patterns, different elements
		if len(cp) >= 2 {
			for try := 0; try < 20; try++ {
				i, j := r.Intn(len(cp)), r.Intn(len(cp))
				if i == j {
					continue
				}
				d := int64(1) << uint(r.Intn(62))
				if r.Bool() {
					d = int64(r.U64() >> uint(r.Intn(64)))
				}
				t := append([]int64(nil), cp...)
				t[i] += d
				t[j] -= d
				if dur || okv(t) {
					return dur, t, "eqsum"
				}
			}
		}
		return dur, cp, "same"
	case 4: // the twin of the other kind with the same 64-bit patterns
		if dur && !okv(cp) {
			return dur, cp, "same"
		}
		return !dur, cp, "twin"
	case 5: // split one element into two with the same sum (different length, same identity)
		if len(cp) >= 1 {
			i := r.Intn(len(cp))
			x := uint64(cp[i])
			a := x / 2
			b := x - a
			t := append(append([]int64(nil), cp[:i]...), int64(a), int64(b))
			t = append(t, cp[i+1:]...)
			if dur || okv(t) {
				return dur, t, "split"
			}
		}
		return dur, cp, "same"
	case 6: // flip the sign of an even number of zeros (float-equal, same identity, different bits)
		if !dur {
			nz := 0
			for _, b := range cp {
				if b == 0 || uint64(b) == 1<<63 {
					nz++
				}
			}
			if nz >= 2 && nz%2 == 0 {
				for i, b := range cp {
					if b == 0 || uint64(b) == 1<<63 {
						cp[i] = int64(uint64(b) ^ 1<<63)
					}
				}
				return dur, cp, "zeroflip"
			}
		}
		return dur, cp, "same"
	default: // one element changed: a different identity
		if len(cp) > 0 {
			i := r.Intn(len(cp))
			if dur {
				cp[i] = c20AnyInt(r)
			} else {
				cp[i] = fbits([]float64{3, 5, 7, 0.75, -2}[r.Intn(5)])
			}
		}
		return dur, cp, "near"
	}
}

func c20GenCache(r *Rng, conc bool) c20Case {
	c := c20Case{T: 4, Flavour: r.Intn(2)}
	if conc {
		c.T = 5
		c.Workers = 2 + r.Intn(5)
	}
	n := 3 + r.Intn(6)
	if conc {
		// rounds of Workers creations each; the goroutines meet at a barrier
		// before every round, and the specifications of one round are mostly
		// derived from one base, so that they race for one cache entry
		c.Workers = 2 + r.Intn(3)
		n = c.Workers * (1 + r.Intn(3))
		if n > 9 {
			n = 9
		}
	}
	type sp struct {
		dur  bool
		spec []int64
	}
	var pool []sp
	for len(c.Cr) < n {
		var dur bool
		var spec []int64
		how := "fresh"
		if conc && len(c.Cr)%c.Workers != 0 && r.Chance(85) {
			b := pool[len(pool)-1-r.Intn(len(c.Cr)%c.Workers)]
			dur, spec, how = c20Derive(r, b.dur, b.spec)
		} else if r.Chance(12) {
			// a non-empty set with a distinguished identity, as the first creation
			// of a history (alone) or after others
			dur = r.Chance(50)
			var ok bool
			if spec, ok = c20WithIdentity(r, dur, c20SpecialIDs[r.Intn(len(c20SpecialIDs))], 1+r.Intn(4)); !ok {
				continue
			}
			how = "special"
		} else if r.Chance(6) {
			dur, spec, how = r.Chance(50), []int64{}, "empty"
		} else if conc && r.Chance(80) {
			dur = r.Chance(35)
			spec = c20Spec(r, dur, 2+r.Intn(3))
		} else if len(pool) > 0 && r.Chance(75) {
			b := pool[r.Intn(len(pool))]
			dur, spec, how = c20Derive(r, b.dur, b.spec)
		} else {
			dur = r.Chance(35)
			ln := r.Intn(6)
			if r.Chance(70) && ln < 2 {
				ln = 2 + r.Intn(3)
			}
			spec = c20Spec(r, dur, ln)
		}
		if len(spec) > 7 {
			continue
		}
		pool = append(pool, sp{dur, spec})
		c.Cr = append(c.Cr, c20Creation{Dur: dur, Spec: spec, Samples: c20Samples(r, dur, spec), Scope: r.Intn(4), How: how})
		if !conc && len(spec) >= 2 && len(c.Cr) < n && r.Chance(20) {
			// the caller keeps one scratch slice: it is refilled in place with another set of the
			// same length and the same cache identity and handed to the next creation
			if s2, ok := c20WithIdentity(r, dur, c20Identity(spec), len(spec)); ok && len(s2) == len(spec) && fmt.Sprint(s2) != fmt.Sprint(spec) {
				pool = append(pool, sp{dur, s2})
				c.Cr = append(c.Cr, c20Creation{Dur: dur, Spec: s2, Samples: c20Samples(r, dur, s2), Scope: r.Intn(4), How: "same-slice-refilled", SameSlice: true})
			}
		}
	}
	return c
}

// ---------------------------------------------------------------- drivers

func c20RunArith(c *c20Case) (in, obs []Ev) {
	for _, o := range c.Ops {
		switch o.K {
		case 1:
			in = append(in, Ev{K: 1, I: []int64{o.A, o.B}, F: 3})
			obs = append(obs, Ev{K: 1, I: []int64{c20bits(c20f(o.A) + c20f(o.B))}, F: 1})
		case 2:
			in = append(in, Ev{K: 2, I: []int64{o.A, o.B}, F: 3})
			obs = append(obs, Ev{K: 2, I: []int64{c20bits(c20f(o.A) * c20f(o.B))}, F: 1})
		case 3:
			in = append(in, Ev{K: 3, I: []int64{o.A, 0}})
			obs = append(obs, Ev{K: 3, I: []int64{c20bits(float64(o.A))}, F: 1})
		case 4:
			in = append(in, Ev{K: 4, I: []int64{o.A, 0}, F: 1})
			obs = append(obs, Ev{K: 4, I: []int64{int64(c20f(o.A))}})
		case 5:
			in = append(in, Ev{K: 5, I: []int64{o.A, o.B}, F: 3})
			obs = append(obs, Ev{K: 5, I: []int64{b2i(c20f(o.A) <= c20f(o.B))}})
		}
	}
	return
}

func c20FlagsFrom(start, n int) uint32 {
	var f uint32
	for i := start; i < start+n && i < 32; i++ {
		f |= 1 << uint(i)
	}
	return f
}

// c20RunCtor calls the plain and the Must variant of one constructor.
func c20RunCtor(c *c20Case) (in, obs []Ev, fail string) {
	var plain, must []int64
	var err error
	panicked := false
	callMust := func(f func()) {
		defer func() {
			if recover() != nil {
				panicked = true
			}
		}()
		f()
	}
	n := int(c.N)
	isF := c.K == 1 || c.K == 3
	switch c.K {
	case 1:
		var b tally.ValueBuckets
		b, err = tally.LinearValueBuckets(c20f(c.Start), c20f(c.W), n)
		for _, v := range b {
			plain = append(plain, c20bits(v))
		}
		callMust(func() {
			for _, v := range tally.MustMakeLinearValueBuckets(c20f(c.Start), c20f(c.W), n) {
				must = append(must, c20bits(v))
			}
		})
		in = []Ev{{K: 1, I: []int64{c.Start, c.W, c.N}, F: 3}}
	case 2:
		var b tally.DurationBuckets
		b, err = tally.LinearDurationBuckets(time.Duration(c.Start), time.Duration(c.W), n)
		for _, v := range b {
			plain = append(plain, int64(v))
		}
		callMust(func() {
			for _, v := range tally.MustMakeLinearDurationBuckets(time.Duration(c.Start), time.Duration(c.W), n) {
				must = append(must, int64(v))
			}
		})
		in = []Ev{{K: 2, I: []int64{c.Start, c.W, c.N}}}
	case 3:
		var b tally.ValueBuckets
		b, err = tally.ExponentialValueBuckets(c20f(c.Start), c20f(c.W), n)
		for _, v := range b {
			plain = append(plain, c20bits(v))
		}
		callMust(func() {
			for _, v := range tally.MustMakeExponentialValueBuckets(c20f(c.Start), c20f(c.W), n) {
				must = append(must, c20bits(v))
			}
		})
		in = []Ev{{K: 3, I: []int64{c.Start, c.W, c.N}, F: 3}}
	case 4:
		var b tally.DurationBuckets
		b, err = tally.ExponentialDurationBuckets(time.Duration(c.Start), c20f(c.W), n)
		for _, v := range b {
			plain = append(plain, int64(v))
		}
		callMust(func() {
			for _, v := range tally.MustMakeExponentialDurationBuckets(time.Duration(c.Start), c20f(c.W), n) {
				must = append(must, int64(v))
			}
		})
		in = []Ev{{K: 4, I: []int64{c.Start, c.W, c.N}, F: 2}}
	}
	var ff uint32
	if isF {
		ff = c20FlagsFrom(1, len(plain))
	}
	obs = append(obs, Ev{K: 50, I: append([]int64{b2i(err != nil)}, plain...), F: ff})
	obs = append(obs, Ev{K: 51, I: append([]int64{b2i(panicked)}, must...), F: ff})

	// direct predicate (what the property says, computed here independently)
	wantErr := n <= 0
	switch c.K {
	case 3:
		wantErr = wantErr || c20f(c.Start) <= 0 || c20f(c.W) <= 1
	case 4:
		wantErr = wantErr || c.Start <= 0 || c20f(c.W) <= 1
	}
	switch {
	case (err != nil) != wantErr:
		fail = fmt.Sprintf("error returned = %v, arguments invalid = %v", err != nil, wantErr)
	case panicked != (err != nil):
		fail = fmt.Sprintf("Must variant panicked = %v but the plain variant returned error = %v", panicked, err)
	case err != nil && len(plain) != 0:
		fail = "buckets returned together with an error"
	case err == nil && len(plain) != n:
		fail = fmt.Sprintf("%d bounds returned for n = %d", len(plain), n)
	case err == nil && fmt.Sprint(plain) != fmt.Sprint(must):
		fail = fmt.Sprintf("Must variant returned %v, plain variant %v", must, plain)
	}
	if fail == "" && err == nil {
		for i := range plain {
			var want int64
			switch c.K {
			case 1: // two roundings (the explicit conversion forbids fusing)
				want = c20bits(c20f(c.Start) + float64(float64(i)*c20f(c.W)))
			case 2:
				want = c.Start + int64(i)*c.W
			case 3:
				if i == 0 {
					want = c20bits(c20f(c.Start))
				} else {
					want = c20bits(float64(c20f(plain[i-1]) * c20f(c.W)))
				}
			case 4:
				if i == 0 {
					want = c.Start
				} else {
					want = int64(time.Duration(float64(float64(time.Duration(plain[i-1])) * c20f(c.W))))
				}
			}
			if plain[i] != want {
				fail = fmt.Sprintf("bound %d is %d, the recurrence gives %d", i, plain[i], want)
				break
			}
		}
	}
	return
}

func c20MkBuckets(dur bool, spec []int64) tally.Buckets {
	if dur {
		d := make(tally.DurationBuckets, len(spec))
		for i, v := range spec {
			d[i] = time.Duration(v)
		}
		return d
	}
	v := make(tally.ValueBuckets, len(spec))
	for i, b := range spec {
		v[i] = c20f(b)
	}
	return v
}

// c20Unchanged reports whether b still holds exactly spec (bit for bit).
func c20Unchanged(b tally.Buckets, dur bool, spec []int64) bool {
	if dur {
		d, ok := b.(tally.DurationBuckets)
		if !ok || len(d) != len(spec) {
			return false
		}
		for i := range d {
			if int64(d[i]) != spec[i] {
				return false
			}
		}
		return true
	}
	v, ok := b.(tally.ValueBuckets)
	if !ok || len(v) != len(spec) {
		return false
	}
	for i := range v {
		if fbits(v[i]) != spec[i] {
			return false
		}
	}
	return true
}

type c20Pair struct{ lo, hi int64 }

// c20Want computes, independently of the library, the bucket pairs of a
// specification (sorted bounds, then the maximum).
func c20Want(dur bool, spec []int64) []c20Pair {
	var out []c20Pair
	if dur {
		s := append([]int64(nil), spec...)
		sort.Slice(s, func(i, j int) bool { return s[i] < s[j] })
		lo := int64(math.MinInt64)
		for _, b := range s {
			out = append(out, c20Pair{lo, b})
			lo = b
		}
		return append(out, c20Pair{lo, math.MaxInt64})
	}
	s := append([]int64(nil), spec...)
	sort.SliceStable(s, func(i, j int) bool { return c20f(s[i]) < c20f(s[j]) })
	lo := fbits(-math.MaxFloat64)
	for _, b := range s {
		out = append(out, c20Pair{lo, b})
		lo = b
	}
	return append(out, c20Pair{lo, fbits(math.MaxFloat64)})
}

// c20Same: Go's == on the element type.
func c20Same(dur bool, a, b int64) bool {
	if dur {
		return a == b
	}
	return c20f(a) == c20f(b)
}

func c20RunPairs(c *c20Case) (in, obs []Ev, fail string) {
	b := c20MkBuckets(c.Dur, c.Spec)
	pairs := tally.BucketPairs(b)
	var flat []int64
	var got []c20Pair
	for _, p := range pairs {
		if c.Dur {
			got = append(got, c20Pair{int64(p.LowerBoundDuration()), int64(p.UpperBoundDuration())})
		} else {
			got = append(got, c20Pair{fbits(p.LowerBoundValue()), fbits(p.UpperBoundValue())})
		}
		flat = append(flat, got[len(got)-1].lo, got[len(got)-1].hi)
	}
	k, ff := 31, c20FlagsFrom(0, len(c.Spec))
	of := c20FlagsFrom(0, len(flat))
	if c.Dur {
		k, ff, of = 32, 0, 0
	}
	in = []Ev{{K: k, I: append([]int64(nil), c.Spec...), F: ff}}
	obs = []Ev{{K: 60, I: flat, F: of}}
	if !c20Unchanged(b, c.Dur, c.Spec) {
		fail = "BucketPairs modified the caller's slice"
		return
	}
	// also the conversions must leave it alone
	b.AsValues()
	b.AsDurations()
	_ = b.String()
	if !c20Unchanged(b, c.Dur, c.Spec) {
		fail = "AsValues/AsDurations/String modified the caller's slice"
		return
	}
	want := c20Want(c.Dur, c.Spec)
	if len(want) != len(got) {
		fail = fmt.Sprintf("%d pairs for %d bounds", len(got), len(c.Spec))
		return
	}
	for i := range want {
		if !c20Same(c.Dur, want[i].lo, got[i].lo) || !c20Same(c.Dur, want[i].hi, got[i].hi) {
			fail = fmt.Sprintf("pair %d is (%d,%d), expected (%d,%d)", i, got[i].lo, got[i].hi, want[i].lo, want[i].hi)
			return
		}
	}
	return
}

// --- recording reporters for the cache cases

type c20Delivery struct {
	lo, hi, n int64
	own       int // creation whose slice was handed over; -1 unknown/empty; -3 a slice of nobody
	specOK    bool
}
type c20Rec struct {
	mu    sync.Mutex
	ptrs  map[unsafe.Pointer]int
	specs []c20Creation
	del   map[int][]c20Delivery
	alloc map[int][]c20Pair
	bad   []string
}

func c20Index(name string) int {
	i := strings.LastIndexByte(name, 'h')
	if i < 0 {
		return -1
	}
	n, err := strconv.Atoi(name[i+1:])
	if err != nil {
		return -1
	}
	return n
}

func (r *c20Rec) owner(b tally.Buckets) int {
	switch bb := b.(type) {
	case tally.ValueBuckets:
		if len(bb) == 0 {
			return -1
		}
		if j, ok := r.ptrs[unsafe.Pointer(&bb[0])]; ok {
			return j
		}
	case tally.DurationBuckets:
		if len(bb) == 0 {
			return -1
		}
		if j, ok := r.ptrs[unsafe.Pointer(&bb[0])]; ok {
			return j
		}
	}
	// a slice that is none of the callers': the library hands the reporter its private copy of the
	// specification (since fix F03c); whether its CONTENT is the requested one is specOK's question
	return -1
}

// specOK: the buckets handed to the reporter are, element by element, == to the requested ones.
func (r *c20Rec) specOK(i int, b tally.Buckets) bool {
	if i < 0 || i >= len(r.specs) {
		return false
	}
	cr := r.specs[i]
	switch bb := b.(type) {
	case tally.ValueBuckets:
		if cr.Dur || len(bb) != len(cr.Spec) {
			return false
		}
		for j := range bb {
			if bb[j] != c20f(cr.Spec[j]) {
				return false
			}
		}
		return true
	case tally.DurationBuckets:
		if !cr.Dur || len(bb) != len(cr.Spec) {
			return false
		}
		for j := range bb {
			if int64(bb[j]) != cr.Spec[j] {
				return false
			}
		}
		return true
	}
	return false
}

func (r *c20Rec) Capabilities() tally.Capabilities                     { return caps{true, true} }
func (r *c20Rec) Flush()                                               {}
func (r *c20Rec) ReportCounter(string, map[string]string, int64)       {}
func (r *c20Rec) ReportGauge(string, map[string]string, float64)       {}
func (r *c20Rec) ReportTimer(string, map[string]string, time.Duration) {}
func (r *c20Rec) ReportHistogramValueSamples(name string, _ map[string]string, b tally.Buckets, lo, hi float64, n int64) {
	i := c20Index(name)
	r.mu.Lock()
	defer r.mu.Unlock()
	if i < 0 || i >= len(r.specs) || r.specs[i].Dur {
		r.bad = append(r.bad, "value samples delivered for "+name)
		return
	}
	r.del[i] = append(r.del[i], c20Delivery{fbits(lo), fbits(hi), n, r.owner(b), r.specOK(i, b)})
}
func (r *c20Rec) ReportHistogramDurationSamples(name string, _ map[string]string, b tally.Buckets, lo, hi time.Duration, n int64) {
	i := c20Index(name)
	r.mu.Lock()
	defer r.mu.Unlock()
	if i < 0 || i >= len(r.specs) || !r.specs[i].Dur {
		r.bad = append(r.bad, "duration samples delivered for "+name)
		return
	}
	r.del[i] = append(r.del[i], c20Delivery{int64(lo), int64(hi), n, r.owner(b), r.specOK(i, b)})
}

// cached flavour
type c20Cached struct{ *c20Rec }
type c20CH struct {
	r *c20Rec
	i int
}
type c20CB struct {
	r      *c20Rec
	i      int
	lo, hi int64
}

func (c c20Cached) AllocateCounter(string, map[string]string) tally.CachedCount { return c20Nop{} }
func (c c20Cached) AllocateGauge(string, map[string]string) tally.CachedGauge   { return c20Nop{} }
func (c c20Cached) AllocateTimer(string, map[string]string) tally.CachedTimer   { return c20Nop{} }
func (c c20Cached) AllocateHistogram(name string, _ map[string]string, b tally.Buckets) tally.CachedHistogram {
	i := c20Index(name)
	c.mu.Lock()
	defer c.mu.Unlock()
	if !c.specOK(i, b) {
		c.bad = append(c.bad, "AllocateHistogram for "+name+" with buckets other than the requested ones")
	}
	return c20CH{c.c20Rec, i}
}

type c20Nop struct{}

func (c20Nop) ReportCount(int64)         {}
func (c20Nop) ReportGauge(float64)       {}
func (c20Nop) ReportTimer(time.Duration) {}

func (h c20CH) ValueBucket(lo, hi float64) tally.CachedHistogramBucket {
	h.r.mu.Lock()
	defer h.r.mu.Unlock()
	h.r.alloc[h.i] = append(h.r.alloc[h.i], c20Pair{fbits(lo), fbits(hi)})
	return c20CB{h.r, h.i, fbits(lo), fbits(hi)}
}
func (h c20CH) DurationBucket(lo, hi time.Duration) tally.CachedHistogramBucket {
	h.r.mu.Lock()
	defer h.r.mu.Unlock()
	h.r.alloc[h.i] = append(h.r.alloc[h.i], c20Pair{int64(lo), int64(hi)})
	return c20CB{h.r, h.i, int64(lo), int64(hi)}
}
func (b c20CB) ReportSamples(n int64) {
	b.r.mu.Lock()
	defer b.r.mu.Unlock()
	b.r.del[b.i] = append(b.r.del[b.i], c20Delivery{b.lo, b.hi, n, -1, true})
}

// c20RunCache runs a history once (sequential) or a few times on fresh roots
// (concurrent: each run is another interleaving); the first failing run, else
// the last one, is what is reported and sent to the model.
func c20RunCache(c *c20Case) (in, obs []Ev, fail string) {
	n := 1
	if c.T == 5 {
		n = 4
	}
	for k := 0; k < n; k++ {
		in, obs, fail = c20RunCacheOnce(c)
		if fail != "" {
			break
		}
	}
	return
}

func c20RunCacheOnce(c *c20Case) (in, obs []Ev, fail string) {
	rec := &c20Rec{ptrs: map[unsafe.Pointer]int{}, specs: c.Cr, del: map[int][]c20Delivery{}, alloc: map[int][]c20Pair{}}
	bks := make([]tally.Buckets, len(c.Cr))
	for i, cr := range c.Cr {
		bks[i] = c20MkBuckets(cr.Dur, cr.Spec)
		switch bb := bks[i].(type) {
		case tally.ValueBuckets:
			if len(bb) > 0 {
				rec.ptrs[unsafe.Pointer(&bb[0])] = i
			}
		case tally.DurationBuckets:
			if len(bb) > 0 {
				rec.ptrs[unsafe.Pointer(&bb[0])] = i
			}
		}
	}
	var root tally.Scope
	var closer interface{ Close() error }
	if c.Flavour == 0 {
		root, closer = tally.NewRootScope(tally.ScopeOptions{Reporter: rec}, 0)
	} else {
		root, closer = tally.NewRootScope(tally.ScopeOptions{CachedReporter: c20Cached{rec}}, 0)
	}
	scopes := []tally.Scope{root, root.SubScope("s"), root.Tagged(map[string]string{"k": "v"}), root.SubScope("s").Tagged(map[string]string{"a": "b"})}
	hs := make([]tally.Histogram, len(c.Cr))
	refilled := map[int]bool{} // creations whose slice the caller has re-used since
	refillFail := ""
	var pmu sync.Mutex
	panics := ""
	guard := func(what string, i int) {
		if p := recover(); p != nil {
			pmu.Lock()
			if panics == "" {
				panics = fmt.Sprintf("panic while %s histogram %d (%s) of %v: %v", what, i, c.Cr[i].How, c.Cr[i].Spec, p)
			}
			pmu.Unlock()
		}
	}
	create := func(i int) {
		defer guard("creating", i)
		hs[i] = scopes[c.Cr[i].Scope%len(scopes)].Histogram("h"+strconv.Itoa(i), bks[i])
	}
	record := func(i int) {
		defer guard("recording into", i)
		if hs[i] == nil {
			return
		}
		for _, v := range c.Cr[i].Samples {
			if c.Cr[i].Dur {
				hs[i].RecordDuration(time.Duration(v))
			} else {
				hs[i].RecordValue(c20f(v))
			}
		}
	}
	if c.T == 4 {
		for i := range c.Cr {
			if c.Cr[i].SameSlice && i > 0 && len(c.Cr[i].Spec) == len(c.Cr[i-1].Spec) && c.Cr[i].Dur == c.Cr[i-1].Dur {
				if !c20Unchanged(bks[i-1], c.Cr[i-1].Dur, c.Cr[i-1].Spec) && refillFail == "" {
					refillFail = fmt.Sprintf("the slice given to creation %d was modified", i-1)
				}
				switch bb := bks[i-1].(type) {
				case tally.ValueBuckets:
					for j := range bb {
						bb[j] = c20f(c.Cr[i].Spec[j])
					}
				case tally.DurationBuckets:
					for j := range bb {
						bb[j] = time.Duration(c.Cr[i].Spec[j])
					}
				}
				bks[i] = bks[i-1]
				refilled[i-1] = true
			}
			create(i)
		}
		for i := range c.Cr {
			record(i)
		}
	} else {
		w := c.Workers
		if w < 1 {
			w = 1
		}
		var arrived int32
		var wg sync.WaitGroup
		rounds := (len(c.Cr) + w - 1) / w
		for g := 0; g < w; g++ {
			wg.Add(1)
			go func(g int) {
				defer wg.Done()
				for rd := 0; rd < rounds; rd++ {
					// spin barrier: all goroutines enter a round together
					atomic.AddInt32(&arrived, 1)
					for spin := 0; atomic.LoadInt32(&arrived) < int32((rd+1)*w); spin++ {
						if spin%2000 == 1999 {
							runtime.Gosched()
						}
					}
					if i := rd*w + g; i < len(c.Cr) {
						create(i)
						record(i)
					}
				}
			}(g)
		}
		wg.Wait()
	}
	closer.Close()

	for _, cr := range c.Cr {
		k, ff := 31, c20FlagsFrom(1, len(cr.Spec)+len(cr.Samples))
		if cr.Dur {
			k, ff = 32, 0
		}
		I := append([]int64{int64(len(cr.Spec))}, cr.Spec...)
		I = append(I, cr.Samples...)
		in = append(in, Ev{K: k, I: I, F: ff})
	}
	rec.mu.Lock()
	defer rec.mu.Unlock()
	for i, cr := range c.Cr {
		if c.Flavour == 1 {
			var flat []int64
			for _, p := range rec.alloc[i] {
				flat = append(flat, p.lo, p.hi)
			}
			var ff uint32
			if !cr.Dur {
				ff = c20FlagsFrom(1, len(flat))
			}
			obs = append(obs, Ev{K: 72, I: append([]int64{int64(i)}, flat...), F: ff})
		}
		own := -1
		var flat []int64
		var ff uint32
		for j, d := range rec.del[i] {
			if j == 0 {
				own = d.own
			} else if d.own != own {
				own = -3
			}
			flat = append(flat, d.lo, d.hi, d.n)
			if !cr.Dur && 2+3*j+1 < 32 {
				ff |= 3 << uint(2+3*j)
			}
		}
		obs = append(obs, Ev{K: 71, I: append([]int64{int64(i), int64(own)}, flat...), F: ff})
	}

	// direct predicate: every histogram delivers through the bounds it was created with
	if panics != "" {
		fail = panics
		return
	}
	if len(rec.bad) > 0 {
		fail = rec.bad[0]
		return
	}
	if refillFail != "" {
		fail = refillFail
		return
	}
	for i, cr := range c.Cr {
		if !refilled[i] && !c20Unchanged(bks[i], cr.Dur, cr.Spec) {
			fail = fmt.Sprintf("the slice given to creation %d was modified", i)
			return
		}
		want := c20Want(cr.Dur, cr.Spec)
		if c.Flavour == 1 {
			got := rec.alloc[i]
			if len(got) != len(want) {
				fail = fmt.Sprintf("histogram %d (%s): %d buckets allocated, its specification has %d", i, cr.How, len(got), len(want))
				return
			}
			for j := range want {
				if !c20Same(cr.Dur, want[j].lo, got[j].lo) || !c20Same(cr.Dur, want[j].hi, got[j].hi) {
					fail = fmt.Sprintf("histogram %d (%s): bucket %d allocated as (%d,%d), its specification gives (%d,%d)", i, cr.How, j, got[j].lo, got[j].hi, want[j].lo, want[j].hi)
					return
				}
			}
		}
		counts := make([]int64, len(want))
		for _, v := range cr.Samples {
			for j := range want {
				ge := want[j].hi >= v
				if !cr.Dur {
					ge = c20f(want[j].hi) >= c20f(v)
				}
				if ge {
					counts[j]++
					break
				}
			}
		}
		var exp []c20Delivery
		for j := range want {
			if counts[j] > 0 {
				exp = append(exp, c20Delivery{lo: want[j].lo, hi: want[j].hi, n: counts[j]})
			}
		}
		got := rec.del[i]
		if len(got) != len(exp) {
			fail = fmt.Sprintf("histogram %d (%s) of %v: %d buckets delivered, expected %d", i, cr.How, cr.Spec, len(got), len(exp))
			return
		}
		for j := range exp {
			if !c20Same(cr.Dur, exp[j].lo, got[j].lo) || !c20Same(cr.Dur, exp[j].hi, got[j].hi) || exp[j].n != got[j].n {
				fail = fmt.Sprintf("histogram %d (%s) of %v: delivery %d is (%d,%d] x%d, its own bounds give (%d,%d] x%d", i, cr.How, cr.Spec, j, got[j].lo, got[j].hi, got[j].n, exp[j].lo, exp[j].hi, exp[j].n)
				return
			}
			if !got[j].specOK {
				fail = fmt.Sprintf("histogram %d (%s): the reporter was handed buckets that are not == to the ones it was created with", i, cr.How)
				return
			}
		}
	}
	return
}

// ---------------------------------------------------------------- registration

func c20Fixed() []c20Case {
	f := func(x float64) int64 { return fbits(x) }
	sm := func(dur bool, s []int64) []int64 { return c20Samples(NewRng(7), dur, s) }
	mk := func(t, fl int, specs ...c20Creation) c20Case {
		c := c20Case{T: t, Flavour: fl, Workers: 3}
		for _, s := range specs {
			s.Samples = sm(s.Dur, s.Spec)
			c.Cr = append(c.Cr, s)
		}
		return c
	}
	a := []int64{f(1), f(4)}
	b := []int64{f(2), f(2)} // bits(1)+bits(4) == 2*bits(2): same identity, different bounds
	var out []c20Case
	for t := 4; t <= 5; t++ {
		for fl := 0; fl < 2; fl++ {
			out = append(out,
				mk(t, fl, c20Creation{Spec: a}, c20Creation{Spec: b}, c20Creation{Spec: []int64{f(4), f(1)}}, c20Creation{Spec: a, Scope: 1}),
				mk(t, fl, c20Creation{Spec: b}, c20Creation{Spec: a, Scope: 2}, c20Creation{Dur: true, Spec: a}, c20Creation{Dur: true, Spec: b}),
				mk(t, fl, c20Creation{Spec: []int64{}}, c20Creation{Dur: true, Spec: []int64{}}, c20Creation{Spec: []int64{0, 0}}, c20Creation{Spec: []int64{f(math.Copysign(0, -1)), f(math.Copysign(0, -1))}}),
				mk(t, fl, c20Creation{Dur: true, Spec: []int64{10, 40}}, c20Creation{Dur: true, Spec: []int64{20, 30}}, c20Creation{Dur: true, Spec: []int64{50}}, c20Creation{Dur: true, Spec: []int64{40, 10}}),
			)
		}
	}
	// non-empty sets whose identity is that of the empty set (element sum = -23/31 mod 2^64),
	// alone, after an empty set of either kind, and before one
	zsum := -(23 * c20Inv31) // = 8925843906633654007
	zd := []int64{int64(250 * time.Millisecond), int64(time.Second), int64(zsum) - int64(1250*time.Millisecond)}
	zv := []int64{int64(zsum - uint64(f(1))), f(1)}
	for t := 4; t <= 5; t++ {
		for fl := 0; fl < 2; fl++ {
			out = append(out,
				mk(t, fl, c20Creation{Dur: true, Spec: zd}),
				mk(t, fl, c20Creation{Spec: zv}),
				mk(t, fl, c20Creation{Spec: []int64{}}, c20Creation{Dur: true, Spec: zd}, c20Creation{Spec: zv, Scope: 1}, c20Creation{Dur: true, Spec: []int64{}}),
				mk(t, fl, c20Creation{Spec: zv}, c20Creation{Dur: true, Spec: []int64{}}, c20Creation{Dur: true, Spec: zd}, c20Creation{Spec: []int64{}}, c20Creation{Dur: true, Spec: []int64{int64(zsum)}}),
				mk(t, fl, c20Creation{Dur: true, Spec: []int64{0}}, c20Creation{Spec: []int64{0}}, c20Creation{Dur: true, Spec: []int64{5, -5}}, c20Creation{Dur: true, Spec: []int64{0, 0, 0}}),
			)
		}
	}
	// the boundaries of the error rules, for every constructor
	for k := 1; k <= 4; k++ {
		st, w := f(1), f(2)
		if k == 2 || k == 4 {
			st = 1000
		}
		if k == 2 {
			w = 10
		}
		out = append(out, c20Case{T: 2, K: k, Start: st, W: w, N: 0}, c20Case{T: 2, K: k, Start: st, W: w, N: -1},
			c20Case{T: 2, K: k, Start: st, W: w, N: 1}, c20Case{T: 2, K: k, Start: st, W: w, N: 3})
		if k >= 3 {
			out = append(out, c20Case{T: 2, K: k, Start: st, W: f(1), N: 3}, c20Case{T: 2, K: k, Start: st, W: f(1.0000000000000002), N: 3},
				c20Case{T: 2, K: k, Start: 0, W: w, N: 3}, c20Case{T: 2, K: k, Start: st, W: f(0.9999999999999999), N: 3})
		}
	}
	out = append(out, c20Case{T: 2, K: 3, Start: f(math.Copysign(0, -1)), W: f(2), N: 3}, c20Case{T: 2, K: 3, Start: f(4.9e-324), W: f(2), N: 3},
		c20Case{T: 2, K: 4, Start: 1, W: f(2), N: 3}, c20Case{T: 2, K: 4, Start: -1, W: f(2), N: 3})
	// the classic: repeated addition differs from start + i*width
	out = append(out, c20Case{T: 2, K: 1, Start: f(0), W: f(0.1), N: 12},
		c20Case{T: 2, K: 3, Start: f(math.NaN()), W: f(2), N: 3},
		c20Case{T: 2, K: 3, Start: f(1), W: f(math.NaN()), N: 3},
		c20Case{T: 2, K: 4, Start: 1 << 62, W: f(1.9999999999999998), N: 2},
		c20Case{T: 2, K: 4, Start: math.MaxInt64, W: f(2), N: 1},
		c20Case{T: 2, K: 2, Start: math.MaxInt64 - 5, W: 3, N: 6},
		c20Case{T: 3, Spec: []int64{f(3), f(1), f(2), f(1)}},
		c20Case{T: 3, Dur: true, Spec: []int64{5, math.MinInt64, math.MaxInt64, -1}},
		c20Case{T: 3, Spec: []int64{}},
	)
	return out
}

func init() {
	props["C20"] = func(ctx *Ctx) {
		ctx.Header("BCacheCorr")
		ctx.Res.Rule = "case = float operation batch | constructor call | BucketPairs call | history of histogram creations under one root (sequential or from 2..6 goroutines; plain or cached reporter) | storm of concurrent BucketPairs derivations / histogram creations with distinct sets (direct predicate only); non-trivial = constructor call without error, or a history in which at least two creations share their cache identity; distinct by case hash"
		ctx.Note("value specifications contain no NaN (sort order unspecified) and never both +0 and -0; samples are finite (C03 covers the rest); every creation uses its own slice, never touched by the harness afterwards; float->int64 conversions whose result is used are kept in the range where Go defines them; bounds are compared with == of the element type (the sign of a float zero may change through a float-equal cache hit)")
		ctx.Note("that BucketPairs / Histogram() leave the caller's slice unchanged is checked by the harness only: aliasing does not exist in the immutable model")
		ctx.Note("storm/pairs and storm/reporter are uncontrolled stress streams (a fixed number of iterations, no timing verdicts): concurrent derivations of bucket pairs for DIFFERENT sets, directly and through a cached reporter that calls BucketPairs in AllocateHistogram; they sample interleavings and are judged by the direct predicate only (pairs = tiling of their own set, computed independently)")
		one := func(c *c20Case) {
			var in, obs []Ev
			var fail, cls, key string
			par := []int64{int64(c.T)}
			run := func(f func() ([]Ev, []Ev, string)) {
				defer func() {
					if p := recover(); p != nil {
						in, obs, fail = nil, nil, fmt.Sprintf("panic: %v", p)
					}
				}()
				in, obs, fail = f()
			}
			switch c.T {
			case 1:
				in, obs = c20RunArith(c)
				cls = "arith"
			case 2:
				run(func() ([]Ev, []Ev, string) { return c20RunCtor(c) })
				cls = "ctor/" + []string{"", "linear-value", "linear-duration", "exp-value", "exp-duration"}[c.K]
				if len(obs) > 0 && len(obs[0].I) > 0 && obs[0].I[0] == 0 {
					key = hashOf(c)
				} else {
					cls += "/error"
				}
			case 3:
				run(func() ([]Ev, []Ev, string) { return c20RunPairs(c) })
				cls = "pairs"
				if len(c.Spec) > 1 {
					key = hashOf(c)
				}
			case 4, 5:
				run(func() ([]Ev, []Ev, string) { return c20RunCache(c) })
				par = append(par, int64(c.Flavour))
				cls = map[int]string{4: "cache/seq", 5: "cache/conc"}[c.T] + map[int]string{0: "/plain", 1: "/cached"}[c.Flavour]
				ids := map[uint64]int{}
				for _, cr := range c.Cr {
					id := uint64(0)
					if len(cr.Spec) > 0 {
						id = 23
						for _, v := range cr.Spec {
							id += uint64(v) * 31
						}
					}
					ids[id]++
					if ids[id] == 2 {
						key = hashOf(c)
					}
				}
			case 6, 7:
				// uncontrolled storms: direct predicate only, not sent to the model
				if c.T == 6 {
					run(func() ([]Ev, []Ev, string) { return nil, nil, c20RunPairsStorm(c) })
					cls = "storm/pairs"
				} else {
					run(func() ([]Ev, []Ev, string) { return nil, nil, c20RunReporterStorm(c) })
					cls = "storm/reporter"
				}
				ctx.Case(c, "", cls, hashOf(c))
				if fail != "" {
					ctx.Fail(map[int]string{6: "bucket_pairs_are_the_tiling_of_their_own_set", 7: "histogram_keeps_its_bounds"}[c.T], fail, c, nil)
				}
				return
			default:
				return
			}
			idx := ctx.Res.Evaluations
			ctx.Case(c, gcase(idx, par, in, obs), cls, key)
			if fail != "" {
				pred := map[int]string{2: "constructor_follows_recurrence_and_error_rules", 3: "bucket_pairs_sorted_copy_caller_slice_unchanged",
					4: "histogram_keeps_its_bounds", 5: "histogram_keeps_its_bounds"}[c.T]
				ctx.Fail(pred, fail, c, obs)
			}
		}
		if ctx.Replay != nil {
			var c c20Case
			if err := json.Unmarshal(ctx.Replay, &c); err != nil {
				fatal(err)
			}
			one(&c)
			return
		}
		for _, raw := range ctx.CorpusCases() {
			var c c20Case
			if json.Unmarshal(raw, &c) == nil {
				one(&c)
			}
		}
		for _, c := range c20Fixed() {
			c := c
			one(&c)
		}
		nA, nC, nP, nS, nG := ctx.N(250, 2500), ctx.N(500, 5000), ctx.N(120, 1200), ctx.N(320, 4000), ctx.N(240, 3200)
		for i := 0; i < nA; i++ {
			c := c20GenArith(ctx.R)
			one(&c)
		}
		for i := 0; i < nC; i++ {
			c := c20GenCtor(ctx.R)
			one(&c)
		}
		for i := 0; i < nP; i++ {
			dur := ctx.R.Chance(40)
			c := c20Case{T: 3, Dur: dur, Spec: c20Spec(ctx.R, dur, ctx.R.Intn(8))}
			one(&c)
		}
		for i := 0; i < nS; i++ {
			c := c20GenCache(ctx.R, false)
			one(&c)
		}
		for i := 0; i < nG; i++ {
			c := c20GenCache(ctx.R, true)
			one(&c)
		}
		// stress streams (a fixed number of iterations each; see c20storm.go)
		for i, n := 0, ctx.N(8, 40); i < n; i++ {
			c := c20GenStorm(ctx.R, 6)
			one(&c)
		}
		for i, n := 0, ctx.N(5, 25); i < n; i++ {
			c := c20GenStorm(ctx.R, 7)
			one(&c)
		}
	}
}
