package main

// C01 — counter delta conservation under every interleaving of increments
// and concurrent report passes. Controlled schedules over the yield points
// inside counter.value(), through the public scope API and the registry's
// real report pass.

import (
	"encoding/json"
	"fmt"
	"math"
	"runtime"
	"strings"
	"sync"
	"time"

	tally "github.com/uber-go/tally/v4"
)

type c01Case struct {
	Cached bool      `json:"cached"`
	Incs   [][]int64 `json:"incs"`  // one list of increments per incrementing goroutine
	Reps   []int     `json:"reps"`  // passes per reporting goroutine
	Sched  []int     `json:"sched"` // thread picks; threads = incs, then reps, then two final single-pass reporters
}

type c01Out struct {
	Labels []int64 `json:"labels"`
	Deltas []int64 `json:"deltas"`
	Sched  []int   `json:"sched"` // the schedule actually executed (completed to the end)
	Idle   int     `json:"idle_pass_deliveries"`
}

// setYield installs the controller for the yield points inside the metric
// types (counter.value 1..3, gauge 11/21/22); the registry's and the report
// loop's yield points pass through.
func setYield(c *Ctl) {
	if c == nil {
		tally.VerifSetYield((func(int))(nil))
		return
	}
	tally.VerifSetYield(func(p int) {
		if p < 30 {
			c.Yield(p)
		}
	})
}

// c01Exec runs the case; when complete is true the schedule is extended (first
// unfinished thread first) until every thread has finished, then the two final
// reporters run. Returns the outcome and the set of unfinished threads after
// the given schedule (for enumeration).
func c01Exec(c *c01Case, complete bool) (out c01Out, enabled []int) {
	log := &Log{}
	opts := tally.ScopeOptions{OmitCardinalityMetrics: true}
	if c.Cached {
		opts.CachedReporter = &RecCached{L: log, Caps: caps{true, true}}
	} else {
		opts.Reporter = &RecReporter{L: log, Caps: caps{true, true}}
	}
	scope, closer := tally.VerifNewRootScope(opts, 0, 1)
	ctr := scope.Counter("c")
	ctl := NewCtl()
	setYield(ctl)
	defer func() {
		setYield(nil)
		closer.Close()
	}()
	for _, vs := range c.Incs {
		vs := vs
		ctl.Go(func() {
			for i, v := range vs {
				if i > 0 {
					ctl.Yield(0)
				}
				ctr.Inc(v)
			}
		})
	}
	rep := func(n int) func() {
		return func() {
			for i := 0; i < n; i++ {
				if i > 0 {
					ctl.Yield(0)
				}
				tally.VerifReportOnce(scope)
			}
		}
	}
	for _, n := range c.Reps {
		ctl.Go(rep(n))
	}
	nmain := ctl.N()
	step := func(i int) {
		l := ctl.Step(i)
		if l == Stutter {
			l = Finished
		}
		out.Labels = append(out.Labels, int64(l))
		out.Sched = append(out.Sched, i)
	}
	for _, i := range c.Sched {
		if i < nmain {
			step(i)
		}
	}
	for i := 0; i < nmain; i++ {
		if !ctl.Done(i) {
			enabled = append(enabled, i)
		}
	}
	if !complete {
		ctl.Drain()
		return
	}
	for i := 0; i < nmain; i++ {
		for !ctl.Done(i) {
			step(i)
		}
	}
	// activity has stopped: one more report pass, then an idle one
	f1 := ctl.Go(rep(1))
	for !ctl.Done(f1) {
		step(f1)
	}
	before := log.Len()
	f2 := ctl.Go(rep(1))
	for !ctl.Done(f2) {
		step(f2)
	}
	for _, e := range log.Snapshot()[before:] {
		if e.K == 1 || e.K == 21 {
			out.Idle++
		}
	}
	for _, e := range log.Snapshot() {
		switch e.K {
		case 1:
			out.Deltas = append(out.Deltas, e.I[0])
		case 21:
			out.Deltas = append(out.Deltas, e.I[1])
		}
	}
	return
}

func c01Predicate(c *c01Case, out *c01Out, idleFrom int) string {
	var sum, got uint64
	nonneg, total := true, new(float64)
	for _, vs := range c.Incs {
		for _, v := range vs {
			sum += uint64(v)
			if v < 0 {
				nonneg = false
			}
			*total += float64(v)
		}
	}
	for _, d := range out.Deltas {
		got += uint64(d)
	}
	if out.Idle != 0 {
		return fmt.Sprintf("a report pass with no new increments delivered %d values", out.Idle)
	}
	if got != sum {
		return fmt.Sprintf("delivered deltas %v add up to %d, increments add up to %d (mod 2^64)", out.Deltas, int64(got), int64(sum))
	}
	for _, d := range out.Deltas {
		if d == 0 {
			return "a zero delta was delivered"
		}
		if nonneg && *total < math.MaxInt64/2 && d < 0 {
			return fmt.Sprintf("negative delta %d delivered although every increment is non-negative", d)
		}
	}
	return ""
}

func c01Term(idx int, c *c01Case, out *c01Out) string {
	var in []Ev
	for _, vs := range c.Incs {
		in = append(in, Ev{K: 40, I: vs})
	}
	for _, n := range c.Reps {
		in = append(in, Ev{K: 41, I: []int64{int64(n)}})
	}
	in = append(in, Ev{K: 41, I: []int64{1}}, Ev{K: 41, I: []int64{1}})
	s := make([]int64, len(out.Sched))
	for i, v := range out.Sched {
		s[i] = int64(v)
	}
	in = append(in, Ev{K: 42, I: s})
	obs := []Ev{{K: 43, I: out.Labels}, {K: 44, I: out.Deltas}}
	flav := int64(0)
	if c.Cached {
		flav = 1
	}
	return gcase(idx, []int64{flav}, in, obs)
}

func init() {
	props["C01"] = func(ctx *Ctx) {
		ctx.Header("CounterCorr")
		ctx.Res.Rule = "case = (increment lists per goroutine, passes per reporting goroutine, reporter flavour, complete schedule over the yield points of counter.value()); every schedule ends with one more report pass and an idle pass; exhaustive enumeration of all interleavings for the small pool, seeded random schedules for larger pools; non-trivial = at least two threads were interleaved inside value(); distinct by (pool, executed schedule)"
		nsched := 0
		one := func(c *c01Case) {
			out, _ := c01Exec(c, true)
			fail := c01Predicate(c, &out, 0)
			// the idle pass must deliver nothing: re-run bookkeeping is inside the
			// predicate via the sum; the explicit check is on the last reporter
			key := ""
			inter := false
			for i := 1; i < len(out.Sched); i++ {
				if out.Sched[i] != out.Sched[i-1] && out.Labels[i-1] > 0 {
					inter = true
				}
			}
			if inter {
				key = hashOf([]interface{}{c.Incs, c.Reps, c.Cached, out.Sched})
			}
			cls := fmt.Sprintf("threads=%d+%d", len(c.Incs), len(c.Reps))
			idx := ctx.Res.Evaluations
			cc := *c
			cc.Sched = out.Sched
			ctx.Case(cc, c01Term(idx, c, &out), cls, key)
			nsched++
			if fail != "" {
				ctx.Fail("deliveries_add_up_to_increments", fail, cc, out)
			}
		}
		if ctx.Replay != nil {
			var probe struct {
				Stress bool `json:"stress"`
				Cached bool `json:"cached"`
			}
			if json.Unmarshal(ctx.Replay, &probe) == nil && probe.Stress {
				for k := 0; k < 200; k++ {
					if f := c01Stress(uint64(k), probe.Cached); f != "" {
						ctx.Case(probe, "", "uncontrolled-concurrent-passes", "")
						ctx.Fail("deliveries_add_up_to_increments", f, probe, nil)
						return
					}
				}
				return
			}
			var hp struct {
				H      bool `json:"histogram_stress"`
				Cached bool `json:"cached"`
				Dur    bool `json:"durations"`
			}
			if json.Unmarshal(ctx.Replay, &hp) == nil && hp.H {
				ctx.Case(hp, "", "histogram-bucket-counts-overlapping-passes", "")
				for k := 0; k < 60; k++ {
					if f := c03Stress(uint64(k), hp.Cached, hp.Dur); f != "" {
						ctx.Fail("deliveries_add_up_to_increments", "histogram bucket counts: "+f, hp, nil)
						return
					}
				}
				return
			}
			var cyc c02CycleCase
			if json.Unmarshal(ctx.Replay, &cyc) == nil && cyc.Cycle {
				ctx.Case(cyc, "", "close-and-reobtain-cycles", "")
				if _, f := c02CycleBoth(&cyc); f != "" {
					ctx.Fail("deliveries_add_up_to_increments", f, cyc, nil)
				}
				return
			}
			var cm struct {
				R      bool `json:"caller_map_reuse"`
				Cached bool `json:"cached"`
				PT     bool `json:"parent_tagged"`
				San    bool `json:"sanitizer"`
			}
			if json.Unmarshal(ctx.Replay, &cm) == nil && cm.R {
				ctx.Case(cm, "", "caller-map-reused-after-tagged", "")
				if f := callerMapReuse(0, cm.Cached, cm.PT, cm.San); f != "" {
					ctx.Fail("deliveries_add_up_to_increments", f, cm, nil)
				}
				return
			}
			var ov struct {
				O      bool `json:"override_parent_tag"`
				Cached bool `json:"cached"`
				NP     int  `json:"parent_tags"`
				NR     int  `json:"requested_tags"`
			}
			if json.Unmarshal(ctx.Replay, &ov) == nil && ov.O {
				ctx.Case(ov, "", "tagged-overrides-a-parent-tag", "")
				if f := c01Override(ov.Cached, ov.NP, ov.NR); f != "" {
					ctx.Fail("deliveries_add_up_to_increments", f, ov, nil)
				}
				return
			}
			var sh struct {
				S      bool `json:"stale_handles"`
				Cached bool `json:"cached"`
				ByPass bool `json:"dropped_by_pass"`
				Rounds int  `json:"rounds"`
			}
			if json.Unmarshal(ctx.Replay, &sh) == nil && sh.S {
				ctx.Case(sh, "", "increments-through-handles-of-dropped-scopes", "")
				if f := c01Stale(sh.Cached, sh.ByPass, sh.Rounds); f != "" {
					ctx.Fail("deliveries_add_up_to_increments", f, sh, nil)
				}
				return
			}
			var cs8 struct {
				S      bool `json:"close_during_stalled_delivery"`
				Cached bool `json:"cached"`
				Which  int  `json:"stalled_scope"`
			}
			if json.Unmarshal(ctx.Replay, &cs8) == nil && cs8.S {
				ctx.Case(cs8, "", "root-close-during-stalled-delivery", "")
				for k := 0; k < 40; k++ {
					if f := c08InFlight(cs8.Cached, false, cs8.Which); f != "" {
						ctx.Fail("deliveries_add_up_to_increments", f, cs8, nil)
						return
					}
				}
				return
			}
			var rr struct {
				Kind   string `json:"concurrent_recorders"`
				Cached bool   `json:"cached"`
				Dur    bool   `json:"durations"`
				Par    int    `json:"goroutines"`
			}
			if json.Unmarshal(ctx.Replay, &rr) == nil && rr.Kind != "" {
				ctx.Case(rr, "", "concurrent-recorders-"+rr.Kind, "")
				for k := 0; k < 20; k++ {
					f := ""
					if rr.Kind == "first-use" {
						f = c01FirstUse(rr.Cached, 400, rr.Par)
					} else {
						f = c01HistRecorders(rr.Cached, rr.Dur, 1500, rr.Par)
					}
					if f != "" {
						ctx.Fail("deliveries_add_up_to_increments", f, rr, nil)
						return
					}
				}
				return
			}
			var rp struct {
				CtrYields bool `json:"ctr_yields"`
			}
			if json.Unmarshal(ctx.Replay, &rp) == nil && rp.CtrYields {
				regReplay(ctx, "deliveries_add_up_to_increments")
				return
			}
			var c c01Case
			if err := json.Unmarshal(ctx.Replay, &c); err != nil {
				fatal(err)
			}
			one(&c)
			return
		}
		for _, raw := range ctx.CorpusCases() {
			var c c01Case
			if json.Unmarshal(raw, &c) == nil {
				one(&c)
			}
		}
		// exhaustive: every interleaving of the small pool
		exhaust := func(base c01Case, limit int) int {
			count := 0
			var rec func(prefix []int)
			rec = func(prefix []int) {
				if count >= limit {
					return
				}
				c := base
				c.Sched = prefix
				_, enabled := c01Exec(&c, false)
				if len(enabled) == 0 {
					one(&c)
					count++
					return
				}
				for _, i := range enabled {
					rec(append(append([]int(nil), prefix...), i))
				}
			}
			rec(nil)
			return count
		}
		n1 := exhaust(c01Case{Cached: false, Incs: [][]int64{{5, 7}}, Reps: []int{1, 1}}, 100000)
		ctx.Res.SchedExhaustive = true
		ctx.Res.Extra["exhaustive_pool_1inc2_2rep1"] = n1
		if ctx.Thorough() {
			n2 := exhaust(c01Case{Cached: true, Incs: [][]int64{{math.MaxInt64, 1}}, Reps: []int{2, 1}}, 60000)
			ctx.Res.Extra["exhaustive_pool_1inc2_rep2_rep1_cached"] = n2
		}
		// random schedules on larger pools
		n := ctx.N(300, 6000)
		for k := 0; k < n; k++ {
			r := ctx.R
			c := c01Case{Cached: r.Bool()}
			for i, ni := 0, r.Range(1, 3); i < ni; i++ {
				var vs []int64
				for j, nj := 0, r.Range(0, 3); j < nj; j++ {
					if r.Chance(50) {
						vs = append(vs, int64(r.Intn(10)))
					} else {
						vs = append(vs, r.I64())
					}
				}
				c.Incs = append(c.Incs, vs)
			}
			for i, ni := 0, r.Range(1, 3); i < ni; i++ {
				c.Reps = append(c.Reps, r.Range(0, 3))
			}
			nt := len(c.Incs) + len(c.Reps)
			// a long random pick sequence; finished threads stutter, the run is completed afterwards
			for j := 0; j < 40; j++ {
				c.Sched = append(c.Sched, r.Intn(nt))
			}
			one(&c)
		}
		ctx.Res.Schedules = nsched
		// uncontrolled: really concurrent report passes (as the ticker, Close and a re-request of a
		// closed scope can be) racing increments; only the direct predicate applies here
		rounds := ctx.N(40, 1500)
		bad := 0
		for k := 0; k < rounds; k++ {
			if f := c01Stress(ctx.R.U64(), k%2 == 1); f != "" {
				bad++
				if bad == 1 {
					ctx.Fail("deliveries_add_up_to_increments", f, map[string]interface{}{"stress": true, "cached": k%2 == 1}, nil)
				}
			}
			ctx.Res.Evaluations++
			ctx.Res.Histogram["uncontrolled-concurrent-passes"]++
		}
		ctx.Res.Extra["stress_rounds_failed"] = bad
		// "histogram bucket sample counts use the same mechanism and are covered too": bursts of samples
		// against three goroutines running report passes; after every burst each reporter completes two
		// more passes and the per-bucket counts delivered must equal the samples recorded (stream of C03)
		for k := 0; k < ctx.N(6, 120); k++ {
			cs := map[string]interface{}{"histogram_stress": true, "cached": k%2 == 1, "durations": k%4 >= 2}
			f := c03Stress(ctx.R.U64(), k%2 == 1, k%4 >= 2)
			ctx.Case(cs, "", "histogram-bucket-counts-overlapping-passes", "")
			if f != "" {
				ctx.Fail("deliveries_add_up_to_increments", "histogram bucket counts: "+f, cs, nil)
				break
			}
		}
		// root Close while a periodic pass is stalled inside a delivery (real ticker, default shard
		// count), every counter incremented in between: the sums must add up when Close returns (stream of C08)
		for k := 0; k < 40; k++ {
			// mostly a subscope's delivery: whether it sits alone in its shard and is visited before
			// the root there is up to the hash seed and the map order of the run
			which := []int{0, 1, 2, 1, 2}[k/2%5]
			cs := map[string]interface{}{"close_during_stalled_delivery": true, "cached": k%2 == 1, "stalled_scope": which}
			ctx.Case(cs, "", "root-close-during-stalled-delivery", "")
			if f := c08InFlight(k%2 == 1, false, which); f != "" {
				ctx.Fail("deliveries_add_up_to_increments", f, cs, nil)
				break
			}
		}
		// scopes obtained through spellings that a sanitizer merges (tag keys or sub-scope names), closed
		// and obtained again, with and without passes in between (stream of C02): the increments add up
		for k, nk := 0, ctx.N(400, 6000); k < nk; k++ {
			cy := c02GenCycle(ctx.R)
			ctx.Case(cy, "", "close-and-reobtain-cycles", "")
			if _, f := c02CycleBoth(&cy); f != "" {
				ctx.Fail("deliveries_add_up_to_increments", f, cy, nil)
				break
			}
		}
		// the caller re-uses the map it handed to Tagged: every counter is delivered under the tags its
		// scope was derived with
		for k := 0; k < 8; k++ {
			cs := map[string]interface{}{"caller_map_reuse": true, "cached": k&1 == 1, "parent_tagged": k&2 == 2, "sanitizer": k&4 == 4}
			ctx.Case(cs, "", "caller-map-reused-after-tagged", "")
			if f := callerMapReuse(0, k&1 == 1, k&2 == 2, k&4 == 4); f != "" {
				ctx.Fail("deliveries_add_up_to_increments", f, cs, nil)
			}
		}
		// a Tagged map overriding a tag of its parent, smaller than, as large as and larger than the
		// parent's tag set
		for k := 0; k < 18; k++ {
			cs := map[string]interface{}{"override_parent_tag": true, "cached": k%2 == 1, "parent_tags": 1 + k/2%3, "requested_tags": 1 + k/6}
			ctx.Case(cs, "", "tagged-overrides-a-parent-tag", "")
			if f := c01Override(k%2 == 1, 1+k/2%3, 1+k/6); f != "" {
				ctx.Fail("deliveries_add_up_to_increments", f, cs, nil)
			}
		}
		// handles of dropped scopes stay harmless for every other counter and histogram
		for k := 0; k < 4; k++ {
			cs := map[string]interface{}{"stale_handles": true, "cached": k%2 == 1, "dropped_by_pass": k < 2, "rounds": 40}
			ctx.Case(cs, "", "increments-through-handles-of-dropped-scopes", "")
			if f := c01Stale(k%2 == 1, k < 2, 40); f != "" {
				ctx.Fail("deliveries_add_up_to_increments", f, cs, nil)
			}
		}
		// only the recording side is concurrent: first use of one counter by several goroutines at once;
		// samples into different buckets of a fresh histogram at once; then one pass
		for k, nk := 0, ctx.N(4, 40); k < nk; k++ {
			par := 2 + k%3*2
			cs := map[string]interface{}{"concurrent_recorders": "first-use", "cached": k%2 == 1, "goroutines": par}
			ctx.Case(cs, "", "concurrent-recorders-first-use", "")
			if f := c01FirstUse(k%2 == 1, 400, par); f != "" {
				ctx.Fail("deliveries_add_up_to_increments", f, cs, nil)
				break
			}
		}
		for k, nk := 0, ctx.N(9, 60); k < nk; k++ {
			par := []int{2, 4, 12, 8, 6, 12, 3, 8, 12}[k%9]
			cs := map[string]interface{}{"concurrent_recorders": "histogram-buckets", "cached": k%2 == 1, "durations": k%4 >= 2, "goroutines": par}
			ctx.Case(cs, "", "concurrent-recorders-histogram-buckets", "")
			if f := c01HistRecorders(k%2 == 1, k%4 >= 2, 1500, par); f != "" {
				ctx.Fail("deliveries_add_up_to_increments", "histogram bucket counts: "+f, cs, nil)
				break
			}
		}
		// the last report of a closed scope (by a pass, or by asking for the scope again) while another
		// counter of that scope is being registered (the first-use call sits inside the reporter's
		// Allocate, holding the scope's counter lock): what was recorded must still be delivered
		for k := 0; k < 4; k++ {
			cs := map[string]interface{}{"registration_during_last_report": true, "by_pass": k%2 == 0, "omit_cardinality": k < 2}
			ctx.Case(cs, "", "registration-overlapping-the-last-report", "")
			if f := c01RegDuringLastReport(k%2 == 0, k < 2); f != "" {
				ctx.Fail("deliveries_add_up_to_increments", f, cs, nil)
			}
		}
		// "a report triggered by re-requesting a closed scope": registry cycles (obtain, record, Close,
		// obtain again) against report passes, with the yield points inside counter.value taking part,
		// so that the re-request's report and a pass overlap inside one counter; the re-request's report
		// is that counter's last one (its scope is dropped afterwards). Direct predicate.
		var regCases []regCase
		// (a) every schedule with at most two preemptions of (one cycle, one pass): the pass runs p
		// steps, the application q steps, then the pass to its end, then the application
		for _, cached := range []bool{false, true} {
			for p := 0; p <= 12; p++ {
				for q := 0; q <= 22; q++ {
					rc := regCase{Cached: cached, Shards: 1, Spell: []B{"a"}, CtrYields: true, Passes: []int{1},
						Progs: [][]regOp{{{Op: "get"}, {Op: "inc"}, {Op: "inc"}, {Op: "close"}, {Op: "get"}, {Op: "inc"}}}}
					// the application first obtains the scope (two steps) and records once, so that the pass finds a counter
					rc.Sched = append(rc.Sched, 0, 0, 0)
					for i := 0; i < p; i++ {
						rc.Sched = append(rc.Sched, 1)
					}
					for i := 0; i < q; i++ {
						rc.Sched = append(rc.Sched, 0)
					}
					for i := 0; i < 40; i++ {
						rc.Sched = append(rc.Sched, 1)
					}
					regCases = append(regCases, rc)
				}
			}
		}
		// (b) random pools with sticky schedules
		nreg := ctx.N(120, 3000)
		for k := 0; k < nreg; k++ {
			regCases = append(regCases, c01RegGen(ctx.R))
		}
		for k := range regCases {
			rc := regCases[k]
			out, _ := c07Exec(&rc, true)
			cc := rc
			cc.Sched = out.Sched
			ctx.Case(cc, "", "closed-scope-re-request-vs-pass", "")
			if f := regPredicate(&out); f != "" {
				ctx.Fail("deliveries_add_up_to_increments", "re-request of a closed scope overlapping a report pass inside counter.value: "+f, cc, out)
			}
		}
	}
}

type c01SlowAlloc struct {
	*RecCached
	entered chan struct{}
	release chan struct{}
}

func (r *c01SlowAlloc) AllocateCounter(name string, tags map[string]string) tally.CachedCount {
	if strings.HasSuffix(name, "slow") {
		close(r.entered)
		<-r.release
	}
	return r.RecCached.AllocateCounter(name, tags)
}

func c01RegDuringLastReport(byPass, omit bool) string {
	log := &Log{}
	rep := &c01SlowAlloc{RecCached: &RecCached{L: log, Caps: caps{true, true}}, entered: make(chan struct{}), release: make(chan struct{})}
	root, closer := tally.VerifNewRootScope(tally.ScopeOptions{OmitCardinalityMetrics: omit, CachedReporter: rep}, 0, 1)
	defer closer.Close()
	tags := map[string]string{"k": "v"}
	sub := root.Tagged(tags)
	sub.Counter("hits").Inc(5)
	var wg sync.WaitGroup
	wg.Add(1)
	go func() { defer wg.Done(); sub.Counter("slow").Inc(2) }()
	<-rep.entered // the registering goroutine holds the scope's counter lock, inside Allocate
	sub.(interface{ Close() error }).Close()
	done := make(chan struct{})
	go func() {
		if byPass {
			tally.VerifReportOnce(root)
		} else {
			root.Tagged(tags).Counter("hits").Inc(0)
		}
		close(done)
	}()
	for i := 0; i < 2000; i++ {
		runtime.Gosched()
	}
	time.Sleep(2 * time.Millisecond)
	close(rep.release)
	<-done
	wg.Wait()
	tally.VerifReportOnce(root)
	tally.VerifReportOnce(root)
	var sum int64
	alloc := map[int64]string{}
	for _, e := range log.Snapshot() {
		switch e.K {
		case 11:
			alloc[e.I[0]] = e.S[0]
		case 21:
			if alloc[e.I[0]] == "hits" {
				sum += e.I[1]
			}
		}
	}
	if sum != 5 {
		how := "a report pass"
		if !byPass {
			how = "a request for the same scope"
		}
		return fmt.Sprintf("5 was recorded on counter \"hits\" of a subscope; the subscope was closed and %s reported and dropped it while another counter of the subscope was being registered; %d delivered under \"hits\"", how, sum)
	}
	return ""
}

// c01RegGen: one or two application goroutines running (obtain k, record.., Close, obtain k, record..)
// cycles on one or two identities, one or two reporting goroutines; sticky random schedule (the same
// goroutine keeps running with probability 3/4), so that whole call sequences fit between two steps of
// a pass that is parked inside counter.value.
func c01RegGen(r *Rng) regCase {
	c := regCase{Cached: r.Bool(), Shards: 1, San: r.Chance(30), CtrYields: true}
	ns := r.Range(1, 2)
	for i := 0; i < ns; i++ {
		c.Spell = append(c.Spell, c07Spellings[i])
	}
	for t, nt := 0, r.Range(1, 2); t < nt; t++ {
		k := r.Intn(ns)
		prog := []regOp{{Op: "get", K: k}}
		for j, nj := 0, r.Range(1, 3); j < nj; j++ {
			prog = append(prog, regOp{Op: "inc"})
		}
		for cyc, ncyc := 0, r.Range(1, 2); cyc < ncyc; cyc++ {
			if r.Chance(70) {
				for j, nj := 0, r.Range(0, 2); j < nj; j++ {
					prog = append(prog, regOp{Op: "inc"})
				}
			}
			prog = append(prog, regOp{Op: "close"}, regOp{Op: "get", K: k})
			for j, nj := 0, r.Range(0, 2); j < nj; j++ {
				prog = append(prog, regOp{Op: "inc"})
			}
		}
		c.Progs = append(c.Progs, prog)
	}
	for i, ni := 0, r.Range(1, 2); i < ni; i++ {
		c.Passes = append(c.Passes, r.Range(1, 3))
	}
	nt := len(c.Progs) + len(c.Passes)
	cur := r.Intn(nt)
	for j := 0; j < 160; j++ {
		if !r.Chance(75) {
			cur = r.Intn(nt)
		}
		c.Sched = append(c.Sched, cur)
	}
	return c
}

// c01Stress: two incrementing goroutines and three goroutines running report passes at once.
func c01Stress(seed uint64, cached bool) string {
	log := &Log{}
	opts := tally.ScopeOptions{OmitCardinalityMetrics: true}
	if cached {
		opts.CachedReporter = &RecCached{L: log, Caps: caps{true, true}}
	} else {
		opts.Reporter = &RecReporter{L: log, Caps: caps{true, true}}
	}
	scope, closer := tally.VerifNewRootScope(opts, 0, 2)
	ctr := scope.Tagged(map[string]string{"a": "b"}).Counter("c")
	const n = 1500
	var wg, rg sync.WaitGroup
	stop := make(chan struct{})
	for g := 0; g < 2; g++ {
		wg.Add(1)
		go func() {
			defer wg.Done()
			for i := 0; i < n; i++ {
				ctr.Inc(1)
				if i%64 == 0 {
					runtime.Gosched()
				}
			}
		}()
	}
	for g := 0; g < 3; g++ {
		rg.Add(1)
		go func() {
			defer rg.Done()
			for {
				select {
				case <-stop:
					return
				default:
				}
				tally.VerifReportOnce(scope)
			}
		}()
	}
	wg.Wait()
	close(stop)
	rg.Wait()
	tally.VerifReportOnce(scope)
	closer.Close()
	var sum int64
	for _, e := range log.Snapshot() {
		var d int64
		switch e.K {
		case 1:
			d = e.I[0]
		case 21:
			d = e.I[1]
		default:
			continue
		}
		if d <= 0 {
			return fmt.Sprintf("concurrent report passes: delta %d delivered although every increment is +1", d)
		}
		sum += d
	}
	if sum != 2*n {
		return fmt.Sprintf("concurrent report passes: %d increments of +1 were made, the deliveries add up to %d", 2*n, sum)
	}
	return ""
}
