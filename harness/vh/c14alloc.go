package main

// C14 — concurrent Allocate calls ("any interleaving of Allocate ... calls from
// any number of goroutines completes ... without data races").  The race
// detector is not available to the harness, so a race between allocations is
// detected through its effect: a handle allocated while other goroutines
// allocate (the same name / tag set / buckets, and other specifications with the
// same tag set) must be the handle one gets when allocating alone on a fresh
// reporter — same per-bucket serialized sizes, bucket ids and bucket names
// (read back from the returned handle by read-only reflection).

import (
	"fmt"
	"reflect"
	"runtime"
	"strings"
	"sync"
	"sync/atomic"
	"time"

	tally "github.com/uber-go/tally/v4"
	"github.com/uber-go/tally/v4/m3"
)

type c14AllocStorm struct {
	Storm      bool   `json:"storm"`
	AllocStorm bool   `json:"alloc_storm"`
	Seed       uint64 `json:"seed"`
	Goroutines int    `json:"goroutines"`
	Calls      int    `json:"calls"` // allocations per goroutine
	NTags      int    `json:"ntags"` // size of the tag set every allocation uses (0 = nil tags)
	Binary     bool   `json:"binary,omitempty"`
}

type c14Spec struct {
	name    string
	buckets tally.Buckets
}

// c14HandlePrint renders what the reporter put into a histogram handle.
func c14HandlePrint(h tally.CachedHistogram) (s string, err error) {
	defer func() {
		if p := recover(); p != nil {
			err = fmt.Errorf("harness: reflection on the histogram handle failed: %v", p)
		}
	}()
	v := reflect.ValueOf(h)
	for v.Kind() == reflect.Interface || v.Kind() == reflect.Ptr {
		v = v.Elem()
	}
	var parts []string
	for _, f := range []string{"cachedValueBuckets", "cachedDurationBuckets"} {
		bs := v.FieldByName(f)
		for i := 0; i < bs.Len(); i++ {
			b := bs.Index(i)
			m := b.FieldByName("metric")
			for m.Kind() == reflect.Ptr {
				m = m.Elem()
			}
			parts = append(parts, fmt.Sprintf("%s/%s:%d", b.FieldByName("bucketID").String(), b.FieldByName("bucket").String(), m.FieldByName("size").Int()))
		}
	}
	if len(parts) == 0 {
		return "", fmt.Errorf("harness: the histogram handle has no buckets to read")
	}
	return strings.Join(parts, " "), nil
}

func c14AllocSpecs(rng *Rng) []c14Spec {
	var specs []c14Spec
	for k, nk := 0, rng.Range(2, 4); k < nk; k++ {
		n := rng.Range(2, 7)
		if k%2 == 0 {
			start := float64(rng.Intn(3)) * 0.5
			width := []float64{1, 1000000.5, 0.001, 12345.678}[rng.Intn(4)]
			specs = append(specs, c14Spec{fmt.Sprintf("h%d", k), tally.MustMakeLinearValueBuckets(start, width, n)})
		} else {
			width := []time.Duration{time.Millisecond, 1500 * time.Microsecond, time.Second, 90 * time.Minute}[rng.Intn(4)]
			specs = append(specs, c14Spec{fmt.Sprintf("h%d", k), tally.MustMakeLinearDurationBuckets(0, width, n)})
		}
	}
	return specs
}

func c14AllocStormOne(ctx *Ctx, as *c14AllocStorm) {
	rng := NewRng(as.Seed)
	specs := c14AllocSpecs(rng)
	tags := func() map[string]string { // a fresh, equal map per call
		if as.NTags == 0 {
			return nil
		}
		m := map[string]string{}
		for i := 0; i < as.NTags; i++ {
			m[fmt.Sprintf("k%d", i)] = fmt.Sprintf("v%d", i*7)
		}
		return m
	}
	sink := newM3Sink(as.Binary)
	addr := sink.Addr()
	sink.Close() // unreachable: nothing is reported in this stream anyway
	m3.VerifSetYield((func(int))(nil))
	proto := m3.Compact
	if as.Binary {
		proto = m3.Binary
	}
	open := func() m3.Reporter {
		r, err := m3.NewReporter(m3.Options{HostPorts: []string{addr}, Service: "svc", Env: "test", Protocol: proto})
		if err != nil {
			fatal(err)
		}
		return r
	}
	ctx.Case(as, "", fmt.Sprintf("storm-concurrent-allocate tags=%d", as.NTags), hashOf(as))

	// reference: every specification allocated alone on a fresh reporter
	ref := open()
	want := make([]string, len(specs))
	for i, sp := range specs {
		p, err := c14HandlePrint(ref.AllocateHistogram(sp.name, tags(), sp.buckets))
		if err != nil {
			ctx.Fail("harness_reads_handles", err.Error(), as, nil)
			ref.Close()
			return
		}
		want[i] = p
	}
	ref.Close()

	r := open()
	var mu sync.Mutex
	var panics []string
	bad := ""
	var stop, ready, start int32
	var wg sync.WaitGroup
	for g := 0; g < as.Goroutines; g++ {
		g := g
		wg.Add(1)
		go func() {
			defer wg.Done()
			defer func() {
				if e := recover(); e != nil {
					mu.Lock()
					panics = append(panics, fmt.Sprintf("goroutine %d: AllocateHistogram panicked: %v", g, e))
					mu.Unlock()
					atomic.StoreInt32(&stop, 1)
				}
			}()
			atomic.AddInt32(&ready, 1)
			for n := 0; atomic.LoadInt32(&start) == 0; n++ {
				if n&1023 == 1023 {
					runtime.Gosched()
				}
			}
			for k := 0; k < as.Calls && atomic.LoadInt32(&stop) == 0; k++ {
				i := (g + k) % len(specs)
				if k%3 != 0 {
					i = g % len(specs)
				}
				got, err := c14HandlePrint(r.AllocateHistogram(specs[i].name, tags(), specs[i].buckets))
				if err == nil && got != want[i] {
					mu.Lock()
					if bad == "" {
						bad = fmt.Sprintf("goroutine %d, allocation %d: AllocateHistogram(%q, %d tags, %d buckets) while %d other goroutines allocate histograms with the same tag set returned bucket handles [%s]; allocated alone on a fresh reporter: [%s]",
							g, k, specs[i].name, as.NTags, specs[i].buckets.Len(), as.Goroutines-1, got, want[i])
					}
					mu.Unlock()
					atomic.StoreInt32(&stop, 1)
				}
			}
		}()
	}
	for atomic.LoadInt32(&ready) < int32(as.Goroutines) {
		runtime.Gosched()
	}
	atomic.StoreInt32(&start, 1)
	fin := make(chan struct{})
	go func() { wg.Wait(); close(fin) }()
	hang := ""
	select {
	case <-fin:
	case <-time.After(30 * time.Second):
		hang = "concurrent AllocateHistogram calls still running after 30 s:\n" + m3Stacks()
		atomic.StoreInt32(&stop, 1)
	}
	func() {
		defer func() { recover() }()
		r.Close()
	}()
	switch {
	case len(panics) > 0:
		ctx.Fail("no_panic", strings.Join(panics, "; "), as, nil)
	case hang != "":
		ctx.Fail("no_hang", hang, as, nil)
	case bad != "":
		ctx.Fail("concurrent_allocate_equals_allocate_alone", bad, as, nil)
	}
}

func c14AllocStorms(ctx *Ctx) {
	for k, nk := 0, ctx.N(6, 30); k < nk; k++ {
		if c14Failed(ctx) {
			return
		}
		r := ctx.R
		as := c14AllocStorm{Storm: true, AllocStorm: true, Seed: r.U64() % 1000000, Goroutines: []int{4, 8, 16}[k%3],
			Calls: ctx.N(1500, 4000), NTags: []int{2, 0, 5, 8, 1, 9}[k%6], Binary: r.Chance(30)}
		c14AllocStormOne(ctx, &as)
	}
}
