package main

// C10, concurrent stream: "Each Timer.Record(d) results in exactly one timer
// delivery carrying d and the scope's name and tags, made synchronously
// before Record returns" — for every handle a scope hands out, also when
// several goroutines obtain the same, not yet existing, timer at the same
// moment.  Threads run under the schedule controller (sched.go); the only
// scheduling points are between a thread's calls (label 0) and the library's
// own point 53 inside scope.Timer (between the read-locked probe and the
// write lock).  Exactly one goroutine runs at any time, so the calls complete
// in a definite order: that order is the sequential history handed to the
// model, and after every completed call the harness looks at what the
// reporter was given during the step (or at the test scope's Snapshot()).

import (
	"fmt"
	"strings"
	"sync"
	"time"

	tally "github.com/uber-go/tally/v4"
)

func c10Root(c *c10Case, log *Log) (tally.Scope, tally.TestScope) {
	switch c.Flavour {
	case 0:
		root, _ := tally.NewRootScope(tally.ScopeOptions{Prefix: string(c.Prefix), Tags: tagsOf(c.Tags),
			Reporter: &RecReporter{L: log, Caps: caps{true, true}}, OmitCardinalityMetrics: true, SanitizeOptions: c.San.opts()}, 0)
		return root, nil
	case 1:
		root, _ := tally.NewRootScope(tally.ScopeOptions{Prefix: string(c.Prefix), Tags: tagsOf(c.Tags),
			CachedReporter: &c09PanicAlloc{RecCached: &RecCached{L: log, Caps: caps{true, true}}}, OmitCardinalityMetrics: true, SanitizeOptions: c.San.opts()}, 0)
		return root, nil
	case 3:
		root, _ := tally.NewRootScope(tally.ScopeOptions{Prefix: string(c.Prefix), Tags: tagsOf(c.Tags),
			Reporter: &RecReporter{L: log, Caps: caps{true, true}}, CachedReporter: &c09PanicAlloc{RecCached: &RecCached{L: log, Caps: caps{true, true}}},
			OmitCardinalityMetrics: true, SanitizeOptions: c.San.opts()}, 0)
		return root, nil
	}
	ts := tally.NewTestScope(string(c.Prefix), tagsOf(c.Tags))
	return ts, ts
}

// c10Conc runs a concurrent case. lin is the list of calls in the order they
// completed (handles renumbered globally), in/obs the events for the model.
func c10Conc(c *c10Case) (lin []c10Op, in []Ev, obs []Ev, fail string) {
	log := &Log{}
	root, ts := c10Root(c, log)
	in = append(in, Ev{K: 40, I: c.San.ints(), S: nameTags(string(c.Prefix), tagsOf(c.Tags))})
	bk := newBook(c)
	scopes := []tally.Scope{root}
	failf := func(f string, a ...interface{}) {
		if fail == "" {
			fail = fmt.Sprintf("after %d completed calls: ", len(lin)) + fmt.Sprintf(f, a...)
		}
	}
	prev := 0
	tvals := map[string][]int64{} // test scope: timer identity -> values in the last snapshot
	ids := map[string][]int64{}   // cached: timer identity -> handle ids allocated for it
	idOf := map[int64]string{}    // cached: handle id -> identity
	clock := func(int) int64 { return 0 }

	// look: what happened since the last look; done = the call that completed (nil: none)
	look := func(done *c10Op) {
		var expT *c10Metric
		var expD int64
		if done != nil && done.Op == "rec" {
			expT, expD = &bk.timers[done.H], done.D
		}
		var delta []Ev
		if ts == nil {
			all := log.Snapshot()
			delta = all[prev:]
			prev = len(all)
			nT := 0
			for _, e := range delta {
				switch e.K {
				case 13:
					k := strings.Join(e.S, "\x00")
					if done == nil || done.Op != "timer" || k != strings.Join(bk.timers[len(bk.timers)-1].strs, "\x00") {
						failf("AllocateTimer %v although no call obtaining that timer completed", e)
					} else if len(ids[k]) > 0 {
						failf("AllocateTimer %v: a second handle for the timer %q (it already has handle %d)", e, e.S, ids[k][0])
					}
					ids[k] = append(ids[k], e.I[0])
					idOf[e.I[0]] = k
				case 3:
					nT++
					if expT == nil || e.I[0] != expD || !sameStrs(e.S, expT.strs) {
						failf("timer delivery %v; the completed call asks for %s", e, c10Want(expT, expD))
					}
				case 23:
					nT++
					if expT == nil || e.I[1] != expD || idOf[e.I[0]] != strings.Join(expT.strs, "\x00") {
						failf("cached timer delivery %v on the handle of %q; the completed call asks for %s", e, idOf[e.I[0]], c10Want(expT, expD))
					}
				}
			}
			if done != nil && done.Op == "timer" && (c.Flavour == 1 || c.Flavour == 3) {
				if m := bk.timers[len(bk.timers)-1]; len(ids[strings.Join(m.strs, "\x00")]) == 0 {
					failf("no AllocateTimer for the timer %q although a call obtaining it completed", m.strs)
				}
			}
			if expT != nil && nT != 1 {
				failf("%d timer deliveries by the time Record returned, expected exactly 1 (%s)", nT, c10Want(expT, expD))
			}
		} else {
			delta = c10Snapshot(ts)
			if c10SnapshotMisfiled != "" {
				failf("%s", c10SnapshotMisfiled)
			}
			now := map[string][]int64{}
			for _, e := range delta {
				if e.K == 31 {
					now[strings.Join(e.S, "\x00")] = e.I
				}
			}
			keys := map[string]bool{}
			for k := range tvals {
				keys[k] = true
			}
			for k := range now {
				keys[k] = true
			}
			if expT != nil {
				keys[strings.Join(expT.strs, "\x00")] = true
			}
			for k := range keys {
				want := append([]int64{}, tvals[k]...)
				if expT != nil && k == strings.Join(expT.strs, "\x00") {
					want = append(want, expD)
				}
				if !sameI64(now[k], want) {
					failf("Snapshot() shows timer %q with values %s, expected %s (every value recorded on a handle of that timer, once, in order)", k, brief(now[k]), brief(want))
				}
			}
			tvals = now
		}
		if done != nil {
			obs = append(obs, delta...)
			obs = append(obs, Ev{K: 90, I: []int64{0}})
		}
	}

	// sequential prelude: the scopes
	for _, o := range c.Ops {
		o := o
		switch o.Op {
		case "sub":
			scopes = append(scopes, scopes[o.H].SubScope(string(o.Name)))
			in = append(in, Ev{K: 41, I: []int64{int64(o.H)}, S: []string{string(o.Name)}})
		case "tag":
			scopes = append(scopes, scopes[o.H].Tagged(tagsOf(o.Tags)))
			in = append(in, Ev{K: 42, I: []int64{int64(o.H)}, S: nameTags("", tagsOf(o.Tags))[1:]})
		default:
			continue
		}
		bk.apply(o, clock, 0)
		lin = append(lin, o)
		look(&o)
	}

	ctl := NewCtl()
	tally.VerifSetYield(func(p int) {
		if p == 0 || p == 53 {
			ctl.Yield(p)
		}
	})
	defer setYield(nil)
	var mu sync.Mutex
	var completed []c10Op
	nGlobal := 0
	for _, prog := range c.Threads {
		prog := prog
		ctl.Go(func() {
			var hs []tally.Timer
			var mine []int
			for i, o := range prog {
				if i > 0 {
					ctl.Yield(0)
				}
				switch o.Op {
				case "timer":
					if o.H < 0 || o.H >= len(scopes) {
						continue
					}
					h := scopes[o.H].Timer(string(o.Name))
					mu.Lock()
					hs, mine = append(hs, h), append(mine, nGlobal)
					nGlobal++
					completed = append(completed, c10Op{Op: "timer", H: o.H, Name: o.Name})
					mu.Unlock()
				case "rec":
					if o.H < 0 || o.H >= len(hs) {
						continue
					}
					hs[o.H].Record(time.Duration(o.D))
					mu.Lock()
					completed = append(completed, c10Op{Op: "rec", H: mine[o.H], D: o.D})
					mu.Unlock()
				}
			}
		})
	}
	seen := 0
	step := func(i int) {
		if i < 0 || i >= ctl.N() || ctl.Done(i) {
			return
		}
		l := ctl.Step(i)
		for g := 0; g < 200 && l == Blocked; g++ {
			// a thread parked at a scheduling point holds no lock: nothing can block
			failf("thread %d blocked on a lock although every other thread is parked outside critical sections", i)
			l = ctl.Step(i)
		}
		mu.Lock()
		news := append([]c10Op{}, completed[seen:]...)
		seen = len(completed)
		mu.Unlock()
		if len(news) == 0 {
			look(nil)
		}
		for k := range news {
			o := news[k]
			bk.apply(o, clock, 0)
			lin = append(lin, o)
			if o.Op == "timer" {
				in = append(in, Ev{K: 43, I: []int64{int64(o.H)}, S: []string{string(o.Name)}})
			} else {
				in = append(in, Ev{K: 44, I: []int64{int64(o.H), o.D}})
			}
			look(&o)
		}
	}
	for _, i := range c.Sched {
		step(i)
	}
	for g := 0; g < 100000 && !ctl.AllDone(); g++ {
		for i := 0; i < ctl.N(); i++ {
			step(i)
		}
	}
	return
}

func c10Want(m *c10Metric, d int64) string {
	if m == nil {
		return "no delivery"
	}
	return fmt.Sprintf("value %d for %q", d, m.strs)
}

// c10GenConc: two or three threads obtaining timers (mostly the same one) from
// the same scopes and recording on what they got, and a schedule.
func c10GenConc(r *Rng, i int) c10Case {
	c := c10Case{Flavour: []int{2, 0, 2, 1, 2, 3}[i%6]}
	c.Prefix = B(r.Pick([]string{"", "svc"}))
	c.Tags = c10Tags(r, 1)
	ns := 1
	if r.Chance(60) {
		c.Ops = append(c.Ops, c10Op{Op: "sub", H: 0, Name: "db"})
		ns++
	}
	if r.Chance(30) {
		c.Ops = append(c.Ops, c10Op{Op: "tag", H: r.Intn(ns), Tags: map[B]B{"k1": "x"}})
		ns++
	}
	names := []string{"q", "r"}
	hotS, hotN := r.Intn(ns), r.Pick(names)
	nth := r.Range(2, 3)
	val := int64(0)
	total := 0
	for t := 0; t < nth; t++ {
		var prog []c10Op
		nh := 0
		for round := r.Range(1, 2); round > 0; round-- {
			s, n := hotS, hotN
			if r.Chance(25) {
				s, n = r.Intn(ns), r.Pick(names)
			}
			prog = append(prog, c10Op{Op: "timer", H: s, Name: B(n)})
			nh++
			for k := r.Range(1, 2); k > 0; k-- {
				val++
				d := val
				if r.Chance(30) {
					d = -val
				}
				prog = append(prog, c10Op{Op: "rec", H: r.Intn(nh), D: d})
			}
		}
		total += len(prog)
		c.Threads = append(c.Threads, prog)
	}
	if r.Bool() { // every thread up to its first scheduling point, in some order
		perm := []int{0, 1, 2}[:nth]
		for k := nth - 1; k > 0; k-- {
			j := r.Intn(k + 1)
			perm[k], perm[j] = perm[j], perm[k]
		}
		c.Sched = append(c.Sched, perm...)
	}
	for k := 0; k < 3*total; k++ {
		c.Sched = append(c.Sched, r.Intn(nth))
	}
	return c
}

// c10FixedConc: two threads, the same new timer, each records one value; both
// are taken to their first scheduling point before either goes on.
func c10FixedConc() []c10Case {
	var out []c10Case
	for _, f := range []int{2, 0, 1, 3} {
		out = append(out, c10Case{Flavour: f, Prefix: "svc",
			Ops: []c10Op{{Op: "sub", H: 0, Name: "db"}},
			Threads: [][]c10Op{
				{{Op: "timer", H: 1, Name: "query"}, {Op: "rec", H: 0, D: 1000000}, {Op: "rec", H: 0, D: 3}},
				{{Op: "timer", H: 1, Name: "query"}, {Op: "rec", H: 0, D: 2000000}},
			},
			Sched: []int{0, 1, 0, 1, 0, 1, 0, 1}})
	}
	return out
}

// c10Storm: G goroutines, released together, each record N distinct values on
// the same, already existing timer (each through a handle it asked the scope
// for). When all Records have returned every value must have been delivered
// exactly once, and each goroutine's values in the order it recorded them
// (each delivery is made before its Record returns). Returns "" or the failure.
func c10Storm(c *c10Case) string {
	G, N := c.Storm[0], c.Storm[1]
	if G < 1 || N < 1 || G*N > 1<<22 {
		return ""
	}
	log := &Log{}
	root, ts := c10Root(c, log)
	bk := newBook(c)
	scopes := []tally.Scope{root}
	for _, o := range c.Ops {
		switch o.Op {
		case "sub":
			scopes = append(scopes, scopes[o.H].SubScope(string(o.Name)))
		case "tag":
			scopes = append(scopes, scopes[o.H].Tagged(tagsOf(o.Tags)))
		default:
			continue
		}
		bk.apply(o, func(int) int64 { return 0 }, 0)
	}
	sc := scopes[len(scopes)-1]
	m := bk.scopes[len(bk.scopes)-1].metric("t")
	sc.Timer("t").Record(-1) // the timer exists, and works, before the race
	start := make(chan struct{})
	var wg sync.WaitGroup
	for g := 0; g < G; g++ {
		wg.Add(1)
		go func(g int) {
			defer wg.Done()
			t := sc.Timer("t")
			<-start
			for k := 0; k < N; k++ {
				t.Record(time.Duration(g*N + k))
			}
		}(g)
	}
	close(start)
	wg.Wait()
	var vals []int64
	if ts != nil {
		for _, t := range ts.Snapshot().Timers() {
			if sameStrs(nameTags(t.Name(), t.Tags()), m.strs) {
				for _, v := range t.Values() {
					vals = append(vals, int64(v))
				}
			}
		}
	} else {
		ids := map[int64]bool{}
		for _, e := range log.Snapshot() {
			switch {
			case e.K == 13 && sameStrs(e.S, m.strs):
				ids[e.I[0]] = true
			case e.K == 3 && sameStrs(e.S, m.strs):
				vals = append(vals, e.I[0])
			case e.K == 23 && ids[e.I[0]]:
				vals = append(vals, e.I[1])
			}
		}
	}
	what := fmt.Sprintf("%d goroutines x %d Records at the same time on the existing timer %q: %d Records returned, %d deliveries", G, N, m.strs, G*N+1, len(vals))
	seen := make([]int, G*N)
	last := make([]int64, G)
	for g := range last {
		last[g] = -1
	}
	first := 0
	for _, v := range vals {
		if v == -1 {
			first++
			continue
		}
		if v < 0 || v >= int64(G*N) {
			return fmt.Sprintf("%s; value %d was never recorded", what, v)
		}
		seen[v]++
	}
	if first != 1 {
		return fmt.Sprintf("%s; the value recorded before the race was delivered %d times", what, first)
	}
	for v, n := range seen {
		if n != 1 {
			return fmt.Sprintf("%s; value %d (goroutine %d's Record number %d) was delivered %d times", what, v, v/N, v%N+1, n)
		}
	}
	for _, v := range vals {
		if v < 0 {
			continue
		}
		g := v / int64(N)
		if v <= last[g] {
			return fmt.Sprintf("%s; goroutine %d recorded %d before %d but they were delivered in the opposite order", what, g, last[g], v)
		}
		last[g] = v
	}
	return ""
}
