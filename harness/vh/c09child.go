package main

// C09, "All of the scope API, recording and reporting may be used concurrently without data races,
// panics or deadlock": a storm over the whole scope API in a CHILD process, because what an
// unsynchronised map does under concurrent use ("fatal error: concurrent map read and map write",
// "concurrent map writes") cannot be recovered from inside the process. The parent reports the
// child's death, with its output, as the failing input.

import (
	"fmt"
	"os"
	"os/exec"
	"runtime"
	"strconv"
	"strings"
	"sync"
	"time"

	tally "github.com/uber-go/tally/v4"
)

// c09RaceChild: mode 0..3 = plain / cached reporter x without / with report passes and snapshots.
// Readers use metrics that already exist while writers register new ones on the same scope.
func c09RaceChild(args []string) {
	mode, _ := strconv.Atoi(args[0])
	ms, _ := strconv.Atoi(args[1])
	deadline := time.Now().Add(time.Duration(ms) * time.Millisecond)
	log := &Log{}
	opts := tally.ScopeOptions{OmitCardinalityMetrics: mode&2 == 0}
	if mode&1 == 1 {
		opts.CachedReporter = &nullCached{}
	} else {
		opts.Reporter = tally.NullStatsReporter
	}
	_ = log
	var root tally.Scope
	var closer interface{ Close() error }
	if mode&4 == 4 {
		root = tally.NewTestScope("t", map[string]string{"env": "x"})
	} else {
		root, closer = tally.VerifNewRootScope(opts, 0, uint(1+15*(mode&1))) // one shard (every derivation meets every other one) or sixteen
	}
	scope := root.SubScope("storm")
	scope.Counter("steady").Inc(1)
	scope.Gauge("steady").Update(1)
	scope.Timer("steady").Record(time.Millisecond)
	scope.Histogram("steady", tally.ValueBuckets{1, 2}).RecordValue(1)
	scope.Tagged(map[string]string{"k": "steady"}).Counter("c").Inc(1)
	var wg sync.WaitGroup
	stop := make(chan struct{})
	worker := func(f func(i int)) {
		wg.Add(1)
		go func() {
			defer wg.Done()
			for i := 0; ; i++ {
				if i%32 == 0 && time.Now().After(deadline) {
					return
				}
				f(i)
			}
		}()
	}
	// users of what exists
	for g := 0; g < 2; g++ {
		worker(func(i int) {
			scope.Counter("steady").Inc(1)
			scope.Gauge("steady").Update(float64(i))
			scope.Timer("steady").Record(time.Microsecond)
			scope.Histogram("steady", tally.ValueBuckets{1, 2}).RecordValue(1.5)
			scope.Tagged(map[string]string{"k": "steady"}).Counter("c").Inc(1)
		})
	}
	// first users
	for g := 0; g < 2; g++ {
		g := g
		worker(func(i int) {
			n := fmt.Sprintf("n%d_%d", g, i)
			switch i % 5 {
			case 0:
				scope.Counter(n).Inc(1)
			case 1:
				scope.Gauge(n).Update(1)
			case 2:
				scope.Timer(n).Record(time.Microsecond)
			case 3:
				scope.Histogram(n, tally.DurationBuckets{time.Second}).RecordDuration(time.Millisecond)
			case 4:
				s := scope.Tagged(map[string]string{"k": n})
				s.Counter("c").Inc(1)
				if i%10 == 9 {
					if cl, ok := s.(interface{ Close() error }); ok {
						cl.Close()
					}
				}
			}
		})
	}
	// a scope identity that is closed and obtained again all the time, by two goroutines: one of them
	// keeps using the handle the other has just closed (metrics of every kind, timers included)
	for g := 0; g < 2; g++ {
		worker(func(i int) {
			sub := scope.Tagged(map[string]string{"k": "cycled"})
			sub.Timer("t").Record(time.Microsecond)
			sub.Counter("c").Inc(1)
			sub.Gauge("g").Update(1)
			sub.Histogram("h", tally.ValueBuckets{1}).RecordValue(1)
			if i%3 == 0 {
				if cl, ok := sub.(interface{ Close() error }); ok {
					cl.Close()
				}
			}
			sub.Timer(fmt.Sprintf("t%d", i%7)).Record(time.Microsecond)
		})
	}
	// many live tagged scopes used all the time, and short-lived ones that are closed and never asked
	// for again (the report pass drops them while the others are being looked up)
	live := make([]map[string]string, 48)
	for i := range live {
		live[i] = map[string]string{"live": strconv.Itoa(i)}
		scope.Tagged(live[i]).Counter("hits").Inc(1)
	}
	for g := 0; g < 3; g++ {
		g := g
		worker(func(i int) {
			scope.Tagged(live[(i*7+g)%len(live)]).Counter("hits").Inc(1)
		})
	}
	for g := 0; g < 2; g++ {
		g := g
		worker(func(i int) {
			sc := scope.Tagged(map[string]string{"tmp": strconv.Itoa(g) + "-" + strconv.Itoa(i)})
			sc.Counter("c").Inc(1)
			if cl, ok := sc.(interface{ Close() error }); ok {
				cl.Close()
			}
		})
	}
	// histograms whose bucket sets share an identity in the bucket cache, and new sets after them
	worker(func(i int) {
		switch i % 3 {
		case 0:
			scope.Histogram(fmt.Sprintf("ha%d", i), tally.DurationBuckets{10 * time.Millisecond, 30 * time.Millisecond}).RecordDuration(time.Millisecond)
		case 1:
			scope.Histogram(fmt.Sprintf("hb%d", i), tally.DurationBuckets{15 * time.Millisecond, 25 * time.Millisecond}).RecordDuration(time.Millisecond)
		case 2:
			scope.Histogram(fmt.Sprintf("hc%d", i), tally.ValueBuckets{float64(i), float64(i) + 1}).RecordValue(1)
		}
	})
	// reporting and snapshots
	var rg sync.WaitGroup
	if mode&2 == 2 {
		rg.Add(1)
		go func() {
			defer rg.Done()
			pass := 0
			for {
				select {
				case <-stop:
					return
				default:
				}
				if ts, ok := root.(tally.TestScope); ok && (mode&4 == 4 || pass%8 == 7) {
					ts.Snapshot()
				} else {
					tally.VerifReportOnce(root)
				}
				pass++
				runtime.Gosched()
			}
		}()
	}
	if dl := waitOrDeadlock(&wg, "uber-go/tally/v4."); dl != "" {
		fmt.Fprintln(os.Stderr, dl)
		os.Exit(3)
	}
	close(stop)
	if dl := waitOrDeadlock(&rg, "uber-go/tally/v4."); dl != "" {
		fmt.Fprintln(os.Stderr, dl)
		os.Exit(3)
	}
	if closer != nil {
		closer.Close()
	}
}

type nullCached struct{}

func (nullCached) Capabilities() tally.Capabilities { return caps{true, true} }
func (nullCached) Flush()                           {}
func (nullCached) AllocateCounter(string, map[string]string) tally.CachedCount { return nullH{} }
func (nullCached) AllocateGauge(string, map[string]string) tally.CachedGauge   { return nullH{} }
func (nullCached) AllocateTimer(string, map[string]string) tally.CachedTimer   { return nullH{} }
func (nullCached) AllocateHistogram(string, map[string]string, tally.Buckets) tally.CachedHistogram {
	return nullH{}
}

type nullH struct{}

func (nullH) ReportCount(int64)                                               {}
func (nullH) ReportGauge(float64)                                             {}
func (nullH) ReportTimer(time.Duration)                                       {}
func (nullH) ReportSamples(int64)                                             {}
func (nullH) ValueBucket(_, _ float64) tally.CachedHistogramBucket            { return nullH{} }
func (nullH) DurationBucket(_, _ time.Duration) tally.CachedHistogramBucket   { return nullH{} }

// c09RaceStorm runs the child once per mode and reports a dead child.
func c09RaceStorm(ctx *Ctx, rounds int) { apiStorm(ctx, rounds, "scope_api_is_safe_for_concurrent_use") }

func apiStorm(ctx *Ctx, ms int, pred string) {
	type res struct {
		mode int
		out  string
		err  error
	}
	var modes []int
	for mode := 0; mode < 8; mode++ {
		if mode&4 == 4 && mode&1 == 1 {
			continue // a test scope has no reporter flavour
		}
		modes = append(modes, mode)
	}
	results := make([]res, len(modes))
	var wg sync.WaitGroup
	for i, mode := range modes {
		i, mode := i, mode
		wg.Add(1)
		go func() {
			defer wg.Done()
			cmd := exec.Command(os.Args[0], "child", "c09race", strconv.Itoa(mode), strconv.Itoa(ms))
			cmd.Env = append(os.Environ(), "GOTRACEBACK=single")
			out, err := cmd.CombinedOutput()
			results[i] = res{mode, string(out), err}
		}()
	}
	wg.Wait()
	for _, r := range results {
		mode := r.mode
		cs := map[string]interface{}{"api_storm_in_child_process": true, "mode": mode, "rounds": ms}
		ctx.Case(cs, "", "api-storm-in-child-process", "")
		if r.err != nil {
			txt := r.out
			if len(txt) > 2500 {
				txt = txt[:2500]
			}
			what := "the process died"
			for _, l := range strings.Split(txt, "\n") {
				if strings.HasPrefix(l, "fatal error:") || strings.HasPrefix(l, "panic:") || strings.HasPrefix(l, "deadlock:") {
					what = l
					break
				}
			}
			ctx.Fail(pred,
				fmt.Sprintf("12 goroutines using existing metrics and scopes, registering new ones, closing and re-obtaining subscopes and creating histograms with colliding bucket sets on one scope for %d ms (mode %d: cached=%v, passes/snapshots=%v, test scope=%v): %s (%v)",
					ms, mode, mode&1 == 1, mode&2 == 2, mode&4 == 4, what, r.err), cs, txt)
			return
		}
	}
}
