package main

// C14 — input sizes: "Any interleaving of Allocate, Report, Flush and Close calls
// ... completes without panic" also for metrics with many tags of their own
// (0..33, every count) and for reporters configured with 0..8 Options.InternalTags
// (these become the tags of the reporter's own tally.internal.* histogram, which
// every Flush reports).  What such a size breaks may be the reporter's batching
// goroutine, whose panic cannot be recovered by a caller and kills the process;
// so the sizes run in a CHILD process (this binary in replay mode on an inner
// case), which prints a marker before every size: the parent turns a dead child
// into a failing input (the size it died on and the panic message).

import (
	"bytes"
	"encoding/json"
	"fmt"
	"os"
	"os/exec"
	"strings"
	"time"

	tally "github.com/uber-go/tally/v4"
	"github.com/uber-go/tally/v4/m3"
)

// one size: number of own tags of the allocated metrics, number of InternalTags
type c14Size struct {
	Own      int `json:"own_tags"`
	Internal int `json:"internal_tags"`
}

type c14SizeSweep struct {
	SizeSweep bool      `json:"size_sweep"`
	Inner     bool      `json:"size_inner,omitempty"` // set on the copy handed to the child process
	Sizes     []c14Size `json:"sizes"`
	Duration  bool      `json:"duration_buckets,omitempty"`
	Binary    bool      `json:"binary,omitempty"`
	Cap       int       `json:"cap"`
}

const c14SizeMarker = "C14-SIZE "

// c14SizeInner runs in the child: every call under recover (a caller's panic is a
// failure reported the normal way); a panic of a reporter goroutine ends the process.
func c14SizeInner(ctx *Ctx, sw *c14SizeSweep) {
	ctx.Case(sw, "", "size-sweep-inner", "")
	for _, sz := range sw.Sizes {
		fmt.Fprintf(os.Stderr, "%sown_tags=%d internal_tags=%d\n", c14SizeMarker, sz.Own, sz.Internal)
		sink := newM3Sink(sw.Binary)
		sink.Serve()
		proto := m3.Compact
		if sw.Binary {
			proto = m3.Binary
		}
		internal := map[string]string{}
		for i := 0; i < sz.Internal; i++ {
			internal[fmt.Sprintf("ik%d", i)] = fmt.Sprintf("iv%d", i)
		}
		tags := map[string]string{}
		for i := 0; i < sz.Own; i++ {
			tags[fmt.Sprintf("t%02d", i)] = fmt.Sprintf("v%d", i)
		}
		var panics []string
		guard := func(what string, f func()) {
			defer func() {
				if e := recover(); e != nil {
					panics = append(panics, fmt.Sprintf("%s: %v", what, e))
				}
			}()
			f()
		}
		var r m3.Reporter
		guard("NewReporter", func() {
			var err error
			r, err = m3.NewReporter(m3.Options{HostPorts: []string{sink.Addr()}, Service: "svc", Env: "test",
				MaxQueueSize: sw.Cap, Protocol: proto, InternalTags: internal})
			if err != nil {
				fatal(err)
			}
		})
		if r != nil {
			for round := 0; round < 2 && len(panics) == 0; round++ {
				before := sink.Len()
				guard("AllocateHistogram+ReportSamples", func() {
					if sw.Duration {
						r.AllocateHistogram("h", tags, tally.DurationBuckets{time.Millisecond, time.Second}).DurationBucket(0, time.Second).ReportSamples(5)
					} else {
						r.AllocateHistogram("h", tags, tally.ValueBuckets{1, 2}).ValueBucket(0, 2).ReportSamples(5)
					}
				})
				guard("AllocateCounter+ReportCount", func() { r.AllocateCounter("c", tags).ReportCount(6) })
				guard("AllocateGauge+ReportGauge", func() { r.AllocateGauge("g", tags).ReportGauge(7) })
				guard("AllocateTimer+ReportTimer", func() { r.AllocateTimer("t", tags).ReportTimer(8) })
				guard("Flush", func() { r.Flush() })
				// let the batching goroutine work the batch off (collection effort only)
				for k := 0; k < 400 && sink.Len() < before+4; k++ {
					time.Sleep(250 * time.Microsecond)
				}
			}
			guard("Close", func() { r.Close() })
		}
		sink.Close()
		if len(panics) > 0 {
			ctx.Fail("no_panic", fmt.Sprintf("metrics with %d own tags on a reporter with %d InternalTags: %s", sz.Own, sz.Internal, strings.Join(panics, "; ")), sw, nil)
			return
		}
	}
}

// c14SizeSweepOne runs the sweep in a child process and reports its death.
func c14SizeSweepOne(ctx *Ctx, sw *c14SizeSweep) {
	cls := "size-sweep own-tags"
	if len(sw.Sizes) > 0 && sw.Sizes[len(sw.Sizes)-1].Internal > 0 {
		cls = "size-sweep internal-tags"
	}
	ctx.Case(sw, "", cls, hashOf(sw))
	inner := *sw
	inner.Inner = true
	b, _ := json.Marshal(map[string]interface{}{"case": inner})
	f, err := os.CreateTemp("", "c14size-*.json")
	if err != nil {
		fatal(err)
	}
	defer os.Remove(f.Name())
	f.Write(b)
	f.Close()
	cmd := exec.Command(os.Args[0], "replay", "C14", "--file", f.Name())
	var stdout, stderr bytes.Buffer
	cmd.Stdout, cmd.Stderr = &stdout, &stderr
	done := make(chan error, 1)
	if err := cmd.Start(); err != nil {
		fatal(err)
	}
	go func() { done <- cmd.Wait() }()
	var werr error
	select {
	case werr = <-done:
	case <-time.After(120 * time.Second):
		cmd.Process.Kill()
		<-done
		ctx.Fail("no_hang", "the size sweep did not finish within 120 s; last size: "+c14LastSize(stderr.String()), sw, nil)
		return
	}
	if werr == nil {
		return
	}
	last := c14LastSize(stderr.String())
	one := *sw
	one.Sizes = nil
	var sz c14Size
	if _, e := fmt.Sscanf(last, "own_tags=%d internal_tags=%d", &sz.Own, &sz.Internal); e == nil {
		one.Sizes = []c14Size{sz}
	} else {
		one.Sizes = sw.Sizes
	}
	code := -1
	if ee, ok := werr.(*exec.ExitError); ok {
		code = ee.ExitCode()
	}
	if code == 1 { // the inner run reported a failure of its own (a caller panicked)
		msg := ""
		for _, l := range strings.Split(stdout.String(), "\n") {
			if strings.HasPrefix(l, "REPLAY ") {
				msg = l
			}
		}
		ctx.Fail("no_panic", "size sweep: "+msg, one, nil)
		return
	}
	// the process died: keep the panic message and the first goroutine
	es := stderr.String()
	if i := strings.Index(es, "panic:"); i >= 0 {
		es = es[i:]
	} else if i := strings.Index(es, "fatal error:"); i >= 0 {
		es = es[i:]
	}
	if blks := strings.Split(es, "\n\n"); len(blks) > 2 {
		es = strings.Join(blks[:2], "\n\n")
	}
	if len(es) > 1500 {
		es = es[:1500]
	}
	ctx.Fail("no_panic", fmt.Sprintf("a goroutine of the reporter panicked and killed the process (exit status %d) while handling metrics with %s (Allocate, Report, Flush, Close; queue %d):\n%s",
		code, strings.ReplaceAll(last, "_", " "), sw.Cap, es), one, nil)
}

func c14LastSize(stderr string) string {
	last := "(no size started)"
	for _, l := range strings.Split(stderr, "\n") {
		if strings.HasPrefix(l, c14SizeMarker) {
			last = strings.TrimPrefix(l, c14SizeMarker)
		}
	}
	return last
}

func c14SizeSweeps(ctx *Ctx) {
	// every own-tag count 0..33 with value buckets; the same with duration buckets
	// and the other protocol in the thorough tier (quick: a seeded third of them);
	// every InternalTags count 0..8
	var own, ownD, internal []c14Size
	for n := 0; n <= 33; n++ {
		own = append(own, c14Size{Own: n})
		if ctx.Thorough() || ctx.R.Chance(33) {
			ownD = append(ownD, c14Size{Own: n, Internal: ctx.R.Intn(3)})
		}
	}
	for k := 0; k <= 8; k++ {
		internal = append(internal, c14Size{Own: ctx.R.Intn(3), Internal: k})
	}
	for i, sw := range []c14SizeSweep{
		{SizeSweep: true, Sizes: own, Cap: 4096},
		{SizeSweep: true, Sizes: internal, Cap: 16, Binary: ctx.R.Bool()},
		{SizeSweep: true, Sizes: ownD, Duration: true, Binary: true, Cap: 2},
	} {
		if c14Failed(ctx) {
			return
		}
		if len(sw.Sizes) == 0 {
			continue
		}
		sw := sw
		_ = i
		c14SizeSweepOne(ctx, &sw)
	}
}
