package main

// C07: "Closing a subscope loses nothing recorded before it": also what is recorded, followed by Close,
// while a report pass is part-way through that very scope (the pass's reporter call is stalled; the
// lock-step runs have their yield points between the steps of the registry, not inside a reporter
// call).  Direct predicate.

import (
	"fmt"
	"sync/atomic"
	"time"

	tally "github.com/uber-go/tally/v4"
)

// c07InFlight: a pass is stalled inside the delivery of a subscope's counter; the application records
// on that subscope once more and closes it; the pass is released; one more complete pass.  Both
// increments must have been delivered.  after: 0 = record+Close during the stall, 1 = Close only
// (the increment was made before the pass), 2 = record on another metric of the scope and Close.
func c07InFlight(cached bool, shape int) string {
	log := &Log{}
	entered, release := make(chan struct{}), make(chan struct{})
	var once int32
	stall := func(k int) {
		if (k == 1 || k == 21) && atomic.CompareAndSwapInt32(&once, 0, 1) {
			close(entered)
			<-release
		}
	}
	opts := tally.ScopeOptions{OmitCardinalityMetrics: true}
	if cached {
		opts.CachedReporter = &RecCached{L: log, Caps: caps{true, true}, OnCall: stall}
	} else {
		opts.Reporter = &RecReporter{L: log, Caps: caps{true, true}, OnCall: stall}
	}
	root, closer := tally.VerifNewRootScope(opts, 0, 1)
	defer closer.Close()
	sub := root.Tagged(map[string]string{"k": "v"})
	c, d := sub.Counter("c"), sub.Counter("d")
	want := map[string]int64{}
	c.Inc(1) // the only pending delta of the whole tree: the pass's first delivery is this one
	want["c"]++
	done := make(chan struct{})
	go func() { tally.VerifReportOnce(root); close(done) }()
	<-entered
	switch shape {
	case 0:
		c.Inc(1)
		want["c"]++
	case 2:
		d.Inc(3)
		want["d"] += 3
	}
	sub.(interface{ Close() error }).Close()
	close(release)
	<-done
	tally.VerifReportOnce(root)
	got := map[string]int64{}
	alloc := map[int64]string{}
	for _, e := range log.Snapshot() {
		switch e.K {
		case 1:
			got[e.S[0]] += e.I[0]
		case 11:
			alloc[e.I[0]] = e.S[0]
		case 21:
			got[alloc[e.I[0]]] += e.I[1]
		}
	}
	for n, w := range want {
		if got[n] != w {
			what := map[int]string{0: "the counter was incremented again and the subscope closed", 1: "the subscope was closed", 2: "another counter of the subscope was incremented and the subscope closed"}[shape]
			return fmt.Sprintf("a report pass was stalled inside the reporter's delivery of a subscope's counter; meanwhile %s; the delivery was released, the pass completed and one more complete pass ran: counter %q had %d recorded before its scope's Close, %d delivered",
				what, n, w, got[n])
		}
	}
	return ""
}

// c07CloserStays: "Closing a scope never affects any other scope": the reporter (which implements
// io.Closer) is shared by all scopes and belongs to the root - closing a subscope, once or twice, by
// Close or by the pass that drops it, must not close it; the other scopes keep delivering.
func c07CloserStays(cached bool) string {
	log := &Log{}
	opts := tally.ScopeOptions{OmitCardinalityMetrics: true}
	if cached {
		opts.CachedReporter = &RecCachedCloser{RecCached: RecCached{L: log, Caps: caps{true, true}}}
	} else {
		opts.Reporter = &RecCloser{RecReporter: RecReporter{L: log, Caps: caps{true, true}}}
	}
	root, closer := tally.VerifNewRootScope(opts, 0, 1)
	sub := root.Tagged(map[string]string{"k": "v"})
	other := root.SubScope("other")
	sub.Counter("c").Inc(1)
	other.Counter("d").Inc(1)
	closes := func() int {
		n := 0
		for _, e := range log.Snapshot() {
			if e.K == 7 {
				n++
			}
		}
		return n
	}
	sub.(interface{ Close() error }).Close()
	if n := closes(); n != 0 {
		closer.Close()
		return fmt.Sprintf("closing a subscope closed the reporter shared by all scopes (%d Close calls on the reporter; the root is still open)", n)
	}
	sub.(interface{ Close() error }).Close()
	tally.VerifReportOnce(root) // reports and drops the closed subscope
	other.Counter("d").Inc(2)
	root.Counter("r").Inc(5)
	tally.VerifReportOnce(root)
	if n := closes(); n != 0 {
		closer.Close()
		return fmt.Sprintf("a closed subscope was dropped by a report pass: the reporter shared by all scopes was closed %d times although the root is still open", n)
	}
	closer.Close()
	if n := closes(); n != 1 {
		return fmt.Sprintf("after a subscope's Close and the root's Close the reporter was closed %d times (expected once, by the root)", n)
	}
	got := map[string]int64{}
	alloc := map[int64]string{}
	last7, lastDel := -1, -1
	for i, e := range log.Snapshot() {
		switch e.K {
		case 1:
			got[e.S[0]] += e.I[0]
			lastDel = i
		case 11:
			alloc[e.I[0]] = e.S[0]
		case 21:
			got[alloc[e.I[0]]] += e.I[1]
			lastDel = i
		case 7:
			last7 = i
		}
	}
	if last7 < lastDel {
		return "the reporter was closed before the last delivery"
	}
	for n, w := range map[string]int64{"c": 1, "other.d": 3, "r": 5} {
		if got[n] != w {
			return fmt.Sprintf("a subscope was closed while other scopes went on recording: counter %q had %d recorded, %d delivered when the root's Close returned", n, w, got[n])
		}
	}
	return ""
}

// c07Kinds: "everything recorded before Close is delivered exactly once" for every kind of metric, not
// only counters: a counter, a gauge, a value histogram and a duration histogram of a subscope are
// recorded on, the subscope is closed and then dropped by a pass (how = 0), by asking for the scope
// again (1), or by the root's Close (2).
func c07Kinds(cached bool, how int) string {
	log := &Log{}
	opts := tally.ScopeOptions{OmitCardinalityMetrics: true}
	if cached {
		opts.CachedReporter = &RecCached{L: log, Caps: caps{true, true}}
	} else {
		opts.Reporter = &RecReporter{L: log, Caps: caps{true, true}}
	}
	root, closer := tally.VerifNewRootScope(opts, 0, 1)
	tags := map[string]string{"k": "v"}
	sub := root.Tagged(tags)
	sub.Counter("c").Inc(3)
	sub.Gauge("g").Update(42.5)
	sub.Histogram("hv", tally.ValueBuckets{1, 2}).RecordValue(1.5)
	sub.Histogram("hd", tally.DurationBuckets{time.Second}).RecordDuration(time.Millisecond)
	sub.(interface{ Close() error }).Close()
	switch how {
	case 0:
		tally.VerifReportOnce(root)
	case 1:
		root.Tagged(tags)
	}
	tally.VerifReportOnce(root)
	closer.Close()
	n := map[string]int{}
	vals := map[string][]int64{}
	alloc := map[int64]string{}
	bucket := map[int64]string{}
	for _, e := range log.Snapshot() {
		switch e.K {
		case 1, 2:
			n[e.S[0]]++
			vals[e.S[0]] = append(vals[e.S[0]], e.I[0])
		case 4, 5:
			n[e.S[0]]++
			vals[e.S[0]] = append(vals[e.S[0]], e.I[2])
		case 11, 12, 14:
			alloc[e.I[0]] = e.S[0]
		case 24, 25:
			bucket[e.I[3]] = alloc[e.I[0]]
		case 21, 22:
			n[alloc[e.I[0]]]++
			vals[alloc[e.I[0]]] = append(vals[alloc[e.I[0]]], e.I[1])
		case 26:
			n[bucket[e.I[0]]]++
			vals[bucket[e.I[0]]] = append(vals[bucket[e.I[0]]], e.I[1])
		}
	}
	want := map[string]int64{"c": 3, "g": fbits(42.5), "hv": 1, "hd": 1}
	for name, w := range want {
		if n[name] != 1 || vals[name][0] != w {
			return fmt.Sprintf("a subscope's counter, gauge, value histogram and duration histogram were recorded on once each, the subscope was closed and dropped (%s), then the root was closed: %q was delivered %d times with %v (expected once with %d)",
				[]string{"by a report pass", "by asking for the scope again", "by the root's Close"}[how], name, n[name], vals[name], w)
		}
	}
	return ""
}
