package main

// C07: "Closing a subscope loses nothing recorded before it": also what is recorded, followed by Close,
// while a report pass is part-way through that very scope (the pass's reporter call is stalled; the
// lock-step runs have their yield points between the steps of the registry, not inside a reporter
// call).  Direct predicate.

import (
	"fmt"
	"sync/atomic"

	tally "github.com/uber-go/tally/v4"
)

// c07InFlight: a pass is stalled inside the delivery of a subscope's counter; the application records
// on that subscope once more and closes it; the pass is released; one more complete pass.  Both
// increments must have been delivered.  after: 0 = record+Close during the stall, 1 = Close only
// (the increment was made before the pass), 2 = record on another metric of the scope and Close.
func c07InFlight(cached bool, shape int) string {
	log := &Log{}
	entered, release := make(chan struct{}), make(chan struct{})
	var once int32
	stall := func(k int) {
		if (k == 1 || k == 21) && atomic.CompareAndSwapInt32(&once, 0, 1) {
			close(entered)
			<-release
		}
	}
	opts := tally.ScopeOptions{OmitCardinalityMetrics: true}
	if cached {
		opts.CachedReporter = &RecCached{L: log, Caps: caps{true, true}, OnCall: stall}
	} else {
		opts.Reporter = &RecReporter{L: log, Caps: caps{true, true}, OnCall: stall}
	}
	root, closer := tally.VerifNewRootScope(opts, 0, 1)
	defer closer.Close()
	sub := root.Tagged(map[string]string{"k": "v"})
	c, d := sub.Counter("c"), sub.Counter("d")
	want := map[string]int64{}
	c.Inc(1) // the only pending delta of the whole tree: the pass's first delivery is this one
	want["c"]++
	done := make(chan struct{})
	go func() { tally.VerifReportOnce(root); close(done) }()
	<-entered
	switch shape {
	case 0:
		c.Inc(1)
		want["c"]++
	case 2:
		d.Inc(3)
		want["d"] += 3
	}
	sub.(interface{ Close() error }).Close()
	close(release)
	<-done
	tally.VerifReportOnce(root)
	got := map[string]int64{}
	alloc := map[int64]string{}
	for _, e := range log.Snapshot() {
		switch e.K {
		case 1:
			got[e.S[0]] += e.I[0]
		case 11:
			alloc[e.I[0]] = e.S[0]
		case 21:
			got[alloc[e.I[0]]] += e.I[1]
		}
	}
	for n, w := range want {
		if got[n] != w {
			what := map[int]string{0: "the counter was incremented again and the subscope closed", 1: "the subscope was closed", 2: "another counter of the subscope was incremented and the subscope closed"}[shape]
			return fmt.Sprintf("a report pass was stalled inside the reporter's delivery of a subscope's counter; meanwhile %s; the delivery was released, the pass completed and one more complete pass ran: counter %q had %d recorded before its scope's Close, %d delivered",
				what, n, w, got[n])
		}
	}
	return ""
}
