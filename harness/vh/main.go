package main

// vh — verification harness: drives the real implementation (built from the
// current working tree of the repository with -tags verif), evaluates each
// property's direct predicate on what it observes, and writes the observed
// cases as Coq terms for the correspondence check against the Gallina model.
//
//   vh run <Cxx> --seed N --tier quick|thorough --out DIR [--corpus DIR]
//   vh replay <Cxx> <file.json>

import (
	"crypto/sha1"
	"encoding/json"
	"flag"
	"fmt"
	"os"
	"path/filepath"
	"sort"
	"strings"
	"time"
)

type Failure struct {
	Predicate string      `json:"predicate"`
	What      string      `json:"what"`
	Case      interface{} `json:"case"`
	Observed  interface{} `json:"observed,omitempty"`
	Index     int         `json:"index"`
	Known     string      `json:"known,omitempty"` // id of the known finding this witness belongs to
}

type Result struct {
	Property           string         `json:"property"`
	Seed               uint64         `json:"seed"`
	Tier               string         `json:"tier"`
	Evaluations        int            `json:"evaluations"`
	DistinctNontrivial int            `json:"distinct_nontrivial"`
	Rule               string         `json:"rule"`
	Samples            []interface{}  `json:"samples"`
	Histogram          map[string]int `json:"histogram"`
	Failures           []Failure      `json:"failures"`
	Shards             []string       `json:"shards"`
	CoqCases           int            `json:"coq_cases"`
	Schedules          int            `json:"schedules,omitempty"`
	SchedExhaustive    bool           `json:"schedules_exhaustive,omitempty"`
	Notes              []string       `json:"notes,omitempty"`
	Extra              map[string]interface{} `json:"extra,omitempty"`
	WallS              float64        `json:"wall_s"`
}

type Ctx struct {
	ID     string
	Seed   uint64
	Tier   string
	Out    string
	Corpus string
	R      *Rng
	Res    *Result
	header string
	ctype  string
	terms  []string
	seen   map[string]bool
	shardN int
	Replay json.RawMessage // non-nil in replay mode
	casesF *os.File
}

func (c *Ctx) Thorough() bool { return c.Tier == "thorough" }

// N picks the case count for the tier.
func (c *Ctx) N(quick, thorough int) int {
	if c.Thorough() {
		return thorough
	}
	return quick
}

// Header sets the Coq preamble of the cases files of this property.
func (c *Ctx) Header(corrModule string) {
	c.header = "From Coq Require Import ZArith List Uint63.\nFrom Tally Require Import Base.Obs Corr." + corrModule + "."
	c.ctype = corrModule
}

// Case records one explored case: its JSON form (for samples and replays), its
// Coq term (may be empty when the case is not sent to the model), a class for
// the input histogram and a key that identifies it among the non-trivial ones
// ("" = trivial).
func (c *Ctx) Case(cs interface{}, term, class, ntKey string) int {
	idx := c.Res.Evaluations
	c.Res.Evaluations++
	c.Res.Histogram[class]++
	if ntKey != "" && !c.seen[ntKey] {
		c.seen[ntKey] = true
		c.Res.DistinctNontrivial++
	}
	if len(c.Res.Samples) < 3 || (ntKey != "" && len(c.Res.Samples) < 6 && idx%97 == 0) {
		c.Res.Samples = append(c.Res.Samples, cs)
	}
	if c.casesF != nil {
		b, _ := json.Marshal(cs)
		fmt.Fprintf(c.casesF, "%d\t%s\n", idx, b)
	}
	if term != "" {
		c.terms = append(c.terms, term)
		c.Res.CoqCases++
		if len(c.terms) >= c.shardN {
			c.flushShard()
		}
	}
	return idx
}

func (c *Ctx) Fail(pred, what string, cs, obs interface{}) {
	c.Res.Failures = append(c.Res.Failures, Failure{Predicate: pred, What: what, Case: cs, Observed: obs, Index: c.Res.Evaluations - 1})
}
func (c *Ctx) FailKnown(known, pred, what string, cs, obs interface{}) {
	c.Res.Failures = append(c.Res.Failures, Failure{Predicate: pred, What: what, Case: cs, Observed: obs, Index: c.Res.Evaluations - 1, Known: known})
}

func (c *Ctx) Note(f string, a ...interface{}) { c.Res.Notes = append(c.Res.Notes, fmt.Sprintf(f, a...)) }

func (c *Ctx) flushShard() {
	if len(c.terms) == 0 || c.Out == "" {
		c.terms = nil
		return
	}
	k := len(c.Res.Shards)
	name := filepath.Join(c.Out, fmt.Sprintf("cases_%s_%d.v", c.ID, k))
	var b strings.Builder
	b.WriteString(c.header)
	b.WriteString("\nImport ListNotations.\nOpen Scope uint63_scope.\n")
	b.WriteString("Definition cases : list gcase := [\n")
	b.WriteString(strings.Join(c.terms, ";\n"))
	b.WriteString("\n].\n")
	fmt.Fprintf(&b, "Definition M := Eval vm_compute in %s.mismatches cases.\nPrint M.\n", c.ctype)
	if err := os.WriteFile(name, []byte(b.String()), 0o644); err != nil {
		fatal(err)
	}
	c.Res.Shards = append(c.Res.Shards, name)
	c.terms = nil
}

// CorpusCases returns the raw JSON cases stored under <corpus>/<ID>/corpus/*.json.
func (c *Ctx) CorpusCases() []json.RawMessage {
	var out []json.RawMessage
	if c.Corpus == "" {
		return out
	}
	files, _ := filepath.Glob(filepath.Join(c.Corpus, c.ID, "corpus", "*.json"))
	sort.Strings(files)
	for _, f := range files {
		b, err := os.ReadFile(f)
		if err != nil {
			continue
		}
		var w struct {
			Case json.RawMessage `json:"case"`
		}
		if json.Unmarshal(b, &w) == nil && len(w.Case) > 0 {
			out = append(out, w.Case)
		}
	}
	return out
}

type runner func(c *Ctx)

var props = map[string]runner{}

func fatal(err error) {
	fmt.Fprintln(os.Stderr, "vh:", err)
	os.Exit(2)
}

func hashOf(v interface{}) string {
	b, _ := json.Marshal(v)
	return fmt.Sprintf("%x", sha1.Sum(b))[:12]
}

func main() {
	if len(os.Args) < 3 {
		fmt.Fprintln(os.Stderr, "usage: vh run|replay <Cxx> ...")
		os.Exit(2)
	}
	mode, id := os.Args[1], os.Args[2]
	if mode == "child" {
		// helper processes of some streams (a crash of the library must not take the harness down)
		switch id {
		case "c09race":
			c09RaceChild(os.Args[3:])
		}
		return
	}
	fs := flag.NewFlagSet("vh", flag.ExitOnError)
	seed := fs.Uint64("seed", 1, "")
	tier := fs.String("tier", "quick", "")
	out := fs.String("out", "", "")
	corpus := fs.String("corpus", "", "")
	file := fs.String("file", "", "")
	fs.Parse(os.Args[3:])
	run, ok := props[id]
	if !ok {
		fatal(fmt.Errorf("unknown property %s", id))
	}
	ctx := &Ctx{ID: id, Seed: *seed, Tier: *tier, Out: *out, Corpus: *corpus, R: NewRng(*seed),
		Res:  &Result{Property: id, Seed: *seed, Tier: *tier, Histogram: map[string]int{}, Samples: []interface{}{}, Failures: []Failure{}, Shards: []string{}, Extra: map[string]interface{}{}},
		seen: map[string]bool{}, shardN: 25}
	if mode == "replay" {
		b, err := os.ReadFile(*file)
		if err != nil {
			fatal(err)
		}
		var w struct {
			Case json.RawMessage `json:"case"`
		}
		if err := json.Unmarshal(b, &w); err != nil {
			fatal(err)
		}
		ctx.Replay = w.Case
		ctx.Out = ""
	}
	if ctx.Out != "" {
		os.MkdirAll(ctx.Out, 0o755)
		ctx.casesF, _ = os.Create(filepath.Join(ctx.Out, "cases.tsv"))
	}
	t0 := time.Now()
	run(ctx)
	ctx.flushShard()
	if ctx.casesF != nil {
		ctx.casesF.Close()
	}
	ctx.Res.WallS = time.Since(t0).Seconds()
	enc, _ := json.MarshalIndent(ctx.Res, "", " ")
	if ctx.Out != "" {
		os.WriteFile(filepath.Join(ctx.Out, "result.json"), enc, 0o644)
	} else {
		os.Stdout.Write(enc)
		fmt.Println()
	}
	if mode == "replay" {
		if len(ctx.Res.Failures) > 0 {
			fmt.Printf("REPLAY property=%s FAILS: %s\n", id, ctx.Res.Failures[0].What)
			os.Exit(1)
		}
		fmt.Printf("REPLAY property=%s passes\n", id)
	}
}
