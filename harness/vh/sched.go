package main

// Deterministic schedule controller over the `verif` yield hooks.
//
// Controlled goroutines are started with Ctl.Go. Every yield point
// (tally.verifYield(p) in the library, Ctl.Yield(p) in harness code) parks the
// calling goroutine; Ctl.Step(i) resumes goroutine i and waits until it parks
// again (returning the label), finishes (-1), or fails to do either within the
// timeout because it blocks on a lock held by a parked goroutine (Blocked).
// Goroutines that were not started through Ctl.Go pass straight through yields.

import (
	"bytes"
	"runtime"
	"strconv"
	"strings"
	"sync"
	"sync/atomic"
	"time"
)

const (
	Finished = -1
	Blocked  = -3
	Stutter  = -4 // the thread had already finished
)

type cthread struct {
	gid     uint64
	resume  chan struct{}
	parked  chan int
	done    bool
	running bool // resumed earlier and has not parked yet (it was blocked)
	label   int
}

type Ctl struct {
	mu      sync.Mutex
	byGid   map[uint64]*cthread
	ths     []*cthread
	Timeout time.Duration
}

func NewCtl() *Ctl {
	return &Ctl{byGid: map[uint64]*cthread{}, Timeout: time.Millisecond}
}

func gid() uint64 {
	var buf [64]byte
	n := runtime.Stack(buf[:], false)
	// "goroutine 123 [running]:..."
	f := bytes.Fields(buf[:n])
	if len(f) < 2 {
		return 0
	}
	id, _ := strconv.ParseUint(string(f[1]), 10, 64)
	return id
}

// Go registers a controlled goroutine; it starts parked (label 0) and runs f
// once resumed for the first time.
func (c *Ctl) Go(f func()) int {
	t := &cthread{resume: make(chan struct{}), parked: make(chan int)}
	c.mu.Lock()
	idx := len(c.ths)
	c.ths = append(c.ths, t)
	c.mu.Unlock()
	reg := make(chan struct{})
	go func() {
		c.mu.Lock()
		t.gid = gid()
		c.byGid[t.gid] = t
		c.mu.Unlock()
		close(reg)
		<-t.resume
		f()
		c.mu.Lock()
		delete(c.byGid, gid())
		c.mu.Unlock()
		t.parked <- Finished
	}()
	<-reg
	return idx
}

// Yield parks the calling goroutine if it is a controlled one.
func (c *Ctl) Yield(p int) {
	c.mu.Lock()
	t := c.byGid[gid()]
	c.mu.Unlock()
	if t == nil {
		return
	}
	t.parked <- p
	<-t.resume
}

// goroutineStack returns the header and stack of goroutine g from a full dump
// ("" when it no longer exists).
func goroutineStack(g uint64) string {
	buf := make([]byte, 1<<18)
	for {
		n := runtime.Stack(buf, true)
		if n < len(buf) {
			buf = buf[:n]
			break
		}
		buf = make([]byte, 2*len(buf))
	}
	pre := []byte("goroutine " + strconv.FormatUint(g, 10) + " [")
	for _, blk := range bytes.Split(buf, []byte("\n\n")) {
		if bytes.HasPrefix(blk, pre) {
			return string(blk)
		}
	}
	return ""
}

// blockedOutside: the runtime says goroutine g waits on a lock, channel or
// WaitGroup somewhere else than in the controller's own hand-over. This, not
// elapsed time, is what makes a step "blocked".
func blockedOutside(g uint64) bool {
	st := goroutineStack(g)
	if st == "" {
		return false
	}
	hdr := st
	if k := bytes.IndexByte([]byte(st), '\n'); k >= 0 {
		hdr = st[:k]
	}
	waiting := false
	for _, w := range []string{"[chan send", "[chan receive", "[select", "[semacquire", "[sync."} {
		if bytes.Contains([]byte(hdr), []byte(w)) {
			waiting = true
		}
	}
	if !waiting {
		return false
	}
	if bytes.Contains([]byte(st), []byte("main.(*Ctl).Yield")) {
		return false // parked at a yield point: the hand-over is in progress
	}
	// the final hand-over of a finished goroutine: the innermost frame is the wrapper in Ctl.Go
	lines := bytes.Split([]byte(st), []byte("\n"))
	if len(lines) > 1 && bytes.HasPrefix(lines[1], []byte("main.(*Ctl).Go.func1")) {
		return false
	}
	return true
}

// Step resumes thread i until its next yield. It returns Blocked only when the
// runtime reports the goroutine waiting on a lock / channel / WaitGroup outside
// the controller (or, as a last resort, after 20 s); a goroutine that is merely
// slow is waited for.
func (c *Ctl) Step(i int) int {
	t := c.ths[i]
	if t.done {
		return Stutter
	}
	if !t.running {
		t.resume <- struct{}{}
		t.running = true
	}
	deadline := time.Now().Add(20 * time.Second)
	wait := c.Timeout
	got := func(l int) int {
		t.running = false
		t.label = l
		if l == Finished {
			t.done = true
		}
		return l
	}
	for {
		select {
		case l := <-t.parked:
			return got(l)
		case <-time.After(wait):
		}
		if wait < 8*time.Millisecond {
			wait *= 2
		}
		if blockedOutside(t.gid) || time.Now().After(deadline) {
			select {
			case l := <-t.parked:
				return got(l)
			default:
			}
			return Blocked
		}
	}
}

func (c *Ctl) Done(i int) bool { return c.ths[i].done }

// Running: resumed earlier, blocked then, and not parked since.
func (c *Ctl) Running(i int) bool { return c.ths[i].running }
func (c *Ctl) N() int             { return len(c.ths) }
func (c *Ctl) AllDone() bool {
	for _, t := range c.ths {
		if !t.done {
			return false
		}
	}
	return true
}

// Drain lets every unfinished goroutine run to completion (round robin).
func (c *Ctl) Drain() {
	for guard := 0; guard < 100000 && !c.AllDone(); guard++ {
		for i := range c.ths {
			if !c.ths[i].done {
				c.Step(i)
			}
		}
	}
}

// allStacks returns the full goroutine dump split per goroutine.
func allStacksSplit() []string {
	buf := make([]byte, 1<<18)
	for {
		n := runtime.Stack(buf, true)
		if n < len(buf) {
			buf = buf[:n]
			break
		}
		buf = make([]byte, 2*len(buf))
	}
	var out []string
	for _, blk := range bytes.Split(buf, []byte("\n\n")) {
		out = append(out, string(blk))
	}
	return out
}

// stuckInPackage: the goroutines that are inside package frames matching pkg, and whether every
// one of them waits on a lock or WaitGroup (none runnable, running, sleeping or in a syscall).
func stuckInPackage(pkg string) (ids string, allBlocked bool, dump string) {
	allBlocked = true
	n := 0
	for _, st := range allStacksSplit() {
		if !strings.Contains(st, pkg) || strings.Contains(st, "main.allStacksSplit") {
			continue
		}
		hdr := st
		if k := strings.IndexByte(st, '\n'); k >= 0 {
			hdr = st[:k]
		}
		if strings.Contains(hdr, "[select") && strings.Contains(st, ").reportLoop(") {
			continue // the report loop idling between ticks
		}
		n++
		ids += hdr[:strings.IndexByte(hdr, '[')] + ";"
		if !(strings.Contains(hdr, "[semacquire") || strings.Contains(hdr, "[sync.")) {
			allBlocked = false
		}
		if len(dump) < 6000 {
			dump += st + "\n\n"
		}
	}
	if n == 0 {
		allBlocked = false
	}
	return
}

// waitOrDeadlock waits for wg. It returns "" when wg completes. When the goroutines that are
// inside the package all wait on locks / WaitGroups - the same goroutines, in four samples
// 250 ms apart - nothing can release them: it returns a description of the deadlock instead
// (the verdict comes from the runtime's goroutine states, not from elapsed time).
func waitOrDeadlock(wg *sync.WaitGroup, pkg string) string {
	done := make(chan struct{})
	go func() { wg.Wait(); close(done) }()
	same, last := 0, ""
	for {
		select {
		case <-done:
			return ""
		case <-time.After(250 * time.Millisecond):
		}
		ids, blocked, dump := stuckInPackage(pkg)
		if blocked && (last == "" || ids == last) {
			same++
			last = ids
		} else {
			same, last = 0, ""
		}
		if same >= 4 {
			select {
			case <-done:
				return ""
			default:
			}
			return "deadlock: every goroutine inside " + pkg + " waits on a lock or WaitGroup and none can proceed:\n" + dump
		}
	}
}

// waitUntilParked polls until goroutine *gp (0 = not started yet) is gone, done is closed, or the
// runtime has shown it parked - in any state other than running / runnable - in 20 consecutive
// samples; after 30000 samples it gives up waiting (the caller then simply explores another
// schedule: no verdict depends on this).  Used to release a stalled reporter call only once the
// goroutine calling Close has gone as far as it can.
func waitUntilParked(gp *uint64, done <-chan struct{}) {
	parked := 0
	for n := 0; n < 30000; n++ {
		select {
		case <-done:
			return
		default:
		}
		g := atomic.LoadUint64(gp)
		if g != 0 {
			st := goroutineStack(g)
			if st == "" {
				return
			}
			hdr := st
			if i := strings.IndexByte(hdr, '\n'); i >= 0 {
				hdr = hdr[:i]
			}
			if strings.Contains(hdr, "[running") || strings.Contains(hdr, "[runnable") {
				parked = 0
			} else {
				parked++
				if parked >= 20 {
					return
				}
			}
		}
		time.Sleep(100 * time.Microsecond)
	}
}
