package main

// Deterministic schedule controller over the `verif` yield hooks.
//
// Controlled goroutines are started with Ctl.Go. Every yield point
// (tally.verifYield(p) in the library, Ctl.Yield(p) in harness code) parks the
// calling goroutine; Ctl.Step(i) resumes goroutine i and waits until it parks
// again (returning the label), finishes (-1), or fails to do either within the
// timeout because it blocks on a lock held by a parked goroutine (Blocked).
// Goroutines that were not started through Ctl.Go pass straight through yields.

import (
	"bytes"
	"runtime"
	"strconv"
	"sync"
	"time"
)

const (
	Finished = -1
	Blocked  = -3
	Stutter  = -4 // the thread had already finished
)

type cthread struct {
	resume  chan struct{}
	parked  chan int
	done    bool
	running bool // resumed earlier and has not parked yet (it was blocked)
	label   int
}

type Ctl struct {
	mu      sync.Mutex
	byGid   map[uint64]*cthread
	ths     []*cthread
	Timeout time.Duration
}

func NewCtl() *Ctl {
	return &Ctl{byGid: map[uint64]*cthread{}, Timeout: 3 * time.Millisecond}
}

func gid() uint64 {
	var buf [64]byte
	n := runtime.Stack(buf[:], false)
	// "goroutine 123 [running]:..."
	f := bytes.Fields(buf[:n])
	if len(f) < 2 {
		return 0
	}
	id, _ := strconv.ParseUint(string(f[1]), 10, 64)
	return id
}

// Go registers a controlled goroutine; it starts parked (label 0) and runs f
// once resumed for the first time.
func (c *Ctl) Go(f func()) int {
	t := &cthread{resume: make(chan struct{}), parked: make(chan int)}
	c.mu.Lock()
	idx := len(c.ths)
	c.ths = append(c.ths, t)
	c.mu.Unlock()
	reg := make(chan struct{})
	go func() {
		c.mu.Lock()
		c.byGid[gid()] = t
		c.mu.Unlock()
		close(reg)
		<-t.resume
		f()
		c.mu.Lock()
		delete(c.byGid, gid())
		c.mu.Unlock()
		t.parked <- Finished
	}()
	<-reg
	return idx
}

// Yield parks the calling goroutine if it is a controlled one.
func (c *Ctl) Yield(p int) {
	c.mu.Lock()
	t := c.byGid[gid()]
	c.mu.Unlock()
	if t == nil {
		return
	}
	t.parked <- p
	<-t.resume
}

// Step resumes thread i until its next yield.
func (c *Ctl) Step(i int) int {
	t := c.ths[i]
	if t.done {
		return Stutter
	}
	if !t.running {
		t.resume <- struct{}{}
		t.running = true
	}
	select {
	case l := <-t.parked:
		t.running = false
		t.label = l
		if l == Finished {
			t.done = true
		}
		return l
	case <-time.After(c.Timeout):
		return Blocked
	}
}

func (c *Ctl) Done(i int) bool { return c.ths[i].done }

// Running: resumed earlier, blocked then, and not parked since.
func (c *Ctl) Running(i int) bool { return c.ths[i].running }
func (c *Ctl) N() int          { return len(c.ths) }
func (c *Ctl) AllDone() bool {
	for _, t := range c.ths {
		if !t.done {
			return false
		}
	}
	return true
}

// Drain lets every unfinished goroutine run to completion (round robin).
func (c *Ctl) Drain() {
	for guard := 0; guard < 100000 && !c.AllDone(); guard++ {
		for i := range c.ths {
			if !c.ths[i].done {
				c.Step(i)
			}
		}
	}
}
