package main

// C11 — a test scope's snapshot shows exactly what was recorded.
//
// Streams (field "stream" of the case):
//   main  random sequential histories over a test scope (NewTestScope or
//         VerifNewTestScope with 1, 2, 16 registry shards): every metric kind,
//         nested subscopes and tagged scopes addressed by derivation paths,
//         Close of subscopes in the middle, snapshots at arbitrary points.
//         Direct predicate: every snapshot equals an independently kept Go
//         tally; earlier snapshots are unchanged by later recording; mutating
//         a returned snapshot does not affect the scope.  Every case also
//         goes to the Coq model (Corr/SnapshotCorr.v).
//   dup   the same, with histogram specifications that contain equal upper
//         bounds (duplicates, the maximum itself, +0 with -0): known finding
//         F11 on the pinned tree (reported through FailKnown; the case goes to
//         the model only when the implementation already behaves as repaired).
//   delim one metric name / tag value with the key delimiters: known finding F05b.
//   dot   metric names containing the separator: known finding F11b.
//   conc  snapshots taken while other goroutines record: the bounds of theorem
//         C11_concurrent_snapshot_bounds (Model/SnapConc.v).

import (
	"encoding/json"
	"fmt"
	"io"
	"math"
	"sort"
	"strings"
	"sync"
	"sync/atomic"
	"time"

	tally "github.com/uber-go/tally/v4"
)

type c11Step struct {
	T bool    `json:"t,omitempty"` // true: Tagged(M); false: SubScope(N)
	N B       `json:"n,omitempty"`
	M map[B]B `json:"m,omitempty"`
}
type c11Op struct {
	Op   string    `json:"op"` // inc | upd | rec | hv | hd | get | close | snap
	P    []c11Step `json:"p,omitempty"`
	N    B         `json:"n,omitempty"`
	V    int64     `json:"v,omitempty"`
	Spec []int64   `json:"spec,omitempty"` // float bits (hv) or ns (hd)
	MK   int       `json:"mk,omitempty"`   // get: 0 counter 1 gauge 2 timer 3 value histogram 4 duration histogram
}
type c11Case struct {
	Stream string  `json:"stream"`
	Shards int     `json:"shards"` // 0 = tally.NewTestScope
	Prefix B       `json:"prefix"`
	Tags   map[B]B `json:"tags,omitempty"`
	Ops    []c11Op `json:"ops,omitempty"`
	// conc stream
	Workers int `json:"workers,omitempty"`
	PerW    int `json:"per_worker,omitempty"`
	// sched stream: one program per goroutine and the controlled schedule (thread picks)
	Threads [][]c11Op `json:"threads,omitempty"`
	Sched   []int     `json:"sched,omitempty"`
}

var (
	c11Names    = []string{"a", "b", "c", "req", "x_y", "k1", "é", "\xff", ""}
	c11SubNames = []string{"a", "b", "c", "req", "a.b", "k1", "", "é"}
	c11Keys     = []string{"k", "env", "z", "a"}
	c11Vals     = []string{"1", "2", "", "prod", "é", "a"}
	c11Prefixes = []string{"", "p", "svc.api", "a"}
	c11Floats   = []float64{-10, -1, 0, 0.5, 1, 2, 10, 1e300, -1e300}
	c11Durs     = []int64{-5, 0, 1, 1000, 1e6, 1e9, math.MaxInt64 - 1, math.MinInt64}
)

func c11GenTags(r *Rng, max int) map[B]B {
	n := r.Intn(max + 1)
	if n == 0 && r.Bool() {
		return nil
	}
	m := map[B]B{}
	for i := 0; i < n; i++ {
		m[B(r.Pick(c11Keys))] = B(r.Pick(c11Vals))
	}
	return m
}

func c11GenPath(r *Rng) []c11Step {
	d := 0
	switch x := r.Intn(10); {
	case x < 2:
		d = 0
	case x < 6:
		d = 1
	case x < 9:
		d = 2
	default:
		d = r.Range(3, 4)
	}
	var p []c11Step
	for i := 0; i < d; i++ {
		if r.Chance(60) {
			p = append(p, c11Step{N: B(r.Pick(c11SubNames))})
		} else {
			p = append(p, c11Step{T: true, M: c11GenTags(r, 2)})
		}
	}
	return p
}

// c11GenSpec returns a bucket specification; dup = with equal upper bounds.
func c11GenSpec(r *Rng, dur, dup bool) []int64 {
	n := r.Intn(5)
	var spec []int64
	seen := map[int64]bool{}
	for len(spec) < n {
		var b int64
		if dur {
			b = c11Durs[r.Intn(len(c11Durs))]
		} else {
			b = fbits(c11Floats[r.Intn(len(c11Floats))])
		}
		if seen[b] {
			continue
		}
		seen[b] = true
		spec = append(spec, b)
	}
	if dup {
		switch x := r.Intn(4); {
		case x == 0 || len(spec) == 0:
			if dur {
				spec = append(spec, math.MaxInt64)
			} else {
				spec = append(spec, fbits(math.MaxFloat64))
			}
		case x == 1 && !dur:
			spec = append(spec, fbits(0), fbits(math.Copysign(0, -1)))
		default:
			spec = append(spec, spec[r.Intn(len(spec))])
		}
		// shuffle
		for i := len(spec) - 1; i > 0; i-- {
			j := r.Intn(i + 1)
			spec[i], spec[j] = spec[j], spec[i]
		}
	}
	return spec
}

// c11Twin returns another duplicate-free specification with the same length and the same
// wrapped sum of bit patterns as spec (nil when there is none of the simple shape tried):
// value bounds: two non-zero bounds negated (each sign flip changes the sum by 2^63);
// duration bounds: one bound moved up and another down by the same amount.
func c11Twin(dur bool, spec []int64) []int64 {
	has := func(l []int64, v int64) bool {
		for _, x := range l {
			if x == v {
				return true
			}
		}
		return false
	}
	for i := 0; i < len(spec); i++ {
		for j := i + 1; j < len(spec); j++ {
			tw := append([]int64(nil), spec...)
			if dur {
				a, b := spec[i], spec[j]
				if a >= math.MaxInt64-8 || b <= math.MinInt64+8 {
					continue
				}
				tw[i], tw[j] = a+7, b-7
			} else {
				fa, fb := math.Float64frombits(uint64(spec[i])), math.Float64frombits(uint64(spec[j]))
				if fa == 0 || fb == 0 || fa != fa || fb != fb {
					continue
				}
				tw[i], tw[j] = fbits(-fa), fbits(-fb)
			}
			if tw[i] == tw[j] || has(spec, tw[i]) || has(spec, tw[j]) {
				continue
			}
			if dur && (tw[i] == math.MaxInt64 || tw[j] == math.MaxInt64) {
				continue
			}
			return tw
		}
	}
	return nil
}

func c11GenSample(r *Rng, dur bool, spec []int64) int64 {
	if len(spec) > 0 && r.Chance(60) {
		b := spec[r.Intn(len(spec))]
		switch r.Intn(3) {
		case 0:
			return b
		case 1:
			if b != math.MaxInt64 {
				return b + 1
			}
		default:
			if b != math.MinInt64 {
				return b - 1
			}
		}
		return b
	}
	if dur {
		return r.I64()
	}
	return fbits(r.F64())
}

func c11Gen(r *Rng, i int, stream string) c11Case {
	c := c11Case{Stream: stream, Shards: []int{0, 1, 2, 16}[i%4], Prefix: B(r.Pick(c11Prefixes)), Tags: c11GenTags(r, 2)}
	nops := r.Range(6, 34)
	// a small pool of paths and specifications so that scopes and metrics are hit repeatedly
	var paths [][]c11Step
	for j := r.Range(2, 5); j > 0; j-- {
		paths = append(paths, c11GenPath(r))
	}
	type sp struct {
		dur  bool
		spec []int64
	}
	var specs []sp
	for j := r.Range(1, 3); j > 0; j-- {
		d := r.Chance(40)
		spec := c11GenSpec(r, d, stream == "dup")
		specs = append(specs, sp{d, spec})
		// a different specification of the same length whose bounds add up to the same
		// total (the bucket cache is keyed by a commutative sum over the bounds)
		if tw := c11Twin(d, spec); tw != nil && r.Chance(60) {
			specs = append(specs, sp{d, tw})
		}
	}
	path := func() []c11Step {
		if r.Chance(80) {
			return paths[r.Intn(len(paths))]
		}
		return c11GenPath(r)
	}
	// the scope Snapshot() is called on: the test scope itself or any scope derived from it
	recv := func() []c11Step {
		if r.Chance(35) {
			return nil
		}
		return path()
	}
	name := func() B {
		if r.Chance(70) {
			return B(c11Names[r.Intn(3)])
		}
		return B(r.Pick(c11Names))
	}
	for j := 0; j < nops; j++ {
		x := r.Intn(100)
		if stream == "dup" && x < 40 {
			x = 50 // histogram heavy
		}
		switch {
		case x < 22:
			c.Ops = append(c.Ops, c11Op{Op: "inc", P: path(), N: name(), V: r.I64()})
		case x < 36:
			c.Ops = append(c.Ops, c11Op{Op: "upd", P: path(), N: name(), V: fbits(r.F64())})
		case x < 50:
			c.Ops = append(c.Ops, c11Op{Op: "rec", P: path(), N: name(), V: r.I64()})
		case x < 72:
			s := specs[r.Intn(len(specs))]
			op := "hv"
			if s.dur {
				op = "hd"
			}
			c.Ops = append(c.Ops, c11Op{Op: op, P: path(), N: name(), V: c11GenSample(r, s.dur, s.spec), Spec: s.spec})
		case x < 77:
			mk := r.Intn(5)
			o := c11Op{Op: "get", P: path(), N: name(), MK: mk}
			if mk >= 3 {
				o.Spec = c11GenSpec(r, mk == 4, stream == "dup")
			}
			c.Ops = append(c.Ops, o)
		case x < 85:
			p := path()
			if len(p) == 0 {
				p = []c11Step{{N: B(r.Pick(c11SubNames))}}
			}
			c.Ops = append(c.Ops, c11Op{Op: "close", P: p})
		default:
			c.Ops = append(c.Ops, c11Op{Op: "snap", P: recv()})
		}
	}
	c.Ops = append(c.Ops, c11Op{Op: "snap", P: recv()})
	return c
}

// ---- the reference tally (independent of the implementation) --------------

type c11Ent struct {
	kind   int // 1 counter 2 gauge 3 timer 4 histogram
	name   string
	tags   map[string]string
	sum    int64
	bits   int64
	vals   []int64
	dur    bool
	uppers []int64 // sorted, with the maximum
	counts []int64
}
type c11Ref struct {
	root   c11ID
	closed map[string]bool
	ents   map[string]*c11Ent
}
type c11ID struct {
	prefix string
	tags   map[string]string
}

func c11TagStr(t map[string]string) string {
	ks := make([]string, 0, len(t))
	for k := range t {
		ks = append(ks, k)
	}
	sort.Strings(ks)
	var b strings.Builder
	for _, k := range ks {
		b.WriteString(k)
		b.WriteByte(1)
		b.WriteString(t[k])
		b.WriteByte(2)
	}
	return b.String()
}
func (id c11ID) key() string { return id.prefix + "\x00" + c11TagStr(id.tags) }

func c11Fqn(prefix, name string) string {
	if prefix == "" {
		return name
	}
	return prefix + "." + name
}

// resolve returns the scope identity a path denotes; ok = false when a step is
// taken from a closed scope (or with the root closed).
func (rf *c11Ref) resolve(p []c11Step) (c11ID, bool) {
	id := rf.root
	for _, st := range p {
		if rf.closed[rf.root.key()] || rf.closed[id.key()] {
			return id, false
		}
		if st.T {
			nt := map[string]string{}
			for k, v := range id.tags {
				nt[k] = v
			}
			for k, v := range st.M {
				nt[string(k)] = string(v)
			}
			id = c11ID{id.prefix, nt}
		} else {
			id = c11ID{c11Fqn(id.prefix, string(st.N)), id.tags}
		}
	}
	return id, true
}

func c11Uppers(dur bool, spec []int64) []int64 {
	us := append([]int64(nil), spec...)
	if dur {
		sort.Slice(us, func(i, j int) bool { return us[i] < us[j] })
		return append(us, math.MaxInt64)
	}
	sort.SliceStable(us, func(i, j int) bool {
		return math.Float64frombits(uint64(us[i])) < math.Float64frombits(uint64(us[j]))
	})
	return append(us, fbits(math.MaxFloat64))
}

func c11Bucket(dur bool, us []int64, v int64) int {
	if dur {
		for i, u := range us {
			if u >= v {
				return i
			}
		}
		return len(us) - 1
	}
	fv := math.Float64frombits(uint64(v))
	for i, u := range us {
		if math.Float64frombits(uint64(u)) >= fv {
			return i
		}
	}
	return len(us) - 1 // +Inf, NaN
}

func (rf *c11Ref) ent(kind int, id c11ID, name string) (*c11Ent, bool) {
	full := c11Fqn(id.prefix, name)
	k := fmt.Sprintf("%d\x00%s\x00%s", kind, full, c11TagStr(id.tags))
	e, ok := rf.ents[k]
	if !ok {
		e = &c11Ent{kind: kind, name: full, tags: id.tags}
		rf.ents[k] = e
	}
	return e, !ok
}

func (rf *c11Ref) apply(o *c11Op) {
	if o.Op == "snap" {
		return
	}
	id, ok := rf.resolve(o.P)
	if !ok {
		return
	}
	hist := func(dur bool) *c11Ent {
		e, fresh := rf.ent(4, id, string(o.N))
		if fresh {
			e.dur = dur
			e.uppers = c11Uppers(dur, o.Spec)
			e.counts = make([]int64, len(e.uppers))
		}
		return e
	}
	switch o.Op {
	case "inc":
		e, _ := rf.ent(1, id, string(o.N))
		e.sum += o.V
	case "upd":
		e, _ := rf.ent(2, id, string(o.N))
		e.bits = o.V
	case "rec":
		e, _ := rf.ent(3, id, string(o.N))
		e.vals = append(e.vals, o.V)
	case "hv", "hd":
		dur := o.Op == "hd"
		e := hist(dur)
		if e.dur == dur {
			e.counts[c11Bucket(dur, e.uppers, o.V)]++
		}
	case "get":
		switch o.MK {
		case 0, 1, 2:
			rf.ent(o.MK+1, id, string(o.N))
		default:
			hist(o.MK == 4)
		}
	case "close":
		rf.closed[id.key()] = true
	}
}

// canonical map key of a float64 bound (-0 and +0 are one key)
func c11Canon(dur bool, u int64) int64 {
	if !dur && u == fbits(math.Copysign(0, -1)) {
		return 0
	}
	return u
}
func c11Less(dur bool, a, b int64) bool {
	if dur {
		return a < b
	}
	return math.Float64frombits(uint64(a)) < math.Float64frombits(uint64(b))
}

// pairs (bound, count) of a reference histogram as a snapshot has to show them
func (e *c11Ent) histPairs() []int64 {
	m := map[int64]int64{}
	var ks []int64
	for i, u := range e.uppers {
		cu := c11Canon(e.dur, u)
		if _, ok := m[cu]; !ok {
			ks = append(ks, cu)
		}
		m[cu] += e.counts[i]
	}
	sort.Slice(ks, func(i, j int) bool { return c11Less(e.dur, ks[i], ks[j]) })
	var out []int64
	for _, k := range ks {
		out = append(out, k, m[k])
	}
	return out
}

// expected projects the reference tally the way c11Project projects a snapshot
func (rf *c11Ref) expected() []Ev {
	var out []Ev
	for _, e := range rf.ents {
		ev := Ev{K: 50 + e.kind, S: nameTags(e.name, e.tags)}
		switch e.kind {
		case 1:
			ev.I = []int64{e.sum}
		case 2:
			ev.I, ev.F = []int64{e.bits}, 1
		case 3:
			ev.I = append([]int64{}, e.vals...)
		case 4:
			ev.I, ev.F = c11HistInts(e.dur, e.histPairs())
		}
		out = append(out, ev)
	}
	c11Sort(out)
	return out
}

func c11HistInts(dur bool, pairs []int64) ([]int64, uint32) {
	k := int64(0)
	if dur {
		k = 1
	}
	ints := append([]int64{k}, pairs...)
	var f uint32
	if !dur {
		for i := 1; i < len(ints) && i < 32; i += 2 {
			f |= 1 << uint(i)
		}
	}
	return ints, f
}

func c11Sort(evs []Ev) {
	sort.SliceStable(evs, func(i, j int) bool {
		if evs[i].K != evs[j].K {
			return evs[i].K < evs[j].K
		}
		return strings.Join(evs[i].S, "\x00") < strings.Join(evs[j].S, "\x00")
	})
}

// c11Project reads a snapshot through its public interface; also checks that
// every entry sits under the key KeyForPrefixedStringMap(name, tags).
func c11Project(s tally.Snapshot) (out []Ev, keyErr string) {
	chk := func(id, name string, tags map[string]string) {
		if want := tally.KeyForPrefixedStringMap(name, tags); want != id && keyErr == "" {
			keyErr = fmt.Sprintf("entry %q %v is stored under key %q, expected %q", name, tags, id, want)
		}
	}
	for id, c := range s.Counters() {
		chk(id, c.Name(), c.Tags())
		out = append(out, Ev{K: 51, I: []int64{c.Value()}, S: nameTags(c.Name(), c.Tags())})
	}
	for id, g := range s.Gauges() {
		chk(id, g.Name(), g.Tags())
		out = append(out, Ev{K: 52, I: []int64{fbits(g.Value())}, F: 1, S: nameTags(g.Name(), g.Tags())})
	}
	for id, t := range s.Timers() {
		chk(id, t.Name(), t.Tags())
		vs := make([]int64, 0, len(t.Values()))
		for _, d := range t.Values() {
			vs = append(vs, int64(d))
		}
		out = append(out, Ev{K: 53, I: vs, S: nameTags(t.Name(), t.Tags())})
	}
	for id, h := range s.Histograms() {
		chk(id, h.Name(), h.Tags())
		dur := h.Values() == nil
		m := map[int64]int64{}
		var ks []int64
		if dur {
			for d, n := range h.Durations() {
				ks = append(ks, int64(d))
				m[int64(d)] = n
			}
		} else {
			if h.Durations() != nil && keyErr == "" {
				keyErr = fmt.Sprintf("histogram %q has both value and duration maps", h.Name())
			}
			for v, n := range h.Values() {
				k := c11Canon(false, fbits(v))
				ks = append(ks, k)
				m[k] += n
			}
		}
		sort.Slice(ks, func(i, j int) bool { return c11Less(dur, ks[i], ks[j]) })
		var pairs []int64
		for _, k := range ks {
			pairs = append(pairs, k, m[k])
		}
		ints, f := c11HistInts(dur, pairs)
		out = append(out, Ev{K: 54, I: ints, F: f, S: nameTags(h.Name(), h.Tags())})
	}
	c11Sort(out)
	return
}

func c11Diff(got, want []Ev) string {
	gm := map[string]Ev{}
	for _, e := range got {
		gm[fmt.Sprint(e.K, "\x00", strings.Join(e.S, "\x00"))] = e
	}
	for _, w := range want {
		k := fmt.Sprint(w.K, "\x00", strings.Join(w.S, "\x00"))
		g, ok := gm[k]
		if !ok {
			return fmt.Sprintf("entry kind %d %q is missing from the snapshot (recorded: %v)", w.K-50, w.S, w.I)
		}
		if g.Term() != w.Term() {
			return fmt.Sprintf("entry kind %d %q shows %v, recorded %v", w.K-50, w.S, g.I, w.I)
		}
	}
	if len(got) != len(want) {
		return fmt.Sprintf("snapshot has %d entries, %d metrics were recorded", len(got), len(want))
	}
	return ""
}

// c11Reuse is what a caller may do with a tag map once NewTestScope / Tagged has
// returned (typically one map updated in a loop): every value is overwritten, one
// key is removed and another added. A scope's tags are fixed at derivation time
// ("one entry per metric, keyed by its full name and tags"), so nothing the caller
// does to its own map afterwards may show in a snapshot.
func c11Reuse(m map[string]string) {
	if m == nil {
		return
	}
	first := true
	for k := range m {
		if first && len(m) > 1 {
			delete(m, k)
			first = false
			continue
		}
		m[k] = "reused-by-caller"
	}
	m["caller"] = "mutated"
}

// c11Tagged derives sc.Tagged(m) from a map owned by the caller, which re-uses it right away.
func c11Tagged(sc tally.Scope, m map[B]B) tally.Scope {
	own := tagsOf(m)
	out := sc.Tagged(own)
	c11Reuse(own)
	return out
}

func c11NewScope(c *c11Case) tally.TestScope {
	tags := tagsOf(c.Tags)
	defer c11Reuse(tags)
	if c.Shards == 0 {
		return tally.NewTestScope(string(c.Prefix), tags)
	}
	return tally.VerifNewTestScope(string(c.Prefix), tags, uint(c.Shards))
}

func c11Buckets(dur bool, spec []int64) tally.Buckets {
	if dur {
		d := make(tally.DurationBuckets, len(spec))
		for i, v := range spec {
			d[i] = time.Duration(v)
		}
		return d
	}
	v := make(tally.ValueBuckets, len(spec))
	for i, b := range spec {
		v[i] = math.Float64frombits(uint64(b))
	}
	return v
}

// path encoding for the model: ints -1 = SubScope (one string), n >= 0 = Tagged with n pairs
func c11PathEnc(p []c11Step) (ints []int64, strs []string) {
	for _, st := range p {
		if !st.T {
			ints = append(ints, -1)
			strs = append(strs, string(st.N))
			continue
		}
		nt := nameTags("", tagsOf(st.M))[1:]
		ints = append(ints, int64(len(nt)/2))
		strs = append(strs, nt...)
	}
	return
}

func c11OpEv(o *c11Op) Ev {
	pi, ps := c11PathEnc(o.P)
	s := append([]string{string(o.N)}, ps...)
	fl := func(n int) uint32 { // flags for n float values starting at position 1
		var f uint32
		for i := 1; i <= n; i++ {
			f |= 1 << uint(i)
		}
		return f
	}
	switch o.Op {
	case "inc":
		return Ev{K: 41, I: append([]int64{o.V}, pi...), S: s}
	case "upd":
		return Ev{K: 42, I: append([]int64{o.V}, pi...), F: 1, S: s}
	case "rec":
		return Ev{K: 43, I: append([]int64{o.V}, pi...), S: s}
	case "hv":
		return Ev{K: 44, I: append(append([]int64{int64(len(o.Spec)), o.V}, o.Spec...), pi...), F: fl(1 + len(o.Spec)), S: s}
	case "hd":
		return Ev{K: 45, I: append(append([]int64{int64(len(o.Spec)), o.V}, o.Spec...), pi...), S: s}
	case "get":
		var f uint32
		if o.MK == 3 {
			for i := 0; i < len(o.Spec); i++ {
				f |= 1 << uint(2+i)
			}
		}
		return Ev{K: 48, I: append(append([]int64{int64(o.MK), int64(len(o.Spec))}, o.Spec...), pi...), F: f, S: s}
	case "close":
		return Ev{K: 46, I: pi, S: s}
	}
	// the receiver path of a snapshot is informative only: the model's Snapshot has no receiver
	return Ev{K: 47, I: pi, S: s}
}

type c11Taken struct {
	snap tally.Snapshot
	copy []Ev
	at   int
}

// c11Run drives the real test scope; returns the model's input and observed events,
// a failure of the direct predicate ("" = none) and its predicate name.
func c11Run(c *c11Case) (in, obs []Ev, pred, fail string) {
	ts := c11NewScope(c)
	rootTags := tagsOf(c.Tags)
	if rootTags == nil {
		rootTags = map[string]string{}
	}
	rf := &c11Ref{root: c11ID{string(c.Prefix), rootTags}, closed: map[string]bool{}, ents: map[string]*c11Ent{}}
	in = append(in, Ev{K: 40, S: nameTags(string(c.Prefix), rootTags)})
	var taken []c11Taken
	setFail := func(p, f string) {
		if fail == "" {
			pred, fail = p, f
		}
	}
	defer func() {
		if p := recover(); p != nil {
			setFail("no_panic", fmt.Sprintf("panic: %v", p))
			obs = append(obs, Ev{K: 98})
		}
	}()
	// snapshot takes the snapshot through the scope the receiver path denotes (the test
	// scope itself for the empty path). The result must not depend on the receiver: it is
	// compared with the same reference tally and the same model snapshot. A path that
	// passes through a closed scope denotes the package-level no-op scope, which is not
	// derived from this test scope: the root is used instead. A closed scope as the
	// receiver itself is meaningful (test scopes survive Close) and is used.
	snapshot := func(at int, recv []c11Step) {
		var via tally.TestScope = ts
		if _, live := rf.resolve(recv); live && len(recv) > 0 {
			var sc tally.Scope = ts
			for _, st := range recv {
				if st.T {
					sc = c11Tagged(sc, st.M)
				} else {
					sc = sc.SubScope(string(st.N))
				}
			}
			if t, ok := sc.(tally.TestScope); ok && sc != tally.NoopScope {
				via = t
			} else {
				setFail("derived_scope_is_a_test_scope", fmt.Sprintf("the scope derived for the snapshot after op %d is not a TestScope", at))
			}
		}
		s := via.Snapshot()
		got, keyErr := c11Project(s)
		if keyErr != "" {
			setFail("entry_key_is_KeyForPrefixedStringMap", keyErr)
		}
		want := rf.expected()
		if d := c11Diff(got, want); d != "" {
			setFail("snapshot_equals_reference_tally", fmt.Sprintf("snapshot after op %d: %s", at, d))
		}
		cnt := [5]int64{}
		for _, e := range got {
			cnt[e.K-50]++
		}
		obs = append(obs, Ev{K: 50, I: cnt[1:]})
		obs = append(obs, got...)
		taken = append(taken, c11Taken{s, append([]Ev(nil), got...), at})
	}
	for i := range c.Ops {
		o := &c.Ops[i]
		in = append(in, c11OpEv(o))
		if o.Op == "snap" {
			snapshot(i, o.P)
			continue
		}
		var sc tally.Scope = ts
		for _, st := range o.P {
			if st.T {
				sc = c11Tagged(sc, st.M)
			} else {
				sc = sc.SubScope(string(st.N))
			}
		}
		switch o.Op {
		case "inc":
			sc.Counter(string(o.N)).Inc(o.V)
		case "upd":
			sc.Gauge(string(o.N)).Update(math.Float64frombits(uint64(o.V)))
		case "rec":
			sc.Timer(string(o.N)).Record(time.Duration(o.V))
		case "hv":
			sc.Histogram(string(o.N), c11Buckets(false, o.Spec)).RecordValue(math.Float64frombits(uint64(o.V)))
		case "hd":
			sc.Histogram(string(o.N), c11Buckets(true, o.Spec)).RecordDuration(time.Duration(o.V))
		case "get":
			switch o.MK {
			case 0:
				sc.Counter(string(o.N))
			case 1:
				sc.Gauge(string(o.N))
			case 2:
				sc.Timer(string(o.N))
			default:
				sc.Histogram(string(o.N), c11Buckets(o.MK == 4, o.Spec))
			}
		case "close":
			if sc != tally.NoopScope { // never close the package-level no-op scope
				if cl, ok := sc.(io.Closer); ok {
					cl.Close()
				}
			}
		}
		rf.apply(o)
	}
	// independence of the copy (harness-only clause)
	for _, t := range taken {
		now, _ := c11Project(t.snap)
		if d := c11Diff(now, t.copy); d != "" || len(now) != len(t.copy) {
			setFail("later_recording_does_not_change_a_snapshot", fmt.Sprintf("snapshot taken after op %d changed afterwards: %s", t.at, d))
		}
	}
	if len(taken) > 0 {
		c11Vandalize(taken[len(taken)-1].snap)
		got, _ := c11Project(ts.Snapshot())
		if d := c11Diff(got, rf.expected()); d != "" {
			setFail("modifying_a_snapshot_does_not_affect_the_scope", "after modifying the returned snapshot: "+d)
		}
	}
	return
}

// c11Vandalize modifies everything reachable from a returned snapshot.
func c11Vandalize(s tally.Snapshot) {
	junk := func(m map[string]string) {
		for k := range m {
			m[k] = "vandal"
		}
		m["vandal"] = "1"
	}
	for k, c := range s.Counters() {
		junk(c.Tags())
		delete(s.Counters(), k)
	}
	for _, g := range s.Gauges() {
		junk(g.Tags())
	}
	s.Gauges()["vandal"] = nil
	for _, t := range s.Timers() {
		junk(t.Tags())
		vs := t.Values()
		for i := range vs {
			vs[i] = 777
		}
		if cap(vs) > len(vs) {
			_ = append(vs, 888)
		}
	}
	for _, h := range s.Histograms() {
		junk(h.Tags())
		for k := range h.Values() {
			h.Values()[k] += 1000
		}
		for k := range h.Durations() {
			h.Durations()[k] += 1000
		}
		if h.Values() != nil {
			h.Values()[12345.5] = 1
		}
	}
}

func c11Term(idx int, c *c11Case, in, obs []Ev) string {
	return gcase(idx, []int64{int64(c.Shards)}, in, obs)
}

// ---- concurrent stream ------------------------------------------------------

func c11Conc(ctx *Ctx, c *c11Case) {
	ts := c11NewScope(c)
	type target struct {
		cnt           tally.Counter
		tm            tally.Timer
		h             tally.Histogram
		name          string
		tags          map[string]string
		started, done atomic.Int64
	}
	rootTags := tagsOf(c.Tags)
	if rootTags == nil {
		rootTags = map[string]string{}
	}
	mk := func(sc tally.Scope, prefix string, tags map[string]string) *target {
		return &target{cnt: sc.Counter("c"), tm: sc.Timer("c"), h: sc.Histogram("c", tally.ValueBuckets{1, 2}),
			name: c11Fqn(prefix, "c"), tags: tags}
	}
	withX := map[string]string{"x": "1"}
	for k, v := range rootTags {
		if _, ok := withX[k]; !ok {
			withX[k] = v
		}
	}
	tg := []*target{
		mk(ts, string(c.Prefix), rootTags),
		mk(ts.SubScope("s"), c11Fqn(string(c.Prefix), "s"), rootTags),
		mk(c11Tagged(ts, map[B]B{"x": "1"}), string(c.Prefix), withX),
	}
	var wg sync.WaitGroup
	for w := 0; w < c.Workers; w++ {
		wg.Add(1)
		go func(w int) {
			defer wg.Done()
			for i := 0; i < c.PerW; i++ {
				t := tg[(w+i)%len(tg)]
				t.started.Add(1)
				t.cnt.Inc(1)
				t.tm.Record(time.Duration(i))
				t.h.RecordValue(float64(i % 3))
				t.done.Add(1)
				if i%64 == 0 {
					// derive scopes concurrently with the walk
					ts.SubScope(fmt.Sprintf("w%d", w)).Counter("n").Inc(1)
				}
			}
		}(w)
	}
	fail := ""
	check := func(exact bool) {
		lo := make([]int64, len(tg))
		for i, t := range tg {
			lo[i] = t.done.Load()
		}
		s := ts.Snapshot()
		for i, t := range tg {
			hi := t.started.Load()
			id := tally.KeyForPrefixedStringMap(t.name, t.tags)
			var cv, tv, hv int64 = 0, 0, 0
			if e, ok := s.Counters()[id]; ok {
				cv = e.Value()
			}
			if e, ok := s.Timers()[id]; ok {
				tv = int64(len(e.Values()))
			}
			if e, ok := s.Histograms()[id]; ok {
				for _, n := range e.Values() {
					hv += n
				}
			}
			for _, x := range []struct {
				what string
				v    int64
			}{{"counter", cv}, {"timer length", tv}, {"histogram total", hv}} {
				if (x.v < lo[i] || x.v > hi) && fail == "" {
					fail = fmt.Sprintf("%s of %q %v shows %d; %d recordings had completed before the snapshot and %d had started after it", x.what, t.name, t.tags, x.v, lo[i], hi)
				}
				if exact && x.v != hi && fail == "" {
					fail = fmt.Sprintf("%s of %q %v shows %d after all %d recordings completed", x.what, t.name, t.tags, x.v, hi)
				}
			}
		}
	}
	doneCh := make(chan struct{})
	go func() { wg.Wait(); close(doneCh) }()
	n := 0
loop:
	for {
		select {
		case <-doneCh:
			break loop
		default:
			check(false)
			n++
		}
	}
	check(true)
	ctx.Case(c, "", fmt.Sprintf("conc/shards=%d", c.Shards), fmt.Sprintf("conc/%d/%d/%d", c.Shards, c.Workers, c.PerW))
	if fail != "" {
		ctx.Fail("concurrent_snapshot_within_bounds", fail, c, nil)
	}
}

// ---- fixed witnesses ----------------------------------------------------------

func c11Witnesses() []c11Case {
	one := fbits(1)
	half := fbits(0.5)
	return []c11Case{
		{Stream: "dup", Shards: 1, Ops: []c11Op{
			{Op: "hv", N: "h", V: half, Spec: []int64{one, one}}, {Op: "snap"}}},
		{Stream: "dup", Shards: 1, Ops: []c11Op{
			{Op: "hd", N: "d", V: 5, Spec: []int64{math.MaxInt64}}, {Op: "snap"}}},
		{Stream: "dup", Shards: 1, Ops: []c11Op{
			{Op: "hv", N: "z", V: fbits(-1), Spec: []int64{0, fbits(math.Copysign(0, -1))}}, {Op: "snap"}}},
		// "a+b=c" without tags and "a" with {b: "c+"} share the key "a+b=c+"
		{Stream: "delim", Shards: 1, Ops: []c11Op{
			{Op: "inc", N: "a+b=c", V: 1},
			{Op: "inc", P: []c11Step{{T: true, M: map[B]B{"b": "c+"}}}, N: "a", V: 2}, {Op: "snap"}}},
		// Counter("a.b") of the root and Counter("b") of SubScope("a") are both "a.b"
		{Stream: "dot", Shards: 1, Ops: []c11Op{
			{Op: "inc", N: "a.b", V: 1},
			{Op: "inc", P: []c11Step{{N: "a"}}, N: "b", V: 2}, {Op: "snap"}}},
	}
}

func c11Class(c *c11Case) string {
	closes, snaps, depth, derived := 0, 0, 0, 0
	for _, o := range c.Ops {
		switch o.Op {
		case "close":
			closes++
		case "snap":
			snaps++
			if len(o.P) > 0 {
				derived++
			}
			continue
		}
		if len(o.P) > depth {
			depth = len(o.P)
		}
	}
	cl := "no-close"
	if closes > 0 {
		cl = "with-close"
	}
	via := "snap-via-root"
	if derived > 0 {
		via = "snap-via-derived"
	}
	return fmt.Sprintf("%s/shards=%d/depth=%d/%s/%s", c.Stream, c.Shards, depth, cl, via)
}

func init() {
	props["C11"] = func(ctx *Ctx) {
		ctx.Header("SnapshotCorr")
		ctx.Res.Rule = "case = (registry shard count, root prefix and tags, history of record / get / Close / Snapshot operations addressed by derivation paths, Snapshot being called on the test scope or on any scope derived from it; every tag map handed to NewTestScope / Tagged is overwritten by the caller as soon as the call returns); generated from the seed; non-trivial = at least one snapshot with at least two entries; distinct by history hash. Streams dup / delim / dot replay the known findings; conc = snapshots concurrent with recording (the conclusion of theorem C11_concurrent_snapshot_bounds: recordings completed before the snapshot <= shown <= recordings started before it ended, per counter / timer length / histogram total); sched = goroutines deriving, recording and closing subscopes under controlled interleavings over the registry's and the metric getters' yield points (final snapshot = tally of all operations); storm = several goroutines behind a spin barrier take snapshots of one quiescent tree of 64..192 metrics at the same time, each snapshot = the tally exactly"
		one := func(c *c11Case) {
			if c.Stream == "conc" {
				c11Conc(ctx, c)
				return
			}
			if c.Stream == "storm" {
				c11Storm(ctx, c)
				return
			}
			if c.Stream == "sched" {
				c11Sched(ctx, c)
				return
			}
			in, obs, pred, fail := c11Run(c)
			key := ""
			for _, e := range obs {
				if e.K == 50 && e.I[0]+e.I[1]+e.I[2]+e.I[3] >= 2 {
					key = hashOf(c)
				}
			}
			known := map[string]string{"dup": "F11", "delim": "F05b", "dot": "F11b"}[c.Stream]
			term := c11Term(ctx.Res.Evaluations, c, in, obs)
			if fail != "" && known != "" {
				term = "" // the model describes the repaired behaviour
			}
			if c.Stream == "delim" || c.Stream == "dot" {
				term = "" // outside the hypotheses of the model's theorems
			}
			ctx.Case(c, term, c11Class(c), key)
			if fail != "" {
				if known != "" && pred == "snapshot_equals_reference_tally" {
					ctx.FailKnown(known, pred, fail, c, obs)
				} else {
					ctx.Fail(pred, fail, c, obs)
				}
			}
		}
		if ctx.Replay != nil {
			var c c11Case
			if err := json.Unmarshal(ctx.Replay, &c); err != nil {
				fatal(err)
			}
			one(&c)
			return
		}
		for _, raw := range ctx.CorpusCases() {
			var c c11Case
			if json.Unmarshal(raw, &c) == nil {
				one(&c)
			}
		}
		for _, c := range c11Witnesses() {
			c := c
			one(&c)
		}
		n := ctx.N(420, 9000)
		for i := 0; i < n; i++ {
			c := c11Gen(ctx.R, i, "main")
			one(&c)
		}
		nd := ctx.N(60, 1200)
		for i := 0; i < nd; i++ {
			c := c11Gen(ctx.R, i, "dup")
			one(&c)
		}
		ns := ctx.N(160, 2500)
		for i := 0; i < ns; i++ {
			c := c11SchedGen(ctx.R, i)
			one(&c)
		}
		nst := ctx.N(16, 200)
		for i := 0; i < nst; i++ {
			c := c11StormGen(ctx.R, i)
			one(&c)
		}
		nc := ctx.N(8, 60)
		for i := 0; i < nc; i++ {
			c := c11Case{Stream: "conc", Shards: []int{0, 1, 2, 16}[i%4], Prefix: B(ctx.R.Pick(c11Prefixes)),
				Tags: c11GenTags(ctx.R, 1), Workers: ctx.R.Range(2, 6), PerW: ctx.R.Range(200, 2000)}
			one(&c)
		}
	}
}
