package main

// C02 with a delivery stalled inside the reporter ("... whatever reports were running concurrently with
// the updates"): the yield points of the lock-step runs are inside Update / report, never inside a
// reporter call.  Direct predicates.

import (
	"fmt"
	"sync/atomic"
	"time"

	tally "github.com/uber-go/tally/v4"
)

func c02StallOpts(cached bool, log *Log, entered, release chan struct{}) tally.ScopeOptions {
	var once int32
	stall := func(k int) {
		if (k == 2 || k == 22) && atomic.CompareAndSwapInt32(&once, 0, 1) {
			close(entered)
			<-release
		}
	}
	opts := tally.ScopeOptions{OmitCardinalityMetrics: true}
	if cached {
		opts.CachedReporter = &RecCached{L: log, Caps: caps{true, true}, OnCall: stall}
	} else {
		opts.Reporter = &RecReporter{L: log, Caps: caps{true, true}, OnCall: stall}
	}
	return opts
}

// c02Overlap: pass P1 is stalled inside the delivery of the gauge's older value; the gauge gets its
// last update; pass P2 starts afterwards and completes: the last update must have been delivered when
// P2 returns (P1's late delivery of the older value is the reporter-call inversion the statement
// allows for: "whatever reports were running concurrently").
func c02Overlap(cached bool) string {
	log := &Log{}
	entered, release := make(chan struct{}), make(chan struct{})
	root, closer := tally.VerifNewRootScope(c02StallOpts(cached, log, entered, release), 0, 1)
	defer closer.Close()
	g := root.SubScope("s").Gauge("g")
	g.Update(1)
	p1 := make(chan struct{})
	go func() { tally.VerifReportOnce(root); close(p1) }()
	<-entered
	g.Update(42.5) // the last update
	p2 := make(chan struct{})
	go func() { tally.VerifReportOnce(root); close(p2) }() // the first pass that starts afterwards
	select {
	case <-p2:
	case <-time.After(5 * time.Second):
		// P2 waits for something P1 holds: not this stream's subject; let both finish
		close(release)
		<-p1
		<-p2
		return ""
	}
	got := c02Delivered(log)["s.g"]
	close(release)
	<-p1
	for _, v := range got {
		if v == 42.5 {
			return ""
		}
	}
	return fmt.Sprintf("a pass was stalled inside the reporter's delivery of the gauge's older value 1; the gauge was then updated to 42.5 (its last update) and another pass started and completed: that pass delivered %v for the gauge, not 42.5", got)
}

// c02CloseInFlight: real ticker and the default number of registry shards; a periodic pass is stalled
// inside the delivery of a gauge (of the root when which = 0, of a subscope otherwise); every gauge gets
// its last update and Close is called; when the Close caller waits for the loop the delivery is
// released.  Close's final pass starts after the last updates: when Close returns every gauge's last
// update must have been delivered.
func c02CloseInFlight(cached bool, which int) string {
	log := &Log{}
	entered, release := make(chan struct{}), make(chan struct{})
	root, closer := tally.NewRootScope(c02StallOpts(cached, log, entered, release), 2*time.Millisecond)
	const nobj = 3
	gs := make([]tally.Gauge, nobj)
	gs[0] = root.Gauge("g0")
	for i := 1; i < nobj; i++ {
		gs[i] = root.Tagged(map[string]string{"k": fmt.Sprint(i)}).Gauge(fmt.Sprintf("g%d", i))
	}
	gs[which].Update(1)
	select {
	case <-entered:
	case <-time.After(10 * time.Second):
		close(release)
		closer.Close()
		return ""
	}
	last := map[string]float64{}
	for i := range gs {
		v := 100.5 + float64(i)
		gs[i].Update(v)
		last[fmt.Sprintf("g%d", i)] = v
	}
	cd := make(chan struct{})
	var closerGid uint64
	go func() {
		atomic.StoreUint64(&closerGid, gid())
		closer.Close()
		close(cd)
	}()
	waitUntilParked(&closerGid, cd)
	close(release)
	<-cd
	got := c02Delivered(log)
	for n, v := range last {
		ok := false
		for _, d := range got[n] {
			if d == v {
				ok = true
			}
		}
		if !ok {
			where := "a subscope's gauge"
			if which == 0 {
				where = "the root scope's own gauge"
			}
			return fmt.Sprintf("real ticker: a periodic pass was stalled inside the delivery of %s; meanwhile every gauge got its last update and Close was called; the delivery was released once the Close caller was waiting for the loop. When Close returned gauge %s had been delivered with %v, never with its last update %v", where, n, got[n], v)
		}
	}
	return ""
}
