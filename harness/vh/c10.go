package main

// C10 — timers are forwarded immediately, exactly once; stopwatches measure
// elapsed time; instrumented calls.
//
// A case is a history of API calls over handles (scopes, timers, duration
// histograms, stopwatches, instrumented calls, all numbered in creation
// order) on one of three flavours of root scope: plain recording reporter,
// cached recording reporter, reporter-less test scope.  The clock used by
// stopwatches is a script installed through tally.VerifSetNow.  After every
// single call the harness looks at what the reporter was called with during
// that call (or, for a test scope, at the complete Snapshot()), which is what
// makes "synchronously, before Record returns" observable.

import (
	"context"
	"encoding/json"
	"errors"
	"fmt"
	"io"
	"math"
	"sort"
	"strings"
	"time"
	"unicode/utf8"
	"unsafe"

	tally "github.com/uber-go/tally/v4"
	"github.com/uber-go/tally/v4/instrument"
)

type c10Op struct {
	Op   string  `json:"op"` // sub tag timer rec pass start hist hstart stop call exec close begin end timerx (Timer whose allocation the cached reporter refuses)
	H    int     `json:"h"`  // the handle the call is made on
	Name B       `json:"name,omitempty"`
	Tags map[B]B `json:"tags,omitempty"`
	D    int64   `json:"d,omitempty"`
	Spec []int64 `json:"spec,omitempty"`
	Err  bool    `json:"err,omitempty"`
	Kind int     `json:"kind,omitempty"` // exec / end with Err: which error value the function returns (c10ErrValue)
}
type c10Case struct {
	Flavour int     `json:"flavour"` // 0 plain, 1 cached, 2 test scope, 3 both a plain and a cached reporter
	Prefix  B       `json:"prefix"`
	Tags    map[B]B `json:"tags,omitempty"`
	Clock   []int64 `json:"clock"`
	Ops     []c10Op `json:"ops"`
	Wall    int     `json:"wall,omitempty"` // >0: wall-clock sanity case (real clock, not sent to the model)
	// Every > 0 (long histories): on a test scope, whose Snapshot() grows with the
	// history, only every Every-th call's snapshot is written down for the model;
	// the direct predicate still looks at the snapshot after every call.
	Every int `json:"every,omitempty"`
	// Threads non-empty: a concurrent case (c10conc.go). Ops is the sequential
	// prelude (sub / tag only); each thread then runs its own list of timer
	// (H = scope handle) and rec (H = index among the thread's own timers) calls;
	// Sched is the order in which the schedule controller resumes the threads.
	Threads [][]c10Op `json:"threads,omitempty"`
	Sched   []int     `json:"sched,omitempty"`
	// Storm = [G, N] (c10conc.go): G goroutines record N distinct values each on one
	// existing timer at the same time, unscheduled (there is no scheduling point
	// inside Record); not sent to the model. Ops is the prelude (sub / tag), the
	// timer lives in the last scope.
	Storm []int `json:"storm,omitempty"`
	// Base: what the clock script's values are offsets from (c10Instant): 0 the Unix epoch, 1 the zero
	// time.Time (year 1), 2 the year 2400, 3 the year 1600 - all without a monotonic reading -, 4 a genuine
	// time.Now() reading: the script moves its monotonic part, the wall clock part is stepped around.
	// Elapsed times are differences, so the expectations (and the model) do not depend on the base.
	Base int `json:"base,omitempty"`
	// San: ScopeOptions.SanitizeOptions of the root scope (nil = none; reporter-backed flavours only)
	San *c10San `json:"san,omitempty"`
}

type c10Tab struct {
	Ranges [][2]int32 `json:"ranges,omitempty"`
	Chars  []int32    `json:"chars,omitempty"`
}
type c10San struct {
	Rep   int32  `json:"rep"`
	Name  c10Tab `json:"name"`
	Key   c10Tab `json:"key"`
	Value c10Tab `json:"value"`
}

func (t c10Tab) vc() tally.ValidCharacters {
	v := tally.ValidCharacters{}
	for _, r := range t.Ranges {
		v.Ranges = append(v.Ranges, tally.SanitizeRange{r[0], r[1]})
	}
	for _, c := range t.Chars {
		v.Characters = append(v.Characters, c)
	}
	return v
}
func (t c10Tab) ints() []int64 {
	o := []int64{int64(len(t.Ranges))}
	for _, r := range t.Ranges {
		o = append(o, int64(r[0]), int64(r[1]))
	}
	o = append(o, int64(len(t.Chars)))
	for _, c := range t.Chars {
		o = append(o, int64(c))
	}
	return o
}
func (z *c10San) opts() *tally.SanitizeOptions {
	if z == nil {
		return nil
	}
	return &tally.SanitizeOptions{NameCharacters: z.Name.vc(), KeyCharacters: z.Key.vc(), ValueCharacters: z.Value.vc(), ReplacementCharacter: z.Rep}
}
func (z *c10San) ints() []int64 {
	if z == nil {
		return nil
	}
	o := []int64{int64(z.Rep)}
	o = append(o, z.Name.ints()...)
	o = append(o, z.Key.ints()...)
	return append(o, z.Value.ints()...)
}

// apply: what the documentation of SanitizeOptions promises, written out
// independently of sanitize.go: every character outside the table (and every
// invalid byte) is replaced by the replacement character.
func (t c10Tab) apply(rep int32, s string) string {
	var b strings.Builder
	changed := false
	for i, w := 0, 0; i < len(s); i += w {
		r, width := utf8.DecodeRuneInString(s[i:])
		w = width
		ok := !(r == utf8.RuneError && width == 1)
		if ok {
			ok = false
			for _, g := range t.Ranges {
				ok = ok || (r >= g[0] && r <= g[1])
			}
			for _, c := range t.Chars {
				ok = ok || r == c
			}
		}
		if ok {
			b.WriteRune(r)
		} else {
			b.WriteRune(rep)
			changed = true
		}
	}
	if !changed {
		return s
	}
	return b.String()
}

// c10Sanz: the three string functions and the separator of a root scope.
type c10Sanz struct {
	sn, sk, sv func(string) string
	sep        string
}

func (z *c10San) fns() *c10Sanz {
	id := func(x string) string { return x }
	if z == nil {
		return &c10Sanz{id, id, id, "."}
	}
	f := &c10Sanz{
		sn: func(x string) string { return z.Name.apply(z.Rep, x) },
		sk: func(x string) string { return z.Key.apply(z.Rep, x) },
		sv: func(x string) string { return z.Value.apply(z.Rep, x) },
	}
	f.sep = f.sn(".")
	return f
}
func (f *c10Sanz) fqn(prefix, name string) string {
	if prefix == "" {
		return name
	}
	return prefix + f.sep + name
}
func (f *c10Sanz) stags(m map[string]string) map[string]string {
	o := map[string]string{}
	for k, v := range m {
		o[f.sk(k)] = f.sv(v)
	}
	return o
}

// brief renders a value list for messages: all of a short one, both ends of a long one.
func brief(v []int64) string {
	if len(v) <= 8 {
		return fmt.Sprint(v)
	}
	return fmt.Sprintf("[%d %d %d ... %d %d] (%d values)", v[0], v[1], v[2], v[len(v)-2], v[len(v)-1], len(v))
}

var c10Names = []string{"a", "b", "c", "x_y", "", "é", "\xff", "lat", "latency", "a.b", "rpc-0123456789"}
var c10NamesNoDot = []string{"a", "b", "c", "x_y", "", "é", "\xff", "lat", "latency", "rpc-0123456789"}
var c10TagKeys = []string{"a", "b", "k1", "host", "é", "result_type"}
var c10TagVals = []string{"1", "x", "error", "success", "", "\xff", "v-2"}
var c10Bounds = []int64{0, 1, -1, 1000, 1000000, 1000000000, 5000000000, -1000000000, math.MaxInt64 - 1, math.MinInt64, math.MinInt64 + 1, 1 << 40}

func c10Tags(r *Rng, max int) map[B]B {
	n := r.Intn(max + 1)
	if n == 0 && r.Bool() {
		return nil
	}
	m := map[B]B{}
	for i := 0; i < n; i++ {
		m[B(r.Pick(c10TagKeys))] = B(r.Pick(c10TagVals))
	}
	return m
}

// c10TagsZ: a tag map whose keys stay distinct after sanitizing (two keys
// collapsing into one would make the surviving value depend on Go's map order).
func c10TagsZ(r *Rng, max int, z *c10Sanz) map[B]B {
	m := c10Tags(r, max)
	seen := map[string]bool{}
	keys := make([]string, 0, len(m))
	for k := range m {
		keys = append(keys, string(k))
	}
	sort.Strings(keys)
	for _, k := range keys {
		if seen[z.sk(k)] {
			delete(m, B(k))
		}
		seen[z.sk(k)] = true
	}
	return m
}

var c10NamesSan = []string{"a", "b", "x_y", "", "é", "\xff", "latency", "a.b", "rpc latency (ms)", "a:b", "A B", "x/y", "q!", "rpc-0123456789"}

var c10Tabs = []c10Tab{
	{Ranges: [][2]int32{{'a', 'z'}, {'A', 'Z'}, {'0', '9'}}, Chars: []int32{'_'}},
	{Ranges: [][2]int32{{'a', 'z'}, {'0', '9'}}, Chars: []int32{'-', '_', '.'}},
	{Ranges: [][2]int32{{0x20, 0x7e}}},
	{Ranges: [][2]int32{{'a', 'z'}, {'A', 'Z'}, {'0', '9'}, {0xC0, 0x17F}}, Chars: []int32{'.'}},
	{},
}

func c10GenSan(r *Rng) *c10San {
	return &c10San{Rep: []int32{'_', '_', '-', 'é'}[r.Intn(4)],
		Name: c10Tabs[r.Intn(len(c10Tabs))], Key: c10Tabs[r.Intn(len(c10Tabs)-1)], Value: c10Tabs[r.Intn(len(c10Tabs))]}
}

// ---- bookkeeping shared by the generator and the direct predicate: what
// each handle denotes, computed from the API contract alone (SubScope
// extends the prefix, Tagged overrides tags, a metric lives in its scope
// under its name).
type c10Scope struct {
	prefix string // sanitized
	tags   map[string]string
	z      *c10Sanz
	g      *c10Reg
}

// c10Reg: which scopes have been closed / dropped from the registry, and how
// often each scope's metric tables were cleared, from the documented life
// cycle alone: Close() marks a scope; the next report pass reports it one last
// time, drops it and clears its tables (a name requested from it afterwards is
// a new metric); closing the root runs a final report pass and then closes,
// clears and drops every scope still registered; report passes stop. A test
// scope has no reporter: nothing is ever reported or dropped.
type c10Reg struct {
	root       string
	known      []string
	ep         map[string]int
	closed     []string
	dropped    map[string]bool
	rootClosed bool
	test       bool
}

func (s c10Scope) id() string { return fmt.Sprintf("%q|%q", s.prefix, nameTags("", s.tags)) }
func (g *c10Reg) note(id string) {
	for _, k := range g.known {
		if k == id {
			return
		}
	}
	g.known = append(g.known, id)
}
func (g *c10Reg) isClosed(id string) bool {
	if g.dropped[id] || g.rootClosed {
		return true
	}
	for _, k := range g.closed {
		if k == id {
			return true
		}
	}
	return false
}
func (g *c10Reg) pass() {
	if g.rootClosed || g.test {
		return
	}
	for _, id := range g.closed {
		g.ep[id]++
		g.dropped[id] = true
	}
	g.closed = nil
}
func (g *c10Reg) close(id string) {
	if g.rootClosed {
		return
	}
	if id != g.root {
		if !g.isClosed(id) {
			g.closed = append(g.closed, id)
		}
		return
	}
	if !g.test {
		for _, k := range g.known {
			if !g.dropped[k] {
				g.ep[k]++
				g.dropped[k] = true
			}
		}
		g.closed = nil
	}
	g.rootClosed = true
}

type c10Metric struct {
	obj  string   // identity of the metric object: scope (prefix, tags) and name
	strs []string // fully qualified name, then the tags sorted by key
}
type c10ExecB struct {
	call  int
	start int64
}
type c10Book struct {
	cached   bool            // the root has a cached reporter (it refuses allocations, c09PanicAlloc's policy)
	made     map[string]bool // timer objects that exist
	onceSeen map[string]bool // fully qualified names the reporter has been asked to allocate a timer for
	execs    []c10ExecB
	scopes   []c10Scope
	timers   []c10Metric
	hists    []c10Metric
	sws      []c10Sw
	calls    []c10Call
	seen     [3]map[string]string // kind (timer, counter, histogram) -> reported identity -> object
}
type c10Sw struct {
	timer, hist int // handle of the recorder (-1 = not that kind)
	start       int64
}
type c10Call struct{ errC, okC, lat c10Metric }

func mergeTags(a, b map[string]string) map[string]string {
	o := map[string]string{}
	for k, v := range a {
		o[k] = v
	}
	for k, v := range b {
		o[k] = v
	}
	return o
}

// metric: the metric called name in scope s - a delivery carries the scope's
// prefix, the separator and the sanitized name, and the scope's tags.
func (s c10Scope) metric(name string) c10Metric {
	name = s.z.sn(name)
	st := nameTags(s.z.fqn(s.prefix, name), s.tags)
	return c10Metric{obj: fmt.Sprintf("%s|%q|%d", s.id(), name, s.g.ep[s.id()]), strs: st}
}
func (s c10Scope) sub(name string) c10Scope {
	return c10Scope{s.z.fqn(s.prefix, s.z.sn(name)), s.tags, s.z, s.g}
}
func (s c10Scope) tagged(t map[string]string) c10Scope {
	return c10Scope{s.prefix, mergeTags(s.tags, s.z.stags(t)), s.z, s.g}
}
func (s c10Scope) callMetrics(name string) c10Call {
	e := s.tagged(map[string]string{"result_type": "error"})
	k := s.tagged(map[string]string{"result_type": "success"})
	return c10Call{e.metric(name), k.metric(name), s.sub(name).metric("latency")}
}

// refuses: would the cached reporter refuse (panic in) the AllocateTimer call
// that Timer(name) on scope s makes now? Only a timer that does not exist yet is
// allocated; names containing "boom" are always refused, names containing
// "once" the first time the reporter is asked for them.
func (b *c10Book) refuses(s c10Scope, name string) bool {
	m := s.metric(name)
	if !b.cached || b.made[m.obj] {
		return false
	}
	fq := m.strs[0]
	return strings.Contains(fq, "boom") || (strings.Contains(fq, "once") && !b.onceSeen[fq])
}

// collides reports whether creating metric m of the kind would give two
// distinct objects the same reported identity (same name and tags): a test
// scope's Snapshot() is a map keyed by that identity (property C11's
// territory), so such histories are kept out of the test flavour.
func (b *c10Book) collides(kind int, m c10Metric) bool {
	o, ok := b.seen[kind][strings.Join(m.strs, "\x00")]
	return ok && o != m.obj
}
func (b *c10Book) note(kind int, m c10Metric) {
	if b.seen[kind] == nil {
		b.seen[kind] = map[string]string{}
	}
	k := strings.Join(m.strs, "\x00")
	if _, ok := b.seen[kind][k]; !ok {
		b.seen[kind][k] = m.obj
	}
}

func newBook(c *c10Case) *c10Book {
	z := c.San.fns()
	g := &c10Reg{ep: map[string]int{}, dropped: map[string]bool{}, test: c.Flavour == 2}
	root := c10Scope{z.sn(string(c.Prefix)), z.stags(tagsOf(c.Tags)), z, g}
	g.root = root.id()
	g.note(g.root)
	return &c10Book{scopes: []c10Scope{root}, cached: c.Flavour == 1 || c.Flavour == 3, made: map[string]bool{}, onceSeen: map[string]bool{}}
}

// apply updates the book for one op; clockAt is the number of clock readings
// taken before the op. Returns the number of readings the op takes.
func (b *c10Book) apply(o c10Op, clock func(int) int64, clockAt int) int {
	switch o.Op {
	case "sub":
		s := b.scopes[o.H]
		b.scopes = append(b.scopes, s.sub(string(o.Name)))
		s.g.note(b.scopes[len(b.scopes)-1].id())
	case "tag":
		s := b.scopes[o.H]
		b.scopes = append(b.scopes, s.tagged(tagsOf(o.Tags)))
		s.g.note(b.scopes[len(b.scopes)-1].id())
	case "timer":
		m := b.scopes[o.H].metric(string(o.Name))
		b.note(0, m)
		if !b.made[m.obj] {
			b.onceSeen[m.strs[0]] = true
		}
		b.made[m.obj] = true
		b.timers = append(b.timers, m)
	case "timerx":
		b.onceSeen[b.scopes[o.H].metric(string(o.Name)).strs[0]] = true
	case "hist":
		m := b.scopes[o.H].metric(string(o.Name))
		b.note(2, m)
		b.hists = append(b.hists, m)
	case "start":
		b.sws = append(b.sws, c10Sw{timer: o.H, hist: -1, start: clock(clockAt)})
		return 1
	case "hstart":
		b.sws = append(b.sws, c10Sw{timer: -1, hist: o.H, start: clock(clockAt)})
		return 1
	case "stop":
		return 1
	case "pass":
		b.scopes[0].g.pass()
	case "close":
		b.scopes[0].g.close(b.scopes[o.H].id())
	case "call":
		sc := b.scopes[o.H]
		sc.g.note(sc.tagged(map[string]string{"result_type": "error"}).id())
		sc.g.note(sc.tagged(map[string]string{"result_type": "success"}).id())
		sc.g.note(sc.sub(string(o.Name)).id())
		cm := b.scopes[o.H].callMetrics(string(o.Name))
		b.note(1, cm.errC)
		b.note(1, cm.okC)
		b.note(0, cm.lat)
		b.made[cm.lat.obj] = true
		b.calls = append(b.calls, cm)
	case "exec":
		return 2
	case "begin":
		b.execs = append(b.execs, c10ExecB{o.H, clock(clockAt)})
		return 1
	case "end":
		return 1
	}
	return 0
}

// The error values an instrumented function may return ("returns its error
// unchanged": the very same value, whatever it is). Kind 0/1 = errors.New.
type c10PtrErr struct{ msg string }

func (e *c10PtrErr) Error() string { return "c10PtrErr" }

type c10ValErr struct{ code int }

func (e c10ValErr) Error() string        { return fmt.Sprintf("c10ValErr %d", e.code) }
func (e c10ValErr) Is(target error) bool { return target == context.Canceled || target == io.EOF }

const c10ErrKinds = 13

func c10ErrValue(kind int) error {
	switch kind {
	case 2:
		return context.Canceled
	case 3:
		ctx, cancel := context.WithCancel(context.Background())
		cancel()
		return ctx.Err()
	case 4:
		return fmt.Errorf("fetch user: %w", context.Canceled)
	case 5:
		return context.DeadlineExceeded
	case 6:
		return &c10PtrErr{"custom"}
	case 7:
		return fmt.Errorf("outer: %w", &c10PtrErr{"inner"})
	case 8:
		var p *c10PtrErr // a nil pointer in a non-nil error value
		return p
	case 9:
		return io.EOF
	case 10:
		return errors.Join(context.Canceled, io.EOF)
	case 11:
		return c10ValErr{7} // a value type whose Is method claims to be context.Canceled
	case 12:
		ctx, cancel := context.WithTimeout(context.Background(), -time.Second)
		defer cancel()
		return fmt.Errorf("query: %w", ctx.Err())
	}
	return errors.New("f failed")
}

// c10Running: an execution that is inside its function. The function blocks
// until the harness lets it return (a second invocation of the function by the
// same Exec would return the same outcome at once).
type c10Running struct {
	finish chan error
	done   chan error
	runs   int
	out    error
	ended  bool
}

// c10Clock turns the i-th value of the clock script into the instant globalNow() returns.
type c10Clock struct {
	base int
	at   time.Time
}

type c10TimeLayout struct { // time.Time: wall, ext, loc (unchanged since Go 1.9)
	wall uint64
	ext  int64
	loc  *time.Location
}

// c10Forge: at with its monotonic reading advanced by off and its wall clock part stepped by whole seconds.
func c10Forge(at time.Time, off int64, stepSecs int64) time.Time {
	out := at
	p := (*c10TimeLayout)(unsafe.Pointer(&out))
	p.ext += off
	p.wall += uint64(stepSecs << 30) // seconds since 1885 live in bits 30..62 of wall
	return out
}

func c10NewClock(base int) *c10Clock {
	k := &c10Clock{base: base}
	switch base {
	case 1:
		k.at = time.Time{}
	case 2:
		k.at = time.Date(2400, 2, 29, 12, 0, 0, 5, time.UTC)
	case 3:
		k.at = time.Date(1600, 6, 1, 0, 0, 0, 0, time.UTC)
	case 4:
		k.at = time.Now()
		// does the forgery take on this platform? (monotonic reading present, layout as expected)
		ok := unsafe.Sizeof(k.at) == unsafe.Sizeof(c10TimeLayout{}) && (*c10TimeLayout)(unsafe.Pointer(&k.at)).wall>>63 == 1
		if ok {
			f := c10Forge(k.at, 12345, -3600)
			ok = f.Sub(k.at) == 12345 && f.Unix()-k.at.Unix() <= -3599 && f.Unix()-k.at.Unix() >= -3601
		}
		if !ok {
			k.base = 0
		}
	}
	return k
}

func (k *c10Clock) instant(i int, off int64) time.Time {
	switch k.base {
	case 0:
		return time.Unix(0, off)
	case 4:
		return c10Forge(k.at, off, int64((i*7919+13)%7201)-3600)
	}
	return k.at.Add(time.Duration(off))
}

// c10PickBase chooses what the script's values are offsets from; the forged time.Now() base needs
// offsets the monotonic reading can absorb.
func c10PickBase(r *Rng, script []int64) int {
	b := []int{0, 0, 1, 2, 3, 4, 4}[r.Intn(7)]
	if b == 4 {
		for _, v := range script {
			if v > 1<<61 || v < -(1<<61) {
				return 1 + r.Intn(3)
			}
		}
	}
	return b
}

func c10ClockAt(script []int64) func(int) int64 {
	return func(i int) int64 {
		if i < len(script) {
			return script[i]
		}
		return 0
	}
}

func c10Gen(r *Rng, i int) c10Case {
	c := c10Case{Flavour: []int{0, 1, 2, 0, 1, 2, 3}[i%7]}
	test := c.Flavour == 2
	names := c10Names
	if test {
		names = c10NamesNoDot
	} else if r.Chance(35) {
		// a sanitizing root scope: "carrying ... the scope's name and tags" - the
		// name a delivery carries is the sanitized fully qualified name
		c.San = c10GenSan(r)
		names = c10NamesSan
	}
	z := c.San.fns()
	c.Prefix = B(r.Pick([]string{"", "", "p", "svc.x", "é"}))
	if c.San != nil && r.Bool() {
		c.Prefix = B(r.Pick([]string{"svc", "my svc", "a:b"}))
	}
	c.Tags = c10TagsZ(r, 2, z)
	// the clock script
	nclk := 24
	switch x := r.Intn(10); {
	case x < 5: // monotone, modest steps
		t := int64(r.Intn(2000000000)) * int64(r.Intn(2000000000))
		for j := 0; j < nclk; j++ {
			c.Clock = append(c.Clock, t)
			t += int64(r.Intn(3)) * int64(r.Intn(1000000007))
		}
	case x < 8: // anything, extremes included (saturating differences)
		for j := 0; j < nclk; j++ {
			c.Clock = append(c.Clock, r.I64())
		}
	case x < 9:
		t := r.I64()
		for j := 0; j < nclk; j++ {
			c.Clock = append(c.Clock, t)
		}
	default: // short script: readings past its end are 0
		for j := 0; j < 3; j++ {
			c.Clock = append(c.Clock, int64(r.Intn(1000)))
		}
	}
	c.Base = c10PickBase(r, c.Clock)
	clock := c10ClockAt(c.Clock)
	bk := newBook(&c)
	nops := r.Range(2, 16)
	if test {
		nops = r.Range(2, 10)
	}
	at := 0
	for j := 0; j < nops; j++ {
		var o c10Op
		switch x := r.Intn(100); {
		case x < 8:
			o = c10Op{Op: "sub", H: r.Intn(len(bk.scopes)), Name: B(r.Pick(names))}
		case x < 16:
			o = c10Op{Op: "tag", H: r.Intn(len(bk.scopes)), Tags: c10TagsZ(r, 2, z)}
		case x < 30 || len(bk.timers) == 0:
			o = c10Op{Op: "timer", H: r.Intn(len(bk.scopes)), Name: B(r.Pick(names))}
			if test && bk.collides(0, bk.scopes[o.H].metric(string(o.Name))) {
				o = c10Op{Op: "pass"}
			}
		case x < 52:
			o = c10Op{Op: "rec", H: r.Intn(len(bk.timers)), D: r.I64()}
		case x < 62:
			o = c10Op{Op: "pass"}
		case x < 70:
			o = c10Op{Op: "start", H: r.Intn(len(bk.timers))}
		case x < 76:
			o = c10Op{Op: "hist", H: r.Intn(len(bk.scopes)), Name: B(r.Pick(names))}
			nb := r.Intn(4)
			seen := map[int64]bool{}
			for k := 0; k < nb; k++ {
				v := c10Bounds[r.Intn(len(c10Bounds))]
				if r.Chance(20) {
					v = int64(r.Intn(2000000000))
				}
				if test && seen[v] {
					continue // duplicate bounds collapse in a test scope's snapshot map (C11)
				}
				seen[v] = true
				o.Spec = append(o.Spec, v)
			}
			if test && bk.collides(2, bk.scopes[o.H].metric(string(o.Name))) {
				o = c10Op{Op: "pass"}
			}
		case x < 81 && len(bk.hists) > 0:
			o = c10Op{Op: "hstart", H: r.Intn(len(bk.hists))}
		case x < 90 && len(bk.sws) > 0:
			o = c10Op{Op: "stop", H: r.Intn(len(bk.sws))}
		case x < 94:
			o = c10Op{Op: "call", H: r.Intn(len(bk.scopes)), Name: B(r.Pick(names))}
			cm := bk.scopes[o.H].callMetrics(string(o.Name))
			if test && (bk.collides(1, cm.errC) || bk.collides(1, cm.okC) || bk.collides(0, cm.lat)) {
				o = c10Op{Op: "pass"}
			}
		case len(bk.calls) > 0:
			o = c10Op{Op: "exec", H: r.Intn(len(bk.calls)), Err: r.Bool()}
		default:
			o = c10Op{Op: "rec", H: r.Intn(len(bk.timers)), D: r.I64()}
		}
		at += bk.apply(o, clock, at)
		c.Ops = append(c.Ops, o)
	}
	c.Ops = append(c.Ops, c10Op{Op: "pass"}) // flush the counters of instrumented calls
	return c
}

func sat64sub(a, b int64) int64 {
	d := a - b
	if (a >= b) != (d >= 0) { // overflow
		if a >= b {
			return math.MaxInt64
		}
		return math.MinInt64
	}
	return d
}

func sameStrs(a, b []string) bool {
	if len(a) != len(b) {
		return false
	}
	for i := range a {
		if a[i] != b[i] {
			return false
		}
	}
	return true
}

// c10SnapshotMisfiled: a timer that Snapshot().Timers() files under another id
// than the documented one (its name, "+", its tags) cannot be looked up: its
// values are not "visible through Snapshot().Timers()". "" = all in place.
var c10SnapshotMisfiled string

func c10Snapshot(ts tally.TestScope) (all []Ev) {
	snap := ts.Snapshot()
	c10SnapshotMisfiled = ""
	for id, t := range snap.Timers() {
		if want := tally.KeyForPrefixedStringMap(t.Name(), t.Tags()); id != want && c10SnapshotMisfiled == "" {
			c10SnapshotMisfiled = fmt.Sprintf("Snapshot().Timers() files the timer %q under the id %q, not under %q: looked up by its name and tags it is missing", nameTags(t.Name(), t.Tags()), id, want)
		}
		e := Ev{K: 31, S: nameTags(t.Name(), t.Tags())}
		for _, v := range t.Values() {
			e.I = append(e.I, int64(v))
		}
		all = append(all, e)
	}
	for _, c := range snap.Counters() {
		all = append(all, Ev{K: 30, I: []int64{c.Value()}, S: nameTags(c.Name(), c.Tags())})
	}
	for _, h := range snap.Histograms() {
		e := Ev{K: 32, S: nameTags(h.Name(), h.Tags())}
		d := h.Durations()
		ubs := make([]int64, 0, len(d))
		for ub := range d {
			ubs = append(ubs, int64(ub))
		}
		sort.Slice(ubs, func(i, j int) bool { return ubs[i] < ubs[j] })
		for _, ub := range ubs {
			e.I = append(e.I, ub, d[time.Duration(ub)])
		}
		all = append(all, e)
	}
	sort.Slice(all, func(i, j int) bool { return all[i].Term() < all[j].Term() })
	return
}

// c10Run drives the real code. Returns the input events, the observed events
// and the first failure of the direct predicate ("" = none).
func c10Run(c *c10Case) (in []Ev, obs []Ev, fail string) {
	allocFail := ""
	defer func() {
		if fail == "" {
			fail = allocFail
		}
	}()
	log := &Log{}
	var root tally.Scope
	var ts tally.TestScope
	switch c.Flavour {
	case 0:
		root, _ = tally.NewRootScope(tally.ScopeOptions{Prefix: string(c.Prefix), Tags: tagsOf(c.Tags),
			Reporter: &RecReporter{L: log, Caps: caps{true, true}}, OmitCardinalityMetrics: true, SanitizeOptions: c.San.opts()}, 0)
	case 1:
		root, _ = tally.NewRootScope(tally.ScopeOptions{Prefix: string(c.Prefix), Tags: tagsOf(c.Tags),
			CachedReporter: &c09PanicAlloc{RecCached: &RecCached{L: log, Caps: caps{true, true}}}, OmitCardinalityMetrics: true, SanitizeOptions: c.San.opts()}, 0)
	case 3:
		root, _ = tally.NewRootScope(tally.ScopeOptions{Prefix: string(c.Prefix), Tags: tagsOf(c.Tags),
			Reporter: &RecReporter{L: log, Caps: caps{true, true}}, CachedReporter: &c09PanicAlloc{RecCached: &RecCached{L: log, Caps: caps{true, true}}},
			OmitCardinalityMetrics: true, SanitizeOptions: c.San.opts()}, 0)
	default:
		ts = tally.NewTestScope(string(c.Prefix), tagsOf(c.Tags))
		root = ts
	}
	reads := 0
	clock := c10ClockAt(c.Clock)
	clk := c10NewClock(c.Base)
	restore := tally.VerifSetNow(func() time.Time {
		t := clk.instant(reads, clock(reads))
		reads++
		return t
	})
	defer restore()

	in = append(in, Ev{K: 40, I: c.San.ints(), S: nameTags(string(c.Prefix), tagsOf(c.Tags))})
	bk := newBook(c)
	scopes := []tally.Scope{root}
	var timers []tally.Timer
	var hists []tally.Histogram
	var sws []tally.Stopwatch
	var calls []instrument.Call
	cachedID := map[string]int64{} // timer object -> handle id given by the cached reporter
	want := map[string]int64{}     // counter identity -> expected total (instrumented calls)
	got := map[string]int64{}      // counter identity -> delivered total
	cnames := map[int64]string{}   // cached counter handle -> identity
	tvals := map[string][]int64{}  // test scope: timer identity -> values seen in the last snapshot
	failf := func(j int, f string, a ...interface{}) {
		if fail == "" {
			fail = fmt.Sprintf("op %d (%s): ", j, c.Ops[j].Op) + fmt.Sprintf(f, a...)
		}
	}
	hpend := map[string][]int64{} // histogram identity -> elapsed times stopped into it, not yet seen delivered
	hall := map[string][]int64{}  // histogram identity -> every elapsed time stopped into it (test scope)
	hcached := map[int64]string{} // cached histogram handle -> identity
	type bkt struct {
		h      string
		lo, hi int64
	}
	hbuckets := map[int64]bkt{} // cached bucket handle -> (histogram identity, range)
	// take: n samples reported for the range (lo, hi] of histogram h must be n
	// of the elapsed times stopped into it (the first bucket includes its lower end)
	take := func(j int, h string, lo, hi, n int64) {
		var rest []int64
		for _, d := range hpend[h] {
			if n > 0 && (d > lo || lo == math.MinInt64) && d <= hi {
				n--
			} else {
				rest = append(rest, d)
			}
		}
		hpend[h] = rest
		if n != 0 {
			failf(j, "histogram %q: %d more sample(s) reported in (%d, %d] than stopwatches stopped with an elapsed time in that range", h, n, lo, hi)
		}
	}
	var running []*c10Running
	defer func() { // never leave a goroutine inside an instrumented function
		for _, x := range running {
			if !x.ended {
				x.finish <- nil
				<-x.done
			}
		}
	}()
	prev := 0
	for j, o := range c.Ops {
		if o.Op == "end" && (o.H < 0 || o.H >= len(running) || running[o.H].ended) {
			continue // an execution ends once
		}
		at := reads
		var expT *c10Metric // the timer that must receive exactly one value during this op
		var expD int64
		var execEv *Ev
		switch o.Op {
		case "sub":
			scopes = append(scopes, scopes[o.H].SubScope(string(o.Name)))
			in = append(in, Ev{K: 41, I: []int64{int64(o.H)}, S: []string{string(o.Name)}})
		case "tag":
			scopes = append(scopes, scopes[o.H].Tagged(tagsOf(o.Tags)))
			in = append(in, Ev{K: 42, I: []int64{int64(o.H)}, S: nameTags("", tagsOf(o.Tags))[1:]})
		case "timer", "timerx":
			var h tally.Timer
			panicked := func() (p bool) {
				defer func() {
					if recover() != nil {
						p = true
					}
				}()
				h = scopes[o.H].Timer(string(o.Name))
				return
			}()
			if o.Op == "timer" {
				if panicked {
					failf(j, "Timer(%q) panicked although the reporter refuses nothing here", string(o.Name))
					return
				}
				timers = append(timers, h)
				in = append(in, Ev{K: 43, I: []int64{int64(o.H)}, S: []string{string(o.Name)}})
			} else {
				if !panicked {
					return // the refusal did not reach the caller: nothing more to say about this history
				}
				in = append(in, Ev{K: 55, I: []int64{int64(o.H)}, S: []string{string(o.Name)}})
			}
		case "rec":
			timers[o.H].Record(time.Duration(o.D))
			in = append(in, Ev{K: 44, I: []int64{int64(o.H), o.D}})
			expT, expD = &bk.timers[o.H], o.D
		case "pass":
			tally.VerifReportOnce(root)
			in = append(in, Ev{K: 45})
		case "close":
			if cl, ok := scopes[o.H].(io.Closer); ok {
				cl.Close()
			}
			in = append(in, Ev{K: 52, I: []int64{int64(o.H)}})
		case "start":
			sws = append(sws, timers[o.H].Start())
			in = append(in, Ev{K: 46, I: []int64{int64(o.H)}})
		case "hist":
			hists = append(hists, scopes[o.H].Histogram(string(o.Name), tally.DurationBuckets(durs(o.Spec))))
			in = append(in, Ev{K: 47, I: append([]int64{int64(o.H)}, o.Spec...), S: []string{string(o.Name)}})
		case "hstart":
			sws = append(sws, hists[o.H].Start())
			in = append(in, Ev{K: 48, I: []int64{int64(o.H)}})
		case "stop":
			sws[o.H].Stop()
			in = append(in, Ev{K: 49, I: []int64{int64(o.H)}})
			if w := bk.sws[o.H]; w.timer >= 0 {
				expT, expD = &bk.timers[w.timer], sat64sub(clock(at), w.start)
			} else {
				k := strings.Join(bk.hists[w.hist].strs, "\x00")
				hpend[k] = append(hpend[k], sat64sub(clock(at), w.start))
				hall[k] = append(hall[k], sat64sub(clock(at), w.start))
			}
		case "call":
			calls = append(calls, instrument.NewCall(scopes[o.H], string(o.Name)))
			in = append(in, Ev{K: 50, I: []int64{int64(o.H)}, S: []string{string(o.Name)}})
		case "exec", "end":
			var ferr error
			if o.Err {
				ferr = c10ErrValue(o.Kind)
			}
			var ret error
			runs, callH := 0, o.H
			if o.Op == "exec" {
				ret = calls[o.H].Exec(func() error {
					runs++
					return ferr
				})
				in = append(in, Ev{K: 51, I: []int64{int64(o.H), b2i(o.Err)}})
				expD = sat64sub(clock(at+1), clock(at))
			} else {
				x := running[o.H]
				x.ended = true
				x.finish <- ferr
				ret = <-x.done
				runs, callH = x.runs, bk.execs[o.H].call
				in = append(in, Ev{K: 54, I: []int64{int64(o.H), b2i(o.Err)}})
				expD = sat64sub(clock(at), bk.execs[o.H].start) // since this execution's own start
			}
			code := int64(2)
			if ret == nil {
				code = 0
			} else if o.Err && ret == ferr {
				code = 1
			}
			execEv = &Ev{K: 92, I: []int64{int64(runs), code}}
			cm := bk.calls[callH]
			expT = &cm.lat
			if runs != 1 {
				failf(j, "the instrumented function ran %d times", runs)
			}
			if code != b2i(o.Err) {
				failf(j, "the function returned %s, Exec returned %s: not the function's error unchanged", c10ErrStr(ferr), c10ErrStr(ret))
			}
			if o.Err {
				want[strings.Join(cm.errC.strs, "\x00")]++
			} else {
				want[strings.Join(cm.okC.strs, "\x00")]++
			}
		case "begin":
			x := &c10Running{finish: make(chan error), done: make(chan error, 1)}
			started := make(chan struct{})
			go func(call instrument.Call) {
				x.done <- call.Exec(func() error {
					x.runs++
					if x.runs == 1 {
						started <- struct{}{}
						x.out = <-x.finish
					}
					return x.out
				})
			}(calls[o.H])
			<-started // Exec has read the clock and is inside the function
			running = append(running, x)
			in = append(in, Ev{K: 53, I: []int64{int64(o.H)}})
		}
		bk.apply(o, clock, at)

		// ---- what happened during this call
		var delta []Ev
		if ts == nil {
			all := log.Snapshot()
			delta = all[prev:]
			prev = len(all)
			nT, nA := 0, 0
			for _, e := range delta {
				switch e.K {
				case 13:
					nA++
					if m := c10Allocates(bk, o); m == nil || !sameStrs(m.strs, e.S) || len(e.I) != 1 {
						want := "no timer"
						if m != nil {
							want = fmt.Sprintf("the timer %q (sanitized fully qualified name, then the scope's tags)", m.strs)
						}
						failf(j, "AllocateTimer %v during a call that obtains %s", e, want)
					} else if _, dup := cachedID[m.obj]; dup {
						failf(j, "AllocateTimer %v: the timer object already has a handle", e)
					} else {
						cachedID[m.obj] = e.I[0]
					}
				case 14:
					hcached[e.I[0]] = strings.Join(e.S, "\x00")
				case 25:
					hbuckets[e.I[3]] = bkt{hcached[e.I[0]], e.I[1], e.I[2]}
				case 5:
					take(j, strings.Join(e.S, "\x00"), e.I[0], e.I[1], e.I[2])
				case 26:
					b := hbuckets[e.I[0]]
					take(j, b.h, b.lo, b.hi, e.I[1])
				case 11:
					cnames[e.I[0]] = strings.Join(e.S, "\x00")
				case 1:
					got[strings.Join(e.S, "\x00")] += e.I[0]
				case 21:
					got[cnames[e.I[0]]] += e.I[1]
				case 3:
					nT++
					if expT == nil {
						failf(j, "timer delivery %v during a call that records nothing", e)
					} else if e.I[0] != expD || !sameStrs(e.S, expT.strs) {
						failf(j, "timer delivery %v, expected value %d for %q%s", e, expD, expT.strs, c10Why(o))
					}
				case 23:
					nT++
					if expT == nil {
						failf(j, "timer delivery %v during a call that records nothing", e)
					} else if id, ok := cachedID[expT.obj]; !ok || e.I[0] != id || e.I[1] != expD {
						failf(j, "cached timer delivery %v, expected value %d on handle %d (known %v) of %q%s", e, expD, id, ok, expT.strs, c10Why(o))
					}
				}
			}
			if m := c10Allocates(bk, o); (c.Flavour == 1 || c.Flavour == 3) && m != nil && nA == 0 {
				if _, ok := cachedID[m.obj]; !ok {
					// kept aside: if a Record on this timer is then not delivered, that is the failure to report
					if allocFail == "" {
						allocFail = fmt.Sprintf("op %d (%s): no AllocateTimer for the new timer %q", j, c.Ops[j].Op, m.strs)
					}
				}
			}
			if expT != nil && nT != 1 {
				failf(j, "%d timer deliveries before the call returned, expected exactly 1 (value %d for %q)", nT, expD, expT.strs)
			}
		} else {
			delta = c10Snapshot(ts)
			if c10SnapshotMisfiled != "" {
				failf(j, "%s", c10SnapshotMisfiled)
			}
			now := map[string][]int64{}
			for _, e := range delta {
				if e.K == 31 {
					now[strings.Join(e.S, "\x00")] = e.I
				}
			}
			for k, old := range tvals {
				nv := now[k]
				grow := 0
				if expT != nil && k == strings.Join(expT.strs, "\x00") {
					grow = 1
				}
				if len(nv) != len(old)+grow || !sameI64(nv[:len(old)], old) || (grow == 1 && nv[len(old)] != expD) { // (&& / || short-circuit: lengths first)
					failf(j, "timer %q: Snapshot() values went from %s to %s (expected the old values and %d new value(s), %d)%s", k, brief(old), brief(nv), grow, expD, c10Why(o))
				}
			}
			if expT != nil {
				k := strings.Join(expT.strs, "\x00")
				if _, known := tvals[k]; !known {
					if nv := now[k]; len(nv) != 1 || nv[0] != expD {
						failf(j, "timer %q values %s, expected [%d]", k, brief(nv), expD)
					}
				}
			}
			tvals = now
			for _, e := range delta {
				if e.K == 30 {
					got[strings.Join(e.S, "\x00")] = e.I[0]
				}
				if e.K == 32 { // (upper bound, samples) pairs, upper bounds increasing
					h := strings.Join(e.S, "\x00")
					wantN := make([]int64, len(e.I)/2)
					for _, d := range hall[h] {
						for b := 0; b < len(wantN); b++ {
							if d <= e.I[2*b] {
								wantN[b]++
								break
							}
						}
					}
					for b := range wantN {
						if e.I[2*b+1] != wantN[b] {
							failf(j, "histogram %q: %d samples under upper bound %d, elapsed times stopped into it: %v", h, e.I[2*b+1], e.I[2*b], hall[h])
						}
					}
				}
			}
		}
		if ts == nil || c.Every <= 0 || j%c.Every == c.Every-1 || j < 2 || j == len(c.Ops)-1 {
			obs = append(obs, delta...)
			if execEv != nil {
				obs = append(obs, *execEv)
			}
			obs = append(obs, Ev{K: 90, I: []int64{int64(reads)}})
		} else {
			obs = append(obs, Ev{K: 91}) // looked at by the direct predicate only
		}
	}
	// every history ends with a report pass: nothing stopped into a histogram is left undelivered
	if ts == nil {
		for h, p := range hpend {
			if len(p) != 0 {
				failf(len(c.Ops)-1, "histogram %q: elapsed times %v of stopped stopwatches were never delivered", h, p)
			}
		}
	}
	// ... and the success / error counters are out
	for k, w := range want {
		if got[k] != w {
			failf(len(c.Ops)-1, "counter %q: %d delivered in total, %d instrumented calls had that outcome", k, got[k], w)
		}
	}
	for k, g := range got {
		if _, ok := want[k]; !ok && g != 0 {
			failf(len(c.Ops)-1, "counter %q delivered %d although no instrumented call had that outcome", k, g)
		}
	}
	return
}

// c10Why: where the expected value of an elapsed-time delivery comes from.
func c10Why(o c10Op) string {
	switch o.Op {
	case "stop":
		return " = clock at Stop - clock at this stopwatch's Start"
	case "exec":
		return " = clock after the function - clock before it"
	case "end":
		return " = clock when this execution's function returned - clock when this execution began (other executions of the Call began since)"
	}
	return ""
}

func c10ErrStr(e error) string {
	if e == nil {
		return "nil"
	}
	s := "?"
	func() {
		defer func() { recover() }()
		s = e.Error()
	}()
	return fmt.Sprintf("%T(%q)", e, s)
}

// c10Allocates: the timer the op just applied to the book obtains from its
// scope (nil if none).
func c10Allocates(b *c10Book, o c10Op) *c10Metric {
	switch o.Op {
	case "timer":
		return &b.timers[len(b.timers)-1]
	case "call":
		return &b.calls[len(b.calls)-1].lat
	}
	return nil
}
func sameI64(a, b []int64) bool {
	if len(a) != len(b) {
		return false
	}
	for i := range a {
		if a[i] != b[i] {
			return false
		}
	}
	return true
}
func durs(v []int64) []time.Duration {
	d := make([]time.Duration, len(v))
	for i, x := range v {
		d[i] = time.Duration(x)
	}
	return d
}

// c10Wall: sanity stream with the real clock (never sent to the model): the
// value a stopwatch records lies between 0 and the time between two
// readings of the monotonic clock taken around Start and Stop.
func c10Wall(c *c10Case) string {
	log := &Log{}
	root, _ := tally.NewRootScope(tally.ScopeOptions{Reporter: &RecReporter{L: log, Caps: caps{true, true}}, OmitCardinalityMetrics: true}, 0)
	t := root.Timer("wall")
	h := root.Histogram("wallh", tally.DurationBuckets{0, time.Millisecond, time.Second})
	t0 := time.Now()
	sw, hw := t.Start(), h.Start()
	x := 0
	for i := 0; i < c.Wall*1000; i++ {
		x += i
	}
	_ = x
	sw.Stop()
	hw.Stop()
	t1 := time.Now()
	tally.VerifReportOnce(root)
	var ds []int64
	samples := int64(0)
	for _, e := range log.Snapshot() {
		if e.K == 3 {
			ds = append(ds, e.I[0])
		}
		if e.K == 5 {
			samples += e.I[2]
			if e.I[0] >= int64(t1.Sub(t0)) || e.I[1] < 0 {
				return fmt.Sprintf("histogram stopwatch sample in bucket (%d, %d], outside [0, %d]", e.I[0], e.I[1], int64(t1.Sub(t0)))
			}
		}
	}
	if len(ds) != 1 || ds[0] < 0 || ds[0] > int64(t1.Sub(t0)) {
		return fmt.Sprintf("stopwatch recorded %v, expected one value in [0, %d]", ds, int64(t1.Sub(t0)))
	}
	if samples != 1 {
		return fmt.Sprintf("histogram stopwatch recorded %d samples, expected 1", samples)
	}
	return ""
}

func c10Term(idx int, c *c10Case, in, obs []Ev) string {
	par := append([]int64{int64(c.Flavour)}, c.Clock...)
	return gcase(idx, par, in, obs)
}

func init() {
	props["C10"] = func(ctx *Ctx) {
		ctx.Header("TimerCorr")
		ctx.Res.Rule = "case = (flavour of root scope, root prefix/tags, clock script, history of SubScope/Tagged/Timer/Record/report pass/Start/Stop/Histogram/NewCall/Exec calls); generated from the seed; clock script offsets taken from five bases (epoch, year 1, 2400, 1600, a monotonic time.Now() with a stepped wall clock), plus names that equal other metrics' fully qualified names on prefixed and nested scopes, timers whose allocation the cached reporter refuses, instrumented calls with every kind of error value and overlapping executions of one Call, histories that close scopes, unscheduled concurrent Records on one timer, long histories (hundreds of Records on one or two timers) and concurrent cases (threads obtaining the same new timer and recording on their handles, with the schedule); non-trivial = at least one value reaches a timer (Record, Stop or Exec); distinct by hash of the case"
		fl := []string{"plain", "cached", "test", "both"}
		one := func(c *c10Case) {
			if c.Wall > 0 {
				fail := c10Wall(c)
				ctx.Case(c, "", "wall-clock", "")
				if fail != "" {
					ctx.Fail("stopwatch_within_monotonic_bracket", fail, c, nil)
				}
				return
			}
			if c.Flavour < 0 || c.Flavour > 3 {
				return
			}
			if len(c.Storm) == 2 {
				fail := c10Storm(c)
				ctx.Case(c, "", fmt.Sprintf("%s/storm", fl[c.Flavour]), hashOf(c))
				if fail != "" {
					ctx.Fail("every_concurrent_record_on_one_timer_delivered_exactly_once", fail, c, nil)
				}
				return
			}
			if len(c.Threads) > 0 {
				lin, in, obs, fail := c10Conc(c)
				idx := ctx.Res.Evaluations
				ctx.Case(c, c10Term(idx, c, in, obs), fmt.Sprintf("%s/concurrent/threads=%d", fl[c.Flavour], len(c.Threads)), hashOf(c))
				if fail != "" {
					ctx.Fail("every_record_on_every_handle_delivered_once_before_it_returns", fail, c, map[string]interface{}{"calls_in_completion_order": lin, "observed": tailEv(obs, 40)})
				}
				return
			}
			in, obs, fail := c10Run(c)
			nrec, npass := 0, 0
			for _, o := range c.Ops {
				switch o.Op {
				case "rec", "stop", "exec", "end":
					nrec++
				case "pass":
					npass++
				}
			}
			cls := fmt.Sprintf("%s/values=%s/passes=%s", fl[c.Flavour], bucket3(nrec), bucket3(npass))
			if nrec > 100 {
				cls = fmt.Sprintf("%s/long/values=100+", fl[c.Flavour])
			}
			key := ""
			if nrec > 0 {
				key = hashOf(c)
			}
			idx := ctx.Res.Evaluations
			ctx.Case(c, c10Term(idx, c, in, obs), cls, key)
			if fail != "" {
				ctx.Fail("each_record_delivered_once_synchronously_stopwatch_elapsed_exec_once", fail, c, tailEv(obs, 60))
			}
		}
		if ctx.Replay != nil {
			var c c10Case
			if err := json.Unmarshal(ctx.Replay, &c); err != nil {
				fatal(err)
			}
			one(&c)
			return
		}
		for _, raw := range ctx.CorpusCases() {
			var c c10Case
			if json.Unmarshal(raw, &c) == nil && (len(c.Ops) > 0 || len(c.Threads) > 0 || len(c.Storm) == 2) {
				one(&c)
			}
		}
		for _, c := range c10Fixed() {
			c := c
			one(&c)
		}
		for _, c := range c10FixedExec() {
			c := c
			one(&c)
		}
		for _, c := range c10FixedClock() {
			c := c
			one(&c)
		}
		for _, c := range c10FixedClash() {
			c := c
			one(&c)
		}
		for _, c := range c10FixedClose() {
			c := c
			one(&c)
		}
		for _, c := range c10FixedLong() {
			c := c
			one(&c)
		}
		for _, c := range c10FixedConc() {
			c := c
			one(&c)
		}
		n := ctx.N(900, 12000)
		for i := 0; i < n; i++ {
			c := c10Gen(ctx.R, i)
			one(&c)
		}
		// instrumented calls: "all error/nil outcomes of instrumented functions", executions of one Call
		// overlapping ("records one latency": the time that execution took)
		for i := 0; i < ctx.N(150, 2500); i++ {
			c := c10GenExec(ctx.R, i)
			one(&c)
		}
		// a cached reporter that refuses allocations (AllocateTimer panics, the caller recovers): "Each
		// Timer.Record(d) results in exactly one timer delivery" on whatever handle a later Timer(name) returns
		for i := 0; i < ctx.N(100, 1500); i++ {
			c := c10GenRefuse(ctx.R, i)
			one(&c)
		}
		// names that look like other timers' fully qualified names: "carrying ... the scope's name": a
		// timer is identified by its scope and its name in that scope, whatever the name looks like
		for i := 0; i < ctx.N(120, 2000); i++ {
			c := c10GenClash(ctx.R, i)
			one(&c)
		}
		// scopes that get closed: "Each Timer.Record(d) results in exactly one timer delivery" also on
		// timers of closed scopes, obtained before or after the Close and before or after the pass that drops the scope
		for i := 0; i < ctx.N(120, 2000); i++ {
			c := c10GenClose(ctx.R, i)
			one(&c)
		}
		// Records racing each other on one existing timer: "exactly one timer delivery" per Record
		for i := 0; i < ctx.N(8, 60); i++ {
			c := c10Case{Flavour: []int{2, 2, 0, 2, 1, 2, 3, 2}[i%8], Prefix: B(ctx.R.Pick([]string{"", "svc"})),
				Storm: []int{ctx.R.Range(4, 8), ctx.R.Range(500, 2000)}}
			if ctx.R.Bool() {
				c.Ops = append(c.Ops, c10Op{Op: "sub", H: 0, Name: "db"})
			}
			if ctx.R.Chance(30) {
				c.Ops = append(c.Ops, c10Op{Op: "tag", H: len(c.Ops), Tags: map[B]B{"k1": "x"}})
			}
			one(&c)
		}
		// long histories: "all record histories ... interleaved with any number of report passes"
		for i := 0; i < ctx.N(8, 60); i++ {
			c := c10GenLong(ctx.R, i)
			one(&c)
		}
		// handles obtained concurrently: every Record on every handle a scope hands out is delivered
		for i := 0; i < ctx.N(80, 1200); i++ {
			c := c10GenConc(ctx.R, i)
			one(&c)
		}
		for i := 0; i < ctx.N(6, 40); i++ {
			one(&c10Case{Wall: 1 + ctx.R.Intn(200), Ops: []c10Op{{Op: "start"}}})
		}
	}
}

// tailEv: the last n events (failure records of long histories stay readable).
func tailEv(es []Ev, n int) []Ev {
	if len(es) <= n {
		return es
	}
	return es[len(es)-n:]
}

// c10GenLong: a long history on one or two timers (hundreds of Records with a
// few report passes and stopwatches in between).
func c10GenLong(r *Rng, i int) c10Case {
	c := c10Case{Flavour: []int{2, 0, 1, 2, 3, 2}[i%6]}
	c.Prefix = B(r.Pick([]string{"", "p"}))
	c.Tags = c10Tags(r, 1)
	for j, t := 0, int64(r.Intn(1000)); j < 24; j++ {
		c.Clock = append(c.Clock, t)
		t += int64(r.Intn(1000000))
	}
	c.Ops = []c10Op{{Op: "timer", H: 0, Name: "t"}}
	nt := 1
	if r.Chance(35) {
		c.Ops = append(c.Ops, c10Op{Op: "sub", H: 0, Name: "s"}, c10Op{Op: "timer", H: 1, Name: "u"})
		nt = 2
	}
	n := 160 + r.Intn(340)
	nsw := 0
	for j := 0; j < n; j++ {
		switch x := r.Intn(100); {
		case x < 90:
			d := int64(j)
			if r.Chance(30) {
				d = r.I64()
			}
			c.Ops = append(c.Ops, c10Op{Op: "rec", H: r.Intn(nt), D: d})
		case x < 94:
			c.Ops = append(c.Ops, c10Op{Op: "pass"})
		case x < 97 || nsw == 0:
			c.Ops = append(c.Ops, c10Op{Op: "start", H: r.Intn(nt)})
			nsw++
		default:
			c.Ops = append(c.Ops, c10Op{Op: "stop", H: r.Intn(nsw)})
		}
	}
	c.Ops = append(c.Ops, c10Op{Op: "pass"})
	c.Every = len(c.Ops)/5 + 1
	return c
}

// c10GenExec: instrumented calls - every kind of error value, executions of
// one Call begun and ended in any order (overlapping), report passes between.
func c10GenExec(r *Rng, i int) c10Case {
	c := c10Case{Flavour: []int{0, 1, 2, 3}[i%4]}
	c.Prefix = B(r.Pick([]string{"", "p"}))
	c.Tags = c10Tags(r, 1)
	switch x := r.Intn(10); {
	case x < 6:
		t := int64(r.Intn(2000000000))
		for j := 0; j < 40; j++ {
			c.Clock = append(c.Clock, t)
			t += int64(r.Intn(3)) * int64(r.Intn(1000000007))
		}
	case x < 9:
		for j := 0; j < 40; j++ {
			c.Clock = append(c.Clock, r.I64())
		}
	default:
		for j := 0; j < 40; j++ {
			c.Clock = append(c.Clock, int64(40*j*j))
		}
	}
	c.Base = c10PickBase(r, c.Clock)
	clock := c10ClockAt(c.Clock)
	bk := newBook(&c)
	at := 0
	add := func(o c10Op) {
		at += bk.apply(o, clock, at)
		c.Ops = append(c.Ops, o)
	}
	newCall := func() {
		o := c10Op{Op: "call", H: r.Intn(len(bk.scopes)), Name: B(r.Pick([]string{"rpc", "get", "x_y"}))}
		cm := bk.scopes[o.H].callMetrics(string(o.Name))
		if c.Flavour == 2 && (bk.collides(1, cm.errC) || bk.collides(1, cm.okC) || bk.collides(0, cm.lat)) {
			return
		}
		add(o)
	}
	if r.Bool() {
		add(c10Op{Op: "sub", H: 0, Name: "s"})
	}
	newCall()
	if len(bk.calls) == 0 {
		add(c10Op{Op: "call", H: 0, Name: "rpc"})
	}
	var open []int
	outcome := func(o c10Op) c10Op {
		if r.Chance(70) {
			o.Err, o.Kind = true, 1+r.Intn(c10ErrKinds-1)
		}
		return o
	}
	for n := r.Range(4, 14); n > 0; n-- {
		switch x := r.Intn(100); {
		case x < 35:
			add(outcome(c10Op{Op: "exec", H: r.Intn(len(bk.calls))}))
		case x < 60 && len(open) < 4:
			h := r.Intn(len(bk.calls))
			if len(open) > 0 && r.Chance(60) {
				h = bk.execs[open[len(open)-1]].call // the same Call again while it is running
			}
			open = append(open, len(bk.execs))
			add(c10Op{Op: "begin", H: h})
		case x < 82 && len(open) > 0:
			k := r.Intn(len(open))
			if r.Bool() {
				k = len(open) - 1 // innermost first, as when the function calls Exec itself
			}
			add(outcome(c10Op{Op: "end", H: open[k]}))
			open = append(open[:k], open[k+1:]...)
		case x < 90:
			add(c10Op{Op: "pass"})
		case x < 95:
			newCall()
		default:
			add(outcome(c10Op{Op: "exec", H: r.Intn(len(bk.calls))}))
		}
	}
	for len(open) > 0 {
		k := r.Intn(len(open))
		add(outcome(c10Op{Op: "end", H: open[k]}))
		open = append(open[:k], open[k+1:]...)
	}
	add(c10Op{Op: "pass"})
	return c
}

// c10FixedExec: one Call; two executions overlap (first begun, first ended),
// every kind of error value once, an execution inside another one.
func c10FixedExec() []c10Case {
	ops := []c10Op{
		{Op: "call", H: 0, Name: "rpc"},
		{Op: "begin", H: 0},
		{Op: "begin", H: 0},
		{Op: "end", H: 0, Err: true, Kind: 4},
		{Op: "end", H: 1},
		{Op: "begin", H: 0},
		{Op: "exec", H: 0, Err: true, Kind: 2},
		{Op: "end", H: 2, Err: true, Kind: 6},
		{Op: "pass"},
	}
	for k := 1; k < c10ErrKinds; k++ {
		ops = append(ops, c10Op{Op: "exec", H: 0, Err: true, Kind: k})
	}
	ops = append(ops, c10Op{Op: "exec", H: 0}, c10Op{Op: "pass"})
	clk := []int64{0, 1000000, 41000000, 41000007}
	for j := 0; j < 40; j++ {
		clk = append(clk, 50000000+int64(j)*1000)
	}
	var out []c10Case
	for f := 0; f < 4; f++ {
		out = append(out, c10Case{Flavour: f, Prefix: "svc", Clock: clk, Ops: ops})
	}
	return out
}

// c10GenRefuse: timers whose names make the cached reporter refuse their
// allocation always ("boom") or the first time ("once"); the caller recovers
// and goes on: the same name again, Records, stopwatches, report passes.
func c10GenRefuse(r *Rng, i int) c10Case {
	c := c10Case{Flavour: []int{1, 3, 1, 3, 0, 2}[i%6]}
	c.Prefix = B(r.Pick([]string{"", "p"}))
	c.Tags = c10Tags(r, 1)
	for j, t := 0, int64(r.Intn(1000)); j < 24; j++ {
		c.Clock = append(c.Clock, t)
		t += int64(r.Intn(1000000))
	}
	c.Base = c10PickBase(r, c.Clock)
	clock := c10ClockAt(c.Clock)
	bk := newBook(&c)
	names := []string{"once", "once", "boom", "t", "a_once", "retry.once", "kaboom"}
	if c.Flavour == 2 {
		names = []string{"once", "boom", "t", "a_once"}
	}
	at := 0
	for n := r.Range(5, 16); n > 0; n-- {
		var o c10Op
		switch x := r.Intn(100); {
		case x < 8:
			o = c10Op{Op: "sub", H: r.Intn(len(bk.scopes)), Name: B(r.Pick([]string{"s", "db"}))}
		case x < 12:
			o = c10Op{Op: "tag", H: r.Intn(len(bk.scopes)), Tags: c10Tags(r, 1)}
		case x < 50 || len(bk.timers) == 0:
			o = c10Op{Op: "timer", H: r.Intn(len(bk.scopes)), Name: B(r.Pick(names))}
			if bk.refuses(bk.scopes[o.H], string(o.Name)) {
				o.Op = "timerx"
			} else if c.Flavour == 2 && bk.collides(0, bk.scopes[o.H].metric(string(o.Name))) {
				o = c10Op{Op: "pass"}
			}
		case x < 75:
			o = c10Op{Op: "rec", H: r.Intn(len(bk.timers)), D: r.I64()}
		case x < 82:
			o = c10Op{Op: "pass"}
		case x < 90:
			o = c10Op{Op: "start", H: r.Intn(len(bk.timers))}
		case len(bk.sws) > 0:
			o = c10Op{Op: "stop", H: r.Intn(len(bk.sws))}
		default:
			o = c10Op{Op: "pass"}
		}
		at += bk.apply(o, clock, at)
		c.Ops = append(c.Ops, o)
	}
	c.Ops = append(c.Ops, c10Op{Op: "pass"})
	return c
}

// c10FixedClock: one stopwatch history per clock base and flavour pair, and the refused allocations.
func c10FixedClock() []c10Case {
	ops := []c10Op{
		{Op: "timer", H: 0, Name: "t"},
		{Op: "hist", H: 0, Name: "h", Spec: []int64{1000000, 60000000000}},
		{Op: "start", H: 0},
		{Op: "hstart", H: 0},
		{Op: "stop", H: 0},
		{Op: "stop", H: 1},
		{Op: "call", H: 0, Name: "rpc"},
		{Op: "exec", H: 0},
		{Op: "begin", H: 0},
		{Op: "end", H: 0, Err: true, Kind: 5},
		{Op: "pass"},
	}
	clk := []int64{0, 1000, 2001000, 2002000, 5000000000, 5000000007, 6000000000, 6000040000}
	var out []c10Case
	for b := 1; b <= 4; b++ {
		out = append(out, c10Case{Flavour: []int{2, 0, 1, 3}[b-1], Base: b, Prefix: "p", Clock: clk, Ops: ops})
	}
	// a stopwatch whose start instant is exactly the zero time.Time: timer's first, histogram's first
	zeroT := []c10Op{{Op: "timer", H: 0, Name: "t"}, {Op: "start", H: 0}, {Op: "stop", H: 0}, {Op: "stop", H: 0}, {Op: "pass"}}
	zeroH := []c10Op{{Op: "hist", H: 0, Name: "h", Spec: []int64{1000000}}, {Op: "hstart", H: 0}, {Op: "timer", H: 0, Name: "t"},
		{Op: "start", H: 0}, {Op: "stop", H: 1}, {Op: "stop", H: 0}, {Op: "pass"}}
	for f := 0; f < 4; f++ {
		out = append(out, c10Case{Flavour: f, Base: 1, Prefix: "p", Clock: []int64{0, 7, 2001000, 2002000}, Ops: zeroT},
			c10Case{Flavour: f, Base: 1, Prefix: "p", Clock: []int64{0, 7, 2001000, 2002000}, Ops: zeroH})
	}
	refuse := []c10Op{
		{Op: "sub", H: 0, Name: "s"},
		{Op: "timerx", H: 1, Name: "once"},
		{Op: "timer", H: 1, Name: "once"},
		{Op: "rec", H: 0, D: 5},
		{Op: "start", H: 0},
		{Op: "timerx", H: 1, Name: "boom"},
		{Op: "timerx", H: 1, Name: "boom"},
		{Op: "timer", H: 1, Name: "once"},
		{Op: "rec", H: 1, D: 6},
		{Op: "stop", H: 0},
		{Op: "pass"},
	}
	for _, f := range []int{1, 3} {
		out = append(out, c10Case{Flavour: f, Prefix: "p", Clock: []int64{100, 175}, Ops: refuse})
	}
	return out
}

// c10GenClash: scopes with prefixes, nested sub-scopes, and timers (and
// duration histograms) whose name in their scope is the fully qualified name
// of another metric - mostly of one obtained from the same scope just before -
// or a suffix of it; Records / stopwatches through every handle.
func c10GenClash(r *Rng, i int) c10Case {
	c := c10Case{Flavour: []int{0, 1, 2, 3}[i%4]}
	c.Prefix = B(r.Pick([]string{"p", "svc", "", "p"}))
	c.Tags = c10Tags(r, 1)
	for j, t := 0, int64(r.Intn(1000)); j < 30; j++ {
		c.Clock = append(c.Clock, t)
		t += int64(r.Intn(1000000))
	}
	c.Base = c10PickBase(r, c.Clock)
	clock := c10ClockAt(c.Clock)
	bk := newBook(&c)
	segs := []string{"t", "http", "rpc", "p", "svc"}
	perScope := map[int][]string{} // scope handle -> fully qualified names of the metrics obtained from it
	var all []string
	name := func(h int) string {
		switch x := r.Intn(100); {
		case x < 45 && len(perScope[h]) > 0:
			return perScope[h][len(perScope[h])-1] // the one obtained from this scope last
		case x < 60 && len(perScope[h]) > 0:
			return r.Pick(perScope[h])
		case x < 70 && len(all) > 0:
			fq := r.Pick(all)
			if k := strings.Index(fq, "."); k >= 0 && r.Bool() {
				return fq[k+1:]
			}
			return fq
		}
		return r.Pick(segs)
	}
	at := 0
	for n := r.Range(6, 16); n > 0; n-- {
		var o c10Op
		switch x := r.Intn(100); {
		case x < 12:
			o = c10Op{Op: "sub", H: r.Intn(len(bk.scopes)), Name: B(r.Pick(segs))}
		case x < 16:
			o = c10Op{Op: "tag", H: r.Intn(len(bk.scopes)), Tags: c10Tags(r, 1)}
		case x < 50 || len(bk.timers) == 0:
			h := r.Intn(len(bk.scopes))
			o = c10Op{Op: "timer", H: h, Name: B(name(h))}
			m := bk.scopes[h].metric(string(o.Name))
			if c.Flavour == 2 && bk.collides(0, m) {
				o = c10Op{Op: "pass"}
			} else {
				perScope[h] = append(perScope[h], m.strs[0])
				all = append(all, m.strs[0])
			}
		case x < 58:
			h := r.Intn(len(bk.scopes))
			o = c10Op{Op: "hist", H: h, Name: B(name(h)), Spec: []int64{1000, 1000000}}
			m := bk.scopes[h].metric(string(o.Name))
			if c.Flavour == 2 && bk.collides(2, m) {
				o = c10Op{Op: "pass"}
			} else {
				perScope[h] = append(perScope[h], m.strs[0])
				all = append(all, m.strs[0])
			}
		case x < 80:
			o = c10Op{Op: "rec", H: r.Intn(len(bk.timers)), D: int64(1 + r.Intn(1000))}
		case x < 86:
			o = c10Op{Op: "start", H: r.Intn(len(bk.timers))}
		case x < 90 && len(bk.hists) > 0:
			o = c10Op{Op: "hstart", H: r.Intn(len(bk.hists))}
		case x < 96 && len(bk.sws) > 0:
			o = c10Op{Op: "stop", H: r.Intn(len(bk.sws))}
		default:
			o = c10Op{Op: "pass"}
		}
		at += bk.apply(o, clock, at)
		c.Ops = append(c.Ops, o)
	}
	for h := range bk.timers { // a value through every handle
		o := c10Op{Op: "rec", H: h, D: int64(5000 + h)}
		at += bk.apply(o, clock, at)
		c.Ops = append(c.Ops, o)
	}
	c.Ops = append(c.Ops, c10Op{Op: "pass"})
	return c
}

// c10FixedClash: "t" then "p.t" on a root with prefix p (and the other way
// round), "rpc" then "http.rpc" on SubScope("http"), nested sub-scopes, and the
// same for duration histograms and their stopwatches.
func c10FixedClash() []c10Case {
	ops := func(first, second string) []c10Op {
		return []c10Op{
			{Op: "timer", H: 0, Name: B(first)},
			{Op: "timer", H: 0, Name: B(second)},
			{Op: "rec", H: 0, D: 1},
			{Op: "rec", H: 1, D: 2},
			{Op: "timer", H: 0, Name: B(first)},
			{Op: "rec", H: 2, D: 3},
			{Op: "start", H: 1},
			{Op: "stop", H: 0},
			{Op: "hist", H: 0, Name: B(first), Spec: []int64{10, 1000}},
			{Op: "hist", H: 0, Name: B(second), Spec: []int64{10, 1000}},
			{Op: "hstart", H: 1},
			{Op: "hstart", H: 0},
			{Op: "stop", H: 1},
			{Op: "stop", H: 2},
			{Op: "pass"},
		}
	}
	sub := []c10Op{
		{Op: "sub", H: 0, Name: "http"},
		{Op: "timer", H: 1, Name: "rpc"},
		{Op: "timer", H: 1, Name: "http.rpc"},
		{Op: "rec", H: 1, D: 7},
		{Op: "rec", H: 0, D: 8},
		{Op: "sub", H: 1, Name: "http"},
		{Op: "timer", H: 2, Name: "rpc"},
		{Op: "timer", H: 2, Name: "http.http.rpc"},
		{Op: "timer", H: 1, Name: "http.rpc"},
		{Op: "rec", H: 3, D: 9},
		{Op: "rec", H: 2, D: 10},
		{Op: "rec", H: 4, D: 11},
		{Op: "pass"},
	}
	clk := []int64{100, 150, 200, 500, 900, 1400}
	var out []c10Case
	for _, f := range []int{0, 1, 2, 3} {
		out = append(out,
			c10Case{Flavour: f, Prefix: "p", Clock: clk, Ops: ops("t", "p.t")},
			c10Case{Flavour: f, Prefix: "p", Clock: clk, Ops: ops("p.t", "t")},
			c10Case{Flavour: f, Prefix: "", Clock: clk, Ops: map[bool][]c10Op{false: sub, true: append(append([]c10Op{}, sub[:5]...), c10Op{Op: "pass"})}[f == 2]})
		// (test scope: only the first sub-scope - two timers with the same name and tags share a snapshot entry)
	}
	return out
}

// c10GenClose: histories in which scopes are closed (sub-scopes, in the end
// often the root). Calls are limited to SubScope / Tagged / Timer / Record /
// Start / Stop / report pass / Close, and to what the documentation defines:
// no SubScope / Tagged on a closed scope (they return the no-op scope) and no
// SubScope / Tagged that would re-create a closed scope.
func c10GenClose(r *Rng, i int) c10Case {
	c := c10Case{Flavour: []int{1, 3, 0, 1, 2, 3}[i%6]}
	c.Prefix = B(r.Pick([]string{"", "p"}))
	c.Tags = c10Tags(r, 1)
	for j, t := 0, int64(r.Intn(1000)); j < 24; j++ {
		c.Clock = append(c.Clock, t)
		t += int64(r.Intn(1000000))
	}
	c.Base = c10PickBase(r, c.Clock)
	clock := c10ClockAt(c.Clock)
	bk := newBook(&c)
	g := bk.scopes[0].g
	names := []string{"t", "u", "lat"}
	at := 0
	n := r.Range(6, 18)
	for j := 0; j < n; j++ {
		var o c10Op
		switch x := r.Intn(100); {
		case x < 14:
			o = c10Op{Op: "sub", H: r.Intn(len(bk.scopes)), Name: B(r.Pick([]string{"s", "db", "x"}))}
			if g.isClosed(bk.scopes[o.H].id()) || g.isClosed(bk.scopes[o.H].sub(string(o.Name)).id()) {
				o = c10Op{Op: "pass"}
			}
		case x < 20:
			o = c10Op{Op: "tag", H: r.Intn(len(bk.scopes)), Tags: c10Tags(r, 1)}
			if g.isClosed(bk.scopes[o.H].id()) || g.isClosed(bk.scopes[o.H].tagged(tagsOf(o.Tags)).id()) {
				o = c10Op{Op: "pass"}
			}
		case x < 40 || len(bk.timers) == 0:
			o = c10Op{Op: "timer", H: r.Intn(len(bk.scopes)), Name: B(r.Pick(names))}
			if c.Flavour == 2 && bk.collides(0, bk.scopes[o.H].metric(string(o.Name))) {
				o = c10Op{Op: "pass"}
			}
		case x < 62:
			o = c10Op{Op: "rec", H: r.Intn(len(bk.timers)), D: r.I64()}
		case x < 72:
			o = c10Op{Op: "pass"}
		case x < 78:
			o = c10Op{Op: "start", H: r.Intn(len(bk.timers))}
		case x < 84 && len(bk.sws) > 0:
			o = c10Op{Op: "stop", H: r.Intn(len(bk.sws))}
		case x < 97:
			o = c10Op{Op: "close", H: r.Intn(len(bk.scopes))}
			if o.H == 0 && j < n-6 {
				o.H = len(bk.scopes) - 1 // the root mostly towards the end
			}
		default:
			o = c10Op{Op: "rec", H: r.Intn(len(bk.timers)), D: int64(j)}
		}
		at += bk.apply(o, clock, at)
		c.Ops = append(c.Ops, o)
	}
	c.Ops = append(c.Ops, c10Op{Op: "pass"})
	return c
}

// c10FixedClose: a sub-scope is closed; a timer obtained from it afterwards,
// the same name again after the pass that drops the scope, and again after
// the root is closed, with Records and a stopwatch on every handle.
func c10FixedClose() []c10Case {
	ops := []c10Op{
		{Op: "sub", H: 0, Name: "s"},
		{Op: "timer", H: 1, Name: "old"},
		{Op: "close", H: 1},
		{Op: "timer", H: 1, Name: "t"},
		{Op: "rec", H: 1, D: 5},
		{Op: "rec", H: 0, D: 4},
		{Op: "pass"},
		{Op: "timer", H: 1, Name: "t"},
		{Op: "rec", H: 2, D: 6},
		{Op: "rec", H: 1, D: 8},
		{Op: "start", H: 2},
		{Op: "close", H: 0},
		{Op: "stop", H: 0},
		{Op: "timer", H: 1, Name: "t"},
		{Op: "rec", H: 3, D: 7},
		{Op: "timer", H: 0, Name: "r"},
		{Op: "rec", H: 4, D: 9},
		{Op: "pass"},
		{Op: "close", H: 1},
	}
	var out []c10Case
	for _, f := range []int{1, 3, 0, 2} {
		out = append(out, c10Case{Flavour: f, Prefix: "p", Clock: []int64{100, 175}, Ops: ops})
	}
	// stale handles: a timer handle and a running stopwatch of a tagged scope outlive the scope (closed,
	// then dropped by a report pass / by the root's Close); other timers are created elsewhere; a Record
	// and the Stop through the old handle still carry the old timer's name and tags
	stale := func(dropByRootClose bool) []c10Op {
		o := []c10Op{
			{Op: "tag", H: 0, Tags: map[B]B{"route": "a0"}},
			{Op: "timer", H: 1, Name: "latency"},
			{Op: "start", H: 0},
			{Op: "rec", H: 0, D: 1},
			{Op: "close", H: 1},
		}
		if dropByRootClose {
			o = append(o, c10Op{Op: "sub", H: 0, Name: "db"}, c10Op{Op: "close", H: 0})
		} else {
			o = append(o, c10Op{Op: "pass"}, c10Op{Op: "sub", H: 0, Name: "db"})
		}
		return append(o,
			c10Op{Op: "timer", H: 2, Name: "query0"},
			c10Op{Op: "timer", H: 0, Name: "other"},
			c10Op{Op: "rec", H: 1, D: 2},
			c10Op{Op: "rec", H: 0, D: 3},
			c10Op{Op: "stop", H: 0},
			c10Op{Op: "rec", H: 2, D: 4},
			c10Op{Op: "timer", H: 1, Name: "latency"},
			c10Op{Op: "rec", H: 3, D: 5},
			c10Op{Op: "rec", H: 0, D: 6},
			c10Op{Op: "pass"})
	}
	for _, f := range []int{0, 1, 3} {
		out = append(out, c10Case{Flavour: f, Prefix: "svc", Clock: []int64{100, 175}, Ops: stale(false)},
			c10Case{Flavour: f, Prefix: "svc", Clock: []int64{100, 175}, Ops: stale(true)})
	}
	return out
}

// c10FixedLong: 300 Records on one timer with a report pass every 64 calls, per flavour.
func c10FixedLong() []c10Case {
	var out []c10Case
	for f := 0; f < 4; f++ {
		c := c10Case{Flavour: f, Prefix: "p", Ops: []c10Op{{Op: "timer", H: 0, Name: "t"}}}
		for j := 0; j < 300; j++ {
			c.Ops = append(c.Ops, c10Op{Op: "rec", H: 0, D: int64(1000 + j)})
			if j%64 == 63 {
				c.Ops = append(c.Ops, c10Op{Op: "pass"})
			}
		}
		c.Ops = append(c.Ops, c10Op{Op: "pass"})
		c.Every = 61
		out = append(out, c)
	}
	return out
}

func bucket3(n int) string {
	switch {
	case n == 0:
		return "0"
	case n <= 2:
		return "1-2"
	default:
		return "3+"
	}
}

// c10Fixed: hand-written histories that every run explores, one per
// flavour: the same timer reached through two handles, a timer whose fully
// qualified name coincides with another scope's, records around report
// passes, stopwatches stopped twice and across passes, saturating clock
// differences, instrumented calls sharing their metrics.
func c10Fixed() []c10Case {
	var out []c10Case
	ops := []c10Op{
		{Op: "timer", H: 0, Name: "t"},
		{Op: "rec", H: 0, D: 5},
		{Op: "pass"},
		{Op: "pass"},
		{Op: "timer", H: 0, Name: "t"},
		{Op: "rec", H: 1, D: math.MinInt64},
		{Op: "sub", H: 0, Name: "s"},
		{Op: "tag", H: 1, Tags: map[B]B{"k1": "x", "a": "1"}},
		{Op: "timer", H: 2, Name: "t"},
		{Op: "start", H: 2},
		{Op: "rec", H: 2, D: math.MaxInt64},
		{Op: "pass"},
		{Op: "stop", H: 0},
		{Op: "stop", H: 0},
		{Op: "hist", H: 1, Name: "h", Spec: []int64{1000, 10}},
		{Op: "hstart", H: 0},
		{Op: "stop", H: 1},
		{Op: "call", H: 2, Name: "rpc"},
		{Op: "call", H: 2, Name: "rpc"},
		{Op: "exec", H: 0, Err: true},
		{Op: "exec", H: 1, Err: false},
		{Op: "exec", H: 1, Err: false},
		{Op: "rec", H: 0, D: 0},
		{Op: "pass"},
		{Op: "pass"},
	}
	clk := []int64{100, 150, 1 << 62, 7, 1007, 5, math.MinInt64, math.MaxInt64, 3, 3, -9, -4}
	for f := 0; f < 4; f++ {
		out = append(out, c10Case{Flavour: f, Prefix: "p", Tags: map[B]B{"host": "h"}, Clock: clk, Ops: ops})
	}
	// a timer named like another scope's timer: two objects, two allocations
	ops2 := []c10Op{
		{Op: "sub", H: 0, Name: "a"},
		{Op: "timer", H: 1, Name: "b"},
		{Op: "timer", H: 0, Name: "a.b"},
		{Op: "rec", H: 0, D: 1},
		{Op: "rec", H: 1, D: 2},
		{Op: "tag", H: 0, Tags: nil},
		{Op: "timer", H: 2, Name: "a.b"},
		{Op: "rec", H: 2, D: 3},
		{Op: "pass"},
	}
	for _, f := range []int{0, 1, 3} {
		out = append(out, c10Case{Flavour: f, Prefix: "", Clock: []int64{}, Ops: ops2})
	}
	// a sanitizing root scope: names, prefixes, the separator, tag keys and values all go through it
	ops3 := []c10Op{
		{Op: "timer", H: 0, Name: "rpc latency (ms)"},
		{Op: "rec", H: 0, D: 5},
		{Op: "timer", H: 0, Name: "rpc_latency__ms_"},
		{Op: "rec", H: 1, D: 6},
		{Op: "sub", H: 0, Name: "db:1"},
		{Op: "tag", H: 1, Tags: map[B]B{"shard id": "a b"}},
		{Op: "timer", H: 2, Name: "q"},
		{Op: "start", H: 2},
		{Op: "stop", H: 0},
		{Op: "call", H: 2, Name: "get user"},
		{Op: "exec", H: 0, Err: true},
		{Op: "exec", H: 0},
		{Op: "pass"},
	}
	for _, f := range []int{1, 0, 3} {
		out = append(out, c10Case{Flavour: f, Prefix: "svc", Tags: map[B]B{"data center": "eu west"}, Clock: []int64{10, 25, 40, 41, 50, 58},
			San: &c10San{Rep: '_', Name: c10Tabs[0], Key: c10Tabs[0], Value: c10Tabs[1]}, Ops: ops3})
	}
	return out
}
