package main

// One deterministic PRNG (splitmix64) for every random choice of a run.
type Rng struct{ s uint64 }

// NewRng hashes the seed first, so that nearby seeds give unrelated streams.
func NewRng(seed uint64) *Rng {
	r := &Rng{s: seed ^ 0x5DEECE66D1234567}
	r.s = r.U64()*0xD6E8FEB86659FD93 + seed
	return r
}
func (r *Rng) U64() uint64 {
	r.s += 0x9E3779B97F4A7C15
	z := r.s
	z = (z ^ (z >> 30)) * 0xBF58476D1CE4E5B9
	z = (z ^ (z >> 27)) * 0x94D049BB133111EB
	return z ^ (z >> 31)
}
func (r *Rng) Intn(n int) int {
	if n <= 0 {
		return 0
	}
	return int(r.U64() % uint64(n))
}
func (r *Rng) Bool() bool         { return r.U64()&1 == 1 }
func (r *Rng) Chance(p int) bool  { return r.Intn(100) < p }
func (r *Rng) Range(lo, hi int) int { return lo + r.Intn(hi-lo+1) }
func (r *Rng) Pick(ss []string) string { return ss[r.Intn(len(ss))] }
func (r *Rng) Fork() *Rng         { return NewRng(r.U64()) }
