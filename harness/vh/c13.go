package main

// C13 — the M3 reporter delivers every reported value exactly once and intact.
// Drives the real m3.NewReporter against loopback UDP listeners opened here,
// decodes every datagram with the vendored Thrift decoder (direct predicate)
// and hands the raw datagrams to Corr/M3PipeCorr.v, which decodes them again
// with the proved decoder and compares with Model/M3Pipe.v.
//
// Streams:
//   witnesses  the inputs on which the pinned tree violates the property:
//              F13a tag maps whose "k=v" strings coincide, F13b a report issued
//              before timeLoop has run.  Reported through FailKnown; when one
//              fails the main stream stays off that region (no colliding maps /
//              first report after the clock is set).
//   exact      histories from ONE goroutine: emitted sequence = reported
//              sequence (values, tags, bucket tags, timestamps), through the model.
//   multi      histories from several goroutines: per producer the sequence,
//              through the model.
// A case that fails is run a second time; only a second failure is reported
// (loopback UDP may drop a datagram).

import (
	"bytes"
	"encoding/json"
	"fmt"
	"math"
	"net"
	"os"
	"reflect"
	"runtime"
	"sort"
	"strconv"
	"strings"
	"sync"
	"sync/atomic"
	"syscall"
	"time"
	"unsafe"

	tally "github.com/uber-go/tally/v4"
	"github.com/uber-go/tally/v4/m3"
	m3thrift "github.com/uber-go/tally/v4/m3/thrift/v2"
)

type c13Op struct {
	// turnover: N counters named Name with the tag sets {turn: i, k: v}; turnrep: report V through counter N of turnover H
	Op      string  `json:"op"` // alloc | hist | rep | samp | flush | bucket (a bucket handle of hist H) | burst
	P       int     `json:"p,omitempty"`
	K       int     `json:"k,omitempty"` // 1 counter, 2 gauge, 3 timer
	Name    B       `json:"name,omitempty"`
	Tags    map[B]B `json:"tags,omitempty"`
	TagMode int     `json:"tagmode,omitempty"` // 0: Tags as given; 1: nil map; 2: empty non-nil map
	H       int     `json:"h,omitempty"`       // index of the allocation (in Ops order) the call is made on
	V       int64   `json:"v,omitempty"`
	B       []int64 `json:"b,omitempty"` // histogram bounds: float64 bits or nanoseconds
	Dur     bool    `json:"dur,omitempty"`
	Ub      int64   `json:"ub,omitempty"` // bucketUpperBound argument
	BigN    int     `json:"bign,omitempty"` // hist: BigN duration bounds 7, 14, 21, ... instead of B
	BigTag  int     `json:"bigtag,omitempty"` // alloc: one more tag "big" with a value of BigTag bytes (beyond the UDP datagram limit: such a value can never be sent)
	Fit     int     `json:"fit,omitempty"`    // alloc (counter, Binary protocol): one more tag "big" sized so that the datagram carrying one report of this metric alone has exactly Fit bytes (a value that fits: required like any other)
	Pre     bool    `json:"pre,omitempty"`  // multi/shared: made by the main goroutine before the producers start
	N       int     `json:"n,omitempty"`    // burst: N reports with the values V, V+1, ... through handle / bucket H
}

type c13Case struct {
	Kind        string  `json:"kind"` // exact | multi | shared (several goroutines report unique values through the same handles)
	Witness     string  `json:"witness,omitempty"`
	Proto       string  `json:"proto"`
	Dests       int     `json:"dests"`
	Queue       int     `json:"queue"`
	MaxPacket   int32   `json:"maxpacket,omitempty"`
	Service     B       `json:"service,omitempty"`
	Env         B       `json:"env,omitempty"`
	Common      map[B]B `json:"common,omitempty"`
	IncludeHost bool    `json:"includehost,omitempty"`
	BidName     B       `json:"bidname,omitempty"`
	BktName     B       `json:"bktname,omitempty"`
	Precision   uint    `json:"precision,omitempty"`
	Producers   int     `json:"producers"`
	Immediate   bool    `json:"immediate,omitempty"` // first report right after NewReporter returns
	Ops         []c13Op `json:"ops"`
}

// ---------------------------------------------------------------- listeners

type c13Sink struct {
	l    *net.UDPConn
	mu   sync.Mutex
	got  [][]byte
	stop chan struct{}
	done chan struct{}
}

func c13Listen() *c13Sink {
	l := c15Listen()
	if rc, err := l.SyscallConn(); err == nil {
		rc.Control(func(fd uintptr) { // beyond rmem_max when permitted
			syscall.SetsockoptInt(int(fd), syscall.SOL_SOCKET, 33 /* SO_RCVBUFFORCE */, 16<<20)
		})
	}
	s := &c13Sink{l: l, stop: make(chan struct{}), done: make(chan struct{})}
	go func() {
		defer close(s.done)
		buf := make([]byte, 70000)
		for {
			select {
			case <-s.stop:
				return
			default:
			}
			s.l.SetReadDeadline(time.Now().Add(20 * time.Millisecond))
			n, _, err := s.l.ReadFromUDP(buf)
			if err == nil {
				s.mu.Lock()
				s.got = append(s.got, append([]byte(nil), buf[:n]...))
				s.mu.Unlock()
			}
		}
	}()
	return s
}

// finish stops the reader and takes, without waiting, what is already queued
// on the socket; late = datagrams that only show up during the following grace
// period (emitted after the moment finish was called).
func (s *c13Sink) finish(grace time.Duration) (got [][]byte, late int) {
	close(s.stop)
	s.l.SetReadDeadline(time.Now())
	<-s.done
	s.l.SetReadDeadline(time.Time{})
	buf := make([]byte, 70000)
	for {
		n, ok := c15Poll(s.l, buf)
		if !ok {
			break
		}
		s.got = append(s.got, append([]byte(nil), buf[:n]...))
	}
	if grace > 0 {
		end := time.Now().Add(grace)
		for time.Now().Before(end) {
			s.l.SetReadDeadline(time.Now().Add(grace))
			n, _, err := s.l.ReadFromUDP(buf)
			if err != nil {
				break
			}
			s.got = append(s.got, append([]byte(nil), buf[:n]...))
			late++
		}
	}
	s.l.Close()
	return s.got, late
}

// ---------------------------------------------------------------- expectations

type c13Want struct {
	P      int
	Name   string
	Type   int64
	Count  int64
	Gauge  int64 // bits
	Timer  int64
	Tags   []string // sorted "k\x00v" pairs, bucket tags included
	TAfter int64
	Ts     int64 // observed (filled in when matched)
}

func c13TagKey(tags []m3thrift.MetricTag) []string {
	out := make([]string, len(tags))
	for i, t := range tags {
		out[i] = t.Name + "\x00" + t.Value
	}
	sort.Strings(out)
	return out
}
func c13MapKey(m map[string]string) []string {
	out := make([]string, 0, len(m))
	for k, v := range m {
		out = append(out, k+"\x00"+v)
	}
	sort.Strings(out)
	return out
}
func c13SameStrs(a, b []string) bool {
	if len(a) != len(b) {
		return false
	}
	for i := range a {
		if a[i] != b[i] {
			return false
		}
	}
	return true
}

func c13TagMap(o *c13Op) map[string]string {
	switch o.TagMode {
	case 1:
		return nil
	case 2:
		return map[string]string{}
	}
	return tagsOf(o.Tags)
}

// the class of a tag map under identity.StringStringMap for EVERY string hash:
// the multiset of the strings k + "=" + v
func c13Class(m map[string]string) string {
	ss := make([]string, 0, len(m))
	for k, v := range m {
		ss = append(ss, k+"="+v)
	}
	sort.Strings(ss)
	var b strings.Builder
	for _, s := range ss {
		fmt.Fprintf(&b, "%d:%s,", len(s), s)
	}
	return b.String()
}

// two different maps of one case with the same class
func c13Collides(c *c13Case) bool {
	seen := map[string]string{}
	for i := range c.Ops {
		o := &c.Ops[i]
		if o.Op != "alloc" && o.Op != "hist" {
			continue
		}
		m := c13TagMap(o)
		if len(m) == 0 {
			continue
		}
		cl, id := c13Class(m), strings.Join(c13MapKey(m), "\x01")
		if prev, ok := seen[cl]; ok && prev != id {
			return true
		}
		seen[cl] = id
	}
	return false
}

func c13Bounds(o *c13Op) []int64 {
	if o.BigN > 0 {
		b := make([]int64, o.BigN)
		for i := range b {
			b[i] = int64(7 * (i + 1))
		}
		return b
	}
	return o.B
}

func c13Buckets(o *c13Op) tally.Buckets {
	bs := c13Bounds(o)
	if o.Dur || o.BigN > 0 {
		d := make(tally.DurationBuckets, len(bs))
		for i, v := range bs {
			d[i] = time.Duration(v)
		}
		return d
	}
	v := make(tally.ValueBuckets, len(bs))
	for i, b := range bs {
		v[i] = math.Float64frombits(uint64(b))
	}
	return v
}

func (c *c13Case) prec() int {
	if c.Precision == 0 {
		return int(m3.DefaultHistogramBucketTagPrecision)
	}
	return int(c.Precision)
}

// rendering oracle: the library calls the reporter makes
func (c *c13Case) render(dur bool, v int64) string {
	if dur {
		return time.Duration(v).String()
	}
	return fmt.Sprintf("%."+strconv.Itoa(c.prec())+"f", math.Float64frombits(uint64(v)))
}
func (c *c13Case) bstr(dur bool, v int64) string {
	if dur {
		switch v {
		case 0:
			return "0"
		case math.MaxInt64:
			return "infinity"
		case math.MinInt64:
			return "-infinity"
		}
	} else {
		f := math.Float64frombits(uint64(v))
		if f == math.MaxFloat64 {
			return "infinity"
		}
		if f == -math.MaxFloat64 {
			return "-infinity"
		}
	}
	return c.render(dur, v)
}

// sorted upper bounds with the all-covering last one
func c13Uppers(dur bool, bs []int64) []int64 {
	out := append([]int64(nil), bs...)
	if dur {
		sort.Slice(out, func(i, j int) bool { return out[i] < out[j] })
		return append(out, math.MaxInt64)
	}
	sort.SliceStable(out, func(i, j int) bool {
		return math.Float64frombits(uint64(out[i])) < math.Float64frombits(uint64(out[j]))
	})
	return append(out, fbits(math.MaxFloat64))
}

// first bucket whose upper bound is >= ub; -1 when there is none
func c13Find(dur bool, us []int64, ub int64) int {
	for i, u := range us {
		if dur {
			if u >= ub {
				return i
			}
		} else if math.Float64frombits(uint64(u)) >= math.Float64frombits(uint64(ub)) {
			return i
		}
	}
	return -1
}

// ---------------------------------------------------------------- reflection (read-only)

func c13Field(v reflect.Value, names ...string) (reflect.Value, bool) {
	for _, n := range names {
		for v.Kind() == reflect.Interface || v.Kind() == reflect.Ptr {
			if v.IsNil() {
				return v, false
			}
			v = v.Elem()
		}
		if v.Kind() != reflect.Struct {
			return v, false
		}
		v = v.FieldByName(n)
		if !v.IsValid() {
			return v, false
		}
	}
	return v, true
}

func c13Free(r m3.Reporter) (int64, bool) {
	f, ok := c13Field(reflect.ValueOf(r), "freeBytes")
	if !ok || f.Kind() != reflect.Int32 {
		return 0, false
	}
	return f.Int(), true
}

func c13ClockSet(r m3.Reporter) bool {
	f, ok := c13Field(reflect.ValueOf(r), "now", "v")
	if !ok || f.Kind() != reflect.Int64 || !f.CanAddr() {
		return true
	}
	return atomic.LoadInt64((*int64)(unsafe.Pointer(f.UnsafeAddr()))) != 0
}

func c13HandleSize(h interface{}) (int64, bool) {
	f, ok := c13Field(reflect.ValueOf(h), "size")
	if !ok || f.Kind() != reflect.Int32 {
		return 1, false
	}
	return f.Int(), true
}

func c13HistSizes(h interface{}, dur bool, n int) ([]int64, bool) {
	name := "cachedValueBuckets"
	if dur {
		name = "cachedDurationBuckets"
	}
	f, ok := c13Field(reflect.ValueOf(h), name)
	if !ok || f.Kind() != reflect.Slice || f.Len() != n {
		return nil, false
	}
	out := make([]int64, n)
	for i := range out {
		s, ok := c13Field(f.Index(i), "metric", "size")
		if !ok || s.Kind() != reflect.Int32 {
			return nil, false
		}
		out[i] = s.Int()
	}
	return out, true
}

// ---------------------------------------------------------------- run

type c13Obs struct {
	Datagrams int      `json:"datagrams"`
	Late      int      `json:"late_datagrams,omitempty"`
	Got       []string `json:"emitted,omitempty"`
	Want      []string `json:"reported,omitempty"`
}

type c13Result struct {
	In, Obs  []Ev
	Params   []int64
	Pred     string
	Fail     string
	Lossy    bool // the failure may be a lost datagram
	Reported int
	Batches  int
	O        c13Obs
	SendCoq  bool
	NoModel  bool // the history is checked by the direct predicate only
	FitNote  string
	BFlag    bool
}

func (r *c13Result) fail(pred, f string, a ...interface{}) {
	if r.Fail == "" {
		r.Pred, r.Fail = pred, fmt.Sprintf(f, a...)
	}
}

func c13Show(w *c13Want) string {
	tags := append([]string(nil), w.Tags...)
	for i, t := range tags { // a tag value sized to fill a datagram is shown by its length
		if len(t) > 200 {
			tags[i] = fmt.Sprintf("%s...(%d bytes)", t[:40], len(t))
		}
	}
	return fmt.Sprintf("{p%d name %+q type %d count %d gauge %#x timer %d tags %+q ts %d}", w.P, w.Name, w.Type, w.Count, uint64(w.Gauge), w.Timer, tags, w.Ts)
}

const c13Internal = "tally.internal."

func c13Hostname() string {
	h, _ := os.Hostname()
	return h
}

// waitClock: the first report is made only after timeLoop has stored the clock
func c13Run(c *c13Case, waitClock bool) (res c13Result) {
	sinks := make([]*c13Sink, c.Dests)
	hp := make([]string, c.Dests)
	for i := range sinks {
		sinks[i] = c13Listen()
		hp[i] = sinks[i].l.LocalAddr().String()
	}
	finished := false
	defer func() {
		if !finished {
			for _, s := range sinks {
				s.finish(0)
			}
		}
	}()
	proto := m3.Compact
	if c.Proto == "binary" {
		proto = m3.Binary
	}
	opts := m3.Options{HostPorts: hp, Service: string(c.Service), Env: string(c.Env), CommonTags: tagsOf(c.Common),
		IncludeHost: c.IncludeHost, Protocol: proto, MaxQueueSize: c.Queue, MaxPacketSizeBytes: c.MaxPacket,
		HistogramBucketIDName: string(c.BidName), HistogramBucketName: string(c.BktName), HistogramBucketTagPrecision: c.Precision}
	tBefore := time.Now().UnixNano()
	r, err := m3.NewReporter(opts)
	if err != nil {
		res.fail("constructor", "NewReporter failed: %v", err)
		return
	}
	if !c.Immediate || waitClock {
		for i := 0; !c13ClockSet(r) && i < 200000; i++ {
			if i > 1000 {
				time.Sleep(10 * time.Microsecond)
			} else {
				runtime.Gosched()
			}
		}
	}
	free, freeOK := c13Free(r)
	sizesOK := freeOK

	// expected common tags
	wantCommon := map[string]string{}
	for k, v := range tagsOf(c.Common) {
		wantCommon[k] = v
	}
	if wantCommon[m3.ServiceTag] == "" {
		wantCommon[m3.ServiceTag] = string(c.Service)
	}
	if wantCommon[m3.EnvTag] == "" {
		wantCommon[m3.EnvTag] = string(c.Env)
	}
	if c.IncludeHost && wantCommon[m3.HostTag] == "" {
		wantCommon[m3.HostTag] = c13Hostname()
	}
	bidName, bktName := string(c.BidName), string(c.BktName)
	if bidName == "" {
		bidName = m3.DefaultHistogramBucketIDName
	}
	if bktName == "" {
		bktName = m3.DefaultHistogramBucketName
	}

	// the options event
	optEv := Ev{K: 1, I: []int64{b2i(c.IncludeHost)}, S: []string{string(c.Service), string(c.Env), string(c.BidName), string(c.BktName), c13Hostname()}}
	ckeys := make([]string, 0, len(c.Common))
	for k := range c.Common {
		ckeys = append(ckeys, string(k))
	}
	sort.Strings(ckeys)
	for _, k := range ckeys {
		optEv.S = append(optEv.S, k, string(c.Common[B(k)]))
	}

	type handle struct {
		op    *c13Op
		c     tally.CachedCount
		g     tally.CachedGauge
		t     tally.CachedTimer
		h     tally.CachedHistogram
		us    []int64 // histogram: sorted upper bounds
		tags  []string
		model int // index in the model's handle table
		// a bucket handle (op "bucket"): the histogram it belongs to and what a sample through it must look like
		b     tally.CachedHistogramBucket
		many  []tally.CachedCount // op "turnover": its N counters
		hist  *handle
		bwant *c13Want // nil: the handle is a no-op (no such bucket / other kind's method)
	}
	handles := make([]*handle, len(c.Ops))
	classIDs := map[string]int64{}
	classOf := func(m map[string]string) int64 {
		if len(m) == 0 {
			return 0
		}
		cl := c13Class(m)
		if _, ok := classIDs[cl]; !ok {
			classIDs[cl] = int64(len(classIDs) + 1)
		}
		return classIDs[cl]
	}

	nprod := c.Producers
	if nprod < 1 {
		nprod = 1
	}
	evs := make([][]Ev, nprod+1)    // per producer: the call events, in its order; slot nprod: the calls made before the producers start
	wants := make([][]*c13Want, nprod+1)
	var classMu sync.Mutex

	// one call; events and expectations are appended to producer p's lists
	oversize := map[string]bool{} // names of metrics that cannot fit a datagram
	do := func(p, idx int) {
		o := &c.Ops[idx]
		switch o.Op {
		case "alloc":
			m := c13TagMap(o)
			if o.BigTag > 0 {
				mm := map[string]string{"big": strings.Repeat("x", o.BigTag)}
				for k, v := range m {
					mm[k] = v
				}
				m = mm
				classMu.Lock()
				oversize[string(o.Name)] = true
				res.NoModel = true
				classMu.Unlock()
			}
			if o.Fit > 0 {
				n := c13FitSize(opts, string(o.Name), m, o.Fit)
				classMu.Lock()
				res.NoModel = true
				classMu.Unlock()
				if n <= 0 {
					// the probe did not show the expected size: the case is run without the metric's big tag
					res.FitNote = fmt.Sprintf("exact-fit calibration for %d bytes failed; case run with a short tag", o.Fit)
				} else {
					mm := map[string]string{"big": strings.Repeat("x", n)}
					for k, v := range m {
						mm[k] = v
					}
					m = mm
				}
			}
			hd := &handle{op: o, tags: c13MapKey(m)}
			var hi interface{}
			switch o.K {
			case 1:
				hd.c = r.AllocateCounter(string(o.Name), m)
				hi = hd.c
			case 2:
				hd.g = r.AllocateGauge(string(o.Name), m)
				hi = hd.g
			default:
				hd.t = r.AllocateTimer(string(o.Name), m)
				hi = hd.t
			}
			size, ok := c13HandleSize(hi)
			classMu.Lock()
			sizesOK = sizesOK && ok
			key := classOf(m)
			classMu.Unlock()
			handles[idx] = hd
			evs[p] = append(evs[p], Ev{K: 10 + o.K, I: []int64{key, size}, S: nameTags(string(o.Name), m), Src: idx})
		case "hist":
			m := c13TagMap(o)
			dur := o.Dur || o.BigN > 0
			bs := c13Bounds(o)
			hd := &handle{op: o, tags: c13MapKey(m), us: c13Uppers(dur, bs)}
			hd.h = r.AllocateHistogram(string(o.Name), m, c13Buckets(o))
			sizes, ok := c13HistSizes(hd.h, dur, len(bs)+1)
			if !ok {
				sizes = nil
			}
			classMu.Lock()
			sizesOK = sizesOK && ok
			key := classOf(m)
			classMu.Unlock()
			handles[idx] = hd
			e := Ev{K: 14, I: []int64{key, b2i(dur), int64(len(m)), int64(len(bs))}, S: nameTags(string(o.Name), m), Src: idx}
			for i, b := range bs {
				e.I = append(e.I, b)
				if !dur && len(e.I)-1 < 32 {
					e.F |= 1 << uint(len(e.I)-1)
				}
				_ = i
				e.S = append(e.S, c.render(dur, b))
			}
			e.I = append(e.I, int64(len(sizes)))
			e.I = append(e.I, sizes...)
			evs[p] = append(evs[p], e)
		case "rep":
			hd := handles[o.H]
			if hd == nil || hd.op.Op != "alloc" {
				return
			}
			w := &c13Want{P: p, Name: string(hd.op.Name), Type: int64(hd.op.K), Tags: hd.tags}
			switch hd.op.K {
			case 1:
				w.Count = o.V
				hd.c.ReportCount(o.V)
			case 2:
				w.Gauge = o.V
				hd.g.ReportGauge(math.Float64frombits(uint64(o.V)))
			default:
				w.Timer = o.V
				hd.t.ReportTimer(time.Duration(o.V))
			}
			w.TAfter = time.Now().UnixNano()
			if hd.op.BigTag == 0 { // a value that does not fit a datagram is outside the property's reach: neither required nor forbidden
				wants[p] = append(wants[p], w)
			}
			f := uint32(0)
			if hd.op.K == 2 {
				f = 1 << 3
			}
			evs[p] = append(evs[p], Ev{K: 21, I: []int64{int64(p + 1), int64(o.H), int64(hd.op.K), o.V, w.TAfter}, F: f, Src: -1})
		case "samp":
			hd := handles[o.H]
			if hd == nil || hd.op.Op != "hist" {
				return
			}
			hdur := hd.op.Dur || hd.op.BigN > 0
			if o.Dur {
				hd.h.DurationBucket(0, time.Duration(o.Ub)).ReportSamples(o.V)
			} else {
				hd.h.ValueBucket(0, math.Float64frombits(uint64(o.Ub))).ReportSamples(o.V)
			}
			tAfter := time.Now().UnixNano()
			if o.Dur == hdur {
				if i := c13Find(hdur, hd.us, o.Ub); i >= 0 {
					n := len(hd.us) - 1
					wd := len(strconv.Itoa(n))
					if wd < 4 {
						wd = 4
					}
					lo := "-infinity"
					if i > 0 {
						lo = c.bstr(hdur, hd.us[i-1])
					}
					tags := append(append([]string(nil), hd.tags...),
						bidName+"\x00"+fmt.Sprintf("%0*d", wd, i),
						bktName+"\x00"+lo+"-"+c.bstr(hdur, hd.us[i]))
					sort.Strings(tags)
					wants[p] = append(wants[p], &c13Want{P: p, Name: string(hd.op.Name), Type: 1, Count: o.V, Tags: tags, TAfter: tAfter})
				}
			}
			f := uint32(0)
			if !o.Dur {
				f = 1 << 3
			}
			evs[p] = append(evs[p], Ev{K: 26, I: []int64{int64(p + 1), int64(o.H), b2i(o.Dur), o.Ub, o.V, tAfter}, F: f, Src: -1})
		case "flush":
			r.Flush()
			evs[p] = append(evs[p], Ev{K: 6, Src: -1})
		case "turnover":
			// N counters with N distinct, not yet converted tag sets: more than the reporter's pool of tag slices holds
			hd := &handle{op: o, many: make([]tally.CachedCount, 0, o.N)}
			for i := 0; i < o.N; i++ {
				hd.many = append(hd.many, r.AllocateCounter(string(o.Name), map[string]string{"turn": strconv.Itoa(i), "k": "v"}))
			}
			handles[idx] = hd
			res.NoModel = true
		case "turnrep":
			hd := handles[o.H]
			if hd == nil || hd.op.Op != "turnover" || o.N >= len(hd.many) {
				return
			}
			hd.many[o.N].ReportCount(o.V)
			wants[p] = append(wants[p], &c13Want{P: p, Name: string(hd.op.Name), Type: 1, Count: o.V,
				Tags: c13MapKey(map[string]string{"turn": strconv.Itoa(o.N), "k": "v"}), TAfter: time.Now().UnixNano()})
		case "bucket":
			hd := handles[o.H]
			if hd == nil || hd.op.Op != "hist" {
				return
			}
			hdur := hd.op.Dur || hd.op.BigN > 0
			bh := &handle{op: o, hist: hd}
			if o.Dur {
				bh.b = hd.h.DurationBucket(0, time.Duration(o.Ub))
			} else {
				bh.b = hd.h.ValueBucket(0, math.Float64frombits(uint64(o.Ub)))
			}
			if o.Dur == hdur {
				if i := c13Find(hdur, hd.us, o.Ub); i >= 0 {
					n := len(hd.us) - 1
					wd := len(strconv.Itoa(n))
					if wd < 4 {
						wd = 4
					}
					lo := "-infinity"
					if i > 0 {
						lo = c.bstr(hdur, hd.us[i-1])
					}
					tags := append(append([]string(nil), hd.tags...),
						bidName+"\x00"+fmt.Sprintf("%0*d", wd, i),
						bktName+"\x00"+lo+"-"+c.bstr(hdur, hd.us[i]))
					sort.Strings(tags)
					bh.bwant = &c13Want{Name: string(hd.op.Name), Type: 1, Tags: tags}
				}
			}
			handles[idx] = bh
		case "burst":
			hd := handles[o.H]
			if hd == nil {
				return
			}
			ws := make([]*c13Want, 0, o.N)
			switch {
			case hd.op.Op == "bucket":
				for i := 0; i < o.N; i++ {
					hd.b.ReportSamples(o.V + int64(i))
				}
				if hd.bwant != nil {
					for i := 0; i < o.N; i++ {
						w := *hd.bwant
						w.P, w.Count = p, o.V+int64(i)
						ws = append(ws, &w)
					}
				}
			case hd.op.Op == "alloc" && hd.op.K == 1:
				for i := 0; i < o.N; i++ {
					hd.c.ReportCount(o.V + int64(i))
				}
				for i := 0; i < o.N; i++ {
					ws = append(ws, &c13Want{P: p, Name: string(hd.op.Name), Type: 1, Tags: hd.tags, Count: o.V + int64(i)})
				}
			case hd.op.Op == "alloc" && hd.op.K == 2:
				for i := 0; i < o.N; i++ {
					hd.g.ReportGauge(float64(o.V + int64(i)))
				}
				for i := 0; i < o.N; i++ {
					ws = append(ws, &c13Want{P: p, Name: string(hd.op.Name), Type: 2, Tags: hd.tags, Gauge: fbits(float64(o.V + int64(i)))})
				}
			case hd.op.Op == "alloc":
				for i := 0; i < o.N; i++ {
					hd.t.ReportTimer(time.Duration(o.V + int64(i)))
				}
				for i := 0; i < o.N; i++ {
					ws = append(ws, &c13Want{P: p, Name: string(hd.op.Name), Type: 3, Tags: hd.tags, Timer: o.V + int64(i)})
				}
			default:
				return
			}
			tAfter := time.Now().UnixNano()
			for _, w := range ws {
				w.TAfter = tAfter
			}
			wants[p] = append(wants[p], ws...)
			for i := 0; i < o.N; i++ {
				v := o.V + int64(i)
				if hd.op.Op == "bucket" {
					f := uint32(0)
					if !hd.op.Dur {
						f = 1 << 3
					}
					evs[p] = append(evs[p], Ev{K: 26, I: []int64{int64(p + 1), int64(hd.op.H), b2i(hd.op.Dur), hd.op.Ub, v, tAfter}, F: f, Src: -1})
				} else {
					f := uint32(0)
					if hd.op.K == 2 {
						f, v = 1<<3, fbits(float64(v))
					}
					evs[p] = append(evs[p], Ev{K: 21, I: []int64{int64(p + 1), int64(o.H), int64(hd.op.K), v, tAfter}, F: f, Src: -1})
				}
			}
		}
	}

	hasFlush := false
	for i := range c.Ops {
		if c.Ops[i].Op == "flush" {
			hasFlush = true
		}
	}
	if nprod == 1 {
		for i := range c.Ops {
			do(0, i)
		}
	} else {
		for i := range c.Ops {
			if c.Ops[i].Pre {
				do(nprod, i)
			}
		}
		var wg sync.WaitGroup
		start := make(chan struct{})
		for p := 0; p < nprod; p++ {
			wg.Add(1)
			go func(p int) {
				defer wg.Done()
				<-start
				for i := range c.Ops {
					if c.Ops[i].P == p && !c.Ops[i].Pre {
						do(p, i)
					}
				}
			}(p)
		}
		close(start)
		wg.Wait()
	}
	r.Close()
	finished = true

	// everything must be on the sockets now
	per := make([][][]byte, c.Dests)
	for d, s := range sinks {
		got, late := s.finish(0)
		per[d] = got
		res.O.Late += late
	}
	res.O.Datagrams = len(per[0])
	res.Batches = len(per[0])

	// decode destination 0
	var got []*c13Want
	for gi, g := range per[0] {
		bs, err := c15Decode(g, proto == m3.Compact)
		if err != nil || len(bs) != 1 {
			res.fail("every_datagram_is_one_oneway_message", "datagram %d (%d bytes) does not decode as exactly one emitMetricBatchV2 message: %v", gi, len(g), err)
			continue
		}
		b := bs[0]
		if !c13SameStrs(c13TagKey(b.CommonTags), c13MapKey(wantCommon)) {
			res.fail("every_batch_carries_the_common_tags", "datagram %d carries common tags %+q, expected %+q", gi, c13TagKey(b.CommonTags), c13MapKey(wantCommon))
		}
		if len(b.Metrics) == 0 {
			res.fail("no_empty_batch", "datagram %d is an empty batch", gi)
		}
		for i := range b.Metrics {
			m := &b.Metrics[i]
			if strings.HasPrefix(m.Name, c13Internal) || oversize[m.Name] {
				continue
			}
			w := &c13Want{Name: m.Name, Type: int64(m.Value.MetricType), Count: m.Value.Count, Gauge: fbits(m.Value.Gauge),
				Timer: m.Value.Timer, Ts: m.Timestamp, Tags: c13TagKey(m.Tags), P: -1}
			if nprod > 1 && len(m.Name) >= 3 && m.Name[0] == 'p' && m.Name[2] == '.' {
				w.P = int(m.Name[1] - '0')
			} else if nprod == 1 {
				w.P = 0
			}
			got = append(got, w)
		}
	}
	// other destinations: the same datagrams
	same := make([]bool, c.Dests)
	for d := 1; d < c.Dests; d++ {
		same[d] = len(per[d]) == len(per[0])
		for i := 0; same[d] && i < len(per[0]); i++ {
			same[d] = bytes.Equal(per[d][i], per[0][i])
		}
		if !same[d] {
			res.Lossy = true
			res.fail("every_destination_receives_every_datagram", "destination %d received %d datagrams, destination 0 received %d (or their bytes differ)", d, len(per[d]), len(per[0]))
		}
	}

	eq := func(a, b *c13Want) bool {
		return a.Name == b.Name && a.Type == b.Type && a.Count == b.Count && a.Gauge == b.Gauge && a.Timer == b.Timer && c13SameStrs(a.Tags, b.Tags)
	}
	total := 0
	shared := c.Kind == "shared"
	if shared {
		// the multiset of emitted values is the multiset reported: exactly once each
		key := func(w *c13Want) string {
			return fmt.Sprintf("%q/%d/%d/%x/%d/%q", w.Name, w.Type, w.Count, uint64(w.Gauge), w.Timer, w.Tags)
		}
		cnt := map[string]int{}
		tmax := map[string]int64{}
		var first *c13Want
		for p := 0; p < nprod; p++ {
			total += len(wants[p])
			for _, w := range wants[p] {
				cnt[key(w)]++
				tmax[key(w)] = w.TAfter
			}
		}
		for _, g := range got {
			k := key(g)
			cnt[k]--
			if cnt[k] < 0 && first == nil {
				first = g
			}
			if ta, ok := tmax[k]; ok && (g.Ts < tBefore || g.Ts > ta) {
				res.fail("timestamp_between_construction_and_call", "%s carries timestamp %d, outside [%d (before NewReporter), %d (after the call)]", c13Show(g), g.Ts, tBefore, ta)
			}
		}
		if first != nil {
			res.fail("delivered_exactly_once", "emitted %s more often than it was reported (%d values reported through shared handles by %d goroutines, %d emitted)", c13Show(first), total, nprod, len(got))
		}
		missing := 0
		var miss *c13Want
		for p := 0; p < nprod; p++ {
			for _, w := range wants[p] {
				if cnt[key(w)] > 0 {
					cnt[key(w)]--
					missing++
					if miss == nil {
						miss = w
					}
				}
			}
		}
		if missing > 0 {
			res.Lossy = first == nil
			res.fail("delivered_exactly_once", "%d of %d reported values were not emitted, e.g. %s", missing, total, c13Show(miss))
		}
	}
	for p := 0; p < nprod && !shared; p++ {
		total += len(wants[p])
		var gp []*c13Want
		for _, g := range got {
			if g.P == p {
				gp = append(gp, g)
			}
		}
		for i := 0; i < len(gp) || i < len(wants[p]); i++ {
			if i >= len(gp) {
				res.Lossy = true
				res.fail("delivered_exactly_once_in_order", "producer %d: reported value %d %s was not emitted (%d of %d arrived)", p, i, c13Show(wants[p][i]), len(gp), len(wants[p]))
				break
			}
			if i >= len(wants[p]) {
				res.fail("delivered_exactly_once_in_order", "producer %d: emitted %s was never reported (or is emitted twice)", p, c13Show(gp[i]))
				break
			}
			w, g := wants[p][i], gp[i]
			if !eq(w, g) {
				// a loss shifts the sequence: lossy when the emitted one occurs later in the reported sequence
				for j := i + 1; j < len(wants[p]); j++ {
					if eq(wants[p][j], g) {
						res.Lossy = true
					}
				}
				res.fail("delivered_exactly_once_in_order", "producer %d: position %d: emitted %s, reported %s", p, i, c13Show(g), c13Show(w))
				break
			}
			w.Ts = g.Ts
			if g.Ts < tBefore || g.Ts > w.TAfter {
				res.fail("timestamp_between_construction_and_call", "producer %d: value %d %s carries timestamp %d, outside [%d (before NewReporter), %d (after the call)]", p, i, c13Show(w), g.Ts, tBefore, w.TAfter)
			}
		}
	}
	for _, g := range got {
		if !shared && (g.P < 0 || g.P >= nprod) {
			res.fail("delivered_exactly_once_in_order", "emitted %s belongs to no producer", c13Show(g))
		}
	}
	res.Reported = total
	if res.Fail != "" {
		for _, g := range got {
			if len(res.O.Got) < 12 {
				res.O.Got = append(res.O.Got, c13Show(g))
			}
		}
		for p := range wants {
			for _, w := range wants[p] {
				if len(res.O.Want) < 12 {
					res.O.Want = append(res.O.Want, c13Show(w))
				}
			}
		}
	}

	// ---- the Coq case
	// handles are numbered in the model in the order of the concatenated history
	in := []Ev{optEv}
	mi := 0
	order := append([]int{nprod}, make([]int, nprod)...)
	for p := 0; p < nprod; p++ {
		order[p+1] = p
	}
	for _, p := range order {
		for _, e := range evs[p] {
			if e.K >= 11 && e.K <= 14 {
				handles[e.Src].model = mi
				mi++
			}
		}
	}
	now := tBefore
	for _, p := range order {
		wi := 0
		for _, e := range evs[p] {
			e2 := e
			e2.Src = 0
			switch e.K {
			case 21:
				e2.I = append([]int64(nil), e.I...)
				e2.I[1] = int64(handles[e.I[1]].model)
				if nprod == 1 && wi < len(wants[p]) {
					if ts := wants[p][wi].Ts; ts != now && res.Fail == "" {
						in = append(in, Ev{K: 30, I: []int64{ts}})
						now = ts
					}
				}
				wi++
			case 26:
				e2.I = append([]int64(nil), e.I...)
				hd := handles[e.I[1]]
				e2.I[1] = int64(hd.model)
				hdur := hd.op.Dur || hd.op.BigN > 0
				if (e.I[2] == 1) == hdur && c13Find(hdur, hd.us, e.I[3]) >= 0 {
					if nprod == 1 && wi < len(wants[p]) {
						if ts := wants[p][wi].Ts; ts != now && res.Fail == "" {
							in = append(in, Ev{K: 30, I: []int64{ts}})
							now = ts
						}
					}
					wi++
				}
			}
			in = append(in, e2)
		}
	}
	obs := make([]Ev, 0, len(per[0])+c.Dests)
	for _, g := range per[0] {
		obs = append(obs, Ev{K: 50, S: []string{string(g)}})
	}
	for d := 1; d < c.Dests; d++ {
		obs = append(obs, Ev{K: 51, I: []int64{int64(d), b2i(same[d])}})
	}
	bflag := nprod == 1 && !hasFlush && sizesOK
	if !freeOK {
		free = 1 << 30
	}
	res.In, res.Obs = in, obs
	mode := b2i(nprod == 1)
	if shared {
		mode = 2
	}
	res.Params = []int64{mode, b2i(proto == m3.Binary), tBefore, free, int64(c.Dests), b2i(bflag)}
	res.SendCoq = true
	res.BFlag = bflag
	return
}

// ---------------------------------------------------------------- generators

var c13Strs = []string{"a", "b", "c", "b=c", "a=b", "=", "", "a=", "=b", "k", "v", "x_y", "é", "\xff\xfe", "host", "env", "service",
	"bucket", "bucketid", "0001", "long-value-0123456789-0123456789-0123456789", "a.b", " ", "\x00", "k=v=w", c13Long, c13Long + "x", c13Long + "y"}
const c13Long = "0123456789012345678901234567890123456789" // 40 bytes; longer strings share it as a prefix

var c13PlainStrs = []string{c13Long, c13Long + "x", c13Long + "y", "a", "b", "c", "k", "v", "x_y", "é", "\xff\xfe", "host", "", "bucket", "bucketid", "long-value-0123456789", "a.b", "\x00"}

func c13GenTags(r *Rng, plain bool) (map[B]B, int) {
	pool := c13Strs
	if plain {
		pool = c13PlainStrs
	}
	switch x := r.Intn(12); {
	case x == 0:
		return nil, 1
	case x == 1:
		return nil, 2
	}
	m := map[B]B{}
	if r.Chance(12) {
		// "all tag sets": sizes around and beyond the capacity of the reporter's pooled tag slices
		n := c13ManyTags[r.Intn(len(c13ManyTags))]
		for i := 0; i < n; i++ {
			m[B(fmt.Sprintf("t%02d", i)+pool[r.Intn(len(pool))])] = B(pool[r.Intn(len(pool))])
		}
		return m, 0
	}
	n := r.Range(1, 4)
	for i := 0; i < n; i++ {
		m[B(pool[r.Intn(len(pool))])] = B(pool[r.Intn(len(pool))])
	}
	return m, 0
}

// pool turnover: "every batch carries the configured common tags including service
// and env" — before and after more distinct tag sets were converted on the reporter
// than its pool of tag slices holds (DefaultMaxQueueSize), and every metric still
// carries "the tags it was allocated with"
func c13GenTurnover(r *Rng) c13Case {
	c := c13Case{Kind: "exact", Producers: 1}
	c13GenConfig(r, &c)
	n := m3.DefaultMaxQueueSize + r.Range(4, 300)
	c.Ops = []c13Op{
		{Op: "alloc", K: 1, Name: "before", Tags: map[B]B{"a": "b"}},
		{Op: "rep", H: 0, V: 1}, {Op: "flush"},
		{Op: "turnover", Name: "tn", N: n},
		{Op: "rep", H: 0, V: 2},
	}
	for _, i := range []int{0, 1, m3.DefaultMaxQueueSize - 4, m3.DefaultMaxQueueSize - 3, m3.DefaultMaxQueueSize - 2, m3.DefaultMaxQueueSize - 1, m3.DefaultMaxQueueSize, n - 1, r.Intn(n), r.Intn(n)} {
		c.Ops = append(c.Ops, c13Op{Op: "turnrep", H: 3, N: i, V: int64(i) + 10})
	}
	c.Ops = append(c.Ops, c13Op{Op: "flush"},
		c13Op{Op: "hist", Name: "after", Tags: map[B]B{"late": "tag"}, B: []int64{1000}, Dur: true},
		c13Op{Op: "samp", H: len(c.Ops) + 1, Ub: 1000, Dur: true, V: 7},
		c13Op{Op: "rep", H: 0, V: 3})
	return c
}

// tagged-histogram bursts under a large packet budget: "every value reported ...
// appears in exactly one emitted batch" also when hundreds of samples of a
// histogram with a sizeable tag set of its own are queued between two flushes,
// i.e. when the batches grow to the packet budget (default 32768 bytes and more)
func c13GenHistBurst(r *Rng) c13Case {
	c := c13Case{Kind: "exact", Producers: 1, Proto: []string{"compact", "binary"}[r.Intn(2)], Dests: 1,
		Queue: []int{4096, 4096, 2}[r.Intn(3)], MaxPacket: []int32{0, 32768, 48000}[r.Intn(3)], Service: "svc", Env: "test"}
	ntags := r.Range(6, 14)
	tags := map[B]B{}
	for i := 0; i < ntags; i++ {
		tags[B(fmt.Sprintf("tag%02d", i))] = B(c13Long[:r.Range(10, 40)] + strconv.Itoa(i))
	}
	dur := r.Bool()
	hist := c13Op{Op: "hist", Name: "hb", Tags: tags}
	bucket := c13Op{Op: "bucket", H: 0}
	if dur {
		hist.Dur = true
		for i := 1; i <= 10; i++ {
			hist.B = append(hist.B, int64(i)*1000000)
		}
		bucket.Ub, bucket.Dur = hist.B[r.Intn(10)], true
	} else {
		for i := 1; i <= 10; i++ {
			hist.B = append(hist.B, fbits(float64(i)*2.5))
		}
		bucket.Ub = hist.B[r.Intn(10)]
	}
	n := r.Range(200, 420)
	c.Ops = []c13Op{hist, bucket,
		{Op: "alloc", K: 1, Name: "plain", Tags: map[B]B{"a": "b"}},
		{Op: "rep", H: 2, V: 1},
		{Op: "burst", H: 1, N: n, V: 1000},
		{Op: "rep", H: 2, V: 2},
	}
	if r.Bool() {
		c.Ops = append(c.Ops, c13Op{Op: "flush"}, c13Op{Op: "burst", H: 1, N: n, V: 5000}, c13Op{Op: "rep", H: 2, V: 3})
	}
	return c
}

// one value that cannot fit a UDP datagram (a 70000-byte tag value), ordinary
// values before and after it, one to three destinations: "every value ... appears in
// exactly one emitted batch", "every datagram decodes as exactly one well-formed
// one-way thrift message" — for the ordinary values and every datagram, at every
// destination; the oversized value itself can never be sent and is not judged
func c13GenOversize(r *Rng, i int) c13Case {
	c := c13Case{Kind: "exact", Producers: 1, Proto: []string{"compact", "binary"}[i%2], Dests: 1 + i%3,
		Queue: []int{4096, 1, 2}[r.Intn(3)], Service: "svc", Env: "test"}
	c.Ops = []c13Op{
		{Op: "alloc", K: 1, Name: "ok", Tags: map[B]B{"a": "b"}},
		{Op: "hist", Name: "okh", Tags: map[B]B{"k": "v"}, B: []int64{1000, 2000}, Dur: true},
		{Op: "alloc", K: 1 + r.Intn(3), Name: "oversized-metric", Tags: map[B]B{"t": "u"}, BigTag: r.Range(66000, 90000)},
		{Op: "rep", H: 0, V: 1},
	}
	if r.Bool() {
		c.Ops = append(c.Ops, c13Op{Op: "flush"})
	}
	v := int64(2)
	for round, rounds := 0, r.Range(1, 2); round < rounds; round++ {
		c.Ops = append(c.Ops, c13Op{Op: "rep", H: 2, V: 7})
		for k, n := 0, r.Range(1, 3); k < n; k++ {
			c.Ops = append(c.Ops, c13Op{Op: "rep", H: 0, V: v})
			v++
		}
		if r.Bool() {
			c.Ops = append(c.Ops, c13Op{Op: "samp", H: 1, Ub: 1500, Dur: true, V: v})
			v++
		}
		c.Ops = append(c.Ops, c13Op{Op: "flush"}, c13Op{Op: "rep", H: 0, V: v})
		v++
		if r.Bool() {
			c.Ops = append(c.Ops, c13Op{Op: "flush"})
		}
		c.Ops = append(c.Ops, c13Op{Op: "rep", H: 0, V: v})
		v++
	}
	return c
}

// c13FitSize returns the length of the value of a tag "big" with which one report of the counter
// (name, tags + big), flushed alone under the Binary protocol with the case's options, travels in a
// datagram of exactly `fit` bytes - or 0 when that could not be established.  Two probes on reporters
// of their own: one with a 60000-byte value gives the overhead; the second, sized for fit-1 bytes,
// must show exactly fit-1 bytes.  Under the Binary protocol strings carry a fixed four-byte length,
// so one more byte of tag value is one more byte of datagram.
func c13FitSize(opts m3.Options, name string, tags map[string]string, fit int) int {
	probe := func(n int) int {
		sink := c13Listen()
		o := opts
		o.HostPorts = []string{sink.l.LocalAddr().String()}
		o.Protocol = m3.Binary
		r, err := m3.NewReporter(o)
		if err != nil {
			sink.finish(0)
			return -1
		}
		mm := map[string]string{"big": strings.Repeat("x", n)}
		for k, v := range tags {
			mm[k] = v
		}
		r.Flush()
		cnt := r.AllocateCounter(name, mm)
		cnt.ReportCount(1)
		r.Flush()
		r.Close()
		got, _ := sink.finish(0)
		size := -1
		for _, g := range got {
			if len(g) > n {
				size = len(g)
			}
		}
		return size
	}
	d0 := probe(60000)
	if d0 < 60000 {
		return 0
	}
	n1 := 60000 + (fit - 1) - d0
	if n1 <= 0 || probe(n1) != fit-1 {
		return 0
	}
	return n1 + 1
}

// a value whose datagram has exactly the largest size the transport accepts (thriftudp.MaxLength
// = 65000 bytes), and one byte less: "every value reported ... appears in exactly one emitted
// batch" - it fits, so it is required like any other; ordinary values around it
func c13GenExactFit(r *Rng, i int) c13Case {
	c := c13Case{Kind: "exact", Producers: 1, Proto: "binary", Dests: 1 + i%2, MaxPacket: []int32{1440, 0, 32768}[i%3],
		Queue: []int{4096, 2}[r.Intn(2)], Service: "svc", Env: "test"}
	fit := []int{65000, 64999, 65000, 64998}[i%4]
	c.Ops = []c13Op{
		{Op: "alloc", K: 1, Name: "ok", Tags: map[B]B{"a": "b"}},
		{Op: "rep", H: 0, V: 1},
		{Op: "flush"},
		{Op: "alloc", K: 1, Name: "exact-fit-metric", Tags: map[B]B{"t": "u"}, Fit: fit},
		{Op: "flush"},
		{Op: "rep", H: 3, V: int64(100 + i)},
		{Op: "flush"},
		{Op: "rep", H: 0, V: 2},
		{Op: "flush"},
		{Op: "rep", H: 0, V: 3},
	}
	return c
}

// tag-set sizes around the capacity of the pooled tag slices (batchPoolSize = 10) and well beyond
var c13ManyTags = []int{9, 10, 11, 12, 13, 17, 25, 40}

func c13NTags(prefix string, n int) map[B]B {
	m := map[B]B{}
	for i := 0; i < n; i++ {
		m[B(fmt.Sprintf("%s%02d", prefix, i))] = B(fmt.Sprintf("v%d", i))
	}
	return m
}

// a metric with n tags, then metrics with other, not yet converted tag sets
// (small, and large again), then a report through every handle: each must
// carry the tags it was allocated with
func c13DirectedSizes() []c13Case {
	var out []c13Case
	for k, n := range c13ManyTags {
		c := c13Case{Kind: "exact", Proto: []string{"compact", "binary"}[k%2], Dests: 1, Queue: []int{4096, 1, 2}[k%3],
			Service: "svc", Env: "test", Producers: 1}
		c.Ops = []c13Op{
			{Op: "alloc", K: 1 + k%3, Name: "many", Tags: c13NTags("t", n)},
			{Op: "alloc", K: 1 + (k+1)%3, Name: "few", Tags: map[B]B{"other": "x", "k": "v"}},
			{Op: "hist", Name: "h", Tags: c13NTags("h", n+1), B: []int64{1000, 2000}, Dur: true},
			{Op: "alloc", K: 1, Name: "many2", Tags: c13NTags("u", n)},
			{Op: "alloc", K: 2, Name: "again", Tags: c13NTags("t", n)},
			{Op: "rep", H: 0, V: 1}, {Op: "rep", H: 1, V: 2}, {Op: "samp", H: 2, Ub: 1500, Dur: true, V: 3},
			{Op: "rep", H: 3, V: 4}, {Op: "rep", H: 4, V: fbits(5)}, {Op: "flush"}, {Op: "rep", H: 0, V: 6},
		}
		out = append(out, c)
	}
	return out
}

// the colliding families: every map of a family has the same "k=v" strings
var c13Families = [][]map[B]B{
	{{"a": "b=c"}, {"a=b": "c"}},
	{{"": "=x"}, {"=": "x"}},
	{{"a": "=b"}, {"a=": "b"}},
	{{"a": "b=c", "k": "v"}, {"a=b": "c", "k": "v"}, {"k": "v", "a": "b=c"}},
	{{"a": "b", "c": "d=e"}, {"a": "b", "c=d": "e"}},
	{{"k=v": "w"}, {"k": "v=w"}},
	// the same keys, the same k=v strings, the values exchanged
	{{"a": "b=c", "a=b": "d"}, {"a": "b=d", "a=b": "c"}},
	{{"": "==", "=": ""}, {"": "=", "==": ""}},
	// maps of equal size whose differing pairs have an EMPTY value (or key) on one side:
	// a lookup that cannot tell "absent" from "" accepts the wrong cache entry
	{{"a=": ""}, {"a": "="}},
	{{"=": ""}, {"": "="}},
	{{"a=b": "", "k": "v"}, {"a": "b=", "k": "v"}},
	{{"a=": "", "b=": ""}, {"a": "=", "b": "="}, {"a=": "", "b": "="}},
	{{"": "a=b"}, {"=a": "b"}},
	{{"x=": "", "y": ""}, {"x": "=", "y": ""}},
}

// every ordered pair of distinct maps of every family: the first allocation
// fills the cache entry, the second one must not be served from it
func c13Directed() []c13Case {
	var out []c13Case
	k := 0
	for _, f := range c13Families {
		for i := range f {
			for j := range f {
				if i == j {
					continue
				}
				if c13Class(tagsOf(f[i])) != c13Class(tagsOf(f[j])) {
					fatal(fmt.Errorf("c13Families: %v and %v do not collide", f[i], f[j]))
				}
				k++
				c := c13Case{Kind: "exact", Proto: []string{"compact", "binary"}[k%2], Dests: 1, Queue: []int{4096, 1, 2}[k%3],
					Service: "svc", Env: "test", Producers: 1, Immediate: k%2 == 0}
				c.Ops = []c13Op{
					{Op: "alloc", K: 1 + k%3, Name: "first", Tags: f[i]},
					{Op: "alloc", K: 1 + (k+1)%3, Name: "second", Tags: f[j]},
					{Op: "hist", Name: "h", Tags: f[j], B: []int64{1000, 2000}, Dur: true},
					{Op: "alloc", K: 1, Name: "again", Tags: f[i]},
					{Op: "rep", H: 0, V: 1}, {Op: "rep", H: 1, V: 2}, {Op: "samp", H: 2, Ub: 1500, Dur: true, V: 3}, {Op: "rep", H: 3, V: 4},
				}
				out = append(out, c)
			}
		}
	}
	return out
}

// several goroutines report unique values through the SAME handles at the
// same time: one counter, gauge and timer handle and one histogram bucket
// handle, allocated before the goroutines start.  n = values per burst.
func c13GenShared(r *Rng, n int) c13Case {
	c := c13Case{Kind: "shared", Producers: r.Range(3, 6)}
	if n > 200 {
		c.Producers = r.Range(4, 8)
	}
	c13GenConfig(r, &c)
	if c.Queue < 100 && r.Chance(60) {
		c.Queue = 4096
	}
	if n > 200 {
		c.Dests, c.MaxPacket = 1, 0
	}
	dur := r.Bool()
	hist := c13Op{Op: "hist", Pre: true, Name: "sh", Tags: map[B]B{"a": "b"}}
	bucket := c13Op{Op: "bucket", Pre: true, H: 3}
	if dur {
		hist.B, hist.Dur = []int64{1000, 2000, 5000}, true
		bucket.Ub, bucket.Dur = []int64{1000, 2000, 5000, math.MaxInt64}[r.Intn(4)], true
	} else {
		hist.B = []int64{fbits(1), fbits(2.5), fbits(10)}
		bucket.Ub = []int64{fbits(1), fbits(2.5), fbits(10), fbits(math.MaxFloat64)}[r.Intn(4)]
	}
	tags, mode := c13GenTags(r, true)
	c.Ops = []c13Op{
		{Op: "alloc", Pre: true, K: 1, Name: "sc", Tags: tags, TagMode: mode},
		{Op: "alloc", Pre: true, K: 2, Name: "sg", Tags: map[B]B{"k": "v"}},
		{Op: "alloc", Pre: true, K: 3, Name: "st"},
		hist, bucket,
	}
	hs := []int{0, 1, 2, 4}
	r0 := r.Intn(4)
	use := []int{hs[r0]}
	if n <= 200 || r.Bool() || r0 == 3 {
		use = append(use, hs[(r0+1+r.Intn(3))%4]) // with the bucket handle always one of the plain handles
	}
	for round := 0; round < 2; round++ {
		for _, h := range use {
			for p := 0; p < c.Producers; p++ {
				c.Ops = append(c.Ops, c13Op{Op: "burst", P: p, H: h, N: n, V: int64(p+1)*10000000 + int64(round)*1000000 + int64(h)*100000})
			}
		}
		if round == 0 && r.Chance(40) {
			c.Ops = append(c.Ops, c13Op{Op: "flush", P: r.Intn(c.Producers)})
		}
	}
	return c
}

var c13Names = []string{"x", "y", "requests", "", "a.b", "é", "\xff", "name with space", "n=1", "tally", "tally.internal", c13Long, c13Long + "x", c13Long + "y", "long-name-0123456789-0123456789-0123456789-0123456789"}

var c13FBounds = []float64{0, 1, 2, 5, 10, 100, -1, -2.5, 0.1, 0.123456789, 1e-7, 1e9, 1e300, -1e300, math.MaxFloat64, -math.MaxFloat64, 3.5, 2048} // finite (C03: infinite bounds break the sentinel order)
var c13DBounds = []int64{0, 1, -1, 999, 1000, 1500, 1000000, 1500000, 1000000000, 60000000000, 3600000000000, math.MaxInt64, math.MinInt64, 123456789, -5000}

func c13GenHist(r *Rng) (bs []int64, dur bool) {
	dur = r.Bool()
	n := []int{0, 1, 2, 3, 5, 9, 12}[r.Intn(7)]
	zero := false
	for i := 0; i < n; i++ {
		if dur {
			bs = append(bs, c13DBounds[r.Intn(len(c13DBounds))])
		} else {
			f := c13FBounds[r.Intn(len(c13FBounds))]
			if f == 0 {
				if zero {
					continue
				}
				zero = true
			}
			bs = append(bs, fbits(f))
		}
	}
	return
}

func c13GenUb(r *Rng, o *c13Op) (int64, bool) {
	dur := o.Dur || o.BigN > 0
	if r.Chance(8) {
		dur = !dur // the other kind's method: a no-op
	}
	bs := c13Bounds(o)
	if dur {
		switch x := r.Intn(10); {
		case x < 6 && len(bs) > 0:
			return bs[r.Intn(len(bs))], dur
		case x < 8:
			return math.MaxInt64, dur
		case x < 9 && len(bs) > 0:
			return bs[r.Intn(len(bs))] + 1, dur
		}
		return c13DBounds[r.Intn(len(c13DBounds))], dur
	}
	switch x := r.Intn(10); {
	case x < 6 && len(bs) > 0:
		return bs[r.Intn(len(bs))], dur
	case x < 8:
		return fbits(math.MaxFloat64), dur
	case x < 9:
		return fbits(math.NaN()), dur
	}
	return fbits(c13FBounds[r.Intn(len(c13FBounds))]), dur
}

func c13GenConfig(r *Rng, c *c13Case) {
	c.Proto = []string{"compact", "binary"}[r.Intn(2)]
	c.Dests = []int{1, 1, 1, 2, 3}[r.Intn(5)]
	c.Queue = []int{1, 2, 4096, 4096, 3}[r.Intn(5)]
	c.MaxPacket = []int32{0, 0, 1440, 600, 400}[r.Intn(5)]
	c.Service, c.Env = "svc", "test"
	switch r.Intn(6) {
	case 0:
		c.Common = map[B]B{"service": "from-common", "dc": "x1"}
		c.Service = ""
	case 1:
		c.Common = map[B]B{"env": "e2", "service": "", "k=v": "=", "": ""}
	case 2:
		c.Common = map[B]B{"host": "h-given", "é": "\xff"}
		c.IncludeHost = true
	case 3:
		c.IncludeHost = true
	}
	if r.Chance(25) {
		c.BidName, c.BktName = B(r.Pick([]string{"id", "bucketid", "b=", "é"})), B(r.Pick([]string{"le", "bucket", "=", "range"}))
	}
	if r.Chance(25) {
		c.Precision = uint(r.Range(1, 9))
	}
}

func c13Gen(r *Rng, i int, noCollide bool, thorough bool) c13Case {
	c := c13Case{Kind: "exact", Producers: 1}
	c13GenConfig(r, &c)
	if i%4 == 3 {
		c.Kind, c.Producers = "multi", r.Range(2, 5)
	}
	c.Immediate = r.Chance(50)
	plain := noCollide || r.Chance(30)
	fam := -1
	if !noCollide && r.Chance(45) {
		fam = r.Intn(len(c13Families))
	}
	nops := r.Range(3, 40)
	if r.Chance(10) {
		nops = r.Range(60, 160)
	}
	if thorough && r.Chance(4) {
		nops = r.Range(300, 1200)
	}
	type live struct{ idx, p int }
	var mets, hists []live
	name := func(p int) B {
		n := c13Names[r.Intn(len(c13Names))]
		if c.Producers > 1 {
			return B(fmt.Sprintf("p%d.", p) + n)
		}
		return B(n)
	}
	for j := 0; j < nops; j++ {
		p := 0
		if c.Producers > 1 {
			p = r.Intn(c.Producers)
		}
		var mm, hh []live
		for _, l := range mets {
			if l.p == p {
				mm = append(mm, l)
			}
		}
		for _, l := range hists {
			if l.p == p {
				hh = append(hh, l)
			}
		}
		switch x := r.Intn(20); {
		case x < 4 || (len(mm) == 0 && len(hh) == 0):
			o := c13Op{Op: "alloc", P: p, K: r.Range(1, 3), Name: name(p)}
			if fam >= 0 && r.Chance(60) {
				f := c13Families[fam]
				o.Tags = f[r.Intn(len(f))]
			} else {
				o.Tags, o.TagMode = c13GenTags(r, plain)
			}
			mets = append(mets, live{len(c.Ops), p})
			c.Ops = append(c.Ops, o)
		case x < 6:
			o := c13Op{Op: "hist", P: p, Name: name(p)}
			if fam >= 0 && r.Chance(40) {
				f := c13Families[fam]
				o.Tags = f[r.Intn(len(f))]
			} else {
				o.Tags, o.TagMode = c13GenTags(r, plain)
			}
			o.B, o.Dur = c13GenHist(r)
			hists = append(hists, live{len(c.Ops), p})
			c.Ops = append(c.Ops, o)
		case x < 13 && len(mm) > 0:
			l := mm[r.Intn(len(mm))]
			v := r.I64()
			if c.Ops[l.idx].K == 2 {
				v = fbits(r.F64())
			}
			c.Ops = append(c.Ops, c13Op{Op: "rep", P: p, H: l.idx, V: v})
		case x < 18 && len(hh) > 0:
			l := hh[r.Intn(len(hh))]
			ub, dur := c13GenUb(r, &c.Ops[l.idx])
			c.Ops = append(c.Ops, c13Op{Op: "samp", P: p, H: l.idx, Ub: ub, Dur: dur, V: r.I64()})
		case x == 18 || x == 19:
			if r.Chance(50) {
				c.Ops = append(c.Ops, c13Op{Op: "flush", P: p})
			} else if len(mm) > 0 {
				l := mm[r.Intn(len(mm))]
				v := r.I64()
				if c.Ops[l.idx].K == 2 {
					v = fbits(r.F64())
				}
				c.Ops = append(c.Ops, c13Op{Op: "rep", P: p, H: l.idx, V: v})
			}
		}
	}
	if noCollide && c13Collides(&c) {
		for k := range c.Ops {
			if c.Ops[k].Op == "alloc" || c.Ops[k].Op == "hist" {
				c.Ops[k].Tags, c.Ops[k].TagMode = map[B]B{"k": B(fmt.Sprintf("%d", k))}, 0
			}
		}
	}
	return c
}

// many buckets: the id width grows beyond the minimum
func c13BigHist(r *Rng, n int) c13Case {
	c := c13Case{Kind: "exact", Producers: 1, Proto: []string{"compact", "binary"}[r.Intn(2)], Dests: 1, Queue: 4096, Service: "svc", Env: "test"}
	c.Ops = append(c.Ops, c13Op{Op: "hist", Name: "big", Tags: map[B]B{"a": "b"}, BigN: n})
	for _, i := range []int{0, 1, 9, 10, 99, 100, 999, 1000, 9998, 9999, 10000, n - 1, n} {
		if i > n {
			continue
		}
		ub := int64(7 * (i + 1))
		if i == n {
			ub = math.MaxInt64
		}
		c.Ops = append(c.Ops, c13Op{Op: "samp", H: 0, Ub: ub, Dur: true, V: int64(i)})
	}
	return c
}

var c13Witnesses = []c13Case{
	{Kind: "exact", Witness: "F13a", Proto: "compact", Dests: 1, Queue: 4096, Service: "svc", Env: "test", Producers: 1, Ops: []c13Op{
		{Op: "alloc", K: 1, Name: "x", Tags: map[B]B{"a": "b=c"}}, {Op: "alloc", K: 1, Name: "y", Tags: map[B]B{"a=b": "c"}},
		{Op: "rep", H: 0, V: 1}, {Op: "rep", H: 1, V: 2}}},
	{Kind: "exact", Witness: "F13a", Proto: "binary", Dests: 1, Queue: 1, Service: "svc", Env: "test", Producers: 1, Ops: []c13Op{
		{Op: "alloc", K: 2, Name: "g", Tags: map[B]B{"k": "v=w"}}, {Op: "hist", Name: "h", Tags: map[B]B{"k=v": "w"}, B: []int64{1000}, Dur: true},
		{Op: "samp", H: 1, Ub: 1000, Dur: true, V: 3}, {Op: "rep", H: 0, V: fbits(1.5)}, {Op: "flush"}}},
	{Kind: "exact", Witness: "F13b", Proto: "compact", Dests: 1, Queue: 4096, Service: "svc", Env: "test", Producers: 1, Immediate: true, Ops: []c13Op{
		{Op: "alloc", K: 1, Name: "first"}, {Op: "rep", H: 0, V: 1}}},
	{Kind: "exact", Witness: "F13b", Proto: "binary", Dests: 2, Queue: 1, Service: "svc", Env: "test", Producers: 1, Immediate: true, Ops: []c13Op{
		{Op: "alloc", K: 3, Name: "first", Tags: map[B]B{"a": "b"}}, {Op: "rep", H: 0, V: 5}, {Op: "rep", H: 0, V: 6}}},
}

func c13Class4(c *c13Case, res *c13Result) string {
	q := "q=4096"
	if c.Queue < 100 {
		q = fmt.Sprintf("q=%d", c.Queue)
	}
	return fmt.Sprintf("%s/%s/dests=%d/%s", c.Kind, c.Proto, c.Dests, q)
}

func init() {
	props["C13"] = func(ctx *Ctx) {
		ctx.Header("M3PipeCorr")
		ctx.Res.Rule = "case = (reporter options: protocol, 1-3 destinations, queue size, packet size, common tags, bucket tag names, precision; a history of Allocate*/Report*/ReportSamples/Flush calls from 1 (exact) or 2-5 (multi) goroutines, then Close); or a shared-handle history (3-6 goroutines reporting unique values in bursts through one counter, gauge, timer and histogram bucket handle); non-trivial = at least one value reported; distinct by case hash"
		retried, transient := 0, 0
		bcases, bmulti, reports, datagrams := 0, 0, 0, 0
		run := func(c *c13Case, waitClock bool) c13Result {
			res := c13Run(c, waitClock)
			// a value emitted more often than reported cannot be UDP loss: no second chance
			if res.Fail != "" && (res.Lossy || c.Kind != "shared") {
				retried++
				res2 := c13Run(c, waitClock)
				if res2.Fail == "" {
					transient++
				}
				return res2
			}
			return res
		}
		restrictA, restrictB := false, false
		one := func(c *c13Case, witness bool) bool {
			res := run(c, restrictB && !witness)
			key := ""
			if res.Reported > 0 {
				key = hashOf(c)
			}
			term := ""
			if res.SendCoq && !res.NoModel && res.Reported <= 900 && !(witness && res.Fail != "") {
				term = gcase(ctx.Res.Evaluations, res.Params, res.In, res.Obs)
			}
			ctx.Case(c, term, c13Class4(c, &res), key)
			if res.FitNote != "" {
				ctx.Note("%s", res.FitNote)
			}
			reports += res.Reported
			datagrams += res.Batches
			if res.BFlag {
				bcases++
				if res.Batches > 1 {
					bmulti++
				}
			}
			if res.Fail != "" {
				if witness {
					ctx.FailKnown(c.Witness, res.Pred, res.Fail, c, res.O)
				} else {
					ctx.Fail(res.Pred, res.Fail, c, res.O)
				}
				return false
			}
			return true
		}
		if ctx.Replay != nil {
			var c c13Case
			if err := json.Unmarshal(ctx.Replay, &c); err != nil {
				fatal(err)
			}
			one(&c, false)
			return
		}
		// witness stream
		if os.Getenv("VERIF_C13_SKIP_WITNESSES") == "" {
			for i := range c13Witnesses {
				w := c13Witnesses[i]
				tries := 1
				if w.Witness == "F13b" {
					tries = 6 // timeLoop may win the race now and then
				}
				ok := true
				for t := 0; t < tries && ok; t++ {
					ok = one(&w, true)
				}
				if !ok && w.Witness == "F13a" {
					restrictA = true
				}
				if !ok && w.Witness == "F13b" {
					restrictB = true
				}
			}
		}
		ctx.Res.Extra["f13a_present"], ctx.Res.Extra["f13b_present"] = restrictA, restrictB
		if restrictA {
			ctx.Note("F13a witnesses fail on this tree: the main stream uses no two tag maps whose k=v strings coincide")
		}
		if restrictB {
			ctx.Note("F13b witnesses fail on this tree: in the main stream the first report waits until timeLoop has stored the clock")
		}
		for _, raw := range ctx.CorpusCases() {
			var c c13Case
			if json.Unmarshal(raw, &c) == nil && c.Kind != "" {
				if (restrictA && c13Collides(&c)) || (restrictB && c.Immediate && c.Witness != "") {
					continue
				}
				one(&c, false)
			}
		}
		if !restrictA {
			for _, c := range c13Directed() {
				c := c
				one(&c, false)
			}
		}
		for _, c := range c13DirectedSizes() {
			c := c
			one(&c, false)
		}
		for i, nt := 0, ctx.N(3, 12); i < nt; i++ {
			c := c13GenTurnover(ctx.R)
			one(&c, false)
		}
		for i, nh := 0, ctx.N(3, 20); i < nh; i++ {
			c := c13GenHistBurst(ctx.R)
			one(&c, false)
		}
		for i, no := 0, ctx.N(6, 36); i < no; i++ {
			c := c13GenOversize(ctx.R, i)
			one(&c, false)
		}
		for i, nf := 0, ctx.N(4, 16); i < nf; i++ {
			c := c13GenExactFit(ctx.R, i)
			one(&c, false)
		}
		// shared handles: small histories through the model, large ones by the direct predicate only
		for i, ns := 0, ctx.N(14, 150); i < ns; i++ {
			c := c13GenShared(ctx.R, ctx.R.Range(8, 30))
			one(&c, false)
		}
		for i, nb := 0, ctx.N(16, 100); i < nb; i++ {
			c := c13GenShared(ctx.R, ctx.R.Range(1500, 4000))
			one(&c, false)
		}
		n := ctx.N(260, 5000)
		for i := 0; i < n; i++ {
			c := c13Gen(ctx.R, i, restrictA, ctx.Thorough())
			one(&c, false)
		}
		for _, bn := range []int{9999, 10000, 10001} {
			if bn != 10000 && !ctx.Thorough() {
				continue
			}
			c := c13BigHist(ctx.R, bn)
			one(&c, false)
		}
		ctx.Res.Extra["retried_cases"], ctx.Res.Extra["transient_failures"] = retried, transient
		ctx.Res.Extra["values_reported"], ctx.Res.Extra["datagrams_decoded"] = reports, datagrams
		ctx.Res.Extra["cases_with_batch_boundaries_compared"], ctx.Res.Extra["of_which_several_batches"] = bcases, bmulti
	}
}
